(* C18: a tiny heap model of the aliasing behaviour of pennylane/core/qscript.py (QuantumScript) and of the
   list idioms used by the tape transforms in pennylane/transforms/**.  No proofs here: this file must keep
   running for the correspondence check even when a proof elsewhere breaks.

   - a heap maps addresses to Python lists (of op codes, modelled as Z);
   - a tape is a mutable record of ADDRESSES (operations list, measurements list, optional
     _trainable_params list) plus immutable fields (shots) and the cached length of par_info;
   - `tape.operations` / `tape.measurements` return the SAME address (qscript.py: `return self._ops`);
   - `QuantumScript.__init__` does `list(ops)`: always a fresh list object;
   - `QuantumScript.copy(copy_operations, **update)` as in qscript.py: fresh lists for operations and
     measurements in every branch, shots shared (immutable), `_trainable_params` SHARED (same list object)
     unless operations/measurements/trainable_params are updated. *)
From Coq Require Import List ZArith Bool.
Import ListNotations.
Open Scope Z_scope.

Definition pylist := list Z.
Definition addr := nat.
Definition var := nat.

Record tape := mkTape {
  t_ops : addr;            (* self._ops *)
  t_meas : addr;           (* self._measurements *)
  t_shots : option Z;      (* self._shots (immutable Shots object; only total_shots is kept) *)
  t_tp : option addr;      (* self._trainable_params : None or a list object *)
  t_npar : option Z        (* cached_property par_info: only its length is kept; None = not computed yet *)
}.

Record state := mkState { lists : list pylist; tapes : list tape }.

Definition env := list (var * addr).

Fixpoint lookup (x : var) (e : env) : option addr :=
  match e with
  | [] => None
  | (y, a) :: r => if Nat.eqb x y then Some a else lookup x r
  end.

(* ---- the heap of list objects ---- *)
Definition h_get (h : list pylist) (a : addr) : option pylist := nth_error h a.

Fixpoint h_set (h : list pylist) (a : addr) (l : pylist) : list pylist :=
  match h, a with
  | [], _ => []
  | _ :: r, O => l :: r
  | x :: r, S k => x :: h_set r k l
  end.

Definition alloc (s : state) (l : pylist) : state * addr :=
  (mkState (lists s ++ [l]) (tapes s), length (lists s)).

Fixpoint t_set (ts : list tape) (i : nat) (t : tape) : list tape :=
  match ts, i with
  | [], _ => []
  | _ :: r, O => t :: r
  | x :: r, S k => x :: t_set r k t
  end.

(* ---- in-place mutations of a Python list ---- *)
Inductive mut :=
| MPop (i : Z)            (* l.pop(i) *)
| MDelItem (i : Z)        (* del l[i] *)
| MInsert (i v : Z)       (* l.insert(i, v) *)
| MAppend (v : Z)         (* l.append(v) *)
| MSetItem (i v : Z)      (* l[i] = v *)
| MReverse                (* l.reverse() *)
| MClear.                 (* l.clear() *)

(* Python index normalisation for item access: negative indices count from the end, IndexError otherwise *)
Definition norm_idx (n i : Z) : option Z :=
  let j := if i <? 0 then i + n else i in
  if (0 <=? j) && (j <? n) then Some j else None.

Fixpoint remove_nth (k : nat) (l : pylist) : pylist :=
  match l, k with
  | [], _ => []
  | _ :: r, O => r
  | x :: r, S k' => x :: remove_nth k' r
  end.

Fixpoint insert_nth (k : nat) (v : Z) (l : pylist) : pylist :=
  match k, l with
  | O, _ => v :: l
  | S _, [] => [v]
  | S k', x :: r => x :: insert_nth k' v r
  end.

Fixpoint set_nth (k : nat) (v : Z) (l : pylist) : pylist :=
  match l, k with
  | [], _ => []
  | _ :: r, O => v :: r
  | x :: r, S k' => x :: set_nth k' v r
  end.

(* None = the Python call raises (IndexError); the list is then unchanged *)
Definition apply_mut (m : mut) (l : pylist) : option pylist :=
  let n := Z.of_nat (length l) in
  match m with
  | MPop i | MDelItem i =>
      match norm_idx n i with Some j => Some (remove_nth (Z.to_nat j) l) | None => None end
  | MInsert i v =>                                   (* list.insert clamps the index *)
      let j := if i <? 0 then Z.max 0 (i + n) else Z.min i n in
      Some (insert_nth (Z.to_nat j) v l)
  | MAppend v => Some (l ++ [v])
  | MSetItem i v =>
      match norm_idx n i with Some j => Some (set_nth (Z.to_nat j) v l) | None => None end
  | MReverse => Some (rev l)
  | MClear => Some []
  end.

(* ---- helper: sorted(set(l)) of the trainable_params setter ---- *)
Fixpoint ins_sorted (x : Z) (l : pylist) : pylist :=
  match l with
  | [] => [x]
  | y :: r => if x <? y then x :: l else if x =? y then l else y :: ins_sorted x r
  end.
Definition sorted_set (l : pylist) : pylist := fold_right ins_sorted [] l.

Fixpoint range_from (a : Z) (n : nat) : pylist :=
  match n with O => [] | S k => a :: range_from (a + 1) k end.

(* ---- the commands: the idioms found in the transforms ---- *)
Inductive cmd :=
| CGetOps (x : var) (t : nat)         (* x = tape.operations            (ALIAS) *)
| CGetMeas (x : var) (t : nat)        (* x = tape.measurements          (ALIAS) *)
| CGetTP (x : var) (t : nat)          (* x = tape.trainable_params      (ALIAS; getter materialises the list lazily) *)
| CCopyList (y x : var)               (* y = x.copy() / list(x) / x[:]  (fresh list) *)
| CNewList (x : var) (l : pylist)     (* x = [...] *)
| CMut (x : var) (m : mut)            (* in-place mutation through the name x *)
| CTapeCopy (t : nat) (uops umeas : option var) (ushots : option (option Z)) (utp : option pylist) (copy_ops : bool)
                                      (* tapes.append(tape.copy(copy_operations=..., **update)) *)
| CSetTP (t : nat) (l : pylist)       (* tape.trainable_params = l      (IN-PLACE attribute write on the tape) *)
| CNewTape (xo xm : var) (shots : option Z).   (* tapes.append(QuantumScript(xo, xm, shots=...)) *)

Definition get_tape (s : state) (t : nat) : option tape := nth_error (tapes s) t.

(* len(self.par_info), cached on first use: one parameter per operation (the tie uses one-parameter gates and
   parameter-free observables) *)
Definition npar_of (s : state) (tp : tape) : option Z :=
  match t_npar tp with
  | Some n => Some n
  | None => match h_get (lists s) (t_ops tp) with Some l => Some (Z.of_nat (length l)) | None => None end
  end.

(* contents of a list of the new tape in QuantumScript.copy: the update if given, else the tape's own
   (shallow copies of the entries, i.e. the same codes); always stored in a fresh list object *)
Definition copy_src (s : state) (e : env) (u : option var) (own : addr) : option pylist :=
  match u with
  | Some x => match lookup x e with Some a => h_get (lists s) a | None => None end
  | None => h_get (lists s) own
  end.

Definition exec (c : cmd) (se : state * env) : option (state * env) :=
  let (s, e) := se in
  match c with
  | CGetOps x t => match get_tape s t with Some tp => Some (s, (x, t_ops tp) :: e) | None => None end
  | CGetMeas x t => match get_tape s t with Some tp => Some (s, (x, t_meas tp) :: e) | None => None end
  | CGetTP x t =>
      match get_tape s t with
      | Some tp =>
          match t_tp tp with
          | Some a => Some (s, (x, a) :: e)
          | None =>
              match npar_of s tp with
              | Some n =>
                  let (s1, a) := alloc s (range_from 0 (Z.to_nat n)) in
                  let tp' := mkTape (t_ops tp) (t_meas tp) (t_shots tp) (Some a) (Some n) in
                  Some (mkState (lists s1) (t_set (tapes s1) t tp'), (x, a) :: e)
              | None => None
              end
          end
      | None => None
      end
  | CCopyList y x =>
      match lookup x e with
      | Some a => match h_get (lists s) a with
                  | Some l => let (s1, b) := alloc s l in Some (s1, (y, b) :: e)
                  | None => None end
      | None => None
      end
  | CNewList x l => let (s1, b) := alloc s l in Some (s1, (x, b) :: e)
  | CMut x m =>
      match lookup x e with
      | Some a => match h_get (lists s) a with
                  | Some l => match apply_mut m l with
                              | Some l' => Some (mkState (h_set (lists s) a l') (tapes s), e)
                              | None => None end
                  | None => None end
      | None => None
      end
  | CTapeCopy t uops umeas ushots utp copy_ops =>
      match get_tape s t with
      | Some tp =>
          match copy_src s e uops (t_ops tp) with
          | Some lo =>
          match copy_src s e umeas (t_meas tp) with
          | Some lm =>
              let (s1, ao) := alloc s lo in
              let (s2, am) := alloc s1 lm in
              let sh := match ushots with Some v => v | None => t_shots tp end in
              let upd_tp := match uops, umeas with None, None => false | _, _ => true end in
              match utp with
              | Some l =>
                  let (s3, at_) := alloc s2 l in
                  Some (mkState (lists s3) (tapes s3 ++ [mkTape ao am sh (Some at_) None]), e)
              | None =>
                  let tpa := if upd_tp then None else t_tp tp in
                  Some (mkState (lists s2) (tapes s2 ++ [mkTape ao am sh tpa None]), e)
              end
          | None => None end
          | None => None end
      | None => None
      end
  | CSetTP t l =>
      match get_tape s t with
      | Some tp =>
          match npar_of s tp with
          | Some n =>
              if existsb (fun i => (i <? 0) || (n <? i)) l then None
              else
                let (s1, a) := alloc s (sorted_set l) in
                let tp' := mkTape (t_ops tp) (t_meas tp) (t_shots tp) (Some a) (Some n) in
                Some (mkState (lists s1) (t_set (tapes s1) t tp'), e)
          | None => None
          end
      | None => None
      end
  | CNewTape xo xm sh =>
      match lookup xo e, lookup xm e with
      | Some a, Some b =>
          match h_get (lists s) a, h_get (lists s) b with
          | Some lo, Some lm =>
              let (s1, ao) := alloc s lo in
              let (s2, am) := alloc s1 lm in
              Some (mkState (lists s2) (tapes s2 ++ [mkTape ao am sh None None]), e)
          | _, _ => None
          end
      | _, _ => None
      end
  end.

(* run a program; stops at the first command that raises, keeping the state reached (bool = finished) *)
Fixpoint run (p : list cmd) (se : state * env) : state * env * bool :=
  match p with
  | [] => (se, true)
  | c :: r => match exec c se with Some se' => run r se' | None => (se, false) end
  end.

(* ---- what the caller can read from a tape ---- *)
Definition tape_ops (s : state) (t : nat) : option pylist :=
  match get_tape s t with Some tp => h_get (lists s) (t_ops tp) | None => None end.
Definition tape_meas (s : state) (t : nat) : option pylist :=
  match get_tape s t with Some tp => h_get (lists s) (t_meas tp) | None => None end.
Definition tape_tp (s : state) (t : nat) : option (option pylist) :=
  match get_tape s t with
  | Some tp => Some (match t_tp tp with Some a => h_get (lists s) a | None => None end)
  | None => None end.
Definition tape_shots (s : state) (t : nat) : option (option Z) :=
  match get_tape s t with Some tp => Some (t_shots tp) | None => None end.

Definition read_tape (s : state) (t : nat) :=
  (tape_ops s t, tape_meas s t, tape_tp s t, tape_shots s t).

(* all list addresses held by tapes are allocated *)
Definition wf (s : state) : Prop :=
  forall t tp, nth_error (tapes s) t = Some tp ->
    (t_ops tp < length (lists s))%nat /\ (t_meas tp < length (lists s))%nat /\
    (forall a, t_tp tp = Some a -> (a < length (lists s))%nat).

(* the single in-place write of CompilePipeline.__call_tapes: `tape.trainable_params = argnums[i]` happens only
   when a cotransform cache supplied argnums *)
Definition pipeline_prologue (argnums : option pylist) (t : nat) : list cmd :=
  match argnums with Some l => [CSetTP t l] | None => [] end.

(* ---- correspondence: build the initial tapes, run, observe ---- *)
Definition tspec := (pylist * pylist * option Z * option pylist)%type.

Definition init_tape (s : state) (ts : tspec) : state :=
  let '(lo, lm, sh, tp) := ts in
  let (s1, ao) := alloc s lo in
  let (s2, am) := alloc s1 lm in
  match tp with
  | Some l => let (s3, a) := alloc s2 l in mkState (lists s3) (tapes s3 ++ [mkTape ao am sh (Some a) None])
  | None => mkState (lists s2) (tapes s2 ++ [mkTape ao am sh None None])
  end.

Definition init_state (l : list tspec) : state := fold_left init_tape l (mkState [] []).

Definition obs_tape (s : state) (tp : tape) : (pylist * pylist * option Z * option pylist) :=
  (match h_get (lists s) (t_ops tp) with Some l => l | None => [] end,
   match h_get (lists s) (t_meas tp) with Some l => l | None => [] end,
   t_shots tp,
   match t_tp tp with Some a => h_get (lists s) a | None => None end).

Definition alias_of (a b : tape) : (bool * bool * bool) :=
  (Nat.eqb (t_ops a) (t_ops b), Nat.eqb (t_meas a) (t_meas b),
   match t_tp a, t_tp b with Some x, Some y => Nat.eqb x y | _, _ => false end).

Fixpoint alias_pairs (l : list tape) : list (bool * bool * bool) :=
  match l with
  | [] => []
  | a :: r => map (alias_of a) r ++ alias_pairs r
  end.

Definition observation := (bool * list (pylist * pylist * option Z * option pylist) * list (bool * bool * bool))%type.

Definition observe (init : list tspec) (p : list cmd) : observation :=
  let '(s, _, ok) := run p (init_state init, []) in
  (ok, map (obs_tape s) (tapes s), alias_pairs (tapes s)).

Fixpoint eq_lz (a b : pylist) : bool :=
  match a, b with [], [] => true | x :: r, y :: s => (x =? y) && eq_lz r s | _, _ => false end.
Definition eq_oz (a b : option Z) := match a, b with None, None => true | Some x, Some y => x =? y | _, _ => false end.
Definition eq_olz (a b : option pylist) := match a, b with None, None => true | Some x, Some y => eq_lz x y | _, _ => false end.
Definition eq_tobs (a b : pylist * pylist * option Z * option pylist) : bool :=
  let '(o1, m1, s1, t1) := a in let '(o2, m2, s2, t2) := b in
  eq_lz o1 o2 && eq_lz m1 m2 && eq_oz s1 s2 && eq_olz t1 t2.
Fixpoint eq_list {A} (f : A -> A -> bool) (a b : list A) : bool :=
  match a, b with [], [] => true | x :: r, y :: s => f x y && eq_list f r s | _, _ => false end.
Definition eq_b3 (a b : bool * bool * bool) : bool :=
  let '(x1, y1, z1) := a in let '(x2, y2, z2) := b in Bool.eqb x1 x2 && Bool.eqb y1 y2 && Bool.eqb z1 z2.

Definition check_case (c : (list tspec * list cmd) * observation) : bool :=
  let '((init, p), (ok', tl', al')) := c in
  let '(ok, tl, al) := observe init p in
  Bool.eqb ok ok' && eq_list eq_tobs tl tl' && eq_list eq_b3 al al'.
