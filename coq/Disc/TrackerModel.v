(* Model of pennylane/devices/tracker.py (class Tracker), of the device wrappers in
   pennylane/devices/modifiers/simulator_tracking.py and of get_num_shots_and_executions /
   _group_measurements / _get_num_executions_for_* in pennylane/devices/qubit/sampling.py.
   No proofs here: this file must keep running for the correspondence check even when a proof breaks. *)
From Coq Require Import List ZArith Bool.
From PLV Require Import Disc.ShotsModel.
Import ListNotations.
Open Scope Z_scope.

(* ------------------------------------------------------------------ values and keyword arguments *)
(* a Python value passed to Tracker.update: None, an int, a bool (a numbers.Number!), or any
   non-numeric object (result arrays/tuples/dicts, SpecsResources, str ...) identified by a token *)
Inductive value := VNone | VInt (z : Z) | VBool (b : bool) | VTok (t : Z).
Definition kwargs := list (Z * value).          (* keyword -> value, in call order; keywords are ints *)

(* isinstance(value, Number): ints and bools; True + 0 == 1 *)
Definition num_of (v : value) : option Z :=
  match v with VInt z => Some z | VBool b => Some (if b then 1 else 0) | _ => None end.

(* keywords used by simulator_tracking *)
Definition K_batches := 1.
Definition K_simulations := 2.
Definition K_executions := 3.
Definition K_results := 4.
Definition K_shots := 5.
Definition K_resources := 6.
Definition K_derivative_batches := 7.
Definition K_derivatives := 8.
Definition K_exec_deriv_batches := 9.
Definition K_jvp_batches := 10.
Definition K_jvps := 11.
Definition K_exec_jvp_batches := 12.
Definition K_vjp_batches := 13.
Definition K_vjps := 14.
Definition K_exec_vjp_batches := 15.

(* ------------------------------------------------------------------ class Tracker *)
Record tracker := mkT {
  t_active : bool; t_persistent : bool; t_has_cb : bool;
  t_totals : list (Z * Z);                      (* dict, insertion ordered *)
  t_history : list (Z * list value);
  t_latest : kwargs;
  t_cblog : list (list (Z * Z) * kwargs)        (* what the user's callback saw: (totals, latest) per call *)
}.

Fixpoint lookup {A} (k : Z) (d : list (Z * A)) : option A :=
  match d with [] => None | (k', v) :: r => if k =? k' then Some v else lookup k r end.

(* self.history[key].append(value)  /  self.history[key] = [value] *)
Fixpoint upd_hist (k : Z) (v : value) (h : list (Z * list value)) : list (Z * list value) :=
  match h with
  | [] => [(k, [v])]
  | (k', l) :: r => if k =? k' then (k', l ++ [v]) :: r else (k', l) :: upd_hist k v r
  end.

(* self.totals[key] = value + self.totals.get(key, 0) *)
Fixpoint upd_tot (k : Z) (z : Z) (t : list (Z * Z)) : list (Z * Z) :=
  match t with
  | [] => [(k, z + 0)]
  | (k', x) :: r => if k =? k' then (k', z + x) :: r else (k', x) :: upd_tot k z r
  end.

Definition set_th (st : tracker) (t : list (Z * Z)) (h : list (Z * list value)) : tracker :=
  mkT (t_active st) (t_persistent st) (t_has_cb st) t h (t_latest st) (t_cblog st).

Definition update1 (st : tracker) (kv : Z * value) : tracker :=
  let h := upd_hist (fst kv) (snd kv) (t_history st) in
  match num_of (snd kv) with
  | Some z => set_th st (upd_tot (fst kv) z (t_totals st)) h
  | None => set_th st (t_totals st) h
  end.

Definition set_latest (st : tracker) (kw : kwargs) : tracker :=
  mkT (t_active st) (t_persistent st) (t_has_cb st) (t_totals st) (t_history st) kw (t_cblog st).

(* Tracker.update: does NOT look at self.active *)
Definition update (st : tracker) (kw : kwargs) : tracker := fold_left update1 kw (set_latest st kw).

Definition reset (st : tracker) : tracker :=
  mkT (t_active st) (t_persistent st) (t_has_cb st) [] [] [] (t_cblog st).

Definition record (st : tracker) : tracker :=
  if t_has_cb st
  then mkT (t_active st) (t_persistent st) (t_has_cb st) (t_totals st) (t_history st) (t_latest st)
           (t_cblog st ++ [(t_totals st, t_latest st)])
  else st.

Definition set_active (st : tracker) (b : bool) : tracker :=
  mkT b (t_persistent st) (t_has_cb st) (t_totals st) (t_history st) (t_latest st) (t_cblog st).

Definition init (persistent has_cb : bool) : tracker := mkT false persistent has_cb [] [] [] [].
Definition enter (st : tracker) : tracker := set_active (if t_persistent st then st else reset st) true.
Definition exit (st : tracker) : tracker := set_active st false.

(* ------------------------------------------------------------------ circuits as the tracking code sees them *)
(* terms of a Sum / LinearCombination observable: (equality class of the term under ==, isinstance Identity, wires) *)
Record tinfo := mkTI {
  ti_grouping : option Z;      (* len(obs.grouping_indices) when that is truthy *)
  ti_pauli_rep : bool;         (* bool(obs.pauli_rep) *)
  ti_terms : list (Z * bool * list Z);
  ti_qwc : Z                   (* ORACLE: len(qp.pauli.group_observables(terms)) (graph colouring) *)
}.
Record obsd := mkO {
  o_pw : option (list (Z * Z));  (* Some word iff qp.pauli.is_pauli_word(obs); word = [(wire, 1|2|3)] *)
  o_cls : Z;                     (* 1: LinearCombination, 2: any other Sum, 0: anything else *)
  o_ti : tinfo
}.
Record meas := mkM {
  m_shadow : bool;               (* ClassicalShadowMP / ShadowExpvalMP *)
  m_exp : bool;                  (* ExpectationMP *)
  m_raw : option obsd;           (* mp.obs as submitted (None = no observable) *)
  m_simp : option obsd           (* qp.simplify(mp.obs) if obs is Sum/SProd/Prod, otherwise mp.obs *)
}.
Record circuit := mkC {
  c_shots : spec;                (* the shot specification, as in C44 (ShotsModel.spec) *)
  c_meas : list meas;
  c_part : list (list Z);        (* ORACLE: compute_partition_indices of the Pauli-word observables (graph colouring) *)
  c_batch : option Z;            (* tape.batch_size *)
  c_res : Z;                     (* token of tape.specs["resources"] *)
  c_result : value               (* what the untracked execute returned for this circuit *)
}.

Definition tape_total (c : circuit) : option Z :=
  match mk (c_shots c) with Some sh => total sh | None => None end.

(* _get_num_wire_groups_for_expval_H, including its quirk: an observable that is disjoint from SOME
   earlier wire set joins "that group" without extending the wire set *)
Definition disjointb (a b : list Z) : bool := forallb (fun x => negb (existsb (Z.eqb x) b)) a.
Fixpoint wire_groups (terms : list (Z * bool * list Z)) (wires_list : list (list Z)) (added : list Z) (n : Z) : Z :=
  match terms with
  | [] => n
  | (eqc, isid, w) :: r =>
      if existsb (Z.eqb eqc) added then wire_groups r wires_list added n
      else if isid then wire_groups r wires_list added n
      else if existsb (fun ws => disjointb ws w) wires_list then wire_groups r wires_list (eqc :: added) n
      else wire_groups r (wires_list ++ [w]) (eqc :: added) (n + 1)
  end.

Definition len {A} (l : list A) : Z := Z.of_nat (length l).

Definition h_executions (ti : tinfo) : Z :=
  match ti_grouping ti with Some n => n | None => wire_groups (ti_terms ti) [] [] 0 end.
Definition sum_executions (ti : tinfo) : Z :=
  match ti_grouping ti with
  | Some n => n
  | None => if ti_pauli_rep ti then ti_qwc ti
            else len (filter (fun t => negb (snd (fst t))) (ti_terms ti))
  end.

(* _group_measurements: only the first measurement of every group matters to the caller *)
Definition eff (single : bool) (m : meas) : option obsd := if single then m_raw m else m_simp m.
(* 0: Pauli-word observable, 1: no observable, 2: own group (shadow or non-Pauli-word observable) *)
Definition kind (m : meas) : Z :=
  if m_shadow m then 2
  else match m_simp m with None => 1 | Some o => match o_pw o with Some _ => 0 | None => 2 end end.

Fixpoint nthZ {A} (l : list A) (i : Z) : option A :=
  match l with [] => None | x :: r => if i =? 0 then Some x else nthZ r (i - 1) end.

Definition group_heads (mps : list meas) (part : list (list Z)) : list (option meas) :=
  match mps with
  | [m] => [Some m]
  | _ =>
    let paulis := filter (fun m => kind m =? 0) mps in
    let noobs := filter (fun m => kind m =? 1) mps in
    let others := filter (fun m => kind m =? 2) mps in
    (match paulis with [] => [] | _ => map (fun g => match g with [] => None | i :: _ => nthZ paulis i end) part end)
    ++ (match noobs with [] => [] | m :: _ => [Some m] end)
    ++ map Some others
  end.

(* one iteration of the loop over groups in get_num_shots_and_executions;
   None = the TypeError of `num_executions += None` (shadow measurement on an analytic tape),
   or an ill-formed oracle (empty group) *)
Definition group_exec (single : bool) (shots : option Z) (g0 : option meas) : option (Z * Z) :=
  match g0 with
  | None => None
  | Some m =>
    let sh k := match shots with Some s => s * k | None => 0 end in
    let cls := match eff single m with Some o => o_cls o | None => 0 end in
    let ti := match eff single m with Some o => o_ti o | None => mkTI None false [] 0 end in
    if m_exp m && (cls =? 1) then Some (h_executions ti, sh (h_executions ti))
    else if m_exp m && (cls =? 2) then Some (sum_executions ti, sh (sum_executions ti))
    else if m_shadow m then match shots with Some s => Some (s, s) | None => None end
    else Some (1, sh 1)
  end.

Fixpoint sum_groups (single : bool) (shots : option Z) (gs : list (option meas)) (acc : Z * Z) : option (Z * Z) :=
  match gs with
  | [] => Some acc
  | g :: r => match group_exec single shots g with
              | None => None
              | Some (e, s) => sum_groups single shots r (fst acc + e, snd acc + s)
              end
  end.

Definition is_single {A} (l : list A) : bool := match l with [_] => true | _ => false end.

(* get_num_shots_and_executions : (qpu executions, shots) *)
Definition nse (c : circuit) : option (Z * Z) :=
  let shots := tape_total c in
  match sum_groups (is_single (c_meas c)) shots (group_heads (c_meas c) (c_part c)) (0, 0) with
  | None => None
  | Some (e, s) =>
      match c_batch c with
      | Some b => if b =? 0 then Some (e, s)
                  else Some (e * b, match shots with Some _ => s * b | None => s end)
      | None => Some (e, s)
      end
  end.

(* sanity of the recorded graph-colouring oracle: a partition of the Pauli measurements into
   qubit-wise commuting groups *)
Definition qwc (a b : list (Z * Z)) : bool :=
  forallb (fun wp => match lookup (fst wp) b with None => true | Some q => snd wp =? q end) a.
Fixpoint pairwise {A} (f : A -> A -> bool) (l : list A) : bool :=
  match l with [] => true | x :: r => forallb (f x) r && pairwise f r end.
Fixpoint rangeZ (n : nat) (from : Z) : list Z := match n with O => [] | S k => from :: rangeZ k (from + 1) end.
Definition oracle_ok (c : circuit) : bool :=
  match c_meas c with
  | [_] => true
  | mps =>
    let words := flat_map (fun m => if kind m =? 0 then match m_simp m with Some o => match o_pw o with Some w => [w] | None => [] end | None => [] end else []) mps in
    let flat := concat (c_part c) in
    (length flat =? length words)%nat
    && forallb (fun i => existsb (Z.eqb i) flat) (rangeZ (length words) 0)
    && forallb (fun g => match g with [] => false | _ => true end) (c_part c)
    && forallb (fun g => pairwise qwc (flat_map (fun i => match nthZ words i with Some w => [w] | None => [] end) g)) (c_part c)
  end.

(* ------------------------------------------------------------------ simulator_tracking wrappers *)
Inductive event := EUpdate (kw : kwargs) | ERecord.

Definition apply_event (st : tracker) (e : event) : tracker :=
  match e with EUpdate kw => update st kw | ERecord => record st end.
Definition run_events (st : tracker) (es : list event) : tracker := fold_left apply_event es st.

Inductive arg := ASingle (c : circuit) | ABatch (cs : list circuit).
Definition batch_of (a : arg) : list circuit := match a with ASingle c => [c] | ABatch cs => cs end.

Inductive call :=
| CExecute (a : arg)
| CExecuteFailed               (* the untracked execute raised: the wrapper never reaches the tracker *)
| CDeriv (a : arg)
| CExecDeriv (a : arg)
| CJvp (a : arg)
| CExecJvp (a : arg)
| CVjp (a : arg)
| CExecVjp (a : arg).

Definition has_shots (c : circuit) : bool := match tape_total c with Some _ => true | None => false end.

Definition exec_kwargs (c : circuit) (ex sh : Z) : kwargs :=
  if has_shots c
  then [(K_simulations, VInt 1); (K_executions, VInt ex); (K_results, c_result c); (K_shots, VInt sh);
        (K_resources, VTok (c_res c))]
  else [(K_simulations, VInt 1); (K_executions, VInt ex); (K_results, c_result c);
        (K_resources, VTok (c_res c))].

(* the loop `for r, c in zip(batch_results, batch)`; an exception in get_num_shots_and_executions
   propagates and ends the loop *)
Fixpoint exec_events (cs : list circuit) : list event :=
  match cs with
  | [] => []
  | c :: r => match nse c with
              | None => []
              | Some (ex, sh) => EUpdate (exec_kwargs c ex sh) :: ERecord :: exec_events r
              end
  end.

Definition res_events (cs : list circuit) : list event :=
  map (fun c => EUpdate [(K_resources, VTok (c_res c))]) cs.

Definition call_events (c : call) : list event :=
  match c with
  | CExecute a => EUpdate [(K_batches, VInt 1)] :: ERecord :: exec_events (batch_of a)
  | CExecuteFailed => []
  | CDeriv a => [EUpdate [(K_derivative_batches, VInt 1); (K_derivatives, VInt (len (batch_of a)))]; ERecord]
  | CExecDeriv a => res_events (batch_of a) ++
      [EUpdate [(K_exec_deriv_batches, VInt 1); (K_executions, VInt (len (batch_of a)));
                (K_derivatives, VInt (len (batch_of a)))]; ERecord]
  | CJvp a => [EUpdate [(K_jvp_batches, VInt 1); (K_jvps, VInt (len (batch_of a)))]; ERecord]
  | CExecJvp a => res_events (batch_of a) ++
      [EUpdate [(K_exec_jvp_batches, VInt 1); (K_executions, VInt (len (batch_of a)));
                (K_jvps, VInt (len (batch_of a)))]; ERecord]
  | CVjp a => [EUpdate [(K_vjp_batches, VInt 1); (K_vjps, VInt (len (batch_of a)))]; ERecord]
  | CExecVjp a => res_events (batch_of a) ++
      [EUpdate [(K_exec_vjp_batches, VInt 1); (K_executions, VInt (len (batch_of a)));
                (K_vjps, VInt (len (batch_of a)))]; ERecord]
  end.

(* `if self.tracker.active:` *)
Definition device_call (st : tracker) (c : call) : tracker :=
  if t_active st then run_events st (call_events c) else st.

(* ------------------------------------------------------------------ programs *)
Inductive op :=
| OEnter | OExit | OReset
| OUpdate (kw : kwargs)        (* user code calling tracker.update with keyword arguments kw directly *)
| ORecord
| OCall (c : call).

Definition step (st : tracker) (o : op) : tracker :=
  match o with
  | OEnter => enter st
  | OExit => exit st
  | OReset => reset st
  | OUpdate kw => update st kw
  | ORecord => record st
  | OCall c => device_call st c
  end.
Definition run_ops (st : tracker) (ops : list op) : tracker := fold_left step ops st.

(* ------------------------------------------------------------------ correspondence check *)
Definition eq_value (a b : value) : bool :=
  match a, b with
  | VNone, VNone => true
  | VInt x, VInt y => x =? y
  | VBool x, VBool y => Bool.eqb x y
  | VTok x, VTok y => x =? y
  | _, _ => false
  end.
Fixpoint eq_list {A} (f : A -> A -> bool) (a b : list A) : bool :=
  match a, b with [], [] => true | x :: r, y :: s => f x y && eq_list f r s | _, _ => false end.
(* dictionaries are compared as finite maps (key order is not part of the property) *)
Definition eq_dict {A} (f : A -> A -> bool) (a b : list (Z * A)) : bool :=
  (length a =? length b)%nat &&
  forallb (fun kv => match lookup (fst kv) a with Some v => f v (snd kv) | None => false end) b.
(* keyword arguments keep their order *)
Definition eq_kw (a b : kwargs) : bool := eq_list (fun x y => (fst x =? fst y) && eq_value (snd x) (snd y)) a b.

Definition observation := (bool * list (Z * Z) * list (Z * list value) * kwargs * list (list (Z * Z) * kwargs))%type.

Definition observe_t (st : tracker) : observation :=
  (t_active st, t_totals st, t_history st, t_latest st, t_cblog st).

Definition eq_observation (a b : observation) : bool :=
  match a, b with
  | (ac, t, h, l, cb), (ac', t', h', l', cb') =>
      Bool.eqb ac ac' && eq_dict Z.eqb t t' && eq_dict (eq_list eq_value) h h' && eq_kw l l'
      && eq_list (fun x y => eq_dict Z.eqb (fst x) (fst y) && eq_kw (snd x) (snd y)) cb cb'
  end.

Definition circuits_of_call (c : call) : list circuit :=
  match c with
  | CExecute a | CDeriv a | CExecDeriv a | CJvp a | CExecJvp a | CVjp a | CExecVjp a => batch_of a
  | CExecuteFailed => []
  end.
Definition ops_oracle_ok (ops : list op) : bool :=
  forallb (fun o => match o with OCall c => forallb oracle_ok (circuits_of_call c) | _ => true end) ops.

(* a case: Tracker(dev, callback, persistent) followed by the program; expected = what the real tracker held *)
Definition case := (bool * bool * list op)%type.
Definition run_case (c : case) : observation :=
  match c with (persistent, has_cb, ops) => observe_t (run_ops (init persistent has_cb) ops) end.
Definition check_case (ce : case * observation) : bool :=
  match fst ce with (_, _, ops) => ops_oracle_ok ops end && eq_observation (run_case (fst ce)) (snd ce).

(* second kind of case: get_num_shots_and_executions alone *)
Definition check_nse (ce : circuit * option (Z * Z)) : bool :=
  oracle_ok (fst ce) &&
  match nse (fst ce), snd ce with
  | None, None => true
  | Some (e, s), Some (e', s') => (e =? e') && (s =? s')
  | _, _ => false
  end.
