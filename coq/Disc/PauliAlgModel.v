(* Model of pennylane/pauli/pauli_arithmetic.py (PauliWord / PauliSentence arithmetic and matrices).
   No proofs here: this file must keep running for the correspondence check even when a proof breaks.

   Coefficients are Gaussian integers (pairs of Z, exact).  The harness feeds Gaussian DYADIC rationals as
   numerators over a common power-of-two denominator that it tracks itself (D for linear operations, D*D for
   bilinear ones), so every quantity in the model is an exact integer and equality is Leibniz equality. *)
From Coq Require Import List ZArith Bool.
Import ListNotations.
Open Scope Z_scope.

(* ------------------------------------------------------------------ single-qubit Paulis *)
Inductive P1 := PI | PX | PY | PZ.

Definition p1_eqb (a b : P1) : bool :=
  match a, b with PI, PI | PX, PX | PY, PY | PZ, PZ => true | _, _ => false end.

(* ------------------------------------------------------------------ Gaussian integers *)
Definition GZ := (Z * Z)%type.
Definition c0 : GZ := (0, 0).
Definition c1 : GZ := (1, 0).
Definition cadd (x y : GZ) : GZ := (fst x + fst y, snd x + snd y).
Definition cmul (x y : GZ) : GZ := (fst x * fst y - snd x * snd y, fst x * snd y + snd x * fst y).
Definition cneg (x : GZ) : GZ := (- fst x, - snd x).
Definition ceqb (x y : GZ) : bool := (fst x =? fst y) && (snd x =? snd y).
(* i^k *)
Definition iph (k : Z) : GZ :=
  match k mod 4 with 0 => (1, 0) | 1 => (0, 1) | 2 => (-1, 0) | _ => (0, -1) end.

(* ------------------------------------------------------------------ the multiplication table
   mul_map[a][b] = (factor, new_op), factor = i^k.  Transcribed from _map_I/_map_X/_map_Y/_map_Z. *)
Definition mul1 (a b : P1) : Z * P1 :=
  match a, b with
  | PI, PI => (0, PI) | PI, PX => (0, PX) | PI, PY => (0, PY) | PI, PZ => (0, PZ)
  | PX, PI => (0, PX) | PX, PX => (0, PI) | PX, PY => (1, PZ) | PX, PZ => (3, PY)
  | PY, PI => (0, PY) | PY, PX => (3, PZ) | PY, PY => (0, PI) | PY, PZ => (1, PX)
  | PZ, PI => (0, PZ) | PZ, PX => (1, PY) | PZ, PY => (3, PX) | PZ, PZ => (0, PI)
  end.

(* anticom_map *)
Definition anticom1 (a b : P1) : Z :=
  match a, b with
  | PX, PY | PX, PZ | PY, PX | PY, PZ | PZ, PX | PZ, PY => 1
  | _, _ => 0
  end.

Definition all_p1 : list P1 := [PI; PX; PY; PZ].

(* the table exported from the running module is compared with the model's table *)
Definition check_table (t : list (P1 * P1 * Z * P1)) (ac : list (P1 * P1 * Z)) : bool :=
  (Nat.eqb (length t) 16) && (Nat.eqb (length ac) 16) &&
  forallb (fun e => match e with (a, b, k, r) =>
             let m := mul1 a b in (fst m =? k) && p1_eqb (snd m) r end) t &&
  forallb (fun e => match e with (a, b, k) => anticom1 a b =? k end) ac &&
  forallb (fun a => forallb (fun b =>
     existsb (fun e => match e with (a', b', _, _) => p1_eqb a a' && p1_eqb b b' end) t &&
     existsb (fun e => match e with (a', b', _) => p1_eqb a a' && p1_eqb b b' end) ac) all_p1) all_p1.

(* ------------------------------------------------------------------ Pauli words
   canonical form: association list wire code -> {X,Y,Z}, strictly increasing wire codes, no PI. *)
Definition word := list (Z * P1).

Fixpoint winsert (i : Z) (p : P1) (w : word) : word :=
  match w with
  | [] => [(i, p)]
  | (j, q) :: r => if i <? j then (i, p) :: w else (j, q) :: winsert i p r
  end.

(* PauliWord(mapping): strip identities (and canonicalise the dict: sort by wire code) *)
Fixpoint mkword (raw : list (Z * P1)) : word :=
  match raw with
  | [] => []
  | (i, p) :: r => match p with PI => mkword r | _ => winsert i p (mkword r) end
  end.

Fixpoint lookup (w : word) (i : Z) : P1 :=       (* __missing__ : identity *)
  match w with [] => PI | (j, p) :: r => if i =? j then p else lookup r i end.

Fixpoint wmem (i : Z) (w : word) : bool :=
  match w with [] => false | (j, _) :: r => (i =? j) || wmem i r end.

Fixpoint weqb (a b : word) : bool :=
  match a, b with
  | [], [] => true
  | (i, p) :: a', (j, q) :: b' => (i =? j) && p1_eqb p q && weqb a' b'
  | _, _ => false
  end.

(* _matmul: `base` = the longer word, `iterator` = the other one; sw = swapped.
   For a wire present in both: factor, new_op = mul_map[term][base[wire]] if swapped
   else mul_map[base[wire]][term]; when new_op == I the wire is deleted and the factor is NOT multiplied in. *)
Fixpoint wmerge (sw : bool) (a : word) : word -> Z * word :=
  fix go (b : word) : Z * word :=
    match a, b with
    | [], _ => (0, b)
    | _, [] => (0, a)
    | (i, p) :: a', (j, q) :: b' =>
        if i <? j then let '(k, w) := wmerge sw a' b in (k, (i, p) :: w)
        else if j <? i then let '(k, w) := go b' in (k, (j, q) :: w)
        else let '(k, w) := wmerge sw a' b' in
             let '(k1, r) := if sw then mul1 q p else mul1 p q in
             match r with PI => (k, w) | _ => (k1 + k, (i, r) :: w) end
    end.

(* self._matmul(other) : (phase exponent k, word); coefficient = i^k *)
Definition wmul (a b : word) : Z * word :=
  if (length b <=? length a)%nat then wmerge false a b else wmerge true b a.

(* commutes_with: wires = set(self) & set(other); sum of anticom_map entries; parity *)
Fixpoint acount (a b : word) : Z :=
  match a with
  | [] => 0
  | (i, p) :: r => (if wmem i b then anticom1 p (lookup b i) else 0) + acount r b
  end.
Definition commutes (a b : word) : bool := (acount a b) mod 2 =? 0.

(* _commutator : (PauliWord({}), 0.0) if they commute, else (new_word, 2*coeff) *)
Definition wcomm (a b : word) : word * GZ :=
  if commutes a b then ([], c0) else let '(k, w) := wmul a b in (w, cmul (2, 0) (iph k)).

(* ------------------------------------------------------------------ Pauli sentences
   a dict word -> coefficient in insertion order; `supd` is `d[w] = d[w] + c` (with __missing__ = 0) *)
Definition sentence := list (word * GZ).

Fixpoint supd (w : word) (c : GZ) (s : sentence) : sentence :=
  match s with
  | [] => [(w, c)]
  | (w', c') :: r => if weqb w w' then (w', cadd c' c) :: r else (w', c') :: supd w c r
  end.

(* coefficient of u (sum over all entries with that key; keys are unique in dicts) *)
Fixpoint coeff (s : sentence) (u : word) : GZ :=
  match s with [] => c0 | (w, c) :: r => cadd (if weqb w u then c else c0) (coeff r u) end.

(* __add__: for key in smaller: larger[key] += smaller[key] *)
Fixpoint sadd_into (acc l : sentence) : sentence :=
  match l with [] => acc | (w, c) :: r => sadd_into (supd w c acc) r end.
Definition sadd (a b : sentence) : sentence :=
  if (length a <? length b)%nat then sadd_into b a else sadd_into a b.

(* __mul__ by a scalar *)
Definition smul (c : GZ) (s : sentence) : sentence := map (fun e => (fst e, cmul c (snd e))) s.

(* __sub__ : self + -1 * other *)
Definition ssub (a b : sentence) : sentence := sadd a (smul (-1, 0) b).

(* __matmul__ : nested loops, final[prod] = final[prod] + coeff * self[pw1] * other[pw2] *)
Fixpoint mm_row (w1 : word) (x1 : GZ) (acc b : sentence) : sentence :=
  match b with
  | [] => acc
  | (w2, x2) :: r => let '(k, w) := wmul w1 w2 in
                     mm_row w1 x1 (supd w (cmul (cmul (iph k) x1) x2) acc) r
  end.
Fixpoint mm (acc a b : sentence) : sentence :=
  match a with [] => acc | (w1, x1) :: r => mm (mm_row w1 x1 acc b) r b end.
Definition smatmul (a b : sentence) : sentence :=
  match a, b with [], _ => [] | _, [] => [] | _, _ => mm [] a b end.

(* commutator : nested loops; entries whose commutator WORD is empty are skipped *)
Fixpoint cm_row (w1 : word) (x1 : GZ) (acc b : sentence) : sentence :=
  match b with
  | [] => acc
  | (w2, x2) :: r =>
      let '(w, c) := wcomm w1 w2 in
      cm_row w1 x1 (match w with [] => acc | _ => supd w (cmul (cmul c x1) x2) acc end) r
  end.
Fixpoint cm (acc a b : sentence) : sentence :=
  match a with [] => acc | (w1, x1) :: r => cm (cm_row w1 x1 acc b) r b end.
Definition scomm (a b : sentence) : sentence := cm [] a b.

(* PauliWord.commutator(PauliWord) *)
Definition wcomm_sentence (a b : word) : sentence :=
  let '(w, c) := wcomm a b in if ceqb c c0 then [] else [(w, c)].

(* trace(): self.get(pw_id, 0.0) *)
Fixpoint strace (s : sentence) : GZ :=
  match s with [] => c0 | (w, c) :: r => match w with [] => c | _ => strace r end end.

(* ------------------------------------------------------------------ matrices
   an n-qubit matrix is a function of the row bits and the column bits (most significant = first wire of
   the wire order); `bits n` enumerates the indices 0 .. 2^n-1 in order. *)
Definition mat1 (p : P1) (r c : bool) : GZ :=
  match p, r, c with
  | PI, false, false => (1, 0) | PI, true, true => (1, 0)
  | PX, false, true => (1, 0) | PX, true, false => (1, 0)
  | PY, false, true => (0, -1) | PY, true, false => (0, 1)
  | PZ, false, false => (1, 0) | PZ, true, true => (-1, 0)
  | _, _, _ => (0, 0)
  end.

Fixpoint bits (n : nat) : list (list bool) :=
  match n with
  | O => [[]]
  | S k => map (cons false) (bits k) ++ map (cons true) (bits k)
  end.

(* Kronecker product of the single-qubit matrices of a full word (one letter per wire of the order) *)
Fixpoint kmat (l : list P1) (r c : list bool) : GZ :=
  match l, r, c with
  | [], [], [] => c1
  | p :: l', a :: r', b :: c' => cmul (mat1 p a b) (kmat l' r' c')
  | _, _, _ => c0
  end.

Definition csum (l : list GZ) : GZ := fold_right cadd c0 l.

(* matrix product of n-qubit matrices *)
Definition mmul (n : nat) (M N : list bool -> list bool -> GZ) (r c : list bool) : GZ :=
  csum (map (fun k => cmul (M r k) (N k c)) (bits n)).

Definition mtrace (n : nat) (M : list bool -> list bool -> GZ) : GZ := csum (map (fun r => M r r) (bits n)).

(* full_word = [self[wire] for wire in wire_order] *)
Definition expand (order : list Z) (w : word) : list P1 := map (lookup w) order.

Definition wmat (order : list Z) (w : word) : list bool -> list bool -> GZ := kmat (expand order w).

Fixpoint smat (order : list Z) (s : sentence) (r c : list bool) : GZ :=
  match s with [] => c0 | (w, x) :: rest => cadd (cmul x (wmat order w r c)) (smat order rest r c) end.

Definition to_lists (n : nat) (M : list bool -> list bool -> GZ) : list (list GZ) :=
  map (fun r => map (fun c => M r c) (bits n)) (bits n).

Fixpoint zmem (i : Z) (l : list Z) : bool := match l with [] => false | j :: r => (i =? j) || zmem i r end.
Fixpoint znodup (l : list Z) : bool := match l with [] => true | j :: r => negb (zmem j r) && znodup r end.
Definition covers (order : list Z) (w : word) : bool := forallb (fun e => zmem (fst e) order) w.

(* to_mat(wire_order): None = an exception (wire order does not contain the wires) *)
Definition to_mat (order : list Z) (s : sentence) : option (list (list GZ)) :=
  if znodup order && forallb (fun e => covers order (fst e)) s
  then Some (to_lists (length order) (smat order s)) else None.

(* ------------------------------------------------------------------ correspondence cases *)
Definition rawsent := list (list (Z * P1) * GZ).
Definition mksent (r : rawsent) : sentence := map (fun e => (mkword (fst e), snd e)) r.

Inductive sop :=
| OAdd (a b : rawsent)            (* a + b *)
| OSub (a b : rawsent)            (* a - b *)
| OMatmul (a b : rawsent)         (* a @ b  (also word @ word, word @ sentence) *)
| OSmul (c : GZ) (a : rawsent)    (* c * a *)
| OComm (a b : rawsent)           (* a.commutator(b) *)
| OCommWS (a b : rawsent)         (* word.commutator(sentence) = -1.0 * sentence.commutator(word) *)
| OCommWW (a b : list (Z * P1))   (* word.commutator(word) *)
| OId (a : rawsent).              (* pauli_sentence(a.operation()), pauli_decompose(a.to_mat()) *)

Definition run_sop (o : sop) : sentence :=
  match o with
  | OAdd a b => sadd (mksent a) (mksent b)
  | OSub a b => ssub (mksent a) (mksent b)
  | OMatmul a b => smatmul (mksent a) (mksent b)
  | OSmul c a => smul c (mksent a)
  | OComm a b => scomm (mksent a) (mksent b)
  | OCommWS a b => smul (-1, 0) (scomm (mksent b) (mksent a))
  | OCommWW a b => wcomm_sentence (mkword a) (mkword b)
  | OId a => mksent a
  end.

(* equality of sentences as finite maps word -> coefficient (an absent key is a zero coefficient) *)
Definition seqb (a b : sentence) : bool :=
  forallb (fun e => ceqb (coeff a (fst e)) (coeff b (fst e))) a &&
  forallb (fun e => ceqb (coeff a (fst e)) (coeff b (fst e))) b.

Fixpoint eq_row (a b : list GZ) : bool :=
  match a, b with [], [] => true | x :: r, y :: s => ceqb x y && eq_row r s | _, _ => false end.
Fixpoint eq_mat (a b : list (list GZ)) : bool :=
  match a, b with [], [] => true | x :: r, y :: s => eq_row x y && eq_mat r s | _, _ => false end.

Inductive case :=
| KTable (t : list (P1 * P1 * Z * P1)) (ac : list (P1 * P1 * Z))
| KSent (o : sop) (expected : rawsent)
| KCommutes (a b : list (Z * P1)) (expected : bool)
| KTrace (a : rawsent) (expected : GZ)
| KMat (order : list Z) (a : rawsent) (expected : option (list (list GZ))).

Definition check_case (c : case) : bool :=
  match c with
  | KTable t ac => check_table t ac
  | KSent o e => seqb (run_sop o) (mksent e)
  | KCommutes a b e => Bool.eqb (commutes (mkword a) (mkword b)) e
  | KTrace a e => ceqb (strace (mksent a)) e
  | KMat order a e =>
      match to_mat order (mksent a), e with
      | None, None => true
      | Some m, Some m' => eq_mat m m'
      | _, _ => false
      end
  end.

(* ------------------------------------------------------------------ specification-level definitions
   (used only in theorem statements; not part of the transcription) *)
Definition csub (x y : GZ) : GZ := cadd x (cneg y).

(* wire-wise product of two full words (one letter per wire): phases add, letters multiply *)
Fixpoint fmul (l1 l2 : list P1) : Z * list P1 :=
  match l1, l2 with
  | p :: r1, q :: r2 => let kl := fmul r1 r2 in (fst (mul1 p q) + fst kl, snd (mul1 p q) :: snd kl)
  | _, _ => (0, [])
  end.

Definition keys (w : word) : list Z := map fst w.

(* canonical words: strictly increasing wire codes, no identity letters *)
Definition lb (i : Z) (w : word) : Prop := match w with [] => True | (j, _) :: _ => i < j end.
Fixpoint wf (w : word) : Prop :=
  match w with [] => True | (i, p) :: r => p <> PI /\ lb i r /\ wf r end.

(* the wire order contains the wires of the word *)
Definition covered (order : list Z) (w : word) : Prop := forall i, In i (keys w) -> In i order.

(* linear functional of a sentence: sum of coefficient * h(word) *)
Fixpoint lin (h : word -> GZ) (s : sentence) : GZ :=
  match s with [] => c0 | (w, x) :: r => cadd (cmul x (h w)) (lin h r) end.

(* the bilinear form every product of sentences must realise *)
Definition bil (h : word -> GZ) (a b : sentence) : GZ :=
  lin (fun w1 => lin (fun w2 => cmul (iph (fst (wmul w1 w2))) (h (snd (wmul w1 w2)))) b) a.

Definition delta (u w : word) : GZ := if weqb w u then c1 else c0.

(* wires where both words act and with different letters *)
Definition differ (p q : P1) : bool :=
  match p, q with PI, _ | _, PI => false | _, _ => negb (p1_eqb p q) end.
Definition overlap (a b : word) : Z :=
  Z.of_nat (length (filter (fun i => differ (lookup a i) (lookup b i)) (nodup Z.eq_dec (keys a ++ keys b)))).

Definition sent_wf (order : list Z) (s : sentence) : Prop :=
  forall w x, In (w, x) s -> wf w /\ covered order w.
