(* Lemmas about Disc/FoldModel.v (fold_global, add_noise, insert, exact extrapolation). *)
From Coq Require Import List ZArith Lia Bool ZifyBool QArith Qabs Qfield.
From PLV Require Import Disc.FoldModel.
Import ListNotations.
Open Scope Z_scope.

(* ================================================================ generic list facts *)
Lemma fold_left_app_acc {A B} (f : B -> list A) (l : list B) (a : list A) :
  fold_left (fun acc x => acc ++ f x) l a = a ++ flat_map f l.
Proof.
  revert a; induction l as [|x l IH]; intros a; cbn [fold_left flat_map].
  - now rewrite app_nil_r.
  - rewrite IH, app_assoc. reflexivity.
Qed.

Lemma filter_all_true {A} (P : A -> bool) (l : list A) :
  (forall x, In x l -> P x = true) -> filter P l = l.
Proof.
  induction l as [|x l IH]; intros H; cbn [filter]; [reflexivity|].
  rewrite (H x (or_introl eq_refl)), IH; [reflexivity|]. intros y Hy; apply H; now right.
Qed.

Lemma filter_all_false {A} (P : A -> bool) (l : list A) :
  (forall x, In x l -> P x = false) -> filter P l = [].
Proof.
  induction l as [|x l IH]; intros H; cbn [filter]; [reflexivity|].
  rewrite (H x (or_introl eq_refl)), IH; [reflexivity|]. intros y Hy; apply H; now right.
Qed.

Lemma filter_flat_map {A B} (P : A -> bool) (f : B -> list A) (l : list B) :
  filter P (flat_map f l) = flat_map (fun x => filter P (f x)) l.
Proof.
  induction l as [|x l IH]; cbn [flat_map filter]; [reflexivity|]. now rewrite filter_app, IH.
Qed.

Lemma flat_map_ext_in {A B} (f g : A -> list B) (l : list A) :
  (forall x, In x l -> f x = g x) -> flat_map f l = flat_map g l.
Proof.
  induction l as [|x l IH]; intros H; cbn [flat_map]; [reflexivity|].
  rewrite (H x (or_introl eq_refl)), IH; [reflexivity|]. intros y Hy; apply H; now right.
Qed.

Lemma flat_map_singleton {A} (l : list A) : flat_map (fun x => [x]) l = l.
Proof. induction l as [|x l IH]; cbn; [reflexivity|now rewrite IH]. Qed.

Lemma firstn_In {A} n (l : list A) x : In x (firstn n l) -> In x l.
Proof. intros H. rewrite <- (firstn_skipn n l). apply in_or_app. now left. Qed.

Lemma skipn_In {A} n (l : list A) x : In x (skipn n l) -> In x l.
Proof. intros H. rewrite <- (firstn_skipn n l). apply in_or_app. now right. Qed.

(* ================================================================ decidable equality on gates *)
Lemma eq_lz_eq a b : eq_lz a b = true <-> a = b.
Proof.
  revert b; induction a as [|x a IH]; intros [|y b]; cbn [eq_lz]; split; intros H; try congruence; try reflexivity.
  - apply andb_true_iff in H as [H1 H2]. apply Z.eqb_eq in H1. apply IH in H2. congruence.
  - inversion H; subst. rewrite Z.eqb_refl. cbn. now apply IH.
Qed.

Lemma gate_eqb_eq a b : gate_eqb a b = true <-> a = b.
Proof.
  revert b; induction a as [n w p|n w p|x IH]; intros [n' w' p'|n' w' p'|y]; cbn [gate_eqb]; split; intros H;
    try congruence; try reflexivity.
  - apply andb_true_iff in H as [H H3]. apply andb_true_iff in H as [H1 H2].
    apply Z.eqb_eq in H1, H3. apply eq_lz_eq in H2. congruence.
  - inversion H; subst. rewrite !Z.eqb_refl. cbn. rewrite andb_true_r. now apply eq_lz_eq.
  - apply andb_true_iff in H as [H H3]. apply andb_true_iff in H as [H1 H2].
    apply Z.eqb_eq in H1, H3. apply eq_lz_eq in H2. congruence.
  - inversion H; subst. rewrite !Z.eqb_refl. cbn. rewrite andb_true_r. now apply eq_lz_eq.
  - apply IH in H. congruence.
  - inversion H; subst. now apply IH.
Qed.

Lemma index_of_none g l : index_of g l = None <-> ~ In g l.
Proof.
  induction l as [|x l IH]; cbn [index_of In]; [tauto|].
  destruct (gate_eqb g x) eqn:E.
  - apply gate_eqb_eq in E. subst. split; [discriminate|]. intros H; exfalso; apply H; now left.
  - assert (Hne : x <> g).
    { intros ->. assert (gate_eqb g g = true) by (apply gate_eqb_eq; reflexivity). congruence. }
    destruct (index_of g l) eqn:E2.
    + split; [discriminate|]. intros H. exfalso.
      assert (Some n = None) by (apply IH; tauto). discriminate.
    + split; [|reflexivity]. intros _ [H|H]; [congruence|].
      assert (~ In g l) by (apply IH; reflexivity). tauto.
Qed.

(* ================================================================ fold_global in a group *)
Section Group.
  Variable G : Type.
  Variable op : G -> G -> G.
  Variable inv : G -> G.
  Variable e : G.
  Hypothesis assoc : forall a b c, op a (op b c) = op (op a b) c.
  Hypothesis lid : forall a, op e a = a.
  Hypothesis rid : forall a, op a e = a.
  Hypothesis linv : forall a, op (inv a) a = e.
  Hypothesis rinv : forall a, op a (inv a) = e.
  Variable den : bool -> Z -> list Z -> Z -> G.

  Notation P := (gprod op inv e den).
  Notation D := (denote inv den).

  Lemma inv_unique x y : op x y = e -> x = inv y.
  Proof.
    intros H. rewrite <- (rid x), <- (rinv y), assoc, H, lid. reflexivity.
  Qed.

  Lemma inv_op a b : inv (op a b) = op (inv b) (inv a).
  Proof.
    symmetry. apply inv_unique.
    rewrite <- assoc, (assoc (inv a)), linv, lid, linv. reflexivity.
  Qed.

  Lemma gprod_app a b : P (a ++ b) = op (P a) (P b).
  Proof.
    induction a as [|g a IH]; cbn [gprod app fold_right].
    - now rewrite lid.
    - unfold gprod in IH. rewrite IH, assoc. reflexivity.
  Qed.

  Lemma gprod_rev_adj l : P (rev (map Adj l)) = inv (P l).
  Proof.
    induction l as [|g l IH].
    - cbn. apply inv_unique. now rewrite lid.
    - cbn [map rev]. rewrite gprod_app, IH. cbn [gprod fold_right denote].
      rewrite rid. fold (P l). now rewrite inv_op.
  Qed.

  Lemma gprod_rep k l : P (rep_list k (rev (map Adj l) ++ l)) = e.
  Proof.
    induction k as [|k IH]; cbn [rep_list]; [reflexivity|].
    rewrite !gprod_app, IH, gprod_rev_adj, linv, lid. reflexivity.
  Qed.

  Lemma firstn_rev_adj m (l : list gate) :
    firstn m (rev (map Adj l)) = rev (map Adj (skipn (length l - m) l)).
  Proof. rewrite firstn_rev, map_length, skipn_map. reflexivity. Qed.

  Lemma fold_sem_group ops p q out :
    fold_global ops p q = Some out -> P out = P ops.
  Proof.
    unfold fold_global. destruct (existsb is_channel ops); [discriminate|].
    intros H; injection H as <-.
    destruct (fold_m p q (Z.of_nat (length ops)) =? 0).
    - rewrite gprod_app, gprod_rep, rid. reflexivity.
    - rewrite !gprod_app, gprod_rep, rid, firstn_rev_adj, gprod_rev_adj, linv, rid. reflexivity.
  Qed.
End Group.

(* ================================================================ fold_global: counting *)
Lemma fold_total ops p q : existsb is_channel ops = false <-> fold_global ops p q <> None.
Proof.
  unfold fold_global. destruct (existsb is_channel ops); split; intros H; congruence.
Qed.

Lemma fold_fnum_range p q : 0 < q -> 0 <= fold_fnum p q < 2 * q.
Proof.
  intros Hq. unfold fold_fnum, fold_k.
  pose proof (Z.mod_pos_bound (p - q) (2 * q) ltac:(lia)) as Hm.
  rewrite Z.mod_eq in Hm by lia. lia.
Qed.

Lemma round_half_even_cases a b : 0 < b ->
  let f := a / b in let r := a - f * b in
  0 <= r < b /\
  ((round_half_even a b = f /\ 2 * r <= b) \/ (round_half_even a b = f + 1 /\ b <= 2 * r)).
Proof.
  intros Hb f r.
  assert (Hr : 0 <= r < b).
  { subst r f. pose proof (Z.mod_pos_bound a b Hb) as Hm. rewrite Z.mod_eq in Hm by lia. lia. }
  split; [exact Hr|].
  unfold round_half_even. fold f. fold r.
  destruct (2 * r <? b) eqn:E1; [left; lia|].
  destruct (b <? 2 * r) eqn:E2; [right; lia|].
  destruct (Z.even f); [left|right]; lia.
Qed.

Lemma fold_m_bounds p q n : 0 < q -> 0 <= n -> 0 <= fold_m p q n <= n.
Proof.
  intros Hq Hn. unfold fold_m.
  pose proof (fold_fnum_range p q Hq) as HD.
  set (Dn := fold_fnum p q) in *.
  pose proof (round_half_even_cases (Dn * n) (2 * q) ltac:(lia)) as H. cbv zeta in H.
  set (f := Dn * n / (2 * q)) in *.
  assert (Hf0 : 0 <= f) by (apply Z.div_pos; nia).
  destruct (Z.eq_dec n 0) as [->|Hn0].
  - assert (f = 0) by (subst f; rewrite Z.mul_0_r; apply Z.div_0_l; lia). lia.
  - assert (Hf : f < n) by (apply Z.div_lt_upper_bound; nia). lia.
Qed.

Lemma rep_list_length {A} k (l : list A) : length (rep_list k l) = (k * length l)%nat.
Proof. induction k as [|k IH]; cbn [rep_list]; [reflexivity|]. rewrite app_length, IH. lia. Qed.

Lemma fold_count_len ops p q out : 0 < q -> fold_global ops p q = Some out ->
  Z.of_nat (length out) =
    Z.of_nat (length ops) * (1 + 2 * Z.max 0 (fold_k p q)) + 2 * fold_m p q (Z.of_nat (length ops)).
Proof.
  intros Hq. unfold fold_global. destruct (existsb is_channel ops); [discriminate|].
  intros H; injection H as <-.
  pose proof (fold_m_bounds p q (Z.of_nat (length ops)) Hq ltac:(lia)) as Hm.
  set (m := fold_m p q (Z.of_nat (length ops))) in *.
  set (k := fold_k p q).
  assert (Hout : Z.of_nat (length (ops ++ rep_list (Z.to_nat k) (rev (map Adj ops) ++ ops))) =
                 Z.of_nat (length ops) * (1 + 2 * Z.max 0 k)).
  { rewrite app_length, rep_list_length, app_length, rev_length, map_length. nia. }
  destruct (m =? 0) eqn:E.
  - rewrite Hout. lia.
  - rewrite app_length, Nat2Z.inj_add, Hout, app_length, firstn_length, skipn_length, rev_length, map_length. lia.
Qed.

Lemma fold_count_near ops p q out : 0 < q -> q <= p -> fold_global ops p q = Some out ->
  Z.abs (q * Z.of_nat (length out) - p * Z.of_nat (length ops)) <= q.
Proof.
  intros Hq Hp H. rewrite (fold_count_len ops p q out Hq H).
  set (n := Z.of_nat (length ops)). assert (Hn : 0 <= n) by lia.
  assert (Hk : 0 <= fold_k p q) by (unfold fold_k; apply Z.div_pos; lia).
  rewrite Z.max_r by lia.
  unfold fold_m.
  pose proof (round_half_even_cases (fold_fnum p q * n) (2 * q) ltac:(lia)) as Hc. cbv zeta in Hc.
  set (a := fold_fnum p q * n) in *.
  set (f := a / (2 * q)) in *.
  assert (Ha : a = (p - q - fold_k p q * (2 * q)) * n) by reflexivity.
  destruct Hc as [Hr [[-> H2]|[-> H2]]]; nia.
Qed.

(* ================================================================ add_noise *)
Lemma index_of_existsb g l :
  match index_of g l with
  | Some i => existsb (gate_eqb g) l = true
  | None => existsb (gate_eqb g) l = false
  end.
Proof.
  induction l as [|x l IH]; cbn [index_of existsb]; [reflexivity|].
  destruct (gate_eqb g x); cbn [orb]; [reflexivity|].
  destruct (index_of g l); exact IH.
Qed.

Lemma apply_pair_spec g curr cn :
  apply_pair g curr cn = pre_of g (sel g cn) ++ curr ++ post_of g (sel g cn).
Proof.
  unfold apply_pair, sel, pre_of, post_of. destruct (fst cn g).
  - pose proof (index_of_existsb g (snd cn g)) as H.
    destruct (index_of g (snd cn g)); rewrite H; reflexivity.
  - cbn. now rewrite app_nil_r.
Qed.

Lemma fold_pairs_spec g model curr :
  fold_left (apply_pair g) model curr = noise_before model g ++ curr ++ noise_after model g.
Proof.
  unfold noise_before, noise_after.
  revert curr; induction model as [|cn model IH]; intros curr; cbn [fold_left map rev concat].
  - cbn. now rewrite app_nil_r.
  - rewrite IH, apply_pair_spec, concat_app. cbn [concat]. rewrite app_nil_r, <- !app_assoc. reflexivity.
Qed.

Lemma add_noise_spec model ops : add_noise model ops = flat_map (noise_block model) ops.
Proof. unfold add_noise, noise_block. apply flat_map_ext. intros g. apply fold_pairs_spec. Qed.

Lemma pre_post_no_self g l : ~ In g l -> pre_of g l = [] /\ post_of g l = l.
Proof. intros H. apply index_of_none in H. unfold pre_of, post_of. rewrite H. tauto. Qed.

Lemma add_noise_after model ops :
  (forall cn g, In cn model -> In g ops -> fst cn g = true -> ~ In g (snd cn g)) ->
  add_noise model ops = flat_map (fun g => g :: flat_map (sel g) model) ops.
Proof.
  intros H. rewrite add_noise_spec. apply flat_map_ext_in. intros g Hg.
  unfold noise_block, noise_before, noise_after.
  assert (Hs : forall cn, In cn model -> pre_of g (sel g cn) = [] /\ post_of g (sel g cn) = sel g cn).
  { intros cn Hcn. unfold sel. destruct (fst cn g) eqn:E.
    - apply pre_post_no_self. now apply H.
    - split; reflexivity. }
  clear H. induction model as [|cn model IH]; [reflexivity|].
  cbn [map rev flat_map concat]. destruct (Hs cn (or_introl eq_refl)) as [H1 H2].
  rewrite concat_app, H1, H2. cbn [concat app]. rewrite app_nil_r.
  assert (IH' := IH (fun c Hc => Hs c (or_intror Hc))). clear IH.
  cbn [app] in IH'.
  assert (Hb : concat (rev (map (fun cn0 => pre_of g (sel g cn0)) model)) = []).
  { clear IH'. assert (Hs' := fun c Hc => Hs c (or_intror Hc)). clear Hs.
    induction model as [|c m IHm]; [reflexivity|]. cbn [map rev]. rewrite concat_app.
    rewrite IHm by (intros c' Hc'; apply Hs'; now right).
    destruct (Hs' c (or_introl eq_refl)) as [-> _]. reflexivity. }
  rewrite Hb in *. cbn [app] in *. injection IH' as IH'. now rewrite IH'.
Qed.

Lemma in_noise_before model g x :
  In x (noise_before model g) -> exists cn, In cn model /\ In x (pre_of g (sel g cn)).
Proof.
  unfold noise_before. intros H. apply in_concat in H as [l [Hl Hx]].
  apply in_rev in Hl. apply in_map_iff in Hl as [cn [<- Hcn]]. eauto.
Qed.

Lemma in_noise_after model g x :
  In x (noise_after model g) -> exists cn, In cn model /\ In x (post_of g (sel g cn)).
Proof.
  unfold noise_after. intros H. apply in_concat in H as [l [Hl Hx]].
  apply in_map_iff in Hl as [cn [<- Hcn]]. eauto.
Qed.

Section Erase.
  Variable P : gate -> bool.
  Variable model : noise_model.
  Variable ops : list gate.
  Hypothesis Hops : forall g, In g ops -> P g = false.
  Hypothesis Hins : forall cn g x, In cn model -> In g ops ->
      In x (pre_of g (sel g cn)) \/ In x (post_of g (sel g cn)) -> P x = true.

  Lemma add_noise_erase_l : filter (fun g => negb (P g)) (add_noise model ops) = ops.
  Proof.
    rewrite add_noise_spec, filter_flat_map.
    rewrite (flat_map_ext_in _ (fun g => [g])); [apply flat_map_singleton|].
    intros g Hg. unfold noise_block. rewrite !filter_app.
    rewrite (filter_all_false _ (noise_before model g)), (filter_all_false _ (noise_after model g)).
    - cbn. now rewrite (Hops g Hg).
    - intros x Hx. apply in_noise_after in Hx as [cn [Hcn Hx]]. rewrite (Hins cn g x); auto.
    - intros x Hx. apply in_noise_before in Hx as [cn [Hcn Hx]]. rewrite (Hins cn g x); auto.
  Qed.

  Lemma add_noise_inserted_l :
    filter P (add_noise model ops) = flat_map (fun g => noise_before model g ++ noise_after model g) ops.
  Proof.
    rewrite add_noise_spec, filter_flat_map. apply flat_map_ext_in.
    intros g Hg. unfold noise_block. rewrite !filter_app.
    rewrite (filter_all_true _ (noise_before model g)), (filter_all_true _ (noise_after model g)).
    - cbn. now rewrite (Hops g Hg).
    - intros x Hx. apply in_noise_after in Hx as [cn [Hcn Hx]]. apply (Hins cn g x); auto.
    - intros x Hx. apply in_noise_before in Hx as [cn [Hcn Hx]]. apply (Hins cn g x); auto.
  Qed.
End Erase.

Lemma add_noise_none_selected model ops :
  (forall cn g, In cn model -> In g ops -> fst cn g = false) -> add_noise model ops = ops.
Proof.
  intros H. rewrite add_noise_after.
  - rewrite (flat_map_ext_in _ (fun g => [g])); [apply flat_map_singleton|].
    intros g Hg. f_equal. induction model as [|cn model IH]; [reflexivity|].
    cbn [flat_map]. unfold sel at 1. rewrite (H cn g (or_introl eq_refl) Hg). cbn [app].
    apply IH. intros c g' Hc Hg'. apply H; [now right|exact Hg'].
  - intros cn g Hcn Hg E. rewrite (H cn g Hcn Hg) in E. discriminate.
Qed.

(* ================================================================ insert *)
Lemma insert_step_spec mk pos before acc g :
  insert_step mk pos before acc g = acc ++ insert_block mk pos before g.
Proof.
  unfold insert_step, insert_block, ins_of.
  assert (Hreq : forall cl a, fold_left (fun acc0 operation =>
              if isa g operation then acc0 ++ flat_map mk (gwires g) else acc0) cl a =
            a ++ flat_map (fun c => if isa g c then flat_map mk (gwires g) else []) cl).
  { induction cl as [|c cl IH]; intros a; cbn [fold_left flat_map]; [now rewrite app_nil_r|].
    rewrite IH. destruct (isa g c); [now rewrite <- app_assoc|reflexivity]. }
  destruct before, pos; cbn [is_pos]; rewrite ?Hreq, ?app_nil_r, <- ?app_assoc; cbn [app]; reflexivity.
Qed.

Lemma insert_ops_spec mk pos before ops mw :
  insert_ops mk pos before ops mw = insert_spec mk pos before ops mw.
Proof.
  unfold insert_ops, insert_spec.
  assert (H : forall l a, fold_left (insert_step mk pos before) l a = a ++ flat_map (insert_block mk pos before) l).
  { induction l as [|g l IH]; intros a; cbn [fold_left flat_map]; [now rewrite app_nil_r|].
    rewrite IH, insert_step_spec, <- app_assoc. reflexivity. }
  rewrite H. destruct (is_pos pos PStart), (is_pos pos PEnd); rewrite <- ?app_assoc, ?app_nil_r; reflexivity.
Qed.

Section InsertErase.
  Variable P : gate -> bool.
  Variable mk : Z -> list gate.
  Variable ops : list gate.
  Hypothesis Hops : forall g, In g ops -> P g = false.
  Hypothesis Hmk : forall w x, In x (mk w) -> P x = true.

  Lemma mk_all ws x : In x (flat_map mk ws) -> P x = true.
  Proof. intros H. apply in_flat_map in H as [w [_ Hx]]. eapply Hmk; eauto. Qed.

  Lemma ins_of_all pos g x : In x (ins_of mk pos g) -> P x = true.
  Proof.
    unfold ins_of. intros H. apply in_app_or in H as [H|H].
    - destruct (is_pos pos PAll); [eapply mk_all; eauto|destruct H].
    - destruct pos; try destruct H. apply in_flat_map in H as [c [_ H]].
      destruct (isa g c); [eapply mk_all; eauto|destruct H].
  Qed.

  Lemma opt_block_all (b : bool) ws x : In x (if b then flat_map mk ws else []) -> P x = true.
  Proof. destruct b; [apply mk_all|intros []]. Qed.

  Lemma insert_erase_l pos before mw :
    filter (fun g => negb (P g)) (insert_ops mk pos before ops mw) = ops.
  Proof.
    rewrite insert_ops_spec. unfold insert_spec. rewrite !filter_app.
    rewrite (filter_all_false _ (if is_pos pos PStart then _ else _)), (filter_all_false _ (if is_pos pos PEnd then _ else _)).
    2,3: intros x Hx; apply opt_block_all in Hx; now rewrite Hx.
    rewrite filter_flat_map.
    rewrite (flat_map_ext_in _ (fun g => [g])).
    - rewrite flat_map_singleton, app_nil_r. cbn [app].
      rewrite (filter_all_true _ (firstn _ ops)).
      + apply firstn_skipn.
      + intros x Hx. apply firstn_In in Hx. now rewrite (Hops x Hx).
    - intros g Hg. assert (Hg' : In g ops) by (rewrite <- (firstn_skipn (num_preps ops) ops); apply in_or_app; now right).
      unfold insert_block. destruct before.
      + rewrite filter_app, (filter_all_false _ (ins_of mk pos g)). cbn. now rewrite (Hops g Hg').
        intros x Hx. now rewrite (ins_of_all pos g x Hx).
      + cbn [filter]. rewrite (Hops g Hg'). cbn. f_equal. apply filter_all_false.
        intros x Hx. now rewrite (ins_of_all pos g x Hx).
  Qed.

  Lemma insert_inserted_l pos before mw :
    filter P (insert_ops mk pos before ops mw) =
      (if is_pos pos PStart then flat_map mk (tape_wires ops mw) else [])
      ++ flat_map (ins_of mk pos) (skipn (num_preps ops) ops)
      ++ (if is_pos pos PEnd then flat_map mk (tape_wires ops mw) else []).
  Proof.
    rewrite insert_ops_spec. unfold insert_spec. rewrite !filter_app.
    rewrite (filter_all_true _ (if is_pos pos PStart then _ else _)), (filter_all_true _ (if is_pos pos PEnd then _ else _)).
    2,3: intros x Hx; now apply opt_block_all in Hx.
    rewrite (filter_all_false _ (firstn _ ops)).
    2: { intros x Hx. apply firstn_In in Hx. now apply Hops. }
    cbn [app]. f_equal. f_equal. rewrite filter_flat_map. apply flat_map_ext_in.
    intros g Hg. assert (Hg' : In g ops) by (rewrite <- (firstn_skipn (num_preps ops) ops); apply in_or_app; now right).
    unfold insert_block. destruct before.
    - rewrite filter_app, (filter_all_true _ (ins_of mk pos g)) by apply ins_of_all.
      cbn. rewrite (Hops g Hg'). apply app_nil_r.
    - cbn [filter]. rewrite (Hops g Hg'). apply filter_all_true, ins_of_all.
  Qed.
End InsertErase.

Lemma insert_none_selected mk cl before ops mw :
  (forall g c, In g ops -> In c cl -> isa g c = false) ->
  insert_ops mk (POps cl) before ops mw = ops.
Proof.
  intros H. rewrite insert_ops_spec. unfold insert_spec. cbn [is_pos]. rewrite app_nil_r. cbn [app].
  rewrite (flat_map_ext_in _ (fun g => [g])).
  - rewrite flat_map_singleton. apply firstn_skipn.
  - intros g Hg. assert (Hg' : In g ops) by (rewrite <- (firstn_skipn (num_preps ops) ops); apply in_or_app; now right).
    assert (E : ins_of mk (POps cl) g = []).
    { unfold ins_of. cbn [is_pos app]. clear Hg.
      induction cl as [|c cl IH]; [reflexivity|]. cbn [flat_map].
      rewrite (H g c Hg' (or_introl eq_refl)). cbn [app]. apply IH.
      intros g0 c0 Hg0 Hc0. apply H; [exact Hg0|now right]. }
    unfold insert_block. rewrite E. destruct before; reflexivity.
Qed.

(* ================================================================ exact extrapolation over Q *)
Open Scope Q_scope.

(* quotient of (x * t(x) - x0 * t(x0)) by (x - x0): synthetic (Horner) division *)
Fixpoint pquot (t : list Q) (x0 : Q) : list Q :=
  match t with [] => [] | b :: t' => peval t x0 :: pquot t' x0 end.

Lemma pquot_length t x0 : length (pquot t x0) = length t.
Proof. induction t as [|b t IH]; cbn [pquot length]; [reflexivity|now rewrite IH]. Qed.

Lemma pquot_spec t x0 x : x * peval t x - x0 * peval t x0 == (x - x0) * peval (pquot t x0) x.
Proof.
  induction t as [|b t IH]; cbn [pquot peval]; [ring|].
  set (E := peval t x) in *. set (E0 := peval t x0) in *. set (Q' := peval (pquot t x0) x) in *.
  transitivity ((x - x0) * (b + x0 * E0) + x * ((x - x0) * Q')); [|ring].
  rewrite <- IH. ring.
Qed.

Lemma pdiv_spec c x0 x : peval c x == peval c x0 + (x - x0) * peval (pquot (tl c) x0) x.
Proof.
  destruct c as [|a t]; cbn [tl peval pquot]; [ring|].
  rewrite <- pquot_spec. ring.
Qed.

Lemma extrap_exact_n : forall n d c, length d = n -> (length c <= n)%nat -> distinctQ (map fst d) ->
  Forall (fun xy => snd xy == peval c (fst xy)) d -> extrap n d == peval c 0.
Proof.
  induction n as [|n IH]; intros d c Hn Hlen Hd Hy.
  - destruct c; [|cbn in Hlen; lia]. destruct d; reflexivity.
  - destruct d as [|[x0 y0] rest]; [discriminate|]. cbn [length] in Hn. injection Hn as Hn.
    cbn [extrap].
    set (q := pquot (tl c) x0).
    set (d' := map (fun xy : Q * Q => (fst xy, (snd xy - y0) / (fst xy - x0))) rest).
    cbn [map distinctQ fst] in Hd. destruct Hd as [Hne Hd].
    inversion Hy as [|? ? Hy0 Hyr]; subst. cbn [fst snd] in Hy0.
    assert (Hfst : map fst d' = map fst rest).
    { subst d'. rewrite map_map. apply map_ext. reflexivity. }
    assert (IH' : extrap (length rest) d' == peval q 0).
    { apply (IH d' q).
      - subst d'. apply map_length.
      - subst q. rewrite pquot_length. destruct c; cbn [tl length] in *; lia.
      - now rewrite Hfst.
      - subst d'. apply Forall_forall. intros xy' Hin.
        apply in_map_iff in Hin as [[xi yi] [<- Hin]]. cbn [fst snd].
        rewrite Forall_forall in Hyr, Hne.
        assert (Hyi := Hyr _ Hin). cbn [fst snd] in Hyi.
        assert (Hxi : ~ xi == x0).
        { apply Hne. apply in_map_iff. exists (xi, yi). split; [reflexivity|exact Hin]. }
        assert (Hnz : ~ xi - x0 == 0).
        { intros H0. apply Hxi. rewrite <- (Qplus_0_l x0), <- H0. ring. }
        rewrite Hyi, Hy0, (pdiv_spec c x0 xi). fold q. field. exact Hnz. }
    rewrite IH', Hy0, (pdiv_spec c x0 0). fold q. ring.
Qed.

Lemma extrap_exact : forall d c, (length c <= length d)%nat -> distinctQ (map fst d) ->
  Forall (fun xy => snd xy == peval c (fst xy)) d -> richardson d == peval c 0.
Proof. intros d c. unfold richardson. now apply extrap_exact_n. Qed.

(* the polynomial value convention: peval c 0 is the constant coefficient *)
Lemma peval_0 a t : peval (a :: t) 0 == a.
Proof. cbn [peval]. ring. Qed.
