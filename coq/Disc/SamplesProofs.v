From Coq Require Import List ZArith Bool Lia ZifyBool FinFun.
From PLV Require Import Disc.SamplesModel.
Import ListNotations.
Open Scope Z_scope.

Lemma b2z_range b : 0 <= b2z b <= 1.
Proof. destruct b; simpl; lia. Qed.

(* ------------------------------------------------------------------ basis index *)
Lemma int2_acc : forall r a, fold_left (fun a x => 2 * a + b2z x) r a = a * 2 ^ lenZ r + int2 r.
Proof.
  unfold int2, lenZ. induction r as [|x r IH]; intros a; cbn [fold_left length].
  - simpl. lia.
  - rewrite IH. rewrite (IH (2 * 0 + b2z x)). rewrite Nat2Z.inj_succ. rewrite Z.pow_succ_r by lia. ring.
Qed.

Lemma int2_cons b r : int2 (b :: r) = b2z b * 2 ^ lenZ r + int2 r.
Proof. unfold int2 at 1. cbn [fold_left]. rewrite int2_acc. reflexivity. Qed.

Lemma int2_snoc l x : int2 (l ++ [x]) = 2 * int2 l + b2z x.
Proof. unfold int2. rewrite fold_left_app. reflexivity. Qed.

Lemma int2_range r : 0 <= int2 r < 2 ^ lenZ r.
Proof.
  induction r as [|b r IH]; [unfold int2, lenZ; simpl; lia|].
  rewrite int2_cons. unfold lenZ in *. cbn [length]. rewrite Nat2Z.inj_succ. rewrite Z.pow_succ_r by lia.
  pose proof (b2z_range b). nia.
Qed.

Lemma powers_S w : powers_of_two (S w) = 2 ^ Z.of_nat w :: powers_of_two w.
Proof. unfold powers_of_two. rewrite seq_S, map_app, rev_app_distr. reflexivity. Qed.

(* samples @ powers_of_two  is the big-endian binary value of the row = int(str, 2) *)
Lemma dot_int2 row : index_row (length row) row = int2 row.
Proof.
  induction row as [|b r IH]; [reflexivity|].
  cbn [length]. unfold index_row. rewrite powers_S. cbn [dot]. fold (index_row (length r) r).
  rewrite IH, int2_cons. reflexivity.
Qed.

Lemma bits_of_S w i : bits_of (S w) i = bits_of w (Z.div2 i) ++ [Z.odd i].
Proof.
  unfold bits_of. cbn [seq]. rewrite <- seq_shift. cbn [rev]. rewrite map_app. cbn [map]. f_equal.
  rewrite <- map_rev, map_map. apply map_ext. intros k. rewrite Z.div2_div. rewrite Z.div2_bits by lia. f_equal. lia.
Qed.

Lemma length_bits_of w i : length (bits_of w i) = w.
Proof. unfold bits_of. now rewrite map_length, rev_length, seq_length. Qed.

(* the formatter f"{i:0wb}" inverts int(.,2) *)
Lemma bits_of_int2 : forall row, bits_of (length row) (int2 row) = row.
Proof.
  induction row as [|x l IH] using rev_ind; [reflexivity|].
  rewrite app_length. cbn [length]. rewrite Nat.add_1_r, bits_of_S, int2_snoc.
  pose proof (b2z_range x).
  assert (D : Z.div2 (2 * int2 l + b2z x) = int2 l).
  { rewrite Z.div2_div. replace (2 * int2 l + b2z x) with (b2z x + int2 l * 2) by ring.
    rewrite Z.div_add by lia. rewrite Z.div_small by lia. lia. }
  rewrite D, IH. f_equal. f_equal.
  rewrite Z.add_comm, Z.odd_add_mul_2. destruct x; reflexivity.
Qed.

Lemma int2_bits_of : forall w i, 0 <= i < 2 ^ Z.of_nat w -> int2 (bits_of w i) = i.
Proof.
  induction w as [|w IH]; intros i H.
  - simpl in H. assert (i = 0) by lia. subst. reflexivity.
  - rewrite bits_of_S, int2_snoc. rewrite Nat2Z.inj_succ in H. rewrite Z.pow_succ_r in H by lia.
    rewrite IH.
    + pose proof (Z.div2_odd i) as E. destruct (Z.odd i); simpl in *; lia.
    + rewrite Z.div2_div. split; [apply Z.div_pos; lia | apply Z.div_lt_upper_bound; lia].
Qed.

Lemma int2_inj a b : length a = length b -> int2 a = int2 b -> a = b.
Proof. intros L E. rewrite <- (bits_of_int2 a), <- (bits_of_int2 b), L, E. reflexivity. Qed.

Lemma in_all_indices w i : In i (all_indices w) <-> 0 <= i < 2 ^ Z.of_nat w.
Proof.
  unfold all_indices. rewrite in_map_iff. split.
  - intros (k & <- & Hk). apply in_seq in Hk. lia.
  - intros H. exists (Z.to_nat i). split; [lia|]. apply in_seq. lia.
Qed.

Lemma length_all_indices w : lenZ (all_indices w) = 2 ^ Z.of_nat w.
Proof. unfold lenZ, all_indices. rewrite map_length, seq_length. lia. Qed.

Lemma nth_all_indices {A} (g : Z -> A) w i : 0 <= i < 2 ^ Z.of_nat w ->
  nth_error (map g (all_indices w)) (Z.to_nat i) = Some (g i).
Proof.
  intros H. apply map_nth_error. unfold all_indices.
  replace i with (Z.of_nat (Z.to_nat i)) at 2 by lia. apply map_nth_error.
  rewrite (nth_error_nth' _ 0%nat) by (rewrite seq_length; lia).
  rewrite seq_nth by lia. reflexivity.
Qed.

(* ------------------------------------------------------------------ eigenvalue lookup, fast path, MCM values *)
Lemma eq_lz_refl l : eq_lz l l = true.
Proof. induction l; simpl; [reflexivity|]. rewrite Z.eqb_refl. assumption. Qed.
Lemma eq_lz_eq a : forall b, eq_lz a b = true -> a = b.
Proof. induction a as [|x a IH]; destruct b; simpl; try congruence. intros H. apply andb_prop in H as [H1 H2]. apply Z.eqb_eq in H1. f_equal; auto. Qed.

Lemma fastpath_lookup one b :
  row_value one [one; - one] 1 [b] = nth_error [one; - one] (Z.to_nat (index_row 1 [b])).
Proof.
  unfold row_value. rewrite eq_lz_refl. destruct b.
  - replace (Z.to_nat (index_row 1 [true])) with 1%nat by reflexivity. cbn [nth_error b2z]. f_equal. lia.
  - replace (Z.to_nat (index_row 1 [false])) with 0%nat by reflexivity. cbn [nth_error b2z]. f_equal. lia.
Qed.

(* whichever path is taken, the sample value is eigvals[int(bits, 2)] *)
Lemma row_value_lookup one ev row :
  (eq_lz ev [one; - one] = true -> length row = 1%nat) ->
  row_value one ev (length row) row = nth_error ev (Z.to_nat (int2 row)).
Proof.
  intros H. unfold row_value. destruct (eq_lz ev [one; - one]) eqn:E.
  - apply eq_lz_eq in E. subst ev. specialize (H eq_refl).
    destruct row as [|b [|c r]]; try discriminate.
    destruct b; [replace (Z.to_nat (int2 [true])) with 1%nat by reflexivity
                |replace (Z.to_nat (int2 [false])) with 0%nat by reflexivity]; cbn [nth_error b2z]; f_equal; lia.
  - rewrite dot_int2. reflexivity.
Qed.

Lemma mcm_direct one n e row : length row = n ->
  nth_error (mv_eigvals one n e) (Z.to_nat (int2 row)) = Some (one * meval e row).
Proof.
  intros L. unfold mv_eigvals. pose proof (int2_range row) as R. unfold lenZ in R. rewrite L in R.
  rewrite (nth_all_indices (fun i => one * meval e (bits_of n i))) by assumption.
  rewrite <- L, bits_of_int2. reflexivity.
Qed.

(* ------------------------------------------------------------------ sums, variance *)
Lemma sumZ_cons x r : sumZ (x :: r) = x + sumZ r.
Proof. reflexivity. Qed.
Lemma sumZ_app a b : sumZ (a ++ b) = sumZ a + sumZ b.
Proof. induction a as [|x a IH]; [reflexivity|]. cbn [app]. rewrite !sumZ_cons, IH. lia. Qed.
Lemma lenZ_cons {A} (x : A) r : lenZ (x :: r) = 1 + lenZ r.
Proof. unfold lenZ. cbn [length]. lia. Qed.

Lemma sum_sq_shift a s xs :
  sumZ (map (fun x => (a * x - s) * (a * x - s)) xs)
  = a * a * sumZ (map (fun x => x * x) xs) - 2 * a * s * sumZ xs + lenZ xs * s * s.
Proof.
  induction xs as [|x xs IH]; [unfold lenZ, sumZ; simpl; ring|].
  cbn [map]. rewrite !sumZ_cons, lenZ_cons, IH. ring.
Qed.

(* numpy var = mean(|x - mean x|^2); times n^3 it is n (n sum x^2 - (sum x)^2), i.e. var = mean(x^2) - mean(x)^2 *)
Lemma var_num_direct xs :
  var_num xs = lenZ xs * (lenZ xs * sumZ (map (fun x => x * x) xs) - sumZ xs * sumZ xs).
Proof. unfold var_num. cbv zeta. rewrite sum_sq_shift. ring. Qed.

(* ------------------------------------------------------------------ expval / var of process_samples *)
Lemma map_opt_ext {A B} (f g : A -> option B) l : (forall x, In x l -> f x = g x) -> map_opt f l = map_opt g l.
Proof.
  induction l as [|x l IH]; intros H; [reflexivity|]. cbn [map_opt].
  rewrite (H x (or_introl eq_refl)), IH; [reflexivity|]. intros y Hy. apply H. now right.
Qed.

Lemma length_select idxs row : length (select idxs row) = length idxs.
Proof. unfold select. now rewrite map_length. Qed.

(* the direct statement: eigenvalue of every selected sample, looked up by its binary value *)
Definition direct_vals (ev : list Z) (rows : list (list bool)) : option (list Z) :=
  map_opt (fun row => nth_error ev (Z.to_nat (int2 row))) rows.
Definition selected (idxs : list nat) (r : option (Z * Z)) (rows : list (list bool)) : list (list bool) :=
  map (select idxs) (slice r rows).

Lemma eig_array_direct one o ev order r rows idxs vals :
  mapped_wires order (o_wires o) = Some idxs -> idxs <> [] ->
  (eq_lz ev [one; - one] = true -> length idxs = 1%nat) ->
  direct_vals ev (selected idxs r rows) = Some vals ->
  eig_array one o ev order r None [rows] = Some [vals].
Proof.
  intros Hm Hne Hfp Hd. unfold eig_array, prep. rewrite Hm.
  destruct idxs as [|i0 il]; [congruence|]. cbn [map].
  unfold eig_samples. cbn [map_opt].
  rewrite (map_opt_ext (row_value one ev (length (i0 :: il))) (fun row => nth_error ev (Z.to_nat (int2 row)))).
  - unfold direct_vals, selected in Hd. rewrite Hd. reflexivity.
  - intros row Hin. apply in_map_iff in Hin as (row0 & <- & _).
    rewrite <- (length_select (i0 :: il) row0) at 1. apply row_value_lookup.
    intros E. rewrite length_select. auto.
Qed.

Lemma stat_ps_direct stat one o ev order r rows idxs vals :
  o_eigvals one o = Some ev ->
  mapped_wires order (o_wires o) = Some idxs -> idxs <> [] ->
  (eq_lz ev [one; - one] = true -> length idxs = 1%nat) ->
  direct_vals ev (selected idxs r rows) = Some vals ->
  stat_ps stat one o false order r None [rows] = RQ (TZ (stat vals)) (lenZ vals).
Proof.
  intros He Hm Hne Hfp Hd. unfold stat_ps. rewrite He.
  destruct (o_wires o) as [|w0 wl] eqn:EW.
  - cbn in Hm. inversion Hm. congruence.
  - rewrite <- EW in Hm. rewrite (eig_array_direct one o ev order r rows idxs vals Hm Hne Hfp Hd).
    reflexivity.
Qed.

(* ------------------------------------------------------------------ frequencies (probs) *)
Lemma sumZ_map_add {A} (f g : A -> Z) l : sumZ (map (fun p => f p + g p) l) = sumZ (map f l) + sumZ (map g l).
Proof. induction l as [|x l IH]; [reflexivity|]. cbn [map]. rewrite !sumZ_cons, IH. lia. Qed.

Lemma sum_indicator x N :
  sumZ (map (fun i => if x =? i then 1 else 0) (map Z.of_nat (seq 0 N)))
  = if (0 <=? x) && (x <? Z.of_nat N) then 1 else 0.
Proof.
  induction N as [|N IH].
  - cbn. destruct ((0 <=? x) && (x <? 0)) eqn:E; lia.
  - rewrite seq_S, !map_app, sumZ_app, IH. cbn [map Nat.add]. rewrite sumZ_cons. unfold sumZ at 1. cbn [fold_right].
    destruct (x =? Z.of_nat N) eqn:E1; destruct ((0 <=? x) && (x <? Z.of_nat N)) eqn:E2;
      destruct ((0 <=? x) && (x <? Z.of_nat (S N))) eqn:E3; lia.
Qed.

Lemma count_eq_cons i x l : count_eq i (x :: l) = (if x =? i then 1 else 0) + count_eq i l.
Proof. reflexivity. Qed.
Lemma count_eq_nonneg i l : 0 <= count_eq i l.
Proof. induction l as [|x l IH]; [unfold count_eq, sumZ; simpl; lia|]. rewrite count_eq_cons. destruct (x =? i); lia. Qed.

(* the frequency vector has one entry per basis state and its entries add up to the number of shots *)
Lemma count_total w l : Forall (fun x => 0 <= x < 2 ^ Z.of_nat w) l ->
  sumZ (map (fun p => count_eq p l) (all_indices w)) = lenZ l.
Proof.
  induction l as [|x l IH]; intros H.
  - unfold count_eq. cbn [map]. induction (all_indices w); [reflexivity|]. cbn [map]. rewrite sumZ_cons, IHl. reflexivity.
  - inversion H as [|? ? Hx Hl]; subst.
    rewrite (map_ext _ (fun p => (if x =? p then 1 else 0) + count_eq p l)) by (intros; apply count_eq_cons).
    rewrite sumZ_map_add, IH by assumption. unfold all_indices at 1. rewrite sum_indicator, lenZ_cons.
    destruct ((0 <=? x) && (x <? Z.of_nat (Z.to_nat (2 ^ Z.of_nat w)))) eqn:E; lia.
Qed.

Lemma rows_in_range w rows : Forall (fun r => length r = w) rows ->
  Forall (fun x => 0 <= x < 2 ^ Z.of_nat w) (map int2 rows).
Proof.
  intros H. apply Forall_forall. intros x Hx. apply in_map_iff in Hx as (r & <- & Hr).
  rewrite Forall_forall in H. pose proof (int2_range r) as R. unfold lenZ in R. rewrite (H r Hr) in R. exact R.
Qed.

(* ------------------------------------------------------------------ dictionaries *)
Lemma eq_lb_eq a : forall b, eq_lb a b = true <-> a = b.
Proof.
  induction a as [|x a IH]; destruct b as [|y b]; simpl; split; try congruence; try reflexivity.
  - intros H. apply andb_prop in H as [H1 H2]. apply eqb_prop in H1. apply IH in H2. congruence.
  - intros H. inversion H; subst. rewrite eqb_reflx. apply IH. reflexivity.
Qed.
Lemma key_eqb_eq a b : key_eqb a b = true <-> a = b.
Proof.
  destruct a, b; simpl; split; try congruence.
  - intros H. apply eq_lb_eq in H. congruence.
  - intros H. inversion H. apply eq_lb_eq. reflexivity.
  - intros H. apply Z.eqb_eq in H. congruence.
  - intros H. inversion H. apply Z.eqb_refl.
Qed.
Lemma key_eqb_neq a b : key_eqb a b = false <-> a <> b.
Proof. rewrite <- key_eqb_eq. destruct (key_eqb a b); split; congruence. Qed.

Lemma dget_dupd_same f k v d :
  dget k (dupd f k v d) = Some (match dget k d with Some o => f o v | None => v end).
Proof.
  induction d as [|[k' v'] d IH]; cbn [dupd dget].
  - assert (E : key_eqb k k = true) by now apply key_eqb_eq. rewrite E. reflexivity.
  - destruct (key_eqb k' k) eqn:E; cbn [dget]; rewrite E; [reflexivity | exact IH].
Qed.
Lemma dget_dupd_other f k k' v d : k' <> k -> dget k (dupd f k' v d) = dget k d.
Proof.
  intros N. induction d as [|[k2 v2] d IH]; cbn [dupd dget].
  - apply key_eqb_neq in N. rewrite N. reflexivity.
  - destruct (key_eqb k2 k') eqn:E; cbn [dget].
    + apply key_eqb_eq in E. subst k2. apply key_eqb_neq in N. rewrite N. reflexivity.
    + destruct (key_eqb k2 k); [reflexivity | exact IH].
Qed.

Lemma dtotal_cons k v d : dtotal ((k, v) :: d) = v + dtotal d.
Proof. reflexivity. Qed.
Lemma dtotal_dupd f k v d :
  dtotal (dupd f k v d) = dtotal d + match dget k d with Some o => f o v - o | None => v end.
Proof.
  induction d as [|[k' v'] d IH]; cbn [dupd dget].
  - unfold dtotal, sumZ. simpl. lia.
  - destruct (key_eqb k' k) eqn:E; rewrite !dtotal_cons; [lia | rewrite IH; lia].
Qed.
Lemma dtotal_dadd k v d : dtotal (dadd k v d) = dtotal d + v.
Proof. unfold dadd. rewrite dtotal_dupd. destruct (dget k d); lia. Qed.

(* _map_counts keeps the number of shots, whatever the wire subset / order *)
Lemma map_counts_total order ws c d : map_counts order ws c = Some d -> dtotal d = sumZ (map snd c).
Proof.
  unfold map_counts. destruct (mapped_wires order ws) as [idxs|]; [|discriminate]. intros H. inversion H; subst. clear H.
  assert (G : forall acc, dtotal (fold_left (fun d oc => dadd (inl (select idxs (fst oc))) (snd oc) d) c acc)
                          = dtotal acc + sumZ (map snd c)).
  { induction c as [|oc c IH]; intros acc; cbn [fold_left map].
    - unfold sumZ. simpl. lia.
    - rewrite IH, dtotal_dadd, sumZ_cons. lia. }
  rewrite G. unfold dtotal, sumZ. simpl. lia.
Qed.

(* eigenvalue relabelling that SUMS repeated keys keeps the number of shots for ANY eigenvalues *)
Lemma remap_sum_total ev : forall d acc r, remap_with Z.add ev d acc = Some r -> dtotal r = dtotal acc + dtotal d.
Proof.
  induction d as [|[k c] d IH]; intros acc r H; cbn [remap_with] in H.
  - inversion H. unfold dtotal, sumZ. simpl. lia.
  - destruct k as [b|z]; [|discriminate].
    destruct (nth_error ev (Z.to_nat (int2 b))) as [e|]; [|discriminate].
    apply IH in H. rewrite H. fold (dadd (inr e) c acc). rewrite dtotal_dadd, dtotal_cons. lia.
Qed.

(* ------------------------------------------------------------------ counts = multiset of outcomes *)
Definition inrange (w : nat) (i : Z) : Prop := 0 <= i < 2 ^ Z.of_nat w.

Lemma bits_of_inj w i j : inrange w i -> inrange w j -> bits_of w i = bits_of w j -> i = j.
Proof. intros Hi Hj E. rewrite <- (int2_bits_of w i Hi), <- (int2_bits_of w j Hj), E. reflexivity. Qed.

Lemma dget_app k a b : dget k (a ++ b) = match dget k a with Some v => Some v | None => dget k b end.
Proof. induction a as [|[k' v'] a IH]; [reflexivity|]. cbn [app dget]. destruct (key_eqb k' k); auto. Qed.
Lemma dtotal_app a b : dtotal (a ++ b) = dtotal a + dtotal b.
Proof. unfold dtotal. rewrite map_app. apply sumZ_app. Qed.

Section Unique.
  Variable w : nat.
  Variable c : Z -> Z.
  Hypothesis c_nonneg : forall i, 0 <= c i.
  Definition ug (i : Z) : dict := if 0 <? c i then [(inl (bits_of w i) : key, c i)] else [].

  Lemma ug_get L j : Forall (inrange w) L -> inrange w j ->
    dget (inl (bits_of w j)) (flat_map ug L) = if existsb (Z.eqb j) L && (0 <? c j) then Some (c j) else None.
  Proof.
    intros HL Hj. induction L as [|i L IH]; [reflexivity|].
    inversion HL as [|? ? Hi HL']; subst. specialize (IH HL').
    cbn [flat_map existsb]. rewrite dget_app, IH. clear IH.
    destruct (j =? i) eqn:E.
    - apply Z.eqb_eq in E. subst i. cbn [orb]. unfold ug. destruct (0 <? c j) eqn:P.
      + cbn [dget]. assert (K : key_eqb (inl (bits_of w j)) (inl (bits_of w j)) = true) by now apply key_eqb_eq.
        rewrite K. reflexivity.
      + cbn [dget]. rewrite andb_false_r. reflexivity.
    - cbn [orb]. unfold ug. destruct (0 <? c i); [|reflexivity]. cbn [dget].
      assert (K : key_eqb (inl (bits_of w i)) (inl (bits_of w j)) = false).
      { apply key_eqb_neq. intros X. inversion X as [X']. apply bits_of_inj in X'; auto. lia. }
      rewrite K. reflexivity.
  Qed.

  Lemma ug_total L : dtotal (flat_map ug L) = sumZ (map c L).
  Proof.
    induction L as [|i L IH]; [reflexivity|]. cbn [flat_map map]. rewrite dtotal_app, sumZ_cons, IH.
    f_equal. unfold ug. pose proof (c_nonneg i). destruct (0 <? c i) eqn:P; unfold dtotal, sumZ; simpl; lia.
  Qed.

  Lemma ug_keys L k : In k (map fst (flat_map ug L)) -> exists i, In i L /\ k = inl (bits_of w i).
  Proof.
    induction L as [|i L IH]; [intros []|]. cbn [flat_map]. rewrite map_app, in_app_iff. intros [H|H].
    - unfold ug in H. destruct (0 <? c i); [|destruct H]. destruct H as [H|[]]. exists i. split; [now left | now symmetry].
    - destruct (IH H) as (i' & Hi & E). exists i'. split; [now right | assumption].
  Qed.

  Lemma ug_nodup L : NoDup L -> Forall (inrange w) L -> NoDup (map fst (flat_map ug L)).
  Proof.
    induction 1 as [|i L Hni Hnd IH]; intros HL; [constructor|].
    inversion HL as [|? ? Hi HL']; subst. cbn [flat_map]. rewrite map_app. unfold ug at 1.
    destruct (0 <? c i); [|apply IH; assumption]. cbn [map app fst]. constructor; [|apply IH; assumption].
    intros Hin. apply ug_keys in Hin as (i' & Hi' & E). inversion E as [E'].
    rewrite Forall_forall in HL'. apply bits_of_inj in E'; auto. congruence.
  Qed.
End Unique.

Lemma dget_fill k u : forall base, NoDup (map fst u) ->
  dget k (fill base u) = match dget k u with Some v => Some v | None => dget k base end.
Proof.
  unfold fill. induction u as [|[k1 v1] u IH]; intros base Hnd; [reflexivity|].
  inversion Hnd as [|? ? Hni Hnd']; subst. cbn [fold_left fst snd]. rewrite IH by assumption. cbn [dget].
  destruct (key_eqb k1 k) eqn:E.
  - apply key_eqb_eq in E. subst k1.
    assert (N : dget k u = None).
    { clear -Hni. induction u as [|[k2 v2] u IH]; [reflexivity|]. cbn [dget]. cbn [map fst] in Hni.
      destruct (key_eqb k2 k) eqn:E; [apply key_eqb_eq in E; subst; exfalso; apply Hni; now left|].
      apply IH. intros X. apply Hni. now right. }
    rewrite N. unfold dset. rewrite dget_dupd_same. destruct (dget k base); reflexivity.
  - destruct (dget k u); [reflexivity|]. unfold dset. apply dget_dupd_other. now apply key_eqb_neq.
Qed.

Definition zero_valued (d : dict) : Prop := Forall (fun kv => snd kv = 0) d.
Lemma zero_valued_get d k : zero_valued d -> dget k d = Some 0 \/ dget k d = None.
Proof.
  induction 1 as [|[k' v'] d Hv Hd IH]; [now right|]. cbn [dget]. cbn in Hv. subst.
  destruct (key_eqb k' k); [now left | assumption].
Qed.
Lemma zero_valued_total d : zero_valued d -> dtotal d = 0.
Proof. induction 1 as [|[k' v'] d Hv Hd IH]; [reflexivity|]. rewrite dtotal_cons, IH. cbn in Hv. lia. Qed.

Lemma dtotal_fill u : forall base, NoDup (map fst u) ->
  (forall k, In k (map fst u) -> dget k base = Some 0 \/ dget k base = None) ->
  dtotal (fill base u) = dtotal base + dtotal u.
Proof.
  unfold fill. induction u as [|[k1 v1] u IH]; intros base Hnd Hz; cbn [fold_left fst snd].
  - unfold dtotal at 3, sumZ. simpl. lia.
  - inversion Hnd as [|? ? Hni Hnd']; subst. rewrite IH; [| assumption |].
    + unfold dset. rewrite dtotal_dupd, dtotal_cons.
      destruct (Hz k1 (or_introl eq_refl)) as [E|E]; rewrite E; lia.
    + intros k Hk. unfold dset. rewrite dget_dupd_other; [apply Hz; now right|].
      intros X. subst. contradiction.
Qed.

Lemma all_indices_nodup w : NoDup (all_indices w).
Proof.
  unfold all_indices. apply FinFun.Injective_map_NoDup; [|apply seq_NoDup].
  intros a b H. lia.
Qed.
Lemma all_indices_range w : Forall (inrange w) (all_indices w).
Proof. apply Forall_forall. intros i H. now apply in_all_indices. Qed.
Lemma existsb_all_indices w j : inrange w j -> existsb (Z.eqb j) (all_indices w) = true.
Proof. intros H. apply existsb_exists. exists j. split; [now apply in_all_indices | apply Z.eqb_refl]. Qed.

Lemma base_get w L j : Forall (inrange w) L -> inrange w j ->
  dget (inl (bits_of w j)) (map (fun i => (inl (bits_of w i) : key, 0)) L) = if existsb (Z.eqb j) L then Some 0 else None.
Proof.
  intros HL Hj. induction L as [|i L IH]; [reflexivity|]. inversion HL as [|? ? Hi HL']; subst.
  cbn [map dget existsb]. destruct (j =? i) eqn:E.
  - apply Z.eqb_eq in E. subst. assert (K : key_eqb (inl (bits_of w i)) (inl (bits_of w i)) = true) by now apply key_eqb_eq.
    rewrite K. reflexivity.
  - assert (K : key_eqb (inl (bits_of w i)) (inl (bits_of w j)) = false).
    { apply key_eqb_neq. intros X. inversion X as [X']. apply bits_of_inj in X'; auto. lia. }
    rewrite K. cbn [orb]. auto.
Qed.
Lemma base_zero w L : zero_valued (map (fun i => (inl (bits_of w i) : key, 0)) L).
Proof. induction L; constructor; auto. Qed.

(* multiplicity of the bit string b among the rows *)
Definition mult (b : list bool) (rows : list (list bool)) : Z := count_eq (int2 b) (map int2 rows).

(* CountsMP without observable: the dictionary maps every bit string to its multiplicity (observed strings
   only, or ALL 2^w strings under all_outcomes) and the counts add up to the number of shots *)
Lemma s2c_raw_spec ao ws w rows :
  (ws = [] \/ length ws = w) -> Forall (fun r => length r = w) rows ->
  exists d, s2c_raw ao ws None w rows = Some d /\
    (forall b, length b = w ->
       dget (inl b) d = if ao || (0 <? mult b rows) then Some (mult b rows) else None) /\
    dtotal d = lenZ rows.
Proof.
  intros Hws Hrows. unfold s2c_raw.
  assert (Hn : (if (0 <? length ws)%nat then length ws else w) = w).
  { destruct Hws as [->|E]; [reflexivity|]. rewrite E. destruct (0 <? w)%nat eqn:P; [reflexivity|].
    apply Nat.ltb_ge in P. lia. }
  rewrite Hn. eexists. split; [reflexivity|].
  assert (Hidx : map (index_row w) rows = map int2 rows).
  { apply map_ext_in. intros r Hr. rewrite Forall_forall in Hrows. rewrite <- (Hrows r Hr). apply dot_int2. }
  unfold unique_rows. rewrite Hidx.
  set (c := fun i => count_eq i (map int2 rows)).
  change (flat_map _ (all_indices w)) with (flat_map (ug w c) (all_indices w)).
  assert (Cn : forall i, 0 <= c i) by (intros; apply count_eq_nonneg).
  pose proof (ug_nodup w c (all_indices w) (all_indices_nodup w) (all_indices_range w)) as ND.
  split.
  - intros b Hb. pose proof (int2_range b) as R. unfold lenZ in R. rewrite Hb in R.
    rewrite dget_fill by assumption. rewrite <- (bits_of_int2 b), Hb.
    rewrite (ug_get w c (all_indices w) (int2 b) (all_indices_range w) R), existsb_all_indices by exact R.
    cbn [andb]. unfold mult. rewrite (int2_bits_of w (int2 b) R).
    change (count_eq (int2 b) (map int2 rows)) with (c (int2 b)).
    destruct (0 <? c (int2 b)) eqn:P.
    + rewrite orb_true_r. reflexivity.
    + rewrite orb_false_r. destruct ao.
      * rewrite (base_get w (all_indices w) (int2 b) (all_indices_range w) R), existsb_all_indices by exact R.
        specialize (Cn (int2 b)). f_equal. lia.
      * reflexivity.
  - rewrite dtotal_fill; [| assumption |].
    + rewrite (ug_total w c Cn). unfold c. rewrite (count_total w _ (rows_in_range w rows Hrows)).
      unfold lenZ. rewrite map_length. destruct ao; [rewrite zero_valued_total by apply base_zero|]; reflexivity.
    + intros k _. destruct ao; [apply zero_valued_get, base_zero | now right].
Qed.

(* ------------------------------------------------------------------ CountsMP.process_samples on wires *)
Lemma map_opt_length {A B} (f : A -> option B) l : forall r, map_opt f l = Some r -> length r = length l.
Proof.
  induction l as [|x l IH]; intros r H; cbn [map_opt] in H; [inversion H; reflexivity|].
  destruct (f x); [|discriminate]. destruct (map_opt f l) as [s|]; [|discriminate].
  inversion H; subst. cbn [length]. f_equal. apply IH. reflexivity.
Qed.

Lemma selected_lengths idxs r rows : Forall (fun row => length row = length idxs) (selected idxs r rows).
Proof. apply Forall_forall. intros x H. apply in_map_iff in H as (y & <- & _). apply length_select. Qed.

Lemma counts_ps_wires one ao ws order r rows idxs :
  mapped_wires order ws = Some idxs -> idxs <> [] ->
  exists d, counts_ps one ao (OWires ws) false order r None [rows] = RD d /\
    (forall b, length b = length idxs ->
       dget (inl b) d = if ao || (0 <? mult b (selected idxs r rows))
                        then Some (mult b (selected idxs r rows)) else None) /\
    dtotal d = lenZ (selected idxs r rows).
Proof.
  intros Hm Hne. unfold counts_ps, prep. cbn [o_wires]. rewrite Hm.
  pose proof (map_opt_length _ _ _ Hm) as HL.
  destruct (s2c_raw_spec ao ws (length idxs) (selected idxs r rows) (or_intror (eq_sym HL)) (selected_lengths idxs r rows))
    as (d & Hd & Hspec).
  destruct idxs as [|i0 il]; [congruence|]. cbn [map map_opt].
  unfold selected in Hd. rewrite Hd. exists d. split; [reflexivity | exact Hspec].
Qed.

(* ------------------------------------------------------------------ process_counts(counts s): totals *)
Lemma remove_unobserved_total d : dtotal (remove_unobserved d) = dtotal d.
Proof.
  induction d as [|[k v] d IH]; [reflexivity|]. cbn [remove_unobserved filter snd].
  destruct (v =? 0) eqn:E; cbn [negb]; fold (remove_unobserved d); rewrite ?dtotal_cons, IH; lia.
Qed.

Lemma full_counts_total ao0 order rows h :
  Forall (fun r => length r = length order) rows ->
  full_counts ao0 order rows = Some h -> sumZ (map snd h) = lenZ rows.
Proof.
  intros Hr. unfold full_counts.
  destruct (s2c_raw_spec ao0 [] (length order) rows (or_introl eq_refl) Hr) as (d & Hd & _ & Ht).
  rewrite Hd. rewrite <- Ht. clear. revert h.
  induction d as [|[k v] d IH]; intros h H; cbn [map_opt] in H; [inversion H; reflexivity|].
  destruct k as [b|z]; cbn [fst snd] in H; [|discriminate].
  match type of H with match ?X with _ => _ end = _ => destruct X as [s|] eqn:E end; [|discriminate].
  inversion H; subst. cbn [map snd]. rewrite sumZ_cons, dtotal_cons, (IH s eq_refl). reflexivity.
Qed.

Lemma roundtrip_total ao0 order ws rows h d :
  Forall (fun r => length r = length order) rows ->
  full_counts ao0 order rows = Some h ->
  counts_pc_gen false ws None order h = Some d -> dtotal d = lenZ rows.
Proof.
  intros Hr Hh Hd. unfold counts_pc_gen in Hd. destruct (map_counts order ws h) as [m|] eqn:Em; [|discriminate].
  inversion Hd; subst. rewrite remove_unobserved_total, (map_counts_total _ _ _ _ Em).
  eapply full_counts_total; eauto.
Qed.

(* ------------------------------------------------------------------ ProbabilityMP.process_samples = frequencies *)
Lemma squeeze_col l : (length l <> 1)%nat -> squeeze (tmat (map (fun z => [z]) l)) = tvec l.
Proof.
  intros H. destruct l as [|a [|b l]]; [reflexivity | cbn in H; congruence |].
  unfold tmat, tvec. cbn [map squeeze]. f_equal. f_equal. f_equal.
  rewrite !map_map. apply map_ext. reflexivity.
Qed.

Lemma probs_ps_direct o order r rows idxs :
  mapped_wires order (o_wires o) = Some idxs -> idxs <> [] -> selected idxs r rows <> [] ->
  probs_ps o false order r None [rows]
  = RQ (tvec (map (fun p => count_eq p (map int2 (selected idxs r rows))) (all_indices (length idxs))))
       (lenZ (selected idxs r rows)).
Proof.
  intros Hm Hne Hs. unfold probs_ps, prep. rewrite Hm.
  destruct idxs as [|i0 il]; [congruence|]. cbn [map]. cbv zeta.
  fold (selected (i0 :: il) r rows). set (sel := selected (i0 :: il) r rows) in *.
  set (w := @length nat (i0 :: il)).
  assert (Hidx : map (index_row w) sel = map int2 sel).
  { apply map_ext_in. intros x Hx. pose proof (selected_lengths (i0 :: il) r rows) as F.
    rewrite Forall_forall in F. fold sel in F. rewrite <- (dot_int2 x). unfold w. rewrite (F x Hx). reflexivity. }
  rewrite Hidx. unfold ncols. rewrite map_length. fold (lenZ sel).
  assert (Hn : 0 < lenZ sel) by (unfold lenZ; destruct sel; [congruence | cbn [length]; lia]).
  rewrite Z_mod_same_full, Z.eqb_refl. cbn [negb]. rewrite orb_false_r.
  destruct (lenZ sel <=? 0) eqn:E; [lia|].
  rewrite Z_div_same_full by lia. change (Z.to_nat 1) with 1%nat. cbn [chunks].
  replace (firstn (Z.to_nat (lenZ sel)) (map int2 sel)) with (map int2 sel)
    by (symmetry; unfold lenZ; rewrite Nat2Z.id, <- (map_length int2 sel); apply firstn_all).
  cbn [map].
  cbn [unbatch hd]. 
  rewrite <- (map_map (fun p => count_eq p (map int2 sel)) (fun z => [z])).
  rewrite squeeze_col; [reflexivity|].
  rewrite map_length. pose proof (length_all_indices w) as L. unfold lenZ in L.
  assert (2 <= 2 ^ Z.of_nat w). { unfold w. cbn [length]. rewrite Nat2Z.inj_succ. rewrite Z.pow_succ_r by lia. pose proof (Z.pow_pos_nonneg 2 (Z.of_nat (length il))). lia. }
  lia.
Qed.
