(* Lemmas about the model of qp.transforms.transpile (Disc/TranspileModel.v). *)
From Coq Require Import List ZArith Bool Lia ZifyBool.
From PLV Require Import Disc.TranspileModel.
Import ListNotations.
Open Scope Z_scope.

(* ------------------------------------------------------------------ basics *)
Lemma memZ_In x l : memZ x l = true <-> In x l.
Proof.
  unfold memZ. rewrite existsb_exists. split.
  - intros [y [H1 H2]]. apply Z.eqb_eq in H2. subst; auto.
  - intros H; exists x; split; auto. apply Z.eqb_refl.
Qed.

Lemma memZ_nIn x l : memZ x l = false <-> ~ In x l.
Proof. rewrite <- memZ_In. destruct (memZ x l); split; congruence. Qed.

Definition edge_pair (E : list (Z * Z)) (s : Z * Z) : Prop := is_edge E (fst s) (snd s) = true.

Lemma is_edge_nodes E a b : is_edge E a b = true -> In a (nodes E) /\ In b (nodes E).
Proof.
  unfold is_edge, nodes. rewrite existsb_exists. intros [e [He H]].
  split; apply in_flat_map; exists e; (split; [exact He|]); simpl; lia.
Qed.

Ltac tr1 := match goal with |- context[?x =? ?y] =>
              lazymatch x with context[Z.eqb] => fail | _ =>
              lazymatch y with context[Z.eqb] => fail | _ => destruct (Z.eqb_spec x y); cbv iota end end end.
Ltac tr := unfold transp; repeat tr1; try lia.

Lemma transp_invol a b w : transp a b (transp a b w) = w.
Proof. tr. Qed.
Lemma transp_snd a b : transp a b b = a.
Proof. tr. Qed.
Lemma transp_fix a b w : w <> a -> w <> b -> transp a b w = w.
Proof. intros; tr. Qed.
Lemma transp_cases a b w : transp a b w = a \/ transp a b w = b \/ transp a b w = w.
Proof. tr; auto. Qed.

Lemma papp_cons s sw w : papp (s :: sw) w = papp sw (transp (fst s) (snd s) w).
Proof. reflexivity. Qed.
Lemma papp_app l1 l2 w : papp (l1 ++ l2) w = papp l2 (papp l1 w).
Proof. unfold papp. apply fold_left_app. Qed.

Lemma papp_rev_l sw w : papp (rev sw) (papp sw w) = w.
Proof.
  revert w. induction sw as [|s sw IH]; intros w; [reflexivity|].
  rewrite papp_cons. simpl rev. rewrite papp_app, IH. simpl. apply transp_invol.
Qed.
Lemma papp_rev_r sw w : papp sw (papp (rev sw) w) = w.
Proof. rewrite <- (rev_involutive sw) at 1. apply papp_rev_l. Qed.
Lemma papp_inj sw a b : papp sw a = papp sw b -> a = b.
Proof. intros H. rewrite <- (papp_rev_l sw a), H. apply papp_rev_l. Qed.

Lemma papp_fix sw x : (forall s, In s sw -> fst s <> x /\ snd s <> x) -> papp sw x = x.
Proof.
  induction sw as [|s sw IH]; intros H; [reflexivity|].
  rewrite papp_cons, transp_fix; [apply IH; intros; apply H; right; auto| |];
    destruct (H s (or_introl eq_refl)); auto.
Qed.

Lemma papp_nodes E sw w : Forall (edge_pair E) sw -> In w (nodes E) -> In (papp sw w) (nodes E).
Proof.
  revert w. induction sw as [|s sw IH]; intros w HF Hw; [exact Hw|].
  inversion HF; subst. rewrite papp_cons. apply IH; auto.
  destruct (is_edge_nodes _ _ _ H1) as [Ha Hb].
  destruct (transp_cases (fst s) (snd s) w) as [-> | [-> | ->]]; auto.
Qed.

(* ------------------------------------------------------------------ wire maps *)
Lemma wm_get_id wo k : wm_get (wm_id wo) k = k.
Proof. induction wo as [|w wo IH]; simpl; [reflexivity|]. destruct (Z.eqb_spec w k); auto. Qed.

Lemma keys_id wo : map fst (wm_id wo) = wo.
Proof. unfold wm_id. rewrite map_map. simpl. apply map_id. Qed.

Lemma keys_swap a b m : map fst (wm_swap a b m) = map fst m.
Proof. unfold wm_swap. rewrite map_map. reflexivity. Qed.

Lemma wm_get_swap a b m k : In k (map fst m) -> wm_get (wm_swap a b m) k = transp a b (wm_get m k).
Proof.
  induction m as [|kv m IH]; simpl; [tauto|]. intros H.
  destruct (Z.eqb_spec (fst kv) k); [reflexivity|]. apply IH. destruct H; [contradiction|assumption].
Qed.

Lemma keys_swaps sw m : map fst (wm_swaps sw m) = map fst m.
Proof.
  revert m. induction sw as [|s sw IH]; intros m; [reflexivity|].
  unfold wm_swaps in *. simpl. rewrite IH. apply keys_swap.
Qed.

Lemma wm_get_swaps sw m k : In k (map fst m) -> wm_get (wm_swaps sw m) k = papp sw (wm_get m k).
Proof.
  revert m. induction sw as [|s sw IH]; intros m H; [reflexivity|].
  rewrite papp_cons. unfold wm_swaps in *. simpl. rewrite IH by (rewrite keys_swap; exact H).
  rewrite wm_get_swap by exact H. reflexivity.
Qed.

(* the wire map built during one routing step is the composite permutation, on the tracked wires *)
Lemma wm_route sw wo k : In k wo -> wm_get (wm_swaps sw (wm_id wo)) k = papp sw k.
Proof. intros H. rewrite wm_get_swaps by (rewrite keys_id; exact H). rewrite wm_get_id. reflexivity. Qed.

Lemma map_wm_route sw wo l : incl l wo -> map (wm_get (wm_swaps sw (wm_id wo))) l = map (papp sw) l.
Proof. intros H. apply map_ext_in. intros a Ha. apply wm_route. apply H, Ha. Qed.

Lemma map_wires_route sw wo g :
  incl (snd g) wo -> map_wires (wm_swaps sw (wm_id wo)) g = gmap (papp sw) g.
Proof. intros H. unfold map_wires, gmap. f_equal. apply map_wm_route, H. Qed.

Lemma maps_wires_route sw wo ops :
  Forall (fun g => incl (snd g) wo) ops ->
  map (map_wires (wm_swaps sw (wm_id wo))) ops = map (gmap (papp sw)) ops.
Proof.
  intros H. apply map_ext_in. intros g Hg. apply map_wires_route.
  rewrite Forall_forall in H. apply H, Hg.
Qed.

Lemma maps_meas_route sw wo ms :
  Forall (fun m => incl m wo) ms ->
  map (map (wm_get (wm_swaps sw (wm_id wo)))) ms = map (map (papp sw)) ms.
Proof.
  intros H. apply map_ext_in. intros m Hm. apply map_wm_route.
  rewrite Forall_forall in H. apply H, Hm.
Qed.

Lemma covered_step (f : Z -> Z) (wo : list Z) (ls : list (list Z)) :
  Forall (fun m => incl m wo) ls -> Forall (fun m => incl m (map f wo)) (map (map f) ls).
Proof.
  intros H. rewrite Forall_forall in *. intros m Hm. apply in_map_iff in Hm. destruct Hm as [m0 [<- Hm0]].
  intros x Hx. apply in_map_iff in Hx. destruct Hx as [y [<- Hy]]. apply in_map. apply (H m0 Hm0), Hy.
Qed.

Lemma covered_step_g (f : Z -> Z) (wo : list Z) (ops : list gate) :
  Forall (fun g => incl (snd g) wo) ops -> Forall (fun g => incl (snd g) (map f wo)) (map (gmap f) ops).
Proof.
  intros H. rewrite Forall_forall in *. intros g Hg. apply in_map_iff in Hg. destruct Hg as [g0 [<- Hg0]].
  simpl. intros x Hx. apply in_map_iff in Hx. destruct Hx as [y [<- Hy]]. apply in_map. apply (H g0 Hg0), Hy.
Qed.

(* ------------------------------------------------------------------ paths *)
Lemma consec_in l s : In s (consec l) -> In (fst s) l /\ In (snd s) l.
Proof.
  induction l as [|a r IH]; simpl; [tauto|]. destruct r as [|b r']; [simpl; tauto|].
  intros [<- | H]; simpl; [auto|]. destruct (IH H). split; right; assumption.
Qed.

Lemma chain_consec E l : chain E l = true -> Forall (edge_pair E) (consec l).
Proof.
  induction l as [|a r IH]; [constructor|]. destruct r as [|b r']; [constructor|].
  change (chain E (a :: b :: r')) with (is_edge E a b && chain E (b :: r')).
  change (consec (a :: b :: r')) with ((a, b) :: consec (b :: r')).
  intros H. apply andb_true_iff in H. destruct H. constructor; [assumption | apply IH; assumption].
Qed.

Lemma papp_last r d : r <> [] -> papp (rev (consec r)) (last r d) = hd d r.
Proof.
  induction r as [|p1 r IH]; [congruence|]. intros _. destruct r as [|p2 r']; [reflexivity|].
  change (consec (p1 :: p2 :: r')) with ((p1, p2) :: consec (p2 :: r')).
  change (last (p1 :: p2 :: r') d) with (last (p2 :: r') d).
  change (rev ((p1, p2) :: consec (p2 :: r'))) with (rev (consec (p2 :: r')) ++ [(p1, p2)]).
  rewrite papp_app, IH by congruence. simpl. apply transp_snd.
Qed.

(* everything the loop uses about a validated oracle answer *)
Lemma valid_path_spec E a b p :
  valid_path E a b p = true ->
  exists p1 r, p = a :: p1 :: r /\ last (p1 :: r) a = b /\ is_edge E a p1 = true /\
               chain E (p1 :: r) = true /\ ~ In a (p1 :: r).
Proof.
  unfold valid_path. destruct p as [|p0 r]; [discriminate|]. destruct r as [|p1 r]; [simpl; lia|].
  intros H. repeat (apply andb_true_iff in H; destruct H as [H ?]).
  apply Z.eqb_eq in H. subst p0. exists p1, r. split; [reflexivity|].
  match goal with X : (last _ _ =? _) = true |- _ => apply Z.eqb_eq in X end.
  match goal with X : chain _ _ = true |- _ =>
    change (chain E (a :: p1 :: r)) with (is_edge E a p1 && chain E (p1 :: r)) in X;
    apply andb_true_iff in X; destruct X end.
  match goal with X : negb _ = true |- _ => apply negb_true_iff, memZ_nIn in X end.
  repeat split; assumption.
Qed.

Lemma route_spec E a b p :
  valid_path E a b p = true ->
  let sw := wires_to_swap p in
  papp sw a = a /\ is_edge E (papp sw a) (papp sw b) = true /\ Forall (edge_pair E) sw.
Proof.
  intros H. destruct (valid_path_spec _ _ _ _ H) as [p1 [r [-> [Hl [He [Hc Hn]]]]]].
  unfold wires_to_swap. simpl tl. cbv zeta.
  assert (Ha : papp (rev (consec (p1 :: r))) a = a).
  { apply papp_fix. intros s Hs. apply in_rev in Hs. apply consec_in in Hs. destruct Hs.
    split; intros Heq; apply Hn; rewrite <- Heq; assumption. }
  split; [exact Ha|]. split.
  - rewrite Ha, <- Hl, papp_last by congruence. exact He.
  - apply Forall_rev. apply chain_consec, Hc.
Qed.

Lemma last_In (r : list Z) d : r <> [] -> In (last r d) r.
Proof.
  induction r as [|x r IH]; [congruence|]. intros _. destruct r as [|y r']; [left; reflexivity|].
  change (last (x :: y :: r') d) with (last (y :: r') d). right. apply IH. congruence.
Qed.

Lemma chain_nodes E : forall l a, chain E (a :: l) = true -> In a (nodes E) ->
  forall x, In x (a :: l) -> In x (nodes E).
Proof.
  induction l as [|b l IH]; intros a Hc Ha x Hx.
  - destruct Hx as [<- | []]. exact Ha.
  - change (chain E (a :: b :: l)) with (is_edge E a b && chain E (b :: l)) in Hc.
    apply andb_true_iff in Hc. destruct Hc as [He Hc]. destruct Hx as [<- | Hx]; [exact Ha|].
    apply (IH b Hc); [apply (is_edge_nodes _ _ _ He) | exact Hx].
Qed.

(* a validated path joins two distinct nodes of the graph *)
Lemma valid_path_endpoints E a b p :
  valid_path E a b p = true -> In a (nodes E) /\ In b (nodes E) /\ a <> b.
Proof.
  intros H. destruct (valid_path_spec _ _ _ _ H) as [p1 [r [-> [Hl [He [Hc Hn]]]]]].
  destruct (is_edge_nodes _ _ _ He) as [Ha Hp1].
  assert (Hb : In b (p1 :: r)) by (rewrite <- Hl; apply last_In; congruence).
  split; [exact Ha|]. split; [eapply chain_nodes; eauto|]. intros ->. exact (Hn Hb).
Qed.

(* ------------------------------------------------------------------ the loop *)
Lemma loop_nil E sp fuel k wo ms : loop E sp fuel k [] wo ms = Ok [] ms wo [] k.
Proof. destruct fuel; reflexivity. Qed.

Lemma loop_S E sp f k op rest wo ms :
  loop E sp (S f) k (op :: rest) wo ms =
  match snd op with
  | [] | [_] => prepend [op] [] (loop E sp f k rest wo ms)
  | [a; b] =>
    if is_edge E a b then prepend [op] [] (loop E sp f k rest wo ms)
    else
      let p := sp k a b in
      if valid_path E a b p then
        let sw := wires_to_swap p in
        let wm := wm_swaps sw (wm_id wo) in
        prepend (map (fun s => mkswap (fst s) (snd s)) sw ++ [map_wires wm op]) sw
                (loop E sp f (S k) (map (map_wires wm) rest) (map (wm_get wm) wo)
                      (map (map (wm_get wm)) ms))
      else Err
  | _ => Err
  end.
Proof. reflexivity. Qed.

Lemma prepend_ok pre psw r gs ms wo sw c :
  prepend pre psw r = Ok gs ms wo sw c ->
  exists gs' sw', r = Ok gs' ms wo sw' c /\ gs = pre ++ gs' /\ sw = psw ++ sw'.
Proof. destruct r; simpl; [|discriminate]. intros H; inversion H; subst. eauto. Qed.

Definition ops_covered (wo : list Z) (ops : list gate) : Prop := Forall (fun g => incl (snd g) wo) ops.
Definition meas_covered (wo : list Z) (ms : list (list Z)) : Prop := Forall (fun m => incl m wo) ms.

Lemma on_edges_app E g1 g2 : on_edges E (g1 ++ g2) = on_edges E g1 && on_edges E g2.
Proof. unfold on_edges. apply forallb_app. Qed.

Lemma on_edges_cons E g gs :
  on_edges E (g :: gs) =
  (match snd g with [a; b] => is_edge E a b | [] | [_] => true | _ => false end) && on_edges E gs.
Proof. reflexivity. Qed.

Lemma on_edges_swaps E sw :
  Forall (edge_pair E) sw -> on_edges E (map (fun s => mkswap (fst s) (snd s)) sw) = true.
Proof. induction 1; simpl; [reflexivity|]. unfold edge_pair in H. rewrite H. exact IHForall. Qed.

(* ---- clause 1: every two-wire gate of the output is on an edge ---- *)
Lemma loop_on_edges E sp : forall fuel k ops wo ms gs ms' wo' sw c,
  ops_covered wo ops ->
  loop E sp fuel k ops wo ms = Ok gs ms' wo' sw c ->
  on_edges E gs = true /\ Forall (edge_pair E) sw.
Proof.
  induction fuel as [|f IH]; intros k ops wo ms gs ms' wo' sw c Hc H.
  - destruct ops; simpl in H; [inversion H; subst; split; [reflexivity|constructor] | discriminate].
  - destruct ops as [|op rest]; [rewrite loop_nil in H; inversion H; subst; split; [reflexivity|constructor]|].
    rewrite loop_S in H. inversion Hc as [|? ? Hop Hrest]; subst.
    destruct (snd op) as [|a [|b [|x l]]] eqn:Hw.
    + apply prepend_ok in H. destruct H as [gs' [sw' [HL [-> ->]]]].
      destruct (IH _ _ _ _ _ _ _ _ _ Hrest HL). split; [|assumption].
      simpl. rewrite Hw. assumption.
    + apply prepend_ok in H. destruct H as [gs' [sw' [HL [-> ->]]]].
      destruct (IH _ _ _ _ _ _ _ _ _ Hrest HL). split; [|assumption].
      simpl. rewrite Hw. assumption.
    + destruct (is_edge E a b) eqn:He.
      * apply prepend_ok in H. destruct H as [gs' [sw' [HL [-> ->]]]].
        destruct (IH _ _ _ _ _ _ _ _ _ Hrest HL). split; [|assumption].
        simpl. rewrite Hw, He. assumption.
      * cbv zeta in H. destruct (valid_path E a b (sp k a b)) eqn:Hv; [|discriminate].
        apply prepend_ok in H. destruct H as [gs' [sw' [HL [-> ->]]]].
        destruct (route_spec _ _ _ _ Hv) as [Ha [Hab HF]].
        rewrite maps_wires_route in HL by exact Hrest.
        rewrite (map_wm_route _ wo wo) in HL by apply incl_refl.
        apply IH in HL; [|apply covered_step_g; exact Hrest].
        destruct HL as [H1 H2]. split; [|apply Forall_app; split; assumption].
        rewrite <- app_assoc, on_edges_app, on_edges_swaps by exact HF.
        rewrite map_wires_route by (rewrite Hw; exact Hop).
        rewrite andb_true_l. simpl app. rewrite on_edges_cons. unfold gmap. cbn [snd]. rewrite Hw. cbn [map].
        rewrite Hab. exact H1.
    + discriminate.
Qed.

(* ---- the measurements and the wire order are relabelled by the accumulated permutation ---- *)
Lemma loop_meas E sp : forall fuel k ops wo ms gs ms' wo' sw c,
  ops_covered wo ops -> meas_covered wo ms ->
  loop E sp fuel k ops wo ms = Ok gs ms' wo' sw c ->
  ms' = map (map (papp sw)) ms /\ wo' = map (papp sw) wo.
Proof.
  induction fuel as [|f IH]; intros k ops wo ms gs ms' wo' sw c Hc Hm H.
  - destruct ops; simpl in H; [|discriminate]. inversion H; subst. simpl.
    split; [rewrite (map_ext _ (fun l => l)), map_id; [reflexivity|intros; apply map_id] | rewrite map_id; reflexivity].
  - destruct ops as [|op rest].
    { rewrite loop_nil in H; inversion H; subst. simpl.
      split; [rewrite (map_ext _ (fun l => l)), map_id; [reflexivity|intros; apply map_id] | rewrite map_id; reflexivity]. }
    rewrite loop_S in H. inversion Hc as [|? ? Hop Hrest]; subst.
    assert (Hplain : forall r, r = loop E sp f k rest wo ms -> prepend [op] [] r = Ok gs ms' wo' sw c ->
                     ms' = map (map (papp sw)) ms /\ wo' = map (papp sw) wo).
    { intros r -> H0. apply prepend_ok in H0. destruct H0 as [gs' [sw' [HL [-> ->]]]].
      simpl. eapply IH; eauto. }
    destruct (snd op) as [|a [|b [|x l]]] eqn:Hw; try (eapply Hplain; eauto; fail).
    + destruct (is_edge E a b) eqn:He; [eapply Hplain; eauto|].
      cbv zeta in H. destruct (valid_path E a b (sp k a b)) eqn:Hv; [|discriminate].
      apply prepend_ok in H. destruct H as [gs' [sw' [HL [-> ->]]]].
      rewrite maps_wires_route in HL by exact Hrest.
      rewrite maps_meas_route in HL by exact Hm.
      rewrite map_wm_route in HL by apply incl_refl.
      apply IH in HL; [|apply covered_step_g; exact Hrest | apply covered_step; exact Hm].
      destruct HL as [-> ->]. split.
      * rewrite map_map. apply map_ext. intros m. rewrite map_map. apply map_ext. intros w.
        rewrite papp_app. reflexivity.
      * rewrite map_map. apply map_ext. intros w. rewrite papp_app. reflexivity.
    + discriminate.
Qed.

(* ------------------------------------------------------------------ clause 2: semantics *)
Lemma gmap_papp_cons s sw g : gmap (papp (s :: sw)) g = gmap (papp sw) (gmap (transp (fst s) (snd s)) g).
Proof. unfold gmap. simpl. rewrite map_map. reflexivity. Qed.

Lemma gmap_papp_nil g : gmap (papp []) g = g.
Proof. unfold gmap. destruct g. simpl. rewrite map_id. reflexivity. Qed.

Section Semantics.
  Variable St : Type.
  Variable sem : gate -> St -> St.
  Variable act1 : Z -> Z -> St -> St.      (* relabelling action of the transposition (a b) on states *)
  Hypothesis H2 : forall a b g s, sem (gmap (transp a b) g) (act1 a b s) = act1 a b (sem g s).
  Hypothesis H3 : forall a b s, sem (mkswap a b) s = act1 a b s.

  Definition run (gs : list gate) (s : St) : St := fold_left (fun s g => sem g s) gs s.
  Definition act (sw : list (Z * Z)) (s : St) : St := fold_left (fun s p => act1 (fst p) (snd p) s) sw s.

  Lemma run_app g1 g2 s : run (g1 ++ g2) s = run g2 (run g1 s).
  Proof. unfold run. apply fold_left_app. Qed.
  Lemma act_app l1 l2 s : act (l1 ++ l2) s = act l2 (act l1 s).
  Proof. unfold act. apply fold_left_app. Qed.

  Lemma run_swaps sw s : run (map (fun p => mkswap (fst p) (snd p)) sw) s = act sw s.
  Proof. revert s. induction sw as [|p sw IH]; intros s; [reflexivity|]. simpl. rewrite H3. apply IH. Qed.

  Lemma equiv1 a b ops : forall s,
    run (map (gmap (transp a b)) ops) (act1 a b s) = act1 a b (run ops s).
  Proof. induction ops as [|g ops IH]; intros s; [reflexivity|]. simpl. rewrite H2. apply IH. Qed.

  Lemma equiv sw : forall ops s, run (map (gmap (papp sw)) ops) (act sw s) = act sw (run ops s).
  Proof.
    induction sw as [|p sw IH]; intros ops s.
    - simpl. rewrite (map_ext _ (fun g => g)) by apply gmap_papp_nil. rewrite map_id. reflexivity.
    - simpl act. rewrite (map_ext _ _ (gmap_papp_cons p sw)), <- map_map, IH, equiv1. reflexivity.
  Qed.

  Lemma loop_sem E sp : forall fuel k ops wo ms gs ms' wo' sw c,
    ops_covered wo ops ->
    loop E sp fuel k ops wo ms = Ok gs ms' wo' sw c ->
    forall s, run gs s = act sw (run ops s).
  Proof.
    induction fuel as [|f IH]; intros k ops wo ms gs ms' wo' sw c Hc H s.
    - destruct ops; simpl in H; [inversion H; subst; reflexivity | discriminate].
    - destruct ops as [|op rest]; [rewrite loop_nil in H; inversion H; subst; reflexivity|].
      rewrite loop_S in H. inversion Hc as [|? ? Hop Hrest]; subst.
      assert (Hplain : forall r, r = loop E sp f k rest wo ms -> prepend [op] [] r = Ok gs ms' wo' sw c ->
                       run gs s = act sw (run (op :: rest) s)).
      { intros r -> H0. apply prepend_ok in H0. destruct H0 as [gs' [sw' [HL [-> ->]]]].
        simpl. eapply IH; eauto. }
      destruct (snd op) as [|a [|b [|x l]]] eqn:Hw; try (eapply Hplain; eauto; fail).
      + destruct (is_edge E a b) eqn:He; [eapply Hplain; eauto|].
        cbv zeta in H. destruct (valid_path E a b (sp k a b)) eqn:Hv; [|discriminate].
        apply prepend_ok in H. destruct H as [gs' [sw' [HL [-> ->]]]].
        rewrite maps_wires_route in HL by exact Hrest.
        rewrite map_wires_route by (rewrite Hw; exact Hop).
        rewrite (map_wm_route _ wo wo) in HL by apply incl_refl.
        pose proof (IH _ _ _ _ _ _ _ _ _ (covered_step_g _ _ _ Hrest) HL) as IH'.
        rewrite !run_app, run_swaps, IH', act_app. f_equal.
        change (run (map (gmap (papp (wires_to_swap (sp k a b)))) (op :: rest)) (act (wires_to_swap (sp k a b)) s)
                = act (wires_to_swap (sp k a b)) (run (op :: rest) s)).
        apply equiv.
      + discriminate.
  Qed.
End Semantics.

(* ------------------------------------------------------------------ top level *)
Definition dev_covers (ops : list gate) (ms : list (list Z)) (dev : list Z) : Prop :=
  dev = [] \/ incl (tape_wires ops ms) dev.
Definition wo0 (ops : list gate) (ms : list (list Z)) (dev : list Z) : list Z :=
  match dev with [] => tape_wires ops ms | _ => dev end.

Lemma dedup_In x l : forall seen, In x (dedup seen l) <-> In x l /\ ~ In x seen.
Proof.
  induction l as [|y l IH]; intros seen; simpl; [tauto|].
  destruct (memZ y seen) eqn:Hm.
  - apply memZ_In in Hm. rewrite IH. split; [tauto|]. intros [[-> | H] Hn]; [contradiction | tauto].
  - apply memZ_nIn in Hm. simpl. rewrite IH. simpl. split.
    + intros [-> | [H1 H2]]; [tauto|]. split; [tauto|]. intros H3; apply H2; auto.
    + intros [[-> | H] Hn]; [auto|]. destruct (Z.eq_dec y x); [auto|]. right. split; [assumption|].
      intros [H1 | H1]; [contradiction | contradiction].
Qed.

Lemma tape_wires_ops ops ms g w : In g ops -> In w (snd g) -> In w (tape_wires ops ms).
Proof.
  intros Hg Hw. unfold tape_wires. apply dedup_In. split; [|simpl; tauto].
  apply in_or_app. left. apply in_flat_map. exists g; auto.
Qed.
Lemma tape_wires_meas ops ms m w : In m ms -> In w m -> In w (tape_wires ops ms).
Proof.
  intros Hm Hw. unfold tape_wires. apply dedup_In. split; [|simpl; tauto].
  apply in_or_app. right. apply in_concat. exists m; auto.
Qed.

Lemma covered0 ops ms dev : dev_covers ops ms dev ->
  ops_covered (wo0 ops ms dev) ops /\ meas_covered (wo0 ops ms dev) (process_meas dev ms).
Proof.
  intros Hd. unfold ops_covered, meas_covered, wo0, process_meas. destruct dev as [|d dev].
  - split; apply Forall_forall; intros x Hx w Hw;
      [eapply tape_wires_ops; eauto | eapply tape_wires_meas; eauto].
  - destruct Hd as [Hd | Hd]; [discriminate|]. split; apply Forall_forall; intros x Hx w Hw.
    + apply Hd. eapply tape_wires_ops; eauto.
    + apply in_map_iff in Hx. destruct Hx as [m [<- Hm]]. destruct m as [|m0 m]; [exact Hw|].
      apply Hd. eapply tape_wires_meas; eauto.
Qed.

Lemma transpile_loop E sp ops ms dev r :
  transpile E sp ops ms dev = r -> r <> Err ->
  r = loop E sp (length ops) 0%nat ops (wo0 ops ms dev) (process_meas dev ms).
Proof.
  unfold transpile, wo0. intros H Hr.
  repeat match goal with H : (if ?c then _ else _) = _ |- _ => destruct c; [congruence|] end. auto.
Qed.

Lemma transpile_on_edges_lem E sp ops ms dev gs ms' wo' sw c :
  dev_covers ops ms dev ->
  transpile E sp ops ms dev = Ok gs ms' wo' sw c ->
  on_edges E gs = true /\ Forall (edge_pair E) sw.
Proof.
  intros Hd H. apply transpile_loop in H; [|discriminate]. symmetry in H.
  destruct (covered0 _ _ _ Hd). eapply loop_on_edges; eauto.
Qed.

Lemma transpile_on_edges_prop E sp ops ms dev gs ms' wo' sw c :
  dev_covers ops ms dev ->
  transpile E sp ops ms dev = Ok gs ms' wo' sw c ->
  Forall (fun g => match snd g with
                   | [] | [_] => True
                   | [a; b] => is_edge E a b = true
                   | _ => False end) gs /\
  Forall (fun s => is_edge E (fst s) (snd s) = true) sw.
Proof.
  intros Hd H. destruct (transpile_on_edges_lem _ _ _ _ _ _ _ _ _ _ Hd H) as [H1 H2]. split; [|exact H2].
  apply Forall_forall. intros g Hg. unfold on_edges in H1.
  rewrite forallb_forall in H1. specialize (H1 g Hg).
  destruct (snd g) as [|a [|b [|x l]]]; auto; discriminate.
Qed.

Definition is_inverse (f g : Z -> Z) : Prop := (forall w, g (f w) = w) /\ (forall w, f (g w) = w).

Lemma transpile_perm_lem E sp ops ms dev gs ms' wo' sw c :
  dev_covers ops ms dev ->
  transpile E sp ops ms dev = Ok gs ms' wo' sw c ->
  (forall (St : Type) (sem : gate -> St -> St) (act1 : Z -> Z -> St -> St),
     (forall a b g s, sem (gmap (transp a b) g) (act1 a b s) = act1 a b (sem g s)) ->
     (forall a b s, sem (mkswap a b) s = act1 a b s) ->
     forall s, run St sem gs s = act St act1 sw (run St sem ops s)) /\
  ms' = map (map (papp sw)) (process_meas dev ms) /\
  wo' = map (papp sw) (wo0 ops ms dev) /\
  is_inverse (papp sw) (papp (rev sw)) /\
  (forall w, In w (nodes E) <-> In (papp sw w) (nodes E)).
Proof.
  intros Hd H. pose proof (transpile_on_edges_lem _ _ _ _ _ _ _ _ _ _ Hd H) as [_ HF].
  apply transpile_loop in H; [|discriminate]. symmetry in H.
  destruct (covered0 _ _ _ Hd) as [Ho Hm]. split; [|split; [|split; [|split]]].
  - intros St sem act1 H2 H3 s. eapply loop_sem; eauto.
  - eapply loop_meas; eauto.
  - eapply loop_meas; eauto.
  - split; intros w; [apply papp_rev_l | apply papp_rev_r].
  - intros w. split; [apply papp_nodes; exact HF|]. intros Hw.
    rewrite <- (papp_rev_l sw w). apply papp_nodes; [apply Forall_rev; exact HF | exact Hw].
Qed.

(* ------------------------------------------------------------------ clause 3: totality *)
(* the shape of gates transpile accepts: at most two wires, the two wires of a gate distinct *)
Definition gate_ok (g : gate) : Prop :=
  match snd g with [] | [_] => True | [a; b] => a <> b | _ => False end.

(* connectivity, phrased with the same notion of path the model validates *)
Definition connected (E : list (Z * Z)) : Prop :=
  forall a b, In a (nodes E) -> In b (nodes E) -> a <> b -> exists p, valid_path E a b p = true.
(* the oracle finds a usable path whenever one exists *)
Definition oracle_correct (E : list (Z * Z)) (sp : nat -> Z -> Z -> list Z) : Prop :=
  forall k a b, (exists p, valid_path E a b p = true) -> valid_path E a b (sp k a b) = true.

Lemma gate_ok_gmap sw g : gate_ok g -> gate_ok (gmap (papp sw) g).
Proof.
  unfold gate_ok, gmap. simpl. destruct (snd g) as [|a [|b [|x l]]]; simpl; auto.
  intros H Heq. apply H. eapply papp_inj; eauto.
Qed.

Lemma loop_total E sp : connected E -> oracle_correct E sp ->
  forall fuel k ops wo ms,
  (length ops <= fuel)%nat ->
  ops_covered wo ops -> Forall gate_ok ops -> Forall (fun g => incl (snd g) (nodes E)) ops ->
  loop E sp fuel k ops wo ms <> Err.
Proof.
  intros Hcon Hor. induction fuel as [|f IH]; intros k ops wo ms Hlen Hc Hok Hn.
  - destruct ops; simpl in *; [discriminate | lia].
  - destruct ops as [|op rest]; [rewrite loop_nil; discriminate|].
    rewrite loop_S. simpl in Hlen.
    inversion Hc as [|? ? Hop Hrest]; inversion Hok as [|? ? Gop Grest]; inversion Hn as [|? ? Nop Nrest]; subst.
    assert (Hplain : prepend [op] [] (loop E sp f k rest wo ms) <> Err).
    { pose proof (IH k rest wo ms ltac:(lia) Hrest Grest Nrest) as Hne.
      destruct (loop E sp f k rest wo ms); [discriminate | congruence]. }
    unfold gate_ok in Gop. destruct (snd op) as [|a [|b [|x l]]] eqn:Hw; try exact Hplain; [|contradiction].
    destruct (is_edge E a b) eqn:He; [exact Hplain|]. cbv zeta.
    assert (Hv : valid_path E a b (sp k a b) = true).
    { apply Hor. apply Hcon; [apply Nop; simpl; auto | apply Nop; simpl; auto | exact Gop]. }
    rewrite Hv. destruct (route_spec _ _ _ _ Hv) as [_ [_ HF]].
    rewrite maps_wires_route by exact Hrest.
    match goal with |- prepend _ _ ?L <> Err => assert (HL : L <> Err) end.
    { apply IH.
      - rewrite map_length. lia.
      - rewrite map_wm_route by apply incl_refl. apply covered_step_g. exact Hrest.
      - rewrite Forall_forall in *. intros g Hg. apply in_map_iff in Hg. destruct Hg as [g0 [<- Hg0]].
        apply gate_ok_gmap. apply Grest, Hg0.
      - rewrite Forall_forall in *. intros g Hg. apply in_map_iff in Hg. destruct Hg as [g0 [<- Hg0]].
        simpl. intros w Hw'. apply in_map_iff in Hw'. destruct Hw' as [w0 [<- Hw0]].
        apply papp_nodes; [apply Forall_forall; exact HF|]. apply (Nrest g0 Hg0), Hw0. }
    match goal with |- prepend _ _ ?L <> Err => destruct L; [discriminate | congruence] end.
Qed.

Lemma transpile_total_lem E sp ops ms dev :
  connected E -> oracle_correct E sp ->
  dev_covers ops ms dev ->
  Forall gate_ok ops ->
  incl (tape_wires ops ms) (nodes E) ->
  transpile E sp ops ms dev <> Err.
Proof.
  intros Hcon Hor Hd Hok Hin. unfold transpile.
  replace (forallb (fun w => memZ w (nodes E)) (tape_wires ops ms)) with true.
  2:{ symmetry. apply forallb_forall. intros w Hw. apply memZ_In. apply Hin, Hw. }
  simpl negb. cbv iota.
  match goal with |- (if ?c then _ else _) <> _ => destruct c eqn:Hex end.
  { exfalso. apply existsb_exists in Hex. destruct Hex as [g [Hg H]].
    rewrite Forall_forall in Hok. specialize (Hok g Hg). unfold gate_ok in Hok.
    destruct (snd g) as [|a [|b [|x l]]]; simpl in *; try lia. }
  destruct (covered0 _ _ _ Hd) as [Ho _]. unfold wo0 in Ho.
  apply loop_total; auto.
  rewrite Forall_forall. intros g Hg w Hw. apply Hin. eapply tape_wires_ops; eauto.
Qed.

(* ------------------------------------------------------------------ non-vacuity helpers *)
(* a concrete instance of the semantic hypotheses: the state is the position of one marked token;
   SWAP moves it, every other gate leaves it, relabelling moves it *)
Definition tok_sem (g : gate) (s : Z) : Z :=
  if fst g =? SWAPc then match snd g with [a; b] => transp a b s | _ => s end else s.

Lemma tok_H2 a b g s : tok_sem (gmap (transp a b) g) (transp a b s) = transp a b (tok_sem g s).
Proof.
  unfold tok_sem, gmap. simpl. destruct (fst g =? SWAPc); [|reflexivity].
  destruct (snd g) as [|x [|y [|z l]]]; simpl; try reflexivity.
  unfold transp. repeat tr1; try lia.
Qed.

Lemma tok_H3 a b s : tok_sem (mkswap a b) s = transp a b s.
Proof. reflexivity. Qed.

(* the line 0-1-2 with a correct oracle *)
Definition line3 : list (Z * Z) := [(0, 1); (1, 2)].
Definition sp3 (_ : nat) (a b : Z) : list Z :=
  if (a =? 0) && (b =? 2) then [0; 1; 2] else if (a =? 2) && (b =? 0) then [2; 1; 0] else [a; b].

Lemma line3_ok :
  connected line3 /\ oracle_correct line3 sp3 /\
  transpile line3 sp3 [(10, [0; 2]); (10, [2; 0])] [[2; 0]] [] =
    Ok [(0, [1; 2]); (10, [0; 1]); (10, [1; 0])] [[1; 0]] [0; 1] [(1, 2)] 1%nat.
Proof.
  assert (Hs : forall k a b, In a (nodes line3) -> In b (nodes line3) -> a <> b ->
                             valid_path line3 a b (sp3 k a b) = true).
  { intros k a b Ha Hb Hab. simpl in Ha, Hb.
    repeat (destruct Ha as [<- | Ha]); try contradiction;
      repeat (destruct Hb as [<- | Hb]); try contradiction; try congruence; reflexivity. }
  split; [|split].
  - intros a b Ha Hb Hab. exists (sp3 0%nat a b). apply Hs; assumption.
  - intros k a b [p Hp]. destruct (valid_path_endpoints _ _ _ _ Hp) as [Ha [Hb Hab]]. apply Hs; assumption.
  - vm_compute. reflexivity.
Qed.
