From Coq Require Import List ZArith Bool Lia Arith.
From PLV Require Import Disc.WiresModel.
Import ListNotations.
Open Scope Z_scope.

(* ------------------------------------------------------------------ membership *)
Lemma mem_In x l : mem x l = true <-> In x l.
Proof.
  induction l as [|y l IH]; simpl; [split; [discriminate | tauto]|].
  rewrite orb_true_iff, IH, Z.eqb_eq. split; intros [H|H]; auto.
Qed.
Lemma mem_false x l : mem x l = false <-> ~ In x l.
Proof. rewrite <- mem_In. destruct (mem x l); split; congruence. Qed.
Lemma mem_app x a b : mem x (a ++ b) = mem x a || mem x b.
Proof. induction a as [|y a IH]; simpl; [reflexivity|]. now rewrite IH, orb_assoc. Qed.
Lemma mem_filter x f l : mem x (filter f l) = mem x l && f x.
Proof.
  induction l as [|y l IH]; simpl; [reflexivity|].
  destruct (x =? y) eqn:E.
  - apply Z.eqb_eq in E; subst y. destruct (f x) eqn:Fx; simpl.
    + now rewrite Z.eqb_refl.
    + rewrite IH. apply andb_false_r.
  - destruct (f y); simpl; rewrite ?E; simpl; apply IH.
Qed.
Lemma mem_ext_In a b : (forall x, In x a <-> In x b) -> forall x, mem x a = mem x b.
Proof.
  intros H x. destruct (mem x a) eqn:Ea, (mem x b) eqn:Eb; try reflexivity.
  - apply mem_In, H, mem_In in Ea. congruence.
  - apply mem_In, H, mem_In in Eb. congruence.
Qed.

Lemma filter_id (f : Z -> bool) l : (forall y, In y l -> f y = true) -> filter f l = l.
Proof.
  induction l as [|y l IH]; intros H; simpl; [reflexivity|].
  rewrite (H y (or_introl eq_refl)), IH; [reflexivity|]. intros; apply H; now right.
Qed.
Lemma filter_filter (f g : Z -> bool) l : filter f (filter g l) = filter (fun y => g y && f y) l.
Proof.
  induction l as [|y l IH]; simpl; [reflexivity|].
  destruct (g y); simpl; [destruct (f y)|]; now rewrite IH.
Qed.
Lemma NoDup_app_intro (a b : list Z) : NoDup a -> NoDup b -> (forall x, In x a -> ~ In x b) -> NoDup (a ++ b).
Proof.
  induction a as [|x a IH]; intros Ha Hb H; simpl; [assumption|].
  inversion Ha; subst. constructor.
  - rewrite in_app_iff. intros [?|?]; [contradiction|]. eapply H; [left; reflexivity | eassumption].
  - apply IH; auto. intros; apply H; now right.
Qed.

(* ------------------------------------------------------------------ dedup = first occurrences *)
Lemma dedup_aux_ext l : forall s1 s2, (forall x, mem x s1 = mem x s2) -> dedup_aux s1 l = dedup_aux s2 l.
Proof.
  induction l as [|x l IH]; intros s1 s2 H; simpl; [reflexivity|].
  rewrite <- (H x). destruct (mem x s1); [now apply IH|].
  f_equal. apply IH. intros y; simpl. now rewrite H.
Qed.
Lemma dedup_aux_filter l : forall s t, dedup_aux (s ++ t) l = filter (fun x => negb (mem x s)) (dedup_aux t l).
Proof.
  induction l as [|x l IH]; intros s t; simpl; [reflexivity|].
  rewrite mem_app. destruct (mem x t) eqn:Et.
  - rewrite orb_true_r. apply IH.
  - rewrite orb_false_r. destruct (mem x s) eqn:Es; simpl; rewrite Es; simpl.
    + rewrite <- IH. apply dedup_aux_ext. intros y. rewrite !mem_app. simpl.
      destruct (y =? x) eqn:E; [|reflexivity]. apply Z.eqb_eq in E; subst. rewrite Es. reflexivity.
    + f_equal. rewrite <- IH. apply dedup_aux_ext. intros y. simpl. rewrite !mem_app. simpl.
      destruct (y =? x), (mem y s); reflexivity.
Qed.
Lemma dedup_cons x r : dedup (x :: r) = x :: filter (fun y => negb (y =? x)) (dedup r).
Proof.
  unfold dedup. simpl. f_equal. change [x] with ([x] ++ []). rewrite dedup_aux_filter.
  apply filter_ext. intros y; simpl. now rewrite orb_false_r.
Qed.
Lemma dedup_nil : dedup [] = [].
Proof. reflexivity. Qed.

Lemma In_dedup w l : In w (dedup l) <-> In w l.
Proof.
  induction l as [|x l IH]; [simpl; tauto|]. rewrite dedup_cons. simpl. rewrite filter_In, IH.
  destruct (w =? x) eqn:E.
  - apply Z.eqb_eq in E; subst. split; auto.
  - apply Z.eqb_neq in E. split; [intros [?|[? _]]; auto | intros [?|?]; [subst; congruence | right; split; auto]].
Qed.
Lemma mem_dedup w l : mem w (dedup l) = mem w l.
Proof. apply mem_ext_In. intros; apply In_dedup. Qed.
Lemma NoDup_dedup l : NoDup (dedup l).
Proof.
  induction l as [|x l IH]; [constructor|]. rewrite dedup_cons. constructor.
  - rewrite filter_In. intros [_ H]. now rewrite Z.eqb_refl in H.
  - now apply NoDup_filter.
Qed.
Lemma dedup_id l : NoDup l -> dedup l = l.
Proof.
  induction l as [|x l IH]; intros H; [reflexivity|]. inversion H; subst.
  rewrite dedup_cons, IH by assumption. f_equal. apply filter_id.
  intros y Hy. apply negb_true_iff, Z.eqb_neq. intros ->. contradiction.
Qed.
Lemma dedup_length_iff l : length (dedup l) = length l <-> NoDup l.
Proof.
  split; intros H; [|now rewrite dedup_id].
  apply (@NoDup_incl_NoDup Z (dedup l) l (NoDup_dedup l)); [lia|].
  intros w; apply In_dedup.
Qed.
Lemma dedup_app a : forall b, dedup (a ++ b) = dedup a ++ filter (fun y => negb (mem y a)) (dedup b).
Proof.
  induction a as [|x a IH]; intros b.
  - change (dedup b = filter (fun y => negb (mem y [])) (dedup b)). symmetry. apply filter_id. reflexivity.
  - rewrite <- app_comm_cons, !dedup_cons, IH, filter_app, filter_filter. rewrite <- app_comm_cons. f_equal. f_equal.
    apply filter_ext. intros y. cbn [mem]. now rewrite negb_orb, andb_comm.
Qed.

(* ------------------------------------------------------------------ _process / Wires(...) *)
Lemma process_iter_spec l l' : process_iter l = Some l' <-> NoDup l /\ l' = l.
Proof.
  unfold process_iter, pyset, lenZ. destruct (_ =? _) eqn:E.
  - apply Z.eqb_eq, Nat2Z.inj, dedup_length_iff in E. split; [intros [= <-]; auto | intros [_ ->]; reflexivity].
  - apply Z.eqb_neq in E. split; [discriminate|]. intros [H _]. apply dedup_length_iff in H. rewrite H in E. congruence.
Qed.
Lemma process_iter_ok l : NoDup l -> process_iter l = Some l.
Proof. intros; apply process_iter_spec; auto. Qed.
Lemma process_iter_dup l : ~ NoDup l -> process_iter l = None.
Proof. intros H. destruct (process_iter l) eqn:E; [|reflexivity]. apply process_iter_spec in E. tauto. Qed.

(* the label sequence an argument denotes *)
Definition arg_labels (a : arg) : list Z :=
  match a with AList l => l | AInt x => [x] | AStr x _ => [x] | AWires l => l end.
Lemma mkwires_spec a l : mkwires a = Some l <-> NoDup (arg_labels a) /\ l = arg_labels a.
Proof.
  unfold mkwires, process. destruct a; simpl; try apply process_iter_spec.
  split; [intros [= <-]; split; [repeat constructor; simpl; tauto | reflexivity] | intros [_ ->]; reflexivity].
Qed.
Lemma mkwires_nodup a l : mkwires a = Some l -> NoDup l.
Proof. intros H. apply mkwires_spec in H as [H ->]. exact H. Qed.

(* ------------------------------------------------------------------ all_wires, + *)
Lemma all_wires_In ll w : In w (all_wires_l ll) <-> exists l, In l ll /\ In w l.
Proof. unfold all_wires_l. rewrite In_dedup, in_concat. reflexivity. Qed.
Lemma all_wires_NoDup ll : NoDup (all_wires_l ll).
Proof. apply NoDup_dedup. Qed.
Lemma all_wires_app l1 l2 :
  all_wires_l (l1 ++ l2) = all_wires_l l1 ++ filter (fun w => negb (mem w (concat l1))) (all_wires_l l2).
Proof. unfold all_wires_l. now rewrite concat_app, dedup_app. Qed.
Lemma all_wires_single l : NoDup l -> all_wires_l [l] = l.
Proof. intros H. unfold all_wires_l. simpl. rewrite app_nil_r. now apply dedup_id. Qed.
Lemma all_wires_pair a b : NoDup a -> NoDup b -> all_wires_l [a; b] = a ++ filter (fun w => negb (mem w a)) b.
Proof.
  intros Ha Hb. change [a; b] with ([a] ++ [b]). rewrite all_wires_app, !all_wires_single by assumption.
  simpl. now rewrite app_nil_r.
Qed.
Lemma add_spec self other o : NoDup self -> mkwires other = Some o ->
  add self other = Some (self ++ filter (fun w => negb (mem w self)) o)
  /\ radd self other = Some (o ++ filter (fun w => negb (mem w o)) self).
Proof.
  intros Hs Ho. unfold add, radd. rewrite Ho. unfold all_wires. simpl.
  pose proof (mkwires_nodup _ _ Ho). now rewrite !all_wires_pair.
Qed.
Lemma add_reject self other : mkwires other = None -> add self other = None /\ radd self other = None.
Proof. intros H. unfold add, radd. now rewrite H. Qed.

(* ------------------------------------------------------------------ shared_wires *)
Lemma fold_and_mem w sets : forall acc,
  mem w (fold_left s_and sets acc) = mem w acc && forallb (mem w) sets.
Proof.
  induction sets as [|s sets IH]; intros acc; simpl; [now rewrite andb_true_r|].
  rewrite IH. unfold s_and. rewrite mem_filter. now rewrite andb_assoc.
Qed.
Lemma forallb_map_dedup w r : forallb (mem w) (map pyset r) = forallb (mem w) r.
Proof. induction r as [|l r IH]; simpl; [reflexivity|]. unfold pyset at 1. now rewrite mem_dedup, IH. Qed.
Lemma shared_spec l0 r : shared_l (l0 :: r) = Some (filter (fun w => forallb (mem w) r) l0).
Proof.
  unfold shared_l. f_equal. apply filter_ext_in. intros w Hw.
  rewrite fold_and_mem, forallb_map_dedup. unfold pyset. rewrite mem_dedup.
  apply mem_In in Hw. now rewrite Hw.
Qed.
Lemma shared_In l0 r s w : shared_l (l0 :: r) = Some s -> (In w s <-> forall l, In l (l0 :: r) -> In w l).
Proof.
  rewrite shared_spec. intros [= <-]. rewrite filter_In, forallb_forall. split.
  - intros [H0 H] l [<-|Hl]; [assumption|]. now apply mem_In, H.
  - intros H. split; [apply H; now left|]. intros l Hl. apply mem_In, H. now right.
Qed.

(* ------------------------------------------------------------------ unique_wires *)
(* number of operands that contain w *)
Fixpoint cnt (ll : list (list Z)) (w : Z) : nat :=
  match ll with [] => 0%nat | l :: r => ((if mem w l then 1 else 0) + cnt r w)%nat end.

Definition uw_inv (st : list Z * list Z) (c : Z -> nat) : Prop :=
  forall w, mem w (fst st) = (c w =? 1)%nat /\ mem w (snd st) = (1 <=? c w)%nat.

Lemma uw_step_inv st c l : uw_inv st c ->
  uw_inv (uw_step st (pyset l)) (fun w => (c w + if mem w l then 1 else 0)%nat).
Proof.
  destruct st as [once ever]. intros H w. destruct (H w) as [Ho He]. cbn [fst snd] in Ho, He.
  unfold uw_step, s_or, s_xor, s_sub, pyset. cbn [fst snd].
  repeat (rewrite ?mem_filter, ?mem_app). rewrite !mem_dedup, Ho, He.
  destruct (mem w l); destruct (c w) as [|[|n]]; simpl; auto.
  all: rewrite ?Nat.add_0_r; simpl; auto.
  all: replace (n + 1)%nat with (S n) by lia; simpl; auto.
Qed.
Lemma uw_fold_inv ll : forall st c, uw_inv st c ->
  uw_inv (fold_left uw_step (map pyset ll) st) (fun w => (c w + cnt ll w)%nat).
Proof.
  induction ll as [|l ll IH]; intros st c H; simpl.
  - intros w. rewrite Nat.add_0_r. apply H.
  - pose proof (IH _ _ (uw_step_inv st c l H)) as H'. intros w. specialize (H' w). simpl in H'.
    rewrite Nat.add_assoc. exact H'.
Qed.
Lemma unique_spec ll : unique_l ll = filter (fun w => (cnt ll w =? 1)%nat) (concat ll).
Proof.
  unfold unique_l. apply filter_ext. intros w.
  assert (H0 : uw_inv ([], []) (fun _ => 0%nat)) by (intros x; split; reflexivity).
  apply (uw_fold_inv ll) in H0. destruct (H0 w) as [H _]. exact H.
Qed.
Lemma cnt_pos_iff ll w : (1 <= cnt ll w)%nat <-> exists l, In l ll /\ In w l.
Proof.
  induction ll as [|l ll IH]; simpl; [split; [lia | intros (? & [] & _)]|].
  destruct (mem w l) eqn:E.
  - split; [|lia]. intros _. exists l. split; [now left | now apply mem_In].
  - simpl. rewrite IH. apply mem_false in E. split; intros (l' & Hl & Hw); exists l'.
    + split; [now right | assumption].
    + destruct Hl as [<-|Hl]; [contradiction | split; assumption].
Qed.
(* cnt = 1  <->  the operand list splits around exactly one operand containing w *)
Lemma cnt_zero_iff ll w : cnt ll w = 0%nat <-> forall l, In l ll -> ~ In w l.
Proof.
  split.
  - intros H l Hl Hw. assert (1 <= cnt ll w)%nat by (apply cnt_pos_iff; eauto). lia.
  - intros H. destruct (cnt ll w) eqn:E; [reflexivity|].
    assert (1 <= cnt ll w)%nat as Hc by lia. apply cnt_pos_iff in Hc as (l & Hl & Hw). now apply H in Hl.
Qed.
Lemma cnt_one_iff ll w : cnt ll w = 1%nat <->
  exists p l s, ll = p ++ l :: s /\ In w l /\ (forall l', In l' (p ++ s) -> ~ In w l').
Proof.
  induction ll as [|l0 ll IH]; simpl.
  - split; [discriminate | intros (p & l & s & H & _); destruct p; discriminate].
  - destruct (mem w l0) eqn:E.
    + split.
      * intros H. assert (H0 : cnt ll w = 0%nat) by lia. exists [], l0, ll. simpl.
        split; [reflexivity|]. split; [now apply mem_In | now apply cnt_zero_iff].
      * intros (p & l & s & Hs & Hw & Hn). destruct p as [|q p]; simpl in Hs; injection Hs as -> ->.
        -- simpl in Hn. apply cnt_zero_iff in Hn. lia.
        -- exfalso. apply (Hn q); [now left | now apply mem_In].
    + apply mem_false in E. simpl. rewrite IH. split.
      * intros (p & l & s & -> & Hw & Hn). exists (l0 :: p), l, s. simpl. split; [reflexivity|]. split; [assumption|].
        intros l' [<-|Hl]; [assumption | now apply Hn].
      * intros (p & l & s & Hs & Hw & Hn). destruct p as [|q p]; simpl in Hs; injection Hs as -> ->; [contradiction|].
        exists p, l, s. split; [reflexivity|]. split; [assumption|]. intros l' Hl. apply Hn. now right.
Qed.
Lemma unique_In ll w : In w (unique_l ll) <->
  exists p l s, ll = p ++ l :: s /\ In w l /\ (forall l', In l' (p ++ s) -> ~ In w l').
Proof.
  rewrite unique_spec, filter_In, Nat.eqb_eq, <- cnt_one_iff. split; [tauto|].
  intros H. split; [|assumption]. apply in_concat. apply cnt_pos_iff. lia.
Qed.

(* ------------------------------------------------------------------ set operations *)
Lemma NoDup_s_or a b : NoDup a -> NoDup b -> NoDup (s_or a b).
Proof.
  intros Ha Hb. apply NoDup_app_intro; [assumption | now apply NoDup_filter|].
  intros x Hx. unfold s_sub. rewrite filter_In. intros [_ H]. apply mem_In in Hx. now rewrite Hx in H.
Qed.
Lemma NoDup_s_xor a b : NoDup a -> NoDup b -> NoDup (s_xor a b).
Proof.
  intros Ha Hb. apply NoDup_app_intro; try now apply NoDup_filter.
  intros x. unfold s_sub. rewrite !filter_In. intros [Hx _] [_ H]. apply mem_In in Hx. now rewrite Hx in H.
Qed.
Lemma In_s_and a b w : In w (s_and a b) <-> In w a /\ In w b.
Proof. unfold s_and. now rewrite filter_In, mem_In. Qed.
Lemma In_s_sub a b w : In w (s_sub a b) <-> In w a /\ ~ In w b.
Proof. unfold s_sub. now rewrite filter_In, negb_true_iff, mem_false. Qed.
Lemma In_s_or a b w : In w (s_or a b) <-> In w a \/ In w b.
Proof.
  unfold s_or. rewrite in_app_iff, In_s_sub. destruct (mem w a) eqn:E.
  - apply mem_In in E. tauto.
  - apply mem_false in E. tauto.
Qed.
Lemma In_s_xor a b w : In w (s_xor a b) <-> (In w a /\ ~ In w b) \/ (In w b /\ ~ In w a).
Proof. unfold s_xor. now rewrite in_app_iff, !In_s_sub. Qed.

Lemma setop_spec op (P : Prop -> Prop -> Prop) self other o :
  (forall a b, NoDup a -> NoDup b -> NoDup (op a b)) ->
  (forall a b w, In w (op a b) <-> P (In w a) (In w b)) ->
  (forall A A' B B', (A <-> A') -> (B <-> B') -> (P A B <-> P A' B')) ->
  process other = Some o ->
  exists u, setop op self other = Some u /\ NoDup u /\ forall w, In w u <-> P (In w self) (In w o).
Proof.
  intros Hnd Hin Hp Ho. unfold setop. rewrite Ho. unfold mkwires, process, pyset.
  exists (op (dedup self) (dedup o)).
  assert (N : NoDup (op (dedup self) (dedup o))) by (apply Hnd; apply NoDup_dedup).
  split; [now apply process_iter_ok|]. split; [assumption|].
  intros w. rewrite Hin. apply Hp; apply In_dedup.
Qed.
Lemma setop_reject op self other : process other = None -> setop op self other = None.
Proof. intros H. unfold setop. now rewrite H. Qed.

Lemma union_spec self other o : process other = Some o ->
  exists u, union self other = Some u /\ NoDup u /\ forall w, In w u <-> In w self \/ In w o.
Proof. apply (setop_spec s_or or); [apply NoDup_s_or | apply In_s_or | tauto]. Qed.
Lemma intersection_spec self other o : process other = Some o ->
  exists u, intersection self other = Some u /\ NoDup u /\ forall w, In w u <-> In w self /\ In w o.
Proof.
  apply (setop_spec s_and and); [intros; now apply NoDup_filter | apply In_s_and | tauto].
Qed.
Lemma difference_spec self other o : process other = Some o ->
  exists u, difference self other = Some u /\ NoDup u /\ forall w, In w u <-> In w self /\ ~ In w o.
Proof.
  apply (setop_spec s_sub (fun A B => A /\ ~ B)); [intros; now apply NoDup_filter | apply In_s_sub | tauto].
Qed.
Lemma symdiff_spec self other o : process other = Some o ->
  exists u, symmetric_difference self other = Some u /\ NoDup u /\
            forall w, In w u <-> (In w self /\ ~ In w o) \/ (In w o /\ ~ In w self).
Proof.
  apply (setop_spec s_xor (fun A B => (A /\ ~ B) \/ (B /\ ~ A))); [apply NoDup_s_xor | apply In_s_xor | tauto].
Qed.
Lemma rsub_spec self other o : process other = Some o ->
  exists u, rsub self other = Some u /\ NoDup u /\ forall w, In w u <-> In w o /\ ~ In w self.
Proof.
  apply (setop_spec (fun a b => s_sub b a) (fun A B => B /\ ~ A));
    [intros; now apply NoDup_filter | intros; apply In_s_sub | tauto].
Qed.
Lemma rxor_spec self other o : process other = Some o ->
  exists u, rxor self other = Some u /\ NoDup u /\
            forall w, In w u <-> (In w o /\ ~ In w self) \/ (In w self /\ ~ In w o).
Proof.
  apply (setop_spec (fun a b => s_xor b a) (fun A B => (B /\ ~ A) \/ (A /\ ~ B)));
    [intros; now apply NoDup_s_xor | intros; apply In_s_xor | tauto].
Qed.

(* ------------------------------------------------------------------ index / indices *)
Lemma index_from_sound l x : forall i j, index_from i l x = Some j ->
  exists n, j = i + Z.of_nat n /\ nth_error l n = Some x /\ forall m, (m < n)%nat -> nth_error l m <> Some x.
Proof.
  induction l as [|y l IH]; intros i j H; simpl in H; [discriminate|].
  destruct (x =? y) eqn:E.
  - injection H as <-. apply Z.eqb_eq in E; subst. exists 0%nat. split; [lia|]. split; [reflexivity|]. intros; lia.
  - apply IH in H as (n & -> & Hn & Hm). exists (S n). split; [lia|]. split; [exact Hn|].
    intros [|m] Hlt; simpl; [apply Z.eqb_neq in E; congruence | apply Hm; lia].
Qed.
Lemma index_from_none l x : forall i, index_from i l x = None <-> ~ In x l.
Proof.
  induction l as [|y l IH]; intros i; simpl; [tauto|].
  destruct (x =? y) eqn:E.
  - apply Z.eqb_eq in E. split; [discriminate | intros H; exfalso; apply H; now left].
  - apply Z.eqb_neq in E. rewrite IH. split; [intros H [?|?]; [congruence | contradiction] | tauto].
Qed.
Lemma index_from_first l x : forall i n, nth_error l n = Some x -> (forall m, (m < n)%nat -> nth_error l m <> Some x) ->
  index_from i l x = Some (i + Z.of_nat n).
Proof.
  induction l as [|y l IH]; intros i n Hn Hm; [destruct n; discriminate|].
  simpl. destruct n as [|n]; simpl in Hn.
  - injection Hn as ->. rewrite Z.eqb_refl. f_equal. lia.
  - destruct (x =? y) eqn:E.
    + apply Z.eqb_eq in E; subst. exfalso. apply (Hm 0%nat); [lia | reflexivity].
    + rewrite (IH (i + 1) n Hn); [f_equal; lia|]. intros m Hlt. apply (Hm (S m)). lia.
Qed.
Lemma index_spec l x j : index_lbl l x = Some j <->
  0 <= j /\ nth_error l (Z.to_nat j) = Some x /\ forall m, (m < Z.to_nat j)%nat -> nth_error l m <> Some x.
Proof.
  unfold index_lbl. split.
  - intros H. apply index_from_sound in H as (n & -> & Hn & Hm). simpl. rewrite Nat2Z.id. split; [lia | auto].
  - intros (H0 & Hn & Hm). rewrite (index_from_first l x 0 _ Hn Hm). f_equal. lia.
Qed.
Lemma index_nodup l x n : NoDup l -> nth_error l n = Some x -> index_lbl l x = Some (Z.of_nat n).
Proof.
  intros Hl Hn. apply index_spec. rewrite Nat2Z.id. split; [lia|]. split; [assumption|].
  intros m Hlt Hm. assert (m = n); [|lia].
  apply (proj1 (NoDup_nth_error l) Hl); [apply nth_error_Some; congruence | congruence].
Qed.
Lemma index_none l x : index_lbl l x = None <-> ~ In x l.
Proof. apply index_from_none. Qed.
Lemma index_wires l o : index l (IWires o) = match o with [x] => index_lbl l x | _ => None end.
Proof.
  unfold index. destruct o as [|x [|y o]]; try reflexivity.
  unfold lenZ. cbn [length]. destruct (Z.of_nat (S (S (length o))) =? 1) eqn:E; [apply Z.eqb_eq in E; lia | reflexivity].
Qed.

Lemma mapM_Forall2 {A B} (f : A -> option B) l r : mapM f l = Some r <-> Forall2 (fun x y => f x = Some y) l r.
Proof.
  revert r. induction l as [|x l IH]; intros r; simpl.
  - split; [intros [= <-]; constructor | intros H; inversion H; reflexivity].
  - destruct (f x) eqn:Fx.
    + destruct (mapM f l) eqn:M.
      * split; [intros [= <-]; constructor; [assumption | now apply IH]|].
        intros H; inversion H; subst. apply IH in H4. congruence.
      * split; [discriminate|]. intros H; inversion H; subst. apply IH in H4. discriminate.
    + split; [discriminate|]. intros H; inversion H; subst. congruence.
Qed.
Lemma mapM_None {A B} (f : A -> option B) l : mapM f l = None <-> exists x, In x l /\ f x = None.
Proof.
  induction l as [|x l IH]; simpl; [split; [discriminate | intros (? & [] & _)]|].
  destruct (f x) eqn:Fx.
  - destruct (mapM f l) eqn:M.
    + split; [discriminate|]. intros (y & [<-|Hy] & Hf); [congruence|].
      assert (@None (list B) = None) as _ by reflexivity. destruct IH as [_ IH]. discriminate IH. eauto.
    + split; [|reflexivity]. intros _. destruct IH as [IH _]. destruct (IH eq_refl) as (y & Hy & Hf). eauto.
  - split; [|reflexivity]. intros _. exists x. auto.
Qed.
Definition iter_labels (a : arg) : list Z :=
  match a with AList l => l | AInt x => [x] | AStr _ cs => cs | AWires l => l end.
Lemma indices_spec self a r : indices self a = Some r <->
  Forall2 (fun w j => index_lbl self w = Some j) (iter_labels a) r.
Proof. unfold indices. destruct a; apply mapM_Forall2. Qed.
Lemma indices_none self a : indices self a = None <-> exists w, In w (iter_labels a) /\ ~ In w self.
Proof.
  unfold indices. destruct a; rewrite mapM_None; simpl; split; intros (w & H & H'); exists w;
    (split; [assumption | now apply index_none]).
Qed.

(* ------------------------------------------------------------------ map *)
Lemma has_key_forall m l : forallb (has_key m) l = true <-> forall w, In w l -> lookup m w <> None.
Proof.
  rewrite forallb_forall. unfold has_key. split; intros H w Hw; specialize (H w Hw); destruct (lookup m w); congruence.
Qed.
Lemma map_spec self m r : map_wires self m = Some r <->
  Forall2 (fun w v => lookup m w = Some v) self r /\ NoDup r.
Proof.
  unfold map_wires. destruct (forallb (has_key m) self) eqn:K.
  - destruct (mapM (lookup m) self) as [nw|] eqn:M.
    + unfold mkwires, process. rewrite process_iter_spec. apply mapM_Forall2 in M. split.
      * intros [H ->]. auto.
      * intros [H N]. assert (r = nw); [|subst; auto].
        clear -H M. revert r nw H M. induction self; intros r nw H M; inversion H; inversion M; subst; [reflexivity|].
        f_equal; [congruence | eauto].
    + split; [discriminate|]. intros [H _]. apply mapM_Forall2 in H. congruence.
  - split; [discriminate|]. intros [H _]. apply mapM_Forall2 in H.
    assert (forallb (has_key m) self = true); [|congruence].
    apply has_key_forall. intros w Hw. assert (mapM (lookup m) self <> None) as Hn by congruence.
    intros E. apply Hn. apply mapM_None. eauto.
Qed.
Lemma Forall2_nth {A B} (R : A -> B -> Prop) l r : Forall2 R l r ->
  forall n x, nth_error l n = Some x -> exists y, nth_error r n = Some y /\ R x y.
Proof.
  induction 1; intros n a Hn; destruct n; simpl in *; try discriminate.
  - injection Hn as <-. eauto.
  - eauto.
Qed.
Lemma map_injective_guard self m w1 w2 v : In w1 self -> In w2 self -> w1 <> w2 ->
  lookup m w1 = Some v -> lookup m w2 = Some v -> map_wires self m = None.
Proof.
  intros H1 H2 Hne L1 L2. destruct (map_wires self m) as [r|] eqn:E; [|reflexivity]. exfalso.
  apply map_spec in E as [F N].
  apply In_nth_error in H1 as [n1 N1]. apply In_nth_error in H2 as [n2 N2].
  destruct (Forall2_nth _ _ _ F _ _ N1) as (y1 & R1 & Y1). destruct (Forall2_nth _ _ _ F _ _ N2) as (y2 & R2 & Y2).
  assert (n1 = n2).
  { apply (proj1 (NoDup_nth_error r) N); [apply nth_error_Some; congruence | congruence]. }
  subst. congruence.
Qed.
Lemma map_missing_key self m w : In w self -> lookup m w = None -> map_wires self m = None.
Proof.
  intros Hw L. destruct (map_wires self m) as [r|] eqn:E; [|reflexivity]. exfalso.
  apply map_spec in E as [F _]. apply In_nth_error in Hw as [n Hn].
  destruct (Forall2_nth _ _ _ F _ _ Hn) as (y & _ & Y). congruence.
Qed.

(* ------------------------------------------------------------------ subset *)
Lemma getitem_spec l i w : getitem l i = Some w <->
  - lenZ l <= i < lenZ l /\ nth_error l (Z.to_nat (i mod lenZ l)) = Some w.
Proof.
  unfold getitem, lenZ. destruct (0 <=? i) eqn:E0.
  - apply Z.leb_le in E0. split.
    + intros H. assert (Z.to_nat i < length l)%nat by (apply nth_error_Some; congruence).
      rewrite Z.mod_small by lia. split; [lia | assumption].
    + intros [Hr H]. now rewrite Z.mod_small in H by lia.
  - apply Z.leb_gt in E0. destruct (0 <=? _) eqn:E1.
    + apply Z.leb_le in E1.
      assert (Hm : i mod Z.of_nat (length l) = Z.of_nat (length l) + i).
      { symmetry. apply (Z.mod_unique_pos _ _ (-1)); lia. }
      rewrite Hm. split; [intros H; split; [lia | assumption] | tauto].
    + apply Z.leb_gt in E1. split; [discriminate | lia].
Qed.
Lemma subset_is_getitem l idx : subset l (XList idx) false = mapM (getitem l) idx.
Proof.
  unfold subset. destruct (existsb _ idx) eqn:E; [|reflexivity].
  symmetry. apply mapM_None. apply existsb_exists in E as (i & Hi & Hlt). exists i. split; [assumption|].
  apply Z.ltb_lt in Hlt. destruct (getitem l i) eqn:G; [|reflexivity]. apply getitem_spec in G. lia.
Qed.
Lemma Forall2_imp {A B} (P Q : A -> B -> Prop) l r : (forall a b, P a b -> Q a b) -> Forall2 P l r -> Forall2 Q l r.
Proof. intros H; induction 1; constructor; auto. Qed.
Lemma subset_spec l idx r : subset l (XList idx) false = Some r <->
  Forall2 (fun i w => - lenZ l <= i < lenZ l /\ nth_error l (Z.to_nat (i mod lenZ l)) = Some w) idx r.
Proof.
  rewrite subset_is_getitem, mapM_Forall2. split; apply Forall2_imp; intros i w; apply getitem_spec.
Qed.
Lemma subset_reject l idx : subset l (XList idx) false = None <-> exists i, In i idx /\ ~ (- lenZ l <= i < lenZ l).
Proof.
  rewrite subset_is_getitem, mapM_None. split; intros (i & Hi & H); exists i; (split; [assumption|]).
  - intros Hr. assert (exists w, nth_error l (Z.to_nat (i mod lenZ l)) = Some w) as [w Hw].
    { destruct (nth_error l (Z.to_nat (i mod lenZ l))) eqn:N; [eauto|]. apply nth_error_None in N.
      unfold lenZ in *. pose proof (Z.mod_pos_bound i (Z.of_nat (length l))). lia. }
    assert (getitem l i = Some w) by (apply getitem_spec; auto). congruence.
  - destruct (getitem l i) eqn:G; [|reflexivity]. apply getitem_spec in G. tauto.
Qed.
Lemma subset_periodic l idx : l <> [] ->
  subset l (XList idx) true = subset l (XList (map (fun i => i mod lenZ l) idx)) false.
Proof.
  intros Hl. unfold subset.
  assert (Hn : lenZ l =? 0 = false) by (apply Z.eqb_neq; unfold lenZ; destruct l; simpl in *; [congruence | lia]).
  rewrite Hn. replace (mapM (fun i => if false then None else Some (i mod lenZ l)) idx)
    with (Some (map (fun i => i mod lenZ l) idx)); [reflexivity|].
  induction idx as [|i idx IH]; simpl; [reflexivity|]. now rewrite <- IH.
Qed.
Lemma subset_periodic_spec l idx : l <> [] ->
  exists r, subset l (XList idx) true = Some r /\
            Forall2 (fun i w => nth_error l (Z.to_nat (i mod lenZ l)) = Some w) idx r.
Proof.
  intros Hl. rewrite subset_periodic by assumption.
  assert (Hpos : 0 < lenZ l) by (unfold lenZ; destruct l; simpl in *; [congruence | lia]).
  destruct (subset l (XList (map (fun i => i mod lenZ l) idx)) false) as [r|] eqn:E.
  - exists r. split; [reflexivity|]. apply subset_spec in E.
    clear -E Hpos. remember (map _ idx) as idx' eqn:Hi. revert idx Hi.
    induction E; intros [|i idx0] Hi; simpl in Hi; try discriminate; [constructor|].
    injection Hi as -> ->. constructor; [|now apply IHE]. destruct H as [_ H]. now rewrite Z.mod_mod in H by lia.
  - exfalso. apply subset_reject in E as (i & Hi & Hr). apply in_map_iff in Hi as (i0 & <- & _).
    pose proof (Z.mod_pos_bound i0 (lenZ l) Hpos). lia.
Qed.
Lemma subset_periodic_empty idx : subset [] (XList idx) true = match idx with [] => Some [] | _ => None end.
Proof. destruct idx; reflexivity. Qed.
Lemma subset_int l i p : subset l (XInt i) p = subset l (XList [i]) p.
Proof. reflexivity. Qed.

(* ------------------------------------------------------------------ ==, contains *)
Lemma list_eqb_eq a : forall b, list_eqb a b = true <-> a = b.
Proof.
  induction a as [|x a IH]; intros [|y b]; simpl; try (split; [discriminate | congruence]); [tauto|].
  rewrite andb_true_iff, Z.eqb_eq, IH. split; [intros [-> ->]; reflexivity | intros [= -> ->]; auto].
Qed.
Lemma weq_spec a b : weq a b = true <-> a = b.
Proof. apply list_eqb_eq. Qed.
Lemma weq_order x y : x <> y -> weq [x; y] [y; x] = false.
Proof. intros H. destruct (weq [x; y] [y; x]) eqn:E; [|reflexivity]. apply weq_spec in E. congruence. Qed.
Lemma contains_wires_spec self o : contains_wires self (AWires o) = true <-> incl o self.
Proof.
  unfold contains_wires, pyset. rewrite forallb_forall. split.
  - intros H w Hw. apply (proj1 (In_dedup w self)). apply mem_In. apply H. exact (proj2 (In_dedup w o) Hw).
  - intros H w Hw. apply mem_In. apply (proj2 (In_dedup w self)). apply H. exact (proj1 (In_dedup w o) Hw).
Qed.

(* ------------------------------------------------------------------ API-level statements (operands are Wires objects) *)
Lemma mapM_convert_wires ll : mapM convert1 (map AWires ll) = Some ll.
Proof. induction ll as [|l ll IH]; simpl; [reflexivity|]. now rewrite IH. Qed.
Lemma mapM_only_wires ll : mapM only_wires1 (map AWires ll) = Some ll.
Proof. induction ll as [|l ll IH]; simpl; [reflexivity|]. now rewrite IH. Qed.
Lemma all_wires_on_wires ll : all_wires (map AWires ll) = Some (all_wires_l ll).
Proof. unfold all_wires. now rewrite mapM_convert_wires. Qed.
Lemma shared_on_wires ll : shared_wires (map AWires ll) = shared_l ll.
Proof. unfold shared_wires. now rewrite mapM_only_wires. Qed.
Lemma unique_on_wires ll : unique_wires (map AWires ll) = Some (unique_l ll).
Proof. unfold unique_wires. now rewrite mapM_only_wires. Qed.

Lemma wires_reject_iff l : mkwires (AList l) = None <-> ~ NoDup l.
Proof.
  split.
  - intros H N. unfold mkwires, process in H. rewrite process_iter_ok in H by assumption. discriminate.
  - apply process_iter_dup.
Qed.

Lemma all_wires_api ll : exists r, all_wires (map AWires ll) = Some r /\ NoDup r /\
  (forall w, In w r <-> exists l, In l ll /\ In w l).
Proof.
  exists (all_wires_l ll). split; [apply all_wires_on_wires|]. split; [apply all_wires_NoDup | intros; apply all_wires_In].
Qed.
Lemma all_wires_order_api l1 l2 r1 r2 :
  all_wires (map AWires l1) = Some r1 -> all_wires (map AWires l2) = Some r2 ->
  all_wires (map AWires (l1 ++ l2)) = Some (r1 ++ filter (fun w => negb (mem w r1)) r2).
Proof.
  rewrite !all_wires_on_wires. intros [= <-] [= <-]. rewrite all_wires_app. f_equal. f_equal.
  apply filter_ext. intros w. f_equal. unfold all_wires_l. now rewrite mem_dedup.
Qed.
Lemma all_wires_single_api l : NoDup l -> all_wires [AWires l] = Some l.
Proof. intros H. change [AWires l] with (map AWires [l]). rewrite all_wires_on_wires. now rewrite all_wires_single. Qed.

Lemma shared_api l0 r : shared_wires (map AWires (l0 :: r)) = Some (filter (fun w => forallb (mem w) r) l0).
Proof. rewrite shared_on_wires. apply shared_spec. Qed.
Lemma shared_In_api l0 r s w : shared_wires (map AWires (l0 :: r)) = Some s ->
  (In w s <-> forall l, In l (l0 :: r) -> In w l).
Proof. rewrite shared_on_wires. apply shared_In. Qed.

Lemma unique_api ll : unique_wires (map AWires ll) = Some (filter (fun w => (cnt ll w =? 1)%nat) (concat ll)).
Proof. rewrite unique_on_wires. now rewrite unique_spec. Qed.
Lemma unique_In_api ll u w : unique_wires (map AWires ll) = Some u ->
  (In w u <-> exists p l s, ll = p ++ l :: s /\ In w l /\ (forall l', In l' (p ++ s) -> ~ In w l')).
Proof. rewrite unique_on_wires. intros [= <-]. apply unique_In. Qed.

Lemma hash_respects_eq (h : list Z -> Z) a b : weq a b = true -> h a = h b.
Proof. intros H. apply weq_spec in H. now subst. Qed.
