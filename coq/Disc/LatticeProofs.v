(* Lemmas about Disc/LatticeModel.v (property C69). *)
From Coq Require Import List ZArith Bool Lia QArith Permutation.
From PLV Require Import Disc.LatticeModel.
Import ListNotations.
Open Scope Z_scope.

(* ------------------------------------------------------------------ list utilities *)
Lemma In_range : forall lo hi x, In x (range lo hi) <-> lo <= x < hi.
Proof.
  intros lo hi x; unfold range; rewrite in_map_iff; split.
  - intros [i [<- Hi]]; apply in_seq in Hi; lia.
  - intros H; exists (Z.to_nat (x - lo)); split; [lia | apply in_seq; lia].
Qed.

Lemma NoDup_map_in : forall {A B} (f : A -> B) l,
  (forall x y, In x l -> In y l -> f x = f y -> x = y) -> NoDup l -> NoDup (map f l).
Proof.
  intros A B f l; induction l as [|a l IH]; intros Hinj Hnd; cbn; [constructor|].
  inversion Hnd as [|? ? Hna Hnd']; subst; constructor.
  - rewrite in_map_iff; intros [y [Hy Hin]]. apply Hna.
    rewrite <- (Hinj y a); auto; [right; auto | left; auto].
  - apply IH; auto. intros x y Hx Hy; apply Hinj; right; auto.
Qed.

Lemma NoDup_range : forall lo hi, NoDup (range lo hi).
Proof.
  intros lo hi; unfold range; apply NoDup_map_in; [|apply seq_NoDup].
  intros x y _ _ H; lia.
Qed.

Lemma NoDup_app_intro : forall {A} (a b : list A),
  NoDup a -> NoDup b -> (forall x, In x a -> ~ In x b) -> NoDup (a ++ b).
Proof.
  intros A a; induction a as [|x a IH]; intros b Ha Hb Hd; cbn; auto.
  inversion Ha; subst; constructor.
  - rewrite in_app_iff; intros [H|H]; [auto | apply (Hd x); [left; auto | auto]].
  - apply IH; auto. intros y Hy; apply Hd; right; auto.
Qed.

Lemma NoDup_flat_map : forall {A B} (f : A -> list B) l,
  NoDup l -> (forall x, In x l -> NoDup (f x)) ->
  (forall x y b, In x l -> In y l -> x <> y -> In b (f x) -> ~ In b (f y)) -> NoDup (flat_map f l).
Proof.
  intros A B f l; induction l as [|a l IH]; intros Hnd Hf Hdis; cbn; [constructor|].
  inversion Hnd as [|? ? Hna Hnd']; subst.
  apply NoDup_app_intro.
  - apply Hf; left; auto.
  - apply IH; auto.
    + intros x Hx; apply Hf; right; auto.
    + intros x y b Hx Hy; apply Hdis; right; auto.
  - intros b Hb Hin; apply in_flat_map in Hin; destruct Hin as [y [Hy Hby]].
    apply (Hdis a y b); auto; [left; auto | right; auto | intros ->; auto].
Qed.

Lemma In_product : forall rs c, In c (product rs) <-> Forall2 (fun r x => In x r) rs c.
Proof.
  induction rs as [|r rs IH]; intros c; cbn.
  - split; [intros [<-|[]]; constructor | intros H; inversion H; auto].
  - rewrite in_flat_map; split.
    + intros [x [Hx Hc]]; apply in_map_iff in Hc; destruct Hc as [c' [<- Hc']].
      constructor; auto; apply IH; auto.
    + intros H; inversion H as [|? x ? c' Hx Hc']; subst. exists x; split; auto.
      apply in_map; apply IH; auto.
Qed.

Lemma NoDup_product : forall rs, Forall (@NoDup Z) rs -> NoDup (product rs).
Proof.
  induction rs as [|r rs IH]; intros H; cbn.
  - constructor; [intros [] | constructor].
  - inversion H; subst. apply NoDup_flat_map; auto.
    + intros x _; apply NoDup_map_in; auto. intros a b _ _ E; inversion E; auto.
    + intros x y b _ _ Hxy Hb Hb'. apply in_map_iff in Hb; apply in_map_iff in Hb'.
      destruct Hb as [c [<- _]]; destruct Hb' as [c' [E _]]; inversion E; auto.
Qed.

(* allpairs *)
Lemma In_allpairs : forall {A} (l : list A) x y, In (x, y) (allpairs l) -> In x l /\ In y l.
Proof.
  intros A l; induction l as [|a l IH]; intros x y; cbn; [tauto|].
  rewrite in_app_iff, in_map_iff; intros [[z [E Hz]]|H].
  - inversion E; subst; auto.
  - destruct (IH _ _ H); auto.
Qed.

Lemma allpairs_neq : forall {A} (l : list A) x y, NoDup l -> In (x, y) (allpairs l) -> x <> y.
Proof.
  intros A l; induction l as [|a l IH]; intros x y Hnd; cbn; [tauto|].
  inversion Hnd; subst. rewrite in_app_iff, in_map_iff; intros [[z [E Hz]]|H].
  - inversion E; subst; intros ->; auto.
  - apply IH; auto.
Qed.

Lemma allpairs_complete : forall {A} (l : list A) x y, In x l -> In y l -> x <> y ->
  In (x, y) (allpairs l) \/ In (y, x) (allpairs l).
Proof.
  intros A l; induction l as [|a l IH]; intros x y Hx Hy Hne; cbn in *; [tauto|].
  rewrite !in_app_iff.
  destruct Hx as [->|Hx], Hy as [->|Hy].
  - tauto.
  - left; left; apply in_map; auto.
  - right; left; apply in_map; auto.
  - destruct (IH x y Hx Hy Hne); auto.
Qed.

(* dedupb *)
Section Dedup.
  Context {A : Type} (eqb : A -> A -> bool) (eqb_spec : forall a b, eqb a b = true <-> a = b).

  Lemma existsb_eqb : forall x l, existsb (eqb x) l = true <-> In x l.
  Proof.
    intros x l; rewrite existsb_exists; split.
    - intros [y [Hy E]]; apply eqb_spec in E; subst; auto.
    - intros H; exists x; split; auto; apply eqb_spec; auto.
  Qed.

  Lemma fold_add_new : forall l acc x, In x (fold_left (add_new eqb) l acc) <-> In x acc \/ In x l.
  Proof.
    induction l as [|a l IH]; intros acc x; cbn; [tauto|].
    rewrite IH; unfold add_new. destruct (existsb (eqb a) acc) eqn:E.
    - apply existsb_eqb in E; split; [tauto|]. intros [H|[<-|H]]; auto.
    - cbn; tauto.
  Qed.

  Lemma fold_add_new_nodup : forall l acc, NoDup acc -> NoDup (fold_left (add_new eqb) l acc).
  Proof.
    induction l as [|a l IH]; intros acc H; cbn; auto.
    apply IH; unfold add_new. destruct (existsb (eqb a) acc) eqn:E; auto.
    constructor; auto. intros Hin; apply existsb_eqb in Hin; congruence.
  Qed.

  Lemma In_dedupb : forall l x, In x (dedupb eqb l) <-> In x l.
  Proof. intros l x; unfold dedupb; rewrite fold_add_new; cbn; tauto. Qed.

  Lemma NoDup_dedupb : forall l, NoDup (dedupb eqb l).
  Proof. intros l; apply fold_add_new_nodup; constructor. Qed.
End Dedup.

Lemma eqe_spec : forall a b, eqe a b = true <-> a = b.
Proof.
  intros [[a1 a2] a3] [[b1 b2] b3]; cbn; rewrite !andb_true_iff, !Z.eqb_eq; split.
  - intros [[-> ->] ->]; auto.
  - intros E; inversion E; auto.
Qed.

Lemma sqd_sym : forall w x y, sqd w x y = sqd w y x.
Proof.
  induction w as [|a w IH]; intros [|b x] [|c y]; cbn; auto. rewrite IH; ring.
Qed.

Lemma rank_zero : forall dv v, (forall x, In x dv -> v <= x) -> rank dv v = 0.
Proof.
  intros dv v H; unfold rank.
  replace (filter (fun x => x <? v) dv) with (@nil Z); auto.
  induction dv as [|a dv IH]; cbn; auto.
  destruct (a <? v) eqn:E.
  - apply Z.ltb_lt in E. specialize (H a (or_introl eq_refl)); lia.
  - apply IH; intros; apply H; right; auto.
Qed.

(* ------------------------------------------------------------------ generic facts about lattice_edges *)
Lemma Zeqb_spec : forall a b : Z, (a =? b) = true <-> a = b.
Proof. intros; apply Z.eqb_eq. Qed.

Lemma In_kept : forall sp ncs bcs k P Q,
  In (P, Q) (kept sp ncs bcs k) <->
  In (P, Q) (allpairs (lpoints sp ncs bcs k)) /\ d2 sp (P, Q) <= cutoff2 sp k.
Proof. intros; unfold kept; rewrite filter_In, Z.leb_le; tauto. Qed.

Definition dvals sp ncs bcs k := dedupb Z.eqb (map (d2 sp) (kept sp ncs bcs k)).

Lemma edges_in_iff : forall sp ncs bcs k a b t,
  In (a, b, t) (lattice_edges sp ncs bcs k) <->
  exists P Q, In (P, Q) (kept sp ncs bcs k) /\ t = rank (dvals sp ncs bcs k) (d2 sp (P, Q)) /\ t < k /\
              a = Z.min (snd P) (snd Q) /\ b = Z.max (snd P) (snd Q).
Proof.
  intros; unfold lattice_edges; rewrite (In_dedupb eqe eqe_spec), in_flat_map; fold (dvals sp ncs bcs k); split.
  - intros [[P Q] [Hin Ht]]; unfold true_edge in Ht; cbn [fst snd] in Ht.
    destruct (rank (dvals sp ncs bcs k) (d2 sp (P, Q)) <? k) eqn:E; [|destruct Ht].
    destruct Ht as [Ht|[]]; inversion Ht; subst. apply Z.ltb_lt in E. exists P, Q; auto.
  - intros [P [Q [Hin [-> [Hlt [-> ->]]]]]]. exists (P, Q); split; auto.
    unfold true_edge; cbn [fst snd]. apply Z.ltb_lt in Hlt; rewrite Hlt; left; auto.
Qed.

Lemma rank_nonneg : forall dv v, 0 <= rank dv v.
Proof. intros; unfold rank; lia. Qed.

(* every shape, size, boundary condition and order: no duplicates, ordered endpoints, tags below the order *)
Lemma edges_wf : forall sp ncs bcs k,
  NoDup (lattice_edges sp ncs bcs k) /\
  forall a b t, In (a, b, t) (lattice_edges sp ncs bcs k) -> a <= b /\ 0 <= t < k.
Proof.
  intros; split; [apply (NoDup_dedupb eqe eqe_spec)|].
  intros a b t H; apply edges_in_iff in H; destruct H as [P [Q [_ [-> [Hlt [-> ->]]]]]].
  pose proof (rank_nonneg (dvals sp ncs bcs k) (d2 sp (P, Q))); lia.
Qed.

(* when the cutoff equals the smallest distance between distinct grid points, the order-k edge set is the set of
   pairs at that distance, all tagged 0 *)
Lemma edges_min_dist : forall sp ncs bcs k,
  0 < k -> NoDup (lpoints sp ncs bcs k) ->
  (forall P Q, In P (lpoints sp ncs bcs k) -> In Q (lpoints sp ncs bcs k) -> P <> Q -> cutoff2 sp k <= d2 sp (P, Q)) ->
  forall a b t, In (a, b, t) (lattice_edges sp ncs bcs k) <->
    t = 0 /\ exists P Q, In P (lpoints sp ncs bcs k) /\ In Q (lpoints sp ncs bcs k) /\ P <> Q /\
                         d2 sp (P, Q) <= cutoff2 sp k /\ a = Z.min (snd P) (snd Q) /\ b = Z.max (snd P) (snd Q).
Proof.
  intros sp ncs bcs k Hk Hnd Hmin a b t.
  assert (Hdv : forall P Q, In (P, Q) (kept sp ncs bcs k) -> rank (dvals sp ncs bcs k) (d2 sp (P, Q)) = 0).
  { intros P Q HPQ; apply rank_zero; intros x Hx.
    unfold dvals in Hx; rewrite (In_dedupb Z.eqb Zeqb_spec) in Hx; apply in_map_iff in Hx.
    destruct Hx as [[P' Q'] [<- H']]. apply In_kept in HPQ; apply In_kept in H'.
    destruct HPQ as [_ H1]; destruct H' as [H2 _].
    pose proof (allpairs_neq _ _ _ Hnd H2) as Hne. apply In_allpairs in H2; destruct H2 as [Ha Hb].
    pose proof (Hmin P' Q' Ha Hb Hne). unfold d2 in *; cbn [fst snd] in *; lia. }
  rewrite edges_in_iff; split.
  - intros [P [Q [Hin [-> [Hlt [-> ->]]]]]]. split; [apply Hdv; auto|].
    apply In_kept in Hin; destruct Hin as [H1 H2].
    pose proof (allpairs_neq _ _ _ Hnd H1). apply In_allpairs in H1; destruct H1.
    exists P, Q; repeat split; auto.
  - intros [-> [P [Q [HP [HQ [Hne [Hd [-> ->]]]]]]]].
    destruct (allpairs_complete _ P Q HP HQ Hne) as [H|H].
    + exists P, Q. assert (In (P, Q) (kept sp ncs bcs k)) by (apply In_kept; auto).
      rewrite Hdv by auto. repeat split; auto.
    + exists Q, P. assert (In (Q, P) (kept sp ncs bcs k)).
      { apply In_kept; split; auto. unfold d2 in *; cbn [fst snd] in *; rewrite sqd_sym; auto. }
      rewrite Hdv by auto. repeat split; auto; lia.
Qed.

(* ------------------------------------------------------------------ the grid *)
Lemma In_grid : forall sp ncs bcs k c s,
  In (c, s) (grid sp ncs bcs k) <-> In c (product (ranges ncs bcs k)) /\ 0 <= s < nsl sp.
Proof.
  intros; unfold grid; rewrite in_flat_map; split.
  - intros [c' [Hc Hin]]; apply in_map_iff in Hin; destruct Hin as [s' [E Hs]]; inversion E; subst.
    rewrite In_range in Hs; auto.
  - intros [Hc Hs]; exists c; split; auto; apply in_map_iff; exists s; rewrite In_range; auto.
Qed.

Lemma ranges_nodup : forall ncs bcs k, Forall (@NoDup Z) (ranges ncs bcs k).
Proof.
  unfold ranges; induction ncs as [|n ncs IH]; intros [|b bcs] k; cbn; constructor; auto using NoDup_range.
Qed.

Lemma NoDup_grid : forall sp ncs bcs k, NoDup (grid sp ncs bcs k).
Proof.
  intros; unfold grid; apply NoDup_flat_map.
  - apply NoDup_product, ranges_nodup.
  - intros x _; apply NoDup_map_in; [|apply NoDup_range]. intros a b _ _ E; inversion E; auto.
  - intros x y b _ _ Hxy Hb Hb'. apply in_map_iff in Hb; apply in_map_iff in Hb'.
    destruct Hb as [s [<- _]]; destruct Hb' as [s' [E _]]; inversion E; auto.
Qed.

Definition wz (b : bool) : Z := if b then 1 else 0.

Lemma chain_f : forall n c,
  (coords (spec_of Chain) ([c], 0), node [n] (nsl (spec_of Chain)) ([c], 0)) = ([c], c mod n).
Proof.
  intros; unfold coords, node; cbn. f_equal; [f_equal|]; lia.
Qed.

Lemma chain_lpoint : forall n per P,
  In P (lpoints (spec_of Chain) [n] [per] 1) <-> exists c, - wz per <= c < n + wz per /\ P = ([c], c mod n).
Proof.
  intros n per P; unfold lpoints; rewrite in_map_iff; split.
  - intros [[cell s] [<- Hin]]; apply In_grid in Hin; destruct Hin as [Hc Hs].
    apply In_product in Hc; unfold ranges in Hc; cbn [map2] in Hc.
    inversion Hc as [|r x rs' c' Hx Hrest]; subst; inversion Hrest; subst.
    rewrite In_range in Hx. assert (s = 0) by (cbn in Hs; lia); subst s.
    exists x; split; [destruct per; cbn in *; lia | apply chain_f].
  - intros [c [Hc ->]]; exists ([c], 0); split; [apply chain_f|].
    apply In_grid; split; [|cbn; lia]. apply In_product; unfold ranges; cbn [map2].
    constructor; [|constructor]. rewrite In_range; destruct per; cbn in *; lia.
Qed.

Lemma chain_lpoints_nodup : forall n per, NoDup (lpoints (spec_of Chain) [n] [per] 1).
Proof.
  intros; unfold lpoints; apply NoDup_map_in; [|apply NoDup_grid].
  intros [c s] [c' s'] Hx Hy E. apply In_grid in Hx; apply In_grid in Hy.
  destruct Hx as [Hc Hs]; destruct Hy as [Hc' Hs'].
  apply In_product in Hc; apply In_product in Hc'; unfold ranges in *; cbn [map2] in *.
  inversion Hc as [|? x ? ? _ Hr]; subst; inversion Hr; subst.
  inversion Hc' as [|? x' ? ? _ Hr']; subst; inversion Hr'; subst.
  assert (s = 0) by (cbn in Hs; lia); assert (s' = 0) by (cbn in Hs'; lia); subst.
  rewrite !chain_f in E. inversion E; auto.
Qed.

(* adjacency of sites along one direction of n cells: i ~ i+1, and n-1 ~ 0 when periodic *)
Definition adj (n : Z) (per : bool) (u v : Z) : Prop :=
  (0 <= u /\ v = u + 1 /\ v < n) \/ (per = true /\ u = n - 1 /\ v = 0).

Lemma wrap_mod : forall n c, 0 < n -> -1 <= c <= n ->
  c mod n = if c =? -1 then n - 1 else if c =? n then 0 else c.
Proof.
  intros n c Hn Hc. destruct (c =? -1) eqn:E1; [|destruct (c =? n) eqn:E2].
  - apply Z.eqb_eq in E1; subst. symmetry; apply (Z.mod_unique_pos _ _ (-1)); lia.
  - apply Z.eqb_eq in E2; subst. apply Z_mod_same_full.
  - apply Z.eqb_neq in E1; apply Z.eqb_neq in E2. apply Z.mod_small; lia.
Qed.

Lemma adj_nodes : forall n per c, 0 < n -> - wz per <= c -> c + 1 < n + wz per ->
  adj n per (c mod n) ((c + 1) mod n).
Proof.
  intros n per c Hn H1 H2. unfold adj.
  assert (Hw : 0 <= wz per <= 1) by (destruct per; cbn; lia).
  destruct (Z.eq_dec c (-1)) as [->|N1].
  { right. destruct per; [|cbn in *; lia]. split; auto. split.
    - symmetry; apply (Z.mod_unique_pos _ _ (-1)); lia.
    - replace (-1 + 1) with 0 by lia; apply Z.mod_0_l; lia. }
  destruct (Z.eq_dec (c + 1) n) as [E|N2].
  { right. destruct per; [|cbn in *; lia]. split; auto; split.
    - rewrite Z.mod_small; lia.
    - rewrite E; apply Z_mod_same_full. }
  left. rewrite !Z.mod_small by lia. lia.
Qed.

Lemma chain_cutoff : cutoff2 (spec_of Chain) 1 = 1.
Proof. reflexivity. Qed.

Lemma chain_d2 : forall c u c' u', d2 (spec_of Chain) (([c], u), ([c'], u')) = (c - c') * (c - c').
Proof. intros; unfold d2; cbn [sqd fst snd spec_of wts]. ring. Qed.

Lemma chain_edges_in : forall n per a b t, 0 < n ->
  (In (a, b, t) (lattice_edges (spec_of Chain) [n] [per] 1) <->
   t = 0 /\ exists u v, adj n per u v /\ a = Z.min u v /\ b = Z.max u v).
Proof.
  intros n per a b t Hn.
  assert (Hw : 0 <= wz per <= 1) by (destruct per; cbn; lia).
  rewrite edges_min_dist; [|lia|apply chain_lpoints_nodup|].
  2:{ intros P Q HP HQ Hne. apply chain_lpoint in HP; apply chain_lpoint in HQ.
      destruct HP as [c [_ ->]]; destruct HQ as [c' [_ ->]]. rewrite chain_cutoff, chain_d2.
      assert (c <> c') by (intros ->; auto). nia. }
  rewrite chain_cutoff. split; intros [-> H]; split; auto.
  - destruct H as [P [Q [HP [HQ [Hne [Hd [-> ->]]]]]]].
    apply chain_lpoint in HP; apply chain_lpoint in HQ.
    destruct HP as [c [Hc ->]]; destruct HQ as [c' [Hc' ->]]. rewrite chain_d2 in Hd. cbn [snd].
    assert (c <> c') by (intros ->; auto).
    assert (c' = c + 1 \/ c = c' + 1) as [->| ->] by nia.
    + exists (c mod n), ((c + 1) mod n); split; auto. apply adj_nodes; lia.
    + exists (c' mod n), ((c' + 1) mod n); split; [apply adj_nodes; lia | ].
      rewrite Z.min_comm, Z.max_comm; auto.
  - destruct H as [u [v [[[H0 [-> H1]]|[Hp [-> ->]]] [-> ->]]]].
    + exists ([u], u mod n), ([u + 1], (u + 1) mod n). rewrite !chain_lpoint, chain_d2. cbn [snd].
      rewrite (Z.mod_small u n), (Z.mod_small (u + 1) n) by lia. refine (conj _ (conj _ (conj _ (conj _ (conj _ _))))); try lia.
      * exists u; split; [lia | rewrite Z.mod_small by lia; auto].
      * exists (u + 1); split; [lia | rewrite Z.mod_small by lia; auto].
      * intros E; inversion E; lia.
    + subst per. exists ([n - 1], (n - 1) mod n), ([n], n mod n). rewrite !chain_lpoint, chain_d2. cbn [snd].
      rewrite Z_mod_same_full, (Z.mod_small (n - 1)) by lia. refine (conj _ (conj _ (conj _ (conj _ (conj _ _))))); try lia.
      * exists (n - 1); cbn; split; [lia | rewrite Z.mod_small by lia; auto].
      * exists n; cbn; split; [lia | rewrite Z_mod_same_full; auto].
      * intros E; inversion E; lia.
Qed.

(* the explicit form: {(i, i+1)} plus (0, n-1) when periodic *)
Lemma chain_edges_explicit : forall n per a b t, 0 < n ->
  (In (a, b, t) (lattice_edges (spec_of Chain) [n] [per] 1) <->
   t = 0 /\ ((0 <= a /\ b = a + 1 /\ b < n) \/ (per = true /\ a = 0 /\ b = n - 1))).
Proof.
  intros n per a b t Hn; rewrite chain_edges_in by auto; split; intros [-> H]; split; auto.
  - destruct H as [u [v [[[H0 [-> H1]]|[Hp [-> ->]]] [-> ->]]]]; [left; lia | right; split; [auto | lia]].
  - destruct H as [[H0 [-> H1]]|[Hp [-> ->]]].
    + exists a, (a + 1); split; [left|]; lia.
    + exists (n - 1), 0; split; [right; auto|lia].
Qed.

(* ------------------------------------------------------------------ square / rectangle *)
Definition nd (n1 n2 c1 c2 : Z) : Z := (c1 mod n1) * n2 + c2 mod n2.

Lemma sq_f : forall n1 n2 c1 c2,
  (coords (spec_of Square) ([c1; c2], 0), node [n1; n2] (nsl (spec_of Square)) ([c1; c2], 0)) = ([c2; c1], nd n1 n2 c1 c2).
Proof.
  intros; unfold coords, node, nd.
  cbn [spec_of vecs poss wts zero_of nsl length map lincomb vadd vscale fst snd nth Z.to_nat map2 axis prodZ fold_right dot Z.of_nat Pos.of_succ_nat].
  f_equal; [f_equal; [|f_equal]|]; ring.
Qed.

Lemma sq_lpoint : forall n1 n2 p1 p2 P,
  In P (lpoints (spec_of Square) [n1; n2] [p1; p2] 1) <->
  exists c1 c2, - wz p1 <= c1 < n1 + wz p1 /\ - wz p2 <= c2 < n2 + wz p2 /\ P = ([c2; c1], nd n1 n2 c1 c2).
Proof.
  intros n1 n2 p1 p2 P; unfold lpoints; rewrite in_map_iff; split.
  - intros [[cell s] [<- Hin]]; apply In_grid in Hin; destruct Hin as [Hc Hs].
    apply In_product in Hc; unfold ranges in Hc; cbn [map2] in Hc.
    inversion Hc as [|r x rs' c' Hx Hrest]; subst; inversion Hrest as [|r' y rs'' c'' Hy Hrest']; subst; inversion Hrest'; subst.
    rewrite In_range in Hx, Hy. assert (s = 0) by (cbn in Hs; lia); subst s.
    exists x, y; split; [destruct p1; cbn in *; lia | split; [destruct p2; cbn in *; lia | apply sq_f]].
  - intros [c1 [c2 [H1 [H2 ->]]]]; exists ([c1; c2], 0); split; [apply sq_f|].
    apply In_grid; split; [|cbn; lia]. apply In_product; unfold ranges; cbn [map2].
    constructor; [|constructor; [|constructor]]; rewrite In_range; [destruct p1 | destruct p2]; cbn in *; lia.
Qed.

Lemma sq_lpoints_nodup : forall n1 n2 p1 p2, NoDup (lpoints (spec_of Square) [n1; n2] [p1; p2] 1).
Proof.
  intros; unfold lpoints; apply NoDup_map_in; [|apply NoDup_grid].
  intros [c s] [c' s'] Hx Hy E. apply In_grid in Hx; apply In_grid in Hy.
  destruct Hx as [Hc Hs]; destruct Hy as [Hc' Hs'].
  apply In_product in Hc; apply In_product in Hc'; unfold ranges in *; cbn [map2] in *.
  inversion Hc as [|? x ? ? _ Hr]; subst; inversion Hr as [|? y ? ? _ Hr2]; subst; inversion Hr2; subst.
  inversion Hc' as [|? x' ? ? _ Hr']; subst; inversion Hr' as [|? y' ? ? _ Hr2']; subst; inversion Hr2'; subst.
  assert (s = 0) by (cbn in Hs; lia); assert (s' = 0) by (cbn in Hs'; lia); subst.
  rewrite !sq_f in E. inversion E; auto.
Qed.

Lemma sq_cutoff : cutoff2 (spec_of Square) 1 = 1.
Proof. reflexivity. Qed.

Lemma sq_d2 : forall x y u x' y' u',
  d2 (spec_of Square) (([x; y], u), ([x'; y'], u')) = (x - x') * (x - x') + (y - y') * (y - y').
Proof. intros; unfold d2; cbn [sqd fst snd spec_of wts]. ring. Qed.

Lemma sq_ge1 : forall x, x <> 0 -> 1 <= x * x.
Proof. intros; nia. Qed.

Definition grid_adj (n1 n2 : Z) (p1 p2 : bool) (u v : Z) : Prop :=
  exists r c r' c', 0 <= r < n1 /\ 0 <= c < n2 /\ 0 <= r' < n1 /\ 0 <= c' < n2 /\
    u = r * n2 + c /\ v = r' * n2 + c' /\ ((r = r' /\ adj n2 p2 c c') \/ (c = c' /\ adj n1 p1 r r')).

Lemma sq_min : forall n1 n2 p1 p2, 
  forall P Q, In P (lpoints (spec_of Square) [n1; n2] [p1; p2] 1) -> In Q (lpoints (spec_of Square) [n1; n2] [p1; p2] 1) ->
  P <> Q -> cutoff2 (spec_of Square) 1 <= d2 (spec_of Square) (P, Q).
Proof.
  intros n1 n2 p1 p2 P Q HP HQ Hne. apply sq_lpoint in HP; apply sq_lpoint in HQ.
  destruct HP as [c1 [c2 [_ [_ ->]]]]; destruct HQ as [c1' [c2' [_ [_ ->]]]]. rewrite sq_cutoff, sq_d2.
  pose proof (Z.square_nonneg (c2 - c2')). pose proof (Z.square_nonneg (c1 - c1')).
  destruct (Z.eq_dec c1 c1') as [->|N1]; [destruct (Z.eq_dec c2 c2') as [->|N2]; [exfalso; auto|]|].
  - pose proof (sq_ge1 (c2 - c2')); lia.
  - pose proof (sq_ge1 (c1 - c1')); lia.
Qed.

(* two grid cells at distance 1 give an edge *)
Lemma sq_pair_edge : forall n1 n2 p1 p2 c1 c2 c1' c2',
  - wz p1 <= c1 < n1 + wz p1 -> - wz p2 <= c2 < n2 + wz p2 ->
  - wz p1 <= c1' < n1 + wz p1 -> - wz p2 <= c2' < n2 + wz p2 ->
  (c2 - c2') * (c2 - c2') + (c1 - c1') * (c1 - c1') = 1 ->
  In (Z.min (nd n1 n2 c1 c2) (nd n1 n2 c1' c2'), Z.max (nd n1 n2 c1 c2) (nd n1 n2 c1' c2'), 0)
     (lattice_edges (spec_of Square) [n1; n2] [p1; p2] 1).
Proof.
  intros n1 n2 p1 p2 c1 c2 c1' c2' H1 H2 H1' H2' Hd.
  apply edges_min_dist; [lia | apply sq_lpoints_nodup | apply sq_min |]. split; auto.
  exists ([c2; c1], nd n1 n2 c1 c2), ([c2'; c1'], nd n1 n2 c1' c2').
  rewrite !sq_lpoint, sq_cutoff, sq_d2. cbn [snd].
  refine (conj _ (conj _ (conj _ (conj _ (conj _ _))))); auto; try lia.
  - exists c1, c2; auto.
  - exists c1', c2'; auto.
  - intros E; inversion E; subst. replace (c2' - c2') with 0 in Hd by lia. replace (c1' - c1') with 0 in Hd by lia. lia.
Qed.

Lemma unit_steps : forall dx dy, dx * dx + dy * dy <= 1 -> ~ (dx = 0 /\ dy = 0) ->
  (dx = 0 /\ dy = -1) \/ (dx = 0 /\ dy = 1) \/ (dy = 0 /\ dx = -1) \/ (dy = 0 /\ dx = 1).
Proof.
  intros dx dy H N. pose proof (Z.square_nonneg dx). pose proof (Z.square_nonneg dy).
  assert (dx * dx <= 1) by lia. assert (dy * dy <= 1) by lia.
  assert (-1 <= dx <= 1) by (split; nia). assert (-1 <= dy <= 1) by (split; nia).
  assert (dx = -1 \/ dx = 0 \/ dx = 1) as [->|[->| ->]] by lia;
  assert (dy = -1 \/ dy = 0 \/ dy = 1) as [->|[->| ->]] by lia; try lia; tauto.
Qed.

Lemma nd_bounds : forall n1 n2 c1 c2, 0 < n1 -> 0 < n2 ->
  0 <= c1 mod n1 < n1 /\ 0 <= c2 mod n2 < n2.
Proof. intros; split; apply Z.mod_pos_bound; auto. Qed.

Lemma square_edges_in : forall n1 n2 p1 p2 a b t, 0 < n1 -> 0 < n2 ->
  (In (a, b, t) (lattice_edges (spec_of Square) [n1; n2] [p1; p2] 1) <->
   t = 0 /\ exists u v, grid_adj n1 n2 p1 p2 u v /\ a = Z.min u v /\ b = Z.max u v).
Proof.
  intros n1 n2 p1 p2 a b t Hn1 Hn2.
  assert (Hw1 : 0 <= wz p1 <= 1) by (destruct p1; cbn; lia).
  assert (Hw2 : 0 <= wz p2 <= 1) by (destruct p2; cbn; lia).
  split.
  - intros H. apply (edges_min_dist (spec_of Square) [n1; n2] [p1; p2] 1 ltac:(lia) (sq_lpoints_nodup n1 n2 p1 p2) (sq_min n1 n2 p1 p2)) in H.
    destruct H as [-> [P [Q [HP [HQ [Hne [Hd [-> ->]]]]]]]]. split; auto.
    apply sq_lpoint in HP; apply sq_lpoint in HQ.
    destruct HP as [c1 [c2 [H1 [H2 ->]]]]; destruct HQ as [c1' [c2' [H1' [H2' ->]]]].
    rewrite sq_cutoff, sq_d2 in Hd. cbn [snd].
    destruct (nd_bounds n1 n2 c1 c2 Hn1 Hn2) as [B1 B2]. destruct (nd_bounds n1 n2 c1' c2' Hn1 Hn2) as [B1' B2'].
    destruct (unit_steps (c2 - c2') (c1 - c1') Hd) as [[E1 E2]|[[E1 E2]|[[E1 E2]|[E1 E2]]]].
    { intros [E1 E2]; apply Hne. replace c2' with c2 by lia; replace c1' with c1 by lia; auto. }
    + (* c2' = c2, c1' = c1 + 1 *)
      replace c2' with c2 in * by lia; replace c1' with (c1 + 1) in * by lia.
      exists (nd n1 n2 c1 c2), (nd n1 n2 (c1 + 1) c2); split; auto.
      exists (c1 mod n1), (c2 mod n2), ((c1 + 1) mod n1), (c2 mod n2); unfold nd.
      refine (conj B1 (conj B2 (conj B1' (conj B2 (conj eq_refl (conj eq_refl _)))))).
      right; split; auto; apply adj_nodes; lia.
    + (* c2' = c2, c1 = c1' + 1 *)
      replace c2' with c2 in * by lia; replace c1 with (c1' + 1) in * by lia.
      exists (nd n1 n2 c1' c2), (nd n1 n2 (c1' + 1) c2); split; [|rewrite Z.min_comm, Z.max_comm; auto].
      exists (c1' mod n1), (c2 mod n2), ((c1' + 1) mod n1), (c2 mod n2); unfold nd.
      refine (conj B1' (conj B2 (conj B1 (conj B2 (conj eq_refl (conj eq_refl _)))))).
      right; split; auto; apply adj_nodes; lia.
    + (* c1' = c1, c2' = c2 + 1 *)
      replace c1' with c1 in * by lia; replace c2' with (c2 + 1) in * by lia.
      exists (nd n1 n2 c1 c2), (nd n1 n2 c1 (c2 + 1)); split; auto.
      exists (c1 mod n1), (c2 mod n2), (c1 mod n1), ((c2 + 1) mod n2); unfold nd.
      refine (conj B1 (conj B2 (conj B1 (conj B2' (conj eq_refl (conj eq_refl _)))))).
      left; split; auto; apply adj_nodes; lia.
    + (* c1' = c1, c2 = c2' + 1 *)
      replace c1' with c1 in * by lia; replace c2 with (c2' + 1) in * by lia.
      exists (nd n1 n2 c1 c2'), (nd n1 n2 c1 (c2' + 1)); split; [|rewrite Z.min_comm, Z.max_comm; auto].
      exists (c1 mod n1), (c2' mod n2), (c1 mod n1), ((c2' + 1) mod n2); unfold nd.
      refine (conj B1 (conj B2' (conj B1 (conj B2 (conj eq_refl (conj eq_refl _)))))).
      left; split; auto; apply adj_nodes; lia.
  - intros [-> [u [v [[r [c [r' [c' [Hr [Hc [Hr' [Hc' [-> [-> Hadj]]]]]]]]]] [-> ->]]]]].
    destruct Hadj as [[<- [[H0 [-> H1]]|[Hp [-> ->]]]]|[<- [[H0 [-> H1]]|[Hp [-> ->]]]]].
    + pose proof (sq_pair_edge n1 n2 p1 p2 r c r (c + 1)) as E. unfold nd in E.
      rewrite !Z.mod_small in E by lia. apply E; lia.
    + subst p2. pose proof (sq_pair_edge n1 n2 p1 true r (n2 - 1) r n2) as E. unfold nd in E.
      rewrite Z_mod_same_full, !Z.mod_small in E by lia. apply E; cbn; lia.
    + pose proof (sq_pair_edge n1 n2 p1 p2 r c (r + 1) c) as E. unfold nd in E.
      rewrite !Z.mod_small in E by lia. apply E; lia.
    + subst p1. pose proof (sq_pair_edge n1 n2 true p2 (n1 - 1) c n1 c) as E. unfold nd in E.
      rewrite Z_mod_same_full, !Z.mod_small in E by lia. apply E; cbn; lia.
Qed.

(* ------------------------------------------------------------------ Hamiltonians: loops = textbook sums *)
Lemma fold_app_map : forall {A B} (g : A -> B) l acc,
  fold_left (fun H x => H ++ [g x]) l acc = acc ++ map g l.
Proof.
  intros A B g l; induction l as [|a l IH]; intros acc; cbn; [rewrite app_nil_r; auto|].
  rewrite IH, <- app_assoc; auto.
Qed.

Lemma fold_app_flat : forall {A B} (g : A -> list B) l acc,
  fold_left (fun H x => H ++ g x) l acc = acc ++ flat_map g l.
Proof.
  intros A B g l; induction l as [|a l IH]; intros acc; cbn; [rewrite app_nil_r; auto|].
  rewrite IH, <- app_assoc; auto.
Qed.

Definition e1 (e : edge) : Z := fst (fst e).
Definition e2 (e : edge) : Z := snd (fst e).

(* the textbook sums, written as comprehensions over the edge list / the sites *)
Definition ising_sum (es : list edge) (J : coupling) (h : Q) (n : Z) : list term :=
  H0 ++ map (fun e => (Qopp (coup_at J e), pair_word LZ (e1 e) (e2 e))) es
     ++ map (fun v => (Qopp h, [(v, LX)])) (range 0 n).

Definition heis_sum (es : list edge) (JX JY JZ : coupling) : list term :=
  H0 ++ flat_map (fun e => [(coup_at JX e, pair_word LX (e1 e) (e2 e)); (coup_at JY e, pair_word LY (e1 e) (e2 e));
                            (coup_at JZ e, pair_word LZ (e1 e) (e2 e))]) es.

Definition hubbard_sum (es : list edge) (t : coupling) (U : list Q) (n : Z) : list term :=
  H0 ++ flat_map (fun e => hop_terms (Qopp (coup_at t e)) (2 * e1 e) (2 * e2 e)
                          ++ hop_terms (Qopp (coup_at t e)) (2 * e1 e + 1) (2 * e2 e + 1)) es
     ++ flat_map (fun i => nn_terms (nthQ U i) (2 * i) (2 * i + 1)) (range 0 n).

Lemma fold_left_ext : forall {A B} (f g : A -> B -> A) l a,
  (forall a x, f a x = g a x) -> fold_left f l a = fold_left g l a.
Proof. intros A B f g l; induction l as [|x l IH]; intros a H; cbn; auto. rewrite H; apply IH; auto. Qed.

Lemma ising_edge_sum : forall es J h n, ising_terms es J h n = ising_sum es J h n.
Proof.
  intros; unfold ising_terms, ising_sum.
  rewrite (fold_app_map (fun v => (Qopp h, [(v, LX)]))).
  rewrite (fold_left_ext _ (fun H e => H ++ [(Qopp (coup_at J e), pair_word LZ (e1 e) (e2 e))])).
  - rewrite fold_app_map, app_assoc; auto.
  - intros a [[i j] t]; reflexivity.
Qed.

Lemma heis_edge_sum : forall es JX JY JZ, heis_terms es JX JY JZ = heis_sum es JX JY JZ.
Proof.
  intros; unfold heis_terms, heis_sum.
  rewrite (fold_left_ext _ (fun H e => H ++ [(coup_at JX e, pair_word LX (e1 e) (e2 e)); (coup_at JY e, pair_word LY (e1 e) (e2 e));
                            (coup_at JZ e, pair_word LZ (e1 e) (e2 e))])).
  - apply fold_app_flat.
  - intros a [[i j] t]; reflexivity.
Qed.

Lemma hubbard_edge_sum : forall es t U n, hubbard_terms es t U n = hubbard_sum es t U n.
Proof.
  intros; unfold hubbard_terms, hubbard_sum.
  rewrite (fold_app_flat (fun i => nn_terms (nthQ U i) (2 * i) (2 * i + 1))).
  rewrite (fold_left_ext _ (fun H e => H ++ (hop_terms (Qopp (coup_at t e)) (2 * e1 e) (2 * e2 e)
                          ++ hop_terms (Qopp (coup_at t e)) (2 * e1 e + 1) (2 * e2 e + 1)))).
  - rewrite fold_app_flat, app_assoc; auto.
  - intros a [[i j] tg]; reflexivity.
Qed.

(* Hermiticity at the term-list level: real (rational) coefficients by typing; every word is a Pauli word:
   strictly increasing sites, one letter X/Y/Z per site *)
Fixpoint pauli_word (w : word) : Prop :=
  match w with
  | (i, _) :: (((j, _) :: _) as r) => i < j /\ pauli_word r
  | _ => True
  end.

Lemma pair_word_ok : forall l i j, pauli_word (pair_word l i j).
Proof.
  intros l i j; unfold pair_word. destruct (i =? j) eqn:E; cbn; auto.
  apply Z.eqb_neq in E. destruct (i <? j) eqn:E2; cbn; [apply Z.ltb_lt in E2|apply Z.ltb_ge in E2]; split; auto; lia.
Qed.

Lemma ising_hermitian : forall es J h n, Forall (fun t : term => pauli_word (snd t)) (ising_terms es J h n).
Proof.
  intros; rewrite ising_edge_sum; unfold ising_sum. rewrite !Forall_app; repeat split.
  - repeat constructor.
  - apply Forall_forall; intros t Ht; apply in_map_iff in Ht; destruct Ht as [e [<- _]]; apply pair_word_ok.
  - apply Forall_forall; intros t Ht; apply in_map_iff in Ht; destruct Ht as [v [<- _]]; cbn; auto.
Qed.

Lemma heis_hermitian : forall es JX JY JZ, Forall (fun t : term => pauli_word (snd t)) (heis_terms es JX JY JZ).
Proof.
  intros; rewrite heis_edge_sum; unfold heis_sum. rewrite Forall_app; split.
  - repeat constructor.
  - apply Forall_forall; intros t Ht; apply in_flat_map in Ht; destruct Ht as [e [_ Ht]].
    destruct Ht as [<-|[<-|[<-|[]]]]; apply pair_word_ok.
Qed.

(* ------------------------------------------------------------------ chain: explicit list, count, textbook Ising sum *)
Definition chain_list (n : Z) (per : bool) : list edge :=
  map (fun i => (i, i + 1, 0)) (range 0 (n - 1)) ++ (if per && negb (n =? 2) then [(0, n - 1, 0)] else []).

Lemma chain_list_in : forall n per a b t, 0 < n ->
  (In (a, b, t) (chain_list n per) <-> t = 0 /\ ((0 <= a /\ b = a + 1 /\ b < n) \/ (per = true /\ a = 0 /\ b = n - 1))).
Proof.
  intros n per a b t Hn; unfold chain_list; rewrite in_app_iff, in_map_iff; split.
  - intros [[i [E Hi]]|H].
    + inversion E; subst; apply In_range in Hi; split; auto; left; lia.
    + destruct per; cbn in H; [|tauto]. destruct (n =? 2) eqn:E2; cbn in H; [tauto|].
      destruct H as [E|[]]; inversion E; subst; auto.
  - intros [-> [[H0 [-> H1]]|[-> [-> ->]]]].
    + left; exists a; split; auto; apply In_range; lia.
    + cbn. destruct (n =? 2) eqn:E2; cbn; [|right; left; auto].
      apply Z.eqb_eq in E2; subst n. left; exists 0; split; auto. apply In_range; lia.
Qed.

Lemma chain_list_nodup : forall n per, 0 < n -> NoDup (chain_list n per).
Proof.
  intros n per Hn; unfold chain_list; apply NoDup_app_intro.
  - apply NoDup_map_in; [|apply NoDup_range]. intros x y _ _ E; inversion E; auto.
  - destruct (per && negb (n =? 2)); repeat constructor; auto.
  - intros x Hx Hin. destruct per; cbn in Hin; [|tauto]. destruct (n =? 2) eqn:E2; cbn in Hin; [tauto|].
    apply Z.eqb_neq in E2. destruct Hin as [<-|[]]. apply in_map_iff in Hx; destruct Hx as [i [E Hi]].
    apply In_range in Hi; inversion E; lia.
Qed.

Lemma chain_edges_perm : forall n per, 0 < n ->
  Permutation (lattice_edges (spec_of Chain) [n] [per] 1) (chain_list n per).
Proof.
  intros n per Hn; apply NoDup_Permutation; [apply edges_wf | apply chain_list_nodup; auto|].
  intros [[a b] t]; rewrite chain_edges_explicit, chain_list_in by auto; tauto.
Qed.

Lemma chain_edges_count : forall n per, 0 < n ->
  Z.of_nat (length (lattice_edges (spec_of Chain) [n] [per] 1)) = (n - 1) + (if per && negb (n =? 2) then 1 else 0).
Proof.
  intros n per Hn; rewrite (Permutation_length (chain_edges_perm n per Hn)).
  unfold chain_list, range; rewrite app_length, !map_length, seq_length.
  destruct (per && negb (n =? 2)); cbn [length]; lia.
Qed.

Lemma chain_irreflexive : forall n per a b t, 2 <= n ->
  In (a, b, t) (lattice_edges (spec_of Chain) [n] [per] 1) -> a < b.
Proof. intros n per a b t Hn H; apply chain_edges_explicit in H; lia. Qed.

(* the transverse-Ising term list on a chain is, up to the order of the terms, the textbook sum
   0*I - J sum_i Z_i Z_{i+1} [- J Z_0 Z_{n-1}] - h sum_i X_i *)
Lemma chain_ising_textbook : forall n per J h, 0 < n ->
  Permutation (ising_terms (lattice_edges (spec_of Chain) [n] [per] 1) J h n)
              (ising_sum (chain_list n per) J h n).
Proof.
  intros n per J h Hn; rewrite ising_edge_sum; unfold ising_sum.
  apply Permutation_app_head, Permutation_app_tail, Permutation_map, chain_edges_perm; auto.
Qed.

(* ------------------------------------------------------------------ bounded checks for the other shapes *)
Definition degree (es : list edge) (v : Z) : Z :=
  fold_left (fun a (e : edge) => match e with (i, j, _) => a + (if i =? v then 1 else 0) + (if j =? v then 1 else 0) end) es 0.
(* fully periodic lattice, nearest neighbours: every site has z neighbours *)
Definition regular (s : shape) (ncs : list Z) (z : Z) : bool :=
  let sp := spec_of s in
  let es := lattice_edges sp ncs (map (fun _ => true) ncs) 1 in
  forallb (fun v => degree es v =? z) (range 0 (n_sites sp ncs)).
Definition n_edges (s : shape) (ncs : list Z) (per : bool) (k : Z) : Z :=
  Z.of_nat (length (lattice_edges (spec_of s) ncs (map (fun _ => per) ncs) k)).

Lemma coordination_3 :
  forallb (fun x : shape * list Z * Z => match x with (s, n, z) => regular s n z end)
    [(Chain, [5], 2); (Square, [3; 4], 4); (Rectangle, [4; 3], 4); (Triangle, [3; 3], 6); (Honeycomb, [3; 3], 3);
     (Kagome, [3; 3], 4); (Cubic, [3; 3; 3], 6); (Bcc, [3; 3; 3], 8); (Fcc, [3; 3; 3], 12); (Diamond, [3; 3; 3], 4)] = true.
Proof. vm_compute; reflexivity. Qed.

Lemma edge_counts_small :
  map (fun x : shape * list Z * bool * Z => match x with (s, n, p, k) => n_edges s n p k end)
    [(Square, [3; 3], false, 1); (Square, [3; 3], false, 2); (Square, [3; 3], true, 1); (Triangle, [3; 3], false, 1);
     (Honeycomb, [2; 2], false, 1); (Honeycomb, [3; 3], true, 2); (Kagome, [2; 2], false, 1); (Lieb, [3; 3], true, 1);
     (Lieb, [2; 2], false, 1); (Cubic, [2; 2; 2], false, 1); (Bcc, [2; 2; 2], false, 1); (Fcc, [2; 2; 2], false, 1);
     (Diamond, [2; 2; 2], false, 1)]
  = [12; 20; 18; 16; 8; 81; 17; 36; 12; 12; 27; 108; 20].
Proof. vm_compute; reflexivity. Qed.
