From Coq Require Import List ZArith Bool Lia QArith.
From PLV Require Import Disc.LatticeModel.
Import ListNotations.
Open Scope Z_scope.
