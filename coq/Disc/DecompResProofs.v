From Coq Require Import List ZArith Bool Lia.
From PLV Require Import Disc.DecompResModel.
Import ListNotations.
Open Scope Z_scope.

Lemma count_app k a b : count k (a ++ b) = count k a + count k b.
Proof. unfold count. induction a as [|x a IH]; cbn [app fold_right]; [lia|]. destruct (x =? k); lia. Qed.
Lemma count_nonneg k l : 0 <= count k l.
Proof. unfold count. induction l as [|x l IH]; cbn [fold_right]; [lia|]. destruct (x =? k); lia. Qed.
Lemma count_zero_not_in k l : ~ In k l -> count k l = 0.
Proof.
  unfold count. induction l as [|x l IH]; intros H; [reflexivity|]. cbn [fold_right].
  destruct (x =? k) eqn:E; [apply Z.eqb_eq in E; subst; exfalso; apply H; left; reflexivity|].
  apply IH. intros H'; apply H; right; exact H'.
Qed.
Lemma mem_key_spec k d : mem_key k d = true <-> exists v, In (k, v) d.
Proof.
  unfold mem_key. rewrite existsb_exists. split.
  - intros [[k' v] [Hin E]]. cbn in E. apply Z.eqb_eq in E. subst. exists v; exact Hin.
  - intros [v Hin]. exists (k, v). split; [exact Hin | cbn; apply Z.eqb_refl].
Qed.

(* soundness of the exact check: for EVERY resource type, emitted count = declared count *)
Lemma res_exact_sound e d : res_exact e d = true -> forall k, count k e = declared_of k d \/ (mem_key k d = false /\ count k e = 0).
Proof.
  unfold res_exact. intros H k. apply andb_prop in H as [H1 H2]. rewrite forallb_forall in H1, H2.
  destruct (mem_key k d) eqn:M.
  - left. apply mem_key_spec in M as [v Hin]. specialize (H1 (k, v) Hin). cbn in H1. apply Z.eqb_eq in H1. exact H1.
  - right. split; [reflexivity|]. apply count_zero_not_in. intros Hin. specialize (H2 k Hin). congruence.
Qed.

Lemma res_subset_sound e d : res_subset e d = true -> forall x, In x e -> exists v, In (x, v) d.
Proof. unfold res_subset. rewrite forallb_forall. intros H x Hx. apply mem_key_spec. exact (H x Hx). Qed.

Lemma res_exact_subset e d : res_exact e d = true -> res_subset e d = true.
Proof. unfold res_exact, res_subset. intros H. apply andb_prop in H as [_ H]. exact H. Qed.

(* the peak really bounds the number of live work wires after every prefix of the stream *)
Lemma peak_from_ge_best evs : forall live best, best <= peak_from live best evs.
Proof. induction evs as [|e r IH]; intros live best; cbn [peak_from]; [lia|]. specialize (IH (live + e) (Z.max best (live + e))). lia. Qed.
Lemma peak_from_bounds evs : forall live best k, (k <= length evs)%nat ->
  live + fold_right Z.add 0 (firstn k evs) <= Z.max (Z.max best live) (peak_from live best evs).
Proof.
  induction evs as [|e r IH]; intros live best k Hk.
  - destruct k; cbn; lia.
  - destruct k as [|k]; [cbn [firstn fold_right]; lia|]. cbn [firstn fold_right peak_from]. cbn [length] in Hk.
    specialize (IH (live + e) (Z.max best (live + e)) k ltac:(lia)).
    pose proof (peak_from_ge_best r (live + e) (Z.max best (live + e))). lia.
Qed.
Lemma peak_bounds_every_prefix evs k : (k <= length evs)%nat -> fold_right Z.add 0 (firstn k evs) <= peak evs.
Proof.
  intros Hk. pose proof (peak_from_bounds evs 0 0 k Hk) as H. unfold peak.
  pose proof (peak_from_ge_best evs 0 0). lia.
Qed.

Lemma check_case_sound c : check_case c = true ->
  (exact c = true -> forall k, count k (emitted c) = declared_of k (declared c) \/ (mem_key k (declared c) = false /\ count k (emitted c) = 0)) /\
  (forall x, In x (emitted c) -> exists v, In (x, v) (declared c)) /\
  (forall k, (k <= length (allocs c))%nat -> fold_right Z.add 0 (firstn k (allocs c)) <= work_declared c).
Proof.
  unfold check_case. intros H. apply andb_prop in H as [H1 H2]. apply Z.leb_le in H2. repeat split.
  - intros E. rewrite E in H1. apply res_exact_sound. exact H1.
  - destruct (exact c); [apply res_subset_sound, res_exact_subset, H1 | apply res_subset_sound, H1].
  - intros k Hk. pose proof (peak_bounds_every_prefix _ k Hk). lia.
Qed.
