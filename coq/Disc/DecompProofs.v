(* C12: lemmas about the model of the decompose transform (Disc/DecompModel.v). *)
From Coq Require Import List ZArith Bool Lia Permutation.
From PLV Require Import Disc.DecompModel.
Import ListNotations.
Open Scope Z_scope.

(* ------------------------------------------------------------------ unfolding one level of the generator *)
Definition step_other (recurse : list op -> option Z -> result (list emitted)) (E : env) (o : op)
           (reached : bool) (budget : option Z) : result (list emitted) :=
  if accept E o then Ok [(o, TAcc, budget)]
  else if reached then Ok [(o, TDepth, budget)]
  else if is_sub o then
    match legacy E o with Some d => recurse d budget | None => Err EUndefined end
  else
    match (if has_solution E then gsolve E o budget else None) with
    | Some (d, s) => recurse d (dec_budget budget s)
    | None =>
        if graph_enabled E && is_gphase o then Ok [(o, TWarnGP, budget)]
        else match custom E with
             | Some cf => match cf o with Some d => recurse d budget | None => Err ECustomUndefined end
             | None =>
                 match legacy E o with
                 | Some d => recurse d budget
                 | None => if strict E then Err EUndefined
                           else Ok [(o, if graph_enabled E then TKeepNoDecomp else TWarnNoDecomp, budget)]
                 end
             end
    end.

Definition recurse_of (f : nat) (E : env) (depth : Z) : list op -> option Z -> result (list emitted) :=
  fun d b' => bind_flat (fun s => gen f E s (depth + 1) b') d.

Lemma gen_S : forall f E o depth budget,
  gen (S f) E o depth budget =
  if negb (defined E o) then Err EOracle else
  match o with
  | Alloc _ => Ok [(o, TPass, budget)]
  | Cond m base =>
      if accept E base then Ok [(o, TAcc, budget)]
      else if depth_reached (max_expansion E) depth then Ok [(o, TDepth, budget)]
      else match gen f E base depth (Some 0) with
           | Err e => Err e
           | Ok l => Ok (map (wrap_cond m) l)
           end
  | _ => step_other (recurse_of f E depth) E o (depth_reached (max_expansion E) depth) budget
  end.
Proof. intros f E o depth budget; destruct o; reflexivity. Qed.

(* which decomposition the generator applies when it does decompose *)
Definition choice (E : env) (o : op) (budget : option Z) (d : list op) (b' : option Z) : Prop :=
  (is_sub o = true /\ legacy E o = Some d /\ b' = budget) \/
  (exists s, has_solution E = true /\ gsolve E o budget = Some (d, s) /\ b' = dec_budget budget s) \/
  (exists cf, custom E = Some cf /\ cf o = Some d /\ b' = budget) \/
  (custom E = None /\ legacy E o = Some d /\ b' = budget).

Lemma step_other_inv : forall recurse E o reached budget out,
  step_other recurse E o reached budget = Ok out ->
  (accept E o = true /\ out = [(o, TAcc, budget)]) \/
  (accept E o = false /\ reached = true /\ out = [(o, TDepth, budget)]) \/
  (accept E o = false /\ reached = false /\ exists d b', recurse d b' = Ok out /\ choice E o budget d b') \/
  (accept E o = false /\ graph_enabled E = true /\ is_gphase o = true /\ out = [(o, TWarnGP, budget)]) \/
  (accept E o = false /\ strict E = false /\ legacy E o = None /\
   out = [(o, if graph_enabled E then TKeepNoDecomp else TWarnNoDecomp, budget)]).
Proof.
  intros recurse E o reached budget out H. unfold step_other in H.
  destruct (accept E o) eqn:Ha.
  { left. inversion H. auto. }
  destruct reached eqn:Hr.
  { right; left. inversion H. auto. }
  destruct (is_sub o) eqn:Hs.
  { destruct (legacy E o) as [d|] eqn:Hl; [|discriminate].
    right; right; left. repeat split; auto. exists d, budget. split; auto. left; auto. }
  destruct (if has_solution E then gsolve E o budget else None) as [[d s]|] eqn:Hg.
  { right; right; left. repeat split; auto. exists d, (dec_budget budget s). split; auto.
    right; left. exists s. destruct (has_solution E); [auto | discriminate]. }
  destruct (graph_enabled E && is_gphase o) eqn:Hgp.
  { apply andb_true_iff in Hgp. destruct Hgp. right; right; right; left. inversion H. auto. }
  destruct (custom E) as [cf|] eqn:Hc.
  { destruct (cf o) as [d|] eqn:Hcf; [|discriminate].
    right; right; left. repeat split; auto. exists d, budget. split; auto.
    right; right; left. exists cf; auto. }
  destruct (legacy E o) as [d|] eqn:Hl.
  { right; right; left. repeat split; auto. exists d, budget. split; auto. right; right; right; auto. }
  destruct (strict E) eqn:Hst; [discriminate|].
  right; right; right; right. inversion H. auto.
Qed.

Lemma bind_flat_inv : forall A (f : A -> result (list emitted)) l out,
  bind_flat f l = Ok out ->
  exists outs, Forall2 (fun x o => f x = Ok o) l outs /\ out = concat outs.
Proof.
  induction l as [|x r IH]; intros out H; simpl in H.
  - inversion H. exists []. split; constructor.
  - destruct (f x) as [a|] eqn:Hx; [|discriminate].
    destruct (bind_flat f r) as [b|] eqn:Hr; [|discriminate].
    inversion H; subst. destruct (IH b eq_refl) as [outs [H2 Hb]]. subst.
    exists (a :: outs). split; [constructor; auto | reflexivity].
Qed.

Lemma bind_flat_Forall : forall A (f : A -> result (list emitted)) (P : emitted -> Prop) l out,
  (forall x o, In x l -> f x = Ok o -> Forall P o) ->
  bind_flat f l = Ok out -> Forall P out.
Proof.
  induction l as [|x r IH]; intros out Hf H; simpl in H.
  - inversion H. constructor.
  - destruct (f x) as [a|] eqn:Hx; [|discriminate].
    destruct (bind_flat f r) as [b|] eqn:Hr; [|discriminate].
    inversion H; subst. apply Forall_app. split.
    + apply (Hf x); simpl; auto.
    + apply IH; auto. intros y o Hy. apply Hf. simpl; auto.
Qed.

(* ------------------------------------------------------------------ decompose_in_target *)
Lemma acc_under_of_accept : forall E o, accept E o = true -> acc_under E o = true.
Proof. intros E o H. destruct o; simpl; rewrite H; reflexivity. Qed.

Lemma acc_under_inner : forall E o, accept E (inner o) = true -> acc_under E o = true.
Proof.
  intros E o. induction o; simpl; intros H; try (rewrite H; reflexivity).
  rewrite (IHo H). apply orb_true_r.
Qed.

Lemma emit_ok_wrap : forall E m e, emit_ok E e -> emit_ok E (wrap_cond m e).
Proof.
  intros E m [[o t] b] H. unfold emit_ok, wrap_cond, e_op, e_tag in *. simpl in *.
  destruct t; simpl; auto. rewrite H. apply orb_true_r.
Qed.

Lemma not_cond_inner : forall o, (forall m b, o <> Cond m b) -> inner o = o.
Proof. intros o H. destruct o; simpl; auto. exfalso. eapply H; reflexivity. Qed.

Lemma step_other_emit_ok : forall recurse E o reached budget out,
  inner o = o ->
  (reached = true -> max_expansion E <> None) ->
  (forall d b' out', recurse d b' = Ok out' -> Forall (emit_ok E) out') ->
  step_other recurse E o reached budget = Ok out -> Forall (emit_ok E) out.
Proof.
  intros recurse E o reached budget out Hin Hre Hrec H.
  apply step_other_inv in H.
  destruct H as [[Ha Ho]|[[Ha [Hr Ho]]|[[Ha [Hr [d [b' [Hd _]]]]]|[[Ha [Hg [Hp Ho]]]|[Ha [Hs [Hl Ho]]]]]]].
  - subst. repeat constructor. unfold emit_ok; simpl. apply acc_under_of_accept; auto.
  - subst. repeat constructor. unfold emit_ok; simpl. auto.
  - eapply Hrec; eauto.
  - subst. apply Forall_cons; [|apply Forall_nil]. unfold emit_ok, e_op, e_tag; cbn [fst snd]. rewrite Hin. auto.
  - subst. apply Forall_cons; [|apply Forall_nil]. unfold emit_ok, e_op, e_tag; cbn [fst snd].
    destruct (graph_enabled E) eqn:Hg; rewrite Hin; auto.
Qed.

Lemma depth_reached_some : forall mx d, depth_reached mx d = true -> mx <> None.
Proof. intros [m|] d H; simpl in H; [discriminate | discriminate H]. Qed.

Lemma gen_in_target : forall fuel E o depth budget out,
  gen fuel E o depth budget = Ok out -> Forall (emit_ok E) out.
Proof.
  induction fuel as [|f IH]; intros E o depth budget out H; [discriminate|].
  rewrite gen_S in H. destruct (negb (defined E o)); [discriminate|].
  assert (Hrec : forall d b' out', recurse_of f E depth d b' = Ok out' -> Forall (emit_ok E) out').
  { intros d b' out' Hd. unfold recurse_of in Hd.
    eapply bind_flat_Forall; [|exact Hd]. intros x o' _ Hx. cbv beta in Hx. eapply IH; exact Hx. }
  destruct o as [c|c|c|c|m base].
  - exact (step_other_emit_ok _ _ (Plain c) _ _ _ eq_refl (depth_reached_some _ _) Hrec H).
  - exact (step_other_emit_ok _ _ (GPhase c) _ _ _ eq_refl (depth_reached_some _ _) Hrec H).
  - exact (step_other_emit_ok _ _ (Sub c) _ _ _ eq_refl (depth_reached_some _ _) Hrec H).
  - inversion H. repeat constructor.
  - destruct (accept E base) eqn:Ha.
    { inversion H. repeat constructor. unfold emit_ok; simpl. rewrite (acc_under_of_accept _ _ Ha). apply orb_true_r. }
    destruct (depth_reached (max_expansion E) depth) eqn:Hr.
    { inversion H. repeat constructor. unfold emit_ok; simpl. eapply depth_reached_some; eauto. }
    destruct (gen f E base depth (Some 0)) as [l|] eqn:Hg; [|discriminate].
    inversion H; subst. apply IH in Hg. clear -Hg.
    induction Hg; simpl; constructor; auto. apply emit_ok_wrap; auto.
Qed.

Lemma decompose_in_target_lemma : forall fuel E transform ops b0 out,
  decompose fuel E transform ops b0 = Ok out -> Forall (emit_ok E) out.
Proof.
  intros fuel E transform ops b0 out H. unfold decompose in H.
  destruct (transform && forallb (accept E) ops) eqn:Ht.
  - inversion H; subst. apply andb_true_iff in Ht. destruct Ht as [_ Hf].
    rewrite forallb_forall in Hf. apply Forall_forall. intros e He.
    apply in_map_iff in He. destruct He as [o [He Ho]]. subst.
    unfold emit_ok; simpl. apply acc_under_of_accept. auto.
  - eapply bind_flat_Forall; [|exact H]. intros x o _ Hx. cbv beta in Hx. eapply gen_in_target; exact Hx.
Qed.

(* the property's wording without flags: strict, unbounded depth, GlobalPhase accepted whenever the graph is on *)
Lemma decompose_in_target_strict_lemma : forall fuel E transform ops b0 out,
  max_expansion E = None -> strict E = true ->
  (graph_enabled E = true -> forall c, accept E (GPhase c) = true) ->
  decompose fuel E transform ops b0 = Ok out ->
  Forall (fun e => acc_under E (e_op e) = true \/ is_alloc (inner (e_op e)) = true) out.
Proof.
  intros fuel E transform ops b0 out Hm Hs Hg H.
  apply decompose_in_target_lemma in H. eapply Forall_impl; [|exact H].
  intros [[o t] b] He. unfold emit_ok, e_op, e_tag in *. simpl in *.
  destruct t.
  - left; exact He.
  - right; exact He.
  - exfalso; apply He; exact Hm.
  - destruct He as [Hge Hp]. left. apply acc_under_inner.
    destruct (inner o); simpl in Hp; try discriminate. apply Hg; auto.
  - destruct He as [He _]. rewrite Hs in He. discriminate.
  - destruct He as [He _]. rewrite Hs in He. discriminate.
Qed.

(* ------------------------------------------------------------------ decompose_sem *)
Section Sem.
  Variable M : Type.
  Variable mul : M -> M -> M.
  Variable one : M.
  Hypothesis mul_assoc : forall a b c, mul a (mul b c) = mul (mul a b) c.
  Hypothesis mul_one_l : forall a, mul one a = a.
  Hypothesis mul_one_r : forall a, mul a one = a.
  Variable sem : op -> M.
  Variable csem : Z -> M -> M.     (* semantics of the Conditional wrapper in a fixed measurement branch *)
  Hypothesis csem_mul : forall m a b, csem m (mul a b) = mul (csem m a) (csem m b).
  Hypothesis csem_one : forall m, csem m one = one.
  Hypothesis sem_cond : forall m b, sem (Cond m b) = csem m (sem b).

  Definition lsem (l : list op) : M := fold_right (fun o acc => mul (sem o) acc) one l.
  Definition ops_of (out : list emitted) : list op := map e_op out.

  Lemma lsem_app : forall a b, lsem (a ++ b) = mul (lsem a) (lsem b).
  Proof.
    induction a as [|x r IH]; intros b; simpl.
    - rewrite mul_one_l. reflexivity.
    - rewrite IH. apply mul_assoc.
  Qed.

  Lemma lsem_wrap : forall m l, lsem (ops_of (map (wrap_cond m) l)) = csem m (lsem (ops_of l)).
  Proof.
    induction l as [|e r IH]; simpl.
    - rewrite csem_one. reflexivity.
    - unfold ops_of in *. simpl. rewrite IH. unfold wrap_cond, e_op; cbn [fst snd]. rewrite csem_mul, sem_cond. reflexivity.
  Qed.

  Variable E : env.
  Hypothesis H_graph : forall o b d s, gsolve E o b = Some (d, s) -> lsem d = sem o.
  Hypothesis H_legacy : forall o d, legacy E o = Some d -> lsem d = sem o.
  Hypothesis H_custom : forall cf o d, custom E = Some cf -> cf o = Some d -> lsem d = sem o.

  Lemma bind_flat_sem : forall (f : op -> result (list emitted)) l out,
    (forall x o, f x = Ok o -> lsem (ops_of o) = sem x) ->
    bind_flat f l = Ok out -> lsem (ops_of out) = lsem l.
  Proof.
    induction l as [|x r IH]; intros out Hf H; simpl in H.
    - inversion H. reflexivity.
    - destruct (f x) as [a|] eqn:Hx; [|discriminate].
      destruct (bind_flat f r) as [b|] eqn:Hr; [|discriminate].
      inversion H; subst. unfold ops_of. rewrite map_app. rewrite lsem_app.
      fold (ops_of a). fold (ops_of b). rewrite (Hf _ _ Hx). rewrite (IH b Hf eq_refl). reflexivity.
  Qed.

  Lemma choice_sem : forall o budget d b', choice E o budget d b' -> lsem d = sem o.
  Proof.
    intros o budget d b' [[_ [H _]]|[[s [_ [H _]]]|[[cf [Hc [H _]]]|[_ [H _]]]]]; eauto.
  Qed.

  Lemma single_sem : forall o t b, lsem (ops_of [(o, t, b)]) = sem o.
  Proof. intros. unfold ops_of, e_op. simpl. apply mul_one_r. Qed.

  Lemma step_other_sem : forall recurse o reached budget out,
    (forall d b' out', recurse d b' = Ok out' -> lsem (ops_of out') = lsem d) ->
    step_other recurse E o reached budget = Ok out -> lsem (ops_of out) = sem o.
  Proof.
    intros recurse o reached budget out Hrec H. apply step_other_inv in H.
    destruct H as [[Ha Ho]|[[Ha [Hr Ho]]|[[Ha [Hr [d [b' [Hd Hc]]]]]|[[Ha [Hg [Hp Ho]]]|[Ha [Hs [Hl Ho]]]]]]];
      subst; try apply single_sem.
    rewrite (Hrec _ _ _ Hd). eapply choice_sem; eauto.
  Qed.

  Lemma gen_sem : forall fuel o depth budget out,
    gen fuel E o depth budget = Ok out -> lsem (ops_of out) = sem o.
  Proof.
    induction fuel as [|f IH]; intros o depth budget out H; [discriminate|].
    rewrite gen_S in H. destruct (negb (defined E o)); [discriminate|].
    assert (Hrec : forall d b' out', recurse_of f E depth d b' = Ok out' -> lsem (ops_of out') = lsem d).
    { intros d b' out' Hd. unfold recurse_of in Hd. eapply bind_flat_sem; [|exact Hd].
      intros x o' Hx. cbv beta in Hx. eapply IH; exact Hx. }
    destruct o as [c|c|c|c|m base].
    - eapply step_other_sem; eauto.
    - eapply step_other_sem; eauto.
    - eapply step_other_sem; eauto.
    - inversion H. apply single_sem.
    - destruct (accept E base). { inversion H. apply single_sem. }
      destruct (depth_reached (max_expansion E) depth). { inversion H. apply single_sem. }
      destruct (gen f E base depth (Some 0)) as [l|] eqn:Hg; [|discriminate].
      inversion H; subst. rewrite lsem_wrap. rewrite (IH _ _ _ _ Hg). symmetry. apply sem_cond.
  Qed.

  Lemma decompose_sem_lemma : forall fuel transform ops b0 out,
    decompose fuel E transform ops b0 = Ok out -> lsem (ops_of out) = lsem ops.
  Proof.
    intros fuel transform ops b0 out H. unfold decompose in H.
    destruct (transform && forallb (accept E) ops).
    - inversion H. unfold ops_of. rewrite map_map. unfold e_op. simpl. rewrite map_id. reflexivity.
    - eapply bind_flat_sem; [|exact H]. intros x o Hx. cbv beta in Hx. eapply gen_sem; exact Hx.
  Qed.
End Sem.

(* ------------------------------------------------------------------ budget_never_negative *)
Definition budget_ok (e : emitted) : Prop :=
  match e_budget e with Some b => 0 <= b | None => True end.
Definition obudget_ok (b : option Z) : Prop := match b with Some x => 0 <= x | None => True end.

Lemma gen_budget : forall fuel E o depth budget out,
  (forall o b d s, gsolve E o (Some b) = Some (d, s) -> 0 <= b -> 0 <= s <= b) ->
  obudget_ok budget ->
  gen fuel E o depth budget = Ok out -> Forall budget_ok out.
Proof.
  induction fuel as [|f IH]; intros E o depth budget out Hfeas Hb H; [discriminate|].
  rewrite gen_S in H. destruct (negb (defined E o)); [discriminate|].
  assert (Hstep : forall o', step_other (recurse_of f E depth) E o' (depth_reached (max_expansion E) depth) budget = Ok out ->
                       Forall budget_ok out).
  { intros o' Hs. apply step_other_inv in Hs.
    destruct Hs as [[Ha Ho]|[[Ha [Hr Ho]]|[[Ha [Hr [d [b' [Hd Hc]]]]]|[[Ha [Hg [Hp Ho]]]|[Ha [Hs [Hl Ho]]]]]]];
      subst; try (repeat constructor; exact Hb).
    assert (Hb' : obudget_ok b').
    { destruct Hc as [[_ [_ Hc]]|[[s [_ [Hg Hc]]]|[[cf [_ [_ Hc]]]|[_ [_ Hc]]]]]; subst; auto.
      destruct budget as [x|]; simpl; auto. simpl in Hb. specialize (Hfeas _ _ _ _ Hg Hb). lia. }
    unfold recurse_of in Hd. eapply bind_flat_Forall; [|exact Hd]. intros x o'' _ Hx. cbv beta in Hx. eapply IH; [exact Hfeas | exact Hb' | exact Hx]. }
  destruct o as [c|c|c|c|m base].
  - exact (Hstep _ H).
  - exact (Hstep _ H).
  - exact (Hstep _ H).
  - inversion H. repeat constructor. exact Hb.
  - destruct (accept E base). { inversion H. repeat constructor. exact Hb. }
    destruct (depth_reached (max_expansion E) depth). { inversion H. repeat constructor. exact Hb. }
    destruct (gen f E base depth (Some 0)) as [l|] eqn:Hg; [|discriminate].
    inversion H; subst. assert (Hl : Forall budget_ok l). { eapply IH; [exact Hfeas | | exact Hg]. simpl. lia. }
    clear -Hl. induction Hl; simpl; constructor; auto.
Qed.

Lemma decompose_budget : forall fuel E transform ops b0 out,
  (forall o b d s, gsolve E o (Some b) = Some (d, s) -> 0 <= b -> 0 <= s <= b) ->
  obudget_ok b0 ->
  decompose fuel E transform ops b0 = Ok out -> Forall budget_ok out.
Proof.
  intros fuel E transform ops b0 out Hf Hb H. unfold decompose in H.
  destruct (transform && forallb (accept E) ops).
  - inversion H. apply Forall_forall. intros e He. apply in_map_iff in He. destruct He as [o [He _]]. subst. exact Hb.
  - eapply bind_flat_Forall; [|exact H]. intros x o _ Hx. cbv beta in Hx. eapply gen_budget; [exact Hf | exact Hb | exact Hx].
Qed.

(* ------------------------------------------------------------------ estimate_matches *)
Lemma obind_flat_ext : forall A B (g g' : A -> option (list B)) l r,
  (forall x y, g x = Some y -> g' x = Some y) -> obind_flat g l = Some r -> obind_flat g' l = Some r.
Proof.
  induction l as [|x t IH]; intros r Hg H; simpl in *; auto.
  destruct (g x) as [a|] eqn:Hx; [|discriminate].
  destruct (obind_flat g t) as [b|] eqn:Ht; [|discriminate].
  rewrite (Hg _ _ Hx). rewrite (IH b Hg eq_refl). exact H.
Qed.

Lemma expand_mono : forall f tc t l, expand f tc t = Some l -> expand (S f) tc t = Some l.
Proof.
  induction f as [|f IH]; intros tc t l H; [discriminate|].
  simpl in H. simpl. destruct (tc t) as [rs|]; auto.
  eapply obind_flat_ext; [|exact H]. intros x y Hx. apply IH in Hx. exact Hx.
Qed.

Lemma obind_flat_perm : forall A B (g : A -> option (list B)) l l',
  Permutation l l' -> forall r, obind_flat g l = Some r ->
  exists r', obind_flat g l' = Some r' /\ Permutation r r'.
Proof.
  intros A B g l l' HP. induction HP; intros r H; simpl in *.
  - exists r. split; auto.
  - destruct (g x) as [a|]; [|discriminate].
    destruct (obind_flat g l) as [b|] eqn:Hl; [|discriminate]. inversion H; subst.
    destruct (IHHP b eq_refl) as [b' [Hb' Hp]]. rewrite Hb'. exists (a ++ b'). split; auto.
    apply Permutation_app_head; auto.
  - destruct (g y) as [a|]; [|discriminate]. destruct (g x) as [b|]; [|discriminate].
    destruct (obind_flat g l) as [c|]; [|discriminate]. inversion H; subst.
    exists (b ++ a ++ c). split; auto. rewrite !app_assoc. apply Permutation_app_tail. apply Permutation_app_comm.
  - destruct (IHHP1 r H) as [r1 [H1 P1]]. destruct (IHHP2 r1 H1) as [r2 [H2 P2]].
    exists r2. split; auto. eapply Permutation_trans; eauto.
Qed.

Definition all_acc (out : list emitted) : Prop := Forall (fun e => e_tag e = TAcc) out.
Definition types_of (ty : op -> Z) (out : list emitted) : list Z := map ty (map e_op out).

Section Estimate.
  Variable E : env.
  Variable ty : op -> Z.
  Variable tchoose : Z -> option (list (Z * N)).
  Definition exact_choice (d : list op) (o : op) : Prop :=
    exists rs, tchoose (ty o) = Some rs /\ Permutation (map ty d) (unfold_res rs).
  Hypothesis H_nomax : max_expansion E = None.
  Hypothesis H_tycond : forall m b, ty (Cond m b) = ty b.
  Hypothesis H_target : forall o, accept E o = true -> tchoose (ty o) = None.
  Hypothesis H_graph : forall o b d s, accept E o = false -> gsolve E o b = Some (d, s) -> exact_choice d o.
  Hypothesis H_legacy : forall o d, accept E o = false -> legacy E o = Some d -> exact_choice d o.
  Hypothesis H_custom : forall cf o d, accept E o = false -> custom E = Some cf -> cf o = Some d -> exact_choice d o.

  Lemma bind_flat_est : forall f (g : op -> result (list emitted)) d out,
    (forall x o, g x = Ok o -> all_acc o -> exists e, expand f tchoose (ty x) = Some e /\ Permutation (types_of ty o) e) ->
    bind_flat g d = Ok out -> all_acc out ->
    exists e, obind_flat (expand f tchoose) (map ty d) = Some e /\ Permutation (types_of ty out) e.
  Proof.
    induction d as [|x r IH]; intros out Hg H Hacc; simpl in H.
    - inversion H. exists []. split; auto.
    - destruct (g x) as [a|] eqn:Hx; [|discriminate].
      destruct (bind_flat g r) as [b|] eqn:Hr; [|discriminate].
      inversion H; subst. apply Forall_app in Hacc. destruct Hacc as [Ha Hb].
      destruct (Hg _ _ Hx Ha) as [ea [Hea Pa]]. destruct (IH b Hg eq_refl Hb) as [eb [Heb Pb]].
      simpl. rewrite Hea, Heb. exists (ea ++ eb). split; auto.
      unfold types_of in *. rewrite !map_app. apply Permutation_app; auto.
  Qed.

  Lemma choice_exact : forall o budget d b', accept E o = false -> choice E o budget d b' -> exact_choice d o.
  Proof.
    intros o budget d b' Ha [[_ [H _]]|[[s [_ [H _]]]|[[cf [Hc [H _]]]|[_ [H _]]]]]; eauto.
  Qed.

  Lemma gen_estimate : forall fuel o depth budget out,
    gen fuel E o depth budget = Ok out -> all_acc out ->
    exists e, expand fuel tchoose (ty o) = Some e /\ Permutation (types_of ty out) e.
  Proof.
    induction fuel as [|f IH]; intros o depth budget out H Hacc; [discriminate|].
    rewrite gen_S in H. destruct (negb (defined E o)); [discriminate|].
    assert (Hstep : forall o', step_other (recurse_of f E depth) E o' (depth_reached (max_expansion E) depth) budget = Ok out ->
                         exists e, expand (S f) tchoose (ty o') = Some e /\ Permutation (types_of ty out) e).
    { intros o' Hs. apply step_other_inv in Hs.
      destruct Hs as [[Ha Ho]|[[Ha [Hr Ho]]|[[Ha [Hr [d [b' [Hd Hc]]]]]|[[Ha [Hg [Hp Ho]]]|[Ha [Hs [Hl Ho]]]]]]]; subst.
      - simpl. rewrite (H_target _ Ha). exists [ty o']. split; auto.
      - rewrite H_nomax in Hr. discriminate.
      - destruct (choice_exact _ _ _ _ Ha Hc) as [rs [Hrs Prs]].
        unfold recurse_of in Hd.
        destruct (bind_flat_est f _ d out (fun x o'' Hx Hac => IH _ _ _ _ Hx Hac) Hd Hacc) as [e [He Pe]].
        destruct (obind_flat_perm _ _ (expand f tchoose) _ _ Prs _ He) as [e' [He' Pe']].
        simpl. rewrite Hrs. exists e'. split; auto. eapply Permutation_trans; eauto.
      - inversion Hacc as [|? ? Ht _]; subst. discriminate Ht.
      - inversion Hacc as [|? ? Ht _]; subst. unfold e_tag in Ht. simpl in Ht. destruct (graph_enabled E); discriminate. }
    destruct o as [c|c|c|c|m base].
    - exact (Hstep _ H).
    - exact (Hstep _ H).
    - exact (Hstep _ H).
    - inversion H; subst. inversion Hacc as [|? ? Ht _]; subst. discriminate Ht.
    - rewrite H_tycond. destruct (accept E base) eqn:Ha.
      { inversion H; subst. simpl. rewrite (H_target _ Ha). exists [ty base]. split; auto.
        unfold types_of, e_op. simpl. rewrite H_tycond. auto. }
      rewrite H_nomax in H. simpl in H.
      destruct (gen f E base depth (Some 0)) as [l|] eqn:Hg; [|discriminate].
      inversion H; subst.
      assert (Hl : all_acc l).
      { clear -Hacc. unfold all_acc in *. induction l; simpl in *; constructor; inversion Hacc; subst; auto. }
      destruct (IH _ _ _ _ Hg Hl) as [e [He Pe]]. exists e. split; [apply expand_mono; auto|].
      assert (Heq : types_of ty (map (wrap_cond m) l) = types_of ty l).
      { clear - H_tycond. unfold types_of. induction l; simpl; auto. rewrite IHl. unfold wrap_cond at 1. unfold e_op at 1. simpl.
        rewrite H_tycond. reflexivity. }
      rewrite Heq. exact Pe.
  Qed.
End Estimate.
