(* C20: proofs about Disc/SplitModel.v *)
From Coq Require Import List ZArith QArith Bool Lia Permutation Setoid Morphisms.
From PLV Require Import Disc.SplitModel.
Import ListNotations.
Arguments entry_pushes : simpl never.

(* ------------------------------------------------------------------ key equality *)
Lemma word_eqb_eq : forall a b, word_eqb a b = true -> a = b.
Proof.
  induction a as [|[w l] a IH]; destruct b as [|[w' l'] b]; cbn; intros H; try discriminate; auto.
  apply andb_prop in H as [H H3]. apply andb_prop in H as [H1 H2].
  apply Z.eqb_eq in H1, H2. subst. f_equal. auto.
Qed.

Lemma key_eqb_eq : forall a b, key_eqb a b = true -> a = b.
Proof.
  intros [[[k n] dn] w] [[[k' n'] dn'] w']; cbn; intros H.
  apply andb_prop in H as [H H4]. apply andb_prop in H as [H H3]. apply andb_prop in H as [H1 H2].
  apply Z.eqb_eq in H1, H2, H3. apply word_eqb_eq in H4. subst. reflexivity.
Qed.

(* ------------------------------------------------------------------ pushes of a dictionary under an executor E *)
Definition pushesE (E : key -> Q) (d : dict) : list push :=
  flat_map (fun e => entry_pushes (snd e) (E (fst e))) d.

Lemma pushes_nogroup_map : forall E d, pushes_nogroup d (map E (keys d)) = Some (pushesE E d).
Proof.
  induction d as [|[k l] d IH]; cbn; auto.
  unfold keys in IH. rewrite IH. reflexivity.
Qed.

Lemma entry_pushes_app : forall l l' v, entry_pushes (l ++ l') v = entry_pushes l v ++ entry_pushes l' v.
Proof. intros. unfold entry_pushes. apply map_app. Qed.

Lemma pushesE_add : forall E d k i c,
  Permutation (pushesE E (dict_add d k i c)) (pushesE E d ++ [(i, c, E k)]).
Proof.
  induction d as [|[k' l] d IH]; intros k i c; cbn.
  - apply Permutation_refl.
  - destruct (key_eqb k k') eqn:Hk; cbn.
    + apply key_eqb_eq in Hk. subst k'. rewrite entry_pushes_app. cbn.
      rewrite <- !app_assoc. apply Permutation_app_head.
      cbn. apply Permutation_cons_append.
    + rewrite <- app_assoc. apply Permutation_app_head. apply IH.
Qed.

(* ------------------------------------------------------------------ contributions of one measurement *)
Fixpoint term_contribs (E : key -> Q) (i : nat) (ts : list term) : list push :=
  match ts with
  | [] => []
  | (c, isI, w) :: r => if isI then term_contribs E i r else (i, c, E (exp_key w)) :: term_contribs E i r
  end.

Fixpoint term_offset (ts : list term) : Q :=
  match ts with
  | [] => 0
  | (c, isI, w) :: r => (if isI then c else 0) + term_offset r
  end.

Definition contribs (E : key -> Q) (i : nat) (m : meas) : list push :=
  match m with
  | MComp kind ts _ k => if Z.eqb kind 0 then term_contribs E i ts else [(i, 1, E k)]
  | MIdent kind k => if Z.eqb kind 0 then [] else [(i, 1, E k)]
  | MOther _ k => [(i, 1, E k)]
  end.

Definition offset_of (m : meas) : Q :=
  match m with
  | MComp kind ts _ _ => if Z.eqb kind 0 then term_offset ts else 0
  | MIdent kind _ => if Z.eqb kind 0 then 1 else 0
  | MOther _ _ => 0
  end.

Lemma split_terms_spec : forall E ts d off i d' off',
  split_terms d off i ts = (d', off') ->
  Permutation (pushesE E d') (pushesE E d ++ term_contribs E i ts) /\ off' == off + term_offset ts.
Proof.
  induction ts as [|[[c isI] w] ts IH]; intros d off i d' off' H; cbn in H.
  - inversion H; subst. cbn. rewrite app_nil_r. split; [apply Permutation_refl | ring].
  - destruct isI.
    + apply IH in H as [H1 H2]. cbn. split; auto. rewrite H2. ring.
    + apply IH in H as [H1 H2]. cbn. split.
      * eapply Permutation_trans; [exact H1|].
        eapply Permutation_trans; [apply Permutation_app_tail; apply pushesE_add|].
        rewrite <- app_assoc. apply Permutation_refl.
      * rewrite H2. ring.
Qed.

Lemma split_one_spec : forall E d i m d' off,
  split_one d i m = Some (d', off) ->
  Permutation (pushesE E d') (pushesE E d ++ contribs E i m) /\ off == offset_of m.
Proof.
  intros E d i m d' off H. destruct m as [kind ts simp k|kind k|kind k]; cbn in H; cbn.
  - destruct (Z.eqb kind 0) eqn:Hk.
    + inversion H as [H']. apply (split_terms_spec E) in H' as [H1 H2]. split; auto. rewrite H2. ring.
    + destruct simp; [discriminate|]. inversion H; subst. split; [apply pushesE_add | reflexivity].
  - destruct (Z.eqb kind 0) eqn:Hk; inversion H; subst.
    + rewrite app_nil_r. split; [apply Permutation_refl | ring].
    + split; [apply pushesE_add | reflexivity].
  - inversion H; subst. split; [apply pushesE_add | reflexivity].
Qed.

Definition pidx (p : push) : nat := fst (fst p).
Definition pcr (p : push) : Q * Q := (snd (fst p), snd p).

Lemma term_contribs_idx : forall E i ts p, In p (term_contribs E i ts) -> pidx p = i.
Proof.
  induction ts as [|[[c isI] w] ts IH]; cbn; intros p H; [contradiction|].
  destruct isI; auto. destruct H as [H|H]; auto. subst. reflexivity.
Qed.

Lemma contribs_idx : forall E i m p, In p (contribs E i m) -> pidx p = i.
Proof.
  intros E i m p H. destruct m as [kind ts simp k|kind k|kind k]; cbn in H.
  - destruct (Z.eqb kind 0); [eapply term_contribs_idx; eauto|].
    destruct H as [H|[]]; subst; reflexivity.
  - destruct (Z.eqb kind 0); [contradiction|]. destruct H as [H|[]]; subst; reflexivity.
  - destruct H as [H|[]]; subst; reflexivity.
Qed.

Lemma term_contribs_value : forall E i ts,
  dotsum (map pcr (term_contribs E i ts)) + term_offset ts == eval_terms E ts.
Proof.
  induction ts as [|[[c isI] w] ts IH]; cbn; [ring|].
  destruct isI; cbn; rewrite <- IH; unfold pcr; cbn; ring.
Qed.

Lemma contribs_value : forall E i m,
  dotsum (map pcr (contribs E i m)) + offset_of m == evalm E m.
Proof.
  intros E i m. destruct m as [kind ts simp k|kind k|kind k]; cbn.
  - destruct (Z.eqb kind 0); [apply term_contribs_value | cbn; ring].
  - destruct (Z.eqb kind 0); cbn; ring.
  - ring.
Qed.

(* ------------------------------------------------------------------ buckets, sums *)
Lemma bucket_eq : forall j ps, bucket j ps = map pcr (filter (fun p => Nat.eqb (pidx p) j) ps).
Proof. reflexivity. Qed.

Lemma bucket_app : forall j a b, bucket j (a ++ b) = bucket j a ++ bucket j b.
Proof. intros. unfold bucket. rewrite filter_app, map_app. reflexivity. Qed.

Lemma bucket_perm : forall j a b, Permutation a b -> Permutation (bucket j a) (bucket j b).
Proof.
  intros j a b H. rewrite !bucket_eq. apply Permutation_map.
  induction H; cbn.
  - constructor.
  - destruct (Nat.eqb (pidx x) j); [constructor|]; auto.
  - destruct (Nat.eqb (pidx x) j), (Nat.eqb (pidx y) j); try apply Permutation_refl. constructor.
  - eapply Permutation_trans; eauto.
Qed.

Lemma bucket_all : forall j l, (forall p, In p l -> pidx p = j) -> bucket j l = map pcr l.
Proof.
  intros j l H. rewrite bucket_eq. f_equal.
  induction l as [|p l IH]; cbn; auto.
  rewrite (H p (or_introl eq_refl)), Nat.eqb_refl. f_equal. apply IH. intros; apply H; right; auto.
Qed.

Lemma bucket_none : forall j l, (forall p, In p l -> pidx p <> j) -> bucket j l = [].
Proof.
  intros j l H. rewrite bucket_eq.
  induction l as [|p l IH]; cbn; auto.
  destruct (Nat.eqb (pidx p) j) eqn:Hp.
  - apply Nat.eqb_eq in Hp. exfalso. apply (H p); auto. left; auto.
  - apply IH. intros; apply H; right; auto.
Qed.

Lemma dotsum_app : forall a b, dotsum (a ++ b) == dotsum a + dotsum b.
Proof. induction a as [|[c r] a IH]; intros b; cbn; [ring|]. rewrite IH. ring. Qed.

Lemma dotsum_perm : forall a b, Permutation a b -> dotsum a == dotsum b.
Proof.
  intros a b H. induction H.
  - reflexivity.
  - destruct x as [c r]; cbn. rewrite IHPermutation. reflexivity.
  - destruct x as [c r], y as [c' r']; cbn. ring.
  - etransitivity; eauto.
Qed.

Lemma sum_terms_eq : forall cr off, sum_terms cr off == dotsum cr + off.
Proof.
  intros cr off. destruct cr as [|[c r] [|p t]]; cbn.
  - ring.
  - destruct (Qeq_bool c 1 && Qeq_bool off 0) eqn:Hs; [|reflexivity].
    apply andb_prop in Hs as [H1 H2]. apply Qeq_bool_eq in H1, H2. rewrite H1, H2. ring.
  - reflexivity.
Qed.

Lemma sum_terms_perm : forall cr cr' off off', Permutation cr cr' -> off == off' ->
  sum_terms cr off == sum_terms cr' off'.
Proof. intros. rewrite !sum_terms_eq. rewrite (dotsum_perm _ _ H), H0. reflexivity. Qed.

Lemma reasm_perm : forall ps ps' offs j, Permutation ps ps' ->
  Forall2 Qeq (reasm ps j offs) (reasm ps' j offs).
Proof.
  intros ps ps' offs. induction offs as [|off offs IH]; intros j H; cbn; constructor.
  - apply sum_terms_perm; [apply bucket_perm; auto | reflexivity].
  - apply IH; auto.
Qed.

(* ------------------------------------------------------------------ the splitting loop only adds pushes with later indices *)
Lemma split_all_rest : forall E ms d0 i0 d offs,
  split_all d0 i0 ms = Some (d, offs) ->
  exists rest, Permutation (pushesE E d) (pushesE E d0 ++ rest) /\ (forall p, In p rest -> (i0 <= pidx p)%nat).
Proof.
  induction ms as [|m ms IH]; intros d0 i0 d offs H; cbn in H.
  - inversion H; subst. exists []. rewrite app_nil_r. split; [apply Permutation_refl | intros p []].
  - destruct (split_one d0 i0 m) as [[d1 off]|] eqn:H1; [|discriminate].
    destruct (split_all d1 (S i0) ms) as [[d2 offs']|] eqn:H2; [|discriminate].
    inversion H; subst. apply (split_one_spec E) in H1 as [P1 _].
    apply IH in H2 as [rest [P2 Hr]].
    exists (contribs E i0 m ++ rest). split.
    + eapply Permutation_trans; [exact P2|]. rewrite app_assoc. apply Permutation_app_tail. exact P1.
    + intros p Hp. apply in_app_or in Hp as [Hp|Hp].
      * apply contribs_idx in Hp. lia.
      * apply Hr in Hp. lia.
Qed.

Lemma reasm_main : forall E ms d0 i0 d offs ps,
  split_all d0 i0 ms = Some (d, offs) ->
  (forall p, In p (pushesE E d0) -> (pidx p < i0)%nat) ->
  Permutation ps (pushesE E d) ->
  Forall2 Qeq (reasm ps i0 offs) (map (evalm E) ms).
Proof.
  induction ms as [|m ms IH]; intros d0 i0 d offs ps H Hlt Hp; cbn in H.
  - inversion H; subst. cbn. constructor.
  - destruct (split_one d0 i0 m) as [[d1 off]|] eqn:H1; [|discriminate].
    destruct (split_all d1 (S i0) ms) as [[d2 offs']|] eqn:H2; [|discriminate].
    inversion H; subst. clear H.
    pose proof (split_one_spec E _ _ _ _ _ H1) as [P1 Hoff].
    pose proof (split_all_rest E _ _ _ _ _ H2) as [rest [P2 Hr]].
    cbn. constructor.
    + (* the entry of measurement i0 *)
      assert (HP : Permutation ps ((pushesE E d0 ++ contribs E i0 m) ++ rest)).
      { eapply Permutation_trans; [exact Hp|]. eapply Permutation_trans; [exact P2|].
        apply Permutation_app_tail. exact P1. }
      rewrite (sum_terms_perm _ _ _ _ (bucket_perm i0 _ _ HP) Hoff).
      rewrite !bucket_app.
      rewrite (bucket_none i0 (pushesE E d0)) by (intros p Hin; apply Hlt in Hin; lia).
      rewrite (bucket_none i0 rest) by (intros p Hin; apply Hr in Hin; lia).
      rewrite (bucket_all i0 (contribs E i0 m)) by (intros p Hin; eapply contribs_idx; eauto).
      cbn. rewrite app_nil_r. rewrite sum_terms_eq. apply contribs_value.
    + eapply IH; [exact H2| |exact Hp].
      intros p Hin. eapply Permutation_in in Hin; [|exact P1].
      apply in_app_or in Hin as [Hin|Hin]; [apply Hlt in Hin; lia|].
      apply contribs_idx in Hin. lia.
Qed.

Lemma split_reassemble_linear_lemma : forall (E : key -> Q) ms d offs,
  split_all [] 0 ms = Some (d, offs) ->
  exists vals, reassemble_nogroup d (map E (keys d)) offs = Some vals /\
               Forall2 Qeq vals (map (evalm E) ms).
Proof.
  intros E ms d offs H. unfold reassemble_nogroup. rewrite pushes_nogroup_map.
  eexists; split; [reflexivity|].
  eapply reasm_main; [exact H| intros p [] | apply Permutation_refl].
Qed.

(* ------------------------------------------------------------------ rejection *)
Lemma split_one_none : forall d i m, split_one d i m = None <-> rejected m = true.
Proof.
  intros d i m. destruct m as [kind ts simp k|kind k|kind k]; cbn.
  - destruct (Z.eqb kind 0); cbn; [split; discriminate|]. destruct simp; split; auto; discriminate.
  - destruct (Z.eqb kind 0); split; discriminate.
  - split; discriminate.
Qed.

Lemma rejects_nonlinear_lemma : forall ms d i, split_all d i ms = None <-> existsb rejected ms = true.
Proof.
  induction ms as [|m ms IH]; intros d i; cbn.
  - split; discriminate.
  - destruct (split_one d i m) as [[d1 off]|] eqn:H1.
    + assert (Hr : rejected m = false).
      { destruct (rejected m) eqn:Hr; auto. apply (split_one_none d i) in Hr. congruence. }
      rewrite Hr. cbn. rewrite <- (IH d1 (S i)).
      destruct (split_all d1 (S i) ms) as [[d2 offs]|]; split; auto; discriminate.
    + apply split_one_none in H1. rewrite H1. cbn. split; auto.
Qed.

(* non-expval measurements that are accepted are passed through whole, with coefficient 1 and no offset *)
Lemma passthrough_lemma : forall d i m d' off kind,
  (match m with MComp k _ _ _ => k | MIdent k _ => k | MOther k _ => k end) = kind ->
  Z.eqb kind 0 = false ->
  split_one d i m = Some (d', off) ->
  d' = dict_add d (match m with MComp _ _ _ k => k | MIdent _ k => k | MOther _ k => k end) i 1 /\ off = 0.
Proof.
  intros d i m d' off kind Hk Hz H. destruct m as [kd ts simp k|kd k|kd k]; cbn in *; subst kd; rewrite ?Hz in H.
  - destruct simp; [discriminate|]. inversion H; auto.
  - inversion H; auto.
  - inversion H; auto.
Qed.

(* ------------------------------------------------------------------ grouping *)
Definition idx_pushes (E : key -> Q) (d : dict) (x : nat) : list push :=
  match nth_error d x with Some (k, l) => entry_pushes l (E k) | None => [] end.

Lemma mk_gres_GT : forall l, length l <> 1%nat -> mk_gres l = GT l.
Proof. intros [|a [|b t]] H; cbn in *; auto. congruence. Qed.

Lemma glookup_exec : forall E d ig g idxs j x k l,
  nth_error ig g = Some idxs -> nth_error idxs j = Some x -> nth_error d x = Some (k, l) ->
  glookup (exec_groups E (group_keys d ig)) (map (@length nat) ig) g j = Some (E k).
Proof.
  intros E d ig g idxs j x k l Hg Hj Hx. unfold glookup, exec_groups, group_keys.
  rewrite !nth_error_map, Hg. cbn.
  assert (Hk : key_at d x = k) by (unfold key_at; rewrite Hx; reflexivity).
  destruct (Nat.eqb (length idxs) 1) eqn:Hl.
  - apply Nat.eqb_eq in Hl. destruct idxs as [|a [|b t]]; cbn in Hl; try discriminate.
    destruct j as [|j]; cbn in Hj; [|destruct j; discriminate]. inversion Hj; subst. cbn. reflexivity.
  - apply Nat.eqb_neq in Hl. rewrite mk_gres_GT by (rewrite !map_length; auto).
    rewrite !nth_error_map, Hj. cbn. rewrite Hk. reflexivity.
Qed.

Lemma pushes_grouped_group : forall E d ig g idxs, nth_error ig g = Some idxs ->
  forall s p tail pt, idxs = p ++ s ->
  pushes_grouped (exec_groups E (group_keys d ig)) (map (@length nat) ig) tail = Some pt ->
  pushes_grouped (exec_groups E (group_keys d ig)) (map (@length nat) ig) (ge_group d g (length p) s ++ tail)
  = Some (flat_map (idx_pushes E d) s ++ pt).
Proof.
  intros E d ig g idxs Hg. induction s as [|x s IH]; intros p tail pt Hi Ht; cbn; auto.
  assert (Hi' : idxs = (p ++ [x]) ++ s) by (rewrite <- app_assoc; exact Hi).
  specialize (IH (p ++ [x]) tail pt Hi' Ht). rewrite app_length in IH. cbn in IH.
  replace (length p + 1)%nat with (S (length p)) in IH by lia.
  unfold idx_pushes at 1. destruct (nth_error d x) as [[k l]|] eqn:Hx.
  - cbn. rewrite (glookup_exec E d ig g idxs (length p) x k l Hg); auto.
    + rewrite IH. rewrite <- app_assoc. reflexivity.
    + rewrite Hi. rewrite nth_error_app2 by lia. rewrite Nat.sub_diag. reflexivity.
  - cbn. exact IH.
Qed.

Lemma pushes_grouped_all : forall E d ig suf pre, ig = pre ++ suf ->
  pushes_grouped (exec_groups E (group_keys d ig)) (map (@length nat) ig) (ge_all d (length pre) suf)
  = Some (flat_map (idx_pushes E d) (concat suf)).
Proof.
  intros E d ig. induction suf as [|idxs suf IH]; intros pre Hi; cbn; auto.
  assert (Hi' : ig = (pre ++ [idxs]) ++ suf) by (rewrite <- app_assoc; exact Hi).
  specialize (IH (pre ++ [idxs]) Hi'). rewrite app_length in IH. cbn in IH.
  replace (length pre + 1)%nat with (S (length pre)) in IH by lia.
  rewrite flat_map_app.
  apply (pushes_grouped_group E d ig (length pre) idxs) with (p := []); auto.
  rewrite Hi. rewrite nth_error_app2 by lia. rewrite Nat.sub_diag. reflexivity.
Qed.

Lemma flat_map_idx_seq : forall E d pre,
  flat_map (idx_pushes E (pre ++ d)) (seq (length pre) (length d)) = pushesE E d.
Proof.
  intros E. induction d as [|[k l] d IH]; intros pre; cbn; auto.
  unfold idx_pushes at 1. rewrite nth_error_app2 by lia. rewrite Nat.sub_diag. cbn.
  f_equal. specialize (IH (pre ++ [(k, l)])). rewrite <- app_assoc in IH. cbn in IH.
  rewrite app_length in IH. cbn in IH. replace (length pre + 1)%nat with (S (length pre)) in IH by lia.
  exact IH.
Qed.

Lemma flat_map_perm : forall {A B} (f : A -> list B) l l', Permutation l l' ->
  Permutation (flat_map f l) (flat_map f l').
Proof.
  intros A B f l l' H. induction H; cbn.
  - constructor.
  - apply Permutation_app_head; auto.
  - rewrite !app_assoc. apply Permutation_app_tail. apply Permutation_app_comm.
  - eapply Permutation_trans; eauto.
Qed.

Lemma grouped_same_lemma : forall (E : key -> Q) d ig offs,
  Permutation (concat ig) (seq 0 (length d)) ->
  exists v v',
    reassemble_grouped (ge_all d 0 ig) (exec_groups E (group_keys d ig)) (map (@length nat) ig) offs = Some v /\
    reassemble_nogroup d (map E (keys d)) offs = Some v' /\
    Forall2 Qeq v v'.
Proof.
  intros E d ig offs HP. unfold reassemble_grouped, reassemble_nogroup.
  pose proof (pushes_grouped_all E d ig ig [] eq_refl) as HG. cbn [length] in HG.
  rewrite HG. rewrite pushes_nogroup_map.
  do 2 eexists. split; [reflexivity|]. split; [reflexivity|].
  apply reasm_perm.
  eapply Permutation_trans; [apply flat_map_perm; exact HP|].
  rewrite <- (flat_map_idx_seq E d []). cbn. apply Permutation_refl.
Qed.

(* the executable partition test used in the correspondence implies the permutation hypothesis *)
Lemma count_pos_in : forall x l, count_nat x l = 1%nat -> In x l.
Proof.
  intros x l H. unfold count_nat in H.
  destruct (filter (Nat.eqb x) l) as [|y t] eqn:Hf; cbn in H; [discriminate|].
  assert (Hin : In y (filter (Nat.eqb x) l)) by (rewrite Hf; left; auto).
  apply filter_In in Hin as [Hin Hxy]. apply Nat.eqb_eq in Hxy. subst; auto.
Qed.

Lemma is_partition_perm : forall ig n, is_partition ig n = true -> Permutation (concat ig) (seq 0 n).
Proof.
  intros ig n H. unfold is_partition in H. apply andb_prop in H as [Hl Hc].
  apply Nat.eqb_eq in Hl. rewrite forallb_forall in Hc.
  apply Permutation_sym. apply NoDup_Permutation_bis.
  - apply seq_NoDup.
  - rewrite seq_length. lia.
  - intros x Hx. apply count_pos_in. apply Nat.eqb_eq. apply Hc. exact Hx.
Qed.

(* ------------------------------------------------------------------ broadcast *)
Lemma combine_map_self : forall {A B} (f : A -> B) l, combine l (map f l) = map (fun x => (x, f x)) l.
Proof. induction l; cbn; auto. f_equal; auto. Qed.

Lemma repeat_map_seq : forall {A} (a : A) n s, repeat a n = map (fun _ => a) (seq s n).
Proof. induction n; intros s; cbn; auto. f_equal; auto. Qed.

Lemma append_op_spec : forall done o B,
  append_op (map (fun b => map (slice_op b) done) (seq 0 B)) o
  = map (fun b => map (slice_op b) (done ++ [o])) (seq 0 B).
Proof.
  intros done o B. unfold append_op. rewrite map_length, seq_length.
  rewrite combine_map_self, map_map. apply map_ext. intros b. cbn. rewrite map_app. reflexivity.
Qed.

Lemma fold_append_spec : forall ops done B,
  fold_left append_op ops (map (fun b => map (slice_op b) done) (seq 0 B))
  = map (fun b => map (slice_op b) (done ++ ops)) (seq 0 B).
Proof.
  induction ops as [|o ops IH]; intros done B; cbn.
  - rewrite app_nil_r. reflexivity.
  - rewrite append_op_spec, IH, <- app_assoc. reflexivity.
Qed.

Lemma split_operations_spec : forall ops B,
  split_operations ops B = map (fun b => map (slice_op b) ops) (seq 0 B).
Proof.
  intros ops B. unfold split_operations. rewrite (repeat_map_seq (@nil sop) B 0).
  exact (fold_append_spec ops [] B).
Qed.

Lemma broadcast_roundtrip_lemma : forall {R} (def : R) (run : list sop -> list R) ops B nmeas,
  restack def nmeas (map run (split_operations ops B))
  = map (fun m => map (fun b => nth m (run (map (slice_op b) ops)) def) (seq 0 B)) (seq 0 nmeas).
Proof.
  intros R def run ops B nmeas. unfold restack. rewrite split_operations_spec.
  apply map_ext. intros m. rewrite !map_map. reflexivity.
Qed.
