(* Proofs about the ContextVar/heap model of the decomposition registries (CtxRegistryModel.v).

   Plan: the heap model (shared mutable objects reached through per-thread ContextVar values and
   reset tokens) is shown to refine a VALUE semantics in which every thread owns a private stack of
   registries (one per open local_decomps block) and there is one global registry.  The refinement
   invariant (R below: the addresses held by the threads are fresh, pairwise distinct, never 0) is
   preserved by every step of every thread, hence holds after every schedule, i.e. for all
   interleavings.  The clauses of the property are then proved on the value semantics and
   transported. *)
From Coq Require Import List ZArith Bool Arith Lia.
From PLV Require Import Disc.CtxRegistryModel.
Import ListNotations.

(* ------------------------------------------------------------------ value semantics *)
Definition reg := (dmap * fmap)%type.

(* effect of a call on the registry pair it is applied to *)
Definition apply_act (r : reg) (a : action) : reg :=
  match a with
  | AAdd op rs => (add_d (fst r) op rs, snd r)
  | AFix op x => (fst r, fix_f (snd r) op x)
  | _ => r
  end.

Record sstate := mkSS { sg : reg; sl : nat -> list reg }.

Definition stop (sp : sstate) (t : nat) : reg :=
  match sl sp t with r :: _ => r | [] => sg sp end.

Definition sstep (sp : sstate) (x : nat * action) : sstate :=
  let t := fst x in
  match snd x with
  | AEnter => mkSS (sg sp) (updN (sl sp) t (stop sp t :: sl sp t))
  | AExit | AExitExn => mkSS (sg sp) (updN (sl sp) t (tl (sl sp t)))
  | AAdd _ _ | AFix _ _ =>
      match sl sp t with
      | r :: rest => mkSS (sg sp) (updN (sl sp) t (apply_act r (snd x) :: rest))
      | [] => mkSS (apply_act (sg sp) (snd x)) (sl sp)
      end
  | AList _ | AListMut _ _ => sp
  end.

Definition srun (sp : sstate) (s : list (nat * action)) : sstate := fold_left sstep s sp.
Definition sinit (d0 : dmap) (f0 : fmap) : sstate := mkSS (d0, f0) (fun _ => []).

(* ------------------------------------------------------------------ observables of the heap model *)
Definition cell (st : state) (a : nat) : reg := (hd st a, hf st a).
(* the pair of registry objects thread t currently reaches through the two ContextVars *)
Definition seen (st : state) (t : nat) : reg :=
  (hd st (curd (thr st t)), hf st (curf (thr st t))).

Lemma view_of_seen st t op : view st t op = view_reg (fst (seen st t)) (snd (seen st t)) op.
Proof. reflexivity. Qed.

(* ------------------------------------------------------------------ schedule bookkeeping used in statements *)
(* the add/fix/list calls thread t makes at relative nesting depth 0 in s, provided t's
   enter/exit actions in s are well bracketed and t ends at relative depth 0 (d = current depth) *)
Fixpoint own_acts (t : nat) (d : nat) (s : list (nat * action)) : option (list action) :=
  match s with
  | [] => match d with O => Some [] | S _ => None end
  | (u, a) :: r =>
      if Nat.eqb u t then
        match a with
        | AEnter => own_acts t (S d) r
        | AExit | AExitExn => match d with O => None | S d' => own_acts t d' r end
        | _ => match d with
               | O => match own_acts t 0 r with Some l => Some (a :: l) | None => None end
               | S _ => own_acts t d r
               end
        end
      else own_acts t d r
  end.

(* the calls made by threads that are outside every local context (dep = current depth per thread) *)
Fixpoint global_acts (dep : nat -> nat) (s : list (nat * action)) : list action :=
  match s with
  | [] => []
  | (t, a) :: r =>
      match a with
      | AEnter => global_acts (updN dep t (S (dep t))) r
      | AExit | AExitExn => global_acts (updN dep t (pred (dep t))) r
      | _ => if Nat.eqb (dep t) 0 then a :: global_acts dep r else global_acts dep r
      end
  end.

Definition others (t : nat) (s : list (nat * action)) : list (nat * action) :=
  filter (fun y => negb (Nat.eqb (fst y) t)) s.

Definition bracket_or_list (a : action) : bool :=
  match a with AAdd _ _ | AFix _ _ => false | _ => true end.

(* ------------------------------------------------------------------ small facts *)
Lemma updN_same {A} (f : nat -> A) k v : updN f k v k = v.
Proof. unfold updN. now rewrite Nat.eqb_refl. Qed.

Lemma updN_other {A} (f : nat -> A) k v j : j <> k -> updN f k v j = f j.
Proof.
  intros H. unfold updN. destruct (Nat.eqb j k) eqn:E; [apply Nat.eqb_eq in E; contradiction | reflexivity].
Qed.

Definition dup (a : nat) : nat * nat := (a, a).

(* ------------------------------------------------------------------ the refinement invariant *)
Record R (st : state) (sp : sstate) (own : nat -> list nat) : Prop := mkR {
  R_stack : forall t, (curd (thr st t), curf (thr st t)) :: toks (thr st t) = map dup (own t) ++ [(0, 0)];
  R_range : forall t a, In a (own t) -> 0 < a < next st;
  R_nodup : forall t, NoDup (own t);
  R_disj : forall t u a, In a (own t) -> In a (own u) -> t = u;
  R_loc : forall t, map (cell st) (own t) = sl sp t;
  R_glob : cell st 0 = sg sp;
  R_next : 0 < next st
}.

Lemma R_init d0 f0 : R (init_state d0 f0) (sinit d0 f0) (fun _ => []).
Proof. constructor; simpl; intros; try contradiction; try constructor; auto. Qed.

Lemma stack_shape st sp own t : R st sp own ->
  (own t = [] /\ curd (thr st t) = 0 /\ curf (thr st t) = 0 /\ toks (thr st t) = [] /\ sl sp t = []) \/
  (exists a l, own t = a :: l /\ curd (thr st t) = a /\ curf (thr st t) = a /\
               toks (thr st t) = map dup l ++ [(0, 0)] /\
               sl sp t = cell st a :: map (cell st) l /\ 0 < a < next st /\ ~ In a l).
Proof.
  intros HR. pose proof (R_stack _ _ _ HR t) as Hs. pose proof (R_loc _ _ _ HR t) as Hl.
  pose proof (R_nodup _ _ _ HR t) as Hn. pose proof (R_range _ _ _ HR t) as Hr.
  destruct (own t) as [|a l] eqn:E.
  - left. simpl in Hs. inversion Hs. simpl in Hl. auto.
  - right. exists a, l. simpl in Hs. unfold dup at 1 in Hs.
    assert (H1 : curd (thr st t) = a) by congruence.
    assert (H2 : curf (thr st t) = a) by congruence.
    assert (H3 : toks (thr st t) = map dup l ++ [(0, 0)]) by congruence.
    assert (H4 : ~ In a l) by (inversion Hn; assumption).
    assert (H5 : 0 < a < next st) by (apply Hr; left; reflexivity).
    simpl in Hl. symmetry in Hl. tauto.
Qed.

Lemma map_cell_ext st st' l :
  (forall a, In a l -> cell st' a = cell st a) -> map (cell st') l = map (cell st) l.
Proof. intros H. apply map_ext_in. exact H. Qed.

Lemma seen_stop st sp own t : R st sp own -> seen st t = stop sp t.
Proof.
  intros HR. destruct (stack_shape _ _ _ t HR) as [(_ & Hd & Hf & _ & Hl) | (a & l & _ & Hd & Hf & _ & Hl & _)];
    unfold seen, stop; rewrite Hd, Hf, Hl.
  - exact (R_glob _ _ _ HR).
  - reflexivity.
Qed.

Lemma depth_len st sp own t : R st sp own -> depth st t = length (sl sp t).
Proof.
  intros HR. unfold depth.
  destruct (stack_shape _ _ _ t HR) as [(_ & _ & _ & Ht & Hl) | (a & l & _ & _ & _ & Ht & Hl & _)];
    rewrite Ht, Hl; simpl; auto.
  rewrite app_length, !map_length. simpl. lia.
Qed.

(* ------------------------------------------------------------------ one step preserves the invariant *)
Lemma R_step st sp own x : R st sp own -> exists own', R (step st x) (sstep sp x) own'.
Proof.
  intros HR. destruct x as [t a].
  pose proof (R_range _ _ _ HR) as Hrg. pose proof (R_nodup _ _ _ HR) as Hnd.
  pose proof (R_disj _ _ _ HR) as Hdj. pose proof (R_loc _ _ _ HR) as Hloc.
  pose proof (R_glob _ _ _ HR) as Hgl. pose proof (R_next _ _ _ HR) as Hnx.
  pose proof (R_stack _ _ _ HR) as Hst.
  destruct a as [ | | | op rs | op r | op | op r].
  - (* AEnter *)
    exists (updN own t (next st :: own t)).
    assert (Hfresh : forall u, ~ In (next st) (own u)).
    { intros u Hin. apply Hrg in Hin. lia. }
    assert (Hcell : forall b, b <> next st ->
              cell (step st (t, AEnter)) b = cell st b).
    { intros b Hb. unfold cell, step; simpl. rewrite !updN_other by exact Hb. reflexivity. }
    constructor; simpl.
    + intros u. destruct (Nat.eq_dec u t) as [->|Hne].
      * rewrite !updN_same. simpl. rewrite Hst. reflexivity.
      * rewrite !updN_other by exact Hne. apply Hst.
    + intros u b. destruct (Nat.eq_dec u t) as [->|Hne].
      * rewrite updN_same. intros [<-|Hin]; [lia|]. apply Hrg in Hin. lia.
      * rewrite updN_other by exact Hne. intros Hin. apply Hrg in Hin. lia.
    + intros u. destruct (Nat.eq_dec u t) as [->|Hne].
      * rewrite updN_same. constructor; [apply Hfresh | apply Hnd].
      * rewrite updN_other by exact Hne. apply Hnd.
    + intros u v b. destruct (Nat.eq_dec u t) as [->|Hne]; destruct (Nat.eq_dec v t) as [->|Hne'];
        rewrite ?updN_same; rewrite ?updN_other by assumption; auto.
      * intros [<-|Hin] Hin'; [exfalso; eapply Hfresh; eauto | eauto].
      * intros Hin [<-|Hin']; [exfalso; eapply Hfresh; eauto | eauto].
      * intros; eauto.
    + intros u.
      assert (Hmap : forall w, map (cell (step st (t, AEnter))) (own w) = map (cell st) (own w)).
      { intros w. apply map_cell_ext. intros b Hb. apply Hcell. intros ->. eapply Hfresh; eauto. }
      destruct (Nat.eq_dec u t) as [->|Hne].
      * rewrite !updN_same. simpl map. fold (step st (t, AEnter)). rewrite Hmap, Hloc. f_equal.
        unfold cell at 1; simpl. rewrite !updN_same.
        change (seen st t = stop sp t). eapply seen_stop; eauto.
      * rewrite !updN_other by exact Hne. fold (step st (t, AEnter)). rewrite Hmap. apply Hloc.
    + fold (step st (t, AEnter)). rewrite Hcell by lia. exact Hgl.
    + lia.
  - (* AExit *)
    destruct (stack_shape _ _ _ t HR) as [(Ho & Hd & Hf & Ht & Hl) | (a & l & Ho & Hd & Hf & Ht & Hl & Ha & Hnin)].
    + exists own. unfold step, sstep; simpl. rewrite Ht.
      constructor; simpl; auto.
      intros u. destruct (Nat.eq_dec u t) as [->|Hne].
      * rewrite updN_same, Hl, Hloc, Hl. reflexivity.
      * rewrite updN_other by exact Hne. apply Hloc.
    + exists (updN own t l). unfold step, sstep; simpl.
      destruct (toks (thr st t)) as [|[d f] r] eqn:Et.
      { symmetry in Ht. apply app_eq_nil in Ht. destruct Ht as [_ Ht]. discriminate. }
      assert (Hsub : forall u b, In b (updN own t l u) -> In b (own u)).
      { intros u b. destruct (Nat.eq_dec u t) as [->|Hne].
        - rewrite updN_same, Ho. intros; right; assumption.
        - rewrite updN_other by exact Hne. auto. }
      constructor; simpl; auto.
      * intros u. destruct (Nat.eq_dec u t) as [->|Hne].
        -- rewrite !updN_same. simpl. exact Ht.
        -- rewrite !updN_other by exact Hne. apply Hst.
      * intros u b Hin. apply (Hrg u). auto.
      * intros u. destruct (Nat.eq_dec u t) as [->|Hne].
        -- rewrite updN_same. specialize (Hnd t). rewrite Ho in Hnd. inversion Hnd; assumption.
        -- rewrite updN_other by exact Hne. apply Hnd.
      * intros u v b Hu Hv. eapply Hdj; eauto.
      * intros u. destruct (Nat.eq_dec u t) as [->|Hne].
        -- rewrite !updN_same, Hl. reflexivity.
        -- rewrite !updN_other by exact Hne. apply Hloc.
  - (* AExitExn: same transition *)
    destruct (stack_shape _ _ _ t HR) as [(Ho & Hd & Hf & Ht & Hl) | (a & l & Ho & Hd & Hf & Ht & Hl & Ha & Hnin)].
    + exists own. unfold step, sstep; simpl. rewrite Ht.
      constructor; simpl; auto.
      intros u. destruct (Nat.eq_dec u t) as [->|Hne].
      * rewrite updN_same, Hl, Hloc, Hl. reflexivity.
      * rewrite updN_other by exact Hne. apply Hloc.
    + exists (updN own t l). unfold step, sstep; simpl.
      destruct (toks (thr st t)) as [|[d f] r] eqn:Et.
      { symmetry in Ht. apply app_eq_nil in Ht. destruct Ht as [_ Ht]. discriminate. }
      assert (Hsub : forall u b, In b (updN own t l u) -> In b (own u)).
      { intros u b. destruct (Nat.eq_dec u t) as [->|Hne].
        - rewrite updN_same, Ho. intros; right; assumption.
        - rewrite updN_other by exact Hne. auto. }
      constructor; simpl; auto.
      * intros u. destruct (Nat.eq_dec u t) as [->|Hne].
        -- rewrite !updN_same. simpl. exact Ht.
        -- rewrite !updN_other by exact Hne. apply Hst.
      * intros u b Hin. apply (Hrg u). auto.
      * intros u. destruct (Nat.eq_dec u t) as [->|Hne].
        -- rewrite updN_same. specialize (Hnd t). rewrite Ho in Hnd. inversion Hnd; assumption.
        -- rewrite updN_other by exact Hne. apply Hnd.
      * intros u v b Hu Hv. eapply Hdj; eauto.
      * intros u. destruct (Nat.eq_dec u t) as [->|Hne].
        -- rewrite !updN_same, Hl. reflexivity.
        -- rewrite !updN_other by exact Hne. apply Hloc.
  - (* AAdd *)
    exists own.
    destruct (stack_shape _ _ _ t HR) as [(Ho & Hd & Hf & Ht & Hl) | (a & l & Ho & Hd & Hf & Ht & Hl & Ha & Hnin)].
    + (* outside every context: the global object is mutated *)
      assert (Hcell : forall b, b <> 0 -> cell (step st (t, AAdd op rs)) b = cell st b).
      { intros b Hb. unfold cell, step; simpl. rewrite Hd. rewrite updN_other by exact Hb. reflexivity. }
      unfold sstep; simpl. rewrite Hl.
      constructor; simpl; auto.
      * intros u. fold (step st (t, AAdd op rs)). rewrite <- Hloc. apply map_cell_ext.
        intros b Hb. apply Hcell. apply Hrg in Hb. lia.
      * unfold cell; simpl. rewrite Hd, updN_same. rewrite <- Hgl. reflexivity.
    + assert (Hcell : forall b, b <> a -> cell (step st (t, AAdd op rs)) b = cell st b).
      { intros b Hb. unfold cell, step; simpl. rewrite Hd. rewrite updN_other by exact Hb. reflexivity. }
      assert (Hcella : cell (step st (t, AAdd op rs)) a = apply_act (cell st a) (AAdd op rs)).
      { unfold cell, step; simpl. rewrite Hd, updN_same. reflexivity. }
      unfold sstep; simpl. rewrite Hl.
      constructor; simpl; auto.
      * intros u. fold (step st (t, AAdd op rs)). destruct (Nat.eq_dec u t) as [->|Hne].
        -- rewrite updN_same, Ho. simpl map. rewrite Hcella. f_equal.
           apply map_cell_ext. intros b Hb. apply Hcell. intros ->. contradiction.
        -- rewrite updN_other by exact Hne. rewrite <- Hloc. apply map_cell_ext.
           intros b Hb. apply Hcell. intros ->. apply Hne. eapply Hdj; eauto. rewrite Ho. left; reflexivity.
      * fold (step st (t, AAdd op rs)). rewrite Hcell by lia. exact Hgl.
  - (* AFix *)
    exists own.
    destruct (stack_shape _ _ _ t HR) as [(Ho & Hd & Hf & Ht & Hl) | (a & l & Ho & Hd & Hf & Ht & Hl & Ha & Hnin)].
    + assert (Hcell : forall b, b <> 0 -> cell (step st (t, AFix op r)) b = cell st b).
      { intros b Hb. unfold cell, step; simpl. rewrite Hf. rewrite updN_other by exact Hb. reflexivity. }
      unfold sstep; simpl. rewrite Hl.
      constructor; simpl; auto.
      * intros u. fold (step st (t, AFix op r)). rewrite <- Hloc. apply map_cell_ext.
        intros b Hb. apply Hcell. apply Hrg in Hb. lia.
      * unfold cell; simpl. rewrite Hf, updN_same. rewrite <- Hgl. reflexivity.
    + assert (Hcell : forall b, b <> a -> cell (step st (t, AFix op r)) b = cell st b).
      { intros b Hb. unfold cell, step; simpl. rewrite Hf. rewrite updN_other by exact Hb. reflexivity. }
      assert (Hcella : cell (step st (t, AFix op r)) a = apply_act (cell st a) (AFix op r)).
      { unfold cell, step; simpl. rewrite Hf, updN_same. reflexivity. }
      unfold sstep; simpl. rewrite Hl.
      constructor; simpl; auto.
      * intros u. fold (step st (t, AFix op r)). destruct (Nat.eq_dec u t) as [->|Hne].
        -- rewrite updN_same, Ho. simpl map. rewrite Hcella. f_equal.
           apply map_cell_ext. intros b Hb. apply Hcell. intros ->. contradiction.
        -- rewrite updN_other by exact Hne. rewrite <- Hloc. apply map_cell_ext.
           intros b Hb. apply Hcell. intros ->. apply Hne. eapply Hdj; eauto. rewrite Ho. left; reflexivity.
      * fold (step st (t, AFix op r)). rewrite Hcell by lia. exact Hgl.
  - exists own. exact HR.
  - exists own. exact HR.
Qed.

Lemma R_run_from s : forall st sp own, R st sp own -> exists own', R (run_from st s) (srun sp s) own'.
Proof.
  induction s as [|x s IH]; intros st sp own HR.
  - exists own. exact HR.
  - destruct (R_step _ _ _ x HR) as [own1 H1]. exact (IH _ _ _ H1).
Qed.

Lemma R_run d0 f0 s : exists own, R (run d0 f0 s) (srun (sinit d0 f0) s) own.
Proof. exact (R_run_from s _ _ _ (R_init d0 f0)). Qed.

(* the heap model refines the private-stack semantics: for EVERY schedule and every thread *)
Lemma refinement d0 f0 s t : seen (run d0 f0 s) t = stop (srun (sinit d0 f0) s) t.
Proof. destruct (R_run d0 f0 s) as [own HR]. eapply seen_stop; eauto. Qed.

Lemma refinement_depth d0 f0 s t : depth (run d0 f0 s) t = length (sl (srun (sinit d0 f0) s) t).
Proof. destruct (R_run d0 f0 s) as [own HR]. eapply depth_len; eauto. Qed.

Lemma refinement_global d0 f0 s : cell (run d0 f0 s) 0 = sg (srun (sinit d0 f0) s).
Proof. destruct (R_run d0 f0 s) as [own HR]. exact (R_glob _ _ _ HR). Qed.

Lemma run_app d0 f0 s1 s2 : run d0 f0 (s1 ++ s2) = run_from (run d0 f0 s1) s2.
Proof. unfold run, run_from. apply fold_left_app. Qed.

Lemma srun_app sp s1 s2 : srun sp (s1 ++ s2) = srun (srun sp s1) s2.
Proof. unfold srun. apply fold_left_app. Qed.

(* ------------------------------------------------------------------ facts about the value semantics *)
Lemma sstep_sl_other sp t a u : u <> t -> sl (sstep sp (t, a)) u = sl sp u.
Proof.
  intros Hne. unfold sstep; simpl. destruct a; simpl; try (rewrite updN_other by exact Hne); auto;
    destruct (sl sp t); simpl; try (rewrite updN_other by exact Hne); auto.
Qed.

Lemma sstep_sg_local sp t a : (bracket_or_list a = true \/ sl sp t <> []) -> sg (sstep sp (t, a)) = sg sp.
Proof.
  intros H. unfold sstep; simpl. destruct a; simpl; auto; destruct (sl sp t); simpl; auto;
    destruct H as [H|H]; try discriminate; contradiction.
Qed.

Lemma sstep_stop_other sp t a u : u <> t -> (bracket_or_list a = true \/ sl sp t <> []) ->
  stop (sstep sp (t, a)) u = stop sp u.
Proof.
  intros Hne H. unfold stop. rewrite sstep_sl_other by exact Hne. rewrite sstep_sg_local by exact H. reflexivity.
Qed.

Lemma srun_sl_others t s : forall sp, (forall y, In y s -> fst y <> t) -> sl (srun sp s) t = sl sp t.
Proof.
  induction s as [|[u a] s IH]; intros sp H; simpl; auto.
  rewrite IH by (intros y Hy; apply H; right; exact Hy).
  apply sstep_sl_other. intros Heq. apply (H (u, a)); [left; reflexivity | simpl; congruence].
Qed.

Lemma others_not t s : forall y, In y (others t s) -> fst y <> t.
Proof.
  intros y Hy. unfold others in Hy. apply filter_In in Hy. destruct Hy as [_ Hy].
  apply negb_true_iff in Hy. apply Nat.eqb_neq in Hy. exact Hy.
Qed.

(* own history, value semantics *)
Lemma own_history_spec t s : forall sp d l extra r base,
  sl sp t = extra ++ r :: base -> length extra = d -> own_acts t d s = Some l ->
  sl (srun sp s) t = fold_left apply_act l r :: base.
Proof.
  induction s as [|[u a] s IH]; intros sp d l extra r base Hsl Hlen Hown.
  - simpl in Hown. destruct d; [|discriminate]. inversion Hown; subst.
    destruct extra; [|discriminate]. simpl in *. exact Hsl.
  - simpl in Hown. simpl srun. destruct (Nat.eqb u t) eqn:E.
    + apply Nat.eqb_eq in E. subst u.
      destruct a as [ | | | op rs | op x | op | op x].
      * (* AEnter *)
        eapply (IH _ (S d) l (stop sp t :: extra) r base); [|simpl; lia|exact Hown].
        unfold sstep; simpl. rewrite updN_same, Hsl. reflexivity.
      * destruct d as [|d']; [discriminate|]. destruct extra as [|e extra']; [discriminate|].
        eapply (IH _ d' l extra' r base); [|simpl in Hlen; lia|exact Hown].
        unfold sstep; simpl. rewrite updN_same, Hsl. reflexivity.
      * destruct d as [|d']; [discriminate|]. destruct extra as [|e extra']; [discriminate|].
        eapply (IH _ d' l extra' r base); [|simpl in Hlen; lia|exact Hown].
        unfold sstep; simpl. rewrite updN_same, Hsl. reflexivity.
      * destruct d as [|d'].
        -- destruct extra; [|discriminate]. simpl in Hsl.
           destruct (own_acts t 0 s) as [l'|] eqn:El; [|discriminate]. inversion Hown; subst l.
           simpl fold_left.
           eapply (IH _ 0 l' [] (apply_act r (AAdd op rs)) base); [|reflexivity|exact El].
           unfold sstep; simpl. rewrite Hsl. simpl. rewrite updN_same. reflexivity.
        -- destruct extra as [|e extra']; [discriminate|].
           eapply (IH _ (S d') l (apply_act e (AAdd op rs) :: extra') r base); [|simpl in *; lia|exact Hown].
           unfold sstep; simpl. rewrite Hsl. simpl. rewrite updN_same. reflexivity.
      * destruct d as [|d'].
        -- destruct extra; [|discriminate]. simpl in Hsl.
           destruct (own_acts t 0 s) as [l'|] eqn:El; [|discriminate]. inversion Hown; subst l.
           simpl fold_left.
           eapply (IH _ 0 l' [] (apply_act r (AFix op x)) base); [|reflexivity|exact El].
           unfold sstep; simpl. rewrite Hsl. simpl. rewrite updN_same. reflexivity.
        -- destruct extra as [|e extra']; [discriminate|].
           eapply (IH _ (S d') l (apply_act e (AFix op x) :: extra') r base); [|simpl in *; lia|exact Hown].
           unfold sstep; simpl. rewrite Hsl. simpl. rewrite updN_same. reflexivity.
      * destruct d as [|d'].
        -- destruct (own_acts t 0 s) as [l'|] eqn:El; [|discriminate]. inversion Hown; subst l.
           simpl fold_left. eapply (IH _ 0 l' extra r base); eauto.
        -- eapply (IH _ (S d') l extra r base); eauto.
      * destruct d as [|d'].
        -- destruct (own_acts t 0 s) as [l'|] eqn:El; [|discriminate]. inversion Hown; subst l.
           simpl fold_left. eapply (IH _ 0 l' extra r base); eauto.
        -- eapply (IH _ (S d') l extra r base); eauto.
    + apply Nat.eqb_neq in E.
      eapply (IH _ d l extra r base); [|exact Hlen|exact Hown].
      rewrite sstep_sl_other by (intros ->; apply E; reflexivity). exact Hsl.
Qed.

(* global registry, value semantics *)
Lemma global_spec s : forall sp dep, (forall t, length (sl sp t) = dep t) ->
  sg (srun sp s) = fold_left apply_act (global_acts dep s) (sg sp).
Proof.
  induction s as [|[t a] s IH]; intros sp dep Hd; simpl; auto.
  assert (Hnil : dep t = 0 -> sl sp t = []).
  { intros H. rewrite <- Hd in H. destruct (sl sp t); [reflexivity|discriminate]. }
  assert (Hcons : dep t <> 0 -> exists r rest, sl sp t = r :: rest).
  { intros H. rewrite <- Hd in H. destruct (sl sp t) as [|r rest]; [contradiction|eauto]. }
  destruct a as [ | | | op rs | op x | op | op x].
  - rewrite (IH _ (updN dep t (S (dep t)))); [reflexivity|].
    intros u. unfold sstep; simpl. destruct (Nat.eq_dec u t) as [->|Hne].
    + rewrite !updN_same. simpl. rewrite Hd. reflexivity.
    + rewrite !updN_other by exact Hne. apply Hd.
  - rewrite (IH _ (updN dep t (pred (dep t)))); [reflexivity|].
    intros u. unfold sstep; simpl. destruct (Nat.eq_dec u t) as [->|Hne].
    + rewrite !updN_same. rewrite <- Hd. destruct (sl sp t); reflexivity.
    + rewrite !updN_other by exact Hne. apply Hd.
  - rewrite (IH _ (updN dep t (pred (dep t)))); [reflexivity|].
    intros u. unfold sstep; simpl. destruct (Nat.eq_dec u t) as [->|Hne].
    + rewrite !updN_same. rewrite <- Hd. destruct (sl sp t); reflexivity.
    + rewrite !updN_other by exact Hne. apply Hd.
  - destruct (Nat.eqb (dep t) 0) eqn:E.
    + apply Nat.eqb_eq in E. rewrite (IH _ dep); unfold sstep; simpl; rewrite (Hnil E); simpl; auto.
    + apply Nat.eqb_neq in E. destruct (Hcons E) as (r & rest & Hs). rewrite (IH _ dep); unfold sstep; simpl; rewrite Hs; simpl; auto.
      intros u. destruct (Nat.eq_dec u t) as [->|Hne].
      * rewrite updN_same. simpl. rewrite <- Hd, Hs. reflexivity.
      * rewrite updN_other by exact Hne. apply Hd.
  - destruct (Nat.eqb (dep t) 0) eqn:E.
    + apply Nat.eqb_eq in E. rewrite (IH _ dep); unfold sstep; simpl; rewrite (Hnil E); simpl; auto.
    + apply Nat.eqb_neq in E. destruct (Hcons E) as (r & rest & Hs). rewrite (IH _ dep); unfold sstep; simpl; rewrite Hs; simpl; auto.
      intros u. destruct (Nat.eq_dec u t) as [->|Hne].
      * rewrite updN_same. simpl. rewrite <- Hd, Hs. reflexivity.
      * rewrite updN_other by exact Hne. apply Hd.
  - destruct (Nat.eqb (dep t) 0); rewrite (IH _ dep) by exact Hd; reflexivity.
  - destruct (Nat.eqb (dep t) 0); rewrite (IH _ dep) by exact Hd; reflexivity.
Qed.

(* an enter..exit episode of t versus the same schedule without t's actions *)
Definition Q (t : nat) (sp sp' : sstate) (extra : list reg) : Prop :=
  sg sp = sg sp' /\ (forall u, u <> t -> sl sp u = sl sp' u) /\ sl sp t = extra ++ sl sp' t.

Lemma Q_other_step t sp sp' extra u a : u <> t -> Q t sp sp' extra ->
  Q t (sstep sp (u, a)) (sstep sp' (u, a)) extra.
Proof.
  intros Hne (Hg & Ho & Ht).
  assert (Hu : sl sp u = sl sp' u) by (apply Ho; exact Hne).
  assert (Hs : stop sp u = stop sp' u) by (unfold stop; rewrite Hu, Hg; reflexivity).
  assert (Ht' : forall b, sl (sstep sp (u, b)) t = extra ++ sl (sstep sp' (u, b)) t).
  { intros b. rewrite !sstep_sl_other by (intros ->; apply Hne; reflexivity). exact Ht. }
  split; [|split].
  - unfold sstep; simpl. destruct a; simpl; auto; rewrite Hu; destruct (sl sp' u); simpl; auto; rewrite Hg; reflexivity.
  - intros v Hv. destruct (Nat.eq_dec v u) as [->|Hvu].
    + unfold sstep; simpl. destruct a; simpl; rewrite ?updN_same; rewrite ?Hu, ?Hs; auto;
        destruct (sl sp' u); simpl; rewrite ?updN_same; auto.
    + rewrite !sstep_sl_other by exact Hvu. apply Ho. exact Hv.
  - apply Ht'.
Qed.

Lemma episode_spec t s : forall sp sp' extra d l,
  Q t sp sp' extra -> length extra = S d -> own_acts t d s = Some l ->
  exists e, Q t (srun sp s) (srun sp' (others t s)) [e].
Proof.
  induction s as [|[u a] s IH]; intros sp sp' extra d l HQ Hlen Hown.
  - simpl in Hown. destruct d; [|discriminate].
    destruct extra as [|e [|? ?]]; try discriminate. exists e. exact HQ.
  - simpl in Hown. simpl. destruct (Nat.eqb u t) eqn:E; simpl.
    + apply Nat.eqb_eq in E. subst u.
      destruct HQ as (Hg & Ho & Ht).
      destruct extra as [|e extra']; [discriminate|].
      assert (Hkeep : forall sl1, sl (sstep sp (t, a)) t = sl1 ++ sl sp' t ->
                sg (sstep sp (t, a)) = sg sp -> Q t (sstep sp (t, a)) sp' sl1).
      { intros sl1 H1 H2. split; [rewrite H2; exact Hg|split; [|exact H1]].
        intros v Hv. rewrite sstep_sl_other by exact Hv. apply Ho. exact Hv. }
      assert (Hsg : sg (sstep sp (t, a)) = sg sp).
      { apply sstep_sg_local. right. rewrite Ht. discriminate. }
      destruct a as [ | | | op rs | op x | op | op x].
      * eapply (IH _ _ (stop sp t :: e :: extra') (S d) l); [apply Hkeep; [|exact Hsg]|simpl in *; lia|exact Hown].
        unfold sstep; simpl. rewrite updN_same, Ht. reflexivity.
      * destruct d as [|d']; [discriminate|].
        eapply (IH _ _ extra' d' l); [apply Hkeep; [|exact Hsg]|simpl in *; lia|exact Hown].
        unfold sstep; simpl. rewrite updN_same, Ht. reflexivity.
      * destruct d as [|d']; [discriminate|].
        eapply (IH _ _ extra' d' l); [apply Hkeep; [|exact Hsg]|simpl in *; lia|exact Hown].
        unfold sstep; simpl. rewrite updN_same, Ht. reflexivity.
      * assert (Hq : Q t (sstep sp (t, AAdd op rs)) sp' (apply_act e (AAdd op rs) :: extra')).
        { apply Hkeep; [|exact Hsg]. unfold sstep; simpl. rewrite Ht. simpl. rewrite updN_same. reflexivity. }
        destruct d as [|d'].
        -- destruct (own_acts t 0 s) as [l'|] eqn:El; [|discriminate].
           eapply (IH _ _ _ 0 l'); [exact Hq|simpl in *; lia|exact El].
        -- eapply (IH _ _ _ (S d') l); [exact Hq|simpl in *; lia|exact Hown].
      * assert (Hq : Q t (sstep sp (t, AFix op x)) sp' (apply_act e (AFix op x) :: extra')).
        { apply Hkeep; [|exact Hsg]. unfold sstep; simpl. rewrite Ht. simpl. rewrite updN_same. reflexivity. }
        destruct d as [|d'].
        -- destruct (own_acts t 0 s) as [l'|] eqn:El; [|discriminate].
           eapply (IH _ _ _ 0 l'); [exact Hq|simpl in *; lia|exact El].
        -- eapply (IH _ _ _ (S d') l); [exact Hq|simpl in *; lia|exact Hown].
      * assert (Hq : Q t (sstep sp (t, AList op)) sp' (e :: extra')) by (split; [exact Hg|split; [exact Ho|exact Ht]]).
        destruct d as [|d'].
        -- destruct (own_acts t 0 s) as [l'|] eqn:El; [|discriminate].
           eapply (IH _ _ _ 0 l'); [exact Hq|simpl in *; lia|exact El].
        -- eapply (IH _ _ _ (S d') l); [exact Hq|simpl in *; lia|exact Hown].
      * assert (Hq : Q t (sstep sp (t, AListMut op x)) sp' (e :: extra')) by (split; [exact Hg|split; [exact Ho|exact Ht]]).
        destruct d as [|d'].
        -- destruct (own_acts t 0 s) as [l'|] eqn:El; [|discriminate].
           eapply (IH _ _ _ 0 l'); [exact Hq|simpl in *; lia|exact El].
        -- eapply (IH _ _ _ (S d') l); [exact Hq|simpl in *; lia|exact Hown].
    + apply Nat.eqb_neq in E.
      eapply (IH _ _ extra d l); [|exact Hlen|exact Hown].
      apply Q_other_step; [exact E|exact HQ].
Qed.

(* ------------------------------------------------------------------ the clauses, on the heap model *)
Lemma L_view_is_own_history d0 f0 s1 s2 t l :
  own_acts t 0 s2 = Some l ->
  seen (run d0 f0 (s1 ++ (t, AEnter) :: s2)) t = fold_left apply_act l (seen (run d0 f0 s1) t).
Proof.
  intros Hown. rewrite !refinement.
  replace (s1 ++ (t, AEnter) :: s2) with ((s1 ++ [(t, AEnter)]) ++ s2) by (rewrite <- app_assoc; reflexivity).
  rewrite !srun_app. set (sp1 := srun (sinit d0 f0) s1).
  unfold stop at 1.
  rewrite (own_history_spec t s2 _ 0 l [] (stop sp1 t) (sl sp1 t)); auto.
  simpl. unfold sstep; simpl. rewrite updN_same. reflexivity.
Qed.

Lemma L_no_leak_global d0 f0 s :
  cell (run d0 f0 s) 0 = fold_left apply_act (global_acts (fun _ => 0) s) (d0, f0).
Proof.
  rewrite refinement_global. rewrite (global_spec s _ (fun _ => 0)); [reflexivity|].
  intros t. reflexivity.
Qed.

Lemma L_outside_sees_global d0 f0 s t : depth (run d0 f0 s) t = 0 ->
  seen (run d0 f0 s) t = fold_left apply_act (global_acts (fun _ => 0) s) (d0, f0).
Proof.
  intros Hd. rewrite <- L_no_leak_global. rewrite refinement, refinement_global.
  rewrite refinement_depth in Hd. unfold stop. destruct (sl (srun (sinit d0 f0) s) t); [reflexivity|discriminate].
Qed.

Lemma L_episode_invisible d0 f0 s1 s2 t l x u :
  own_acts t 0 s2 = Some l -> (x = AExit \/ x = AExitExn) ->
  seen (run d0 f0 (s1 ++ (t, AEnter) :: s2 ++ [(t, x)])) u = seen (run d0 f0 (s1 ++ others t s2)) u.
Proof.
  intros Hown Hx. rewrite !refinement.
  replace (s1 ++ (t, AEnter) :: s2 ++ [(t, x)]) with (((s1 ++ [(t, AEnter)]) ++ s2) ++ [(t, x)])
    by (rewrite <- !app_assoc; reflexivity).
  rewrite !srun_app. set (sp1 := srun (sinit d0 f0) s1).
  change (srun sp1 [(t, AEnter)]) with (sstep sp1 (t, AEnter)).
  assert (HQ0 : Q t (sstep sp1 (t, AEnter)) sp1 [stop sp1 t]).
  { split; [reflexivity|split].
    - intros v Hv. apply sstep_sl_other. exact Hv.
    - unfold sstep; simpl. rewrite updN_same. reflexivity. }
  destruct (episode_spec t s2 _ _ _ 0 l HQ0 eq_refl Hown) as (e & Hg & Ho & Ht).
  set (spA := srun (sstep sp1 (t, AEnter)) s2) in *. set (spB := srun sp1 (others t s2)) in *.
  change (srun spA [(t, x)]) with (sstep spA (t, x)).
  assert (Hsl : forall v, sl (sstep spA (t, x)) v = sl spB v).
  { intros v. destruct (Nat.eq_dec v t) as [->|Hv].
    - unfold sstep; simpl. destruct Hx as [-> | ->]; simpl; rewrite updN_same, Ht; reflexivity.
    - rewrite sstep_sl_other by exact Hv. apply Ho. exact Hv. }
  assert (Hsg : sg (sstep spA (t, x)) = sg spB).
  { rewrite sstep_sg_local; [exact Hg|]. left. destruct Hx as [-> | ->]; reflexivity. }
  unfold stop. rewrite Hsl, Hsg. reflexivity.
Qed.

Lemma L_exit_restores_nested d0 f0 s1 s2 t l x :
  own_acts t 0 s2 = Some l -> (x = AExit \/ x = AExitExn) -> 1 <= depth (run d0 f0 s1) t ->
  seen (run d0 f0 (s1 ++ (t, AEnter) :: s2 ++ [(t, x)])) t = seen (run d0 f0 s1) t.
Proof.
  intros Hown Hx Hd. rewrite (L_episode_invisible _ _ _ _ _ l) by assumption.
  rewrite !refinement. rewrite refinement_depth in Hd. rewrite srun_app.
  unfold stop. rewrite (srun_sl_others t) by apply others_not.
  destruct (sl (srun (sinit d0 f0) s1) t); [simpl in Hd; lia|reflexivity].
Qed.

Lemma L_other_threads_unaffected d0 f0 s t u a : u <> t ->
  (bracket_or_list a = true \/ 1 <= depth (run d0 f0 s) t) ->
  seen (step (run d0 f0 s) (t, a)) u = seen (run d0 f0 s) u.
Proof.
  intros Hne H.
  change (step (run d0 f0 s) (t, a)) with (run_from (run d0 f0 s) [(t, a)]). rewrite <- run_app.
  rewrite !refinement, srun_app. simpl. apply sstep_stop_other; [exact Hne|].
  destruct H as [H|H]; [left; exact H|right].
  rewrite refinement_depth in H. destruct (sl (srun (sinit d0 f0) s) t); [simpl in H; lia|discriminate].
Qed.

Lemma L_list_copy_isolated st t op r :
  step st (t, AList op) = st /\ step st (t, AListMut op r) = st.
Proof. split; reflexivity. Qed.
