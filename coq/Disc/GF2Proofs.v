(* Lemmas about the GF(2) model (Disc/GF2Model.v). *)
From Coq Require Import List ZArith Bool Arith Lia.
From PLV Require Import Disc.GF2Model.
Import ListNotations.

(* ------------------------------------------------------------------ specification vocabulary *)
Definition zeros (n : nat) : row := repeat false n.
Definition rect (n : nat) (M : matrix) : Prop := Forall (fun r => length r = n) M.

(* the GF(2) row space of A (vectors of width n): closure of the rows under 0 and xor *)
Inductive span (n : nat) (A : matrix) : row -> Prop :=
| sp_zero : span n A (zeros n)
| sp_in : forall r, In r A -> span n A r
| sp_xor : forall u v, span n A u -> span n A v -> span n A (xorv u v).

Definition sub (n : nat) (A B : matrix) : Prop := forall r, In r A -> span n B r.
(* same row space *)
Definition row_equiv (n : nat) (A B : matrix) : Prop := sub n B A /\ sub n A B.

(* ------------------------------------------------------------------ list plumbing *)
Lemma xorv_length : forall a b, length a = length b -> length (xorv a b) = length a.
Proof.
  induction a as [|x a IH]; intros [|y b] H; simpl in *; try discriminate; auto.
Qed.

Lemma xorv_zeros_r : forall a, xorv a (zeros (length a)) = a.
Proof.
  unfold zeros. induction a as [|x a IH]; simpl; auto.
  rewrite xorb_false_r, IH. reflexivity.
Qed.

Lemma xorv_cancel : forall a b, length a = length b -> xorv (xorv a b) b = a.
Proof.
  induction a as [|x a IH]; intros [|y b] H; simpl in *; try discriminate; auto.
  rewrite IH by lia. f_equal. destruct x, y; reflexivity.
Qed.

Lemma xorv_app : forall a1 b1 a2 b2, length a1 = length b1 ->
  xorv (a1 ++ a2) (b1 ++ b2) = xorv a1 b1 ++ xorv a2 b2.
Proof.
  induction a1 as [|x a IH]; intros [|y b] a2 b2 H; simpl in *; try discriminate; auto.
  rewrite IH by lia. reflexivity.
Qed.

Lemma nth_nil_false : forall j, nth j (@nil bool) false = false.
Proof. destruct j; reflexivity. Qed.

Lemma nth_xorv : forall a b j, length a = length b ->
  nth j (xorv a b) false = xorb (nth j a false) (nth j b false).
Proof.
  induction a as [|x a IH]; intros [|y b] j H; simpl in *; try discriminate.
  - destruct j; reflexivity.
  - destruct j; auto.
Qed.

Lemma set_nth_length : forall A (l : list A) i x, length (set_nth l i x) = length l.
Proof. induction l; destruct i; simpl; auto. Qed.

Lemma nth_set_nth_eq : forall A (l : list A) i x d, i < length l -> nth i (set_nth l i x) d = x.
Proof. induction l; destruct i; simpl; intros; try lia; auto. apply IHl; lia. Qed.

Lemma nth_set_nth_neq : forall A (l : list A) i j x d, j <> i -> nth j (set_nth l i x) d = nth j l d.
Proof. induction l; destruct i, j; simpl; intros; try lia; auto. Qed.

Lemma In_set_nth : forall A (l : list A) i x y, In y (set_nth l i x) -> y = x \/ In y l.
Proof.
  induction l as [|h t IH]; intros i x y H; destruct i; simpl in H; try contradiction.
  - destruct H; [left; auto | right; right; auto].
  - destruct H as [H|H]; [right; left; auto|].
    apply IH in H. destruct H; [left | right; right]; auto.
Qed.

Lemma map2_length : forall {A B C} (f : A -> B -> C) a b,
  length (map2 f a b) = Nat.min (length a) (length b).
Proof. induction a; destruct b; simpl; auto. Qed.

Lemma nth_map2 : forall {A B C} (f : A -> B -> C) a b i da db dc,
  i < length a -> i < length b -> nth i (map2 f a b) dc = f (nth i a da) (nth i b db).
Proof.
  induction a; destruct b; simpl; intros; try lia.
  destruct i; auto. apply IHa; lia.
Qed.

Lemma nth_skipn_add : forall A (l : list A) k j d, nth j (skipn k l) d = nth (k + j) l d.
Proof.
  induction l; destruct k; simpl; intros; auto.
  destruct j; auto.
Qed.

Lemma column_length : forall M j, length (column M j) = length M.
Proof. intros. unfold column. apply map_length. Qed.

Lemma nth_column : forall M j i, nth i (column M j) false = getb M i j.
Proof.
  unfold column, getb.
  induction M as [|r M IH]; intros j i; destruct i; simpl; auto; destruct j; reflexivity.
Qed.

Lemma first_true_some : forall l k, first_true l = Some k -> k < length l /\ nth k l false = true.
Proof.
  induction l as [|a l IH]; simpl; intros k H; try discriminate.
  destruct a.
  - injection H as <-. split; [lia | auto].
  - destruct (first_true l) eqn:E; simpl in H; try discriminate.
    injection H as <-. destruct (IH n eq_refl). split; [lia | auto].
Qed.

Lemma first_true_none : forall l, first_true l = None -> forall j, nth j l false = false.
Proof.
  induction l as [|a l IH]; simpl; intros H j.
  - destruct j; auto.
  - destruct a; try discriminate.
    destruct (first_true l) eqn:E; simpl in H; try discriminate.
    destruct j; auto.
Qed.

Lemma firstn_low : forall c r, (forall j, j < c -> nth j r false = false) ->
  firstn c r = zeros (Nat.min c (length r)).
Proof.
  unfold zeros. induction c; intros r H; simpl; auto.
  destruct r as [|b r]; simpl; auto.
  pose proof (H 0 ltac:(lia)) as H0. simpl in H0. subst b.
  f_equal. apply IHc. intros j Hj. apply (H (S j)). lia.
Qed.

Lemma map_andb_true : forall l, map (andb true) l = l.
Proof. induction l; simpl; congruence. Qed.

Lemma map_andb_false : forall l, map (andb false) l = zeros (length l).
Proof. unfold zeros. induction l; simpl; congruence. Qed.

Lemma rect_nth : forall n M i, rect n M -> i < length M -> length (nth i M []) = n.
Proof.
  intros n M i R Hi. unfold rect in R. rewrite Forall_forall in R. apply R. apply nth_In. auto.
Qed.

(* ------------------------------------------------------------------ span *)
Lemma span_length : forall n A v, rect n A -> span n A v -> length v = n.
Proof.
  intros n A v R H. induction H.
  - apply repeat_length.
  - unfold rect in R. rewrite Forall_forall in R. auto.
  - rewrite xorv_length; lia.
Qed.

Lemma span_sub : forall n A B v, sub n A B -> span n A v -> span n B v.
Proof.
  intros n A B v S H. induction H; [apply sp_zero | apply S; auto | apply sp_xor; auto].
Qed.

Lemma sub_refl : forall n A, sub n A A.
Proof. intros n A r H. apply sp_in. auto. Qed.

Lemma sub_trans : forall n A B C, sub n A B -> sub n B C -> sub n A C.
Proof. intros n A B C H1 H2 r H. eapply span_sub; eauto. Qed.

Lemma sub_incl : forall n A B, (forall r, In r A -> In r B) -> sub n A B.
Proof. intros n A B H r Hr. apply sp_in. auto. Qed.

Lemma row_equiv_refl : forall n A, row_equiv n A A.
Proof. intros; split; apply sub_refl. Qed.

Lemma row_equiv_trans : forall n A B C, row_equiv n A B -> row_equiv n B C -> row_equiv n A C.
Proof. intros n A B C [H1 H2] [H3 H4]. split; eapply sub_trans; eauto. Qed.

(* ------------------------------------------------------------------ rref: the loop invariant *)
(* rows irow.. are zero left of column icol *)
Definition lowzero (M : matrix) (irow icol : nat) : Prop :=
  forall i j, irow <= i -> j < icol -> getb M i j = false.

Definition good (n : nat) (M0 M : matrix) (irow icol : nat) : Prop :=
  rect n M /\ length M = length M0 /\ row_equiv n M0 M /\ lowzero M irow icol.

(* --- the slice swap is a swap of whole rows *)
Lemma swap_slice_eq : forall n M i k c, rect n M -> i < length M -> k < length M ->
  (forall j, j < c -> getb M i j = false) -> (forall j, j < c -> getb M k j = false) ->
  swap_slice M i k c = set_nth (set_nth M i (nth k M [])) k (nth i M []).
Proof.
  intros n M i k c R Hi Hk Zi Zk. unfold swap_slice.
  assert (Li := rect_nth n M i R Hi). assert (Lk := rect_nth n M k R Hk).
  assert (E : firstn c (nth i M []) = firstn c (nth k M [])).
  { rewrite (firstn_low c (nth i M [])) by exact Zi.
    rewrite (firstn_low c (nth k M [])) by exact Zk. congruence. }
  rewrite E. rewrite firstn_skipn. rewrite <- E. rewrite firstn_skipn. reflexivity.
Qed.

Lemma nth_swap : forall (M : matrix) i k a (ri rk : row), i < length M -> k < length M ->
  nth a (set_nth (set_nth M i rk) k ri) [] =
  if a =? k then ri else if a =? i then rk else nth a M [].
Proof.
  intros M i k a ri rk Hi Hk.
  destruct (a =? k) eqn:E1.
  - apply Nat.eqb_eq in E1. subst. apply nth_set_nth_eq. rewrite set_nth_length. auto.
  - apply Nat.eqb_neq in E1. rewrite nth_set_nth_neq by auto.
    destruct (a =? i) eqn:E2.
    + apply Nat.eqb_eq in E2. subst. apply nth_set_nth_eq. auto.
    + apply Nat.eqb_neq in E2. apply nth_set_nth_neq. auto.
Qed.

Lemma In_swap : forall (M : matrix) i k r, i < length M -> k < length M -> In r M ->
  In r (set_nth (set_nth M i (nth k M [])) k (nth i M [])).
Proof.
  intros M i k r Hi Hk H.
  destruct (In_nth _ _ [] H) as (a & Ha & <-).
  assert (P : forall b, b < length M ->
     In (if b =? k then nth i M [] else if b =? i then nth k M [] else nth b M [])
        (set_nth (set_nth M i (nth k M [])) k (nth i M []))).
  { intros b Hb. rewrite <- (nth_swap M i k b) by auto. apply nth_In.
    rewrite !set_nth_length. auto. }
  destruct (Nat.eq_dec a k) as [->|Nak].
  - destruct (Nat.eq_dec i k) as [->|Nik].
    + specialize (P k Hk). rewrite Nat.eqb_refl in P. exact P.
    + specialize (P i Hi). rewrite Nat.eqb_refl in P.
      destruct (i =? k) eqn:E; [apply Nat.eqb_eq in E; contradiction|]. exact P.
  - destruct (Nat.eq_dec a i) as [->|Nai].
    + specialize (P k Hk). rewrite Nat.eqb_refl in P. exact P.
    + specialize (P a Ha).
      destruct (a =? k) eqn:E; [apply Nat.eqb_eq in E; contradiction|].
      destruct (a =? i) eqn:E'; [apply Nat.eqb_eq in E'; contradiction|]. exact P.
Qed.

Lemma swap_good : forall n M0 M irow icol k,
  good n M0 M irow icol -> irow < length M -> irow <= k -> k < length M ->
  good n M0 (swap_slice M irow k icol) irow icol.
Proof.
  intros n M0 M irow icol k (R & L & EQ & LZ) Hi Hik Hk.
  rewrite (swap_slice_eq n) by (auto; intros; apply LZ; auto).
  assert (Iri : In (nth irow M []) M) by (apply nth_In; auto).
  assert (Irk : In (nth k M []) M) by (apply nth_In; auto).
  assert (INCL : forall r, In r (set_nth (set_nth M irow (nth k M [])) k (nth irow M [])) -> In r M).
  { intros r H. apply In_set_nth in H. destruct H as [->|H]; auto.
    apply In_set_nth in H. destruct H as [->|H]; auto. }
  split; [|split; [|split]].
  - unfold rect in *. rewrite Forall_forall in *. intros r H. apply R. auto.
  - rewrite !set_nth_length. auto.
  - eapply row_equiv_trans; [exact EQ|]. split.
    + apply sub_incl. exact INCL.
    + apply sub_incl. intros r H. apply In_swap; auto.
  - intros a j Ha Hj. unfold getb. rewrite nth_swap by auto.
    destruct (a =? k); [apply (LZ irow j); auto|].
    destruct (a =? irow); [apply (LZ k j); auto | apply (LZ a j); auto].
Qed.

Lemma good_col_step : forall n M0 M irow icol, good n M0 M irow icol ->
  first_true (column (skipn irow M) icol) = None -> good n M0 M irow (S icol).
Proof.
  intros n M0 M irow icol (R & L & EQ & LZ) FT. repeat split; auto; try apply EQ.
  intros a j Ha Hj. destruct (Nat.eq_dec j icol) as [->|Nj]; [|apply LZ; auto; lia].
  pose proof (first_true_none _ FT (a - irow)) as Z.
  rewrite nth_column in Z. unfold getb in Z. rewrite nth_skipn_add in Z.
  replace (irow + (a - irow)) with a in Z by lia. exact Z.
Qed.

Lemma find_pivot_good : forall n M0 fuel M irow icol nc M1 icol1,
  good n M0 M irow icol -> irow < length M ->
  find_pivot fuel M irow icol nc = Some (M1, icol1) ->
  good n M0 M1 irow icol1 /\ icol <= icol1.
Proof.
  intros n M0. induction fuel as [|f IH]; intros M irow icol nc M1 icol1 G Hi H; simpl in H; try discriminate.
  destruct ((icol <? nc) && negb (getb M irow icol)) eqn:C.
  - destruct (first_true (column (skipn irow M) icol)) as [k|] eqn:FT.
    + apply first_true_some in FT. destruct FT as [Hk _].
      rewrite column_length, skipn_length in Hk.
      apply IH in H; auto.
      * apply swap_good; auto; lia.
      * unfold swap_slice. rewrite !set_nth_length. auto.
    + apply IH in H; auto.
      * destruct H. split; auto; lia.
      * apply good_col_step; auto.
  - injection H as <- <-. split; auto.
Qed.

(* --- the outer-product xor update is: every other row with a 1 in the pivot column ^= pivot row *)
Definition elim_row (p r : row) (c : bool) : row := if c then xorv r p else r.

Lemma elim_f_eq : forall icol p r c, length r = length p ->
  (forall j, j < icol -> nth j p false = false) ->
  firstn icol r ++ xorv (skipn icol r) (map (andb c) (skipn icol p)) = elim_row p r c.
Proof.
  intros icol p r c L Z. destruct c; simpl.
  - rewrite map_andb_true.
    transitivity (xorv (firstn icol r ++ skipn icol r) (firstn icol p ++ skipn icol p));
      [| rewrite !firstn_skipn; reflexivity].
    rewrite xorv_app by (rewrite !firstn_length; lia).
    f_equal. rewrite (firstn_low icol p Z).
    replace (Nat.min icol (length p)) with (length (firstn icol r)) by (rewrite firstn_length; lia).
    symmetry. apply xorv_zeros_r.
  - rewrite map_andb_false.
    replace (length (skipn icol p)) with (length (skipn icol r)) by (rewrite !skipn_length; lia).
    rewrite xorv_zeros_r. apply firstn_skipn.
Qed.

Lemma elim_step_length : forall M irow icol, length (elim_step M irow icol) = length M.
Proof.
  intros. unfold elim_step. rewrite map2_length, set_nth_length, column_length. apply Nat.min_id.
Qed.

Lemma nth_elim : forall n M irow icol a, rect n M -> irow < length M -> a < length M ->
  (forall j, j < icol -> getb M irow j = false) ->
  nth a (elim_step M irow icol) [] =
  elim_row (nth irow M []) (nth a M []) (if a =? irow then false else getb M a icol).
Proof.
  intros n M irow icol a R Hi Ha Z. unfold elim_step. cbv zeta.
  rewrite (nth_map2 (A:=list bool) (B:=bool) (C:=list bool) _ _ _ a [] false []);
    [| auto | rewrite set_nth_length, column_length; auto].
  rewrite elim_f_eq.
  - f_equal. destruct (a =? irow) eqn:E.
    + apply Nat.eqb_eq in E. subst. apply nth_set_nth_eq. rewrite column_length. auto.
    + apply Nat.eqb_neq in E. rewrite nth_set_nth_neq by auto. apply nth_column.
  - rewrite !(rect_nth n); auto.
  - exact Z.
Qed.

Lemma elim_good : forall n M0 M irow icol,
  good n M0 M irow icol -> irow < length M -> getb M irow icol = true ->
  good n M0 (elim_step M irow icol) (S irow) (S icol).
Proof.
  intros n M0 M irow icol (R & L & EQ & LZ) Hi PV.
  set (p := nth irow M []).
  assert (Zp : forall j, j < icol -> getb M irow j = false) by (intros; apply LZ; auto).
  assert (NTH : forall a, a < length M -> nth a (elim_step M irow icol) [] =
            elim_row p (nth a M []) (if a =? irow then false else getb M a icol))
    by (intros; apply (nth_elim n); auto).
  assert (Lp : length p = n) by (apply rect_nth; auto).
  assert (NP : nth irow (elim_step M irow icol) [] = p)
    by (rewrite NTH by auto; rewrite Nat.eqb_refl; reflexivity).
  split; [|split; [|split]].
  - unfold rect. rewrite Forall_forall. intros r H.
    destruct (In_nth _ _ [] H) as (a & Ha & <-). rewrite elim_step_length in Ha.
    rewrite NTH by auto. unfold elim_row.
    destruct (if a =? irow then false else getb M a icol).
    + rewrite xorv_length; rewrite (rect_nth n M a); auto.
    + apply rect_nth; auto.
  - rewrite elim_step_length. auto.
  - eapply row_equiv_trans; [exact EQ|]. split.
    + intros r H. destruct (In_nth _ _ [] H) as (a & Ha & <-). rewrite elim_step_length in Ha.
      rewrite NTH by auto. unfold elim_row.
      destruct (if a =? irow then false else getb M a icol).
      * apply sp_xor; apply sp_in; apply nth_In; auto.
      * apply sp_in. apply nth_In. auto.
    + intros r H. destruct (In_nth _ _ [] H) as (a & Ha & <-).
      pose proof (NTH a Ha) as Na. unfold elim_row in Na.
      destruct (if a =? irow then false else getb M a icol).
      * assert (E : nth a M [] = xorv (nth a (elim_step M irow icol) []) (nth irow (elim_step M irow icol) [])).
        { rewrite Na, NP. symmetry. apply xorv_cancel. rewrite (rect_nth n M a); auto. }
        rewrite E.
        apply sp_xor; apply sp_in; apply nth_In; rewrite elim_step_length; auto.
      * rewrite <- Na. apply sp_in. apply nth_In. rewrite elim_step_length. auto.
  - intros a j Ha Hj. unfold getb.
    destruct (lt_dec a (length M)) as [Hlt|Hge].
    + rewrite NTH by auto.
      destruct (a =? irow) eqn:E; [apply Nat.eqb_eq in E; lia|].
      unfold elim_row. destruct (getb M a icol) eqn:C.
      * rewrite nth_xorv by (rewrite (rect_nth n M a); auto).
        destruct (Nat.eq_dec j icol) as [->|Nj].
        -- fold (getb M a icol). unfold p. fold (getb M irow icol). rewrite C, PV. reflexivity.
        -- fold (getb M a j). unfold p. fold (getb M irow j).
           rewrite (LZ a j), (LZ irow j) by lia. reflexivity.
      * destruct (Nat.eq_dec j icol) as [->|Nj]; [exact C|]. apply (LZ a j); lia.
    + rewrite (nth_overflow (elim_step M irow icol) []) by (rewrite elim_step_length; lia).
      apply nth_nil_false.
Qed.

Lemma lowzero_weaken : forall M irow icol, lowzero M irow icol -> lowzero M (S irow) icol.
Proof. intros M irow icol H a j Ha Hj. apply H; lia. Qed.

Lemma rref_rows_good : forall n M0 todo irow icol nc M R,
  good n M0 M irow icol -> irow + todo = length M ->
  rref_rows todo irow icol nc M = Some R ->
  rect n R /\ length R = length M0 /\ row_equiv n M0 R.
Proof.
  intros n M0. induction todo as [|t IH]; intros irow icol nc M R G HL H; cbn [rref_rows] in H.
  - injection H as <-. destruct G as (Rc & L & EQ & _). auto.
  - destruct (find_pivot (S (S nc)) M irow icol nc) as [[M1 icol1]|] eqn:FP; try discriminate.
    apply (find_pivot_good n M0) in FP; auto; try lia. destruct FP as [G1 _].
    assert (L1 : length M1 = length M) by (destruct G as (_ & ? & _), G1 as (_ & ? & _); lia).
    destruct ((icol1 <? nc) && getb M1 irow icol1) eqn:C.
    + apply andb_true_iff in C. destruct C as [_ C].
      apply IH in H; auto.
      * apply elim_good; auto. lia.
      * rewrite elim_step_length. lia.
    + apply IH in H; auto.
      * destruct G1 as (? & ? & ? & ?). repeat split; auto; try apply H2. apply lowzero_weaken. auto.
      * lia.
Qed.

Lemma rref_row_equiv_lemma : forall n M R, rect n M -> rref M = Some R ->
  rect n R /\ length R = length M /\ row_equiv n M R.
Proof.
  intros n M R RC H. unfold rref in H.
  apply (rref_rows_good n M) in H; auto.
  repeat split; auto; try apply row_equiv_refl.
  intros a j _ Hj. lia.
Qed.

(* ------------------------------------------------------------------ rref: pivot structure *)
Definition unitcol (M : matrix) (c k : nat) : Prop := forall a, getb M a c = (a =? k).

(* row k either owns a pivot column c (a unit column, k <= c, zeros to its left) or is zero *)
Definition pivrow (nc : nat) (M : matrix) (icol k : nat) : Prop :=
  (exists c, k <= c /\ c < icol /\ c < nc /\ unitcol M c k /\ forall j, j < c -> getb M k j = false)
  \/ (nc <= icol /\ forall j, j < nc -> getb M k j = false).

Definition pinv (nc : nat) (M : matrix) (irow icol : nat) : Prop :=
  (irow <= icol \/ nc <= icol) /\ forall k, k < irow -> pivrow nc M icol k.

Lemma getb_overflow : forall M a j, length M <= a -> getb M a j = false.
Proof. intros. unfold getb. rewrite (nth_overflow M []) by auto. apply nth_nil_false. Qed.

Lemma getb_swap : forall M i k a j, i < length M -> k < length M ->
  getb (set_nth (set_nth M i (nth k M [])) k (nth i M [])) a j =
  getb M (if a =? k then i else if a =? i then k else a) j.
Proof.
  intros. unfold getb. rewrite nth_swap by auto.
  destruct (a =? k); auto. destruct (a =? i); auto.
Qed.

Lemma getb_elim : forall n M irow icol a j, rect n M -> irow < length M ->
  (forall j, j < icol -> getb M irow j = false) ->
  getb (elim_step M irow icol) a j =
  xorb (getb M a j) ((if a =? irow then false else getb M a icol) && getb M irow j).
Proof.
  intros n M irow icol a j R Hi Z.
  destruct (lt_dec a (length M)) as [Ha|Ha].
  - unfold getb at 1. rewrite (nth_elim n) by auto. unfold elim_row.
    destruct (if a =? irow then false else getb M a icol); simpl.
    + rewrite nth_xorv by (rewrite !(rect_nth n); auto). reflexivity.
    + rewrite xorb_false_r. reflexivity.
  - rewrite (getb_overflow (elim_step M irow icol) a j) by (rewrite elim_step_length; lia).
    rewrite (getb_overflow M a j), (getb_overflow M a icol) by lia.
    destruct (a =? irow); reflexivity.
Qed.

Lemma eqb_false : forall a b, a <> b -> (a =? b) = false.
Proof. intros. apply Nat.eqb_neq. auto. Qed.

Lemma swap_pinv : forall n M0 nc M irow icol k,
  good n M0 M irow icol -> pinv nc M irow icol -> irow < length M -> irow <= k -> k < length M ->
  pinv nc (swap_slice M irow k icol) irow icol.
Proof.
  intros n M0 nc M irow icol k (R & L & EQ & LZ) [P1 P2] Hi Hik Hk.
  rewrite (swap_slice_eq n) by (auto; intros; apply LZ; auto).
  split; auto. intros k0 Hk0.
  assert (ROWK : forall j, getb (set_nth (set_nth M irow (nth k M [])) k (nth irow M [])) k0 j = getb M k0 j).
  { intros. rewrite getb_swap by auto.
    rewrite (eqb_false k0 k), (eqb_false k0 irow) by lia. reflexivity. }
  destruct (P2 k0 Hk0) as [(c & H1 & H2 & H3 & U & Z)|[H1 Z]].
  - left. exists c. split; [auto|]. split; [auto|]. split; [auto|]. split.
    + intros a. rewrite getb_swap by auto.
      destruct (a =? k) eqn:E1.
      * apply Nat.eqb_eq in E1. subst a. rewrite U.
        rewrite (eqb_false irow k0), (eqb_false k k0) by lia. reflexivity.
      * destruct (a =? irow) eqn:E2.
        -- apply Nat.eqb_eq in E2. subst a. rewrite U.
           rewrite (eqb_false irow k0), (eqb_false k k0) by lia. reflexivity.
        -- apply U.
    + intros j Hj. rewrite ROWK. apply Z; auto.
  - right. split; auto. intros j Hj. rewrite ROWK. auto.
Qed.

Lemma pinv_col_step : forall nc M irow icol, pinv nc M irow icol -> pinv nc M irow (S icol).
Proof.
  intros nc M irow icol [P1 P2]. split; [lia|].
  intros k Hk. destruct (P2 k Hk) as [(c & H1 & H2 & H3 & U & Z)|[H1 Z]].
  - left. exists c. repeat split; auto.
  - right. split; auto.
Qed.

Lemma find_pivot_pinv : forall n M0 nc fuel M irow icol M1 icol1,
  good n M0 M irow icol -> pinv nc M irow icol -> irow < length M ->
  find_pivot fuel M irow icol nc = Some (M1, icol1) ->
  pinv nc M1 irow icol1 /\ (icol1 <? nc) && negb (getb M1 irow icol1) = false.
Proof.
  intros n M0 nc. induction fuel as [|f IH]; intros M irow icol M1 icol1 G P Hi H; simpl in H; try discriminate.
  destruct ((icol <? nc) && negb (getb M irow icol)) eqn:C.
  - destruct (first_true (column (skipn irow M) icol)) as [k|] eqn:FT.
    + apply first_true_some in FT. destruct FT as [Hk _].
      rewrite column_length, skipn_length in Hk.
      apply IH in H; auto.
      * apply swap_good; auto; lia.
      * apply (swap_pinv n M0); auto; lia.
      * unfold swap_slice. rewrite !set_nth_length. auto.
    + apply IH in H; auto.
      * apply good_col_step; auto.
      * apply pinv_col_step; auto.
  - injection H as <- <-. split; auto.
Qed.

Lemma elim_pinv : forall n M0 nc M irow icol,
  good n M0 M irow icol -> pinv nc M irow icol -> irow < length M -> icol < nc ->
  getb M irow icol = true -> pinv nc (elim_step M irow icol) (S irow) (S icol).
Proof.
  intros n M0 nc M irow icol (R & L & EQ & LZ) [P1 P2] Hi Hc PV.
  assert (GE : forall a j, getb (elim_step M irow icol) a j =
     xorb (getb M a j) ((if a =? irow then false else getb M a icol) && getb M irow j))
    by (intros; apply (getb_elim n); auto; intros; apply LZ; auto).
  split; [left; lia|].
  intros k Hk. destruct (Nat.eq_dec k irow) as [->|Nk].
  - left. exists icol. split; [lia|]. split; [lia|]. split; [auto|]. split.
    + intros a. rewrite GE. destruct (a =? irow) eqn:E.
      * apply Nat.eqb_eq in E. subst. simpl. rewrite xorb_false_r. exact PV.
      * rewrite PV, andb_true_r. destruct (getb M a icol); reflexivity.
    + intros j Hj. rewrite GE, Nat.eqb_refl. simpl. rewrite xorb_false_r. apply LZ; auto.
  - assert (Hk' : k < irow) by lia.
    destruct (P2 k Hk') as [(c & H1 & H2 & H3 & U & Z)|[H1 Z]]; [|lia].
    left. exists c. split; [auto|]. split; [lia|]. split; [auto|]. split.
    + intros a. rewrite GE, (U irow), (eqb_false irow k) by lia.
      rewrite andb_false_r, xorb_false_r. apply U.
    + intros j Hj. rewrite GE, (LZ irow j) by lia.
      rewrite andb_false_r, xorb_false_r. apply Z; auto.
Qed.

Lemma nopivot_pinv : forall n M0 nc M irow icol,
  good n M0 M irow icol -> pinv nc M irow icol -> nc <= icol -> pinv nc M (S irow) icol.
Proof.
  intros n M0 nc M irow icol (R & L & EQ & LZ) [P1 P2] Hc. split; [right; auto|].
  intros k Hk. destruct (Nat.eq_dec k irow) as [->|Nk].
  - right. split; auto. intros j Hj. apply LZ; lia.
  - apply P2. lia.
Qed.

Lemma rref_rows_pinv : forall n M0 nc todo irow icol M R,
  good n M0 M irow icol -> pinv nc M irow icol -> irow + todo = length M ->
  rref_rows todo irow icol nc M = Some R ->
  exists icolf, pinv nc R (length M0) icolf.
Proof.
  intros n M0 nc. induction todo as [|t IH]; intros irow icol M R G P HL H; cbn [rref_rows] in H.
  - injection H as <-. exists icol. destruct G as (_ & L & _). rewrite <- L, <- HL, Nat.add_0_r. auto.
  - destruct (find_pivot (S (S nc)) M irow icol nc) as [[M1 icol1]|] eqn:FP; try discriminate.
    pose proof FP as FP2.
    apply (find_pivot_good n M0) in FP; auto; try lia. destruct FP as [G1 _].
    apply (find_pivot_pinv n M0) in FP2; auto; try lia. destruct FP2 as [P1 EX].
    assert (L1 : length M1 = length M) by (destruct G as (_ & ? & _), G1 as (_ & ? & _); lia).
    destruct ((icol1 <? nc) && getb M1 irow icol1) eqn:C.
    + apply andb_true_iff in C. destruct C as [C1 C2]. apply Nat.ltb_lt in C1.
      apply IH in H; auto.
      * apply elim_good; auto. lia.
      * apply (elim_pinv n M0); auto. lia.
      * rewrite elim_step_length. lia.
    + assert (nc <= icol1).
      { destruct (icol1 <? nc) eqn:LT; [|apply Nat.ltb_ge in LT; auto].
        destruct (getb M1 irow icol1); simpl in *; discriminate. }
      apply IH in H; auto.
      * destruct G1 as (? & ? & ? & ?). repeat split; auto; try apply H3. apply lowzero_weaken. auto.
      * apply (nopivot_pinv n M0); auto.
      * lia.
Qed.

(* if the first m columns (m = number of rows) contain a pivot for every row, they form the identity *)
Lemma diag_unit : forall (R : matrix) m,
  (forall k, k < m -> exists c, k <= c /\ c < m /\ unitcol R c k) ->
  forall d k, k < m -> m - k <= d -> unitcol R k k.
Proof.
  intros R m H. induction d as [|d IH]; intros k Hk Hd; [lia|].
  destruct (H k Hk) as (c & H1 & H2 & U).
  destruct (Nat.eq_dec c k) as [->|N]; auto.
  assert (Uc : unitcol R c c) by (apply IH; lia).
  pose proof (Uc c) as E1. pose proof (U c) as E2.
  rewrite Nat.eqb_refl in E1. rewrite (eqb_false c k) in E2 by lia. congruence.
Qed.

(* ------------------------------------------------------------------ solve *)
Fixpoint dot (a x : list bool) : bool :=
  match a, x with
  | u :: a', v :: x' => xorb (u && v) (dot a' x')
  | _, _ => false
  end.

Lemma dot_xorv : forall u v y, length u = length v -> dot (xorv u v) y = xorb (dot u y) (dot v y).
Proof.
  induction u as [|a u IH]; intros [|b v] y H; simpl in *; try discriminate; auto.
  destruct y as [|c y]; simpl; auto.
  rewrite IH by lia. destruct a, b, c, (dot u y), (dot v y); reflexivity.
Qed.

Lemma dot_zeros : forall k y, dot (zeros k) y = false.
Proof.
  unfold zeros. induction k as [|k IH]; intros [|b y]; simpl; auto.
  rewrite IH. reflexivity.
Qed.

Lemma dot_span : forall n R y v, rect n R -> (forall r, In r R -> dot r y = false) ->
  span n R v -> dot v y = false.
Proof.
  intros n R y v RC H S. induction S.
  - apply dot_zeros.
  - auto.
  - rewrite dot_xorv by (rewrite !(span_length n R); auto). rewrite IHS1, IHS2. reflexivity.
Qed.

Lemma dot_app1 : forall a x beta, length a = length x ->
  dot (a ++ [beta]) (x ++ [true]) = xorb (dot a x) beta.
Proof.
  induction a as [|u a IH]; intros [|v x] beta H; simpl in *; try discriminate.
  - destruct beta; reflexivity.
  - rewrite IH by lia. symmetry. apply xorb_assoc.
Qed.

Lemma dot_zero_prefix : forall x r, length r = S (length x) ->
  (forall j, j < length x -> nth j r false = false) ->
  dot r (x ++ [true]) = nth (length x) r false.
Proof.
  induction x as [|v x IH]; intros [|a r] L Z; simpl in *; try discriminate.
  - destruct r; [|discriminate]. destruct a; reflexivity.
  - pose proof (Z 0 ltac:(lia)) as Z0. simpl in Z0. subst a.
    rewrite andb_false_l, xorb_false_l.
    apply IH; [lia|]. intros j Hj. apply (Z (S j)). lia.
Qed.

Lemma dot_unit_row : forall x r k, length r = S (length x) -> k < length x ->
  (forall j, j < length x -> nth j r false = (k =? j)) ->
  dot r (x ++ [true]) = xorb (nth k x false) (nth (length x) r false).
Proof.
  induction x as [|v x IH]; intros [|a r] k L Hk Z; simpl in *; try discriminate; try lia.
  pose proof (Z 0 ltac:(lia)) as Z0. simpl in Z0.
  destruct k as [|k].
  - simpl in Z0. subst a. rewrite andb_true_l.
    rewrite dot_zero_prefix; [reflexivity | lia |].
    intros j Hj. apply (Z (S j)). lia.
  - simpl in Z0. subst a. rewrite andb_false_l, xorb_false_l.
    apply IH; [lia | lia |]. intros j Hj. apply (Z (S j)). lia.
Qed.

Lemma hstack_length : forall A b, length A = length b -> length (hstack_col A b) = length A.
Proof. intros. unfold hstack_col. rewrite map2_length. lia. Qed.

Lemma hstack_rect : forall n A b, rect n A -> rect (S n) (hstack_col A b).
Proof.
  unfold rect, hstack_col. induction A as [|a A IH]; intros [|x b] H; simpl; constructor.
  - rewrite app_length. inversion H; subst. simpl. lia.
  - apply IH. inversion H; auto.
Qed.

Lemma hstack_forall2 : forall n x A b, length x = n -> rect n A -> length A = length b ->
  (forall r, In r (hstack_col A b) -> dot r (x ++ [true]) = false) ->
  Forall2 (fun a beta => dot a x = beta) A b.
Proof.
  unfold rect, hstack_col. intros n x. induction A as [|a A IH]; intros [|beta b] Lx R L H; simpl in *; try discriminate; constructor.
  - inversion R; subst. specialize (H (a ++ [beta]) (or_introl eq_refl)).
    rewrite dot_app1 in H by lia. apply xorb_eq. exact H.
  - inversion R; subst. apply IH; auto.
Qed.

Lemma existsb_false_all : forall {A} (f : A -> bool) l, existsb f l = false ->
  forall x, In x l -> f x = false.
Proof.
  induction l as [|a l IH]; simpl; intros H x Hx; [contradiction|].
  apply orb_false_iff in H. destruct H. destruct Hx as [<-|Hx]; auto.
Qed.

Lemma nth_removelast : forall (r : list bool) j, j < length (removelast r) ->
  nth j (removelast r) false = nth j r false.
Proof.
  induction r as [|a r IH]; intros j H; simpl in *; [lia|].
  destruct r as [|b r]; simpl in *; [lia|].
  destruct j; auto. apply IH. lia.
Qed.

Lemma removelast_length : forall (r : list bool), length (removelast r) = length r - 1.
Proof.
  induction r as [|a r IH]; simpl; auto.
  destruct r as [|b r]; simpl in *; auto. rewrite IH. lia.
Qed.

Lemma last_nth_len : forall (r : list bool) n, length r = S n -> last r false = nth n r false.
Proof.
  induction r as [|a r IH]; intros n L; simpl in *; try discriminate.
  destruct r as [|b r]; destruct n; simpl in *; try discriminate; auto.
Qed.

Lemma nth_map_default : forall (f : list bool -> bool) l k, f [] = false ->
  nth k (map f l) false = f (nth k l []).
Proof. induction l; destruct k; simpl; intros; auto. Qed.

Lemma hstack_forall2_inv : forall n x A b, length x = n -> rect n A ->
  Forall2 (fun a beta => dot a x = beta) A b ->
  forall r, In r (hstack_col A b) -> dot r (x ++ [true]) = false.
Proof.
  unfold rect, hstack_col. intros n x A b Lx R F. induction F as [|a beta A b E F IH]; intros r Hr; simpl in Hr; [contradiction|].
  inversion R; subst. destruct Hr as [<-|Hr].
  - rewrite dot_app1 by lia. apply xorb_nilpotent.
  - apply IH; auto.
Qed.

(* an accepted system: the echelon form of (A|b) is (I|x) *)
Lemma solve_structure : forall n A b x, rect n A -> length A = n -> solve A b = Ok x ->
  length A = length b /\
  exists R, rect (S n) R /\ length R = n /\ row_equiv (S n) (hstack_col A b) R /\
            x = map (fun r => last r false) R /\
            (forall k j, k < n -> j < n -> getb R k j = (k =? j)).
Proof.
  intros n A b x RA LA H. unfold solve in H.
  destruct (negb (length A =? length b)) eqn:LB; try discriminate.
  apply negb_false_iff, Nat.eqb_eq in LB.
  destruct (rref (hstack_col A b)) as [R|] eqn:RR; try discriminate.
  destruct (existsb (fun r => negb (existsb (fun x => x) (removelast r))) R) eqn:EX; try discriminate.
  injection H as <-.
  pose proof (hstack_rect n A b RA) as RAug.
  pose proof (hstack_length A b LB) as LAug.
  destruct (rref_row_equiv_lemma (S n) _ R RAug RR) as (RR1 & LR & EQ).
  rewrite LAug, LA in LR.
  split; auto. exists R. repeat split; auto; try apply EQ.
  destruct A as [|a0 A'].
  { simpl in LA. subst n. intros; lia. }
  destruct b as [|b0 b']; [simpl in LB; discriminate|].
  assert (NC : ncols (hstack_col (a0 :: A') (b0 :: b')) = S n).
  { pose proof (rect_nth n (a0 :: A') 0 RA ltac:(simpl; lia)) as L0. simpl in L0.
    unfold ncols. simpl. rewrite app_length. simpl. lia. }
  unfold rref in RR. rewrite NC in RR.
  assert (G0 : good (S n) (hstack_col (a0 :: A') (b0 :: b')) (hstack_col (a0 :: A') (b0 :: b')) 0 0).
  { repeat split; auto; try apply row_equiv_refl. intros a j _ Hj. lia. }
  assert (P0 : pinv (S n) (hstack_col (a0 :: A') (b0 :: b')) 0 0).
  { split; [lia|]. intros k Hk. lia. }
  destruct (rref_rows_pinv (S n) _ (S n) _ 0 0 _ R G0 P0 eq_refl RR) as (icolf & _ & PV).
  rewrite LAug, LA in PV.
  assert (NZ : forall k, k < n -> exists j, j < n /\ getb R k j = true).
  { intros k Hk.
    pose proof (existsb_false_all _ _ EX (nth k R [])) as E. cbv beta in E.
    rewrite negb_false_iff in E. specialize (E ltac:(apply nth_In; lia)).
    apply existsb_exists in E. destruct E as (v & Hv & ->).
    destruct (In_nth _ _ false Hv) as (j & Hj & Ej).
    exists j. split.
    - rewrite removelast_length, (rect_nth (S n) R k) in Hj by (auto; lia). lia.
    - unfold getb. rewrite <- nth_removelast by auto. exact Ej. }
  assert (PC : forall k, k < n -> exists c, k <= c /\ c < n /\ unitcol R c k).
  { intros k Hk. destruct (NZ k Hk) as (j & Hj & Ej).
    destruct (PV k Hk) as [(c & H1 & H2 & H3 & U & Z)|[H1 Z]].
    - exists c. repeat split; auto.
      destruct (Nat.eq_dec c n) as [->|]; [|lia].
      rewrite Z in Ej by auto. discriminate.
    - rewrite Z in Ej by lia. discriminate. }
  intros k j Hk Hj. apply (diag_unit R n PC (n - j) j); auto.
Qed.

(* the augmented rows of (I|x) against a candidate y *)
Lemma unit_rows_dot : forall n (R : matrix) y k, rect (S n) R -> length R = n -> length y = n -> k < n ->
  (forall k j, k < n -> j < n -> getb R k j = (k =? j)) ->
  dot (nth k R []) (y ++ [true]) =
  xorb (nth k y false) (nth k (map (fun r => last r false) R) false).
Proof.
  intros n R y k RR LR Ly Hk ID.
  assert (Lr : length (nth k R []) = S n) by (apply rect_nth; auto; lia).
  rewrite dot_unit_row with (k := k); try lia.
  - rewrite Ly. rewrite nth_map_default by reflexivity.
    rewrite (last_nth_len _ n Lr). reflexivity.
  - rewrite Ly. intros j Hj. fold (getb R k j). apply ID; auto.
Qed.

Lemma solve_sound_lemma : forall n A b x, rect n A -> length A = n -> solve A b = Ok x ->
  length x = n /\ Forall2 (fun a beta => dot a x = beta) A b.
Proof.
  intros n A b x RA LA H.
  destruct (solve_structure n A b x RA LA H) as (LB & R & RR & LR & [_ SUB] & -> & ID).
  assert (Lx : length (map (fun r => last r false) R) = n) by (rewrite map_length; auto).
  split; auto.
  apply (hstack_forall2 n); auto.
  intros r Hr. apply (dot_span (S n) R); auto.
  intros r' Hr'. destruct (In_nth _ _ [] Hr') as (k & Hk & <-). rewrite LR in Hk.
  rewrite (unit_rows_dot n); auto. apply xorb_nilpotent.
Qed.

(* an accepted system has no other solution: acceptance implies regularity *)
Lemma solve_unique_lemma : forall n A b x y, rect n A -> length A = n -> solve A b = Ok x ->
  length y = n -> Forall2 (fun a beta => dot a y = beta) A b -> y = x.
Proof.
  intros n A b x y RA LA H Ly F.
  destruct (solve_structure n A b x RA LA H) as (LB & R & RR & LR & [SUB _] & -> & ID).
  assert (Lx : length (map (fun r => last r false) R) = n) by (rewrite map_length; auto).
  apply nth_ext with (d := false) (d' := false); [lia|].
  intros k Hk. rewrite Ly in Hk.
  assert (E : dot (nth k R []) (y ++ [true]) = false).
  { apply (dot_span (S n) (hstack_col A b)).
    - apply hstack_rect; auto.
    - apply (hstack_forall2_inv n); auto.
    - apply SUB. apply nth_In. lia. }
  rewrite (unit_rows_dot n) in E; auto. apply xorb_eq. exact E.
Qed.

(* ------------------------------------------------------------------ rref: wrapper for the pivot structure *)
Definition pivot_or_zero (nc : nat) (R : matrix) (k : nat) : Prop :=
  (exists c, k <= c /\ c < nc /\ unitcol R c k /\ forall j, j < c -> getb R k j = false)
  \/ (forall j, j < nc -> getb R k j = false).

Lemma rref_structure_lemma : forall n M R, rect n M -> rref M = Some R ->
  forall k, k < length M -> pivot_or_zero (ncols M) R k.
Proof.
  intros n M R RC H k Hk. unfold rref in H.
  assert (G0 : good n M M 0 0).
  { repeat split; auto; try apply row_equiv_refl. intros a j _ Hj. lia. }
  assert (P0 : pinv (ncols M) M 0 0).
  { split; [lia|]. intros k0 Hk0. lia. }
  destruct (rref_rows_pinv n M (ncols M) _ 0 0 M R G0 P0 eq_refl H) as (icolf & _ & PV).
  destruct (PV k Hk) as [(c & H1 & H2 & H3 & U & Z)|[H1 Z]].
  - left. exists c. repeat split; auto.
  - right. auto.
Qed.

(* ------------------------------------------------------------------ rref never runs out of fuel *)
Lemma find_pivot_total : forall n M0 nc fuel M irow icol,
  good n M0 M irow icol -> irow < length M -> nc - icol + 2 <= fuel ->
  exists M1 icol1, find_pivot fuel M irow icol nc = Some (M1, icol1).
Proof.
  intros n M0 nc. induction fuel as [|f IH]; intros M irow icol G Hi Hf; [lia|]. simpl.
  destruct ((icol <? nc) && negb (getb M irow icol)) eqn:C; [|eauto].
  apply andb_true_iff in C. destruct C as [C1 C2]. pose proof C1 as C1'. apply Nat.ltb_lt in C1.
  destruct (first_true (column (skipn irow M) icol)) as [k|] eqn:FT.
  - apply first_true_some in FT. destruct FT as [Hk Ek].
    rewrite column_length, skipn_length in Hk.
    rewrite nth_column in Ek. unfold getb in Ek. rewrite nth_skipn_add in Ek. fold (getb M (irow + k) icol) in Ek.
    destruct f as [|f]; [lia|]. simpl.
    assert (PVT : getb (swap_slice M irow (irow + k) icol) irow icol = true).
    { destruct G as (R & L & EQ & LZ).
      rewrite (swap_slice_eq n) by (auto; try lia; intros; apply LZ; auto; lia).
      rewrite getb_swap by lia.
      destruct (irow =? irow + k) eqn:E.
      - apply Nat.eqb_eq in E. rewrite E at 1. exact Ek.
      - rewrite Nat.eqb_refl. exact Ek. }
    rewrite PVT, C1'. simpl. eauto.
  - apply IH; auto; [apply good_col_step; auto | lia].
Qed.

Lemma rref_rows_total : forall n M0 nc todo irow icol M,
  good n M0 M irow icol -> irow + todo = length M ->
  exists R, rref_rows todo irow icol nc M = Some R.
Proof.
  intros n M0 nc. induction todo as [|t IH]; intros irow icol M G HL; cbn [rref_rows]; [eauto|].
  destruct (find_pivot_total n M0 nc (S (S nc)) M irow icol G) as (M1 & icol1 & FP); try lia.
  rewrite FP.
  apply (find_pivot_good n M0) in FP; auto; try lia. destruct FP as [G1 _].
  assert (L1 : length M1 = length M) by (destruct G as (_ & ? & _), G1 as (_ & ? & _); lia).
  destruct ((icol1 <? nc) && getb M1 irow icol1) eqn:C.
  - apply andb_true_iff in C. destruct C as [_ C].
    apply IH; [apply elim_good; auto; lia | rewrite elim_step_length; lia].
  - apply IH; [|lia].
    destruct G1 as (? & ? & ? & ?). repeat split; auto; try apply H1. apply lowzero_weaken. auto.
Qed.

Lemma rref_total_lemma : forall n M, rect n M -> exists R, rref M = Some R.
Proof.
  intros n M RC. unfold rref. apply (rref_rows_total n M); auto.
  repeat split; auto; try apply row_equiv_refl. intros a j _ Hj. lia.
Qed.

(* ------------------------------------------------------------------ rank *)
(* the linear combination of the rows of B selected by c *)
Fixpoint comb (n : nat) (c : list bool) (B : matrix) : row :=
  match c, B with
  | x :: c', r :: B' => xorv (if x then r else zeros n) (comb n c' B')
  | _, _ => zeros n
  end.

(* linear independence over GF(2): only the trivial combination gives the zero vector *)
Definition independent (n : nat) (B : matrix) : Prop :=
  forall c, length c = length B -> comb n c B = zeros n -> c = repeat false (length B).

(* triangular family: each row has a 1 at a position where all later rows have 0 *)
Inductive tri : matrix -> Prop :=
| tri_nil : tri []
| tri_cons : forall p B l, nth l p false = true ->
    (forall r, In r B -> nth l r false = false) -> tri B -> tri (p :: B).

Lemma nth_zeros : forall n l, nth l (zeros n) false = false.
Proof. unfold zeros. induction n; destruct l; simpl; auto. Qed.

Lemma zeros_length : forall n, length (zeros n) = n.
Proof. intros. apply repeat_length. Qed.

Lemma xorv_zeros_l : forall a, xorv (zeros (length a)) a = a.
Proof. unfold zeros. induction a as [|x a IH]; simpl; auto. rewrite IH. destruct x; reflexivity. Qed.

Lemma comb_length : forall n c B, rect n B -> length (comb n c B) = n.
Proof.
  unfold rect. induction c as [|x c IH]; intros [|r B] R; simpl; try apply zeros_length.
  inversion R; subst. rewrite xorv_length.
  - destruct x; auto. apply zeros_length.
  - rewrite IH by auto. destruct x; auto. apply zeros_length.
Qed.

Lemma comb_bit_zero : forall n l c B, rect n B -> (forall r, In r B -> nth l r false = false) ->
  nth l (comb n c B) false = false.
Proof.
  induction c as [|x c IH]; intros [|r B] R Z; simpl; try apply nth_zeros.
  assert (R' : rect n B) by (inversion R; auto).
  assert (Lr : length r = n) by (inversion R; auto).
  rewrite nth_xorv.
  - rewrite IH by (auto; intros; apply Z; simpl; auto).
    destruct x; [rewrite Z by (simpl; auto) | rewrite nth_zeros]; reflexivity.
  - rewrite comb_length by auto. destruct x; auto. apply zeros_length.
Qed.

Lemma tri_indep : forall n B, tri B -> rect n B -> independent n B.
Proof.
  intros n B T. induction T as [|p B l Hp Z T IH]; intros R c Lc E.
  - destruct c; simpl in *; [reflexivity | discriminate].
  - destruct c as [|x c]; simpl in Lc; [discriminate|].
    assert (R' : rect n B) by (inversion R; auto).
    assert (Lp : length p = n) by (inversion R; auto).
    simpl in E.
    assert (X : x = false).
    { pose proof (f_equal (fun v => nth l v false) E) as Eb. cbv beta in Eb.
      rewrite nth_zeros in Eb. rewrite nth_xorv in Eb.
      - rewrite (comb_bit_zero n l c B R' Z) in Eb. rewrite xorb_false_r in Eb.
        destruct x; auto. congruence.
      - rewrite comb_length by auto. destruct x; auto. apply zeros_length. }
    subst x. simpl. f_equal. apply IH; auto.
    rewrite <- E. rewrite <- (comb_length n c B R') at 2. symmetry. apply xorv_zeros_l.
Qed.

Lemma span_bit_zero : forall n l A v, rect n A -> (forall r, In r A -> nth l r false = false) ->
  span n A v -> nth l v false = false.
Proof.
  intros n l A v R Z S. induction S.
  - apply nth_zeros.
  - auto.
  - rewrite nth_xorv by (rewrite !(span_length n A); auto). rewrite IHS1, IHS2. reflexivity.
Qed.

Lemma last_true_some : forall l k, last_true l = Some k -> nth k l false = true.
Proof.
  induction l as [|b l IH]; simpl; intros k H; try discriminate.
  destruct (last_true l) as [k'|] eqn:E.
  - injection H as <-. simpl. auto.
  - destruct b; try discriminate. injection H as <-. reflexivity.
Qed.

Lemma existsb_id_false : forall l, existsb (fun b : bool => b) l = false -> l = zeros (length l).
Proof.
  unfold zeros. induction l as [|b l IH]; simpl; intros H; auto.
  apply orb_false_iff in H. destruct H as [-> H]. f_equal. auto.
Qed.

Definition rank_upd (lsb : nat) (pv : row) (M' : matrix) : matrix :=
  map (fun r => if nth lsb r false then xorv r pv else r) M'.

Lemma rank_loop_snoc : forall f M' pv acc,
  rank_loop (S f) (M' ++ [pv]) acc =
  if existsb (fun b => b) pv then
    match last_true pv with
    | None => None
    | Some lsb => rank_loop f (rank_upd lsb pv M') (acc + 1)
    end
  else rank_loop f M' acc.
Proof.
  intros. destruct (M' ++ [pv]) as [|r0 M0] eqn:E; [destruct M'; discriminate|].
  cbn [rank_loop]. rewrite <- E. rewrite last_last, removelast_last. reflexivity.
Qed.

Lemma rank_loop_basis : forall n fuel M acc k, rect n M -> length M <= fuel ->
  rank_loop fuel M acc = Some k ->
  exists B, k = (acc + Z.of_nat (length B))%Z /\ rect n B /\ sub n B M /\ sub n M B /\ tri B.
Proof.
  intros n. induction fuel as [|f IH]; intros M acc k R HL H.
  - destruct M; simpl in *; [|lia]. injection H as <-.
    exists []. split; [simpl; lia|]. split; [constructor|]. split; [intros r []|]. split; [intros r []|constructor].
  - destruct (list_eq_dec (list_eq_dec bool_dec) M []) as [->|NE].
    + simpl in H. injection H as <-.
      exists []. split; [simpl; lia|]. split; [constructor|]. split; [intros r []|]. split; [intros r []|constructor].
    + destruct (exists_last NE) as (M' & pv & ->).
      rewrite rank_loop_snoc in H.
      rewrite app_length in HL. simpl in HL.
      assert (R' : rect n M') by (unfold rect in *; apply Forall_app in R; apply R).
      assert (Lpv : length pv = n).
      { unfold rect in R. apply Forall_app in R. destruct R as [_ R]. inversion R; auto. }
      destruct (existsb (fun b => b) pv) eqn:EX.
      * destruct (last_true pv) as [lsb|] eqn:LT; try discriminate.
        apply last_true_some in LT.
        assert (RU : rect n (rank_upd lsb pv M')).
        { unfold rect, rank_upd in *. rewrite Forall_forall in *. intros r Hr.
          apply in_map_iff in Hr. destruct Hr as (r0 & <- & Hr0).
          destruct (nth lsb r0 false); [rewrite xorv_length; rewrite (R' r0); auto | auto]. }
        assert (ZU : forall r, In r (rank_upd lsb pv M') -> nth lsb r false = false).
        { intros r Hr. apply in_map_iff in Hr. destruct Hr as (r0 & <- & Hr0).
          destruct (nth lsb r0 false) eqn:E; auto.
          rewrite nth_xorv, E, LT; auto.
          unfold rect in R'. rewrite Forall_forall in R'. rewrite (R' r0); auto. }
        apply IH in H; auto; [|unfold rank_upd; rewrite map_length; lia].
        destruct H as (B & -> & RB & S1 & S2 & T).
        exists (pv :: B). split; [simpl length; lia|]. split; [constructor; auto|].
        assert (SU : sub n (rank_upd lsb pv M') (M' ++ [pv])).
        { intros r Hr. apply in_map_iff in Hr. destruct Hr as (r0 & <- & Hr0).
          destruct (nth lsb r0 false).
          - apply sp_xor; apply sp_in; apply in_or_app; simpl; auto.
          - apply sp_in. apply in_or_app. auto. }
        split; [|split].
        -- intros r [<-|Hr]; [apply sp_in; apply in_or_app; simpl; auto|].
           eapply span_sub; [exact SU|]. apply S1. auto.
        -- intros r Hr. apply in_app_or in Hr. destruct Hr as [Hr|[<-|[]]]; [|apply sp_in; simpl; auto].
           assert (SB : span n (pv :: B) (if nth lsb r false then xorv r pv else r)).
           { eapply span_sub; [|apply S2; unfold rank_upd; apply in_map_iff; exists r; split; [reflexivity|auto]].
             apply sub_incl. simpl. auto. }
           destruct (nth lsb r false); auto.
           assert (Lr : length r = n) by (unfold rect in R'; rewrite Forall_forall in R'; auto).
           rewrite <- (xorv_cancel r pv) by lia.
           apply sp_xor; auto. apply sp_in. simpl. auto.
        -- apply tri_cons with (l := lsb); auto.
           intros r Hr. apply (span_bit_zero n lsb (rank_upd lsb pv M')); auto.
      * apply IH in H; auto; [|lia].
        destruct H as (B & -> & RB & S1 & S2 & T).
        exists B. repeat split; auto.
        -- eapply sub_trans; [exact S1|]. apply sub_incl. intros r Hr. apply in_or_app. auto.
        -- intros r Hr. apply in_app_or in Hr. destruct Hr as [Hr|[<-|[]]]; auto.
           rewrite (existsb_id_false _ EX), Lpv. apply sp_zero.
Qed.

Lemma rank_basis_lemma : forall n M k, rect n M -> rank M = Some k ->
  exists B, k = Z.of_nat (length B) /\ rect n B /\ row_equiv n M B /\ independent n B.
Proof.
  intros n M k R H. unfold rank in H.
  apply (rank_loop_basis n) in H; auto.
  destruct H as (B & -> & RB & S1 & S2 & T).
  exists B. repeat split; auto. apply tri_indep; auto.
Qed.

Lemma last_true_none : forall l, last_true l = None -> existsb (fun b : bool => b) l = false.
Proof.
  induction l as [|b l IH]; simpl; intros H; auto.
  destruct (last_true l); try discriminate. destruct b; try discriminate. simpl. auto.
Qed.

Lemma rank_loop_total : forall fuel M acc, length M <= fuel -> exists k, rank_loop fuel M acc = Some k.
Proof.
  induction fuel as [|f IH]; intros M acc H.
  - destruct M; simpl in *; [eauto | lia].
  - destruct (list_eq_dec (list_eq_dec bool_dec) M []) as [->|NE]; [simpl; eauto|].
    destruct (exists_last NE) as (M' & pv & ->).
    rewrite rank_loop_snoc. rewrite app_length in H. simpl in H.
    destruct (existsb (fun b => b) pv) eqn:EX.
    + destruct (last_true pv) eqn:LT.
      * apply IH. unfold rank_upd. rewrite map_length. lia.
      * apply last_true_none in LT. congruence.
    + apply IH. lia.
Qed.

Lemma rank_total_lemma : forall M, exists k, rank M = Some k.
Proof. intros. unfold rank. apply rank_loop_total. auto. Qed.
