(* Model of pennylane/noise: fold_global (mitigate.py), add_noise (add_noise.py + conditionals.py +
   noise_model.py), insert (insert_ops.py) and exact polynomial extrapolation at 0 (the exact-arithmetic
   meaning of richardson_extrapolate / poly_extrapolate with order = n-1).
   No proofs here: this file must keep running for the correspondence check even when a proof breaks. *)
From Coq Require Import List ZArith Bool QArith Qabs.
Import ListNotations.
Open Scope Z_scope.

(* ---------------------------------------------------------------- gate alphabet *)
(* name / wires / parameter code.  Chan = instance of Channel.  Adj g = Adjoint(g) (lazy wrapper). *)
Inductive gate :=
| Base (name : Z) (wires : list Z) (param : Z)
| Chan (name : Z) (wires : list Z) (param : Z)
| Adj (g : gate).

Fixpoint eq_lz (a b : list Z) : bool :=
  match a, b with [], [] => true | x :: r, y :: s => (x =? y) && eq_lz r s | _, _ => false end.

Fixpoint gate_eqb (a b : gate) : bool :=
  match a, b with
  | Base n w p, Base n' w' p' => (n =? n') && eq_lz w w' && (p =? p')
  | Chan n w p, Chan n' w' p' => (n =? n') && eq_lz w w' && (p =? p')
  | Adj x, Adj y => gate_eqb x y
  | _, _ => false
  end.

Fixpoint eq_lg (a b : list gate) : bool :=
  match a, b with [], [] => true | x :: r, y :: s => gate_eqb x y && eq_lg r s | _, _ => false end.

Definition eq_olg (a b : option (list gate)) : bool :=
  match a, b with None, None => true | Some x, Some y => eq_lg x y | _, _ => false end.

(* isinstance(op, Channel): an Adjoint wrapper around a channel is NOT a Channel instance *)
Definition is_channel (g : gate) : bool := match g with Chan _ _ _ => true | _ => false end.

Fixpoint gwires (g : gate) : list Z :=
  match g with Base _ w _ => w | Chan _ w _ => w | Adj x => gwires x end.
(* class code of the operator: an Adjoint wrapper has its own class (never one of the leaf codes) *)
Definition gname (g : gate) : Z := match g with Base n _ _ => n | Chan n _ _ => n | Adj _ => -1 end.
Definition gparam (g : gate) : Z := match g with Base _ _ p => p | Chan _ _ p => p | Adj _ => 0 end.

(* ---------------------------------------------------------------- fold_global *)
(* scale_factor = p/q with q > 0.
   _divmod(scale_factor - 1, 2): out1 = floor((s-1)/2), out2 = (s-1) - 2*out1 = fold_fnum/q *)
Definition fold_k (p q : Z) : Z := (p - q) / (2 * q).
Definition fold_fnum (p q : Z) : Z := (p - q) - fold_k p q * (2 * q).

(* numpy round = round-half-to-even of a/b, b > 0 *)
Definition round_half_even (a b : Z) : Z :=
  let f := a / b in
  let r := a - f * b in
  if 2 * r <? b then f
  else if b <? 2 * r then f + 1
  else if Z.even f then f else f + 1.

(* num_to_fold = int(round(fraction_scale * n_ops / 2)) *)
Definition fold_m (p q : Z) (n : Z) : Z := round_half_even (fold_fnum p q * n) (2 * q).

(* python list * k  (k <= 0 gives []) *)
Fixpoint rep_list {A} (k : nat) (l : list A) : list A :=
  match k with O => [] | S j => l ++ rep_list j l end.

Definition fold_global (ops : list gate) (p q : Z) : option (list gate) :=
  if existsb is_channel ops then None            (* ValueError *)
  else
    let k := fold_k p q in
    let m := fold_m p q (Z.of_nat (length ops)) in
    let adjoints := map Adj ops in
    let out := ops ++ rep_list (Z.to_nat k) (rev adjoints ++ ops) in
    Some (if m =? 0 then out
          else out ++ firstn (Z.to_nat m) (rev adjoints)               (* adjoints[: -m-1 : -1] *)
                   ++ skipn (length ops - Z.to_nat m) ops).            (* base_ops[-m:] *)

(* ---------------------------------------------------------------- add_noise *)
(* a noise model is a list of (conditional, noise function) pairs, in dict order *)
Definition noise_model := list ((gate -> bool) * (gate -> list gate)).

(* noise_ops.index(operation) / any(equal(operation, o) for o in noise_ops) *)
Fixpoint index_of (g : gate) (l : list gate) : option nat :=
  match l with
  | [] => None
  | x :: r => if gate_eqb g x then Some O else match index_of g r with Some i => Some (S i) | None => None end
  end.

Definition apply_pair (operation : gate) (curr : list gate) (cn : (gate -> bool) * (gate -> list gate)) : list gate :=
  if fst cn operation then
    let noise_ops := snd cn operation in
    if existsb (gate_eqb operation) noise_ops then
      match index_of operation noise_ops with
      | Some i => firstn i noise_ops ++ curr ++ skipn (S i) noise_ops
      | None => curr                                                   (* unreachable *)
      end
    else curr ++ noise_ops
  else curr.

Definition add_noise (model : noise_model) (ops : list gate) : list gate :=
  flat_map (fun operation => fold_left (apply_pair operation) model [operation]) ops.

(* --- concrete conditionals (conditionals.py) and noise functions used by the correspondence --- *)
Inductive cond :=
| COpEq (n : Z) | COpIn (ns : list Z) | CWiresIn (ws : list Z) | CWiresEq (ws : list Z)
| CParamLt (t : Z)
| CAnd (a b : cond) | COr (a b : cond) | CXor (a b : cond) | CNot (a : cond).

Definition memz (x : Z) (l : list Z) : bool := existsb (Z.eqb x) l.
Definition subsetz (a b : list Z) : bool := forallb (fun x => memz x b) a.

Fixpoint eval_cond (c : cond) (g : gate) : bool :=
  match c with
  | COpEq n => gname g =? n
  | COpIn ns => memz (gname g) ns
  | CWiresIn ws => subsetz (gwires g) ws
  | CWiresEq ws => subsetz (gwires g) ws && subsetz ws (gwires g)
  | CParamLt t => gparam g <? t
  | CAnd a b => eval_cond a g && eval_cond b g
  | COr a b => eval_cond a g || eval_cond b g
  | CXor a b => xorb (eval_cond a g) (eval_cond b g)
  | CNot a => negb (eval_cond a g)
  end.

Definition mkg (ch : bool) (n : Z) (w : list Z) (p : Z) : gate := if ch then Chan n w p else Base n w p.

Inductive nitem :=
| NSelf                               (* qp.apply(op) *)
| NEach (ch : bool) (n p : Z)         (* one single-wire operator per wire of op *)
| NFixed (g : gate)                   (* a fixed operator *)
| NCopy (n : Z).                      (* gate n on op.wires[0] with op's own parameter *)

Inductive nfun :=
| NPartial (n p : Z)                  (* partial_wires(<1-wire channel class>, p) *)
| NCustom (items : list nitem).

Definition eval_nitem (g : gate) (it : nitem) : list gate :=
  match it with
  | NSelf => [g]
  | NEach ch n p => map (fun w => mkg ch n [w] p) (gwires g)
  | NFixed h => [h]
  | NCopy n => [Base n [hd 0 (gwires g)] (gparam g)]
  end.

Definition eval_nfun (f : nfun) (g : gate) : list gate :=
  match f with
  | NPartial n p => map (fun w => Chan n [w] p) (gwires g)
  | NCustom items => flat_map (eval_nitem g) items
  end.

Definition eval_model (m : list (cond * nfun)) : noise_model :=
  map (fun cf => (eval_cond (fst cf), eval_nfun (snd cf))) m.

(* ---------------------------------------------------------------- insert *)
Inductive position := PStart | PEnd | PAll | POps (classes : list Z) | PBad.

(* class codes: 0 = Operation (every operator), 1 = Channel, otherwise a leaf class = its name code *)
Definition isa (g : gate) (c : Z) : bool :=
  (c =? 0) || ((c =? 1) && is_channel g) || (gname g =? c).

(* StatePrepBase instances: name codes 10 (BasisState) and 11 (StatePrep) *)
Definition is_prep (g : gate) : bool :=
  match g with Base n _ _ => (n =? 10) || (n =? 11) | _ => false end.

Fixpoint num_preps (ops : list gate) : nat :=
  match ops with g :: r => if is_prep g then S (num_preps r) else O | [] => O end.

(* Wires.all_wires: union preserving first occurrence *)
Fixpoint add_wires (acc ws : list Z) : list Z :=
  match ws with [] => acc | w :: r => add_wires (if memz w acc then acc else acc ++ [w]) r end.
Definition tape_wires (ops : list gate) (mw : list Z) : list Z :=
  add_wires (fold_left (fun acc g => add_wires acc (gwires g)) ops []) mw.

Definition is_pos (a b : position) : bool :=
  match a, b with PStart, PStart => true | PEnd, PEnd => true | PAll, PAll => true | _, _ => false end.

(* one iteration of `for circuit_op in tape.operations[tape.num_preps:]` *)
Definition insert_step (mk : Z -> list gate) (pos : position) (before : bool)
           (new_operations : list gate) (circuit_op : gate) : list gate :=
  let a1 := if before then new_operations else new_operations ++ [circuit_op] in
  let a2 := if is_pos pos PAll then a1 ++ flat_map mk (gwires circuit_op) else a1 in
  let a3 := match pos with
            | POps req_ops =>
                fold_left (fun acc operation =>
                             if isa circuit_op operation then acc ++ flat_map mk (gwires circuit_op) else acc)
                          req_ops a2
            | _ => a2
            end in
  if before then a3 ++ [circuit_op] else a3.

Definition insert_ops (mk : Z -> list gate) (pos : position) (before : bool)
           (ops : list gate) (mw : list Z) : list gate :=
  let np := num_preps ops in
  let tw := tape_wires ops mw in
  let a0 := firstn np ops in
  let a1 := if is_pos pos PStart then a0 ++ flat_map mk tw else a0 in
  let a2 := fold_left (insert_step mk pos before) (skipn np ops) a1 in
  if is_pos pos PEnd then a2 ++ flat_map mk tw else a2.

(* the inserted operation: a class (is_func = false, num_wires = nw) or a quantum function; applied
   on wire w it queues the template items on that wire *)
Definition mk_of (tmpl : list (bool * Z * Z)) (w : Z) : list gate :=
  map (fun t => mkg (fst (fst t)) (snd (fst t)) [w] (snd t)) tmpl.

Definition insert_run (is_func : bool) (nw : Z) (tmpl : list (bool * Z * Z)) (pos : position)
           (before : bool) (ops : list gate) (mw : list Z) : option (list gate) :=
  if negb is_func && negb (nw =? 1) then None          (* ValueError: only single-qubit operations *)
  else match pos with
       | PBad => None                                  (* ValueError: position *)
       | _ => Some (insert_ops (mk_of tmpl) pos before ops mw)
       end.

(* ---------------------------------------------------------------- exact extrapolation to 0 over Q *)
(* polynomial with coefficient list c (constant term first) evaluated at x *)
Fixpoint peval (c : list Q) (x : Q) : Q :=
  match c with [] => 0%Q | a :: t => (a + x * peval t x)%Q end.

(* value at 0 of the polynomial of degree <= n-1 through the n data points (Newton's divided
   differences evaluated at 0): p(0) = y0 - x0 * q(0) where q(x) = (p(x) - y0)/(x - x0) *)
Fixpoint extrap (fuel : nat) (d : list (Q * Q)) : Q :=
  match fuel, d with
  | S k, (x0, y0) :: rest =>
      (y0 - x0 * extrap k (map (fun xy => (fst xy, (snd xy - y0) / (fst xy - x0))%Q) rest))%Q
  | _, _ => 0%Q
  end.

Definition richardson (d : list (Q * Q)) : Q := extrap (length d) d.

(* ---------------------------------------------------------------- specification vocabulary *)
(* semantics of a circuit in an arbitrary structure (G, op, inv, e): Adjoint = formal inverse *)
Fixpoint denote {G : Type} (inv : G -> G) (den : bool -> Z -> list Z -> Z -> G) (g : gate) : G :=
  match g with
  | Base n w p => den false n w p
  | Chan n w p => den true n w p
  | Adj x => inv (denote inv den x)
  end.
Definition gprod {G : Type} (op : G -> G -> G) (inv : G -> G) (e : G)
           (den : bool -> Z -> list Z -> Z -> G) (l : list gate) : G :=
  fold_right (fun g acc => op (denote inv den g) acc) e l.

(* add_noise: what a pair contributes for an operator; the part queued ahead of / behind a re-queued op *)
Definition sel (operation : gate) (cn : (gate -> bool) * (gate -> list gate)) : list gate :=
  if fst cn operation then snd cn operation else [].
Definition pre_of (g : gate) (l : list gate) : list gate :=
  match index_of g l with Some i => firstn i l | None => [] end.
Definition post_of (g : gate) (l : list gate) : list gate :=
  match index_of g l with Some i => skipn (S i) l | None => l end.
Definition noise_before (model : noise_model) (g : gate) : list gate :=
  concat (rev (map (fun cn => pre_of g (sel g cn)) model)).
Definition noise_after (model : noise_model) (g : gate) : list gate :=
  concat (map (fun cn => post_of g (sel g cn)) model).
Definition noise_block (model : noise_model) (g : gate) : list gate :=
  noise_before model g ++ [g] ++ noise_after model g.

(* insert: the operators inserted next to circuit operator g *)
Definition ins_of (mk : Z -> list gate) (pos : position) (g : gate) : list gate :=
  (if is_pos pos PAll then flat_map mk (gwires g) else []) ++
  match pos with
  | POps cl => flat_map (fun c => if isa g c then flat_map mk (gwires g) else []) cl
  | _ => []
  end.
Definition insert_block (mk : Z -> list gate) (pos : position) (before : bool) (g : gate) : list gate :=
  if before then ins_of mk pos g ++ [g] else g :: ins_of mk pos g.
Definition insert_spec (mk : Z -> list gate) (pos : position) (before : bool)
           (ops : list gate) (mw : list Z) : list gate :=
  let np := num_preps ops in
  firstn np ops
  ++ (if is_pos pos PStart then flat_map mk (tape_wires ops mw) else [])
  ++ flat_map (insert_block mk pos before) (skipn np ops)
  ++ (if is_pos pos PEnd then flat_map mk (tape_wires ops mw) else []).

(* pairwise distinct nodes (w.r.t. rational equality) *)
Fixpoint distinctQ (l : list Q) : Prop :=
  match l with [] => True | x :: r => Forall (fun y => ~ (y == x)%Q) r /\ distinctQ r end.

(* ---------------------------------------------------------------- correspondence cases *)
Inductive tcase :=
| TFold (ops : list gate) (p q : Z) (expected : option (list gate))
| TNoise (model : list (cond * nfun)) (ops : list gate) (expected : list gate)
| TInsert (is_func : bool) (nw : Z) (tmpl : list (bool * Z * Z)) (pos : position) (before : bool)
          (ops : list gate) (mw : list Z) (expected : option (list gate))
| TExtrap (d : list (Q * Q)) (res tol : Q).

Definition check_case (c : tcase) : bool :=
  match c with
  | TFold ops p q e => eq_olg (fold_global ops p q) e
  | TNoise m ops e => eq_lg (add_noise (eval_model m) ops) e
  | TInsert f nw t pos b ops mw e => eq_olg (insert_run f nw t pos b ops mw) e
  | TExtrap d res tol => Qle_bool (Qabs (res - richardson d)) tol
  end.
