(* C16: executable model of pennylane/ops/op_math/decompositions/rings.py (ZSqrtTwo, ZOmega,
   DyadicMatrix, SO3Matrix) and of the deterministic parts of norm_solver.py
   (_primality_test, _legendre_symbol, _sqrt_modulo_p, _gcd, _factorize_prime_*, the body of
   _solve_diophantine with the randomised factoring results as explicit oracle arguments).
   Transcribed operation by operation, quirks included.  No proofs in this file. *)
From Coq Require Import List ZArith Bool Zpow_facts.
Import ListNotations.
Open Scope Z_scope.

(* result of a Python call: a value, or "raised" (any exception, or loop fuel exhausted) *)
Inductive res (A : Type) : Type := Ok (a : A) | Err.
Arguments Ok {A} a.
Arguments Err {A}.
Definition bind {A B} (r : res A) (f : A -> res B) : res B :=
  match r with Ok a => f a | Err => Err end.
Notation "'do' x <- r ; k" := (bind r (fun x => k)) (at level 200, x pattern, r at level 100, k at level 200).

(* loop fuel derived from the size of the data: enough for every halving loop below *)
Definition fuel_of (n : Z) : nat := Z.to_nat (2 * Z.log2 (Z.abs n + 1) + 8).

(* ------------------------------------------------------------------ ZSqrtTwo *)
Record zs : Type := ZS { sa : Z; sb : Z }.
Definition zs_zero := ZS 0 0.
Definition zs_one := ZS 1 0.
Definition zs_add (x y : zs) := ZS (sa x + sa y) (sb x + sb y).
Definition zs_addz (x : zs) (n : Z) := ZS (sa x + n) (sb x).
Definition zs_neg (x : zs) := ZS (- sa x) (- sb x).
Definition zs_sub (x y : zs) := zs_add x (zs_neg y).              (* self + (-other) *)
Definition zs_mul (x y : zs) := ZS (sa x * sa y + 2 * sb x * sb y) (sa x * sb y + sb x * sa y).
Definition zs_mulz (x : zs) (n : Z) := ZS (sa x * n) (sb x * n).
Definition zs_rsubz (n : Z) (x : zs) := zs_addz (zs_neg x) n.     (* other + (-self) via __radd__ *)
Definition zs_eq (x y : zs) : bool := (sa x =? sa y) && (sb x =? sb y).
Definition zs_eqz (x : zs) (n : Z) : bool := (sa x =? n) && (sb x =? 0).
Definition zs_abs (x : zs) : Z := sa x * sa x - 2 * (sb x * sb x).
Definition zs_conj (x : zs) := ZS (sa x) (sb x).
Definition zs_adj2 (x : zs) := ZS (sa x) (- sb x).
(* result = self; while power > 1: result *= self *)
Fixpoint zs_pow_nat (x : zs) (n : nat) : zs :=
  match n with O => x | S k => zs_mul (zs_pow_nat x k) x end.
Definition zs_pow (x : zs) (p : Z) : res zs :=
  if p =? 0 then Ok zs_one else if p <? 0 then Err else Ok (zs_pow_nat x (Z.to_nat (p - 1))).
Definition zs_truediv_z (x : zs) (n : Z) : res zs :=
  if n =? 0 then Err
  else if (sa x mod n =? 0) && (sb x mod n =? 0) then Ok (ZS (sa x / n) (sb x / n)) else Err.
Definition zs_truediv (x y : zs) : res zs := zs_truediv_z (zs_mul x (zs_adj2 y)) (zs_abs y).
Definition zs_floordiv_z (x : zs) (n : Z) : res zs :=
  if n =? 0 then Err else Ok (ZS (sa x / n) (sb x / n)).
Definition zs_modz (x : zs) (n : Z) : res zs :=
  if n =? 0 then Err else Ok (ZS (sa x mod n) (sb x mod n)).
(* round(n / d): nearest integer, ties to even.  Exact for the float division Python performs
   whenever |n|, |d| < 2^52 (the harness keeps __mod__ operands in that range). *)
Definition round_div (n d : Z) : Z :=
  let q := n / d in let r := n mod d in
  match Z.compare (2 * Z.abs r) (Z.abs d) with
  | Lt => q | Gt => q + 1 | Eq => if Z.even q then q else q + 1 end.
Definition zs_mod (x y : zs) : res zs :=
  if zs_eq x zs_zero || zs_eq x y then Ok zs_zero else
  let d := zs_abs y in
  if d =? 0 then Err else
  let n1 := sa x * sa y - 2 * sb x * sb y in
  let n2 := sb x * sa y - sa x * sb y in
  let dv := ZS (n1 / d) (n2 / d) in
  if negb (zs_eq dv zs_zero) then Ok (zs_sub x (zs_mul dv y)) else
  let dva := Z.max (round_div n1 d) (sa dv) in
  let dvb := if dva =? sa dv then Z.max (round_div n2 d) (sb dv) else sb dv in
  let r := zs_sub x (zs_mul (ZS dva dvb) y) in
  Ok (if negb (dva =? sa dv) || negb (dvb =? sb dv) then zs_mulz r (-1) else zs_mulz r 1).
Definition isqrt (n : Z) : res Z := if n <? 0 then Err else Ok (Z.sqrt n).
Definition zs_sqrt_try (self : zs) (x y : Z) (k : option zs) : option zs :=
  let zrt := ZS x y in
  if zs_eq (zs_mul zrt zrt) self then Some zrt
  else let art := zs_adj2 zrt in
       if zs_eq (zs_mul art art) self then Some art else k.
Definition zs_sqrt (x : zs) : res (option zs) :=
  let d := zs_abs x in
  let r := Z.sqrt (Z.max d 0) in
  if negb (r * r =? d) then Ok None else
  do x1 <- isqrt ((sa x + r) / 2); do x2 <- isqrt ((sa x - r) / 2);
  do y1 <- isqrt ((sa x - r) / 4); do y2 <- isqrt ((sa x + r) / 4);
  Ok (zs_sqrt_try x x1 y1 (zs_sqrt_try x x2 y2 None)).

(* ------------------------------------------------------------------ ZOmega *)
Record zo : Type := ZO { oa : Z; ob : Z; oc : Z; od : Z }.
Definition zo_zero := ZO 0 0 0 0.
Definition zo_one := ZO 0 0 0 1.
Definition zs_to_omega (x : zs) := ZO (- sb x) 0 (sb x) (sa x).
Definition zo_abs (x : zo) : Z :=
  let '(ZO a b c d) := x in
  (a * a + b * b + c * c + d * d) * (a * a + b * b + c * c + d * d)
  - 2 * ((a * b + b * c + c * d - d * a) * (a * b + b * c + c * d - d * a)).
Definition zo_mul (x y : zo) : zo :=
  let '(ZO a b c d) := x in let '(ZO a' b' c' d') := y in
  ZO (a * d' + b * c' + c * b' + d * a')
     (b * d' + c * c' + d * b' - a * a')
     (c * d' + d * c' - a * b' - b * a')
     (d * d' - a * c' - b * b' - c * a').
Definition zo_mulz (x : zo) (n : Z) := ZO (oa x * n) (ob x * n) (oc x * n) (od x * n).
Definition zo_add (x y : zo) := ZO (oa x + oa y) (ob x + ob y) (oc x + oc y) (od x + od y).
Definition zo_addz (x : zo) (n : Z) := ZO (oa x) (ob x) (oc x) (od x + n).
Definition zo_neg (x : zo) := ZO (- oa x) (- ob x) (- oc x) (- od x).
Definition zo_sub (x y : zo) := zo_add x (zo_neg y).
Definition zo_rsubz (n : Z) (x : zo) := zo_addz (zo_neg x) n.
Definition zo_eq (x y : zo) : bool :=
  (oa x =? oa y) && (ob x =? ob y) && (oc x =? oc y) && (od x =? od y).
Definition zo_eqz (x : zo) (n : Z) : bool := (oa x =? 0) && (ob x =? 0) && (oc x =? 0) && (od x =? n).
Fixpoint zo_pow_nat (x : zo) (n : nat) : zo :=
  match n with O => x | S k => zo_mul (zo_pow_nat x k) x end.
Definition zo_pow (x : zo) (p : Z) : res zo :=
  if p <? 0 then Err else if p =? 0 then Ok zo_one else Ok (zo_pow_nat x (Z.to_nat (p - 1))).
(* __truediv__ uses float division of the coefficients; exact (and modelled) only while the
   quotients are below 2^53 *)
Definition zo_truediv_z (x : zo) (n : Z) : res zo :=
  if n =? 0 then Err
  else if (oa x mod n =? 0) && (ob x mod n =? 0) && (oc x mod n =? 0) && (od x mod n =? 0)
       then Ok (ZO (oa x / n) (ob x / n) (oc x / n) (od x / n)) else Err.
Definition zo_floordiv_z (x : zo) (n : Z) : res zo :=
  if n =? 0 then Err else Ok (ZO (oa x / n) (ob x / n) (oc x / n) (od x / n)).
Definition zo_conj (x : zo) := ZO (- oc x) (- ob x) (- oa x) (od x).
Definition zo_adj2 (x : zo) := ZO (- oa x) (ob x) (- oc x) (od x).
Definition zo_norm (x : zo) := zo_mul x (zo_conj x).
Definition zo_parity (x : zo) : Z := (oa x + oc x) mod 2.
Definition zo_to_sqrt_two (x : zo) : res zs :=
  if (oc x + oa x =? 0) && (ob x =? 0) then Ok (ZS (od x) ((oc x - oa x) / 2)) else Err.
Definition zo_from_sqrt_pair (al be : zs) (shift : zo) : zo :=
  zo_add (ZO (sb be - sb al) (sa be) (sb be + sb al) (sa al)) shift.
Definition zo_mod (x y : zo) : res zo :=
  let d := zo_abs y in
  if d =? 0 then Err else
  let n := zo_mul (zo_mul x (zo_conj y)) (zo_adj2 (zo_mul y (zo_conj y))) in
  let r := zo_mul y (ZO ((oa n + d / 2) / d) ((ob n + d / 2) / d) ((oc n + d / 2) / d) ((od n + d / 2) / d)) in
  Ok (if zo_abs x >? zo_abs r then zo_sub x r else zo_sub r x).
Definition zo_sqrt2able (s : zo) : bool := ((oa s + oc s) mod 2 =? 0) && ((ob s + od s) mod 2 =? 0).
Definition zo_div_sqrt2 (s : zo) : zo :=
  ZO ((ob s - od s) / 2) ((oa s + oc s) / 2) ((ob s + od s) / 2) ((oc s - oa s) / 2).
Definition zo_size (x : zo) : Z := Z.abs (oa x) + Z.abs (ob x) + Z.abs (oc x) + Z.abs (od x).
(* normalize(): loops forever on 0 in Python; here the fuel runs out -> Err *)
Fixpoint zo_normalize_loop (fuel : nat) (r : zo) (ix : Z) : res (zo * Z) :=
  match fuel with
  | O => Err
  | S f => if zo_sqrt2able r then zo_normalize_loop f (zo_div_sqrt2 r) (ix + 1) else Ok (r, ix)
  end.
Definition zo_normalize (x : zo) : res (zo * Z) := zo_normalize_loop (fuel_of (zo_size x)) x 0.

(* ------------------------------------------------------------------ DyadicMatrix *)
Record dm : Type := DM { ma : zo; mb : zo; mc : zo; md : zo; mk : Z }.
Definition dm_all (f : zo -> bool) (m : dm) : bool := f (ma m) && f (mb m) && f (mc m) && f (md m).
Definition dm_map (f : zo -> zo) (m : dm) (k : Z) : dm := DM (f (ma m)) (f (mb m)) (f (mc m)) (f (md m)) k.
Definition zo_even (s : zo) : bool :=
  (oa s mod 2 =? 0) && (ob s mod 2 =? 0) && (oc s mod 2 =? 0) && (od s mod 2 =? 0).
Definition zo_half (s : zo) : zo := ZO (oa s / 2) (ob s / 2) (oc s / 2) (od s / 2).
Definition dm_size (m : dm) : Z := zo_size (ma m) + zo_size (mb m) + zo_size (mc m) + zo_size (md m).
Fixpoint dm_norm_two (fuel : nat) (m : dm) : res dm :=
  match fuel with
  | O => Err
  | S f => if dm_all zo_even m then dm_norm_two f (dm_map zo_half m (mk m - 2)) else Ok m
  end.
Fixpoint dm_norm_sqrt (fuel : nat) (m : dm) : res dm :=
  match fuel with
  | O => Err
  | S f => if (0 <? mk m) && dm_all zo_sqrt2able m then dm_norm_sqrt f (dm_map zo_div_sqrt2 m (mk m - 1))
           else Ok m
  end.
Definition dm_normalize (m : dm) : res dm :=
  if dm_all (fun s => zo_eq zo_zero s) m then Ok (DM (ma m) (mb m) (mc m) (md m) 0)
  else do m1 <- dm_norm_two (fuel_of (dm_size m)) m; dm_norm_sqrt (fuel_of (dm_size m)) m1.
Definition dm_make (a b c d : zo) (k : Z) : res dm := dm_normalize (DM a b c d k).
Definition dm_neg (m : dm) := dm_normalize (dm_map zo_neg m (mk m)).
Definition dm_mulz (m : dm) (n : Z) := dm_normalize (dm_map (fun s => zo_mulz s n) m (mk m)).
Definition dm_mulo (m : dm) (w : zo) := dm_normalize (dm_map (fun s => zo_mul s w) m (mk m)).
Definition dm_conj (m : dm) := dm_normalize (dm_map zo_conj m (mk m)).
Definition dm_adj2 (m : dm) := dm_normalize (dm_map zo_adj2 m (mk m)).
Definition dm_eq (x y : dm) : bool :=
  zo_eq (ma x) (ma y) && zo_eq (mb x) (mb y) && zo_eq (mc x) (mc y) && zo_eq (md x) (md y) && (mk x =? mk y).
(* one entry of B rescaled to A's denominator exponent *)
Definition dm_rescale (kscale kpar : Z) (s : zo) : zo :=
  let a := oa s * kscale in let b := ob s * kscale in let c := oc s * kscale in let d := od s * kscale in
  if negb (kpar =? 0) then ZO (b - d) (c + a) (b + d) (c - a) else ZO a b c d.
Definition dm_add_raw (x y : dm) : dm :=
  let '(A, B) := if mk x >=? mk y then (x, y) else (y, x) in
  let kscale := 2 ^ ((mk A - mk B) / 2) in
  let kpar := (mk A - mk B) mod 2 in
  DM (zo_add (ma A) (dm_rescale kscale kpar (ma B))) (zo_add (mb A) (dm_rescale kscale kpar (mb B)))
     (zo_add (mc A) (dm_rescale kscale kpar (mc B))) (zo_add (md A) (dm_rescale kscale kpar (md B))) (mk A).
Definition dm_add (x y : dm) : res dm := dm_normalize (dm_add_raw x y).
Definition dm_matmul_raw (x y : dm) : dm :=
  DM (zo_add (zo_mul (ma x) (ma y)) (zo_mul (mb x) (mc y)))
     (zo_add (zo_mul (ma x) (mb y)) (zo_mul (mb x) (md y)))
     (zo_add (zo_mul (mc x) (ma y)) (zo_mul (md x) (mc y)))
     (zo_add (zo_mul (mc x) (mb y)) (zo_mul (md x) (md y)))
     (mk x + mk y).
Definition dm_matmul (x y : dm) : res dm := dm_normalize (dm_matmul_raw x y).
Definition dm_mult2k (m : dm) (k : Z) : res dm :=
  if k =? 0 then Ok m else
  let kval := Z.min 0 (mk m - 2 * k) in
  let kscale := Z.abs (kval mod 2) in
  let escale := 2 ^ ((kscale - kval) / 2) in
  dm_normalize (dm_map (fun s => zo_mulz s escale) m (mk m + kscale)).

(* ------------------------------------------------------------------ SO3Matrix *)
Record so3 : Type := SO3 { s_mat : dm; s_k : Z; s_el : list zs }.
Definition zs_even (s : zs) : bool := (sa s mod 2 =? 0) && (sb s mod 2 =? 0).
Definition so3_size (l : list zs) : Z := fold_right (fun s acc => Z.abs (sa s) + Z.abs (sb s) + acc) 0 l.
Fixpoint so3_norm_two (fuel : nat) (k : Z) (l : list zs) : res (Z * list zs) :=
  match fuel with
  | O => Err
  | S f => if forallb zs_even l then so3_norm_two f (k - 2) (map (fun s => ZS (sa s / 2) (sb s / 2)) l)
           else Ok (k, l)
  end.
Fixpoint so3_norm_sqrt (fuel : nat) (k : Z) (l : list zs) : res (Z * list zs) :=
  match fuel with
  | O => Err
  | S f => if forallb (fun s => sa s mod 2 =? 0) l && (0 <? k)
           then so3_norm_sqrt f (k - 1) (map (fun s => ZS (sb s) (sa s / 2)) l)
           else Ok (k, l)
  end.
Definition so3_normalize (k : Z) (l : list zs) : res (Z * list zs) :=
  if forallb (fun s => (sa s =? 0) && (sb s =? 0)) l then Ok (0, l)
  else do (k1, l1) <- so3_norm_two (fuel_of (so3_size l)) k l; so3_norm_sqrt (fuel_of (so3_size l)) k1 l1.
(* from_matrix: `any(s.parity for s in su2_elems)` tests the bound METHOD objects, which are
   always truthy, so the first branch is the one that runs for every matrix *)
Definition so3_pair (s : zo) : zs * zs := (ZS (oc s - oa s) (od s), ZS (oc s + oa s) (ob s)).
Definition so3_from_matrix (m : dm) : Z * list zs :=
  let '(a0, a1) := so3_pair (ma m) in let '(b0, b1) := so3_pair (mb m) in
  let '(c0, c1) := so3_pair (mc m) in let '(d0, d1) := so3_pair (md m) in
  let M := zs_mul in let P := zs_add in let S := zs_sub in
  (2 * mk m + 2,
   [ P (P (P (M a0 d0) (M a1 d1)) (M b0 c0)) (M b1 c1);
     S (S (P (M a1 d0) (M b0 c1)) (M b1 c0)) (M a0 d1);
     S (S (P (M a0 c0) (M a1 c1)) (M b0 d0)) (M b1 d1);
     S (P (S (M a0 d1) (M a1 d0)) (M b0 c1)) (M b1 c0);
     S (S (P (M a0 d0) (M a1 d1)) (M b0 c0)) (M b1 c1);
     P (S (S (M a0 c1) (M a1 c0)) (M b0 d1)) (M b1 d0);
     zs_mulz (P (M a0 b0) (M a1 b1)) 2;
     zs_mulz (S (M a1 b0) (M a0 b1)) 2;
     S (S (P (M a0 a0) (M a1 a1)) (M b0 b0)) (M b1 b1) ]).
Definition so3_make (m : dm) : res so3 :=
  let '(k, l) := so3_from_matrix m in
  do (k', l') <- so3_normalize k l; Ok (SO3 m k' l').
Definition so3_matmul_raw (u v : list zs) : list zs :=
  match u, v with
  | [u0; u1; u2; u3; u4; u5; u6; u7; u8], [v0; v1; v2; v3; v4; v5; v6; v7; v8] =>
    let M := zs_mul in let P := zs_add in
    [ P (P (M u0 v0) (M u1 v3)) (M u2 v6); P (P (M u0 v1) (M u1 v4)) (M u2 v7); P (P (M u0 v2) (M u1 v5)) (M u2 v8);
      P (P (M u3 v0) (M u4 v3)) (M u5 v6); P (P (M u3 v1) (M u4 v4)) (M u5 v7); P (P (M u3 v2) (M u4 v5)) (M u5 v8);
      P (P (M u6 v0) (M u7 v3)) (M u8 v6); P (P (M u6 v1) (M u7 v4)) (M u8 v7); P (P (M u6 v2) (M u7 v5)) (M u8 v8) ]
  | _, _ => []
  end.
Definition so3_matmul (x y : so3) : res so3 :=
  do m <- dm_matmul (s_mat x) (s_mat y);
  do (k', l') <- so3_normalize (s_k x + s_k y) (so3_matmul_raw (s_el x) (s_el y));
  Ok (SO3 m k' l').
Definition so3_parity_mat (x : so3) : list Z := map (fun s => sa s mod 2) (s_el x).
Definition so3_parity_vec (x : so3) : list Z :=
  match so3_parity_mat x with
  | [p0; p1; p2; p3; p4; p5; p6; p7; p8] => [p0 + p1 + p2; p3 + p4 + p5; p6 + p7 + p8]
  | _ => []
  end.

(* ------------------------------------------------------------------ norm_solver.py *)
Definition small_ps : list Z :=
  [5; 7; 11; 13; 17; 19; 23; 29; 31; 37; 41; 43; 47; 53; 59; 61; 67; 71; 73; 79; 83; 89; 97].
Definition mr_bases : list Z := [2; 325; 9375; 28178; 450775; 9780504; 1795265022].
(* d, s = n, 0; while d & 1 == 0: d >>= 1; s += 1 *)
Fixpoint split_two (fuel : nat) (d s : Z) : res (Z * Z) :=
  match fuel with
  | O => Err
  | S f => if Z.even d then split_two f (d / 2) (s + 1) else Ok (d, s)
  end.
Definition powmod (a e n : Z) : Z := Zpow_mod a e n.     (* pow(a, e, n) for e >= 0, n > 0 *)
(* the inner squaring loop; None = "return False" *)
Fixpoint mr_sq (k : nat) (x n : Z) : option Z :=
  match k with
  | O => Some x
  | S k' => let x' := (x * x) mod n in
            if x' =? 1 then None else if x' =? n - 1 then Some x' else mr_sq k' x' n
  end.
Definition mr_base (n d s base : Z) : bool :=
  let b := if base <? n then base else base mod n in
  if (b =? 0) || (b <? 2) then true else
  let x := powmod b d n in
  if (x =? 1) || (x =? n - 1) then true else
  match mr_sq (Z.to_nat (s - 1)) x n with None => false | Some x' => x' =? n - 1 end.
Definition primality_test (n : Z) : res bool :=
  if (n <? 2) || (n =? 4) then Ok false else
  if n <? 4 then Ok true else
  if existsb (Z.eqb n) small_ps then Ok true else
  if existsb (fun p => n mod p =? 0) small_ps then Ok false else
  do (d, s) <- split_two (fuel_of n) (n - 1) 0;
  Ok (forallb (mr_base n d s) mr_bases).

(* independent oracle: trial division *)
Fixpoint no_divisor (fuel : nat) (d n : Z) : bool :=
  match fuel with
  | O => true
  | S f => if n <? d * d then true else if n mod d =? 0 then false else no_divisor f (d + 1) n
  end.
Definition primeb (n : Z) : bool := (2 <=? n) && no_divisor (Z.to_nat (Z.sqrt n)) 2 n.

Definition legendre (a p : Z) : Z := powmod a ((p - 1) / 2) p.
(* for z in range(2, p): if legendre(z, p) == p - 1: break *)
Fixpoint find_z (fuel : nat) (z p : Z) : res Z :=
  match fuel with
  | O => Err
  | S f => if z >=? p then Ok (p - 1) else if legendre z p =? p - 1 then Ok z else find_z f (z + 1) p
  end.
Fixpoint ts_inner (fuel : nat) (t2 ix m p : Z) : Z * Z :=
  match fuel with
  | O => (t2, ix)
  | S f => if negb (t2 mod p =? 1) && (ix <? m) then ts_inner f ((t2 * t2) mod p) (ix + 1) m p else (t2, ix)
  end.
Fixpoint ts_loop (fuel : nat) (p r c t m : Z) : res (option Z) :=
  match fuel with
  | O => Err
  | S f =>
    if t mod p =? 1 then Ok (Some r) else
    let '(_, ix) := ts_inner (Z.to_nat m) ((t * t) mod p) 1 m p in
    if m - ix - 1 <? 0 then Ok None else
    let b := powmod c (2 ^ (m - ix - 1)) p in
    let r' := (r * b) mod p in
    let c' := (b * b) mod p in
    let t' := (t * c') mod p in
    ts_loop f p r' c' t' ix
  end.
(* modelled for p >= 1 (the callers pass primes); p <= 0 is outside the modelled domain *)
Definition sqrt_mod (n p : Z) : res (option Z) :=
  if p <=? 0 then Err else
  let a := n mod p in
  if a =? 0 then Ok (Some 0) else
  if p =? 2 then Ok (Some a) else
  if negb (legendre a p =? 1) || (p mod 2 =? 0) then Ok None else
  do (q, s) <- split_two (fuel_of p) (p - 1) 0;
  if s =? 1 then Ok (Some (powmod a ((p + 1) / 4) p)) else
  do z <- find_z (Z.to_nat (Z.min p 4000)) 2 p;
  ts_loop (Z.to_nat s + 1) p (powmod a ((q + 1) / 2) p) (powmod z q p) (powmod a q p) s.

(* _gcd on ring elements: Euclid with the classes' own `%` (not a Euclidean remainder in
   general, hence the fuel and no termination claim) *)
Fixpoint zs_gcd (fuel : nat) (x y : zs) : res zs :=
  match fuel with
  | O => Err
  | S f => if zs_eqz y 0 then Ok x else do r <- zs_mod x y; zs_gcd f y r
  end.
Fixpoint zo_gcd (fuel : nat) (x y : zo) : res zo :=
  match fuel with
  | O => Err
  | S f => if zo_eqz y 0 then Ok x else do r <- zo_mod x y; zo_gcd f y r
  end.
Definition gcd_fuel : nat := 3000%nat.
Definition fact_prime_zs (p : Z) : res (option (list zs)) :=
  if Z.abs p =? 2 then Ok (Some [ZS 0 1; ZS 0 (if p <? 0 then -1 else 1)]) else
  if (p mod 8 =? 3) || (p mod 8 =? 5) then Ok (Some [ZS p 0]) else
  do t <- sqrt_mod 2 p;
  match t with
  | None => Ok None
  | Some t => do r <- zs_gcd gcd_fuel (ZS p 0) (ZS (Z.min t (p - t)) 1); Ok (Some [r; zs_adj2 r])
  end.
Definition fact_prime_zo (x : zs) (p : Z) : res (option zo) :=
  if p =? 2 then Ok (Some (ZO 0 0 1 1)) else
  let a := p mod 8 in
  if (a mod 2 =? 0) || (a =? 7) then Ok None else
  if (a =? 1) || (a =? 5) then
    do h <- sqrt_mod (-1) p;
    match h with
    | None => Ok None
    | Some h => do g <- zo_gcd gcd_fuel (ZO 0 1 0 h) (ZO (- sb x) 0 (sb x) (sa x)); Ok (Some g)
    end
  else
    do h <- sqrt_mod (-2) p;
    match h with
    | None => Ok None
    | Some h => do g <- zo_gcd gcd_fuel (ZO 1 0 1 h) (ZO (- sb x) 0 (sb x) (sa x)); Ok (Some g)
    end.

(* the final checks of _solve_diophantine, for an arbitrary accumulated `scale` *)
Definition dioph_tail (scale : zo) (xi : zs) : res (option zo) :=
  do s_val <- zo_to_sqrt_two (zo_mul (zo_conj scale) scale);
  let s_new := zs_mul xi (zs_adj2 s_val) in
  let s_abs := zs_abs s_val in
  if s_abs =? 0 then Err else
  if negb (sa s_new mod s_abs =? 0) || negb (sb s_new mod s_abs =? 0) then Ok None else
  do t2 <- zs_truediv xi s_val;
  if negb (zs_abs t2 * zs_abs t2 =? 1) then Ok None else
  do u <- zs_sqrt t2;
  match u with
  | None => Err                                        (* None.to_omega() *)
  | Some u => Ok (Some (zo_mul scale (zs_to_omega u)))
  end.
(* _solve_diophantine with the factoring loop's outcome as oracle: loop_ok = no early `return None`
   inside the factor loop, ts = the values returned by _factorize_prime_zomega, in order *)
Definition solve_dioph (xi : zs) (loop_ok : bool) (ts : list zo) : res (option zo) :=
  if (sa xi =? 0) && (sb xi =? 0) then Ok (Some zo_zero) else
  if zs_abs xi <? 2 then Ok None else
  if negb loop_ok then Ok None else
  dioph_tail (fold_left zo_mul ts zo_one) xi.
(* the property's own statement for a returned solution *)
Definition is_solution (xi : zs) (t : zo) : bool := zo_eq (zo_mul (zo_conj t) t) (zs_to_omega xi).

(* ------------------------------------------------------------------ correspondence *)
Inductive obs : Type := OErr | ONone | OVal (l : list Z).
Definition fl_s (x : zs) : list Z := [sa x; sb x].
Definition fl_o (x : zo) : list Z := [oa x; ob x; oc x; od x].
Definition fl_d (m : dm) : list Z := fl_o (ma m) ++ fl_o (mb m) ++ fl_o (mc m) ++ fl_o (md m) ++ [mk m].
Definition fl_3 (x : so3) : list Z := s_k x :: flat_map fl_s (s_el x) ++ fl_d (s_mat x).
Definition fl_b (b : bool) : list Z := [if b then 1 else 0].
Definition o_r {A} (f : A -> list Z) (r : res A) : obs := match r with Ok a => OVal (f a) | Err => OErr end.
Definition o_ro {A} (f : A -> list Z) (r : res (option A)) : obs :=
  match r with Ok (Some a) => OVal (f a) | Ok None => ONone | Err => OErr end.

Record rawdm : Type := RD { ra : zo; rb : zo; rc : zo; rd : zo; rk : Z }.
Definition mkd (r : rawdm) : res dm := dm_make (ra r) (rb r) (rc r) (rd r) (rk r).

Inductive opcase : Type :=
| SAdd (x y : zs) | SSub (x y : zs) | SMul (x y : zs) | SNeg (x : zs) | SAddZ (x : zs) (n : Z)
| SMulZ (x : zs) (n : Z) | SRsubZ (n : Z) (x : zs) | SPow (x : zs) (n : Z) | SAbs (x : zs)
| SConj (x : zs) | SAdj2 (x : zs) | SEq (x y : zs) | SDiv (x y : zs) | SDivZ (x : zs) (n : Z)
| SFloorZ (x : zs) (n : Z) | SModZ (x : zs) (n : Z) | SMod (x y : zs) | SSqrt (x : zs)
| SToOmega (x : zs) | SGcd (x y : zs)
| OAdd (x y : zo) | OSub (x y : zo) | OMul (x y : zo) | ONeg (x : zo) | OAddZ (x : zo) (n : Z)
| OMulZ (x : zo) (n : Z) | ORsubZ (n : Z) (x : zo) | OPow (x : zo) (n : Z) | OAbs (x : zo)
| OConj (x : zo) | OAdj2 (x : zo) | ONorm (x : zo) | OEq (x y : zo) | ODivZ (x : zo) (n : Z)
| OFloorZ (x : zo) (n : Z) | OMod (x y : zo) | OFromPair (al be : zs) (sh : zo) | OParity (x : zo)
| OToSqrt2 (x : zo) | ONormalize (x : zo) | OGcd (x y : zo)
| DMk (m : rawdm) | DNeg (m : rawdm) | DMulZ (m : rawdm) (n : Z) | DMulO (m : rawdm) (w : zo)
| DAdd (m1 m2 : rawdm) | DMatmul (m1 m2 : rawdm) | DConj (m : rawdm) | DAdj2 (m : rawdm)
| DMult2k (m : rawdm) (k : Z) | DEq (m1 m2 : rawdm)
| TMk (m : rawdm) | TMatmul (m1 m2 : rawdm) | TParity (m : rawdm)
| PPrime (n : Z) | PPrimeb (n : Z) | PLegendre (a p : Z) | PSqrtMod (n p : Z) | PFactS (p : Z)
| PFactO (x : zs) (p : Z) | PDioph (xi : zs) (loop_ok : bool) (ts : list zo) | PSol (xi : zs) (t : zo).

Definition run (c : opcase) : obs :=
  match c with
  | SAdd x y => OVal (fl_s (zs_add x y)) | SSub x y => OVal (fl_s (zs_sub x y))
  | SMul x y => OVal (fl_s (zs_mul x y)) | SNeg x => OVal (fl_s (zs_neg x))
  | SAddZ x n => OVal (fl_s (zs_addz x n)) | SMulZ x n => OVal (fl_s (zs_mulz x n))
  | SRsubZ n x => OVal (fl_s (zs_rsubz n x)) | SPow x n => o_r fl_s (zs_pow x n)
  | SAbs x => OVal [zs_abs x] | SConj x => OVal (fl_s (zs_conj x)) | SAdj2 x => OVal (fl_s (zs_adj2 x))
  | SEq x y => OVal (fl_b (zs_eq x y)) | SDiv x y => o_r fl_s (zs_truediv x y)
  | SDivZ x n => o_r fl_s (zs_truediv_z x n) | SFloorZ x n => o_r fl_s (zs_floordiv_z x n)
  | SModZ x n => o_r fl_s (zs_modz x n) | SMod x y => o_r fl_s (zs_mod x y)
  | SSqrt x => o_ro fl_s (zs_sqrt x) | SToOmega x => OVal (fl_o (zs_to_omega x))
  | SGcd x y => o_r fl_s (zs_gcd gcd_fuel x y)
  | OAdd x y => OVal (fl_o (zo_add x y)) | OSub x y => OVal (fl_o (zo_sub x y))
  | OMul x y => OVal (fl_o (zo_mul x y)) | ONeg x => OVal (fl_o (zo_neg x))
  | OAddZ x n => OVal (fl_o (zo_addz x n)) | OMulZ x n => OVal (fl_o (zo_mulz x n))
  | ORsubZ n x => OVal (fl_o (zo_rsubz n x)) | OPow x n => o_r fl_o (zo_pow x n)
  | OAbs x => OVal [zo_abs x] | OConj x => OVal (fl_o (zo_conj x)) | OAdj2 x => OVal (fl_o (zo_adj2 x))
  | ONorm x => OVal (fl_o (zo_norm x)) | OEq x y => OVal (fl_b (zo_eq x y))
  | ODivZ x n => o_r fl_o (zo_truediv_z x n) | OFloorZ x n => o_r fl_o (zo_floordiv_z x n)
  | OMod x y => o_r fl_o (zo_mod x y) | OFromPair al be sh => OVal (fl_o (zo_from_sqrt_pair al be sh))
  | OParity x => OVal [zo_parity x] | OToSqrt2 x => o_r fl_s (zo_to_sqrt_two x)
  | ONormalize x => o_r (fun p => fl_o (fst p) ++ [snd p]) (zo_normalize x)
  | OGcd x y => o_r fl_o (zo_gcd gcd_fuel x y)
  | DMk m => o_r fl_d (mkd m)
  | DNeg m => o_r fl_d (do x <- mkd m; dm_neg x)
  | DMulZ m n => o_r fl_d (do x <- mkd m; dm_mulz x n)
  | DMulO m w => o_r fl_d (do x <- mkd m; dm_mulo x w)
  | DAdd m1 m2 => o_r fl_d (do x <- mkd m1; do y <- mkd m2; dm_add x y)
  | DMatmul m1 m2 => o_r fl_d (do x <- mkd m1; do y <- mkd m2; dm_matmul x y)
  | DConj m => o_r fl_d (do x <- mkd m; dm_conj x)
  | DAdj2 m => o_r fl_d (do x <- mkd m; dm_adj2 x)
  | DMult2k m k => o_r fl_d (do x <- mkd m; dm_mult2k x k)
  | DEq m1 m2 => o_r fl_b (do x <- mkd m1; do y <- mkd m2; Ok (dm_eq x y))
  | TMk m => o_r fl_3 (do x <- mkd m; so3_make x)
  | TMatmul m1 m2 => o_r fl_3 (do x <- mkd m1; do y <- mkd m2; do u <- so3_make x; do v <- so3_make y; so3_matmul u v)
  | TParity m => o_r (fun u => so3_parity_mat u ++ so3_parity_vec u) (do x <- mkd m; so3_make x)
  | PPrime n => o_r fl_b (primality_test n)
  | PPrimeb n => OVal (fl_b (primeb n))
  | PLegendre a p => OVal [legendre a p]
  | PSqrtMod n p => o_ro (fun r => [r]) (sqrt_mod n p)
  | PFactS p => o_ro (flat_map fl_s) (fact_prime_zs p)
  | PFactO x p => o_ro fl_o (fact_prime_zo x p)
  | PDioph xi ok ts => o_ro fl_o (solve_dioph xi ok ts)
  | PSol xi t => OVal (fl_b (is_solution xi t))
  end.

Fixpoint eq_lz (a b : list Z) : bool :=
  match a, b with [], [] => true | x :: r, y :: s => (x =? y) && eq_lz r s | _, _ => false end.
Definition eq_obs (a b : obs) : bool :=
  match a, b with
  | OErr, OErr => true | ONone, ONone => true | OVal x, OVal y => eq_lz x y | _, _ => false
  end.
Definition check_case (c : opcase * obs) : bool := eq_obs (run (fst c)) (snd c).
