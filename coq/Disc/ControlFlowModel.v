(* Model of tape-mode (capture disabled) control flow:
     pennylane/control_flow/for_loop.py   for_loop, ForLoopCallable._call_capture_disabled
     pennylane/control_flow/while_loop.py WhileLoopCallable._call_capture_disabled
     pennylane/ops/op_math/condition.py   CondCallable.__call_capture_disabled (non-measurement predicates)
   plus Python's builtin range (CPython compute_range_length + counter iteration).
   No proofs here: this file must keep running for the correspondence check even when a proof breaks. *)
From Coq Require Import List ZArith Bool.
Import ListNotations.
Open Scope Z_scope.

(* ---------- recording monad: the queue of recorded operations + an outcome ---------- *)
Definition ev := (Z * Z)%type.                 (* (operation code, integer argument) *)
Inductive res (A : Type) := Ok (a : A) | Err | Fuel.
Arguments Ok {A} a. Arguments Err {A}. Arguments Fuel {A}.
Definition M (A : Type) := (list ev * res A)%type.   (* ops queued so far (in order), outcome *)

Definition ret {A} (a : A) : M A := ([], Ok a).
Definition err {A} : M A := ([], Err).                (* a Python exception propagates *)
Definition nofuel {A} : M A := ([], Fuel).
Definition bind {A B} (m : M A) (f : A -> M B) : M B :=
  match m with
  | (t, Ok a) => let r := f a in (t ++ fst r, snd r)
  | (t, Err) => (t, Err)
  | (t, Fuel) => (t, Fuel)
  end.

(* ---------- Python values returned by body functions ---------- *)
Inductive pyv := PNone | PInt (z : Z) | PTup (l : list Z).

Definition truthy (r : pyv) : bool :=
  match r with PNone => false | PInt z => negb (z =? 0) | PTup [] => false | PTup _ => true end.
Definition is_nil {A} (l : list A) : bool := match l with [] => true | _ => false end.

(* ---------- builtin range(start, stop, step) ---------- *)
(* CPython compute_range_length *)
Definition range_len (start stop step : Z) : Z :=
  if 0 <? step then (if start <? stop then (stop - start - 1) / step + 1 else 0)
  else (if stop <? start then (start - stop - 1) / (- step) + 1 else 0).
(* the range iterator: a counter advanced by step, len times *)
Fixpoint range_from (i step : Z) (n : nat) : list Z :=
  match n with O => [] | S k => i :: range_from (i + step) step k end.
(* None = ValueError("range() arg 3 must not be zero") *)
Definition py_range (start stop step : Z) : option (list Z) :=
  if step =? 0 then None else Some (range_from start step (Z.to_nat (range_len start stop step))).

(* ---------- ForLoopCallable._call_capture_disabled ---------- *)
(* fn_res = args if len(args) > 1 else args[0] if len(args) == 1 else None *)
Definition init_res (args : list Z) : pyv :=
  match args with [] => PNone | [a] => PInt a | _ => PTup args end.
(* args = fn_res if len(args) > 1 else (fn_res,) if len(args) == 1 else ()
   followed by the evaluation of len(args).  None = TypeError (len() of an int / of None).
   A single carried value that is not an int is outside the model (value domain is Z). *)
Definition next_args (args : list Z) (fn_res : pyv) : option (list Z) :=
  match args with
  | [] => Some []
  | [_] => match fn_res with PInt z => Some [z] | _ => None end
  | _ => match fn_res with PTup l => Some l | _ => None end
  end.

Fixpoint for_iter (body : Z -> list Z -> M pyv) (l : list Z) (args : list Z) (fn_res : pyv) : M pyv :=
  match l with
  | [] => ret fn_res
  | i :: r =>
      bind (body i args) (fun fr =>
        match next_args args fr with
        | None => err
        | Some a' => if is_nil a' && truthy fr then err   (* "should not return anything" *)
                     else for_iter body r a' fr
        end)
  end.

(* qp.for_loop(start, stop=None, step=1): if stop is None: start, stop = 0, start *)
Definition for_loop_args (start : Z) (stop : option Z) (step : Z) : Z * Z * Z :=
  match stop with None => (0, start, step) | Some s => (start, s, step) end.

Definition for_loop (start : Z) (stop : option Z) (step : Z)
                    (body : Z -> list Z -> M pyv) (init : list Z) : M pyv :=
  let '(a, b, c) := for_loop_args start stop step in
  match py_range a b c with
  | None => err
  | Some l => for_iter body l init (init_res init)
  end.

(* ---------- WhileLoopCallable._call_capture_disabled (fuelled) ---------- *)
Fixpoint while_iter (fuel : nat) (cnd : list Z -> M bool) (body : list Z -> M pyv)
                    (args : list Z) (fn_res : pyv) : M pyv :=
  match fuel with
  | O => nofuel
  | S f =>
      bind (cnd args) (fun b =>
        if b then
          bind (body args) (fun fr =>
            match next_args args fr with
            | None => err
            | Some a' => while_iter f cnd body a' fr
            end)
        else ret fn_res)
  end.
Definition while_loop (fuel : nat) cnd body (init : list Z) : M pyv :=
  while_iter fuel cnd body init (init_res init).

(* ---------- CondCallable.__call_capture_disabled ---------- *)
(* for pred, branch_fn in zip(preds, branch_fns): if pred: return branch_fn( *args )
   if otherwise_fn: return otherwise_fn( *args );  return None *)
Fixpoint cond_call (brs : list (bool * (list Z -> M pyv))) (els : option (list Z -> M pyv))
                   (args : list Z) : M pyv :=
  match brs with
  | [] => match els with Some f => f args | None => ret PNone end
  | (p, f) :: r => if p then f args else cond_call r els args
  end.

(* ---------- a small program language so that nested bodies can be generated ---------- *)
Inductive expr :=
| EConst (z : Z) | EVar (n : nat)
| EAdd (a b : expr) | ESub (a b : expr) | EMul (a b : expr) | EMod (a : expr) (m : Z).
Inductive pred :=
| PConst (b : bool) | PLt (a b : expr) | PEq (a b : expr)
| PNot (p : pred) | PAnd (p q : pred) | POr (p q : pred).
Inductive retspec := RNone | RScalar (e : expr) | RTuple (l : list expr).
(* the call signatures of qp.for_loop: (stop) (stop, step=) (start, stop) (start, stop, step) *)
Inductive forsig :=
| Sig1 (stop : expr) | Sig1s (stop step : expr) | Sig2 (start stop : expr) | Sig3 (start stop step : expr).

Inductive stmt :=
| SOp (code : Z) (e : expr)                                     (* queue an operation *)
| SFor (sg : forsig) (inits : list expr) (body : block) (rt : retspec)
| SWhile (c : pred) (inits : list expr) (body : block) (rt : retspec)
| SCond (args : list expr) (brs : branches) (has_else : bool) (els : block) (ers : retspec)
with block := BNil | BCons (s : stmt) (b : block)
with branches := CNil | CCons (p : pred) (b : block) (r : retspec) (c : branches).

Fixpoint eval (e : expr) (env : list Z) : Z :=
  match e with
  | EConst z => z
  | EVar n => nth n env 0
  | EAdd a b => eval a env + eval b env
  | ESub a b => eval a env - eval b env
  | EMul a b => eval a env * eval b env
  | EMod a m => eval a env mod m
  end.
Fixpoint eval_pred (p : pred) (env : list Z) : bool :=
  match p with
  | PConst b => b
  | PLt a b => eval a env <? eval b env
  | PEq a b => eval a env =? eval b env
  | PNot q => negb (eval_pred q env)
  | PAnd q r => eval_pred q env && eval_pred r env
  | POr q r => eval_pred q env || eval_pred r env
  end.
Definition eval_ret (r : retspec) (env : list Z) : pyv :=
  match r with
  | RNone => PNone
  | RScalar e => PInt (eval e env)
  | RTuple l => PTup (map (fun e => eval e env) l)
  end.
Definition eval_sig (sg : forsig) (env : list Z) : Z * option Z * Z :=
  match sg with
  | Sig1 b => (eval b env, None, 1)
  | Sig1s b c => (eval b env, None, eval c env)
  | Sig2 a b => (eval a env, Some (eval b env), 1)
  | Sig3 a b c => (eval a env, Some (eval b env), eval c env)
  end.

(* what the driver does with a value returned by a loop: queue marker ops that encode it, then
   unpack it into n fresh variables (a, b = f(...) raises on a wrong shape) *)
Definition observe (r : pyv) : list ev :=
  match r with
  | PNone => [(99, 0)]
  | PInt z => [(100, z)]
  | PTup l => (98, Z.of_nat (length l)) :: map (fun z => (101, z)) l
  end.
Definition unpack (n : nat) (r : pyv) : option (list Z) :=
  match n with
  | O => Some []
  | 1%nat => match r with PInt z => Some [z] | _ => None end
  | _ => match r with PTup l => if Nat.eqb (length l) n then Some l else None | _ => None end
  end.
Definition finish (n : nat) (env : list Z) (r : pyv) : M (list Z) :=
  (observe r, match unpack n r with Some l => Ok (l ++ env) | None => Err end).
(* value bound after a qp.cond call: the returned int, or -1 when it returned None *)
Definition cond_val (r : pyv) : Z := match r with PInt z => z | _ => -1 end.

Fixpoint exec_stmt (wfuel : nat) (s : stmt) (env : list Z) {struct s} : M (list Z) :=
  match s with
  | SOp code e => ([(code, eval e env)], Ok env)
  | SFor sg inits body rt =>
      let n := length inits in
      let '(a, b, c) := eval_sig sg env in
      bind (for_loop a b c
              (fun i args =>
                 if Nat.eqb (length args) n                       (* body(i, star-args): arity of the def *)
                 then bind (exec_block wfuel body (i :: args ++ env)) (fun e' => ret (eval_ret rt e'))
                 else err)
              (map (fun e => eval e env) inits))
           (finish n env)
  | SWhile c inits body rt =>
      let n := length inits in
      bind (while_loop wfuel
              (fun args => if Nat.eqb (length args) n then ret (eval_pred c (args ++ env)) else err)
              (fun args =>
                 if Nat.eqb (length args) n
                 then bind (exec_block wfuel body (args ++ env)) (fun e' => ret (eval_ret rt e'))
                 else err)
              (map (fun e => eval e env) inits))
           (finish n env)
  | SCond args brs has_else els ers =>
      bind (cond_call (exec_branches wfuel brs env)
              (if has_else
               then Some (fun a => bind (exec_block wfuel els (a ++ env)) (fun e' => ret (eval_ret ers e')))
               else None)
              (map (fun e => eval e env) args))
           (fun r => (observe r, Ok (cond_val r :: env)))
  end
with exec_block (wfuel : nat) (b : block) (env : list Z) {struct b} : M (list Z) :=
  match b with
  | BNil => ret env
  | BCons s r => bind (exec_stmt wfuel s env) (fun e' => exec_block wfuel r e')
  end
with exec_branches (wfuel : nat) (c : branches) (env : list Z) {struct c}
     : list (bool * (list Z -> M pyv)) :=
  match c with
  | CNil => []
  | CCons p b r c' =>
      (eval_pred p env,
       fun a => bind (exec_block wfuel b (a ++ env)) (fun e' => ret (eval_ret r e')))
      :: exec_branches wfuel c' env
  end.

(* ---------- correspondence ---------- *)
Definition status {A} (r : res A) : Z := match r with Ok _ => 0 | Err => 1 | Fuel => 2 end.
Fixpoint eq_trace (a b : list ev) : bool :=
  match a, b with
  | [], [] => true
  | (x, x') :: r, (y, y') :: s => (x =? y) && (x' =? y') && eq_trace r s
  | _, _ => false
  end.
(* input = (program, while fuel); expected = (recorded ops, status) *)
Definition run (p : block) (wfuel : nat) : list ev * Z :=
  let r := exec_block wfuel p [] in (fst r, status (snd r)).
Definition check_case (c : (block * nat) * (list ev * Z)) : bool :=
  let r := run (fst (fst c)) (snd (fst c)) in
  eq_trace (fst r) (fst (snd c)) && (snd r =? snd (snd c)).
