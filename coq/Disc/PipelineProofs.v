(* Lemmas about the model of CompilePipeline (Disc/PipelineModel.v). *)
From Coq Require Import List ZArith Bool Lia ZifyBool.
From PLV Require Import Disc.PipelineModel.
Import ListNotations.
Open Scope Z_scope.

(* ===================================================================== Part A: routing *)
Section RoutingProofs.
  Context {T R : Type}.
  Notation transform := (@transform T R).

  Lemma slice_of_app : forall (pre mid post : list R),
    slice_of (pre ++ mid ++ post) (length pre) (length pre + length mid) = mid.
  Proof.
    intros. unfold slice_of.
    rewrite skipn_app, skipn_all, Nat.sub_diag. cbn [skipn app].
    replace (length pre + length mid - length pre)%nat with (length mid) by lia.
    rewrite firstn_app, firstn_all, Nat.sub_diag. cbn [firstn]. apply app_nil_r.
  Qed.

  (* the slice lemma: the slices recorded by the inner loop cut the result batch back into the
     groups that belong to each input tape *)
  Lemma step_loop_spec : forall (f : transform) (g : T -> R) tapes (pre : list R),
    batch_post (snd (step_loop f tapes (length pre)))
               (pre ++ map g (fst (step_loop f tapes (length pre))))
    = map (fun t => snd (f t) (map g (fst (f t)))) tapes.
  Proof.
    intros f g tapes. induction tapes as [|t rest IH]; intros pre.
    - reflexivity.
    - cbn [step_loop fst snd map]. unfold batch_post. cbn [map fst snd]. f_equal.
      + f_equal. rewrite map_app.
        rewrite <- (map_length g (fst (f t))). apply slice_of_app.
      + specialize (IH (pre ++ map g (fst (f t)))).
        rewrite app_length, map_length in IH.
        rewrite map_app, app_assoc. exact IH.
  Qed.

  Lemma step_loop_tapes : forall (f : transform) tapes s,
    fst (step_loop f tapes s) = flat_map (fun t => fst (f t)) tapes.
  Proof.
    intros f tapes. induction tapes as [|t rest IH]; intros s; [reflexivity|].
    cbn [step_loop fst flat_map]. now rewrite IH.
  Qed.

  Lemma apply_stack_snoc : forall stack (b : list R -> list R) x,
    apply_stack (stack ++ [b]) x = apply_stack stack (b x).
  Proof. intros. unfold apply_stack. rewrite rev_app_distr. reflexivity. Qed.

  Lemma call_loop_spec : forall (p : list transform) (run : T -> R) tapes stack,
    apply_stack (snd (call_loop p tapes stack)) (map run (fst (call_loop p tapes stack)))
    = apply_stack stack (map (by_hand p run) tapes).
  Proof.
    induction p as [|f rest IH]; intros run tapes stack.
    - reflexivity.
    - cbn [call_loop]. rewrite IH, apply_stack_snoc. f_equal.
      exact (step_loop_spec f (by_hand rest run) tapes []).
  Qed.

  Lemma call_tapes_spec : forall (p : list transform) (batch : list T) (run : T -> R),
    snd (call_tapes p batch) (map run (fst (call_tapes p batch))) = map (by_hand p run) batch.
  Proof.
    intros [|f rest] batch run.
    - reflexivity.
    - unfold call_tapes. cbn [fst snd]. rewrite call_loop_spec. reflexivity.
  Qed.

  (* the execution tapes are, in order, the leaves of the by-hand application *)
  Fixpoint leaves (p : list transform) (t : T) : list T :=
    match p with [] => [t] | f :: rest => flat_map (leaves rest) (fst (f t)) end.

  Lemma flat_map_flat_map : forall {A B C} (f : A -> list B) (g : B -> list C) l,
    flat_map g (flat_map f l) = flat_map (fun x => flat_map g (f x)) l.
  Proof.
    intros. induction l as [|x r IH]; [reflexivity|].
    cbn [flat_map]. now rewrite flat_map_app, IH.
  Qed.

  Lemma call_loop_tapes : forall (p : list transform) tapes stack,
    fst (call_loop p tapes stack) = flat_map (leaves p) tapes.
  Proof.
    induction p as [|f rest IH]; intros tapes stack.
    - cbn [call_loop fst leaves]. induction tapes as [|t r IHt]; [reflexivity|].
      cbn [flat_map app]. now rewrite <- IHt.
    - cbn [call_loop]. rewrite IH, step_loop_tapes, flat_map_flat_map. reflexivity.
  Qed.

  Lemma call_tapes_leaves : forall (p : list transform) batch,
    fst (call_tapes p batch) = flat_map (leaves p) batch.
  Proof.
    intros [|f rest] batch.
    - exact (call_loop_tapes [] batch []).
    - unfold call_tapes. cbn [fst]. apply call_loop_tapes.
  Qed.
End RoutingProofs.

(* ===================================================================== Part B: container *)
Lemma zlen_app : forall {A} (a b : list A), zlen (a ++ b) = zlen a + zlen b.
Proof. intros. unfold zlen. rewrite app_length. lia. Qed.
Lemma zlen_nonneg : forall {A} (l : list A), 0 <= zlen l.
Proof. intros. unfold zlen. lia. Qed.

Lemma firstn_app_le : forall {A} (n : nat) (a b : list A),
  (n <= length a)%nat -> firstn n (a ++ b) = firstn n a.
Proof.
  intros. rewrite firstn_app. replace (n - length a)%nat with 0%nat by lia.
  cbn [firstn]. apply app_nil_r.
Qed.
Lemma skipn_app_ge : forall {A} (n : nat) (a b : list A),
  (length a <= n)%nat -> skipn n (a ++ b) = skipn (n - length a) b.
Proof. intros. rewrite skipn_app, skipn_all2 by lia. reflexivity. Qed.
Lemma firstn_app_exact : forall {A} (a b : list A), firstn (length a) (a ++ b) = a.
Proof. intros. rewrite firstn_app_le, firstn_all by lia. reflexivity. Qed.
Lemma skipn_app_exact : forall {A} (a b : list A), skipn (length a) (a ++ b) = b.
Proof. intros. rewrite skipn_app_ge, Nat.sub_diag by lia. reflexivity. Qed.

Lemma has_final_app : forall a b, has_final (a ++ b) = has_final a || has_final b.
Proof. intros. apply existsb_app. Qed.
Lemma has_final_with_expand : forall t, has_final (with_expand t) = b_final t.
Proof.
  intros t. unfold with_expand, expand_of. destruct (b_exp t); cbn; now rewrite orb_false_r.
Qed.

(* ---- append / += / + / radd / * ---- *)
Lemma append_spec : forall p t,
  (snd (append p t) = true <-> has_final (items p) = true /\ b_final t = true) /\
  (snd (append p t) = true -> fst (append p t) = p) /\
  (snd (append p t) = false ->
     items (fst (append p t)) = items p ++ with_expand t /\ marks (fst (append p t)) = marks p).
Proof.
  intros p t. unfold append.
  destruct (has_final (items p)), (b_final t); cbn; intuition congruence.
Qed.

Lemma iadd_spec : forall p q,
  (snd (iadd_pipe p q) = true <-> has_final (items p) = true /\ has_final (items q) = true) /\
  (snd (iadd_pipe p q) = true -> items (fst (iadd_pipe p q)) = items p) /\
  (snd (iadd_pipe p q) = false -> items (fst (iadd_pipe p q)) = items p ++ items q).
Proof.
  intros p q. unfold iadd_pipe.
  destruct (has_final (items p)), (has_final (items q)); cbn; intuition congruence.
Qed.

Lemma iadd_t_spec : forall p t,
  snd (iadd_t p t) = false -> items (fst (iadd_t p t)) = items p ++ with_expand t.
Proof. intros p t H. unfold iadd_t in *. now apply iadd_spec in H. Qed.

Lemma add_spec : forall p q,
  (add_pipe p q = None <-> has_final (items p) = true /\ has_final (items q) = true) /\
  (forall r, add_pipe p q = Some r -> items r = items p ++ items q).
Proof.
  intros p q. unfold add_pipe.
  destruct (has_final (items p)), (has_final (items q)); cbn; split;
    try (intuition congruence); intros r H; inversion H; reflexivity.
Qed.

Lemma add_t_spec : forall p t r, add_t p t = Some r -> items r = items p ++ with_expand t.
Proof. intros p t r H. unfold add_t in H. now apply add_spec in H. Qed.

Lemma radd_spec : forall t p,
  (radd t p = None <-> has_final (items p) = true /\ b_final t = true) /\
  (forall r, radd t p = Some r -> items r = with_expand t ++ items p /\ marks r = []).
Proof.
  intros t p. unfold radd.
  destruct (has_final (items p)), (b_final t); cbn; split;
    try (intuition congruence); intros r H; inversion H; split; reflexivity.
Qed.

Lemma repeat_list_concat : forall {A} (l : list A) n, repeat_list l n = concat (repeat l n).
Proof. intros. induction n as [|n IH]; [reflexivity|]. cbn. now rewrite IH. Qed.

Lemma mul_spec : forall p n,
  (mul p n = None <-> n < 0 \/ has_final (items p) = true) /\
  (forall r, mul p n = Some r ->
     items r = concat (repeat (items p) (Z.to_nat n)) /\ marks r = marks p).
Proof.
  intros p n. unfold mul. destruct (n <? 0) eqn:E.
  - split; [split; [intros; left; lia | reflexivity] | discriminate].
  - destruct (has_final (items p)).
    + split; [split; [intros; now right | reflexivity] | discriminate].
    + split.
      * split; [discriminate | intros [H|H]; [lia | discriminate]].
      * intros r H. inversion H. cbn. split; [apply repeat_list_concat | reflexivity].
Qed.

(* ---- insert ---- *)
Lemma list_insert_in_range : forall {A} (i : Z) (x : A) (l : list A),
  0 <= i <= zlen l ->
  list_insert i x l = firstn (Z.to_nat i) l ++ x :: skipn (Z.to_nat i) l.
Proof.
  intros A i x l H. unfold list_insert, py_insert_pos.
  destruct (i <? 0) eqn:E; [lia|]. now rewrite Z.min_l by lia.
Qed.

Lemma insert_spec : forall p i t,
  0 <= i <= zlen (items p) -> snd (insert p i t) = false ->
  items (fst (insert p i t)) =
    firstn (Z.to_nat i) (items p) ++ with_expand t ++ skipn (Z.to_nat i) (items p).
Proof.
  intros p i t Hi. unfold insert.
  destruct (negb match items p with [] => true | _ => false end && b_final t); [discriminate|].
  intros _. cbn [fst items].
  rewrite (list_insert_in_range i t) by exact Hi.
  unfold with_expand. destruct (expand_of t) as [e|]; [|reflexivity].
  assert (Hk : (Z.to_nat i <= length (items p))%nat) by (unfold zlen in Hi; lia).
  rewrite list_insert_in_range.
  2:{ rewrite zlen_app. unfold zlen in *. cbn [length]. rewrite firstn_length_le by lia. lia. }
  pose proof (firstn_length_le (items p) Hk) as HL.
  rewrite <- HL at 1. rewrite firstn_app_exact.
  rewrite <- HL at 2. rewrite skipn_app_exact. reflexivity.
Qed.

Lemma insert_raises : forall p i t,
  snd (insert p i t) = true <-> items p <> [] /\ b_final t = true.
Proof.
  intros p i t. unfold insert. destruct (items p) as [|x r]; destruct (b_final t); cbn;
    intuition congruence.
Qed.

(* ---- pop ---- *)
Lemma del_at_length : forall {A} (k : nat) (l : list A),
  (k < length l)%nat -> length (del_at k l) = (length l - 1)%nat.
Proof.
  intros. unfold del_at. rewrite app_length, firstn_length_le, skipn_length by lia. lia.
Qed.

Lemma nth_error_firstn_lt : forall {A} (l : list A) n k,
  (k < n)%nat -> nth_error (firstn n l) k = nth_error l k.
Proof.
  induction l as [|x r IH]; intros n k H.
  - now rewrite firstn_nil.
  - destruct n; [lia|]. destruct k; [reflexivity|]. cbn. apply IH. lia.
Qed.

Lemma py_index_range : forall n i j, py_index n i = Some j ->
  0 <= j < n /\ j = (if i <? 0 then n + i else i).
Proof.
  intros n i j. unfold py_index.
  destruct ((0 <=? (if i <? 0 then n + i else i)) && ((if i <? 0 then n + i else i) <? n)) eqn:E;
    [|discriminate].
  intros H. inversion H. subst. split; [lia | reflexivity].
Qed.

(* does pop also remove the entry before position j (the expand_transform of the popped transform)? *)
Definition pop_partner (l : list bt) (j : Z) : bool :=
  (j >? 0) && match expand_of (nthz l j), nth_error l (Z.to_nat (j - 1)) with
              | Some e, Some y => bt_eqb e y
              | _, _ => false
              end.

Lemma del_del : forall {A} (l : list A) (k : nat),
  (S k < length l)%nat -> del_at k (del_at (S k) l) = firstn k l ++ skipn (S (S k)) l.
Proof.
  intros A l k H. unfold del_at at 1. unfold del_at.
  rewrite firstn_app_le by (rewrite firstn_length_le; lia).
  rewrite firstn_firstn, Nat.min_l by lia. f_equal.
  assert (HL : length (firstn (S k) l) = S k) by (apply firstn_length_le; lia).
  rewrite <- HL at 1. apply skipn_app_exact.
Qed.

Lemma pop_items : forall p i j,
  py_index (zlen (items p)) i = Some j ->
  snd (pop p i) = Some (nthz (items p) j) /\
  items (fst (pop p i)) =
    (if pop_partner (items p) j
     then firstn (Z.to_nat (j - 1)) (items p) ++ skipn (Z.to_nat (j + 1)) (items p)
     else del_at (Z.to_nat j) (items p)).
Proof.
  intros p i j H. pose proof (py_index_range _ _ _ H) as [Hr Hj].
  unfold pop. rewrite H. cbv zeta.
  assert (Hlen : zlen (del_at (Z.to_nat j) (items p)) = zlen (items p) - 1).
  { unfold zlen in *. rewrite del_at_length by lia. lia. }
  assert (Hidx : (if i >=? 0 then i else zlen (del_at (Z.to_nat j) (items p)) + i + 1) = j).
  { rewrite Hlen. destruct (i <? 0) eqn:E1; destruct (i >=? 0) eqn:E2; lia. }
  rewrite Hidx.
  assert (Hp : ((j >? 0) && match expand_of (nthz (items p) j),
                              nth_error (del_at (Z.to_nat j) (items p)) (Z.to_nat (j - 1)) with
                        | Some e, Some y => bt_eqb e y | _, _ => false end)
               = pop_partner (items p) j).
  { unfold pop_partner. destruct (j >? 0) eqn:Ej; [|reflexivity]. cbn [andb].
    unfold del_at. rewrite nth_error_app1 by (unfold zlen in *; rewrite firstn_length_le; lia).
    rewrite nth_error_firstn_lt by lia. reflexivity. }
  rewrite Hp. destruct (pop_partner (items p) j) eqn:Epp; cbn [fst snd items]; split; try reflexivity.
  unfold pop_partner in Epp. apply andb_prop in Epp as [Ej _].
  replace (Z.to_nat j) with (S (Z.to_nat (j - 1))) by lia.
  rewrite del_del by (unfold zlen in *; lia).
  replace (Z.to_nat (j + 1)) with (S (S (Z.to_nat (j - 1)))) by lia. reflexivity.
Qed.

Lemma pop_index_error : forall p i, py_index (zlen (items p)) i = None -> pop p i = (p, None).
Proof. intros p i H. unfold pop. now rewrite H. Qed.

(* ---- [] ---- *)
Lemma getitem_spec : forall p i j, py_index (zlen (items p)) i = Some j ->
  getitem p i = Some (nth (Z.to_nat j) (items p) dflt).
Proof. intros p i j H. unfold getitem. now rewrite H. Qed.

Lemma skipn_cons_nth : forall (l : list bt) (k : nat),
  (k < length l)%nat -> skipn k l = nth k l dflt :: skipn (S k) l.
Proof.
  induction l as [|x r IH]; intros k H; [cbn in H; lia|].
  destruct k; [reflexivity|]. cbn [skipn nth]. rewrite IH by (cbn in H; lia). reflexivity.
Qed.

Lemma slice_elems_step1 : forall fuel (l : list bt) s e,
  0 <= s -> e <= zlen l -> (Z.to_nat (e - s) <= fuel)%nat ->
  slice_elems fuel l s e 1 = firstn (Z.to_nat (e - s)) (skipn (Z.to_nat s) l).
Proof.
  induction fuel as [|f IH]; intros l s e Hs He Hf.
  - cbn. replace (Z.to_nat (e - s)) with 0%nat by lia. reflexivity.
  - cbn [slice_elems]. replace (1 >? 0) with true by reflexivity.
    destruct (s <? e) eqn:E.
    + rewrite IH by lia. unfold nthz.
      rewrite (skipn_cons_nth l (Z.to_nat s)) by (unfold zlen in He; lia).
      replace (Z.to_nat (e - s)) with (S (Z.to_nat (e - (s + 1)))) by lia.
      cbn [firstn]. replace (Z.to_nat (s + 1)) with (S (Z.to_nat s)) by lia. reflexivity.
    + replace (Z.to_nat (e - s)) with 0%nat by lia. reflexivity.
Qed.

Lemma getslice_step1 : forall p a b,
  0 <= a <= b -> b <= zlen (items p) ->
  exists r, getslice p (Some a) (Some b) 1 = Some r /\
    items r = firstn (Z.to_nat (b - a)) (skipn (Z.to_nat a) (items p)) /\
    marks r = map_levels (fun v => v - a)
                (filter (fun kv => (a <=? snd kv) &&
                                   (snd kv <? (if b =? zlen (items p) then b + 1 else b))) (marks p)).
Proof.
  intros p a b Ha Hb. unfold getslice. cbn [Z.eqb]. unfold slice_indices.
  assert (Ea : adj (zlen (items p)) 1 a = a).
  { unfold adj. destruct (a <? 0) eqn:E1; [lia|]. destruct (a >=? zlen (items p)) eqn:E2; cbn; lia. }
  assert (Eb : adj (zlen (items p)) 1 b = b).
  { unfold adj. destruct (b <? 0) eqn:E1; [lia|]. destruct (b >=? zlen (items p)) eqn:E2; cbn; lia. }
  rewrite Ea, Eb. eexists. split; [reflexivity|]. cbn [items marks]. split; [|reflexivity].
  apply slice_elems_step1; try lia. unfold zlen in *. lia.
Qed.

(* ---- at most one terminal transform ---- *)
Definition count_final (l : list bt) : nat := length (filter b_final l).

Lemma count_final_app : forall a b, count_final (a ++ b) = (count_final a + count_final b)%nat.
Proof. intros. unfold count_final. now rewrite filter_app, app_length. Qed.
Lemma has_final_count : forall l, has_final l = false <-> count_final l = 0%nat.
Proof.
  induction l as [|x r IH]; [cbn; tauto|].
  unfold has_final, count_final in *. cbn. destruct (b_final x); cbn; [split; [discriminate|lia]|exact IH].
Qed.
Lemma count_final_with_expand : forall t,
  count_final (with_expand t) = if b_final t then 1%nat else 0%nat.
Proof.
  intros t. unfold with_expand, expand_of, count_final.
  destruct (b_exp t); cbn; destruct (b_final t); reflexivity.
Qed.
Lemma count_final_firstn_skipn : forall l k, (count_final (firstn k l) + count_final (skipn k l))%nat = count_final l.
Proof. intros. rewrite <- count_final_app, firstn_skipn. reflexivity. Qed.
Lemma count_final_list_insert : forall i x l,
  count_final (list_insert i x l) = (count_final l + count_final [x])%nat.
Proof.
  intros. unfold list_insert.
  set (k := Z.to_nat (py_insert_pos (zlen l) i)).
  change (x :: skipn k l) with ([x] ++ skipn k l).
  rewrite !count_final_app. pose proof (count_final_firstn_skipn l k). lia.
Qed.
Lemma count_final_repeat0 : forall l n, count_final l = 0%nat -> count_final (repeat_list l n) = 0%nat.
Proof. intros l n H. induction n as [|n IH]; [reflexivity|]. cbn [repeat_list]. rewrite count_final_app. lia. Qed.

Lemma count_final_single : forall x, count_final [x] = if b_final x then 1%nat else 0%nat.
Proof. intros x. unfold count_final. cbn. destruct (b_final x); reflexivity. Qed.
Lemma count_final_insert_items : forall i t l,
  count_final (match expand_of t with
               | Some e => list_insert i e (list_insert i t l)
               | None => list_insert i t l end)
  = (count_final l + (if b_final t then 1 else 0))%nat.
Proof.
  intros. unfold expand_of. destruct (b_exp t); rewrite ?count_final_list_insert, ?count_final_single;
    cbn [b_final]; lia.
Qed.

Definition one_final (p : pipe) : Prop := (count_final (items p) <= 1)%nat.

Lemma has_final_true_count : forall l, has_final l = true -> (1 <= count_final l)%nat.
Proof.
  intros l H. destruct (count_final l) eqn:E; [|lia].
  apply has_final_count in E. congruence.
Qed.

Lemma one_final_preserved : forall p, one_final p ->
  (forall t, one_final (fst (append p t))) /\
  (forall q, one_final q -> one_final (fst (iadd_pipe p q))) /\
  (forall q r, one_final q -> add_pipe p q = Some r -> one_final r) /\
  (forall t r, radd t p = Some r -> one_final r) /\
  (forall n r, mul p n = Some r -> one_final r) /\
  (forall i t, one_final (fst (insert p i t))).
Proof.
  intros p Hp. unfold one_final in *. repeat split.
  - intros t. unfold append. destruct (has_final (items p)) eqn:E1; destruct (b_final t) eqn:E2;
      cbn [andb fst items]; try exact Hp; rewrite count_final_app, count_final_with_expand, E2; try lia.
    apply has_final_count in E1. lia.
  - intros q Hq. unfold iadd_pipe.
    destruct (has_final (items p)) eqn:E1; destruct (has_final (items q)) eqn:E2;
      cbn [andb fst items]; try exact Hp; rewrite count_final_app;
      try (apply has_final_count in E1); try (apply has_final_count in E2); lia.
  - intros q r Hq. unfold add_pipe.
    destruct (has_final (items p)) eqn:E1; destruct (has_final (items q)) eqn:E2;
      cbn [andb]; try discriminate; intros H; inversion H; cbn [items]; rewrite count_final_app;
      try (apply has_final_count in E1); try (apply has_final_count in E2); lia.
  - intros t r. unfold radd.
    destruct (has_final (items p)) eqn:E1; destruct (b_final t) eqn:E2;
      cbn [andb]; try discriminate; intros H; inversion H; cbn [items];
      rewrite count_final_app, count_final_with_expand, E2;
      try (apply has_final_count in E1); lia.
  - intros n r. unfold mul. destruct (n <? 0); [discriminate|].
    destruct (has_final (items p)) eqn:E1; [discriminate|].
    intros H. inversion H. cbn [items]. apply has_final_count in E1.
    rewrite count_final_repeat0 by exact E1. lia.
  - intros i t. unfold insert. remember (items p) as l eqn:El. clear El.
    destruct l as [|x r]; destruct (b_final t) eqn:E2; cbn [negb andb fst items];
      try exact Hp; rewrite count_final_insert_items, E2; cbn in *; lia.
Qed.

(* ===================================================================== Part C: markers *)
(* A marker at level v of the list l stands at the boundary (firstn v l | skipn v l).  An edit keeps
   it "attached" when the prefix before it, or the suffix after it, is unchanged. *)
Lemma skipn_via : forall {A} (l : list A) (k n : nat),
  (k <= n)%nat -> (k <= length l)%nat -> skipn n l = skipn (n - k) (skipn k l).
Proof.
  intros A l k n H1 H2. rewrite <- (firstn_skipn k l) at 1.
  rewrite skipn_app_ge by (rewrite firstn_length_le; lia).
  rewrite firstn_length_le by lia. reflexivity.
Qed.

Lemma insert_boundaries : forall (l : list bt) i x v,
  0 <= i <= zlen l -> 0 <= v <= zlen l ->
  (v < i -> firstn (Z.to_nat (if v >=? i then v + 1 else v)) (list_insert i x l) = firstn (Z.to_nat v) l) /\
  (i <= v -> skipn (Z.to_nat (if v >=? i then v + 1 else v)) (list_insert i x l) = skipn (Z.to_nat v) l).
Proof.
  intros l i x v Hi Hv. rewrite list_insert_in_range by exact Hi.
  assert (HL : length (firstn (Z.to_nat i) l) = Z.to_nat i)
    by (apply firstn_length_le; unfold zlen in *; lia).
  split; intros H.
  - destruct (v >=? i) eqn:E; [lia|].
    rewrite firstn_app_le by lia. rewrite firstn_firstn, Nat.min_l by lia. reflexivity.
  - destruct (v >=? i) eqn:E; [|lia].
    rewrite skipn_app_ge by lia. rewrite HL.
    replace (Z.to_nat (v + 1) - Z.to_nat i)%nat with (S (Z.to_nat v - Z.to_nat i)) by lia.
    cbn [skipn]. symmetry. apply skipn_via; unfold zlen in *; lia.
Qed.

Lemma delete_boundaries : forall (l : list bt) j v,
  0 <= j < zlen l -> 0 <= v <= zlen l ->
  (v <= j -> firstn (Z.to_nat (if v >? j then v - 1 else v)) (del_at (Z.to_nat j) l) = firstn (Z.to_nat v) l) /\
  (j < v -> skipn (Z.to_nat (if v >? j then v - 1 else v)) (del_at (Z.to_nat j) l) = skipn (Z.to_nat v) l).
Proof.
  intros l j v Hj Hv. unfold del_at.
  assert (HL : length (firstn (Z.to_nat j) l) = Z.to_nat j)
    by (apply firstn_length_le; unfold zlen in *; lia).
  split; intros H.
  - destruct (v >? j) eqn:E; [lia|].
    rewrite firstn_app_le by lia. rewrite firstn_firstn, Nat.min_l by lia. reflexivity.
  - destruct (v >? j) eqn:E; [|lia].
    rewrite skipn_app_ge by lia. rewrite HL.
    rewrite (skipn_via l (S (Z.to_nat j)) (Z.to_nat v)) by (unfold zlen in *; lia).
    f_equal. lia.
Qed.

(* pop that also removes the expand partner at j-1: both deletions together *)
Lemma delete_pair_boundaries : forall (l : list bt) j v,
  0 < j < zlen l -> 0 <= v <= zlen l ->
  let v2 := (let v1 := if v >? j then v - 1 else v in if v1 >? j - 1 then v1 - 1 else v1) in
  let l2 := firstn (Z.to_nat (j - 1)) l ++ skipn (Z.to_nat (j + 1)) l in
  (v <= j - 1 -> firstn (Z.to_nat v2) l2 = firstn (Z.to_nat v) l) /\
  (j < v -> skipn (Z.to_nat v2) l2 = skipn (Z.to_nat v) l) /\
  (v = j -> v2 = j - 1).
Proof.
  intros l j v Hj Hv. cbv zeta.
  assert (HL : length (firstn (Z.to_nat (j - 1)) l) = Z.to_nat (j - 1))
    by (apply firstn_length_le; unfold zlen in *; lia).
  repeat split; intros H.
  - destruct (v >? j) eqn:E; [lia|]. destruct (v >? j - 1) eqn:E2; [lia|].
    rewrite firstn_app_le by lia. rewrite firstn_firstn, Nat.min_l by lia. reflexivity.
  - destruct (v >? j) eqn:E; [|lia]. destruct (v - 1 >? j - 1) eqn:E2; [|lia].
    rewrite skipn_app_ge by lia. rewrite HL.
    rewrite (skipn_via l (Z.to_nat (j + 1)) (Z.to_nat v)) by (unfold zlen in *; lia).
    f_equal. lia.
  - destruct (v >? j) eqn:E; [lia|]. destruct (v >? j - 1) eqn:E2; lia.
Qed.

Lemma pop_marks : forall p i j,
  py_index (zlen (items p)) i = Some j ->
  marks (fst (pop p i)) =
    if pop_partner (items p) j
    then map_levels (fun v => let v1 := if v >? j then v - 1 else v in
                              if v1 >? j - 1 then v1 - 1 else v1) (marks p)
    else map_levels (fun v => if v >? j then v - 1 else v) (marks p).
Proof.
  intros p i j H. pose proof (py_index_range _ _ _ H) as [Hr Hj].
  unfold pop. rewrite H. cbv zeta.
  assert (Hlen : zlen (del_at (Z.to_nat j) (items p)) = zlen (items p) - 1).
  { unfold zlen in *. rewrite del_at_length by lia. lia. }
  assert (Hidx : (if i >=? 0 then i else zlen (del_at (Z.to_nat j) (items p)) + i + 1) = j).
  { rewrite Hlen. destruct (i <? 0) eqn:E1; destruct (i >=? 0) eqn:E2; lia. }
  rewrite Hidx.
  assert (Hp : ((j >? 0) && match expand_of (nthz (items p) j),
                              nth_error (del_at (Z.to_nat j) (items p)) (Z.to_nat (j - 1)) with
                        | Some e, Some y => bt_eqb e y | _, _ => false end)
               = pop_partner (items p) j).
  { unfold pop_partner. destruct (j >? 0) eqn:Ej; [|reflexivity]. cbn [andb].
    unfold del_at. rewrite nth_error_app1 by (unfold zlen in *; rewrite firstn_length_le; lia).
    rewrite nth_error_firstn_lt by lia. reflexivity. }
  rewrite Hp. destruct (pop_partner (items p) j); cbn [fst marks]; [|reflexivity].
  unfold map_levels. rewrite map_map. reflexivity.
Qed.

(* + and += : the markers of the right operand are shifted by len(left) *)
Lemma dict_get_set : forall k k' v m,
  dict_get k (dict_set k' v m) = if k' =? k then Some v else dict_get k m.
Proof.
  intros k k' v m. induction m as [|kv r IH]; [reflexivity|].
  cbn [dict_set]. destruct (fst kv =? k') eqn:E1; cbn [dict_get fst snd].
  - destruct (k' =? k) eqn:E2; [reflexivity|]. destruct (fst kv =? k) eqn:E3; [lia|reflexivity].
  - destruct (fst kv =? k) eqn:E3.
    + destruct (k' =? k) eqn:E2; [lia|reflexivity].
    + exact IH.
Qed.

Lemma dict_get_app : forall k a b,
  dict_get k (a ++ b) = match dict_get k a with Some v => Some v | None => dict_get k b end.
Proof.
  intros k a b. induction a as [|kv r IH]; [reflexivity|].
  cbn [app dict_get]. destruct (fst kv =? k); [reflexivity|exact IH].
Qed.

Lemma merge_get_rev : forall other m off k,
  dict_get k (merge_offset m other off) =
  match dict_get k (rev other) with Some v => Some (v + off) | None => dict_get k m end.
Proof.
  induction other as [|kv r IH]; intros m off k; [reflexivity|].
  unfold merge_offset in *. cbn [fold_left rev]. rewrite IH, dict_get_app.
  destruct (dict_get k (rev r)); [reflexivity|].
  rewrite dict_get_set. cbn [dict_get]. destruct (fst kv =? k); reflexivity.
Qed.

Lemma dict_get_none : forall k m, ~ In k (map fst m) -> dict_get k m = None.
Proof.
  intros k m. induction m as [|kv r IH]; intros H; [reflexivity|].
  cbn [dict_get]. destruct (fst kv =? k) eqn:E.
  - exfalso. apply H. left. lia.
  - apply IH. intros Hin. apply H. now right.
Qed.

Lemma dict_get_rev : forall k m, NoDup (map fst m) -> dict_get k (rev m) = dict_get k m.
Proof.
  intros k m. induction m as [|kv r IH]; intros H; [reflexivity|].
  cbn [map] in H. inversion H as [|? ? Hnin Hnd]. subst.
  cbn [rev dict_get]. rewrite dict_get_app, IH by exact Hnd. cbn [dict_get].
  destruct (fst kv =? k) eqn:E.
  - assert (fst kv = k) by lia. subst k. now rewrite dict_get_none.
  - destruct (dict_get k r); reflexivity.
Qed.

Lemma merge_get : forall other m off k, NoDup (map fst other) ->
  dict_get k (merge_offset m other off) =
  match dict_get k other with Some v => Some (v + off) | None => dict_get k m end.
Proof. intros. rewrite merge_get_rev, dict_get_rev by assumption. reflexivity. Qed.

Lemma add_marks : forall p q r k, add_pipe p q = Some r -> NoDup (map fst (marks q)) ->
  dict_get k (marks r) =
  match dict_get k (marks q) with Some v => Some (v + zlen (items p)) | None => dict_get k (marks p) end.
Proof.
  intros p q r k H Hnd. unfold add_pipe in H.
  destruct (has_final (items p) && has_final (items q)); [discriminate|].
  inversion H. cbn [marks]. now apply merge_get.
Qed.

Lemma iadd_marks : forall p q k, NoDup (map fst (marks q)) ->
  dict_get k (marks (fst (iadd_pipe p q))) =
  match dict_get k (marks q) with Some v => Some (v + zlen (items p)) | None => dict_get k (marks p) end.
Proof.
  intros p q k Hnd. unfold iadd_pipe.
  destruct (has_final (items p) && has_final (items q)); cbn [fst marks]; now apply merge_get.
Qed.

Lemma app_boundaries : forall (l1 l2 : list bt) v,
  (0 <= v <= zlen l1 -> firstn (Z.to_nat v) (l1 ++ l2) = firstn (Z.to_nat v) l1) /\
  (0 <= v -> skipn (Z.to_nat (v + zlen l1)) (l1 ++ l2) = skipn (Z.to_nat v) l2).
Proof.
  intros l1 l2 v. split; intros H.
  - apply firstn_app_le. unfold zlen in *. lia.
  - rewrite skipn_app_ge by (unfold zlen; lia). f_equal. unfold zlen. lia.
Qed.

Lemma mul_boundaries : forall (l : list bt) n v, (1 <= n)%nat -> 0 <= v <= zlen l ->
  firstn (Z.to_nat v) (repeat_list l n) = firstn (Z.to_nat v) l.
Proof.
  intros l n v Hn Hv. destruct n; [lia|]. cbn [repeat_list].
  apply firstn_app_le. unfold zlen in *. lia.
Qed.

Lemma slice_boundaries : forall (l : list bt) s e v, 0 <= s <= v -> v <= e ->
  firstn (Z.to_nat (v - s)) (firstn (Z.to_nat (e - s)) (skipn (Z.to_nat s) l))
  = skipn (Z.to_nat s) (firstn (Z.to_nat v) l).
Proof.
  intros l s e v Hs He. rewrite firstn_firstn, Nat.min_l by lia.
  rewrite firstn_skipn_comm. f_equal. f_equal. lia.
Qed.

(* ---- remove, when no removed transform brings an expand_transform ---- *)
Lemma firstn_S_nth : forall (l : list bt) (i : nat), (i < length l)%nat ->
  firstn (S i) l = firstn i l ++ [nth i l dflt].
Proof.
  induction l as [|x r IH]; intros i H; [cbn in H; lia|].
  destruct i; [reflexivity|]. cbn [firstn nth app]. f_equal. apply IH. cbn in H; lia.
Qed.

Lemma remove_loop_filter : forall fuel o k (l : list bt) m,
  (k <= fuel)%nat -> (k <= length l)%nat ->
  (forall x, In x (firstn k l) -> rmatch o x = true -> expand_of x = None) ->
  fst (remove_loop fuel o k l m) = filter (fun x => negb (rmatch o x)) (firstn k l) ++ skipn k l.
Proof.
  induction fuel as [|f IH]; intros o k l m Hf Hk Hx.
  - replace k with 0%nat by lia. reflexivity.
  - destruct k as [|i]; [reflexivity|]. cbn [remove_loop].
    assert (Hi : (i < length l)%nat) by lia.
    rewrite (firstn_S_nth l i Hi), filter_app. cbn [filter].
    assert (Hin : In (nth i l dflt) (firstn (S i) l)).
    { rewrite firstn_S_nth by exact Hi. apply in_or_app. right. now left. }
    assert (Hpre : forall x, In x (firstn i l) -> rmatch o x = true -> expand_of x = None).
    { intros x Hxin. apply Hx. rewrite firstn_S_nth by exact Hi. apply in_or_app. now left. }
    destruct (rmatch o (nth i l dflt)) eqn:E.
    + rewrite (Hx _ Hin E). cbn [negb app]. rewrite app_nil_r.
      rewrite IH.
      * unfold del_at.
        assert (HL : length (firstn i l) = i) by (apply firstn_length_le; lia).
        rewrite firstn_app_le by lia. rewrite firstn_firstn, Nat.min_id.
        f_equal. rewrite <- HL at 1. apply skipn_app_exact.
      * lia.
      * rewrite del_at_length by lia. lia.
      * unfold del_at. rewrite firstn_app_le by (rewrite firstn_length_le; lia).
        rewrite firstn_firstn, Nat.min_id. exact Hpre.
    + cbn [negb]. rewrite IH by (try lia; exact Hpre).
      rewrite <- app_assoc. cbn [app]. f_equal. apply skipn_cons_nth. exact Hi.
Qed.

Lemma remove_filter : forall p o,
  (forall x, In x (items p) -> rmatch o x = true -> expand_of x = None) ->
  items (remove p o) = filter (fun x => negb (rmatch o x)) (items p).
Proof.
  intros p o H. unfold remove. cbn [items].
  rewrite remove_loop_filter; try lia.
  - rewrite firstn_all, skipn_all. apply app_nil_r.
  - rewrite firstn_all. exact H.
Qed.

Lemma insert_marks_in_range : forall p i t v,
  0 <= i <= zlen (items p) -> 0 <= v <= zlen (items p) ->
  marks (fst (insert p i t)) = map_levels (fun v => if v >=? i then v + 1 else v) (marks p) /\
  (v < i -> firstn (Z.to_nat (if v >=? i then v + 1 else v)) (list_insert i t (items p))
            = firstn (Z.to_nat v) (items p)) /\
  (i <= v -> skipn (Z.to_nat (if v >=? i then v + 1 else v)) (list_insert i t (items p))
             = skipn (Z.to_nat v) (items p)).
Proof.
  intros p i t v Hi Hv. split.
  - unfold insert. destruct (negb _ && b_final t); reflexivity.
  - exact (insert_boundaries (items p) i t v Hi Hv).
Qed.
