(* Lemmas about the model of CompilePipeline (Disc/PipelineModel.v). *)
From Coq Require Import List ZArith Bool Lia ZifyBool.
From PLV Require Import Disc.PipelineModel.
Import ListNotations.
Open Scope Z_scope.

(* ===================================================================== Part A: routing *)
Section RoutingProofs.
  Context {T R : Type}.
  Notation transform := (@transform T R).

  Lemma slice_of_app : forall (pre mid post : list R),
    slice_of (pre ++ mid ++ post) (length pre) (length pre + length mid) = mid.
  Proof.
    intros. unfold slice_of.
    rewrite skipn_app, skipn_all, Nat.sub_diag. cbn [skipn app].
    replace (length pre + length mid - length pre)%nat with (length mid) by lia.
    rewrite firstn_app, firstn_all, Nat.sub_diag. cbn [firstn]. apply app_nil_r.
  Qed.

  (* the slice lemma: the slices recorded by the inner loop cut the result batch back into the
     groups that belong to each input tape *)
  Lemma step_loop_spec : forall (f : transform) (g : T -> R) tapes (pre : list R),
    batch_post (snd (step_loop f tapes (length pre)))
               (pre ++ map g (fst (step_loop f tapes (length pre))))
    = map (fun t => snd (f t) (map g (fst (f t)))) tapes.
  Proof.
    intros f g tapes. induction tapes as [|t rest IH]; intros pre.
    - reflexivity.
    - cbn [step_loop fst snd map]. unfold batch_post. cbn [map fst snd]. f_equal.
      + f_equal. rewrite map_app.
        rewrite <- (map_length g (fst (f t))). apply slice_of_app.
      + specialize (IH (pre ++ map g (fst (f t)))).
        rewrite app_length, map_length in IH.
        rewrite map_app, app_assoc. exact IH.
  Qed.

  Lemma step_loop_tapes : forall (f : transform) tapes s,
    fst (step_loop f tapes s) = flat_map (fun t => fst (f t)) tapes.
  Proof.
    intros f tapes. induction tapes as [|t rest IH]; intros s; [reflexivity|].
    cbn [step_loop fst flat_map]. now rewrite IH.
  Qed.

  Lemma apply_stack_snoc : forall stack (b : list R -> list R) x,
    apply_stack (stack ++ [b]) x = apply_stack stack (b x).
  Proof. intros. unfold apply_stack. rewrite rev_app_distr. reflexivity. Qed.

  Lemma call_loop_spec : forall (p : list transform) (run : T -> R) tapes stack,
    apply_stack (snd (call_loop p tapes stack)) (map run (fst (call_loop p tapes stack)))
    = apply_stack stack (map (by_hand p run) tapes).
  Proof.
    induction p as [|f rest IH]; intros run tapes stack.
    - reflexivity.
    - cbn [call_loop]. rewrite IH, apply_stack_snoc. f_equal.
      exact (step_loop_spec f (by_hand rest run) tapes []).
  Qed.

  Lemma call_tapes_spec : forall (p : list transform) (batch : list T) (run : T -> R),
    snd (call_tapes p batch) (map run (fst (call_tapes p batch))) = map (by_hand p run) batch.
  Proof.
    intros [|f rest] batch run.
    - reflexivity.
    - unfold call_tapes. cbn [fst snd]. rewrite call_loop_spec. reflexivity.
  Qed.

  (* the execution tapes are, in order, the leaves of the by-hand application *)
  Fixpoint leaves (p : list transform) (t : T) : list T :=
    match p with [] => [t] | f :: rest => flat_map (leaves rest) (fst (f t)) end.

  Lemma flat_map_flat_map : forall {A B C} (f : A -> list B) (g : B -> list C) l,
    flat_map g (flat_map f l) = flat_map (fun x => flat_map g (f x)) l.
  Proof.
    intros. induction l as [|x r IH]; [reflexivity|].
    cbn [flat_map]. now rewrite flat_map_app, IH.
  Qed.

  Lemma call_loop_tapes : forall (p : list transform) tapes stack,
    fst (call_loop p tapes stack) = flat_map (leaves p) tapes.
  Proof.
    induction p as [|f rest IH]; intros tapes stack.
    - cbn [call_loop fst leaves]. induction tapes as [|t r IHt]; [reflexivity|].
      cbn [flat_map app]. now rewrite <- IHt.
    - cbn [call_loop]. rewrite IH, step_loop_tapes, flat_map_flat_map. reflexivity.
  Qed.

  Lemma call_tapes_leaves : forall (p : list transform) batch,
    fst (call_tapes p batch) = flat_map (leaves p) batch.
  Proof.
    intros [|f rest] batch.
    - exact (call_loop_tapes [] batch []).
    - unfold call_tapes. cbn [fst]. apply call_loop_tapes.
  Qed.
End RoutingProofs.
