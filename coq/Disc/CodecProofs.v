(* Lemmas about the dataset codec model (Disc/CodecModel.v). *)
From Coq Require Import List ZArith NArith Bool Lia.
From PLV Require Import Disc.CodecModel.
Import ListNotations.
Open Scope Z_scope.

(* ---------------------------------------------------------------- induction principle for nested values *)
Section ValInd.
  Variable P : val -> Prop.
  Hypothesis HNone : P VNone.
  Hypothesis HBool : forall b, P (VBool b).
  Hypothesis HInt : forall z, P (VInt z).
  Hypothesis HFloat : forall m e, P (VFloat m e).
  Hypothesis HComplex : forall a b c d, P (VComplex a b c d).
  Hypothesis HNp : forall d n, P (VNp d n).
  Hypothesis HStr : forall s, P (VStr s).
  Hypothesis HArray : forall i d s x, P (VArray i d s x).
  Hypothesis HList : forall l, Forall P l -> P (VList l).
  Hypothesis HTuple : forall l, Forall P l -> P (VTuple l).
  Hypothesis HDict : forall l, Forall (fun kv => P (snd kv)) l -> P (VDict l).
  Hypothesis HDataset : forall l, Forall (fun kv => P (snd kv)) l -> P (VDataset l).
  Hypothesis HOpaque : forall i, P (VOpaque i).

  Fixpoint val_ind2 (v : val) : P v :=
    let fix go (l : list val) : Forall P l :=
      match l with [] => Forall_nil _ | x :: r => Forall_cons _ (val_ind2 x) (go r) end in
    let fix gok (l : list (name * val)) : Forall (fun kv => P (snd kv)) l :=
      match l with [] => Forall_nil _ | kv :: r => Forall_cons kv (val_ind2 (snd kv)) (gok r) end in
    match v with
    | VNone => HNone | VBool b => HBool b | VInt z => HInt z | VFloat m e => HFloat m e
    | VComplex a b c d => HComplex a b c d | VNp d n => HNp d n | VStr s => HStr s
    | VArray i d s x => HArray i d s x
    | VList l => HList l (go l) | VTuple l => HTuple l (go l)
    | VDict l => HDict l (gok l) | VDataset l => HDataset l (gok l)
    | VOpaque i => HOpaque i
    end.
End ValInd.

(* ---------------------------------------------------------------- names *)
Lemma list_eqb_Z_eq : forall a b : list Z, list_eqb Z.eqb a b = true <-> a = b.
Proof.
  induction a as [|x r IH]; destruct b as [|y s]; simpl; split; intro H; try congruence; try discriminate.
  - apply andb_true_iff in H as [H1 H2]. apply Z.eqb_eq in H1. apply IH in H2. congruence.
  - inversion H; subst. rewrite Z.eqb_refl. simpl. apply IH. reflexivity.
Qed.

Lemma name_eqb_eq : forall a b, name_eqb a b = true <-> a = b.
Proof.
  destruct a as [x|x], b as [y|y]; simpl; split; intro H; try discriminate.
  - apply N.eqb_eq in H. congruence.
  - inversion H. apply N.eqb_refl.
  - apply list_eqb_Z_eq in H. congruence.
  - inversion H. apply list_eqb_Z_eq. reflexivity.
Qed.

Lemma name_eqb_refl : forall a, name_eqb a a = true.
Proof. intro a. apply name_eqb_eq. reflexivity. Qed.

Lemma name_eqb_neq : forall a b, a <> b -> name_eqb a b = false.
Proof. intros a b H. destruct (name_eqb a b) eqn:E; auto. apply name_eqb_eq in E. contradiction. Qed.

Lemma name_eqb_sym : forall a b, name_eqb a b = name_eqb b a.
Proof.
  intros a b. destruct (name_eqb a b) eqn:E.
  - apply name_eqb_eq in E. subst. symmetry. apply name_eqb_refl.
  - destruct (name_eqb b a) eqn:F; auto. apply name_eqb_eq in F. subst. rewrite name_eqb_refl in E. discriminate.
Qed.

(* ---------------------------------------------------------------- ordered association lists *)
Section AssocLemmas.
  Context {A : Type}.
  Implicit Types l m : list (name * A).

  Lemma lookup_app : forall k l m,
    lookup k (l ++ m) = match lookup k l with Some x => Some x | None => lookup k m end.
  Proof.
    induction l as [|[k' x] r IH]; intro m; simpl; auto.
    destruct (name_eqb k k'); auto.
  Qed.

  Lemma has_app : forall k l m, has k (l ++ m) = has k l || has k m.
  Proof. intros. unfold has. rewrite lookup_app. destruct (lookup k l); auto. Qed.

  Lemma has_cons : forall k k' (x : A) l, has k ((k', x) :: l) = name_eqb k k' || has k l.
  Proof. intros. unfold has. simpl. destruct (name_eqb k k'); auto. Qed.

  Lemma remove_notin : forall k l, has k l = false -> remove k l = l.
  Proof.
    induction l as [|[k' x] r IH]; simpl; auto. intro H.
    rewrite has_cons in H. apply orb_false_iff in H as [H1 H2]. rewrite H1. f_equal. auto.
  Qed.

  Lemma lookup_remove_same : forall k l, lookup k (remove k l) = None.
  Proof.
    induction l as [|[k' x] r IH]; simpl; auto.
    destruct (name_eqb k k') eqn:E; auto. simpl. rewrite E. auto.
  Qed.

  Lemma lookup_remove_other : forall k k' l, k <> k' -> lookup k (remove k' l) = lookup k l.
  Proof.
    induction l as [|[k0 x] r IH]; simpl; auto. intro H.
    destruct (name_eqb k' k0) eqn:E.
    - apply name_eqb_eq in E. subst. rewrite (name_eqb_neq k k0) by auto. auto.
    - simpl. destruct (name_eqb k k0); auto.
  Qed.

  Lemma lookup_put_same : forall k (x : A) l, lookup k (put k x l) = Some x.
  Proof. intros. unfold put. rewrite lookup_app, lookup_remove_same. simpl. rewrite name_eqb_refl. auto. Qed.

  Lemma lookup_put_other : forall k k' (x : A) l, k <> k' -> lookup k (put k' x l) = lookup k l.
  Proof.
    intros. unfold put. rewrite lookup_app, lookup_remove_other by auto.
    destruct (lookup k l); auto. simpl. rewrite name_eqb_neq; auto.
  Qed.

  Lemma put_notin : forall k (x : A) l, has k l = false -> put k x l = l ++ [(k, x)].
  Proof. intros. unfold put. rewrite remove_notin; auto. Qed.

  Lemma lookup_snoc_other : forall k k' (x : A) l, k <> k' -> lookup k (l ++ [(k', x)]) = lookup k l.
  Proof. intros. rewrite lookup_app. simpl. rewrite name_eqb_neq by auto. destruct (lookup k l); auto. Qed.

  Lemma lookup_snoc_same : forall k (x : A) l, has k l = false -> lookup k (l ++ [(k, x)]) = Some x.
  Proof.
    intros k x l H. rewrite lookup_app. unfold has in H. destruct (lookup k l); try discriminate.
    simpl. rewrite name_eqb_refl. reflexivity.
  Qed.

  Lemma has_snoc_other : forall k k' (x : A) l, k <> k' -> has k (l ++ [(k', x)]) = has k l.
  Proof. intros. unfold has. rewrite lookup_snoc_other; auto. Qed.

  Lemma has_snoc_same : forall k (x : A) l, has k (l ++ [(k, x)]) = true.
  Proof. intros. rewrite has_app, has_cons, name_eqb_refl. simpl. apply orb_true_r. Qed.

  Lemma has_put_other : forall k k' (x : A) l, k <> k' -> has k (put k' x l) = has k l.
  Proof. intros. unfold has. rewrite lookup_put_other; auto. Qed.
End AssocLemmas.

Lemma lookup_smap : forall {A B} (f : A -> B) k (l : list (name * A)),
  lookup k (smap f l) = option_map f (lookup k l).
Proof.
  induction l as [|[k' x] r IH]; simpl; auto. destruct (name_eqb k k'); auto.
Qed.

Lemma has_smap : forall {A B} (f : A -> B) k (l : list (name * A)), has k (smap f l) = has k l.
Proof. intros. unfold has. rewrite lookup_smap. destruct (lookup k l); auto. Qed.

Lemma remove_smap : forall {A B} (f : A -> B) k (l : list (name * A)),
  remove k (smap f l) = smap f (remove k l).
Proof.
  induction l as [|[k' x] r IH]; simpl; auto. destruct (name_eqb k k'); simpl; auto. f_equal. auto.
Qed.

Lemma smap_app : forall {A B} (f : A -> B) (l m : list (name * A)), smap f (l ++ m) = smap f l ++ smap f m.
Proof. intros. unfold smap. apply map_app. Qed.

Lemma put_smap : forall {A B} (f : A -> B) k x (l : list (name * A)),
  put k (f x) (smap f l) = smap f (put k x l).
Proof. intros. unfold put. rewrite remove_smap, smap_app. reflexivity. Qed.

Lemma nodupb_smap : forall {A B} (f : A -> B) (l : list (name * A)), nodupb (smap f l) = nodupb l.
Proof.
  induction l as [|[k x] r IH]; simpl; auto. fold (smap f r). rewrite has_smap, IH. reflexivity.
Qed.

Lemma smap_smap : forall {A B C} (f : A -> B) (g : B -> C) (l : list (name * A)),
  smap g (smap f l) = smap (fun x => g (f x)) l.
Proof. intros. unfold smap. rewrite map_map. reflexivity. Qed.

Lemma smap_ext_Forall : forall {A B} (f g : A -> B) (l : list (name * A)),
  Forall (fun kv => f (snd kv) = g (snd kv)) l -> smap f l = smap g l.
Proof.
  intros A B f g l H. induction H as [|[k x] r H1 H2 IH]; simpl; auto. simpl in H1. rewrite H1. f_equal. exact IH.
Qed.

Lemma map_ext_Forall : forall {A B} (f g : A -> B) (l : list A),
  Forall (fun x => f x = g x) l -> map f l = map g l.
Proof. intros A B f g l H. induction H; simpl; auto. congruence. Qed.

(* ---------------------------------------------------------------- list / tuple layout *)
Lemma list_extend_spec : forall ns ch,
  list_extend ch ns = ch ++ tuple_fill (N.of_nat (length ch)) ns.
Proof.
  induction ns as [|n r IH]; intro ch; simpl.
  - rewrite app_nil_r. reflexivity.
  - rewrite IH. rewrite <- app_assoc. simpl. rewrite app_length. simpl.
    replace (N.of_nat (length ch + 1)) with (N.succ (N.of_nat (length ch))) by lia. reflexivity.
Qed.

Lemma list_extend_nil : forall ns, list_extend [] ns = tuple_fill 0%N ns.
Proof. intro ns. rewrite list_extend_spec. reflexivity. Qed.

Lemma smap_tuple_fill : forall (f : node -> option val) ns i,
  smap f (tuple_fill i ns) =
  (fix fill (i : N) (l : list (option val)) := match l with [] => [] | x :: r => (KIdx i, x) :: fill (N.succ i) r end)
    i (map f ns).
Proof. induction ns as [|n r IH]; intro i; simpl; auto. f_equal. apply IH. Qed.

Fixpoint fillS (i : N) (vs : list val) : list (name * option val) :=
  match vs with [] => [] | v :: r => (KIdx i, Some v) :: fillS (N.succ i) r end.

Lemma smap_decode_fill : forall (l : list val) (g : val -> val) i,
  Forall (fun x => decode (encode x) = Some (g x)) l ->
  smap decode (tuple_fill i (map encode l)) = fillS i (map g l).
Proof.
  intros l g i H. revert i. induction H as [|x r H1 H2 IH]; intro i; simpl; auto.
  rewrite H1. f_equal. apply IH.
Qed.

Lemma length_fillS : forall vs i, length (fillS i vs) = length vs.
Proof. induction vs; intro i; simpl; auto. Qed.

Lemma lookup_fillS_lt : forall vs i j, (j < i)%N -> lookup (KIdx j) (fillS i vs) = None.
Proof.
  induction vs as [|v r IH]; intros i j H; simpl; auto.
  destruct (N.eqb j i) eqn:E. { apply N.eqb_eq in E. lia. }
  apply IH. lia.
Qed.

Lemma collect_fill : forall vs i pre,
  (forall j, (i <= j)%N -> lookup (KIdx j) pre = None) ->
  collect_idx (pre ++ fillS i vs) (seqN i (length vs)) = Some vs.
Proof.
  induction vs as [|v r IH]; intros i pre Hpre; simpl; auto.
  rewrite lookup_app. rewrite Hpre by lia. simpl. rewrite N.eqb_refl.
  specialize (IH (N.succ i) (pre ++ [(KIdx i, Some v)])).
  rewrite <- app_assoc in IH. simpl in IH. rewrite IH; auto.
  intros j Hj. rewrite lookup_app. rewrite Hpre by lia. simpl.
  destruct (N.eqb j i) eqn:E; auto. apply N.eqb_eq in E. lia.
Qed.

Lemma collect_fill0 : forall vs, collect_idx (fillS 0%N vs) (seqN 0%N (length (fillS 0%N vs))) = Some vs.
Proof. intro vs. rewrite length_fillS. apply (collect_fill vs 0%N []). intros; reflexivity. Qed.

(* ---------------------------------------------------------------- dict layout *)
Lemma dict_update_nodup : forall (kvs ch : list (name * node)),
  nodupb kvs = true -> (forall k, has k kvs = true -> has k ch = false) ->
  dict_update ch kvs = ch ++ kvs.
Proof.
  induction kvs as [|[k n] r IH]; intros ch Hnd Hdis; simpl.
  - rewrite app_nil_r. reflexivity.
  - simpl in Hnd. apply andb_true_iff in Hnd as [Hk Hr]. apply negb_true_iff in Hk.
    rewrite put_notin by (apply Hdis; rewrite has_cons, name_eqb_refl; reflexivity).
    rewrite IH; auto.
    + rewrite <- app_assoc. reflexivity.
    + intros k' Hk'. rewrite has_app, has_cons. unfold has at 2. simpl.
      rewrite (Hdis k') by (rewrite has_cons, Hk', orb_true_r; reflexivity). simpl.
      destruct (name_eqb k' k) eqn:E; auto. apply name_eqb_eq in E. subst. congruence.
Qed.

Lemma dict_update_nil : forall kvs, nodupb kvs = true -> dict_update [] kvs = kvs.
Proof. intros. rewrite dict_update_nodup; auto. Qed.

Lemma collect_kv_some : forall (l : list (name * val)),
  collect_kv (smap (@Some val) l) = Some l.
Proof. induction l as [|[k v] r IH]; simpl; auto. fold (smap (@Some val) r). rewrite IH. reflexivity. Qed.

(* ---------------------------------------------------------------- decode (encode v) *)
Lemma forallb_Forall_wf : forall (l : list val) (Q : val -> Prop),
  Forall (fun x => wf x = true -> Q x) l -> forallb wf l = true -> Forall Q l.
Proof.
  intros l Q H. induction H as [|x r H1 H2 IH]; simpl; intro W; constructor;
    apply andb_true_iff in W as [W1 W2]; auto.
Qed.

Lemma forallb_Forall_wfkv : forall (l : list (name * val)) (Q : val -> Prop),
  Forall (fun kv => wf (snd kv) = true -> Q (snd kv)) l ->
  forallb (fun kv => wf (snd kv)) l = true -> Forall (fun kv => Q (snd kv)) l.
Proof.
  intros l Q H. induction H as [|x r H1 H2 IH]; simpl; intro W; constructor;
    apply andb_true_iff in W as [W1 W2]; auto.
Qed.

Lemma smap_decode_encode : forall (l : list (name * val)),
  Forall (fun kv => decode (encode (snd kv)) = Some (norm (snd kv))) l ->
  smap decode (smap encode l) = smap (@Some val) (smap norm l).
Proof.
  intros l H. rewrite !smap_smap. apply smap_ext_Forall. exact H.
Qed.

Lemma decode_encode_wf : forall v, wf v = true -> decode (encode v) = Some (norm v).
Proof.
  induction v using val_ind2; intro W; try reflexivity.
  - destruct d; reflexivity.
  - (* list *) cbn [encode decode norm a_tid at_]. rewrite list_extend_nil.
    simpl in W. pose proof (forallb_Forall_wf l (fun x => decode (encode x) = Some (norm x)) H W) as F.
    rewrite (smap_decode_fill l norm 0%N F). rewrite collect_fill0. reflexivity.
  - (* tuple *) cbn [encode decode norm a_tid at_].
    simpl in W. pose proof (forallb_Forall_wf l (fun x => decode (encode x) = Some (norm x)) H W) as F.
    rewrite (smap_decode_fill l norm 0%N F). rewrite collect_fill0. reflexivity.
  - (* dict *) cbn [encode decode norm a_tid at_].
    simpl in W. apply andb_true_iff in W as [W1 W2].
    rewrite dict_update_nil by (rewrite nodupb_smap; exact W1).
    rewrite smap_decode_encode by (exact (forallb_Forall_wfkv l (fun x => decode (encode x) = Some (norm x)) H W2)).
    rewrite collect_kv_some. reflexivity.
  - (* dataset *) cbn [encode decode norm a_tid at_].
    simpl in W. apply andb_true_iff in W as [W1 W2].
    rewrite smap_decode_encode by (exact (forallb_Forall_wfkv l (fun x => decode (encode x) = Some (norm x)) H W2)).
    rewrite collect_kv_some. reflexivity.
Qed.

(* ---------------------------------------------------------------- the view is preserved, norm stabilises *)
Lemma pyview_norm : forall v, pyview (norm v) = pyview v.
Proof.
  induction v using val_ind2; try reflexivity.
  - destruct d; reflexivity.
  - cbn [norm pyview]. f_equal. rewrite map_map. apply map_ext_Forall. exact H.
  - cbn [norm pyview]. f_equal. rewrite map_map. apply map_ext_Forall. exact H.
  - cbn [norm pyview]. f_equal. rewrite smap_smap. apply smap_ext_Forall. exact H.
  - cbn [norm pyview]. f_equal. rewrite smap_smap. apply smap_ext_Forall. exact H.
Qed.

Lemma norm_stable : forall v, norm (norm (norm v)) = norm (norm v).
Proof.
  induction v using val_ind2; try reflexivity.
  - destruct d; reflexivity.
  - cbn [norm]. f_equal. rewrite !map_map. apply map_ext_Forall. exact H.
  - cbn [norm]. f_equal. rewrite !map_map. apply map_ext_Forall. exact H.
  - cbn [norm]. f_equal. rewrite !smap_smap. apply smap_ext_Forall. exact H.
  - cbn [norm]. f_equal. rewrite !smap_smap. apply smap_ext_Forall. exact H.
Qed.

Lemma wf_norm : forall v, wf v = true -> wf (norm v) = true.
Proof.
  induction v using val_ind2; intro W; try reflexivity.
  - destruct d; reflexivity.
  - cbn [norm wf] in *. rewrite forallb_forall in *. intros x Hx. apply in_map_iff in Hx as [y [E Hy]]. subst.
    rewrite Forall_forall in H. apply H; auto.
  - cbn [norm wf] in *. rewrite forallb_forall in *. intros x Hx. apply in_map_iff in Hx as [y [E Hy]]. subst.
    rewrite Forall_forall in H. apply H; auto.
  - cbn [norm wf] in *. apply andb_true_iff in W as [W1 W2]. rewrite nodupb_smap, W1. simpl.
    rewrite forallb_forall in *. intros x Hx. apply in_map_iff in Hx as [y [E Hy]]. subst. simpl.
    rewrite Forall_forall in H. apply H; auto.
  - cbn [norm wf] in *. apply andb_true_iff in W as [W1 W2]. rewrite nodupb_smap, W1. simpl.
    rewrite forallb_forall in *. intros x Hx. apply in_map_iff in Hx as [y [E Hy]]. subst. simpl.
    rewrite Forall_forall in H. apply H; auto.
Qed.

(* the kind of a value and the type id written for it *)
Inductive kind := KNone | KScalar | KString | KArray | KList | KTuple | KDict | KDataset | KOpaque.
Definition kind_of (v : val) : kind :=
  match v with
  | VNone => KNone
  | VBool _ | VInt _ | VFloat _ _ | VComplex _ _ _ _ => KScalar
  | VNp DBool _ => KArray
  | VNp _ _ => KScalar
  | VStr _ => KString | VArray _ _ _ _ => KArray | VList _ => KList | VTuple _ => KTuple
  | VDict _ => KDict | VDataset _ => KDataset | VOpaque _ => KOpaque
  end.
Definition node_kind (n : node) : kind :=
  match n with
  | NOpaque _ => KOpaque
  | NGroup a _ | NData a _ =>
      match a_tid a with
      | TNone => KNone | TScalar => KScalar | TString => KString | TArray => KArray | TList => KList
      | TTuple => KTuple | TDict => KDict | TDataset => KDataset
      end
  end.

Lemma encode_kind : forall v, node_kind (encode v) = kind_of v.
Proof. destruct v; try reflexivity. destruct d; reflexivity. Qed.

(* ---------------------------------------------------------------- injectivity *)
Lemma tuple_fill_inj : forall a b i, tuple_fill i a = tuple_fill i b -> a = b.
Proof.
  induction a as [|x r IH]; destruct b as [|y s]; simpl; intros i H; try discriminate; auto.
  inversion H. f_equal. eapply IH; eauto.
Qed.

Lemma map_inj_Forall : forall {A B} (f : A -> B) (l m : list A),
  Forall (fun x => forall y, f x = f y -> x = y) l -> map f l = map f m -> l = m.
Proof.
  intros A B f l m H. revert m. induction H as [|x r H1 H2 IH]; destruct m as [|y s]; simpl; intro E; try discriminate; auto.
  inversion E. f_equal; auto.
Qed.

Lemma smap_inj_Forall : forall {A B} (f : A -> B) (l m : list (name * A)),
  Forall (fun kv => forall y, f (snd kv) = f y -> snd kv = y) l -> smap f l = smap f m -> l = m.
Proof.
  intros A B f l m H. revert m. induction H as [|[k x] r H1 H2 IH]; destruct m as [|[k' y] s]; simpl; intro E; try discriminate; auto.
  inversion E. subst. simpl in H1. f_equal; auto. f_equal; auto.
Qed.

Lemma map_encode_inj : forall (l m : list val),
  Forall (fun x => forall y, wf x = true -> wf y = true -> encode x = encode y -> x = y) l ->
  forallb wf l = true -> forallb wf m = true -> map encode l = map encode m -> l = m.
Proof.
  intros l m H. revert m. induction H as [|x r H1 H2 IH]; destruct m as [|y s]; simpl; intros Wl Wm E;
    try discriminate; auto.
  apply andb_true_iff in Wl as [? ?]. apply andb_true_iff in Wm as [? ?]. inversion E. f_equal; auto.
Qed.

Lemma smap_encode_inj : forall (l m : list (name * val)),
  Forall (fun kv => forall y, wf (snd kv) = true -> wf y = true -> encode (snd kv) = encode y -> snd kv = y) l ->
  forallb (fun kv => wf (snd kv)) l = true -> forallb (fun kv => wf (snd kv)) m = true ->
  smap encode l = smap encode m -> l = m.
Proof.
  intros l m H. revert m. induction H as [|[k x] r H1 H2 IH]; destruct m as [|[k' y] s]; simpl; intros Wl Wm E;
    try discriminate; auto.
  apply andb_true_iff in Wl as [? ?]. apply andb_true_iff in Wm as [? ?]. inversion E. subst.
  simpl in H1. f_equal; auto. f_equal; auto.
Qed.

Ltac kill_np := try match goal with E : _ = encode (VNp ?dd _) |- _ => destruct dd; discriminate end.

Lemma encode_injective_wf : forall v w, wf v = true -> wf w = true -> encode v = encode w -> v = w.
Proof.
  induction v using val_ind2; intros w Wv Ww E.
  - destruct w; try discriminate; kill_np; reflexivity.
  - destruct w; try discriminate; kill_np; cbn in E; unfold at_ in E; inversion E; subst; reflexivity.
  - destruct w; try discriminate; kill_np; cbn in E; unfold at_ in E; inversion E; subst; reflexivity.
  - destruct w; try discriminate; kill_np; cbn in E; unfold at_ in E; inversion E; subst; reflexivity.
  - destruct w; try discriminate; kill_np; cbn in E; unfold at_ in E; inversion E; subst; reflexivity.
  - (* numpy scalar *)
    destruct w as [| | | | |d' n'| |i' d' s' x'| | | | |]; try (destruct d; discriminate).
    + destruct d, d'; cbn in E; unfold at_ in E; try discriminate; inversion E; subst; reflexivity.
    + destruct d; destruct i'; discriminate.
  - destruct w; try discriminate; kill_np; cbn in E; unfold at_ in E; inversion E; subst; reflexivity.
  - (* array *)
    destruct w as [| | | | |d' n'| |i' d' s' x'| | | | |]; try discriminate.
    + destruct d'; destruct i; discriminate.
    + destruct i, i'; cbn in E; unfold at_ in E; try discriminate; inversion E; subst; reflexivity.
  - (* list *)
    destruct w; try discriminate; kill_np.
    cbn [encode] in E. inversion E as [E1]. rewrite !list_extend_nil in E1. apply tuple_fill_inj in E1.
    f_equal. simpl in Wv, Ww. apply map_encode_inj; auto.
  - (* tuple *)
    destruct w; try discriminate; kill_np.
    cbn [encode] in E. inversion E as [E1]. apply tuple_fill_inj in E1.
    f_equal. simpl in Wv, Ww. apply map_encode_inj; auto.
  - (* dict *)
    destruct w; try discriminate; kill_np.
    simpl in Wv, Ww. apply andb_true_iff in Wv as [N1 W1]. apply andb_true_iff in Ww as [N2 W2].
    cbn [encode] in E. inversion E as [E1].
    rewrite !dict_update_nil in E1 by (rewrite nodupb_smap; assumption).
    f_equal. apply smap_encode_inj; auto.
  - (* dataset *)
    destruct w; try discriminate; kill_np.
    simpl in Wv, Ww. apply andb_true_iff in Wv as [N1 W1]. apply andb_true_iff in Ww as [N2 W2].
    cbn [encode] in E. inversion E as [E1]. f_equal. apply smap_encode_inj; auto.
  - destruct w; try discriminate; kill_np; cbn in E; unfold at_ in E; inversion E; subst; reflexivity.
Qed.

(* ---------------------------------------------------------------- histories: worlds *)
Section WorldLemmas.
  Context {A : Type}.
  Implicit Types w : list (list (name * A)).

  Lemma length_set_nth : forall i s w, length (set_nth i s w) = length w.
  Proof. induction i; destruct w; simpl; auto. Qed.

  Lemma nth_set_nth_same : forall i s w, (i < length w)%nat -> nth i (set_nth i s w) [] = s.
  Proof. induction i; destruct w; simpl; intro H; try lia; auto. apply IHi. lia. Qed.

  Lemma nth_set_nth_other : forall i j s w, i <> j -> nth j (set_nth i s w) [] = nth j w [].
  Proof.
    induction i; destruct w; destruct j; simpl; intro H; auto; try congruence.
  Qed.

  Lemma nth_error_nth : forall w i s, nth_error w i = Some s -> nth i w [] = s /\ (i < length w)%nat.
  Proof.
    induction w; destruct i; simpl; intros s H; try discriminate.
    - inversion H. split; auto. lia.
    - apply IHw in H as [H1 H2]. split; auto. lia.
  Qed.
End WorldLemmas.

Definition get {A} (w : list (list (name * A))) (i : nat) (k : name) : option A := lookup k (nth i w []).

Definition target (o : op) : nat :=
  match o with OSet i _ _ | OPut i _ _ | ODel i _ | OReopen i => i | OWrite _ j _ _ | OSnap _ j => j end.

Definition memb (k : name) (keys : list name) : bool := existsb (name_eqb k) keys.

Section StepLemmas.
  Context {A : Type}.
  Variable enc : val -> A.
  Implicit Types w : list (list (name * A)).

  Lemma readback_set_l : forall i k v w w', step enc (OSet i k v) w = (w', SOk) -> get w' i k = Some (enc v).
  Proof.
    intros i k v w w' H. simpl in H. destruct (nth_error w i) as [s|] eqn:E; try discriminate.
    destruct (has k s) eqn:Hk; try discriminate. inversion H; subst. apply nth_error_nth in E as [E1 E2].
    unfold get. rewrite nth_set_nth_same by auto. rewrite lookup_app.
    unfold has in Hk. destruct (lookup k s); try discriminate. simpl. rewrite name_eqb_refl. reflexivity.
  Qed.

  Lemma set_err_unchanged_l : forall i k v w w', step enc (OSet i k v) w = (w', SErr) -> w' = w.
  Proof.
    intros i k v w w' H. simpl in H. destruct (nth_error w i) as [s|]; [destruct (has k s)|]; inversion H; auto.
  Qed.

  Lemma set_existing_rejected_l : forall i k v w s, nth_error w i = Some s -> has k s = true ->
    step enc (OSet i k v) w = (w, SErr).
  Proof. intros. simpl. rewrite H, H0. reflexivity. Qed.

  Lemma readback_put_l : forall i k v w, (i < length w)%nat -> get (fst (step enc (OPut i k v) w)) i k = Some (enc v).
  Proof.
    intros i k v w H. simpl. destruct (nth_error w i) as [s|] eqn:E.
    - simpl. unfold get. rewrite nth_set_nth_same by auto. apply lookup_put_same.
    - apply nth_error_None in E. lia.
  Qed.

  Lemma readback_del_l : forall i k w w', step enc (ODel i k) w = (w', SOk) -> get w' i k = None.
  Proof.
    intros i k w w' H. simpl in H. destruct (nth_error w i) as [s|] eqn:E; try discriminate.
    destruct (has k s); try discriminate. inversion H; subst. apply nth_error_nth in E as [E1 E2].
    unfold get. rewrite nth_set_nth_same by auto. apply lookup_remove_same.
  Qed.

  Lemma frame_dataset_l : forall o w j, target o <> j -> nth j (fst (step enc o w)) [] = nth j w [].
  Proof.
    intros o w j H. destruct o; simpl in *.
    - destruct (nth_error w i); [destruct (has k l)|]; simpl; auto. apply nth_set_nth_other; auto.
    - destruct (nth_error w i); simpl; auto. apply nth_set_nth_other; auto.
    - destruct (nth_error w i); [destruct (has k l)|]; simpl; auto. apply nth_set_nth_other; auto.
    - destruct (nth_error w src); [destruct (nth_error w dst)|]; simpl; auto.
      destruct (Nat.eqb src dst); simpl; auto.
      destruct (copy_keys l l0 _ overwrite). simpl. apply nth_set_nth_other; auto.
    - destruct (nth_error w src); [destruct (nth_error w dst)|]; simpl; auto. apply nth_set_nth_other; auto.
    - destruct (nth_error w i); auto.
  Qed.

  Lemma frame_key_l : forall o w j k,
    match o with
    | OSet _ k' _ | OPut _ k' _ | ODel _ k' => k <> k'
    | OReopen _ => True
    | _ => False
    end -> get (fst (step enc o w)) j k = get w j k.
  Proof.
    intros o w j k H. destruct (Nat.eq_dec (target o) j) as [T|T].
    2:{ unfold get. rewrite frame_dataset_l; auto. }
    destruct o; simpl in *; try contradiction; subst.
    - destruct (nth_error w j) as [s|] eqn:E; auto. destruct (has k0 s); auto. simpl.
      apply nth_error_nth in E as [E1 E2]. unfold get. rewrite nth_set_nth_same by auto. rewrite E1.
      rewrite lookup_app. destruct (lookup k s); auto. simpl. rewrite name_eqb_neq; auto.
    - destruct (nth_error w j) as [s|] eqn:E; auto. simpl.
      apply nth_error_nth in E as [E1 E2]. unfold get. rewrite nth_set_nth_same by auto. rewrite E1.
      apply lookup_put_other; auto.
    - destruct (nth_error w j) as [s|] eqn:E; auto. destruct (has k0 s); auto. simpl.
      apply nth_error_nth in E as [E1 E2]. unfold get. rewrite nth_set_nth_same by auto. rewrite E1.
      apply lookup_remove_other; auto.
    - destruct (nth_error w j); auto.
  Qed.

  Lemma copy_keys_lookup : forall keys (src dst d' : list (name * A)) ov k,
    copy_keys src dst keys ov = (d', SOk) ->
    lookup k d' = if memb k keys && (ov || negb (has k dst)) then lookup k src else lookup k dst.
  Proof.
    induction keys as [|k0 r IH]; intros src dst d' ov k H; simpl in H.
    - inversion H. reflexivity.
    - destruct (lookup k0 src) as [x|] eqn:Ex; try discriminate.
      cbn [memb existsb]. fold (memb k r).
      destruct (name_eqb k k0) eqn:E.
      + apply name_eqb_eq in E. subst k0.
        destruct (has k dst) eqn:Hd; [destruct ov|].
        * rewrite (IH _ _ _ _ k H). rewrite lookup_put_same, Ex. cbn [orb andb negb].
          destruct (memb k r && true); reflexivity.
        * rewrite (IH _ _ _ _ k H). rewrite Hd. cbn [orb andb negb]. rewrite andb_false_r. reflexivity.
        * rewrite (IH _ _ _ _ k H). rewrite has_snoc_same, lookup_snoc_same, Ex by auto.
          cbn [orb andb negb]. rewrite orb_true_r.
          destruct (memb k r && (ov || false)); reflexivity.
      + assert (N : k <> k0) by (intro; subst; rewrite name_eqb_refl in E; discriminate).
        destruct (has k0 dst) eqn:Hd; [destruct ov|].
        * rewrite (IH _ _ _ _ k H). rewrite has_put_other, lookup_put_other by auto. reflexivity.
        * rewrite (IH _ _ _ _ k H). reflexivity.
        * rewrite (IH _ _ _ _ k H). rewrite has_snoc_other, lookup_snoc_other by auto. reflexivity.
  Qed.

  Definition eff_keys (keys : list name) (s : list (name * A)) : list name :=
    match keys with [] => map fst s | _ => keys end.

  Lemma readback_write_l : forall i j keys ov w w' k,
    step enc (OWrite i j keys ov) w = (w', SOk) ->
    get w' j k = if memb k (eff_keys keys (nth i w [])) && (ov || negb (has k (nth j w [])))
                 then get w i k else get w j k.
  Proof.
    intros i j keys ov w w' k H. simpl in H.
    destruct (nth_error w i) as [s|] eqn:Ei; try discriminate.
    destruct (nth_error w j) as [d|] eqn:Ej; try discriminate.
    destruct (Nat.eqb i j); try discriminate.
    destruct (copy_keys s d _ ov) as [d' st] eqn:C. inversion H; subst.
    apply nth_error_nth in Ei as [Ei1 Ei2]. apply nth_error_nth in Ej as [Ej1 Ej2].
    unfold get. rewrite nth_set_nth_same by auto. rewrite Ei1, Ej1.
    apply (copy_keys_lookup _ _ _ _ _ k C).
  Qed.

  Lemma readback_snap_l : forall i j w w', step enc (OSnap i j) w = (w', SOk) -> nth j w' [] = nth i w [].
  Proof.
    intros i j w w' H. simpl in H.
    destruct (nth_error w i) as [s|] eqn:Ei; try discriminate.
    destruct (nth_error w j) as [d|] eqn:Ej; try discriminate. inversion H; subst.
    apply nth_error_nth in Ei as [Ei1 Ei2]. apply nth_error_nth in Ej as [Ej1 Ej2].
    rewrite nth_set_nth_same by auto. auto.
  Qed.

  Lemma reopen_identity_l : forall i w, fst (step enc (OReopen i) w) = w.
  Proof. intros. simpl. destruct (nth_error w i); auto. Qed.
End StepLemmas.

(* ---------------------------------------------------------------- naturality: trees = encode (values) *)
Section Natural.
  Context {A B : Type}.
  Variable g : val -> A.
  Variable f : A -> B.
  Let fg := fun v => f (g v).

  Lemma nth_error_wmap : forall (w : list (list (name * A))) i,
    nth_error (wmap f w) i = option_map (smap f) (nth_error w i).
  Proof. intros. unfold wmap. apply nth_error_map. Qed.

  Lemma set_nth_wmap : forall i s (w : list (list (name * A))),
    set_nth i (smap f s) (wmap f w) = wmap f (set_nth i s w).
  Proof. induction i; destruct w; simpl; auto. f_equal. apply IHi. Qed.

  Lemma map_fst_smap : forall (s : list (name * A)), map fst (smap f s) = map fst s.
  Proof. intros. unfold smap. rewrite map_map. reflexivity. Qed.

  Lemma copy_keys_natural : forall keys (s d : list (name * A)) ov,
    copy_keys (smap f s) (smap f d) keys ov =
    (smap f (fst (copy_keys s d keys ov)), snd (copy_keys s d keys ov)).
  Proof.
    induction keys as [|k r IH]; intros s d ov; simpl; auto.
    rewrite lookup_smap. destruct (lookup k s) as [x|]; simpl; auto.
    rewrite has_smap. destruct (has k d); [destruct ov|].
    - rewrite put_smap. apply IH.
    - apply IH.
    - change [(k, f x)] with (smap f [(k, x)]). rewrite <- smap_app. apply IH.
  Qed.

  Lemma step_natural : forall o (w : list (list (name * A))),
    step fg o (wmap f w) = (wmap f (fst (step g o w)), snd (step g o w)).
  Proof.
    intros o w. destruct o; simpl; rewrite ?nth_error_wmap.
    - destruct (nth_error w i) as [s|]; simpl; auto. rewrite has_smap. destruct (has k s); simpl; auto.
      unfold fg. change [(k, f (g v))] with (smap f [(k, g v)]). rewrite <- smap_app, set_nth_wmap. reflexivity.
    - destruct (nth_error w i) as [s|]; simpl; auto. unfold fg. rewrite put_smap, set_nth_wmap. reflexivity.
    - destruct (nth_error w i) as [s|]; simpl; auto. rewrite has_smap. destruct (has k s); simpl; auto.
      rewrite remove_smap, set_nth_wmap. reflexivity.
    - destruct (nth_error w src) as [s|]; simpl; auto.
      destruct (nth_error w dst) as [d|]; simpl; auto.
      destruct (Nat.eqb src dst); simpl; auto.
      assert (K : match keys with [] => map fst (smap f s) | _ :: _ => keys end =
                  match keys with [] => map fst s | _ :: _ => keys end).
      { destruct keys; auto. apply map_fst_smap. }
      rewrite K. rewrite copy_keys_natural.
      destruct (copy_keys s d _ overwrite) as [d' st]. simpl. rewrite set_nth_wmap. reflexivity.
    - destruct (nth_error w src) as [s|]; simpl; auto.
      destruct (nth_error w dst) as [d|]; simpl; auto. rewrite set_nth_wmap. reflexivity.
    - destruct (nth_error w i); simpl; auto.
  Qed.

  Lemma run_natural : forall h (w : list (list (name * A))),
    run fg h (wmap f w) = (wmap f (fst (run g h w)), snd (run g h w)).
  Proof.
    induction h as [|o r IH]; intro w; simpl; auto.
    rewrite step_natural. destruct (step g o w) as [w1 s]. simpl.
    rewrite IH. destruct (run g r w1) as [w2 ss]. reflexivity.
  Qed.
End Natural.

Definition vid (v : val) : val := v.

Lemma wmap_empty : forall {A B} (f : A -> B) n, wmap f (empty_world n) = empty_world n.
Proof. intros. unfold empty_world, wmap. induction n; simpl; auto. f_equal. auto. Qed.

(* the tree-level execution of any history is the encoding of the value-level execution *)
Lemma history_refines : forall h n,
  run encode h (empty_world n) = (wmap encode (fst (run vid h (empty_world n))), snd (run vid h (empty_world n))).
Proof.
  intros h n. rewrite <- (wmap_empty encode n) at 1.
  exact (run_natural vid encode h (empty_world n)).
Qed.

(* ---------------------------------------------------------------- well-formedness is an invariant *)
Definition wf_store (s : list (name * val)) : Prop := Forall (fun kv => wf (snd kv) = true) s.
Definition wf_world (w : list (list (name * val))) : Prop := Forall wf_store w.
Definition wf_op (o : op) : Prop :=
  match o with OSet _ _ v | OPut _ _ v => wf v = true | _ => True end.

Lemma wf_remove : forall k s, wf_store s -> wf_store (remove k s).
Proof.
  intros k s H. induction H as [|[k' x] r H1 H2 IH]; simpl; [constructor|].
  destruct (name_eqb k k'); auto. constructor; auto.
Qed.

Lemma wf_snoc : forall k v s, wf_store s -> wf v = true -> wf_store (s ++ [(k, v)]).
Proof. intros. apply Forall_app. split; auto. Qed.

Lemma wf_put : forall k v s, wf_store s -> wf v = true -> wf_store (put k v s).
Proof. intros. unfold put. apply wf_snoc; auto. apply wf_remove; auto. Qed.

Lemma wf_lookup : forall k s v, wf_store s -> lookup k s = Some v -> wf v = true.
Proof.
  intros k s v H. induction H as [|[k' x] r H1 H2 IH]; simpl; try discriminate.
  destruct (name_eqb k k'); auto. intro E. inversion E; subst. exact H1.
Qed.

Lemma wf_copy_keys : forall keys s d ov, wf_store s -> wf_store d -> wf_store (fst (copy_keys s d keys ov)).
Proof.
  induction keys as [|k r IH]; intros s d ov Hs Hd; simpl; auto.
  destruct (lookup k s) as [x|] eqn:E; simpl; auto.
  pose proof (wf_lookup _ _ _ Hs E) as Wx.
  destruct (has k d); [destruct ov|]; apply IH; auto.
  - apply wf_put; auto.
  - apply wf_snoc; auto.
Qed.

Lemma wf_set_nth : forall i s w, wf_world w -> wf_store s -> wf_world (set_nth i s w).
Proof.
  induction i; intros s w Hw Hs; destruct w; simpl; auto; inversion Hw; subst; constructor; auto.
  apply IHi; auto.
Qed.

Lemma wf_nth_error : forall w i s, wf_world w -> nth_error w i = Some s -> wf_store s.
Proof. intros w i s Hw E. apply nth_error_In in E. unfold wf_world in Hw. rewrite Forall_forall in Hw. auto. Qed.

Lemma wf_step : forall o w, wf_op o -> wf_world w -> wf_world (fst (step vid o w)).
Proof.
  intros o w Ho Hw. destruct o; simpl in *.
  - destruct (nth_error w i) as [s|] eqn:E; auto. destruct (has k s); auto. simpl.
    apply wf_set_nth; auto. apply wf_snoc; auto. eapply wf_nth_error; eauto.
  - destruct (nth_error w i) as [s|] eqn:E; auto. simpl.
    apply wf_set_nth; auto. apply wf_put; auto. eapply wf_nth_error; eauto.
  - destruct (nth_error w i) as [s|] eqn:E; auto. destruct (has k s); auto. simpl.
    apply wf_set_nth; auto. apply wf_remove. eapply wf_nth_error; eauto.
  - destruct (nth_error w src) as [s|] eqn:E; auto. destruct (nth_error w dst) as [d|] eqn:F; auto.
    destruct (Nat.eqb src dst); auto.
    pose proof (wf_copy_keys (match keys with [] => map fst s | _ :: _ => keys end) s d overwrite
                  (wf_nth_error _ _ _ Hw E) (wf_nth_error _ _ _ Hw F)) as C.
    destruct (copy_keys s d _ overwrite) as [d' st]. simpl in *. apply wf_set_nth; auto.
  - destruct (nth_error w src) as [s|] eqn:E; auto. destruct (nth_error w dst) as [d|] eqn:F; auto.
    simpl. apply wf_set_nth; auto. eapply wf_nth_error; eauto.
  - destruct (nth_error w i); auto.
Qed.

Lemma wf_run : forall h w, Forall wf_op h -> wf_world w -> wf_world (fst (run vid h w)).
Proof.
  induction h as [|o r IH]; intros w Hh Hw; simpl; auto.
  inversion Hh; subst. pose proof (wf_step o w H1 Hw) as S1.
  destruct (step vid o w) as [w1 s]. simpl in S1. specialize (IH w1 H2 S1).
  destruct (run vid r w1) as [w2 ss]. exact IH.
Qed.

Lemma wf_empty : forall n, wf_world (empty_world n).
Proof. intro n. unfold wf_world, empty_world. induction n; simpl; constructor; auto. constructor. Qed.

Lemma nth_wmap : forall {A B} (f : A -> B) (w : list (list (name * A))) i,
  nth i (wmap f w) [] = smap f (nth i w []).
Proof. intros. unfold wmap. change (@nil (name * B)) with (smap f (@nil (name * A))). apply map_nth. Qed.

Lemma wf_nth : forall w i, wf_world w -> wf_store (nth i w []).
Proof.
  induction w; destruct i; simpl; intro H; try constructor; inversion H; subst; auto.
Qed.

(* after ANY history of well-formed writes, every attribute of every dataset reads back (through the
   tree and the decoder) as the round-trip image of the value the last-write-wins store holds *)
Lemma history_readback_l : forall h n i k, Forall wf_op h ->
  read_tree (fst (run encode h (empty_world n))) i k =
  option_map norm (get (fst (run vid h (empty_world n))) i k).
Proof.
  intros h n i k Hh. rewrite history_refines. simpl. unfold read_tree, get.
  rewrite nth_wmap, lookup_smap.
  pose proof (wf_nth _ i (wf_run h _ Hh (wf_empty n))) as W.
  destruct (lookup k (nth i (fst (run vid h (empty_world n))) [])) as [v|] eqn:E; simpl; auto.
  apply decode_encode_wf. eapply wf_lookup; eauto.
Qed.

Lemma value_preserved_l : forall v, wf v = true -> exists v', decode (encode v) = Some v' /\ pyview v' = pyview v.
Proof. intros v W. exists (norm v). split; [apply decode_encode_wf; auto | apply pyview_norm]. Qed.

(* a value that has been read back twice is a fixed point of write/read *)
Lemma reread_fixpoint_l : forall v, wf v = true -> decode (encode (norm (norm v))) = Some (norm (norm v)).
Proof. intros v W. rewrite decode_encode_wf by (apply wf_norm, wf_norm, W). f_equal. apply norm_stable. Qed.
