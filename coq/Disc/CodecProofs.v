From Coq Require Import List ZArith NArith Bool Lia.
From PLV Require Import Disc.CodecModel.
Import ListNotations.
Lemma stub : encode VNone = encode VNone. Proof. reflexivity. Qed.
