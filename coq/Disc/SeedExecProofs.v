(* C31  Proofs about the model of DefaultQubit.execute (SeedExecModel.v). *)
From Coq Require Import List ZArith Bool Arith Lia Permutation.
From PLV Require Import Disc.SeedExecModel.
Import ListNotations.

Section Proofs.
  Variables (St C R : Type).
  Variable ints : St -> nat -> list Z * St.
  Variable int1 : St -> Z * St.
  Variable reseed : Z -> St.
  Variable task : C -> Z -> R.
  Variable sim : C -> St -> R * St.
  Variable dflt : R.

  Notation run_pool := (run_pool C R task).
  Notation collect := (collect R dflt).
  Notation exec_par := (exec_par St C R ints int1 reseed task dflt).
  Notation exec_ser := (exec_ser St C R sim).
  Notation run_seq := (run_seq St C R ints int1 reseed task sim dflt).
  Notation pairing := (pairing St C ints).

  (* ---------------------------------------------------------------- the pool and the collector *)
  Lemma find_run_pool_in : forall perm ts i c s,
      In i perm -> nth_error ts i = Some (c, s) ->
      find (fun e => Nat.eqb (fst e) i) (run_pool perm ts) = Some (i, task c s).
  Proof.
    induction perm as [|j perm IH]; intros ts i c s Hin Hn; [destruct Hin|].
    unfold SeedExecModel.run_pool; cbn [flat_map].
    destruct (Nat.eq_dec j i) as [->|Hne].
    - rewrite Hn. cbn [app find fst]. rewrite Nat.eqb_refl. reflexivity.
    - destruct Hin as [->|Hin]; [congruence|].
      destruct (nth_error ts j) as [[c' s']|] eqn:Hj.
      + cbn [app find fst]. destruct (Nat.eqb j i) eqn:E; [apply Nat.eqb_eq in E; congruence|].
        apply (IH ts i c s Hin Hn).
      + cbn [app]. apply (IH ts i c s Hin Hn).
  Qed.

  Lemma collect_aux : forall perm ts k n,
      (forall i, (k <= i < k + n)%nat -> In i perm) -> (k + n <= length ts)%nat ->
      map (fun i => match find (fun e => Nat.eqb (fst e) i) (run_pool perm ts) with
                    | Some e => snd e | None => dflt end) (seq k n)
      = map (fun cs => task (fst cs) (snd cs)) (firstn n (skipn k ts)).
  Proof.
    intros perm ts k n; revert k; induction n as [|n IH]; intros k Hc Hl; [reflexivity|].
    cbn [seq map].
    destruct (nth_error ts k) as [[c s]|] eqn:Hk.
    2:{ apply nth_error_None in Hk. lia. }
    rewrite (find_run_pool_in perm ts k c s (Hc k ltac:(lia)) Hk). cbn [snd].
    assert (Hs : skipn k ts = (c, s) :: skipn (S k) ts).
    { clear -Hk. revert k Hk; induction ts as [|x ts IHt]; intros [|k] H; cbn in *; try discriminate.
      - now inversion H.
      - now apply IHt. }
    rewrite Hs. cbn [firstn map fst snd]. f_equal.
    apply IH; [intros i Hi; apply Hc; lia | lia].
  Qed.

  Lemma collect_run_pool : forall perm ts,
      covers perm (length ts) ->
      collect (length ts) (run_pool perm ts) = map (fun cs => task (fst cs) (snd cs)) ts.
  Proof.
    intros perm ts Hc. unfold SeedExecModel.collect.
    rewrite (collect_aux perm ts 0 (length ts)); [|intros i Hi; apply Hc; lia|lia].
    cbn [skipn]. now rewrite firstn_all.
  Qed.

  Lemma perm_covers : forall perm n, Permutation perm (seq 0 n) -> covers perm n.
  Proof.
    intros perm n HP i Hi. apply (Permutation_in i (Permutation_sym HP)). apply in_seq. lia.
  Qed.

  (* ---------------------------------------------------------------- one parallel execute *)
  Lemma exec_par_dispatched : forall perm st batch,
      length (fst (ints st (length batch))) = length batch ->
      p_dispatched _ _ _ (exec_par perm st batch) = pairing st batch.
  Proof.
    intros perm st batch HL. unfold SeedExecModel.exec_par, SeedExecModel.pairing.
    destruct (ints st (length batch)) as [seeds st1] eqn:E. cbn [fst] in *.
    rewrite HL, Nat.eqb_refl. destruct (int1 st1). reflexivity.
  Qed.

  Lemma exec_par_sched_indep : forall perm1 perm2 st batch,
      p_dispatched _ _ _ (exec_par perm1 st batch) = p_dispatched _ _ _ (exec_par perm2 st batch)
      /\ p_state _ _ _ (exec_par perm1 st batch) = p_state _ _ _ (exec_par perm2 st batch).
  Proof.
    intros. unfold SeedExecModel.exec_par.
    destruct (ints st (length batch)) as [seeds st1].
    destruct (Nat.eqb (length seeds) (length batch)); [destruct (int1 st1)|]; split; reflexivity.
  Qed.

  Lemma exec_par_results : forall perm st batch,
      covers perm (length batch) ->
      length (fst (ints st (length batch))) = length batch ->
      p_results _ _ _ (exec_par perm st batch)
      = Some (map (fun cs => task (fst cs) (snd cs)) (pairing st batch)).
  Proof.
    intros perm st batch Hc HL. unfold SeedExecModel.exec_par, SeedExecModel.pairing.
    destruct (ints st (length batch)) as [seeds st1] eqn:E. cbn [fst] in *.
    rewrite HL, Nat.eqb_refl. destruct (int1 st1). cbn [p_results]. f_equal.
    assert (Hlen : length (combine batch seeds) = length batch)
      by (rewrite combine_length; lia).
    rewrite <- Hlen. apply collect_run_pool. now rewrite Hlen.
  Qed.

  (* when the draw has the wrong length both schedules fail alike *)
  Lemma exec_par_results_sched : forall perm1 perm2 st batch,
      covers perm1 (length batch) -> covers perm2 (length batch) ->
      p_results _ _ _ (exec_par perm1 st batch) = p_results _ _ _ (exec_par perm2 st batch).
  Proof.
    intros perm1 perm2 st batch H1 H2.
    destruct (Nat.eq_dec (length (fst (ints st (length batch)))) (length batch)) as [HL|HL].
    - now rewrite !exec_par_results.
    - unfold SeedExecModel.exec_par. destruct (ints st (length batch)) as [seeds st1]. cbn [fst] in HL.
      destruct (Nat.eqb (length seeds) (length batch)) eqn:E; [apply Nat.eqb_eq in E; congruence|].
      reflexivity.
  Qed.

  (* ---------------------------------------------------------------- histories *)
  Definition sched_ok (steps : list (bool * list C)) (sched : list (list nat)) : Prop :=
    Forall2 (fun stp perm => covers perm (length (snd stp))) steps sched.

  Lemma run_seq_sched_indep : forall steps st sched1 sched2,
      sched_ok steps sched1 -> sched_ok steps sched2 ->
      run_seq st steps sched1 = run_seq st steps sched2.
  Proof.
    induction steps as [|[par batch] rest IH]; intros st sched1 sched2 H1 H2; [reflexivity|].
    inversion H1 as [|? p1 ? s1 Hc1 Hr1]; subst. inversion H2 as [|? p2 ? s2 Hc2 Hr2]; subst.
    cbn [SeedExecModel.run_seq hd tl]. cbn [snd] in Hc1, Hc2.
    destruct par.
    - destruct (exec_par_sched_indep p1 p2 st batch) as [Hd Hs].
      rewrite Hd, Hs, (exec_par_results_sched p1 p2 st batch Hc1 Hc2).
      now rewrite (IH _ s1 s2 Hr1 Hr2).
    - destruct (exec_ser st batch) as [xs st']. now rewrite (IH _ s1 s2 Hr1 Hr2).
  Qed.

  (* the per-step pairings of a history are those of the spec, step by step *)
  Fixpoint spec_seq (st : St) (steps : list (bool * list C)) : list (list (C * Z)) :=
    match steps with
    | [] => []
    | (true, batch) :: rest =>
        pairing st batch :: spec_seq (reseed (fst (int1 (snd (ints st (length batch)))))) rest
    | (false, batch) :: rest => [] :: spec_seq (snd (exec_ser st batch)) rest
    end.

  Definition ints_ok : Prop := forall st n, length (fst (ints st n)) = n.

  Lemma run_seq_dispatched : ints_ok -> forall steps st sched,
      map (s_dispatched C R) (fst (run_seq st steps sched)) = spec_seq st steps.
  Proof.
    intros HI. induction steps as [|[par batch] rest IH]; intros st sched; [reflexivity|].
    cbn [SeedExecModel.run_seq spec_seq]. destruct par.
    - pose proof (exec_par_dispatched (hd [] sched) st batch (HI _ _)) as Hd.
      assert (Hs : p_state _ _ _ (exec_par (hd [] sched) st batch)
                   = reseed (fst (int1 (snd (ints st (length batch)))))).
      { unfold SeedExecModel.exec_par. pose proof (HI st (length batch)) as HL.
        destruct (ints st (length batch)) as [seeds st1]. cbn [fst snd] in *.
        rewrite HL, Nat.eqb_refl. now destruct (int1 st1). }
      rewrite Hs. specialize (IH (reseed (fst (int1 (snd (ints st (length batch)))))) (tl sched)).
      destruct (run_seq _ rest (tl sched)) as [os st2]. cbn [fst map s_dispatched] in *.
      now rewrite Hd, IH.
    - specialize (IH (snd (exec_ser st batch)) (tl sched)).
      destruct (exec_ser st batch) as [xs st']. cbn [snd] in IH.
      destruct (run_seq st' rest (tl sched)) as [os st2]. cbn [fst map s_dispatched] in *.
      now rewrite IH.
  Qed.

  (* ---------------------------------------------------------------- serial path vs. parallel path *)
  Lemma exec_ser_analytic : forall (f : C -> R), (forall c st, fst (sim c st) = f c) ->
      forall batch st, fst (exec_ser st batch) = map f batch.
  Proof.
    intros f Hf. induction batch as [|c r IH]; intros st; [reflexivity|].
    cbn [SeedExecModel.exec_ser]. specialize (Hf c st). destruct (sim c st) as [x st1]. cbn [fst] in Hf.
    specialize (IH st1). destruct (exec_ser st1 r) as [xs st2]. cbn [fst map] in *. now rewrite Hf, IH.
  Qed.

  Lemma par_equals_ser_analytic : forall (f : C -> R),
      (forall c s, task c s = f c) -> (forall c st, fst (sim c st) = f c) ->
      forall perm st st' batch, covers perm (length batch) ->
      length (fst (ints st (length batch))) = length batch ->
      p_results _ _ _ (exec_par perm st batch) = Some (fst (exec_ser st' batch)).
  Proof.
    intros f Ht Hs perm st st' batch Hc HL.
    rewrite exec_par_results by assumption. rewrite (exec_ser_analytic f Hs). f_equal.
    unfold SeedExecModel.pairing. clear Hc. revert HL. generalize (fst (ints st (length batch))).
    induction batch as [|c r IH]; intros [|s l] HL; cbn in *; try discriminate; [reflexivity|].
    rewrite Ht. f_equal. apply IH. lia.
  Qed.

  Lemma exec_ser_app : forall b1 b2 st,
      exec_ser st (b1 ++ b2)
      = (fst (exec_ser st b1) ++ fst (exec_ser (snd (exec_ser st b1)) b2),
         snd (exec_ser (snd (exec_ser st b1)) b2)).
  Proof.
    induction b1 as [|c r IH]; intros b2 st.
    - cbn. now destruct (exec_ser st b2).
    - cbn [app SeedExecModel.exec_ser]. destruct (sim c st) as [x st1]. rewrite IH.
      destruct (exec_ser st1 r) as [xs st2]. reflexivity.
  Qed.
End Proofs.

(* ------------------------------------------------------------------ concrete facts (non-vacuity) *)
Definition ex_tables : tables :=
  {| t_ints := [((0, 3), ([11; 22; 33], 1)); ((3, 2), ([44; 55], 4))];
     t_int1 := [(1, (7, 2)); (4, (8, 5))];
     t_reseed := [(7, 3); (8, 6)];
     t_sim := [((100, 6), 7); ((101, 7), 8)] |}%Z.

Lemma ex_history_schedules_agree :
  c_run_seq ex_tables 0%Z [(true, [100; 101; 102]); (true, [103; 104]); (false, [100; 101])]%Z
            [[2; 0; 1]; [1; 0]; []]%nat
  = c_run_seq ex_tables 0%Z [(true, [100; 101; 102]); (true, [103; 104]); (false, [100; 101])]%Z
              [[0; 1; 2]; [0; 1]; []]%nat
  /\ snd (c_run_seq ex_tables 0%Z [(true, [100; 101; 102]); (true, [103; 104]); (false, [100; 101])]%Z
                    [[2; 0; 1]; [1; 0]; []]%nat) = 8%Z.
Proof. split; vm_compute; reflexivity. Qed.

(* the serial path hands the generator itself to every circuit, the parallel path integer seeds: with
   finite shots the two paths are different streams (the property does not claim they agree) *)
Lemma ex_serial_differs_from_parallel :
  s_results _ _ (hd {| s_dispatched := []; s_results := None |}
                    (fst (c_run_seq ex_tables 0%Z [(true, [100; 101; 102])]%Z [[0; 1; 2]]%nat)))
  <> s_results _ _ (hd {| s_dispatched := []; s_results := None |}
                       (fst (c_run_seq ex_tables 0%Z [(false, [100; 101; 102])]%Z [[]]))).
Proof. vm_compute. discriminate. Qed.
