(* Model of pennylane/pauli/grouping/group_observables.py (PauliGroupingStrategy, group_observables,
   compute_partition_indices, _partition_coeffs, _adj_matrix_from_symplectic) and of
   pennylane/pauli/utils.py (pauli_to_binary, binary_to_pauli, diagonalize_qwc_pauli_words,
   diagonalize_pauli_word).  The graph colouring (rustworkx graph_greedy_color, or the repo's
   recursive_largest_first) is an ORACLE: its recorded result is an argument of the model and is
   validated by the boolean checkers below.  No proofs here. *)
From Coq Require Import List ZArith Bool Arith.
Import ListNotations.

(* ------------------------------------------------------------------ Pauli words *)
Inductive pauli := PI | PX | PY | PZ.
Definition word := list pauli.           (* one letter per wire of the global wire map *)

Definition pauli_eqb (a b : pauli) : bool :=
  match a, b with PI, PI | PX, PX | PY, PY | PZ, PZ => true | _, _ => false end.
Fixpoint list_eqb {A} (e : A -> A -> bool) (a b : list A) : bool :=
  match a, b with [], [] => true | x :: r, y :: s => e x y && list_eqb e r s | _, _ => false end.
Definition word_eqb : word -> word -> bool := list_eqb pauli_eqb.
Definition is_id (p : pauli) : bool := match p with PI => true | _ => false end.

(* ------------------------------------------------------------------ the three relations, directly *)
Definition q_commute (a b : pauli) : bool := is_id a || is_id b || pauli_eqb a b.
Fixpoint qwc (u v : word) : bool :=
  match u, v with a :: u', b :: v' => q_commute a b && qwc u' v' | _, _ => true end.
(* parity of the number of wires on which the letters anticommute *)
Fixpoint anti_parity (u v : word) : bool :=
  match u, v with a :: u', b :: v' => xorb (negb (q_commute a b)) (anti_parity u' v') | _, _ => false end.
Definition commuting (u v : word) : bool := negb (anti_parity u v).
Definition anticommuting (u v : word) : bool := anti_parity u v.

Inductive gtype := QWC | COMM | ANTI.
Definition rel (g : gtype) : word -> word -> bool :=
  match g with QWC => qwc | COMM => commuting | ANTI => anticommuting end.

(* ------------------------------------------------------------------ symplectic representation *)
Open Scope Z_scope.
Definition xbit (p : pauli) : Z := match p with PX | PY => 1 | _ => 0 end.
Definition zbit (p : pauli) : Z := match p with PY | PZ => 1 | _ => 0 end.
(* pauli_to_binary with the global wire map: X part then Z part *)
Definition to_symp (w : word) : list Z := map xbit w ++ map zbit w.
(* observables_to_binary_matrix *)
Definition symp_matrix (ws : list word) : list (list Z) := map to_symp ws.

(* binary_to_pauli (_BINARY_PAULI_MAP); non-binary entries cannot occur (the rows come from to_symp) *)
Definition letter_of (x z : Z) : pauli :=
  if x =? 0 then (if z =? 0 then PI else PZ) else (if z =? 0 then PX else PY).
Definition from_symp (row : list Z) : word :=
  let n := Nat.div2 (length row) in
  map (fun xz => letter_of (fst xz) (snd xz)) (combine (firstn n row) (skipn n row)).

(* _adj_matrix_from_symplectic *)
Definition n_qubits (m : list (list Z)) : nat :=
  match m with [] => 0%nat | r :: _ => Nat.div2 (length r) end.    (* shape[1] // 2 *)
Definition pint_row (n : nat) (row : list Z) : list Z :=           (* 2 * S[:, :n] + S[:, n:] *)
  map (fun xz => 2 * fst xz + snd xz) (combine (firstn n row) (skipn n row)).
(* qubit_anticommutation_mat[i, j, :] = (int[j] * int[i]) * (int[j] - int[i]) *)
Definition qam (ri rj : list Z) : list Z :=
  map (fun ab => (fst ab * snd ab) * (fst ab - snd ab)) (combine rj ri).
Definition nz (v : Z) : bool := negb (v =? 0).
Definition or_reduce (l : list bool) : bool := fold_left orb l false.     (* np.logical_or.reduce *)
Definition xor_reduce (l : list bool) : bool := fold_left xorb l false.   (* np.logical_xor.reduce *)
Definition entry (g : gtype) (ri rj : list Z) : bool :=
  let v := map nz (qam ri rj) in
  match g with QWC => or_reduce v | COMM => xor_reduce v | ANTI => negb (xor_reduce v) end.
Definition adj_matrix (g : gtype) (m : list (list Z)) : list (list bool) :=
  let P := map (pint_row (n_qubits m)) m in
  map (fun ri => map (fun rj => entry g ri rj) P) P.
Close Scope Z_scope.

(* ------------------------------------------------------------------ partition from a colouring *)
(* _idx_partitions_dict_from_graph: `for idx, colour in sorted(colouring.items()): groups[colour].append(idx)`;
   a defaultdict keeps first-insertion order of the colours *)
Fixpoint ins (c : Z) (i : nat) (gs : list (Z * list nat)) : list (Z * list nat) :=
  match gs with
  | [] => [(c, [i])]
  | (c', l) :: r => if (c =? c')%Z then (c', l ++ [i]) :: r else (c', l) :: ins c i r
  end.
Fixpoint build_from (i : nat) (cols : list Z) (gs : list (Z * list nat)) : list (Z * list nat) :=
  match cols with [] => gs | c :: r => build_from (S i) r (ins c i gs) end.
Definition idx_partitions (cols : list Z) : list (list nat) := map snd (build_from 0 cols []).

(* items_partitions_from_idx_partitions (itemgetter) *)
Definition items_partitions {A} (d : A) (items : list A) (gs : list (list nat)) : list (list A) :=
  map (map (fun i => nth i items d)) gs.

(* the oracle: a colour per node (rustworkx) or the groups of binary rows (recursive_largest_first) *)
Inductive oracle :=
| ORx (cols : list Z)
| ORlf (groups : list (list (list Z))).

(* PauliGroupingStrategy.partition_observables *)
Definition partition_observables (ws : list word) (o : oracle) : list (list word) :=
  match o with
  | ORx cols => items_partitions [] ws (idx_partitions cols)
  | ORlf gs => map (map from_symp) gs
  end.

(* ------------------------------------------------------------------ coefficient / index routing *)
(* the inner search loop of _partition_coeffs and _compute_partition_indices_rlf: first remaining
   observable identical to the word; pop it (observables.pop(ind); coeff_indices.pop(ind)) *)
Fixpoint find_pop {A} (w : word) (obs : list (word * A)) : option (A * list (word * A)) :=
  match obs with
  | [] => None
  | (w', c) :: r =>
      if word_eqb w w' then Some (c, r)
      else match find_pop w r with Some (c', r') => Some (c', (w', c) :: r') | None => None end
  end.
(* one partition; a word that is not found contributes nothing (the for loop just ends) *)
Fixpoint route_group {A} (g : list word) (obs : list (word * A)) : list A * list (word * A) :=
  match g with
  | [] => ([], obs)
  | w :: g' => match find_pop w obs with
               | Some (c, obs') => let (cs, r) := route_group g' obs' in (c :: cs, r)
               | None => route_group g' obs
               end
  end.
Fixpoint route {A} (gs : list (list word)) (obs : list (word * A)) : list (list A) :=
  match gs with
  | [] => []
  | g :: gs' => let (cs, r) := route_group g obs in cs :: route gs' r
  end.

(* ------------------------------------------------------------------ group_observables *)
(* an input observable: its word and whether len(ob.wires) > 0 *)
Definition obsv := (word * bool)%type.
Definition with_wires (obs : list obsv) : list word := map fst (filter (fun o => snd o) obs).
Definition no_wires (obs : list obsv) : list word := map fst (filter (fun o => negb (snd o)) obs).

(* None = exception (partitioned_paulis[0] on an empty list) *)
Definition group_observables (obs : list obsv) (o : oracle) : option (list (list word)) :=
  match with_wires obs with
  | [] => Some [map fst obs]
  | ws => match partition_observables ws o with
          | [] => None
          | g0 :: r => Some ((g0 ++ no_wires obs) :: r)
          end
  end.

(* _partition_coeffs; when no observable has wires the coefficients are returned as one group *)
Definition partition_coeffs (obs : list obsv) (coeffs : list Z) (gs : list (list word)) : list (list Z) :=
  match with_wires obs with
  | [] => [coeffs]
  | _ => route gs (combine (map fst obs) coeffs)
  end.

(* compute_partition_indices; [o] is the oracle for the observables with wires (rlf path, through
   group_observables), [cols_all] the colouring of the graph over ALL observables (other methods) *)
Definition compute_partition_indices (rlf : bool) (obs : list obsv) (o : oracle) (cols_all : list Z)
  : option (list (list nat)) :=
  let idx := seq 0 (length obs) in
  if rlf then
    match group_observables obs o with
    | Some gs => Some (route gs (combine (map fst obs) idx))
    | None => None
    end
  else if forallb (fun ob => negb (snd ob)) obs then Some [idx]
  else Some (idx_partitions cols_all).

(* ------------------------------------------------------------------ verified checkers *)
(* colouring proper for the complement graph: the code adds an edge for every i < j with adj[i][j] *)
Definition adjb (adj : list (list bool)) (i j : nat) : bool := nth j (nth i adj []) false.
Definition properb (adj : list (list bool)) (cols : list Z) : bool :=
  let m := length adj in
  (length cols =? m) &&
  forallb (fun i => forallb (fun j =>
     if (i <? j) && adjb adj i j then negb (nth i cols 0%Z =? nth j cols 0%Z)%Z else true) (seq 0 m)) (seq 0 m).

Fixpoint pairwiseb {A} (r : A -> A -> bool) (l : list A) : bool :=
  match l with [] => true | x :: t => forallb (r x) t && pairwiseb r t end.
Definition count_nat (i : nat) (l : list nat) : nat := length (filter (Nat.eqb i) l).

(* every index 0..n-1 exactly once, nothing else, members of each group pairwise related *)
Definition valid_grouping (r : word -> word -> bool) (ws : list word) (gs : list (list nat)) : bool :=
  let n := length ws in
  let flat := concat gs in
  (length flat =? n) &&
  forallb (fun i => count_nat i flat =? 1) (seq 0 n) &&
  forallb (fun g => pairwiseb r (map (fun i => nth i ws []) g)) gs.

(* multiset equality of two lists (used for words and for (word, coefficient) pairs) *)
Definition count_by {A} (e : A -> A -> bool) (x : A) (l : list A) : nat := length (filter (e x) l).
Definition perm_eqb {A} (e : A -> A -> bool) (a b : list A) : bool :=
  (length a =? length b) && forallb (fun x => count_by e x a =? count_by e x b) a.
Definition wc_eqb (a b : word * Z) : bool := word_eqb (fst a) (fst b) && (snd a =? snd b)%Z.

(* groups of words with their coefficients: same multiset of (word, coefficient) as the input,
   same shape, members of each group pairwise related *)
Definition valid_word_grouping (r : word -> word -> bool) (ws : list word) (coeffs : list Z)
           (gs : list (list word)) (cs : list (list Z)) : bool :=
  list_eqb Nat.eqb (map (@length _) gs) (map (@length _) cs) &&
  perm_eqb wc_eqb (combine (concat gs) (concat cs)) (combine ws coeffs) &&
  forallb (pairwiseb r) gs.

(* ------------------------------------------------------------------ diagonalising a qwc group *)
(* diagonalize_qwc_pauli_words: full_pauli_word[wire] = first non-identity letter seen on the wire;
   a different non-identity letter later raises ValueError (None) *)
Fixpoint merge_basis (full w : word) : option word :=
  match full, w with
  | f :: full', a :: w' =>
      match merge_basis full' w' with
      | None => None
      | Some r => if is_id a then Some (f :: r)
                  else if is_id f then Some (a :: r)
                  else if pauli_eqb f a then Some (f :: r) else None
      end
  | _, _ => Some full
  end.
Definition full_word (n : nat) (g : list word) : option word :=
  fold_left (fun acc w => match acc with Some f => merge_basis f w | None => None end) g (Some (repeat PI n)).

Inductive gate := GNone | GRYm (* RY(-pi/2) *) | GRXp (* RX(+pi/2) *).
Definition gate_of (p : pauli) : gate := match p with PX => GRYm | PY => GRXp | _ => GNone end.
(* diagonalize_pauli_word: Z on every non-identity wire, coefficient unchanged *)
Definition diag_word (w : word) : word := map (fun p => if is_id p then PI else PZ) w.

(* U P U^dagger for the single-qubit rotations, as sign * letter (justified against 2x2 matrices
   over the Gaussian integers below) *)
Definition conj1 (g : gate) (p : pauli) : Z * pauli :=
  match g, p with
  | _, PI => (1, PI)%Z
  | GNone, q => (1, q)%Z
  | GRYm, PX => (1, PZ)%Z | GRYm, PZ => (-1, PX)%Z | GRYm, PY => (1, PY)%Z
  | GRXp, PY => (1, PZ)%Z | GRXp, PZ => (-1, PY)%Z | GRXp, PX => (1, PX)%Z
  end.
Fixpoint conj_word (gs : list gate) (w : word) : Z * word :=
  match gs, w with
  | g :: gs', p :: w' => let (s, q) := conj1 g p in let (s', r) := conj_word gs' w' in ((s * s')%Z, q :: r)
  | _, _ => (1%Z, w)
  end.

(* the model of diagonalize_qwc_pauli_words: gates per wire position and the diagonal words *)
Definition diagonalize_qwc (n : nat) (g : list word) : option (list gate * list word) :=
  match full_word n g with
  | Some f => Some (map gate_of f, map diag_word g)
  | None => None
  end.

(* 2x2 matrices over Z[i] (re, im); sqrt2 * RY(-pi/2) = [[1,1],[-1,1]], sqrt2 * RX(pi/2) = [[1,-i],[-i,1]] *)
Open Scope Z_scope.
Definition gi := (Z * Z)%type.
Definition gadd (a b : gi) : gi := (fst a + fst b, snd a + snd b).
Definition gmul (a b : gi) : gi := (fst a * fst b - snd a * snd b, fst a * snd b + snd a * fst b).
Definition gconj (a : gi) : gi := (fst a, - snd a).
Definition gscale (k : Z) (a : gi) : gi := (k * fst a, k * snd a).
Definition mat2 := (gi * gi * gi * gi)%type.      (* m00 m01 m10 m11 *)
Definition mmul (a b : mat2) : mat2 :=
  let '(a00, a01, a10, a11) := a in let '(b00, b01, b10, b11) := b in
  (gadd (gmul a00 b00) (gmul a01 b10), gadd (gmul a00 b01) (gmul a01 b11),
   gadd (gmul a10 b00) (gmul a11 b10), gadd (gmul a10 b01) (gmul a11 b11)).
Definition mdag (a : mat2) : mat2 :=
  let '(a00, a01, a10, a11) := a in (gconj a00, gconj a10, gconj a01, gconj a11).
Definition mscale (k : Z) (a : mat2) : mat2 :=
  let '(a00, a01, a10, a11) := a in (gscale k a00, gscale k a01, gscale k a10, gscale k a11).
Definition pmat (p : pauli) : mat2 :=
  match p with
  | PI => ((1, 0), (0, 0), (0, 0), (1, 0))
  | PX => ((0, 0), (1, 0), (1, 0), (0, 0))
  | PY => ((0, 0), (0, -1), (0, 1), (0, 0))
  | PZ => ((1, 0), (0, 0), (0, 0), (-1, 0))
  end.
(* sqrt(2) * U for the rotations, and U itself for "no gate" (scaled by k_of) *)
Definition gmat (g : gate) : mat2 :=
  match g with
  | GNone => ((1, 0), (0, 0), (0, 0), (1, 0))
  | GRYm => ((1, 0), (1, 0), (-1, 0), (1, 0))
  | GRXp => ((1, 0), (0, -1), (0, -1), (1, 0))
  end.
Definition gnorm (g : gate) : Z := match g with GNone => 1 | _ => 2 end.   (* V V^dagger = gnorm * I *)
Close Scope Z_scope.

(* ------------------------------------------------------------------ correspondence *)
Record case := mkCase {
  c_gt : gtype; c_rlf : bool; c_obs : list obsv; c_coeffs : list Z;
  c_oracle : oracle; c_cols_all : list Z }.
Record expected := mkExp {
  e_bin : list (list Z);                 (* strategy.binary_observables over the observables with wires *)
  e_adj : list (list bool);              (* strategy.adj_matrix over the observables with wires *)
  e_adj_all : list (list bool);          (* the same over all observables (compute_partition_indices) *)
  e_groups : option (list (list word));  (* group_observables: groups *)
  e_coeffs : list (list Z);              (*                    coefficient groups *)
  e_pidx : option (list (list nat));     (* compute_partition_indices *)
  e_sidx : list (list nat);              (* PauliGroupingStrategy.idx_partitions_from_graph (not rlf) *)
  e_diag : list (option (list gate * list word)) (* diagonalize_qwc_pauli_words per returned group *)
}.

Definition olist_eqb {A} (e : A -> A -> bool) (a b : option A) : bool :=
  match a, b with None, None => true | Some x, Some y => e x y | _, _ => false end.
Definition gate_eqb (a b : gate) : bool :=
  match a, b with GNone, GNone | GRYm, GRYm | GRXp, GRXp => true | _, _ => false end.
Definition words_eqb := list_eqb word_eqb.
Definition groups_eqb := list_eqb words_eqb.
Definition zmat_eqb := list_eqb (list_eqb Z.eqb).
Definition bmat_eqb := list_eqb (list_eqb Bool.eqb).
Definition nmat_eqb := list_eqb (list_eqb Nat.eqb).
Definition diag_eqb (a b : list gate * list word) : bool :=
  list_eqb gate_eqb (fst a) (fst b) && words_eqb (snd a) (snd b).

Definition all_words (c : case) : list word := map fst (c_obs c).
Definition n_wires (c : case) : nat := match all_words c with [] => 0 | w :: _ => length w end.

(* model = implementation, component by component (a list so that a failure can be located) *)
Definition corr_vector (c : case) (e : expected) : list bool :=
  let ws := with_wires (c_obs c) in
  let mg := group_observables (c_obs c) (c_oracle c) in
  [ match ws with [] => true | _ => zmat_eqb (symp_matrix ws) (e_bin e) end
  ; match ws with [] => true | _ => bmat_eqb (adj_matrix (c_gt c) (symp_matrix ws)) (e_adj e) end
  ; match ws with [] => true | _ => bmat_eqb (adj_matrix (c_gt c) (symp_matrix (all_words c))) (e_adj_all e) end
  ; olist_eqb groups_eqb mg (e_groups e)
  ; match mg with Some gs => zmat_eqb (partition_coeffs (c_obs c) (c_coeffs c) gs) (e_coeffs e) | None => true end
  ; olist_eqb nmat_eqb (compute_partition_indices (c_rlf c) (c_obs c) (c_oracle c) (c_cols_all c)) (e_pidx e)
  ; if c_rlf c then true else
      match ws with [] => true | _ =>
        match c_oracle c with ORx cols => nmat_eqb (idx_partitions cols) (e_sidx e) | _ => false end end
  ; match e_groups e with
    | Some gs => list_eqb (olist_eqb diag_eqb) (map (diagonalize_qwc (n_wires c)) gs) (e_diag e)
    | None => true
    end ].
Definition check_case (ce : case * expected) : bool := forallb (fun b => b) (corr_vector (fst ce) (snd ce)).

(* the property evaluated on the IMPLEMENTATION's recorded output by the verified checkers; the
   oracle's colouring is validated too *)
Definition valid_vector (c : case) (e : expected) : list bool :=
  let ws := with_wires (c_obs c) in
  let r := rel (c_gt c) in
  [ match ws, c_oracle c with
    | [], _ => true
    | _, ORx cols => properb (e_adj e) cols
    | _, ORlf gs => perm_eqb word_eqb (map from_symp (concat gs)) ws && forallb (pairwiseb r) (map (map from_symp) gs)
    end
  ; if c_rlf c then true else
      match ws with [] => true | _ => properb (e_adj_all e) (c_cols_all c) end
  ; match e_pidx e with Some p => valid_grouping r (all_words c) p | None => false end
  ; match e_groups e with
    | Some gs => valid_word_grouping r (all_words c) (c_coeffs c) gs (e_coeffs e)
    | None => false
    end ].
Definition check_valid (ce : case * expected) : bool := forallb (fun b => b) (valid_vector (fst ce) (snd ce)).
Definition check_both (ce : case * expected) : bool := check_case ce && check_valid ce.
