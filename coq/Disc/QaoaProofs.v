(* Lemmas about Disc/QaoaModel.v: the diagonal value of each modelled cost Hamiltonian equals the
   documented objective, for all graphs and all bit assignments. *)
From Coq Require Import List ZArith QArith Bool Lia Lqa.
From PLV Require Import Disc.QaoaModel.
Import ListNotations.
Open Scope Q_scope.

(* ------------------------------------------------------------------ sums *)
Lemma sumQ_cons {A} (f : A -> Q) x r : sumQ f (x :: r) = f x + sumQ f r.
Proof. reflexivity. Qed.
Lemma sumQ_nil {A} (f : A -> Q) : sumQ f [] = 0.
Proof. reflexivity. Qed.

Lemma sumQ_ext {A} (f g : A -> Q) l : (forall x, f x == g x) -> sumQ f l == sumQ g l.
Proof.
  intros E; induction l as [|x r IH]; [reflexivity|].
  rewrite !sumQ_cons, IH, (E x); reflexivity.
Qed.
Lemma sumQ_plus {A} (f g : A -> Q) l : sumQ (fun x => f x + g x) l == sumQ f l + sumQ g l.
Proof.
  induction l as [|x r IH]; [rewrite !sumQ_nil; ring|].
  rewrite !sumQ_cons, IH; ring.
Qed.
Lemma sumQ_scale {A} (k : Q) (f : A -> Q) l : sumQ (fun x => k * f x) l == k * sumQ f l.
Proof.
  induction l as [|x r IH]; [rewrite !sumQ_nil; ring|].
  rewrite !sumQ_cons, IH; ring.
Qed.
Lemma sumQ_opp {A} (f : A -> Q) l : sumQ (fun x => - f x) l == - sumQ f l.
Proof.
  induction l as [|x r IH]; [rewrite !sumQ_nil; ring|].
  rewrite !sumQ_cons, IH; ring.
Qed.
Lemma sumQ_minus {A} (f g : A -> Q) l : sumQ (fun x => f x - g x) l == sumQ f l - sumQ g l.
Proof.
  induction l as [|x r IH]; [rewrite !sumQ_nil; ring|].
  rewrite !sumQ_cons, IH; ring.
Qed.
Lemma sumQ_app {A} (f : A -> Q) l m : sumQ f (l ++ m) == sumQ f l + sumQ f m.
Proof.
  induction l as [|x r IH]; cbn [app]; [rewrite sumQ_nil; ring|].
  rewrite !sumQ_cons, IH; ring.
Qed.
Lemma sumQ_filter {A} (f : A -> Q) (p : A -> bool) l :
  sumQ f (filter p l) == sumQ (fun x => if p x then f x else 0) l.
Proof.
  induction l as [|x r IH]; [reflexivity|].
  cbn [filter]. rewrite sumQ_cons. destruct (p x); [rewrite sumQ_cons, IH; reflexivity | rewrite IH; ring].
Qed.

(* ------------------------------------------------------------------ sentences *)
Lemma diag_cons t r b : diag_value (t :: r) b = fst t * word_value b (snd t) + diag_value r b.
Proof. reflexivity. Qed.
Lemma diag_app A B b : diag_value (A ++ B) b == diag_value A b + diag_value B b.
Proof.
  induction A as [|t r IH]; cbn [app]; [cbn [diag_value]; ring|].
  rewrite !diag_cons, IH; ring.
Qed.
Lemma diag_hscale k H b : diag_value (hscale k H) b == k * diag_value H b.
Proof.
  induction H as [|t r IH]; [cbn; ring|].
  unfold hscale in *. cbn [map]. rewrite !diag_cons, IH. cbn [fst snd]. ring.
Qed.
Lemma diag_flat_map {A} (f : A -> ham) l b :
  diag_value (flat_map f l) b == sumQ (fun x => diag_value (f x) b) l.
Proof.
  induction l as [|x r IH]; [reflexivity|].
  cbn [flat_map]. rewrite diag_app, IH, sumQ_cons. reflexivity.
Qed.
Lemma diag_map {A} (f : A -> Q * word) l b :
  diag_value (map f l) b == sumQ (fun x => fst (f x) * word_value b (snd (f x))) l.
Proof.
  induction l as [|x r IH]; [reflexivity|].
  cbn [map]. rewrite diag_cons, IH, sumQ_cons. reflexivity.
Qed.

(* a word of Z operators acts on a computational basis state with eigenvalue (-1)^(number of its
   wires whose bit is 1) *)
Lemma word_parity b ws :
  word_value b ws == if Nat.even (length (filter b ws)) then 1 else -(1).
Proof.
  induction ws as [|w r IH]; [reflexivity|].
  cbn [word_value filter]. unfold zval. destruct (b w).
  - cbn [length]. rewrite Nat.even_succ, <- Nat.negb_even, IH.
    destruct (Nat.even (length (filter b r))); cbn [negb]; ring.
  - rewrite IH. ring.
Qed.

(* ------------------------------------------------------------------ bit_driver *)
Lemma z_sum b ws : sumQ (fun w => zval b w) ws == lenQ ws - 2 * ones b ws.
Proof.
  unfold lenQ, ones, countQ. induction ws as [|w r IH]; [rewrite !sumQ_nil; ring|].
  rewrite !sumQ_cons, IH. unfold zval. destruct (b w); ring.
Qed.

Lemma bit_driver_diag_l ws k H b : bit_driver ws k = Ok H ->
  diag_value H b == (if (k =? 1)%Z then 1 else -(1)) * (lenQ ws - 2 * ones b ws).
Proof.
  unfold bit_driver. destruct (k =? 0)%Z eqn:E0; [|destruct (k =? 1)%Z eqn:E1; [|discriminate]];
    intros E; injection E as <-; rewrite diag_map, <- z_sum.
  - assert (k =? 1 = false)%Z as -> by lia.
    rewrite <- sumQ_scale. apply sumQ_ext; intros w; cbn; ring.
  - rewrite <- sumQ_scale. apply sumQ_ext; intros w; cbn; ring.
Qed.

Lemma bit_driver_rejects ws k : k <> 0%Z -> k <> 1%Z -> bit_driver ws k = Raise.
Proof.
  intros A B. unfold bit_driver.
  assert (k =? 0 = false)%Z as -> by lia. assert (k =? 1 = false)%Z as -> by lia. reflexivity.
Qed.

(* ------------------------------------------------------------------ edge terms *)
Definition sg (x : bool) : Q := if x then -(1) else 1.
Definition local (r : Z) (s : Q) (bu bv : bool) : Q :=
  if (r =? 0)%Z then (1#4) * s * (sg bu * sg bv + sg bu + sg bv)
  else if (r =? 2)%Z then -(1#2) * s * (sg bu * sg bv)
  else (1#4) * s * (sg bu * sg bv - sg bu - sg bv).

Lemma edge_terms_diag r s es b : (r = 0 \/ r = 2 \/ r = 3)%Z ->
  diag_value (edge_terms r s es) b == sumQ (fun e => local r s (b (fst e)) (b (snd e))) es.
Proof.
  intros [-> | [-> | ->]]; unfold edge_terms; cbn [Z.eqb Pos.eqb app]; rewrite ?app_nil_r.
  - rewrite diag_flat_map. apply sumQ_ext. intros [u v]. unfold local, sg. cbn. unfold zval. ring.
  - rewrite diag_map. apply sumQ_ext. intros [u v]. unfold local, sg. cbn. unfold zval. ring.
  - rewrite diag_flat_map. apply sumQ_ext. intros [u v]. unfold local, sg. cbn. unfold zval. ring.
Qed.

(* ------------------------------------------------------------------ edge_driver, any duplicate-free reward *)
Definition mm (c : Z) (R : list Z) := existsb (Z.eqb c) R.

Lemma valid_cases x : memz x [0; 1; 2; 3]%Z = true -> (x = 0 \/ x = 1 \/ x = 2 \/ x = 3)%Z.
Proof. unfold memz; cbn [existsb]; lia. Qed.

Lemma notin_mm x R : ~ In x R -> mm x R = false.
Proof.
  intros N. unfold mm. destruct (existsb (Z.eqb x) R) eqn:E; [|reflexivity].
  apply existsb_exists in E as [y [I Y]]. apply Z.eqb_eq in Y. subst y. contradiction.
Qed.

Lemma nodup_length R : NoDup R -> forallb (fun e => memz e [0; 1; 2; 3]%Z) R = true ->
  length R = (b2n (mm 0 R) + b2n (mm 1 R) + b2n (mm 2 R) + b2n (mm 3 R))%nat.
Proof.
  induction 1 as [|x r N D IH]; [reflexivity|].
  cbn [forallb]. intros V. apply andb_prop in V as [Vx Vr].
  specialize (IH Vr). apply notin_mm in N. cbn [length]. rewrite IH.
  unfold mm in *. cbn [existsb].
  destruct (valid_cases x Vx) as [-> | [-> | [-> | ->]]]; cbn [Z.eqb Pos.eqb orb]; rewrite N; cbn [b2n]; lia.
Qed.

Ltac col := change (colour true true) with 3%Z; change (colour true false) with 2%Z;
            change (colour false true) with 1%Z; change (colour false false) with 0%Z.

Lemma edge_driver_diag_l g R b H : NoDup R -> edge_driver g R = Ok H -> R <> [] -> length R <> 4%nat ->
  diag_value H b == edge_driver_obj R g b.
Proof.
  intros D E NE N4. unfold edge_driver in E.
  destruct (forallb (fun e => memz e [0; 1; 2; 3]%Z) R) eqn:V; cbn [negb] in E; [|discriminate].
  pose proof (nodup_length R D V) as L.
  unfold memz in E. fold (mm 0 R) (mm 1 R) (mm 2 R) (mm 3 R) in E.
  assert (RW : forall bu bv, edge_energy R bu bv ==
            let n := inject_Z (Z.of_nat (length R)) in
            if mm (colour bu bv) R then -((4 - n) / 4) else n / 4).
  { intros bu bv. unfold edge_energy, nrew, countQ. rewrite !sumQ_cons, sumQ_nil.
    unfold memz. fold (mm 0 R) (mm 1 R) (mm 2 R) (mm 3 R) (mm (colour bu bv) R).
    cbv zeta. rewrite L.
    destruct (mm 0 R), (mm 1 R), (mm 2 R), (mm 3 R), (mm (colour bu bv) R); cbn [b2n]; vm_compute; reflexivity. }
  unfold edge_driver_obj. rewrite (sumQ_ext _ _ _ (fun e => RW (b (fst e)) (b (snd e)))). clear RW.
  destruct (mm 0 R) eqn:E0, (mm 1 R) eqn:E1, (mm 2 R) eqn:E2, (mm 3 R) eqn:E3;
    cbn [b2n Nat.add] in L; cbn [andb orb negb] in E; try discriminate;
    try (destruct R; [contradiction | discriminate]); try contradiction;
    rewrite L in E; cbn [Nat.eqb orb b2n Nat.add negb] in E; injection E as <-;
    (rewrite edge_terms_diag by lia); apply sumQ_ext; intros [u v]; cbn [fst snd]; rewrite L;
    destruct (b u), (b v); col; rewrite ?E0, ?E1, ?E2, ?E3; vm_compute; reflexivity.
Qed.

(* the constant branch: an empty reward list or all four colourings: |V| identities *)
Lemma edge_driver_trivial_l g R b H : NoDup R -> edge_driver g R = Ok H -> (R = [] \/ length R = 4%nat) ->
  diag_value H b == lenQ (nodes g).
Proof.
  intros D E C. unfold edge_driver in E.
  destruct (forallb _ R); cbn [negb] in E; [|discriminate].
  destruct (_ || _); [discriminate|].
  assert ((length R =? 0)%nat || (length R =? 4)%nat = true) as T.
  { destruct C as [-> | ->]; reflexivity. }
  rewrite T in E. injection E as <-. rewrite diag_map. unfold lenQ. apply sumQ_ext. intros v. cbn. ring.
Qed.

(* ------------------------------------------------------------------ the optimisation problems *)
Lemma maxcut_diag_l g b H : maxcut g = Ok H -> diag_value H b == maxcut_obj g b.
Proof.
  unfold maxcut, edge_driver. cbn -[edge_terms]. intros E. injection E as <-.
  rewrite diag_app, edge_terms_diag by lia. rewrite diag_map.
  unfold maxcut_obj, countQ. rewrite <- sumQ_plus.
  rewrite <- sumQ_opp.
  apply sumQ_ext. intros [u v]. unfold local, sg, is_cut. cbn.
  destruct (b u), (b v); vm_compute; reflexivity.
Qed.

Lemma mis_edges b es :
  3 * sumQ (fun e => local 3 1 (b (fst e)) (b (snd e))) es == 3 * countQ (both1 b) es - (3#4) * lenQ es.
Proof.
  unfold countQ, lenQ. rewrite <- !sumQ_scale.
  rewrite <- sumQ_minus.
  apply sumQ_ext. intros [u v]. unfold local, sg, both1. cbn.
  destruct (b u), (b v); vm_compute; reflexivity.
Qed.

Lemma mvc_edges b es :
  3 * sumQ (fun e => local 0 1 (b (fst e)) (b (snd e))) es == 3 * countQ (both0 b) es - (3#4) * lenQ es.
Proof.
  unfold countQ, lenQ. rewrite <- !sumQ_scale.
  rewrite <- sumQ_minus.
  apply sumQ_ext. intros [u v]. unfold local, sg, both0. cbn.
  destruct (b u), (b v); vm_compute; reflexivity.
Qed.

Lemma bit1_nodes ns b : diag_value (map (fun w => (1, [w])) ns) b == lenQ ns - 2 * ones b ns.
Proof. rewrite diag_map, <- z_sum. apply sumQ_ext. intros w. cbn. ring. Qed.
Lemma bit0_nodes ns b : diag_value (map (fun w => (-(1), [w])) ns) b == - (lenQ ns - 2 * ones b ns).
Proof.
  rewrite diag_map, <- z_sum.
  rewrite <- sumQ_opp.
  apply sumQ_ext. intros w. cbn. ring.
Qed.

Lemma mis_diag_l g c b H : max_independent_set g c = Ok H -> diag_value H b == mis_obj g c b.
Proof.
  unfold max_independent_set, mis_obj, set_obj, edge_driver, bit_driver. destruct c; cbn -[edge_terms].
  - intros E. injection E as <-. apply bit1_nodes.
  - intros E. injection E as <-.
    rewrite diag_app, diag_hscale, edge_terms_diag by lia. rewrite mis_edges, bit1_nodes. ring.
Qed.

Lemma mvc_diag_l g c b H : min_vertex_cover g c = Ok H -> diag_value H b == mvc_obj g c b.
Proof.
  unfold min_vertex_cover, mvc_obj, set_obj, edge_driver, bit_driver. destruct c; cbn -[edge_terms].
  - intros E. injection E as <-. apply bit0_nodes.
  - intros E. injection E as <-.
    rewrite diag_app, diag_hscale, edge_terms_diag by lia. rewrite mvc_edges, bit0_nodes. ring.
Qed.

Lemma count_filter {A} (p q : A -> bool) l : countQ q (filter p l) == countQ (fun x => p x && q x) l.
Proof.
  unfold countQ. rewrite sumQ_filter. apply sumQ_ext. intros x. destruct (p x), (q x); reflexivity.
Qed.
Lemma len_filter {A} (p : A -> bool) l : lenQ (filter p l) == countQ p l.
Proof. unfold lenQ, countQ. rewrite sumQ_filter. reflexivity. Qed.

Lemma clique_diag_l g c b H : max_clique g c = Ok H -> diag_value H b == clique_obj g c b.
Proof.
  unfold max_clique, clique_obj, set_obj, edge_driver, bit_driver. destruct c; cbn -[edge_terms complement].
  - intros E. injection E as <-. apply bit1_nodes.
  - intros E. injection E as <-.
    rewrite diag_app, diag_hscale, edge_terms_diag by lia. rewrite mis_edges, bit1_nodes.
    unfold complement; cbn [edges nodes].
    change (fun p : Z * Z => negb (adjacent (edges g) (fst p) (snd p))) with (nonadj g).
    rewrite count_filter, len_filter. unfold lenQ, countQ, ones. ring.
Qed.

(* ------------------------------------------------------------------ cycle.py: the constraint Hamiltonians *)
Lemma word_app b u v : word_value b (u ++ v) == word_value b u * word_value b v.
Proof.
  induction u as [|w r IH]; cbn [app word_value]; [ring|]. rewrite IH. ring.
Qed.
Lemma word_sq b w : word_value b w * word_value b w == 1.
Proof.
  induction w as [|x r IH]; cbn [word_value]; [ring|].
  assert (zval b x * zval b x == 1) as Z by (unfold zval; destruct (b x); ring).
  setoid_replace (zval b x * word_value b r * (zval b x * word_value b r))
    with ((zval b x * zval b x) * (word_value b r * word_value b r)) by ring.
  rewrite Z, IH. ring.
Qed.
Lemma diag_pairs_head c w r b :
  diag_value (map (fun u : Q * word => (2 * c * fst u, w ++ snd u)) r) b == 2 * c * word_value b w * diag_value r b.
Proof.
  induction r as [|t r IH]; [cbn; ring|].
  cbn [map]. rewrite !diag_cons, IH. cbn [fst snd]. rewrite word_app. ring.
Qed.
Lemma diag_square l b : diag_value (square_terms l) b == diag_value l b * diag_value l b.
Proof.
  unfold square_terms. rewrite diag_cons. cbn [fst snd word_value].
  induction l as [|t r IH]; [cbn; ring|].
  cbn [pairs_sq]. rewrite sumQ_cons, diag_app, diag_pairs_head, diag_cons.
  pose proof (word_sq b (snd t)) as V.
  setoid_replace ((fst t * word_value b (snd t) + diag_value r b) * (fst t * word_value b (snd t) + diag_value r b))
    with (fst t * fst t * (word_value b (snd t) * word_value b (snd t))
          + 2 * fst t * word_value b (snd t) * diag_value r b + diag_value r b * diag_value r b) by ring.
  rewrite V, <- IH. ring.
Qed.
Lemma wires_sum b k (l : list (Z * (Z * Z * Q))) :
  diag_value (map (fun we => (k, [fst we])) l) b == k * (lenQ l - 2 * selq b l).
Proof.
  unfold lenQ, selq, countQ. induction l as [|x r IH]; [cbn; ring|].
  cbn [map]. rewrite diag_cons, IH, !sumQ_cons. cbn [fst snd word_value]. unfold zval.
  destruct (b (fst x)); ring.
Qed.

Lemma inner_out_flow_diag d n b :
  diag_value (inner_out_flow d n) b == let s := selq b (out_edges d n) in 4 * s * (s - 1).
Proof.
  unfold inner_out_flow. cbv zeta. set (oe := out_edges d n).
  rewrite !diag_app, diag_square, !wires_sum. cbn [diag_value fst snd word_value]. ring.
Qed.
Lemma inner_net_flow_diag d n b :
  diag_value (inner_net_flow d n) b ==
  let s := selq b (out_edges d n) - selq b (in_edges d n) in 4 * s * s.
Proof.
  unfold inner_net_flow. cbv zeta. set (oe := out_edges d n). set (ie := in_edges d n).
  rewrite diag_square, diag_cons, diag_app, !wires_sum. cbn [fst snd word_value]. ring.
Qed.

Lemma out_flow_diag_l d b H : out_flow_constraint d = Ok H -> diag_value H b == out_flow_obj d b.
Proof.
  unfold out_flow_constraint. destruct (directed d); [|discriminate]. intros E. injection E as <-.
  rewrite diag_flat_map. apply sumQ_ext. intros n. apply inner_out_flow_diag.
Qed.
Lemma net_flow_diag_l d b H : net_flow_constraint d = Ok H -> diag_value H b == net_flow_obj d b.
Proof.
  unfold net_flow_constraint. destruct (directed d); [|discriminate]. intros E. injection E as <-.
  rewrite diag_flat_map. apply sumQ_ext. intros n. apply inner_net_flow_diag.
Qed.
Lemma loss_diag_l d b H : loss_hamiltonian d = Ok H -> diag_value H b == loss_obj d b.
Proof.
  unfold loss_hamiltonian. destruct (existsb _ _); [discriminate|]. intros E. injection E as <-.
  rewrite diag_map. apply sumQ_ext. intros we. cbn. ring.
Qed.
Lemma mwc_diag_l d c b H : mwc_cost d c = Ok H -> diag_value H b == mwc_obj d c b.
Proof.
  unfold mwc_cost, mwc_obj. destruct c; [apply loss_diag_l|].
  destruct (loss_hamiltonian d) as [L| |] eqn:EL, (net_flow_constraint d) as [N| |] eqn:EN,
    (out_flow_constraint d) as [O| |] eqn:EO; cbn [happ hmul]; try discriminate.
  intros E. injection E as <-.
  rewrite diag_app, diag_hscale, diag_app.
  rewrite (loss_diag_l _ _ _ EL), (net_flow_diag_l _ _ _ EN), (out_flow_diag_l _ _ _ EO). reflexivity.
Qed.

(* all builders succeed on every graph (the only errors are a bad `b` / a bad reward list) *)
Lemma builders_total g c :
  (exists H, maxcut g = Ok H) /\ (exists H, max_independent_set g c = Ok H) /\
  (exists H, min_vertex_cover g c = Ok H) /\ (exists H, max_clique g c = Ok H).
Proof.
  repeat split; destruct c; unfold maxcut, max_independent_set, min_vertex_cover, max_clique, edge_driver,
    bit_driver; cbn -[edge_terms complement]; eexists; reflexivity.
Qed.

(* the operator formula of the unconstrained docstrings taken literally (edge coefficient 3 instead
   of 3/4) does not describe the returned Hamiltonian *)
Lemma doc_literal_refuted :
  exists g b H, max_independent_set g false = Ok H /\
                ~ diag_value H b == diag_value (mis_doc_literal g) b.
Proof.
  exists (mkG [0; 1]%Z [(0, 1)]%Z), (fun _ => true). eexists. split; [reflexivity|].
  intros E. vm_compute in E. discriminate.
Qed.
