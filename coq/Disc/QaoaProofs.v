From Coq Require Import List ZArith QArith Bool.
From PLV Require Import Disc.QaoaModel.
Import ListNotations.
Open Scope Q_scope.
Lemma diag_nil : forall b, diag_value [] b == 0.
Proof. intros; reflexivity. Qed.
