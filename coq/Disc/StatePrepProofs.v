(* Lemmas about Disc/StatePrepModel.v *)
From Coq Require Import List ZArith Bool QArith Qabs Lia ZifyBool Qfield.
From PLV Require Import Disc.StatePrepModel.
Import ListNotations.

(* ================================================================ (a) BasisState *)
Open Scope Z_scope.

(* spec-level lookup: the bit requested for wire w (false when w is not one of the operator's wires) *)
Fixpoint lookup (w : Z) (wires : list Z) (bits : list bool) : bool :=
  match wires, bits with
  | x :: ws, b :: bs => if x =? w then b else lookup w ws bs
  | _, _ => false
  end.

Lemma lookup_notin : forall w wires bits, ~ In w wires -> lookup w wires bits = false.
Proof.
  induction wires as [|x ws IH]; intros bits H; [reflexivity|].
  destruct bits as [|b bs]; [reflexivity|]. cbn [lookup].
  destruct (x =? w) eqn:E.
  - exfalso. apply H. left. lia.
  - apply IH. intro; apply H; right; assumption.
Qed.

Lemma fold_index_acc : forall bits acc,
  fold_left (fun a b => 2 * a + b2z b) bits acc = acc * 2 ^ Z.of_nat (length bits) + index_sum bits.
Proof.
  induction bits as [|b bs IH]; intros acc.
  - cbn. lia.
  - cbn [fold_left index_sum length]. rewrite IH.
    rewrite Nat2Z.inj_succ, Z.pow_succ_r by lia. ring.
Qed.

Lemma index_of_sum : forall bits, index_of bits = index_sum bits.
Proof. intros. unfold index_of. rewrite fold_index_acc. lia. Qed.

Lemma index_sum_range : forall bits, 0 <= index_sum bits < 2 ^ Z.of_nat (length bits).
Proof.
  induction bits as [|b bs IH]; [cbn; lia|].
  cbn [index_sum length]. rewrite Nat2Z.inj_succ, Z.pow_succ_r by lia.
  destruct b; cbn [b2z]; lia.
Qed.

(* ---- the decomposition acts classically as requested ---- *)
Lemma run_x_general : forall bits wires r, NoDup wires ->
  run_x (decomp bits wires) r = map (fun p => (fst p, xorb (snd p) (lookup (fst p) wires bits))) r.
Proof.
  induction bits as [|b bs IH]; intros wires r ND.
  - destruct wires; cbn [decomp run_x fold_left lookup];
      (rewrite <- (map_id r) at 1; apply map_ext; intros [w v]; cbn; now rewrite xorb_false_r).
  - destruct wires as [|w ws].
    + cbn [decomp run_x fold_left lookup].
      rewrite <- (map_id r) at 1; apply map_ext; intros [x v]; cbn; now rewrite xorb_false_r.
    + inversion ND as [|? ? Hnin ND']; subst.
      cbn [decomp]. destruct b.
      * unfold run_x in *. cbn [fold_left]. rewrite IH by assumption.
        unfold apply_x. rewrite map_map. apply map_ext. intros [x v]. cbn [fst snd lookup].
        destruct (x =? w) eqn:E.
        -- assert (x = w) by lia; subst x. rewrite Z.eqb_refl. cbn [fst snd].
           rewrite (lookup_notin w ws bs Hnin). now destruct v.
        -- rewrite Z.eqb_sym, E. reflexivity.
      * rewrite IH by assumption. apply map_ext. intros [x v]. cbn [fst snd lookup].
        destruct (w =? x) eqn:E; [|reflexivity].
        assert (w = x) by lia; subst x. now rewrite (lookup_notin w ws bs Hnin).
Qed.

Lemma decomp_register : forall bits wires order, NoDup wires ->
  reg_bits (run_x (decomp bits wires) (zero_reg order)) = map (fun w => lookup w wires bits) order.
Proof.
  intros. rewrite run_x_general by assumption. unfold reg_bits, zero_reg.
  rewrite !map_map. apply map_ext. intros w. cbn [fst snd]. now destruct (lookup w wires bits).
Qed.

Lemma lookup_own : forall wires bits, NoDup wires -> length bits = length wires ->
  map (fun w => lookup w wires bits) wires = bits.
Proof.
  induction wires as [|w ws IH]; intros bits ND L.
  - destruct bits; [reflexivity|discriminate].
  - destruct bits as [|b bs]; [discriminate|].
    inversion ND as [|? ? Hnin ND']; subst.
    cbn [map lookup]. rewrite Z.eqb_refl. f_equal.
    transitivity (map (fun x => lookup x ws bs) ws); [|apply IH; [assumption|cbn in L; lia]].
    apply map_ext_in. intros x Hx. destruct (w =? x) eqn:E; [|reflexivity].
    exfalso. apply Hnin. assert (w = x) by lia. now subst.
Qed.

Lemma decomp_own_wires : forall bits wires, NoDup wires -> length bits = length wires ->
  reg_bits (run_x (decomp bits wires) (zero_reg wires)) = bits.
Proof. intros. rewrite decomp_register by assumption. now apply lookup_own. Qed.

(* ---- state_vector(wire_order) ---- *)
Definition memb (w : Z) (l : list Z) : bool := existsb (fun x => x =? w) l.
Definition upd (ws : list Z) (bs : list bool) (p : Z * bool) : bool :=
  if memb (fst p) ws then lookup (fst p) ws bs else snd p.

Lemma memb_In : forall w l, memb w l = true <-> In w l.
Proof.
  intros. unfold memb. rewrite existsb_exists. split.
  - intros [x [Hx E]]. assert (x = w) by lia. now subst.
  - intros H. exists w. split; [assumption|lia].
Qed.

Lemma set_nth_combine : forall (f f' : Z * bool -> bool) w b order i acc,
  find_idx w order = Some i -> NoDup order -> length acc = length order ->
  (forall a, f' (w, b) = f (w, a)) ->
  (forall x a, x <> w -> f' (x, a) = f (x, a)) ->
  map f' (combine order (set_nth i b acc)) = map f (combine order acc).
Proof.
  intros f f' w b. induction order as [|x r IH]; intros i acc Hf ND L H1 H2; [discriminate|].
  destruct acc as [|a accr]; [discriminate|].
  inversion ND as [|? ? Hnin ND']; subst.
  cbn [find_idx] in Hf. destruct (x =? w) eqn:E.
  - inversion Hf; subst i. assert (x = w) by lia; subst x.
    cbn [set_nth combine map]. rewrite (H1 a). f_equal.
    apply map_ext_in. intros [y c] Hin. apply H2.
    intro; subst y. apply Hnin. eapply in_combine_l; eauto.
  - destruct (find_idx w r) as [i'|] eqn:F; [|discriminate]. inversion Hf; subst i.
    cbn [set_nth combine map]. rewrite H2 by lia. f_equal.
    apply IH; auto.
Qed.

Lemma find_idx_in : forall w order, In w order -> exists i, find_idx w order = Some i.
Proof.
  induction order as [|x r IH]; intros H; [destruct H|].
  cbn [find_idx]. destruct (x =? w) eqn:E; [eauto|].
  destruct H as [H|H]; [lia|]. destruct (IH H) as [i Hi]. rewrite Hi. cbn. eauto.
Qed.

Lemma set_nth_length : forall A (l : list A) n v, length (set_nth n v l) = length l.
Proof. induction l; intros [|n] v; cbn; auto. Qed.

Lemma sv_indices_spec : forall wires bits order acc,
  NoDup wires -> NoDup order -> incl wires order -> length bits = length wires ->
  length acc = length order ->
  sv_indices wires bits order acc = Some (map (upd wires bits) (combine order acc)).
Proof.
  induction wires as [|w ws IH]; intros bits order acc NDw NDo Hincl L La.
  - cbn [sv_indices]. f_equal.
    assert (G : forall (o : list Z) (a : list bool), length a = length o ->
               a = map (upd [] bits) (combine o a)).
    { induction o as [|x o IHo]; intros [|y a] Hl; try discriminate; [reflexivity|].
      cbn [combine map]. unfold upd at 1. cbn. f_equal. apply IHo. cbn in Hl; lia. }
    apply G; assumption.
  - destruct bits as [|b bs]; [discriminate|].
    inversion NDw as [|? ? Hnin NDw']; subst.
    cbn [sv_indices].
    destruct (find_idx_in w order) as [i Hi]; [apply Hincl; now left|].
    rewrite Hi. rewrite (IH bs order (set_nth i b acc));
      [ | assumption | assumption | intros x Hx; apply Hincl; now right | cbn in L; lia | now rewrite set_nth_length ].
    f_equal. apply set_nth_combine with (w := w); auto.
      * intros a. unfold upd. cbn [fst snd].
        assert (M : memb w ws = false).
        { destruct (memb w ws) eqn:E; [|reflexivity]. exfalso. apply Hnin. now apply memb_In. }
        rewrite M. unfold memb. cbn [existsb lookup]. rewrite Z.eqb_refl. reflexivity.
      * intros x a Hx. unfold upd. cbn [fst snd]. unfold memb. cbn [existsb lookup].
        destruct (w =? x) eqn:E; [apply Z.eqb_eq in E; congruence|]. reflexivity.
Qed.

Lemma combine_repeat_map : forall (f : Z * bool -> bool) (g : Z -> bool) order,
  (forall w, f (w, false) = g w) ->
  map f (combine order (repeat false (length order))) = map g order.
Proof.
  intros f g order H. induction order as [|x o IH]; [reflexivity|].
  cbn [length repeat combine map]. now rewrite H, IH.
Qed.

Lemma state_vector_bits_spec : forall wires bits order,
  NoDup wires -> NoDup order -> incl wires order -> length bits = length wires ->
  state_vector_bits wires bits order = Some (map (fun w => lookup w wires bits) order).
Proof.
  intros wires bits order NDw NDo Hi L. unfold state_vector_bits.
  rewrite sv_indices_spec; auto; [|now rewrite repeat_length].
  f_equal. apply combine_repeat_map. intros w. unfold upd. cbn [fst snd].
  destruct (memb w wires) eqn:E; [reflexivity|].
  symmetry. apply lookup_notin. intro Hin. apply memb_In in Hin. congruence.
Qed.

Lemma decomp_matches_state_vector : forall wires bits order,
  NoDup wires -> NoDup order -> incl wires order -> length bits = length wires ->
  state_vector_bits wires bits order = Some (reg_bits (run_x (decomp bits wires) (zero_reg order))).
Proof. intros. rewrite decomp_register by assumption. now apply state_vector_bits_spec. Qed.

Lemma decomp_index_own : forall bits wires, NoDup wires -> length bits = length wires ->
  index_of (reg_bits (run_x (decomp bits wires) (zero_reg wires))) = index_sum bits.
Proof. intros. rewrite decomp_own_wires by assumption. apply index_of_sum. Qed.

(* ---- canonicalisation ---- *)
Lemma canonicalize_scalar : forall k n, canonicalize (BSScalar k) n = None.
Proof. reflexivity. Qed.

Lemma canonicalize_list : forall l n bits,
  canonicalize (BSList l) n = Some bits <->
  (length l = n /\ Forall (fun z => z = 0 \/ z = 1) l /\ bits = map (fun z => z =? 1) l).
Proof.
  intros l n bits. unfold canonicalize.
  destruct (Nat.eqb (length l) n) eqn:E; cbn [negb].
  - apply Nat.eqb_eq in E. destruct (forallb is_bit l) eqn:F.
    + split.
      * intros H; inversion H; subst. repeat split; auto.
        rewrite forallb_forall in F. apply Forall_forall. intros z Hz.
        specialize (F z Hz). unfold is_bit in F. lia.
      * intros [_ [_ ->]]. reflexivity.
    + split; [discriminate|]. intros [_ [Hall _]]. exfalso.
      assert (forallb is_bit l = true); [|congruence].
      apply forallb_forall. intros z Hz. rewrite Forall_forall in Hall.
      specialize (Hall z Hz). unfold is_bit. lia.
  - apply Nat.eqb_neq in E. split; [discriminate|]. intros [H _]. contradiction.
Qed.

(* ---- int_to_binary ---- *)
Lemma int_to_binary_S : forall k n,
  int_to_binary k (S n) = Z.eqb ((Z.shiftr k (Z.of_nat n)) mod 2) 1 :: int_to_binary k n.
Proof.
  intros. unfold int_to_binary. rewrite seq_S, rev_app_distr. cbn [rev app map Nat.add]. reflexivity.
Qed.

Lemma int_to_binary_length : forall k n, length (int_to_binary k n) = n.
Proof. intros. unfold int_to_binary. now rewrite map_length, rev_length, seq_length. Qed.

Lemma int_to_binary_index : forall k n, index_of (int_to_binary k n) = k mod 2 ^ Z.of_nat n.
Proof.
  intros k n. rewrite index_of_sum. induction n as [|n IH].
  - cbn. now rewrite Z.mod_1_r.
  - rewrite int_to_binary_S. cbn [index_sum]. rewrite IH, int_to_binary_length.
    rewrite Nat2Z.inj_succ, Z.pow_succ_r by lia.
    rewrite Z.shiftr_div_pow2 by lia.
    rewrite (Z.mul_comm 2), Z.rem_mul_r by lia.
    set (q := (k / 2 ^ Z.of_nat n) mod 2).
    assert (0 <= q < 2) by (apply Z.mod_pos_bound; lia).
    assert (b2z (q =? 1) = q) by (destruct (q =? 1) eqn:E; cbn [b2z]; lia).
    lia.
Qed.

Lemma int_to_binary_in_range : forall k n, 0 <= k < 2 ^ Z.of_nat n -> index_of (int_to_binary k n) = k.
Proof. intros. rewrite int_to_binary_index. now apply Z.mod_small. Qed.

(* ================================================================ (b) pre-processing *)
Open Scope Q_scope.

Lemma pad_length : forall st dim p, (length st <= dim)%nat -> length (pad st dim p) = dim.
Proof. intros. unfold pad. rewrite app_length, repeat_length. lia. Qed.

Lemma pad_keeps : forall st dim p i d, (i < length st)%nat -> nth i (pad st dim p) d = nth i st d.
Proof. intros. unfold pad. now apply app_nth1. Qed.

Lemma pad_fills : forall st dim p i d, (length st <= i < dim)%nat -> nth i (pad st dim p) d = p.
Proof.
  intros. unfold pad. rewrite app_nth2 by lia.
  apply (repeat_spec (dim - length st) p). apply nth_In. rewrite repeat_length. lia.
Qed.

Lemma pad_full : forall st dim p, (dim <= length st)%nat -> pad st dim p = st.
Proof. intros. unfold pad. replace (dim - length st)%nat with 0%nat by lia. cbn. apply app_nil_r. Qed.

Lemma qsqrt_sound : forall q r, qsqrt q = Some r -> r * r == q /\ 0 <= r.
Proof.
  intros [n d] r. unfold qsqrt. cbn [Qnum Qden].
  destruct (Z.sqrt (n * Z.pos d) * Z.sqrt (n * Z.pos d) =? n * Z.pos d)%Z eqn:E; [|discriminate].
  intros H; inversion H; subst r. apply Z.eqb_eq in E. split.
  - unfold Qeq, Qmult. cbn [Qnum Qden]. rewrite E, Pos2Z.inj_mul. ring.
  - unfold Qle. cbn [Qnum Qden]. pose proof (Z.sqrt_nonneg (n * Z.pos d)). lia.
Qed.

Lemma cabs2_cdiv : forall r z, ~ r == 0 -> cabs2 (cdiv r z) == cabs2 z / (r * r).
Proof. intros r [a b] H. unfold cabs2, cdiv. cbn [fst snd]. field. exact H. Qed.

Lemma norm2_cdiv : forall r st, ~ r == 0 -> norm2 (map (cdiv r) st) == norm2 st / (r * r).
Proof.
  intros r st H. induction st as [|z st IH].
  - cbn. field. exact H.
  - cbn [map norm2 fold_right]. fold (norm2 (map (cdiv r) st)). fold (norm2 st).
    rewrite IH, cabs2_cdiv by exact H. field. exact H.
Qed.

Lemma normalize_unit : forall r st, r * r == norm2 st -> ~ r == 0 -> norm2 (map (cdiv r) st) == 1.
Proof.
  intros r st Hr H. rewrite norm2_cdiv by exact H. rewrite <- Hr. field. exact H.
Qed.

Lemma Qeq_bool_false_neq : forall a b, Qeq_bool a b = false -> ~ a == b.
Proof. intros a b H E. apply Qeq_bool_iff in E. congruence. Qed.

(* what the normalisation tail returns *)
Lemma norm_tail_cases : forall st nz v out, norm_tail st nz v = POk out ->
  (v || nz = false /\ out = st) \/
  (exists r, r * r == norm2 st /\ 0 <= r /\ Qabs (r - 1) <= tol /\ out = st) \/
  (exists r, r * r == norm2 st /\ ~ r == 0 /\ nz = true /\ out = map (cdiv r) st /\ norm2 out == 1).
Proof.
  intros st nz v out. unfold norm_tail.
  destruct (v || nz) eqn:F; cbn [negb].
  2:{ intros H; inversion H; subst. left. auto. }
  destruct (qsqrt (norm2 st)) as [r|] eqn:S; [|discriminate].
  destruct (qsqrt_sound _ _ S) as [Hr Hpos].
  destruct (close1 r) eqn:Cl.
  - intros H; inversion H; subst. right; left. exists r. repeat split; auto.
    unfold close1 in Cl. now apply Qle_bool_iff in Cl.
  - destruct nz; [|discriminate].
    destruct (Qeq_bool r 0) eqn:Z0; [discriminate|].
    intros H; inversion H; subst. right; right. exists r.
    pose proof (Qeq_bool_false_neq _ _ Z0) as Hn.
    repeat split; auto. now apply normalize_unit.
Qed.

Lemma norm_tail_length : forall st nz v out, norm_tail st nz v = POk out -> length out = length st.
Proof.
  intros st nz v out H. destruct (norm_tail_cases _ _ _ _ H) as [[_ ->]|[[r [_ [_ [_ ->]]]]|[r [_ [_ [_ [-> _]]]]]]];
    auto. now rewrite map_length.
Qed.

Lemma preprocess_length : forall a out, preprocess a = POk out -> length out = Nat.pow 2 (pa_nwires a).
Proof.
  intros a out. unfold preprocess. destruct (pa_pad a) as [p|].
  - destruct (Nat.ltb (2 ^ pa_nwires a) (length (pa_state a))) eqn:E1; [discriminate|].
    apply Nat.ltb_ge in E1.
    destruct (Nat.ltb (length (pa_state a)) (2 ^ pa_nwires a)) eqn:E2; intros H;
      apply norm_tail_length in H; rewrite H.
    + apply pad_length. exact E1.
    + apply Nat.ltb_ge in E2. lia.
  - destruct (Nat.eqb (length (pa_state a)) (2 ^ pa_nwires a)) eqn:E; cbn [negb]; [|discriminate].
    apply Nat.eqb_eq in E. intros H. apply norm_tail_length in H. lia.
Qed.

Lemma too_long_rejected : forall a, (Nat.pow 2 (pa_nwires a) < length (pa_state a))%nat ->
  preprocess a = PErr /\ preprocess_csr a = PErr.
Proof.
  intros a H. split.
  - unfold preprocess. destruct (pa_pad a).
    + apply Nat.ltb_lt in H. now rewrite H.
    + destruct (Nat.eqb (length (pa_state a)) (2 ^ pa_nwires a)) eqn:E; [|reflexivity].
      apply Nat.eqb_eq in E. lia.
  - unfold preprocess_csr. apply Nat.ltb_lt in H. rewrite H.
    now destruct (match pa_pad a with Some p => negb (czero p) | None => false end).
Qed.

Lemma wrong_length_rejected_without_pad : forall a, pa_pad a = None ->
  length (pa_state a) <> Nat.pow 2 (pa_nwires a) -> preprocess a = PErr.
Proof.
  intros a Hp H. unfold preprocess. rewrite Hp.
  apply Nat.eqb_neq in H. now rewrite H.
Qed.

Lemma reject_iff_not_normalised : forall a r, pa_pad a = None -> pa_normalize a = false ->
  pa_validate a = true -> length (pa_state a) = Nat.pow 2 (pa_nwires a) ->
  qsqrt (norm2 (pa_state a)) = Some r ->
  (preprocess a = PErr <-> ~ Qabs (r - 1) <= tol) /\
  (preprocess a = POk (pa_state a) <-> Qabs (r - 1) <= tol).
Proof.
  intros a r Hp Hn Hv HL HS. unfold preprocess. rewrite Hp, HL, Nat.eqb_refl. cbn [negb].
  unfold norm_tail. rewrite Hn, Hv, HS. cbn [orb negb].
  unfold close1. destruct (Qle_bool (Qabs (r - 1)) tol) eqn:E.
  - apply Qle_bool_iff in E. split; split; intros; try discriminate; auto; contradiction.
  - assert (~ Qabs (r - 1) <= tol) by (intro G; apply Qle_bool_iff in G; congruence).
    split; split; intros; try discriminate; auto; contradiction.
Qed.

Lemma unvalidated_accepted : forall a, pa_pad a = None -> pa_normalize a = false ->
  pa_validate a = false -> length (pa_state a) = Nat.pow 2 (pa_nwires a) ->
  preprocess a = POk (pa_state a).
Proof.
  intros a Hp Hn Hv HL. unfold preprocess. rewrite Hp, HL, Nat.eqb_refl. cbn [negb].
  unfold norm_tail. now rewrite Hn, Hv.
Qed.

(* padding happens first and at the END, then the whole padded vector is normalised *)
Lemma preprocess_pad_structure : forall a p, pa_pad a = Some p ->
  (length (pa_state a) <= Nat.pow 2 (pa_nwires a))%nat ->
  let padded := pad (pa_state a) (Nat.pow 2 (pa_nwires a)) p in
  match preprocess a with
  | PErr => False
  | POk out => (out = padded /\ exists r, r * r == norm2 padded /\ 0 <= r /\ Qabs (r - 1) <= tol)
               \/ (exists r, r * r == norm2 padded /\ ~ r == 0 /\ out = map (cdiv r) padded /\ norm2 out == 1)
  | _ => True
  end.
Proof.
  intros a p Hp HL padded. unfold preprocess. rewrite Hp.
  assert (E1 : Nat.ltb (2 ^ pa_nwires a) (length (pa_state a)) = false) by (apply Nat.ltb_ge; exact HL).
  rewrite E1.
  assert (Hpad : (if Nat.ltb (length (pa_state a)) (2 ^ pa_nwires a)
                  then pad (pa_state a) (2 ^ pa_nwires a) p else pa_state a) = padded).
  { destruct (Nat.ltb (length (pa_state a)) (2 ^ pa_nwires a)) eqn:E2; [reflexivity|].
    apply Nat.ltb_ge in E2. unfold padded. now rewrite pad_full. }
  rewrite Hpad.
  destruct (norm_tail padded true (pa_validate a)) as [| | |out] eqn:T; auto.
  - unfold norm_tail in T. rewrite orb_true_r in T. cbn [negb] in T.
    destruct (qsqrt (norm2 padded)); [|discriminate].
    destruct (close1 q); [discriminate|]. destruct (Qeq_bool q 0); discriminate.
  - destruct (norm_tail_cases _ _ _ _ T) as [[F _]|[[r [H1 [H2 [H3 ->]]]]|[r [H1 [H2 [_ [-> H4]]]]]]].
    + rewrite orb_true_r in F. discriminate.
    + left. split; [reflexivity|]. exists r. auto.
    + right. exists r. auto.
Qed.

(* any accepted, validated/normalised vector is a unit vector up to the code's tolerance *)
Lemma preprocess_ok_norm : forall a out, preprocess a = POk out ->
  (pa_validate a || pa_normalize a = true \/ pa_pad a <> None) ->
  norm2 out == 1 \/ exists r, r * r == norm2 out /\ 0 <= r /\ Qabs (r - 1) <= tol.
Proof.
  intros a out H Hflag. unfold preprocess in H. destruct (pa_pad a) as [p|] eqn:Hp.
  - destruct (Nat.ltb (2 ^ pa_nwires a) (length (pa_state a))); [discriminate|].
    destruct (norm_tail_cases _ _ _ _ H) as [[F _]|[[r [H1 [H2 [H3 ->]]]]|[r [_ [_ [_ [_ H4]]]]]]].
    + rewrite orb_true_r in F. discriminate.
    + right. exists r. auto.
    + left. exact H4.
  - destruct (negb (Nat.eqb (length (pa_state a)) (2 ^ pa_nwires a))); [discriminate|].
    destruct (norm_tail_cases _ _ _ _ H) as [[F _]|[[r [H1 [H2 [H3 ->]]]]|[r [_ [_ [_ [_ H4]]]]]]].
    + destruct Hflag as [G|G]; [congruence|contradiction].
    + right. exists r. auto.
    + left. exact H4.
Qed.

(* sparse input *)
Lemma csr_nonzero_pad_rejected : forall a p, pa_pad a = Some p -> czero p = false -> preprocess_csr a = PErr.
Proof. intros a p Hp Hz. unfold preprocess_csr. now rewrite Hp, Hz. Qed.

Lemma csr_normalize_unit : forall a out, pa_normalize a = true -> preprocess_csr a = POk out ->
  length out = Nat.pow 2 (pa_nwires a) /\ norm2 out == 1.
Proof.
  intros a out Hn. unfold preprocess_csr.
  destruct (match pa_pad a with Some p => negb (czero p) | None => false end); [discriminate|].
  destruct (Nat.ltb (2 ^ pa_nwires a) (length (pa_state a))) eqn:E1; [discriminate|].
  apply Nat.ltb_ge in E1. rewrite Hn, orb_true_r. cbn [negb].
  set (st := if Nat.ltb (length (pa_state a)) (2 ^ pa_nwires a) then _ else _).
  assert (HL : length st = Nat.pow 2 (pa_nwires a)).
  { unfold st. destruct (Nat.ltb (length (pa_state a)) (2 ^ pa_nwires a)) eqn:E2.
    - now apply pad_length.
    - apply Nat.ltb_ge in E2. lia. }
  destruct (qsqrt (norm2 st)) as [r|] eqn:S; [|discriminate].
  destruct (qsqrt_sound _ _ S) as [Hr _].
  destruct (Qeq_bool r 0) eqn:Z0; [discriminate|].
  intros H; inversion H; subst out. split.
  - now rewrite map_length.
  - apply normalize_unit; auto. now apply Qeq_bool_false_neq.
Qed.
