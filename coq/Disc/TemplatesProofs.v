(* Lemmas about the template control-logic models (property C58). *)
From Coq Require Import List ZArith Bool Arith Lia Permutation.
From PLV Require Import Disc.TemplatesModel.
Import ListNotations.

(* ------------------------------------------------------------------ upd / swap_pos / nth *)
Lemma upd_length {A} (l : list A) : forall i v, length (upd i v l) = length l.
Proof. induction l as [|x r IH]; intros [|i] v; cbn; auto. Qed.

Lemma nth_upd {A} (d : A) (l : list A) : forall i v x,
  nth x (upd i v l) d = if Nat.eqb x i && Nat.ltb i (length l) then v else nth x l d.
Proof.
  induction l as [|a r IH]; intros i v x.
  - cbn. destruct x, i; cbn; try reflexivity; rewrite ?andb_false_r; reflexivity.
  - destruct i as [|i], x as [|x]; cbn [upd nth length]; try reflexivity.
    rewrite IH. cbn [Nat.eqb]. destruct (Nat.eqb x i); cbn [andb]; [|reflexivity].
    change (S i <? S (length r)) with (i <? length r). reflexivity.
Qed.

Lemma nth_swap_pos {A} (d : A) (l : list A) i j x : i < length l -> j < length l ->
  nth x (swap_pos d i j l) d = if Nat.eqb x j then nth i l d else if Nat.eqb x i then nth j l d else nth x l d.
Proof.
  intros Hi Hj. unfold swap_pos. rewrite nth_upd, upd_length, nth_upd.
  apply Nat.ltb_lt in Hi as Hi'. apply Nat.ltb_lt in Hj as Hj'. rewrite Hi', Hj', !andb_true_r. reflexivity.
Qed.

Lemma swap_pos_length {A} (d : A) (l : list A) i j : length (swap_pos d i j l) = length l.
Proof. unfold swap_pos. rewrite !upd_length. reflexivity. Qed.

Lemma upd_app_r {A} (pre l : list A) k v : upd (length pre + k) v (pre ++ l) = pre ++ upd k v l.
Proof. induction pre as [|a pre IH]; cbn; [reflexivity|]. rewrite IH. reflexivity. Qed.

Lemma nth_app_r {A} (d : A) (pre l : list A) k : nth (length pre + k) (pre ++ l) d = nth k l d.
Proof. induction pre as [|a pre IH]; cbn; auto. Qed.

Lemma upd_map {A B} (f : A -> B) (l : list A) : forall i v, upd i (f v) (map f l) = map f (upd i v l).
Proof. induction l as [|x r IH]; intros [|i] v; cbn; try reflexivity. rewrite IH. reflexivity. Qed.

Lemma swap_pos_map {A B} (f : A -> B) d i j (l : list A) : swap_pos (f d) i j (map f l) = map f (swap_pos d i j l).
Proof. unfold swap_pos. rewrite !map_nth, !upd_map. reflexivity. Qed.

Lemma apply_swaps_natural {A B} (f : A -> B) d sw : forall l, apply_swaps (f d) sw (map f l) = map f (apply_swaps d sw l).
Proof.
  unfold apply_swaps. induction sw as [|p sw IH]; intros l; cbn [fold_left]; [reflexivity|].
  rewrite swap_pos_map. apply IH.
Qed.

(* ------------------------------------------------------------------ Permute *)
Lemma permute_go_apply perm : forall idx w,
  snd (permute_go perm idx w) = apply_swaps 0%Z (fst (permute_go perm idx w)) w.
Proof.
  induction perm as [|here rest IH]; intros idx w; cbn [permute_go]; [reflexivity|].
  destruct (Z.eqb (nth idx w 0%Z) here); [apply IH|].
  cbn [fst snd]. unfold apply_swaps. cbn [fold_left fst snd]. apply IH.
Qed.

Lemma find_idx_app_notin x pre l : ~ In x pre -> find_idx x (pre ++ l) = length pre + find_idx x l.
Proof.
  induction pre as [|a pre IH]; intros H; cbn; [reflexivity|].
  destruct (Z.eqb_spec a x) as [->|N]; [exfalso; apply H; left; reflexivity|].
  rewrite IH; [reflexivity|]. intros Hin. apply H. right. exact Hin.
Qed.

Lemma in_split_first x l : In x l -> exists a b, l = a ++ x :: b /\ ~ In x a /\ find_idx x l = length a.
Proof.
  induction l as [|y r IH]; intros H; [destruct H|].
  cbn [find_idx]. destruct (Z.eqb_spec y x) as [->|N].
  - exists [], r. repeat split; auto.
  - destruct H as [E|H]; [contradiction|]. destruct (IH H) as (a & b & -> & Ha & Hf).
    exists (y :: a), b. cbn. repeat split; auto. intros [E|E]; [contradiction|auto].
Qed.

Lemma NoDup_app_disjoint (pre l : list Z) x : NoDup (pre ++ l) -> In x pre -> In x l -> False.
Proof.
  induction pre as [|a pre IH]; intros ND H1 H2; [destruct H1|].
  cbn in ND. inversion ND as [|? ? Hn Hd]; subst. destruct H1 as [->|H1].
  - apply Hn. apply in_or_app. right. exact H2.
  - exact (IH Hd H1 H2).
Qed.

Lemma permute_go_final perm : forall pre wrest,
  NoDup (pre ++ wrest) -> Permutation wrest perm ->
  snd (permute_go perm (length pre) (pre ++ wrest)) = pre ++ perm.
Proof.
  induction perm as [|here rest IH]; intros pre wrest ND P.
  - apply Permutation_sym, Permutation_nil in P. subst. reflexivity.
  - destruct wrest as [|w ws]; [apply Permutation_nil in P; discriminate|].
    cbn [permute_go].
    replace (nth (length pre) (pre ++ w :: ws) 0%Z) with w
      by (rewrite <- (Nat.add_0_r (length pre)), nth_app_r; reflexivity).
    destruct (Z.eqb_spec w here) as [->|N].
    + apply Permutation_cons_inv in P.
      specialize (IH (pre ++ [here]) ws). rewrite app_length, Nat.add_1_r, <- !app_assoc in IH. cbn [app] in IH.
      apply IH; assumption.
    + cbn [snd].
      assert (Hin : In here ws).
      { assert (H : In here (w :: ws)) by (eapply Permutation_in; [apply Permutation_sym, P | left; reflexivity]).
        destruct H as [E|H]; [contradiction|exact H]. }
      assert (Hpre : ~ In here pre).
      { intros H. apply (NoDup_app_disjoint _ _ _ ND H). right. exact Hin. }
      destruct (in_split_first here ws Hin) as (a & b & -> & Ha & Hf).
      assert (Hj : find_idx here (pre ++ w :: a ++ here :: b) = length pre + S (length a)).
      { rewrite find_idx_app_notin by exact Hpre. cbn [find_idx]. destruct (Z.eqb_spec w here); [contradiction|].
        rewrite Hf. reflexivity. }
      rewrite Hj.
      assert (Hsw : swap_pos 0%Z (length pre) (length pre + S (length a)) (pre ++ w :: a ++ here :: b)
                    = pre ++ here :: a ++ w :: b).
      { unfold swap_pos.
        replace (nth (length pre) (pre ++ w :: a ++ here :: b) 0%Z) with w
          by (rewrite <- (Nat.add_0_r (length pre)), nth_app_r; reflexivity).
        rewrite nth_app_r. cbn [nth].
        replace (nth (length a) (a ++ here :: b) 0%Z) with here
          by (rewrite <- (Nat.add_0_r (length a)), nth_app_r; reflexivity).
        rewrite <- (Nat.add_0_r (length pre)) at 2. rewrite upd_app_r. cbn [upd].
        rewrite upd_app_r. cbn [upd]. f_equal. f_equal.
        rewrite <- (Nat.add_0_r (length a)). rewrite upd_app_r. reflexivity. }
      rewrite Hsw.
      specialize (IH (pre ++ [here]) (a ++ w :: b)). rewrite app_length, Nat.add_1_r, <- !app_assoc in IH. cbn [app] in IH.
      apply IH.
      * eapply Permutation_NoDup; [|exact ND]. apply Permutation_app_head.
        (* w :: a ++ here :: b  ~  here :: a ++ w :: b *)
        transitivity (here :: w :: a ++ b).
        { apply Permutation_sym. transitivity (w :: here :: a ++ b); [apply perm_swap|].
          apply perm_skip. apply Permutation_middle. }
        apply perm_skip. apply Permutation_middle.
      * apply (Permutation_cons_inv (a := here)).
        transitivity (w :: a ++ here :: b); [|exact P].
        transitivity (here :: w :: a ++ b).
        { apply perm_skip. apply Permutation_sym, Permutation_middle. }
        transitivity (w :: here :: a ++ b); [apply perm_swap|]. apply perm_skip, Permutation_middle.
Qed.

Lemma permute_final_is_perm wires perm : NoDup wires -> Permutation wires perm -> permute_final wires perm = perm.
Proof. intros ND P. unfold permute_final. apply (permute_go_final perm [] wires ND P). Qed.

Lemma permute_realises {A} (f : Z -> A) wires perm : NoDup wires -> Permutation wires perm ->
  apply_swaps (f 0%Z) (permute_swaps wires perm) (map f wires) = map f perm.
Proof.
  intros ND P. rewrite apply_swaps_natural. f_equal. unfold permute_swaps.
  rewrite <- permute_go_apply. apply (permute_final_is_perm wires perm ND P).
Qed.

(* ------------------------------------------------------------------ Select: product([0,1], repeat=c) is the big-endian enumeration *)
Lemma product01_length c : length (product01 c) = 2 ^ c.
Proof. induction c as [|c IH]; cbn [product01 Nat.pow]; [reflexivity|]. rewrite app_length, !map_length, IH. lia. Qed.

Lemma pow2_pos c : 0 < 2 ^ c.
Proof. induction c; cbn; lia. Qed.

Lemma be_bits_small c : forall k, k < 2 ^ c -> be_bits (S c) k = false :: be_bits c k.
Proof.
  intros k H. cbn [be_bits]. f_equal. rewrite Nat.mod_small by (cbn [Nat.pow]; lia).
  apply Nat.leb_gt. exact H.
Qed.

Lemma be_bits_shift c : forall k, be_bits c (2 ^ c + k) = be_bits c k.
Proof.
  induction c as [|c IH]; intros k; [reflexivity|].
  cbn [be_bits]. f_equal.
  - f_equal. replace (2 ^ S c + k) with (k + 1 * 2 ^ S c) by lia. apply Nat.mod_add. pose proof (pow2_pos (S c)). lia.
  - replace (2 ^ S c + k) with (2 ^ c + (2 ^ c + k)) by (cbn [Nat.pow]; lia). rewrite !IH. reflexivity.
Qed.

Lemma be_bits_big c : forall k, k < 2 ^ c -> be_bits (S c) (2 ^ c + k) = true :: be_bits c k.
Proof.
  intros k H. cbn [be_bits]. f_equal.
  - rewrite Nat.mod_small by (cbn [Nat.pow]; lia). apply Nat.leb_le. lia.
  - apply be_bits_shift.
Qed.

Lemma product01_nth c : forall k, k < 2 ^ c -> nth_error (product01 c) k = Some (be_bits c k).
Proof.
  induction c as [|c IH]; intros k H.
  - cbn in H. assert (k = 0) by lia. subst. reflexivity.
  - cbn [product01]. cbn [Nat.pow] in H. destruct (Nat.lt_ge_cases k (2 ^ c)) as [L|G].
    + rewrite nth_error_app1 by (rewrite map_length, product01_length; exact L).
      rewrite nth_error_map, (IH k L). cbn [option_map]. rewrite be_bits_small by exact L. reflexivity.
    + rewrite nth_error_app2 by (rewrite map_length, product01_length; exact G).
      rewrite map_length, product01_length.
      assert (L : k - 2 ^ c < 2 ^ c) by lia.
      rewrite nth_error_map, (IH _ L). cbn [option_map].
      replace k with (2 ^ c + (k - 2 ^ c)) at 2 by lia. rewrite be_bits_big by exact L. reflexivity.
Qed.

Lemma be_bits_length c k : length (be_bits c k) = c.
Proof. induction c as [|c IH]; cbn; [reflexivity|]. rewrite IH. reflexivity. Qed.

Lemma be_val_bits c : forall k, k < 2 ^ c -> be_val (be_bits c k) = k.
Proof.
  induction c as [|c IH]; intros k H.
  - cbn in *. lia.
  - cbn [Nat.pow] in H. destruct (Nat.lt_ge_cases k (2 ^ c)) as [L|G].
    + rewrite be_bits_small by exact L. cbn [be_val]. rewrite (IH k L). lia.
    + replace k with (2 ^ c + (k - 2 ^ c)) by lia. rewrite be_bits_big by lia.
      cbn [be_val]. rewrite be_bits_length, IH by lia. lia.
Qed.

Lemma bits_eqb_eq u : forall v, bits_eqb u v = true <-> u = v.
Proof.
  induction u as [|a u IH]; intros [|b v]; cbn; split; intros H; try discriminate; try reflexivity.
  - apply andb_prop in H as [H1 H2]. apply eqb_prop in H1. apply IH in H2. subst. reflexivity.
  - inversion H; subst. rewrite eqb_reflx. cbn. apply IH. reflexivity.
Qed.

Lemma zip_nth_error {A B} (l : list A) : forall (m : list B) k a b,
  nth_error l k = Some a -> nth_error m k = Some b -> nth_error (zip l m) k = Some (a, b).
Proof.
  induction l as [|x l IH]; intros [|y m] [|k] a b H1 H2; cbn in *; try discriminate.
  - inversion H1; inversion H2; subst. reflexivity.
  - apply IH; assumption.
Qed.

Lemma zip_fst_prefix {A B} (l : list A) : forall (m : list B), exists r, l = map fst (zip l m) ++ r.
Proof.
  induction l as [|x l IH]; intros m; [exists []; reflexivity|].
  destruct m as [|y m]; cbn; [exists (x :: l); reflexivity|].
  destruct (IH m) as [r Hr]. exists r. rewrite <- Hr. reflexivity.
Qed.

Lemma product01_nodup c : NoDup (product01 c).
Proof.
  induction c as [|c IH]; cbn [product01]; [constructor; [intros []|constructor]|].
  assert (inj : forall b, NoDup (map (cons b) (product01 c))).
  { intros b. apply FinFun.Injective_map_NoDup; [|exact IH]. intros x y E. inversion E. reflexivity. }
  clear IH. revert inj. generalize (product01 c). intros l inj.
  assert (D : forall x, In x (map (cons false) l) -> In x (map (cons true) l) -> False).
  { intros x G1 G2. apply in_map_iff in G1 as (u & <- & _). apply in_map_iff in G2 as (v & E & _). discriminate. }
  generalize (inj false), (inj true), D. generalize (map (cons false) l), (map (cons true) l). clear.
  intros l1 l2 N1 N2 D. induction l1 as [|a l1 IH]; [exact N2|].
  cbn. inversion N1 as [|? ? Hn Hd]; subst. constructor.
  - intros H. apply in_app_or in H as [H|H]; [contradiction|]. apply (D a); [left; reflexivity|exact H].
  - apply IH; [assumption|]. intros x G1 G2. apply (D x); [right; exact G1|exact G2].
Qed.

Lemma nodup_app_l {A} (a b : list A) : NoDup (a ++ b) -> NoDup a.
Proof.
  induction a as [|x a IH]; intros N; [constructor|].
  cbn in N. inversion N as [|? ? Hn Hd]; subst. constructor; [|apply IH; exact Hd].
  intros H. apply Hn. apply in_or_app. left. exact H.
Qed.

Lemma select_states_nodup {A} c (ops : list A) : NoDup (map fst (select_branches c ops)).
Proof.
  unfold select_branches. destruct (zip_fst_prefix (product01 c) ops) as [r Hr].
  pose proof (product01_nodup c) as N. rewrite Hr in N. apply nodup_app_l in N. exact N.
Qed.

Lemma select_branch_k {A} c (ops : list A) k op : length ops <= 2 ^ c -> nth_error ops k = Some op ->
  nth_error (select_branches c ops) k = Some (be_bits c k, op).
Proof.
  intros L H. unfold select_branches. apply zip_nth_error; [|exact H].
  apply product01_nth. assert (k < length ops) by (apply nth_error_Some; congruence). lia.
Qed.

Lemma filter_unique_key {A} (l : list (list bool * A)) : forall k a x, NoDup (map fst l) -> nth_error l k = Some (a, x) ->
  filter (fun p => bits_eqb (fst p) a) l = [(a, x)].
Proof.
  induction l as [|[b y] l IH]; intros k a x N H; [destruct k; discriminate|].
  cbn [map fst] in N. inversion N as [|? ? Hn Hd]; subst. cbn [filter fst].
  destruct k as [|k]; cbn in H.
  - inversion H; subst. assert (E : bits_eqb a a = true) by (apply bits_eqb_eq; reflexivity). rewrite E. f_equal.
    clear IH N Hd H E. induction l as [|[c z] l IH]; [reflexivity|]. cbn [filter fst].
    destruct (bits_eqb c a) eqn:E.
    + apply bits_eqb_eq in E. subst. exfalso. apply Hn. left. reflexivity.
    + apply IH. intros Hin. apply Hn. right. exact Hin.
  - destruct (bits_eqb b a) eqn:E.
    + apply bits_eqb_eq in E. subst. exfalso. apply Hn.
      apply nth_error_In in H. apply (in_map fst) in H. exact H.
    + apply (IH k a x Hd H).
Qed.

Lemma select_fired_spec {A} c (ops : list A) k op : length ops <= 2 ^ c -> nth_error ops k = Some op ->
  select_fired c ops (be_bits c k) = [op].
Proof.
  intros L H. unfold select_fired.
  rewrite (filter_unique_key _ k (be_bits c k) op (select_states_nodup c ops) (select_branch_k c ops k op L H)).
  reflexivity.
Qed.

Lemma select_fired_none {A} c (ops : list A) k : length ops <= k -> k < 2 ^ c -> select_fired c ops (be_bits c k) = [].
Proof.
  intros G L. unfold select_fired, select_branches.
  assert (H : forall i st op, nth_error (zip (product01 c) ops) i = Some (st, op) -> st = be_bits c i /\ i < length ops).
  { assert (Z : forall (l : list (list bool)) (m : list A) i st op, nth_error (zip l m) i = Some (st, op) ->
                nth_error l i = Some st /\ i < length m).
    { clear. induction l as [|x l IH]; intros [|y m] [|i] st op H; cbn in *; try discriminate.
      - inversion H; subst. split; [reflexivity|lia].
      - destruct (IH m i st op H). split; [assumption|lia]. }
    intros i st op Hz. destruct (Z _ _ _ _ _ Hz) as [H1 H2]. split; [|exact H2].
    assert (i < 2 ^ c). { rewrite <- (product01_length c). apply nth_error_Some. congruence. }
    rewrite (product01_nth c i) in H1 by assumption. inversion H1. reflexivity. }
  assert (F : forall p, In p (zip (product01 c) ops) -> bits_eqb (fst p) (be_bits c k) = false).
  { intros [st op] Hin. apply In_nth_error in Hin as [i Hi]. destruct (H i st op Hi) as [-> Hlt]. cbn [fst].
    destruct (bits_eqb (be_bits c i) (be_bits c k)) eqn:E; [|reflexivity].
    apply bits_eqb_eq in E. apply (f_equal be_val) in E. rewrite !be_val_bits in E by lia. lia. }
  revert F. generalize (zip (product01 c) ops). intros l F. induction l as [|p l IH]; [reflexivity|].
  cbn [filter]. rewrite (F p) by (left; reflexivity). apply IH. intros q Hq. apply F. right. exact Hq.
Qed.

(* ------------------------------------------------------------------ ControlledSequence *)
Lemma ctrlseq_exponent n i : i < n -> nth i (ctrlseq_exponents n) 0%Z = (2 ^ Z.of_nat (n - 1 - i))%Z.
Proof.
  intros H. unfold ctrlseq_exponents, powers_of_two.
  rewrite rev_nth by (rewrite map_length, seq_length; exact H).
  rewrite map_length, seq_length.
  set (f := fun i : nat => (2 ^ Z.of_nat i)%Z).
  rewrite (nth_indep _ 0%Z (f 0)) by (rewrite map_length, seq_length; lia).
  rewrite (map_nth f), seq_nth by lia. unfold f. f_equal. f_equal. lia.
Qed.

Lemma ctrlseq_length n : length (ctrlseq_exponents n) = n.
Proof. unfold ctrlseq_exponents, powers_of_two. rewrite rev_length, map_length, seq_length. reflexivity. Qed.

(* ------------------------------------------------------------------ FlipSign *)
Lemma removelast_last_eq {A} (d : A) (l : list A) : l <> [] -> l = removelast l ++ [last l d].
Proof. apply app_removelast_last. Qed.

Lemma flipsign_iff state inp : state <> [] -> length inp = length state ->
  flipsign_fires state inp = true <-> inp = state.
Proof.
  intros Hs Hl. assert (Hi : inp <> []) by (intros ->; destruct state; [congruence|discriminate]).
  unfold flipsign_fires. split.
  - intros H. apply andb_prop in H as [H1 H2]. apply bits_eqb_eq in H1.
    rewrite (removelast_last_eq true inp Hi), (removelast_last_eq true state Hs). rewrite H1. f_equal. f_equal.
    destruct (last state true), (last inp true); cbn in H2; congruence.
  - intros ->. apply andb_true_intro. split; [apply bits_eqb_eq; reflexivity|]. destruct (last state true); reflexivity.
Qed.

(* ------------------------------------------------------------------ QROM layout *)
Lemma nth_map_seq {A} (f : nat -> A) d n j : j < n -> nth j (map f (seq 0 n)) d = f j.
Proof.
  intros H. rewrite (nth_indep _ d (f 0)) by (rewrite map_length, seq_length; exact H).
  rewrite (map_nth f), seq_nth by exact H. reflexivity.
Qed.

Lemma qrom_row_entry {A} c depth (data : list A) k : 0 < depth ->
  nth (k mod depth) (qrom_row c depth data (k / depth)) None = nth k (qrom_padded c data) None.
Proof.
  intros H. unfold qrom_row. rewrite nth_map_seq by (apply Nat.mod_upper_bound; lia).
  f_equal. rewrite (Nat.mul_comm (k / depth) depth). symmetry. apply Nat.div_mod. lia.
Qed.

Lemma qrom_padded_nth {A} c (data : list A) k x : nth_error data k = Some x -> nth k (qrom_padded c data) None = Some x.
Proof.
  intros H. unfold qrom_padded. assert (L : k < length data) by (apply nth_error_Some; congruence).
  rewrite app_nth1 by (rewrite map_length; exact L).
  rewrite (nth_indep _ None (Some x)) by (rewrite map_length; exact L).
  rewrite (map_nth Some). f_equal. apply nth_error_nth. exact H.
Qed.

Lemma qrom_padded_none {A} c (data : list A) k : length data <= k -> nth k (qrom_padded c data) None = None.
Proof.
  intros H. unfold qrom_padded. rewrite app_nth2 by (rewrite map_length; exact H).
  destruct (nth_in_or_default (k - length (map Some data)) (repeat (@None A) (2 ^ c - length data)) None) as [Hin|E]; [|exact E].
  apply repeat_spec in Hin. exact Hin.
Qed.

(* ------------------------------------------------------------------ the controlled-swap network *)
Definition sw_step {A} (d : A) (q : list bool) (acc : list A) (t : nat * nat * nat) : list A :=
  match t with (cw, a, b) => if nth cw q false then swap_pos d a b acc else acc end.

Lemma swapnet_run_unfold {A} (d : A) s q slots : swapnet_run d s q slots = fold_left (sw_step d q) (swapnet s) slots.
Proof. reflexivity. Qed.

Ltac cases :=
  repeat match goal with
         | |- context [Nat.eqb ?a ?b] => destruct (Nat.eqb_spec a b)
         | |- context [Nat.ltb ?a ?b] => destruct (Nat.ltb_spec a b)
         | |- context [Nat.leb ?a ?b] => destruct (Nat.leb_spec a b)
         end; cbn [andb]; try lia; try reflexivity; try (f_equal; lia).

Lemma level_true {A} (d : A) q cw p : nth cw q false = true -> forall n slots, n <= p -> p + n <= length slots ->
  let r := fold_left (sw_step d q) (map (fun j => (cw, j, j + p)) (down_from n)) slots in
  length r = length slots /\
  forall x, nth x r d = if Nat.ltb x n then nth (x + p) slots d
                        else if Nat.leb p x && Nat.ltb x (p + n) then nth (x - p) slots d else nth x slots d.
Proof.
  intros Hb. induction n as [|n IH]; intros slots Hn Hl.
  - cbn [down_from map fold_left]. cbv zeta. split; [reflexivity|]. intros x. cases.
  - cbn [down_from map fold_left]. cbv zeta.
    assert (E : sw_step d q slots (cw, n, n + p) = swap_pos d n (n + p) slots) by (unfold sw_step; rewrite Hb; reflexivity).
    rewrite !E. clear E.
    specialize (IH (swap_pos d n (n + p) slots)). rewrite swap_pos_length in IH.
    destruct (IH ltac:(lia) ltac:(lia)) as [L N]. cbv zeta in *. split; [exact L|].
    intros x. rewrite N. rewrite !nth_swap_pos by lia. cases.
Qed.

Lemma level_false {A} (d : A) q cw p : nth cw q false = false -> forall n slots,
  fold_left (sw_step d q) (map (fun j => (cw, j, j + p)) (down_from n)) slots = slots.
Proof.
  intros Hb. induction n as [|n IH]; intros slots; [reflexivity|].
  cbn [down_from map fold_left].
  assert (E : sw_step d q slots (cw, n, n + p) = slots) by (unfold sw_step; rewrite Hb; reflexivity).
  rewrite E. apply IH.
Qed.

Definition shift3 (t : nat * nat * nat) : nat * nat * nat := match t with (cw, a, b) => (S cw, a, b) end.

Lemma fold_shift {A} (d : A) b rest l : forall slots,
  fold_left (sw_step d (b :: rest)) (map shift3 l) slots = fold_left (sw_step d rest) l slots.
Proof.
  induction l as [|[[cw x] y] l IH]; intros slots; [reflexivity|].
  cbn [map fold_left shift3]. unfold sw_step at 2 4. cbn [nth]. apply IH.
Qed.

Lemma swapnet_tail_shift s : forall l, (forall i, In i l -> i < s) ->
  flat_map (swapnet_level (S s)) l = map shift3 (flat_map (swapnet_level s) l).
Proof.
  induction l as [|i l IH]; intros H; [reflexivity|].
  cbn [flat_map]. rewrite map_app, IH by (intros j Hj; apply H; right; exact Hj). f_equal.
  unfold swapnet_level. rewrite map_map. apply map_ext. intros j. cbn [shift3].
  assert (i < s) by (apply H; left; reflexivity). f_equal. f_equal. lia.
Qed.

Lemma down_from_lt n : forall i, In i (down_from n) -> i < n.
Proof. induction n as [|n IH]; intros i H; [destruct H|]. destruct H as [<-|H]; [lia|]. specialize (IH i H). lia. Qed.

Lemma swapnet_moves_slot {A} (d : A) s : forall q slots, 2 ^ s <= length slots ->
  nth 0 (swapnet_run d s (be_bits s q) slots) d = nth (q mod 2 ^ s) slots d.
Proof.
  induction s as [|s IH]; intros q slots Hl.
  - cbn. reflexivity.
  - rewrite swapnet_run_unfold. unfold swapnet. cbn [down_from flat_map].
    rewrite fold_left_app. cbn [be_bits]. set (b := Nat.leb (2 ^ s) (q mod 2 ^ S s)).
    rewrite swapnet_tail_shift by apply down_from_lt. rewrite fold_shift.
    change (fold_left (sw_step d (be_bits s q)) (flat_map (swapnet_level s) (down_from s)))
      with (swapnet_run d s (be_bits s q)).
    unfold swapnet_level at 1. replace (S s - 1 - s) with 0 by lia.
    pose proof (pow2_pos s) as Pp.
    assert (M : q mod 2 ^ S s = q mod 2 ^ s + 2 ^ s * ((q / 2 ^ s) mod 2)).
    { cbn [Nat.pow]. rewrite (Nat.mul_comm 2 (2 ^ s)). apply Nat.mod_mul_r; lia. }
    assert (R : (q / 2 ^ s) mod 2 < 2) by (apply Nat.mod_upper_bound; lia).
    assert (Q : q mod 2 ^ s < 2 ^ s) by (apply Nat.mod_upper_bound; lia).
    cbn [Nat.pow] in Hl.
    destruct b eqn:Eb; subst b.
    + destruct (level_true d (true :: be_bits s q) 0 (2 ^ s) eq_refl (2 ^ s) slots ltac:(lia) ltac:(lia)) as [L N].
      cbv zeta in L, N. rewrite IH by lia. rewrite N.
      apply Nat.leb_le in Eb. apply Nat.ltb_lt in Q as Q'. rewrite Q'.
      f_equal. rewrite M in *. destruct ((q / 2 ^ s) mod 2) as [|[|r]]; lia.
    + rewrite (level_false d (false :: be_bits s q) 0 (2 ^ s) eq_refl). rewrite IH by lia.
      apply Nat.leb_gt in Eb. f_equal. rewrite M in *. destruct ((q / 2 ^ s) mod 2) as [|[|r]]; nia.
Qed.

Lemma qrom_loaded_spec {A} c s (data : list A) k x : nth_error data k = Some x ->
  qrom_loaded c s data k = Some x.
Proof.
  intros H. unfold qrom_loaded. rewrite swapnet_moves_slot.
  - rewrite Nat.mod_mod by (pose proof (pow2_pos s); lia).
    rewrite qrom_row_entry by apply pow2_pos. apply qrom_padded_nth. exact H.
  - unfold qrom_row. rewrite map_length, seq_length. lia.
Qed.

Lemma qrom_loaded_pad {A} c s (data : list A) k : length data <= k -> qrom_loaded c s data k = None.
Proof.
  intros H. unfold qrom_loaded. rewrite swapnet_moves_slot.
  - rewrite Nat.mod_mod by (pose proof (pow2_pos s); lia).
    rewrite qrom_row_entry by apply pow2_pos. apply qrom_padded_none. exact H.
  - unfold qrom_row. rewrite map_length, seq_length. lia.
Qed.
