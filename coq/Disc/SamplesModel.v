(* Model of sample post-processing in pennylane/measurements:
     process_samples.py (process_raw_samples), sample.py, expval.py, var.py, probs.py, counts.py
     and MeasurementProcess.eigvals / wires for mid-circuit measurement values (core/measurements.py).
   No proofs here: this file must keep running for the correspondence check even when a proof breaks.

   Numbers.  Eigenvalues are integers in units of 1/one (the case carries `one`, the representation of
   1.0; the harness uses one = 4, i.e. dyadic eigenvalues k/4).  Means / probabilities are returned as
   (numerator tensor, common denominator); variances as the numerator of  sum |n x_i - S|^2  (see
   var_num).  So every result is an exact integer. *)
From Coq Require Import List ZArith Bool.
Import ListNotations.
Open Scope Z_scope.

(* ------------------------------------------------------------------ small utilities *)
Inductive tens := TZ (z : Z) | TL (l : list tens).

Fixpoint teq (a b : tens) : bool :=
  match a, b with
  | TZ x, TZ y => x =? y
  | TL l, TL m =>
      (fix go (l m : list tens) : bool :=
         match l, m with
         | [], [] => true
         | x :: r, y :: s => teq x y && go r s
         | _, _ => false
         end) l m
  | _, _ => false
  end.

(* numpy squeeze on a rectangular nested list: drop every axis of length 1 *)
Fixpoint squeeze (t : tens) : tens :=
  match t with
  | TZ z => TZ z
  | TL l => match l with
            | [x] => squeeze x
            | _ => TL (map squeeze l)
            end
  end.

Definition b2z (b : bool) : Z := if b then 1 else 0.
Definition tvec (l : list Z) : tens := TL (map TZ l).
Definition tmat (m : list (list Z)) : tens := TL (map tvec m).
Definition tbits (m : list (list bool)) : tens := tmat (map (map b2z) m).
Definition sumZ (l : list Z) : Z := fold_right Z.add 0 l.
Definition lenZ {A} (l : list A) : Z := Z.of_nat (length l).

Fixpoint eq_lz (a b : list Z) : bool :=
  match a, b with [], [] => true | x :: r, y :: s => (x =? y) && eq_lz r s | _, _ => false end.
Fixpoint eq_lb (a b : list bool) : bool :=
  match a, b with [], [] => true | x :: r, y :: s => Bool.eqb x y && eq_lb r s | _, _ => false end.

Fixpoint map_opt {A B} (f : A -> option B) (l : list A) : option (list B) :=
  match l with
  | [] => Some []
  | x :: r => match f x, map_opt f r with Some y, Some s => Some (y :: s) | _, _ => None end
  end.

(* reshape of a flat row-major list into nrows rows of ncols *)
Fixpoint chunks {A} (nrows ncols : nat) (l : list A) : list (list A) :=
  match nrows with O => [] | S k => firstn ncols l :: chunks k ncols (skipn ncols l) end.

(* ------------------------------------------------------------------ wires, slicing, indices *)
(* wire_map = {w: i for i, w in enumerate(wire_order)}; wire_map[w] raises KeyError when absent *)
Fixpoint index_of (w : Z) (order : list Z) (i : nat) : option nat :=
  match order with [] => None | x :: r => if x =? w then Some i else index_of w r (S i) end.
Definition mapped_wires (order ws : list Z) : option (list nat) := map_opt (fun w => index_of w order 0%nat) ws.

(* samples[..., slice(lo, hi), :]  (Python slice semantics incl. negative bounds and clamping) *)
Definition norm_bound (n b : Z) : Z := if b <? 0 then Z.max 0 (n + b) else Z.min b n.
Definition slice {A} (r : option (Z * Z)) (l : list A) : list A :=
  match r with
  | None => l
  | Some (lo, hi) => let n := lenZ l in let a := norm_bound n lo in let b := norm_bound n hi in
                     firstn (Z.to_nat (b - a)) (skipn (Z.to_nat a) l)
  end.

(* samples[..., mapped_wires] *)
Definition select (idxs : list nat) (row : list bool) : list bool := map (fun i => nth i row false) idxs.

(* powers_of_two = 2 ** arange(num_wires)[::-1] ;  indices = samples @ powers_of_two *)
Definition powers_of_two (w : nat) : list Z := rev (map (fun k => 2 ^ Z.of_nat k) (seq 0 w)).
Fixpoint dot (a : list bool) (p : list Z) : Z :=
  match a, p with x :: r, y :: s => b2z x * y + dot r s | _, _ => 0 end.
Definition index_row (w : nat) (row : list bool) : Z := dot row (powers_of_two w).

(* int(outcome, 2) on a bit string *)
Definition int2 (b : list bool) : Z := fold_left (fun a x => 2 * a + b2z x) b 0.
(* f"{x:0{w}b}" for 0 <= x < 2^w, and the branch tuples of MeasurementValue.items() *)
Definition bits_of (w : nat) (i : Z) : list bool := map (fun k => Z.testbit i (Z.of_nat k)) (rev (seq 0 w)).
Definition all_indices (w : nat) : list Z := map Z.of_nat (seq 0 (Z.to_nat (2 ^ Z.of_nat w))).

(* ------------------------------------------------------------------ what is measured *)
(* arithmetic on mid-circuit measurement values (integer constants); MVar i = i-th measurement *)
Inductive mexp :=
| MVar (i : nat) | MConst (c : Z)
| MAdd (a b : mexp) | MSub (a b : mexp) | MMul (a b : mexp)
| MNot (a : mexp)            (* ~m  : logical_not *)
| MEq (a b : mexp).          (* m == x *)

Fixpoint meval (e : mexp) (bits : list bool) : Z :=
  match e with
  | MVar i => b2z (nth i bits false)
  | MConst c => c
  | MAdd a b => meval a bits + meval b bits
  | MSub a b => meval a bits - meval b bits
  | MMul a b => meval a bits * meval b bits
  | MNot a => if meval a bits =? 0 then 1 else 0
  | MEq a b => if meval a bits =? meval b bits then 1 else 0
  end.

Inductive obsspec :=
| OWires (ws : list Z)                 (* no observable; wires=ws ([] = all wires); also lists of MCM values *)
| OEig (ws : list Z) (ev : list Z)     (* eigvals=ev, wires=ws *)
| OObs (ws : list Z) (ev : list Z)     (* an operator on wires ws whose eigvals() are ev (oracle) *)
| OMV (ws : list Z) (e : mexp).        (* a MeasurementValue over measurements on wires ws *)

Definition o_wires (o : obsspec) : list Z :=
  match o with OWires ws => ws | OEig ws _ => ws | OObs ws _ => ws | OMV ws _ => ws end.

(* MeasurementProcess.eigvals(): for a MeasurementValue the processed values of all branches *)
Definition mv_eigvals (one : Z) (n : nat) (e : mexp) : list Z :=
  map (fun i => one * meval e (bits_of n i)) (all_indices n).
Definition o_eigvals (one : Z) (o : obsspec) : option (list Z) :=
  match o with
  | OWires _ => None
  | OEig _ ev => Some ev
  | OObs _ ev => Some ev
  | OMV ws e => Some (mv_eigvals one (length ws) e)
  end.

(* ------------------------------------------------------------------ process_raw_samples *)
(* wire mapping, shot_range, wire selection; returns the reduced array and num_wires *)
Definition prep (order ws : list Z) (r : option (Z * Z)) (data : list (list (list bool)))
  : option (list (list (list bool)) * nat) :=
  match mapped_wires order ws with
  | None => None
  | Some idxs =>
      let d1 := map (slice r) data in
      match idxs with
      | [] => Some (d1, length order)
      | _ => Some (map (map (select idxs)) d1, length idxs)
      end
  end.

(* eigenvalue of one sample: the +-1 fast path  1.0 - 2*squeeze(samples, -1)  or  eigvals[indices] *)
Definition row_value (one : Z) (ev : list Z) (w : nat) (row : list bool) : option Z :=
  if eq_lz ev [one; - one] then
    match row with [b] => Some (one - 2 * one * b2z b) | _ => None end
  else nth_error ev (Z.to_nat (index_row w row)).

Definition eig_samples (one : Z) (ev : list Z) (w : nat) (d : list (list (list bool))) : option (list (list Z)) :=
  map_opt (map_opt (row_value one ev w)) d.

(* samples.reshape((bin_size, -1)) on the (flattened) eigenvalue samples *)
Definition bin_reshape {A} (b : Z) (flat : list A) : option (list (list A)) :=
  let n := lenZ flat in
  if (b <=? 0) || negb (n mod b =? 0) then None
  else Some (chunks (Z.to_nat b) (Z.to_nat (n / b)) flat).

Definition unbatch (batched : bool) (l : list tens) : tens := if batched then TL l else hd (TL []) l.

Inductive result :=
| RErr                                   (* an exception is raised *)
| RUnsup                                 (* outside the model (never generated) *)
| RQ (t : tens) (den : Z)                (* numerators with a common denominator *)
| RT (t : tens)                          (* integer tensor (samples) *)
| RD (d : list ((list bool + Z) * Z))    (* a counts dictionary, insertion order *)
| RDs (l : list (list ((list bool + Z) * Z))).

(* eigenvalue-sample array of SampleMP(obs=op, eigvals=.., wires=..).process_samples:
   no bin: batch x shots ; bin b: (b, -1) matrix of the flattened array *)
Definition eig_array (one : Z) (o : obsspec) (ev : list Z) (order : list Z) (r : option (Z * Z))
           (bin : option Z) (data : list (list (list bool))) : option (list (list Z)) :=
  match prep order (o_wires o) r data with
  | None => None
  | Some (d, w) =>
      match eig_samples one ev w d with
      | None => None
      | Some vals => match bin with None => Some vals | Some b => bin_reshape b (concat vals) end
      end
  end.

Definition column {A} (dflt : A) (j : nat) (m : list (list A)) : list A := map (fun r => nth j r dflt) m.
Definition ncols {A} (m : list (list A)) : nat := match m with [] => O | r :: _ => length r end.
Definition columns {A} (dflt : A) (m : list (list A)) : list (list A) := map (fun j => column dflt j m) (seq 0 (ncols m)).

(* ---- SampleMP.process_samples *)
Definition sample_ps (one : Z) (o : obsspec) (batched : bool) (order : list Z) (r : option (Z * Z))
           (bin : option Z) (data : list (list (list bool))) : result :=
  match o_eigvals one o with
  | None =>
      match prep order (o_wires o) r data with
      | None => RErr
      | Some (d, w) =>
          match bin with
          | None => RT (unbatch batched (map tbits d))
          | Some b =>
              if batched then RUnsup else
              (* samples.T.reshape(num_wires, bin_size, -1) *)
              let rows := hd [] d in
              match map_opt (fun k => bin_reshape b (map (fun row => b2z (nth k row false)) rows)) (seq 0 w) with
              | None => RErr
              | Some ms => RT (TL (map tmat ms))
              end
          end
      end
  | Some ev =>
      match eig_array one o ev order r bin data with
      | None => RErr
      | Some vals => match bin with
                     | None => RT (unbatch batched (map tvec vals))
                     | Some _ => RT (tmat vals)
                     end
      end
  end.

(* ---- ExpectationMP / VarianceMP .process_samples : mean / var over axis -1 (no bin) or -2 (bin) *)
Definition var_num (xs : list Z) : Z :=                 (* n^3 * mean(|x - mean(x)|^2), n = len xs *)
  let n := lenZ xs in let s := sumZ xs in sumZ (map (fun x => (n * x - s) * (n * x - s)) xs).

Definition stat_ps (stat : list Z -> Z) (one : Z) (o : obsspec) (batched : bool) (order : list Z)
           (r : option (Z * Z)) (bin : option Z) (data : list (list (list bool))) : result :=
  match o_eigvals one o, o_wires o with
  | None, _ => RUnsup
  | _, [] => RUnsup
  | Some ev, _ =>
      match eig_array one o ev order r bin data with
      | None => RErr
      | Some vals =>
          match bin with
          | None => RQ (squeeze (unbatch batched (map (fun row => TZ (stat row)) vals))) (Z.of_nat (ncols vals))
          | Some b => RQ (squeeze (tvec (map stat (columns 0 vals)))) b
          end
      end
  end.

(* ---- ProbabilityMP.process_samples *)
Definition count_eq (i : Z) (l : list Z) : Z := sumZ (map (fun x => if x =? i then 1 else 0) l).

Definition probs_ps (o : obsspec) (batched : bool) (order : list Z) (r : option (Z * Z))
           (bin : option Z) (data : list (list (list bool))) : result :=
  match prep order (o_wires o) r data with
  | None => RErr
  | Some (d, w) =>
      let idx := map (map (index_row w)) d in                 (* batch x shots *)
      let n := Z.of_nat (ncols idx) in
      let nbs := match bin with Some b => if b =? 0 then n else b | None => n end in   (* bin_size or shape[-2] *)
      if (nbs <=? 0) || negb (n mod nbs =? 0) then RErr else
      let nb := Z.to_nat (n / nbs) in
      (* per batch: probabilities[basis_states, b] = counts  -> dim x num_bins *)
      let per_batch := map (fun ix => let bins := chunks nb (Z.to_nat nbs) ix in
                                      tmat (map (fun p => map (count_eq p) bins) (all_indices w))) idx in
      let t := unbatch batched per_batch in
      RQ (match bin with None => squeeze t | Some _ => t end) nbs
  end.

(* ------------------------------------------------------------------ dictionaries (insertion ordered) *)
Definition key := (list bool + Z)%type.          (* inl bits = a bit-string key, inr v = an eigenvalue key *)
Definition key_eqb (a b : key) : bool :=
  match a, b with inl x, inl y => eq_lb x y | inr x, inr y => x =? y | _, _ => false end.
Definition dict := list (key * Z).

(* d[k] = f(d[k], v) if k present (position kept), else append (k, v) *)
Fixpoint dupd (f : Z -> Z -> Z) (k : key) (v : Z) (d : dict) : dict :=
  match d with
  | [] => [(k, v)]
  | (k', v') :: r => if key_eqb k' k then (k', f v' v) :: r else (k', v') :: dupd f k v r
  end.
Definition dset : key -> Z -> dict -> dict := dupd (fun _ new => new).
Definition dadd : key -> Z -> dict -> dict := dupd Z.add.
Fixpoint dget (k : key) (d : dict) : option Z :=
  match d with [] => None | (k', v) :: r => if key_eqb k' k then Some v else dget k r end.
Definition dtotal (d : dict) : Z := sumZ (map snd d).

(* ------------------------------------------------------------------ CountsMP._samples_to_counts *)
(* math.unique(batch, return_counts=True) on bit-string keys: sorted strings of equal length = ascending
   basis index; each observed string once with its multiplicity *)
Definition unique_rows (w : nat) (rows : list (list bool)) : dict :=
  let idx := map (index_row w) rows in
  flat_map (fun i => let c := count_eq i idx in if 0 <? c then [(inl (bits_of w i), c)] else []) (all_indices w).
(* the same on eigenvalue samples (order of first occurrence; the order is not observable here) *)
Definition unique_vals (l : list Z) : dict := fold_left (fun d x => dadd (inr x) 1 d) l [].

(* outcome_dict[state] = count  on top of the base dict *)
Definition fill (base : dict) (u : dict) : dict := fold_left (fun d kv => dset (fst kv) (snd kv) d) u base.

(* {outcome_to_eigval(outcome): count for outcome, count in outcome_dict.items()}
   A dict comprehension: a repeated eigenvalue key OVERWRITES the earlier count.
   (corrected, summing behaviour:  remap_merge old new := old + new) *)
Definition remap_merge (old new : Z) : Z := old + new.
Fixpoint remap_with (f : Z -> Z -> Z) (ev : list Z) (d : dict) (acc : dict) : option dict :=
  match d with
  | [] => Some acc
  | (inl b, c) :: r => match nth_error ev (Z.to_nat (int2 b)) with
                       | None => None
                       | Some e => remap_with f ev r (dupd f (inr e) c acc)
                       end
  | (inr _, _) :: _ => None
  end.
Definition remap (ev : list Z) (d : dict) : option dict := remap_with remap_merge ev d [].

(* raw bit-string path (self.obs is None and no MeasurementValue) *)
Definition s2c_raw (ao : bool) (ws : list Z) (eig : option (list Z)) (w : nat) (rows : list (list bool)) : option dict :=
  let nwo := if (0 <? length ws)%nat then length ws else w in
  let base := if ao then map (fun i => (inl (bits_of nwo i) : key, 0)) (all_indices nwo) else [] in
  let d := fill base (unique_rows w rows) in
  match eig with None => Some d | Some ev => remap ev d end.
(* eigenvalue path (observable or MeasurementValue): outcomes = self.eigvals() *)
Definition s2c_vals (ao : bool) (ev : list Z) (vals : list Z) : dict :=
  let base := if ao then fold_left (fun d e => dset (inr e) 0 d) ev [] else [] in
  fill base (unique_vals vals).

(* ---- CountsMP.process_samples *)
Definition counts_ps (one : Z) (ao : bool) (o : obsspec) (batched : bool) (order : list Z) (r : option (Z * Z))
           (bin : option Z) (data : list (list (list bool))) : result :=
  let wrap (l : option (list dict)) :=
      match l with None => RErr | Some ds =>
        match bin with Some _ => RDs ds | None => if batched then RDs ds else RD (hd [] ds) end end in
  match o with
  | OWires _ | OEig _ _ =>
      (* dummy_mp = CountsMP(obs=None, wires=self._wires): raw samples *)
      let eig := match o with OEig _ ev => Some ev | _ => None end in
      match prep order (o_wires o) r data with
      | None => RErr
      | Some (d, w) =>
          match bin with
          | None => wrap (map_opt (s2c_raw ao (o_wires o) eig w) d)
          | Some b =>
              if batched then RUnsup else
              (* .T.reshape(w, b, -1) then .reshape(w, -1).T.reshape(-1, b, w): consecutive bins *)
              let rows := hd [] d in
              let n := lenZ rows in
              if (b <=? 0) || negb (n mod b =? 0) then RErr
              else wrap (map_opt (s2c_raw ao (o_wires o) eig w) (chunks (Z.to_nat (n / b)) (Z.to_nat b) rows))
          end
      end
  | _ =>
      match o_eigvals one o with
      | None => RUnsup
      | Some ev =>
          match eig_array one o ev order r bin data with
          | None => RErr
          | Some vals =>
              match bin with
              | None => wrap (Some (map (s2c_vals ao ev) vals))
              | Some b =>
                  if batched then RUnsup else
                  (* (b, -1) then reshape((-1, b)): consecutive bins of the flat array *)
                  let flat := concat vals in
                  wrap (Some (map (s2c_vals ao ev) (chunks (Z.to_nat (lenZ flat / b)) (Z.to_nat b) flat)))
              end
          end
      end
  end.

(* ------------------------------------------------------------------ process_counts *)
Definition cdict := list (list bool * Z).          (* input histogram: bit string -> count *)

(* CountsMP._map_counts *)
Definition map_counts (order ws : list Z) (c : cdict) : option dict :=
  match mapped_wires order ws with
  | None => None
  | Some idxs => Some (fold_left (fun d oc => dadd (inl (select idxs (fst oc))) (snd oc) d) c [])
  end.
Definition remove_unobserved (d : dict) : dict := filter (fun kv => negb (snd kv =? 0)) d.
Definition include_all (nw : nat) (d : dict) : dict :=
  if Z.of_nat (length d) =? 2 ^ Z.of_nat nw then d
  else fold_left (fun d i => let k : key := inl (bits_of nw i) in
                             match dget k d with Some _ => d | None => d ++ [(k, 0)] end) (all_indices nw) d.

Definition key_int (k : key) : option Z := match k with inl b => Some (int2 b) | inr _ => None end.

(* CountsMP(wires=ws / obs / eigvals, all_outcomes=ao).process_counts *)
Definition counts_pc_gen (ao : bool) (ws : list Z) (eig : option (list Z)) (order : list Z) (c : cdict) : option dict :=
  match map_counts order ws c with
  | None => None
  | Some m0 =>
      let m := if ao then include_all (length ws) m0 else remove_unobserved m0 in
      match eig with
      | None => Some m
      | Some ev =>
          let ed := fold_left (fun d e => dset (inr e) 0 d) ev [] in
          let step (acc : option dict) (kv : key * Z) :=
              match acc, key_int (fst kv) with
              | Some d, Some i => match nth_error ev (Z.to_nat i) with
                                  | Some e => Some (dadd (inr e) (snd kv) d)
                                  | None => None end
              | _, _ => None
              end in
          match fold_left step m (Some ed) with
          | None => None
          | Some d => Some (if ao then d else remove_unobserved d)
          end
      end
  end.

(* helper_counts = CountsMP(wires=self.wires, all_outcomes=False): empty wires raise ValueError *)
Definition helper_counts (ws order : list Z) (c : cdict) : option dict :=
  match ws with [] => None | _ => counts_pc_gen false ws None order c end.

(* ProbabilityMP.process_counts: occurrences placed at int(outcome, 2); denominator = total *)
Definition set_nth (i : nat) (v : Z) (l : list Z) : option (list Z) :=
  if (i <? length l)%nat then Some (firstn i l ++ v :: skipn (S i) l) else None.
Definition probs_pc (ws order : list Z) (c : cdict) : option (list Z * Z) :=
  match helper_counts ws order c with
  | None => None
  | Some m =>
      match m with
      | [] => None                                      (* next(iter({})) raises *)
      | (k0, _) :: _ =>
          let nw := match k0 with inl b => length b | inr _ => O end in
          let zeros := map (fun _ => 0) (all_indices nw) in
          let step (acc : option (list Z)) (kv : key * Z) :=
              match acc, key_int (fst kv) with
              | Some v, Some i => set_nth (Z.to_nat i) (snd kv) v
              | _, _ => None end in
          match fold_left step m (Some zeros) with
          | None => None
          | Some v => Some (v, dtotal m)
          end
      end
  end.

Fixpoint dotZ (a b : list Z) : Z := match a, b with x :: r, y :: s => x * y + dotZ r s | _, _ => 0 end.

Inductive kind := KExp | KVar | KProbs | KCounts (ao : bool) | KSample.

Definition process_counts (one : Z) (k : kind) (o : obsspec) (order : list Z) (c : cdict) : result :=
  match k with
  | KCounts ao =>
      match counts_pc_gen ao (o_wires o) (o_eigvals one o) order c with None => RErr | Some d => RD d end
  | KProbs =>
      match probs_pc (o_wires o) order c with None => RErr | Some (v, n) => RQ (tvec v) n end
  | KExp =>
      match o_eigvals one o, probs_pc (o_wires o) order c with
      | Some ev, Some (v, n) =>
          if (length v =? length ev)%nat then RQ (TZ (dotZ v ev)) n else RErr     (* math.dot shape check *)
      | None, _ => RUnsup
      | _, None => RErr
      end
  | KVar =>
      match o_eigvals one o, probs_pc (o_wires o) order c with
      | Some ev, Some (v, n) =>
          if (length v =? length ev)%nat
          then RQ (TZ (n * dotZ v (map (fun e => e * e) ev) - dotZ v ev * dotZ v ev)) (n * n) else RErr
      | None, _ => RUnsup
      | _, None => RErr
      end
  | KSample =>
      match helper_counts (o_wires o) order c with
      | None => RErr
      | Some m =>
          match o_eigvals one o with
          | Some ev =>
              match map_opt (fun kv => match key_int (fst kv) with
                                       | Some i => match nth_error ev (Z.to_nat i) with
                                                   | Some e => Some (repeat e (Z.to_nat (snd kv))) | None => None end
                                       | None => None end) m with
              | None => RErr
              | Some l => RT (tvec (concat l))
              end
          | None =>
              let rows := flat_map (fun kv => match fst kv with
                                              | inl b => repeat (map b2z b) (Z.to_nat (snd kv))
                                              | inr _ => [] end) m in
              if (length (o_wires o) =? 1)%nat then RT (tvec (map (fun r => hd 0 r) rows)) else RT (tmat rows)
          end
      end
  end.

(* ------------------------------------------------------------------ top level *)
Definition process_samples (one : Z) (k : kind) (o : obsspec) (batched : bool) (order : list Z)
           (r : option (Z * Z)) (bin : option Z) (data : list (list (list bool))) : result :=
  match k with
  | KExp => stat_ps sumZ one o batched order r bin data
  | KVar => stat_ps var_num one o batched order r bin data
  | KProbs => probs_ps o batched order r bin data
  | KCounts ao => counts_ps one ao o batched order r bin data
  | KSample => sample_ps one o batched order r bin data
  end.

(* the histogram CountsMP(all_outcomes=ao0).process_samples(samples, wire_order) of an unbatched array *)
Definition full_counts (ao0 : bool) (order : list Z) (rows : list (list bool)) : option cdict :=
  match s2c_raw ao0 [] None (length order) rows with
  | None => None
  | Some d => map_opt (fun kv => match fst kv with inl b => Some (b, snd kv) | inr _ => None end) d
  end.

Record case := mkCase {
  c_one : Z; c_kind : kind; c_obs : obsspec; c_batched : bool; c_data : list (list (list bool));
  c_order : list Z; c_range : option (Z * Z); c_bin : option Z;
  c_pc : option bool          (* Some ao0: mp.process_counts(CountsMP(all_outcomes=ao0).process_samples(s), order) *)
}.

Definition run (c : case) : result :=
  match c_pc c with
  | None => process_samples (c_one c) (c_kind c) (c_obs c) (c_batched c) (c_order c) (c_range c) (c_bin c) (c_data c)
  | Some ao0 =>
      match full_counts ao0 (c_order c) (hd [] (c_data c)) with
      | None => RErr
      | Some h => process_counts (c_one c) (c_kind c) (c_obs c) (c_order c) h
      end
  end.

(* ------------------------------------------------------------------ comparison *)
Definition dict_eq (a b : dict) : bool :=
  (length a =? length b)%nat &&
  forallb (fun kv => match dget (fst kv) b with Some v => v =? snd kv | None => false end) a.
Fixpoint dicts_eq (a b : list dict) : bool :=
  match a, b with [], [] => true | x :: r, y :: s => dict_eq x y && dicts_eq r s | _, _ => false end.

Definition result_eq (a b : result) : bool :=
  match a, b with
  | RErr, RErr => true
  | RQ t n, RQ t' n' => teq t t' && (n =? n')
  | RT t, RT t' => teq t t'
  | RD d, RD d' => dict_eq d d'
  | RDs l, RDs l' => dicts_eq l l'
  | _, _ => false
  end.

Definition check_case (c : case * result) : bool := result_eq (run (fst c)) (snd c).
