(* Invariant proofs for Disc/WireManagerModel.v (property C22). *)
From Coq Require Import List ZArith Bool Lia ZifyBool.
From PLV Require Import Disc.WireManagerModel.
Import ListNotations.
Open Scope Z_scope.

Notation keys l := (map fst l).
Notation vals l := (map snd l).

(* ---------------------------------------------------------------- association lists *)
Section AssocFacts.
  Context {V : Type}.
  Implicit Types l : list (Z * V).

  Lemma aget_In : forall l k v, aget k l = Some v -> In k (keys l).
  Proof.
    induction l as [|[k' v'] r IH]; cbn; intros k v H; [discriminate|].
    destruct (k =? k') eqn:E; [left; lia | right; eapply IH; exact H].
  Qed.

  Lemma aget_val_In : forall l k v, aget k l = Some v -> In v (vals l).
  Proof.
    induction l as [|[k' v'] r IH]; cbn; intros k v H; [discriminate|].
    destruct (k =? k') eqn:E; [left; congruence | right; eapply IH; exact H].
  Qed.

  Lemma aget_notin : forall l k, ~ In k (keys l) -> aget k l = None.
  Proof.
    induction l as [|[k' v'] r IH]; cbn; intros k H; [reflexivity|].
    destruct (k =? k') eqn:E; [exfalso; apply H; left; lia | apply IH; tauto].
  Qed.

  Lemma aremove_notin : forall l k, ~ In k (keys l) -> aremove k l = l.
  Proof.
    induction l as [|[k' v'] r IH]; cbn; intros k H; [reflexivity|].
    destruct (k =? k') eqn:E; [exfalso; apply H; left; lia | f_equal; apply IH; tauto].
  Qed.

  Lemma keys_aremove_in : forall l k x, In x (keys (aremove k l)) -> In x (keys l) /\ x <> k.
  Proof.
    induction l as [|[k' v'] r IH]; cbn; intros k x H; [tauto|].
    destruct (k =? k') eqn:E.
    - apply IH in H. tauto.
    - cbn in H. destruct H as [H|H]; [split; [left; exact H | lia] | apply IH in H; tauto].
  Qed.

  Lemma keys_aremove_keep : forall l k x, In x (keys l) -> x <> k -> In x (keys (aremove k l)).
  Proof.
    induction l as [|[k' v'] r IH]; cbn; intros k x H N; [tauto|].
    destruct (k =? k') eqn:E.
    - destruct H as [H|H]; [exfalso; lia | apply IH; assumption].
    - cbn. destruct H as [H|H]; [left; exact H | right; apply IH; assumption].
  Qed.

  Lemma NoDup_keys_aremove : forall l k, NoDup (keys l) -> NoDup (keys (aremove k l)).
  Proof.
    induction l as [|[k' v'] r IH]; cbn; intros k H; [constructor|].
    inversion H as [|? ? Hn Hr]; subst.
    destruct (k =? k') eqn:E; [apply IH; assumption|].
    cbn. constructor; [|apply IH; assumption]. intro HI. apply keys_aremove_in in HI. tauto.
  Qed.

  Lemma vals_aremove_in : forall l k v, In v (vals (aremove k l)) -> In v (vals l).
  Proof.
    induction l as [|[k' v'] r IH]; cbn; intros k v H; [tauto|].
    destruct (k =? k') eqn:E; [right; eapply IH; exact H|].
    cbn in H. destruct H as [H|H]; [left; exact H | right; eapply IH; exact H].
  Qed.

  Lemma NoDup_vals_aremove : forall l k, NoDup (vals l) -> NoDup (vals (aremove k l)).
  Proof.
    induction l as [|[k' v'] r IH]; cbn; intros k H; [constructor|].
    inversion H as [|? ? Hn Hr]; subst.
    destruct (k =? k') eqn:E; [apply IH; assumption|].
    cbn. constructor; [|apply IH; assumption]. intro HI. apply vals_aremove_in in HI. tauto.
  Qed.

  Lemma vals_aremove_notin : forall l k c, NoDup (vals l) -> aget k l = Some c -> ~ In c (vals (aremove k l)).
  Proof.
    induction l as [|[k' v'] r IH]; cbn; intros k c H G; [discriminate|].
    inversion H as [|? ? Hn Hr]; subst.
    destruct (k =? k') eqn:E.
    - inversion G; subst. intro HI. apply vals_aremove_in in HI. tauto.
    - cbn. intros [HI|HI].
      + subst. apply aget_val_In in G. tauto.
      + eapply IH; eauto.
  Qed.

  Lemma aget_aremove_neq : forall l k k', k <> k' -> aget k (aremove k' l) = aget k l.
  Proof.
    induction l as [|[k0 v0] r IH]; cbn; intros k k' N; [reflexivity|].
    destruct (k' =? k0) eqn:E.
    - rewrite IH by exact N. destruct (k =? k0) eqn:E2; [exfalso; lia | reflexivity].
    - cbn. rewrite IH by exact N. reflexivity.
  Qed.

  Lemma aget_aset_eq : forall l k v, aget k (aset k v l) = Some v.
  Proof. intros; unfold aset; cbn. rewrite Z.eqb_refl. reflexivity. Qed.

  Lemma aget_aset_neq : forall l k k' v, k <> k' -> aget k (aset k' v l) = aget k l.
  Proof.
    intros; unfold aset; cbn. destruct (k =? k') eqn:E; [exfalso; lia|]. apply aget_aremove_neq; exact H.
  Qed.
End AssocFacts.

Lemma memZ_In : forall l k, memZ k l = true <-> In k l.
Proof.
  induction l as [|x r IH]; cbn; intros k; [split; [discriminate | tauto]|].
  rewrite orb_true_iff, IH. split; intros [H|H]; auto; [left; lia | left; lia].
Qed.

Lemma nodupZ_NoDup : forall l, nodupZ l = true -> NoDup l.
Proof.
  induction l as [|x r IH]; cbn; intros H; [constructor|].
  apply andb_true_iff in H as [H1 H2]. constructor; [|auto].
  intro HI. apply memZ_In in HI. rewrite HI in H1. discriminate.
Qed.

Lemma NoDup_app_iff : forall (l1 l2 : list Z),
  NoDup (l1 ++ l2) <-> NoDup l1 /\ NoDup l2 /\ (forall x, In x l1 -> ~ In x l2).
Proof.
  induction l1 as [|a r IH]; cbn; intros l2.
  - split; [intros H; repeat split; [constructor | exact H | tauto] | tauto].
  - split.
    + intros H. inversion H as [|? ? Hn Hr]; subst. apply IH in Hr as (H1 & H2 & H3).
      repeat split; [constructor; [intro; apply Hn; apply in_or_app; tauto | exact H1] | exact H2 |].
      intros x [->|Hx]; [intro; apply Hn; apply in_or_app; tauto | auto].
    + intros (H1 & H2 & H3). inversion H1 as [|? ? Hn Hr]; subst. constructor.
      * intro HI. apply in_app_or in HI as [HI|HI]; [tauto | eapply H3; eauto].
      * apply IH. repeat split; auto.
  Qed.

(* ---------------------------------------------------------------- ghost flags *)
Lemma gget_cons_eq : forall gd g c f, gget gd ((c, f) :: g) c = f.
Proof. intros; unfold gget; cbn. rewrite Z.eqb_refl. reflexivity. Qed.

Lemma gget_cons_neq : forall gd g c f w, w <> c -> gget gd ((c, f) :: g) w = gget gd g w.
Proof. intros; unfold gget; cbn. destruct (w =? c) eqn:E; [exfalso; lia | reflexivity]. Qed.

Lemma gget_cons_zero : forall gd g c w, gget gd g w = FZero -> gget gd ((c, FZero) :: g) w = FZero.
Proof.
  intros. destruct (Z.eq_dec w c) as [->|N]; [apply gget_cons_eq | rewrite gget_cons_neq; auto].
Qed.

Lemma touch_gget : forall gd ws g w, ~ In (St w) ws -> gget gd (touch ws g) w = gget gd g w.
Proof.
  induction ws as [|[c|d] r IH]; cbn [touch]; intros g w H; [reflexivity | |].
  - rewrite gget_cons_neq; [apply IH; intro; apply H; right; assumption |].
    intro; subst; apply H; left; reflexivity.
  - apply IH. intro; apply H; right; assumption.
Qed.

Ltac norm KI :=
  repeat match goal with
  | H : _ \/ _ |- _ => destruct H as [H|H]
  | H : _ /\ _ |- _ => destruct H
  | H : In _ (map fst (aremove _ _)) |- _ => apply KI in H
  end; subst.

(* ---------------------------------------------------------------- the manager invariant *)
Section Inv.
  Variables (z0 a0 : list Z) (mi0 : option Z).

  (* where a concrete wire handed out by the allocator may come from *)
  Definition origin (w : Z) : Prop := In w (z0 ++ a0) \/ (exists m0, mi0 = Some m0 /\ m0 <= w).

  Definition inR (m : mgr) (w : Z) : Prop :=
    In w (zeroed m) \/ In w (anyst m) \/ In w (keys (loaned m)).

  Record minv (g : list (Z * flag)) (gl : list (Z * (flag * bool))) (m : mgr) : Prop := {
    nd_z : NoDup (zeroed m);
    nd_a : NoDup (anyst m);
    nd_l : NoDup (keys (loaned m));
    dj_za : forall w, In w (zeroed m) -> ~ In w (anyst m);
    dj_zl : forall w, In w (zeroed m) -> ~ In w (keys (loaned m));
    dj_al : forall w, In w (anyst m) -> ~ In w (keys (loaned m));
    m_orig : forall w, inR m w -> origin w;
    m_below : forall k, min_int m = Some k -> forall w, inR m w -> w < k;
    m_min : forall k, min_int m = Some k -> exists m0, mi0 = Some m0 /\ m0 <= k;
    m_zero : forall w, In w (zeroed m) -> gget mi0 g w = FZero;
    m_fresh : forall k, min_int m = Some k -> forall w, k <= w -> gget mi0 g w = FZero;
    m_loanz : forall w, aget w (loaned m) = Some RZero -> aget w gl = Some (FZero, true) }.

  Lemma add_new_wire_inv : forall g gl m m', minv g gl m -> add_new_wire m = Some m' ->
    minv g gl m' /\ loaned m' = loaned m.
  Proof.
    intros g gl [z a l mi ar] m' I H. unfold add_new_wire in H; cbn in H.
    destruct mi as [k|]; [|discriminate]. inversion H; subst; clear H. split; [|reflexivity].
    destruct I as [ndz nda ndl za zl al ori bel mn zer fre lz]; cbn in *.
    assert (B : forall w, In w z \/ In w a \/ In w (keys l) -> w < k) by (apply bel; reflexivity).
    constructor; cbn; unfold inR; cbn; auto.
    - constructor; [intro HI; exfalso; assert (k < k) by (apply B; tauto); lia | exact ndz].
    - intros w [<-|Hw]; [intro HI; exfalso; assert (k < k) by (apply B; tauto); lia | auto].
    - intros w [<-|Hw]; [intro HI; exfalso; assert (k < k) by (apply B; tauto); lia | auto].
    - intros w [[<-|Hw]|Hw]; [|apply ori; unfold inR; cbn; tauto..].
      right. destruct (mn k eq_refl) as (m0 & E & L). exists m0; split; [exact E | lia].
    - intros k' E w Hw. inversion E; subst. destruct Hw as [[<-|Hw]|Hw]; [lia | |]; assert (w < k) by (apply B; tauto); lia.
    - intros k' E. inversion E; subst. destruct (mn k eq_refl) as (m0 & E0 & L). exists m0; split; [exact E0 | lia].
    - intros w [<-|Hw]; [apply (fre k eq_refl); lia | auto].
    - intros k' E w Hw. inversion E; subst. apply (fre k eq_refl). lia.
  Qed.

  (* taking the top of the zeroed register *)
  Lemma take_zeroed_inv : forall g gl m rg rst c m' rs,
    minv g gl m -> take_zeroed rg m = Some (c, m', rs) -> (rg = RZero -> rst = true) ->
    rs = false /\ gget mi0 g c = FZero /\ origin c /\ ~ In c (keys (loaned m)) /\
    keys (loaned m') = c :: keys (loaned m) /\ min_int m' = min_int m /\
    minv g (aset c (gget mi0 g c, rst) gl) m'.
  Proof.
    intros g gl [z a l mi ar] rg rst c m' rs I H R. unfold take_zeroed in H; cbn in H.
    destruct z as [|w z']; [discriminate|]. inversion H; subst; clear H.
    destruct I as [ndz nda ndl za zl al ori bel mn zer fre lz]; cbn in *.
    assert (Nl : ~ In c (keys l)) by (apply zl; left; reflexivity).
    assert (Zc : gget mi0 g c = FZero) by (apply zer; left; reflexivity).
    inversion ndz as [|? ? Nz ndz']; subst.
    assert (AS : aset c rg l = (c, rg) :: l) by (unfold aset; rewrite (aremove_notin l c Nl); reflexivity).
    rewrite AS, ?(aremove_notin l c Nl).
    split; [reflexivity|]. split; [exact Zc|]. split; [apply ori; unfold inR; cbn; tauto|].
    split; [exact Nl|]. split; [reflexivity|]. split; [reflexivity|].
    constructor; cbn; unfold inR; cbn; auto.
    - constructor; assumption.
    - intros w Hw [<-|HI]; [tauto | eapply zl; eauto].
    - intros w Hw [<-|HI]; [eapply za; [left; reflexivity | exact Hw] | eapply al; eauto].
    - intros w Hw. apply ori. unfold inR; cbn. tauto.
    - intros k E w Hw. apply (bel k E). unfold inR; cbn. tauto.
    - intros w. destruct (w =? c) eqn:E; intros Hw.
      + inversion Hw; subst. rewrite Zc, (R eq_refl). reflexivity.
      + rewrite aget_aremove_neq by lia. auto.
  Qed.

  (* taking the top of the any-state register, possibly with an emitted reset *)
  Lemma take_any_inv : forall g gl m rg rst (rs : bool) c m' rs',
    minv g gl m -> take_any rg rs m = Some (c, m', rs') -> (rg = RZero -> rst = true /\ rs = true) ->
    let g' := if rs then (c, FZero) :: g else g in
    rs' = rs /\ origin c /\ ~ In c (keys (loaned m)) /\
    keys (loaned m') = c :: keys (loaned m) /\ min_int m' = min_int m /\
    minv g' (aset c (gget mi0 g' c, rst) gl) m'.
  Proof.
    intros g gl [z a l mi ar] rg rst rs c m' rs' I H R g'. unfold take_any in H; cbn in H.
    destruct a as [|w a']; [discriminate|]. inversion H; subst; clear H.
    destruct I as [ndz nda ndl za zl al ori bel mn zer fre lz]; cbn in *.
    assert (Nl : ~ In c (keys l)) by (apply al; left; reflexivity).
    assert (Mono : forall w, gget mi0 g w = FZero -> gget mi0 g' w = FZero).
    { intros w Hw. subst g'. destruct rs'; [apply gget_cons_zero|]; exact Hw. }
    inversion nda as [|? ? Na nda']; subst.
    assert (AS : aset c rg l = (c, rg) :: l) by (unfold aset; rewrite (aremove_notin l c Nl); reflexivity).
    rewrite AS, ?(aremove_notin l c Nl).
    split; [reflexivity|]. split; [apply ori; unfold inR; cbn; tauto|].
    split; [exact Nl|]. split; [reflexivity|]. split; [reflexivity|].
    constructor; cbn; unfold inR; cbn; auto.
    - constructor; assumption.
    - intros w Hw HI. eapply za; [exact Hw | right; exact HI].
    - intros w Hw [<-|HI]; [eapply za; [exact Hw | left; reflexivity] | eapply zl; eauto].
    - intros w Hw [<-|HI]; [tauto | eapply al; eauto].
    - intros w Hw. apply ori. unfold inR; cbn. tauto.
    - intros k E w Hw. apply (bel k E). unfold inR; cbn. tauto.
    - intros k E w Hw. apply Mono. eapply fre; eauto.
    - intros w. destruct (w =? c) eqn:E; intros Hw.
      + inversion Hw; subst.
        destruct (R eq_refl) as [-> ->]. subst g'. rewrite gget_cons_eq. reflexivity.
      + rewrite aget_aremove_neq by lia. auto.
  Qed.

  Lemma reg_of_zero : forall r, reg_of r = RZero -> r = true.
  Proof. destruct r; [reflexivity | discriminate]. Qed.

  Lemma get_wire_inv : forall g gl m s rst c m' rs,
    minv g gl m -> get_wire s rst m = Some (c, m', rs) ->
    let g' := if rs then (c, FZero) :: g else g in
    origin c /\ ~ In c (keys (loaned m)) /\ keys (loaned m') = c :: keys (loaned m) /\
    (s = AZero -> gget mi0 g' c = FZero) /\
    minv g' (aset c (gget mi0 g' c, rst) gl) m'.
  Proof.
    intros g gl m s rst c m' rs I H g'. unfold get_wire in H.
    assert (exists m1, minv g gl m1 /\ loaned m1 = loaned m /\
              match s with AZero => get_zeroed rst m1 | AAny => get_any rst m1 | AMagic => None end = Some (c, m', rs))
      as (m1 & I1 & L1 & H1).
    { destruct (is_nil (zeroed m) && is_nil (anyst m)).
      - destruct (add_new_wire m) as [m1|] eqn:A; [|discriminate].
        destruct (add_new_wire_inv g gl m m1 I A). exists m1; auto.
      - exists m; auto. }
    clear H I. rewrite <- L1. clear L1 m. rename m1 into m, I1 into I.
    destruct s; [| |discriminate].
    - (* zero requested *)
      unfold get_zeroed in H1. destruct (zeroed m) as [|w0 zr] eqn:EZ.
      + destruct (allow_resets m).
        * destruct (take_any_inv g gl m (reg_of rst) rst true c m' rs I H1) as (-> & O & N & K & _ & MI).
          { intro E; split; [apply reg_of_zero; exact E | reflexivity]. }
          subst g'. refine (conj O (conj N (conj K (conj _ MI)))). intros _. apply gget_cons_eq.
        * destruct (add_new_wire m) as [m1|] eqn:A; [|discriminate].
          destruct (add_new_wire_inv g gl m m1 I A) as [I1 L1].
          destruct (take_zeroed_inv g gl m1 (reg_of rst) rst c m' rs I1 H1 (reg_of_zero rst))
            as (-> & Zc & O & N & K & _ & MI).
          subst g'. rewrite <- L1. refine (conj O (conj N (conj K (conj _ MI)))). intros _; exact Zc.
      + destruct (take_zeroed_inv g gl m (reg_of rst) rst c m' rs I H1 (reg_of_zero rst))
          as (-> & Zc & O & N & K & _ & MI).
        subst g'. refine (conj O (conj N (conj K (conj _ MI)))). intros _; exact Zc.
    - (* any state requested *)
      unfold get_any in H1. destruct (anyst m) as [|w0 ar] eqn:EA.
      + destruct (take_zeroed_inv g gl m (reg_of rst) rst c m' rs I H1 (reg_of_zero rst))
          as (-> & Zc & O & N & K & _ & MI).
        subst g'. refine (conj O (conj N (conj K (conj _ MI)))). intro E; discriminate E.
      + destruct (take_any_inv g gl m RAny rst false c m' rs I H1) as (-> & O & N & K & _ & MI).
        { discriminate. }
        subst g'. refine (conj O (conj N (conj K (conj _ MI)))). intro E; discriminate E.
  Qed.

  (* ---------------------------------------------------------------- the invariant of _new_ops *)
  Record inv (x : st) : Prop := {
    i_mgr : minv (ghost x) (gloan x) (mg x);
    i_gdef : gdef x = mi0;
    i_wm_keys : NoDup (keys (wmap x));
    i_wm_vals : NoDup (vals (wmap x));
    i_wm_loaned : forall c, In c (vals (wmap x)) -> In c (keys (loaned (mg x)));
    i_ev_zero : Forall (fun e => ev_zero_ok e = true) (events x);
    i_ev_origin : Forall (fun e => match e with EvAlloc _ c _ _ => origin c end) (events x) }.

  Lemma alloc_one_inv : forall s rst d x x', inv x -> alloc_one s rst d x = Some x' -> inv x'.
  Proof.
    intros s rst d x x' I H. unfold alloc_one in H.
    destruct (get_wire s rst (mg x)) as [[[c m'] rs]|] eqn:G; [|discriminate].
    inversion H; subst; clear H.
    destruct I as [IM GD WK WV WL EZ EO].
    destruct (get_wire_inv _ _ _ _ _ _ _ _ IM G) as (O & N & K & Z & MI).
    rewrite GD in *.
    constructor; cbn; auto.
    - unfold aset; cbn. constructor; [|apply NoDup_keys_aremove; exact WK].
      intro HI. apply keys_aremove_in in HI. tauto.
    - unfold aset; cbn. constructor; [|apply NoDup_vals_aremove; exact WV].
      intro HI. apply vals_aremove_in in HI. apply WL in HI. tauto.
    - rewrite K. unfold aset; cbn. intros c' [<-|HI]; [left; reflexivity|].
      right. apply WL. eapply vals_aremove_in; eauto.
    - constructor; [|exact EZ]. cbn. destruct s; try reflexivity. rewrite (Z eq_refl). reflexivity.
  Qed.

  Lemma return_wire_inv : forall g gl m c m', minv g gl m -> return_wire c m = Some m' ->
    In c (keys (loaned m)) /\ loaned m' = aremove c (loaned m) /\
    minv (match aget c gl with Some (f, true) => (c, f) :: g | _ => g end) (aremove c gl) m'.
  Proof.
    intros g gl [z a l mi ar] c m' I H. unfold return_wire, apop in H; cbn in H.
    destruct (aget c l) as [rg|] eqn:G; [|discriminate].
    assert (Hc : In c (keys l)) by (eapply aget_In; eauto).
    destruct I as [ndz nda ndl za zl al ori bel mn zer fre lz]; cbn in *.
    assert (Bc : forall k, mi = Some k -> c < k) by (intros k E; apply (bel k E); unfold inR; cbn; tauto).
    assert (Nz : ~ In c z) by (intro HI; eapply zl; eauto).
    assert (Na : ~ In c a) by (intro HI; eapply al; eauto).
    set (g' := match aget c gl with Some (f, true) => (c, f) :: g | _ => g end).
    assert (Keep : forall w, w <> c -> gget mi0 g' w = gget mi0 g w).
    { intros w Nw. subst g'. destruct (aget c gl) as [[f [|]]|]; try reflexivity. apply gget_cons_neq; exact Nw. }
    assert (LZ : forall w, aget w (aremove c l) = Some RZero -> aget w (aremove c gl) = Some (FZero, true)).
    { intros w Hw. assert (w <> c).
      { intro; subst. apply aget_In in Hw. apply keys_aremove_in in Hw. tauto. }
      rewrite aget_aremove_neq in Hw by assumption. rewrite aget_aremove_neq by assumption. auto. }
    assert (KI : forall w, In w (keys (aremove c l)) -> In w (keys l) /\ w <> c) by (intros; apply keys_aremove_in; assumption).
    destruct rg; inversion H; subst; clear H; (split; [exact Hc|]); (split; [reflexivity|]);
      constructor; cbn; unfold inR; cbn; auto using NoDup_keys_aremove.
    all: try (constructor; assumption).
    all: try (intros w Hw HI; norm KI; first [tauto | eapply za; eassumption | eapply zl; eassumption | eapply al; eassumption]).
    all: try (intros w Hw; apply ori; unfold inR; cbn; norm KI; tauto).
    all: try (intros k E w Hw; specialize (bel k E); specialize (Bc k E); clear E; norm KI;
              first [assumption | apply bel; unfold inR; cbn; tauto]).
    all: try (intros k E w Hw; rewrite Keep; [eauto | specialize (Bc k E); lia]).
    - intros w [<-|Hw].
      + specialize (lz c G). subst g'. rewrite lz. apply gget_cons_eq.
      + rewrite Keep; [auto | intro; subst; tauto].
    - intros w Hw. rewrite Keep; [auto | intro; subst; tauto].
  Qed.

  Lemma dealloc_one_inv : forall d x x', inv x -> dealloc_one d x = Some x' -> inv x'.
  Proof.
    intros d x x' I H. unfold dealloc_one, apop in H.
    destruct (aget d (wmap x)) as [c|] eqn:G; [|discriminate].
    destruct (return_wire c (mg x)) as [m'|] eqn:Rw; [|discriminate].
    inversion H; subst; clear H.
    destruct I as [IM GD WK WV WL EZ EO].
    destruct (return_wire_inv _ _ _ _ _ IM Rw) as (Hc & L & MI).
    constructor; cbn; auto.
    - apply NoDup_keys_aremove; exact WK.
    - apply NoDup_vals_aremove; exact WV.
    - intros c' HI. rewrite L. apply keys_aremove_keep.
      + apply WL. eapply vals_aremove_in; eauto.
      + intro; subst. eapply vals_aremove_notin; eauto.
  Qed.

  Lemma fold_opt_inv : forall {A} (f : A -> st -> option st) (P : A -> Prop),
    (forall a x x', P a -> inv x -> f a x = Some x' -> inv x') ->
    forall l x x', Forall P l -> inv x -> fold_opt f l x = Some x' -> inv x'.
  Proof.
    intros A f P Hf. induction l as [|a r IH]; cbn; intros x x' HP I H.
    - inversion H; subst; exact I.
    - inversion HP; subst. destruct (f a x) as [x1|] eqn:E; [|discriminate]. eauto.
  Qed.

  Lemma fold_opt_inv0 : forall {A} (f : A -> st -> option st),
    (forall a x x', inv x -> f a x = Some x' -> inv x') ->
    forall l x x', inv x -> fold_opt f l x = Some x' -> inv x'.
  Proof.
    intros A f Hf l x x' I H.
    apply (fold_opt_inv f (fun _ => True)) with (l := l) (x := x);
      [intros a y y' _ Iy Hy; eapply Hf; eassumption | apply Forall_forall; intros; exact Logic.I | exact I | exact H].
  Qed.

  (* hypothesis on the static part of the circuit: its labels were not handed to the allocator *)
  Definition static_fine (w : Z) : Prop := ~ origin w.
  Definition op_fine (o : op) : Prop := Forall static_fine (statics_op o).

  Lemma mapped_wire_cases : forall wm ws c, In (St c) (map (map_wire wm) ws) ->
    In c (statics_ws ws) \/ In c (vals wm).
  Proof.
    induction ws as [|[s|d] r IH]; cbn; intros c H; [tauto | |].
    - destruct H as [H|H]; [inversion H; auto | destruct (IH _ H); auto].
    - destruct H as [H|H]; [|destruct (IH _ H); auto].
      destruct (aget d wm) as [c'|] eqn:G; [|discriminate]. inversion H; subst.
      right. eapply aget_val_In; eauto.
  Qed.

  Lemma step_inv : forall o x x', op_fine o -> inv x -> step o x = Some x' -> inv x'.
  Proof.
    intros [ds s r|ds|code ws] x x' F I H; cbn in H.
    - destruct s; try discriminate;
        (eapply fold_opt_inv0; [|exact I|exact H]); intros; eapply alloc_one_inv; eauto.
    - (eapply fold_opt_inv0; [|exact I|exact H]); intros; eapply dealloc_one_inv; eauto.
    - destruct (map_gate (wmap x) (dealloc x) ws) as [ws'|] eqn:M; [|discriminate].
      inversion H; subst; clear H.
      assert (W : ws' = map (map_wire (wmap x)) ws).
      { unfold map_gate in M. destruct (_ && _); [discriminate|]. destruct (uses_dealloc _ _); [discriminate|].
        inversion M; reflexivity. }
      destruct I as [IM GD WK WV WL EZ EO]. constructor; cbn; auto.
      destruct IM as [ndz nda ndl za zl al ori bel mn zer fre lz].
      assert (T : forall c, In (St c) ws' -> ~ origin c \/ In c (keys (loaned (mg x)))).
      { intros c HI. rewrite W in HI. apply mapped_wire_cases in HI as [HI|HI]; [left | right; auto].
        unfold op_fine in F; cbn in F. rewrite Forall_forall in F. apply F; exact HI. }
      constructor; auto.
      + intros w Hw. rewrite touch_gget; [auto|]. intro HI. apply T in HI as [HI|HI].
        * apply HI. apply ori. unfold inR; tauto.
        * eapply zl; eauto.
      + intros k E w Hw. rewrite touch_gget; [eauto|]. intro HI. apply T in HI as [HI|HI].
        * apply HI. right. destruct (mn k E) as (m0 & E0 & L). exists m0; split; [exact E0 | lia].
        * assert (w < k) by (apply (bel k E); unfold inR; tauto). lia.
  Qed.

  Lemma steps_inv : forall prog x x', Forall op_fine prog -> inv x -> steps prog x = Some x' -> inv x'.
  Proof. intros prog x x' F I H. eapply (fold_opt_inv step op_fine); eauto using step_inv. Qed.

  Lemma steps_app : forall p q x x', steps (p ++ q) x = Some x' ->
    exists y, steps p x = Some y /\ steps q y = Some x'.
  Proof.
    unfold steps. induction p as [|o r IH]; cbn; intros q x x' H; [eauto|].
    destruct (step o x) as [x1|]; [eauto | discriminate].
  Qed.
End Inv.

(* ---------------------------------------------------------------- the initial state *)
Lemma forallb_In : forall {A} (f : A -> bool) l x, forallb f l = true -> In x l -> f x = true.
Proof. intros A f l x H HI. rewrite forallb_forall in H. auto. Qed.

Lemma pre_ok_facts : forall z a mi prog meas, pre_ok z a mi prog meas = true ->
  NoDup (z ++ a) /\ (forall w, In w (z ++ a) -> below mi w = true) /\
  Forall (op_fine z a mi) prog /\ Forall (Forall (static_fine z a mi)) (map statics_ws meas).
Proof.
  intros z a mi prog meas H. unfold pre_ok in H.
  apply andb_true_iff in H as [H H3]. apply andb_true_iff in H as [H1 H2].
  assert (SF : forall w, In w (statics prog meas) -> static_fine z a mi w).
  { intros w Hw. pose proof (forallb_In _ _ _ H3 Hw) as S. unfold static_ok in S.
    apply andb_true_iff in S as [S1 S2]. intros [O|(m0 & E & L)].
    - apply memZ_In in O. rewrite O in S1. discriminate.
    - subst. cbn in S2. lia. }
  repeat split.
  - apply nodupZ_NoDup; exact H1.
  - intros w Hw. eapply forallb_In; eauto.
  - apply Forall_forall. intros o Ho. unfold op_fine. apply Forall_forall. intros w Hw. apply SF.
    unfold statics. apply in_or_app. left. apply in_flat_map. eauto.
  - apply Forall_forall. intros l Hl. apply in_map_iff in Hl as (ws & <- & Hws).
    apply Forall_forall. intros w Hw. apply SF.
    unfold statics. apply in_or_app. right. apply in_flat_map. eauto.
Qed.

Lemma gget_init_zero : forall mi z w, In w z -> gget mi (map (fun w => (w, FZero)) z) w = FZero.
Proof.
  intros mi z w H. unfold gget.
  assert (aget w (map (fun w => (w, FZero)) z) = Some FZero) as ->; [|reflexivity].
  induction z as [|x r IH]; cbn; [destruct H|].
  destruct (w =? x) eqn:E; [reflexivity|]. destruct H as [H|H]; [exfalso; lia | auto].
Qed.

Lemma gget_init_fresh : forall m0 z w, (forall x, In x z -> x < m0) -> m0 <= w ->
  gget (Some m0) (map (fun w => (w, FZero)) z) w = FZero.
Proof.
  intros m0 z w B L. unfold gget.
  destruct (aget w (map (fun w => (w, FZero)) z)) as [f|] eqn:G.
  - apply aget_val_In in G. apply in_map_iff in G as ([k v] & E & HI). cbn in E. subst.
    apply in_map_iff in HI as (y & E2 & _). inversion E2; subst. reflexivity.
  - destruct (m0 <=? w) eqn:E; [reflexivity | lia].
Qed.

Lemma init_inv : forall z a mi ar, NoDup (z ++ a) -> (forall w, In w (z ++ a) -> below mi w = true) ->
  inv z a mi (init z a mi ar).
Proof.
  intros z a mi ar ND B. apply NoDup_app_iff in ND as (Nz & Na & D).
  constructor; cbn; try constructor; cbn; unfold inR; cbn; auto.
  - apply NoDup_rev; exact Nz.
  - apply NoDup_rev; exact Na.
  - constructor.
  - intros w Hw HI. apply in_rev in Hw, HI. eapply D; eauto.
  - intros w [Hw|[Hw|[]]]; apply in_rev in Hw; left; apply in_or_app; tauto.
  - intros k -> w Hw. assert (In w (z ++ a)) as HI.
    { apply in_or_app. destruct Hw as [Hw|[Hw|[]]]; apply in_rev in Hw; tauto. }
    apply B in HI. cbn in HI. lia.
  - intros k ->. exists k. split; [reflexivity | lia].
  - intros w Hw. apply in_rev in Hw. apply gget_init_zero; exact Hw.
  - intros k -> w L. apply gget_init_fresh; [|exact L].
    intros x Hx. assert (In x (z ++ a)) as HI by (apply in_or_app; tauto). apply B in HI. cbn in HI. lia.
  - intros; discriminate.
Qed.

(* every state reachable from a configuration meeting the precondition satisfies the invariant *)
Lemma reach_inv : forall z a mi ar prog meas x, pre_ok z a mi prog meas = true ->
  steps prog (init z a mi ar) = Some x -> inv z a mi x.
Proof.
  intros z a mi ar prog meas x P H. destruct (pre_ok_facts _ _ _ _ _ P) as (ND & B & F & _).
  eapply steps_inv; eauto. apply init_inv; assumption.
Qed.

(* ---------------------------------------------------------------- the four statements *)
Lemma inv_disjoint_lemma : forall z a mi ar prog meas x, pre_ok z a mi prog meas = true ->
  steps prog (init z a mi ar) = Some x ->
  NoDup (zeroed (mg x) ++ anyst (mg x) ++ map fst (loaned (mg x))) /\
  Forall (fun s => ~ In s (zeroed (mg x) ++ anyst (mg x) ++ map fst (loaned (mg x)))) (statics prog meas).
Proof.
  intros z a mi ar prog meas x P H. pose proof (reach_inv _ _ _ _ _ _ _ P H) as I.
  destruct I as [[ndz nda ndl za zl al ori bel mn zer fre lz] _ _ _ _ _ _]. split.
  - apply NoDup_app_iff. repeat split; [exact ndz | | ].
    + apply NoDup_app_iff. repeat split; auto.
    + intros w Hw HI. apply in_app_or in HI as [HI|HI]; [eapply za | eapply zl]; eauto.
  - apply Forall_forall. intros s Hs HI.
    unfold pre_ok in P. apply andb_true_iff in P as [_ P3].
    pose proof (forallb_In _ _ _ P3 Hs) as S. unfold static_ok in S. apply andb_true_iff in S as [S1 S2].
    assert (O : origin z a mi s).
    { apply ori. unfold inR, keys. apply in_app_or in HI as [HI|HI]; [tauto|]. apply in_app_or in HI; tauto. }
    destruct O as [O|(m0 & E & L)].
    + apply memZ_In in O. rewrite O in S1. discriminate.
    + subst. cbn in S2. lia.
Qed.

Lemma no_alias_lemma : forall z a mi ar prog meas x, pre_ok z a mi prog meas = true ->
  steps prog (init z a mi ar) = Some x ->
  forall d1 d2 c, aget d1 (wmap x) = Some c -> aget d2 (wmap x) = Some c -> d1 = d2.
Proof.
  intros z a mi ar prog meas x P H. pose proof (reach_inv _ _ _ _ _ _ _ P H) as I.
  destruct I as [_ _ WK WV _ _ _]. revert WK WV. generalize (wmap x) as wm.
  induction wm as [|[k v] r IH]; cbn; intros WK WV d1 d2 c H1 H2; [discriminate|].
  inversion WK; inversion WV; subst.
  destruct (d1 =? k) eqn:E1, (d2 =? k) eqn:E2.
  - lia.
  - inversion H1; subst. apply aget_val_In in H2. tauto.
  - inversion H2; subst. apply aget_val_In in H1. tauto.
  - eauto.
Qed.

Lemma never_on_static_lemma : forall z a mi ar prog meas x, pre_ok z a mi prog meas = true ->
  steps prog (init z a mi ar) = Some x ->
  (forall d c, aget d (wmap x) = Some c ->
     (In c (z ++ a) \/ exists m0, mi = Some m0 /\ m0 <= c) /\ ~ In c (statics prog meas)) /\
  Forall (fun e => match e with EvAlloc _ c _ _ =>
     (In c (z ++ a) \/ exists m0, mi = Some m0 /\ m0 <= c) /\ ~ In c (statics prog meas) end) (events x).
Proof.
  intros z a mi ar prog meas x P H. pose proof (reach_inv _ _ _ _ _ _ _ P H) as I.
  assert (NS : forall c, origin z a mi c -> ~ In c (statics prog meas)).
  { intros c O Hs. unfold pre_ok in P. apply andb_true_iff in P as [_ P3].
    pose proof (forallb_In _ _ _ P3 Hs) as S. unfold static_ok in S. apply andb_true_iff in S as [S1 S2].
    destruct O as [O|(m0 & E & L)].
    - apply memZ_In in O. rewrite O in S1. discriminate.
    - subst. cbn in S2. lia. }
  destruct I as [IM _ _ _ WL _ EO]. split.
  - intros d c G. assert (O : origin z a mi c).
    { apply (m_orig _ _ _ _ _ _ IM). right; right. apply WL. eapply aget_val_In; eauto. }
    split; [exact O | auto].
  - eapply Forall_impl; [|exact EO]. intros [d c s f] O. split; [exact O | auto].
Qed.

Lemma zero_on_request_lemma : forall z a mi ar prog meas x, pre_ok z a mi prog meas = true ->
  steps prog (init z a mi ar) = Some x ->
  forall d c f, In (EvAlloc d c AZero f) (events x) -> f = FZero.
Proof.
  intros z a mi ar prog meas x P H d c f HI. pose proof (reach_inv _ _ _ _ _ _ _ P H) as I.
  destruct I as [_ _ _ _ _ EZ _]. rewrite Forall_forall in EZ. specialize (EZ _ HI).
  destruct f; [reflexivity | discriminate].
Qed.

(* a single-wire allocation made in any reachable state: the wire handed out, what is emitted, its flag *)
Lemma alloc_step_lemma : forall z a mi ar prog meas x s rst d x', pre_ok z a mi prog meas = true ->
  steps prog (init z a mi ar) = Some x -> alloc_one s rst d x = Some x' ->
  exists c, aget d (wmap x') = Some c /\
    ~ In c (map snd (wmap x)) /\                                  (* not the wire of any live dynamic wire *)
    (s = AZero -> gget (gdef x') (ghost x') c = FZero) /\          (* |0> when zero was requested *)
    (out x' = out x \/ out x' = (RESET, [St c]) :: out x).
Proof.
  intros z a mi ar prog meas x s rst d x' P H A. pose proof (reach_inv _ _ _ _ _ _ _ P H) as I.
  unfold alloc_one in A. destruct (get_wire s rst (mg x)) as [[[c m'] rs]|] eqn:G; [|discriminate].
  inversion A; subst; clear A. cbn [wmap gdef ghost out].
  destruct I as [IM GD _ _ WL _ _].
  destruct (get_wire_inv _ _ _ _ _ _ _ _ _ _ _ IM G) as (O & N & K & Z & MI).
  exists c. rewrite aget_aset_eq. split; [reflexivity|].
  split; [intro HI; apply WL in HI; tauto|]. split; [rewrite GD; exact Z|]. destruct rs; auto.
Qed.

(* the device entry point establishes the precondition by itself *)
Lemma fold_max_ge : forall l x, In x l -> x <= fold_right Z.max (-1) l.
Proof.
  induction l as [|y r IH]; cbn; intros x H; [tauto|].
  destruct H as [->|H]; [lia | specialize (IH _ H); lia].
Qed.

Lemma forallb_intro : forall {A} (f : A -> bool) l, (forall x, In x l -> f x = true) -> forallb f l = true.
Proof. intros; apply forallb_forall; assumption. Qed.

Lemma NoDup_nodupZ : forall l, NoDup l -> nodupZ l = true.
Proof.
  induction 1 as [|x r Hn Hr IH]; cbn; [reflexivity|]. rewrite IH, andb_true_r.
  destruct (memZ x r) eqn:E; [apply memZ_In in E; tauto | reflexivity].
Qed.

Lemma device_pre_lemma : forall dw prog meas z mi, NoDup (match dw with Some l => l | None => [] end) ->
  dev_registers dw prog meas = (z, mi) -> pre_ok z [] mi prog meas = true.
Proof.
  intros dw prog meas z mi ND H. unfold dev_registers in H.
  assert (Else : ([] : list Z, Some (fold_right Z.max (-1) (statics prog meas) + 1)) = (z, mi) ->
                 pre_ok z [] mi prog meas = true).
  { intros E; inversion E; subst. unfold pre_ok; cbn.
    apply forallb_intro. intros x Hx. unfold static_ok; cbn. pose proof (fold_max_ge _ _ Hx). lia. }
  destruct dw as [[|w r]|]; auto. cbn in ND.
  remember (w :: r) as l eqn:EL. clear EL Else.
  inversion H; subst; clear H. unfold pre_ok. rewrite app_nil_r.
  set (sw := statics prog meas). set (fl := filter (fun x => negb (memZ x sw)) l).
  rewrite NoDup_nodupZ by (apply NoDup_rev, NoDup_filter; exact ND). cbn [andb].
  rewrite forallb_intro by reflexivity. cbn [andb].
  apply forallb_intro. intros x Hx. unfold static_ok. rewrite app_nil_r. cbn [below]. rewrite andb_true_r.
  destruct (memZ x (rev fl)) eqn:E; [|reflexivity].
  apply memZ_In in E. apply in_rev in E. subst fl. apply filter_In in E as [_ E].
  assert (memZ x sw = true) as M by (apply memZ_In; exact Hx). rewrite M in E. discriminate.
Qed.

(* the precondition of a program is inherited by every prefix: the statements hold after every step *)
Lemma pre_ok_prefix : forall z a mi p q meas, pre_ok z a mi (p ++ q) meas = true -> pre_ok z a mi p meas = true.
Proof.
  intros z a mi p q meas H. unfold pre_ok in *.
  apply andb_true_iff in H as [H H3]. rewrite H. cbn [andb].
  apply forallb_intro. intros x Hx. eapply forallb_In; [exact H3|].
  unfold statics in *. apply in_app_or in Hx as [Hx|Hx]; apply in_or_app; [left | right; exact Hx].
  apply in_flat_map in Hx as (o & Ho & Hx). apply in_flat_map. exists o. split; [apply in_or_app; left; exact Ho | exact Hx].
Qed.

Lemma every_step_lemma : forall z a mi ar p q meas x', pre_ok z a mi (p ++ q) meas = true ->
  steps (p ++ q) (init z a mi ar) = Some x' ->
  exists y, steps p (init z a mi ar) = Some y /\ steps q y = Some x' /\ pre_ok z a mi p meas = true.
Proof.
  intros z a mi ar p q meas x' P H. apply steps_app in H as (y & H1 & H2).
  exists y. repeat split; auto. eapply pre_ok_prefix; eauto.
Qed.

Lemma resolve_runs_steps : forall z a mi ar prog meas r, resolve z a mi ar prog meas = Some r ->
  exists x, steps prog (init z a mi ar) = Some x.
Proof.
  intros z a mi ar prog meas r H. unfold resolve in H.
  destruct (steps prog (init z a mi ar)) as [x|]; [eauto | discriminate].
Qed.
