(* Index-level / classical models of the control logic of PennyLane subroutine templates (property C58):
   Permute (templates/subroutines/permute.py), Select (select.py, non-partial multi-control rule), QROM
   (qrom.py: layout of the data table over Select rows x swap-network slots, controlled-swap network),
   FlipSign (flip_sign.py), ControlledSequence (controlled_sequence.py).
   No proofs here: this file must keep running for the correspondence check even when a proof breaks. *)
From Coq Require Import List ZArith Bool Arith.
Import ListNotations.

(* ------------------------------------------------------------------ generic list helpers *)
Fixpoint upd {A} (i : nat) (v : A) (l : list A) : list A :=
  match l, i with
  | [], _ => []
  | _ :: r, O => v :: r
  | x :: r, S k => x :: upd k v r
  end.

(* a, b = l[i], l[j]; l[i], l[j] = b, a *)
Definition swap_pos {A} (d : A) (i j : nat) (l : list A) : list A :=
  let a := nth i l d in let b := nth j l d in upd j a (upd i b l).

Definition apply_swaps {A} (d : A) (sw : list (nat * nat)) (l : list A) : list A :=
  fold_left (fun acc p => swap_pos d (fst p) (snd p) acc) sw l.

(* list.index(x) (first occurrence; length l if absent -- Python raises, never reached for valid input) *)
Fixpoint find_idx (x : Z) (l : list Z) : nat :=
  match l with [] => O | y :: r => if Z.eqb y x then O else S (find_idx x r) end.

(* ------------------------------------------------------------------ Permute.compute_decomposition / _permute_decomposition
   working_order = wires.tolist()
   for idx_here, here in enumerate(permutation):
       if working_order[idx_here] != here:
           idx_there = working_order.index(permutation[idx_here]); SWAP(wires.subset([idx_here, idx_there]))
           working_order[idx_here], working_order[idx_there] = working_order[idx_there], working_order[idx_here]
   result: (list of SWAP position pairs, final working order) *)
Fixpoint permute_go (perm : list Z) (idx : nat) (working : list Z) : list (nat * nat) * list Z :=
  match perm with
  | [] => ([], working)
  | here :: rest =>
      if Z.eqb (nth idx working 0%Z) here then permute_go rest (S idx) working
      else let j := find_idx here working in
           let r := permute_go rest (S idx) (swap_pos 0%Z idx j working) in
           ((idx, j) :: fst r, snd r)
  end.

Definition permute_swaps (wires perm : list Z) : list (nat * nat) := fst (permute_go perm 0 wires).
Definition permute_final (wires perm : list Z) : list Z := snd (permute_go perm 0 wires).
(* the SWAP gates as emitted: wire labels wires[idx_here], wires[idx_there] *)
Definition permute_swap_labels (wires perm : list Z) : list (Z * Z) :=
  map (fun p => (nth (fst p) wires 0%Z, nth (snd p) wires 0%Z)) (permute_swaps wires perm).

(* ------------------------------------------------------------------ Select (non-partial): itertools.product([0,1], repeat=c) zipped with ops *)
Fixpoint product01 (c : nat) : list (list bool) :=
  match c with
  | O => [[]]
  | S c' => map (cons false) (product01 c') ++ map (cons true) (product01 c')
  end.

Fixpoint zip {A B} (l : list A) (m : list B) : list (A * B) :=
  match l, m with a :: l', b :: m' => (a, b) :: zip l' m' | _, _ => [] end.

(* the decomposition: one controlled operator per (state, op) pair *)
Definition select_branches {A} (c : nat) (ops : list A) : list (list bool * A) := zip (product01 c) ops.

Fixpoint bits_eqb (u v : list bool) : bool :=
  match u, v with
  | [], [] => true
  | a :: u', b :: v' => Bool.eqb a b && bits_eqb u' v'
  | _, _ => false
  end.

(* which operators act when the control register holds `ctrl` (first control wire first) *)
Definition select_fired {A} (c : nat) (ops : list A) (ctrl : list bool) : list A :=
  map snd (filter (fun p => bits_eqb (fst p) ctrl) (select_branches c ops)).

(* big-endian binary encoding of k on c bits (first control wire = most significant), and back *)
Fixpoint be_bits (c : nat) (k : nat) : list bool :=
  match c with
  | O => []
  | S c' => Nat.leb (2 ^ c') (k mod 2 ^ (S c')) :: be_bits c' k
  end.
Fixpoint be_val (l : list bool) : nat :=
  match l with [] => O | b :: r => (if b then 2 ^ length r else 0) + be_val r end.

(* ------------------------------------------------------------------ QROM layout (qrom.py: _new_ops / _select_ops / _swap_ops)
   ops_identity_new = bitstrings padded (with identities = None) to 2^c entries;
   row i (the i-th Select operator) holds entry i*depth + j in swap-network slot j *)
Definition qrom_padded {A} (c : nat) (data : list A) : list (option A) :=
  map Some data ++ repeat None (2 ^ c - length data).
Definition qrom_ncols (m depth : nat) : nat := if Nat.eqb (m mod depth) 0 then m / depth else m / depth + 1.
Definition qrom_row {A} (c depth : nat) (data : list A) (i : nat) : list (option A) :=
  map (fun j => nth (i * depth + j) (qrom_padded c data) None) (seq 0 depth).
Definition qrom_rows {A} (c depth : nat) (data : list A) : list (list (option A)) :=
  map (qrom_row c depth data) (seq 0 (qrom_ncols (length data) depth)).

(* _swap_ops: for i in range(s-1,-1,-1): for j in range(2^i-1,-1,-1): CSWAP(control_swap_wires[-i-1]; slot j, slot j+2^i)
   emitted as (index of the control wire among control_swap_wires, slot j, slot j + 2^i) *)
Fixpoint down_from (n : nat) : list nat := match n with O => [] | S k => k :: down_from k end.   (* n-1, ..., 0 *)
Definition swapnet_level (s i : nat) : list (nat * nat * nat) :=
  map (fun j => (s - 1 - i, j, j + 2 ^ i)) (down_from (2 ^ i)).
Definition swapnet (s : nat) : list (nat * nat * nat) := flat_map (swapnet_level s) (down_from s).
(* action on the slots when the swap-control bits are q (first swap-control wire first) *)
Definition swapnet_run {A} (d : A) (s : nat) (q : list bool) (slots : list A) : list A :=
  fold_left (fun acc t => match t with (cw, a, b) => if nth cw q false then swap_pos d a b acc else acc end) (swapnet s) slots.

(* what QROM loads into the target for address k (c control bits, the last s of them drive the swap network, depth = 2^s):
   Select picks row (k / depth), the swap network moves slot (k mod depth) to slot 0 *)
Definition qrom_loaded {A} (c s : nat) (data : list A) (k : nat) : option A :=
  let depth := 2 ^ s in
  let row := qrom_row c depth data (k / depth) in
  nth 0 (swapnet_run None s (be_bits s (k mod depth)) row) None.

(* ------------------------------------------------------------------ FlipSign rule: X on the last wire iff state[-1] = 0, Z controlled on state[:-1] *)
Definition flipsign_fires (state inp : list bool) : bool :=
  let ctrl_vals := removelast state in
  let lastb := last state true in
  let inp_ctrl := removelast inp in
  let inp_last := last inp true in
  (* after the optional X the target bit is inp_last xor (not lastb); Z gives -1 iff that bit is 1 and the controls match *)
  bits_eqb ctrl_vals inp_ctrl && (if lastb then inp_last else negb inp_last).

(* ------------------------------------------------------------------ ControlledSequence: powers_of_two = [2**i for i in range(n)];
   for z, ctrl_wire in zip(powers_of_two[::-1], control_wires): pow(ctrl(base, ctrl_wire), z) *)
Definition powers_of_two (n : nat) : list Z := map (fun i => (2 ^ Z.of_nat i)%Z) (seq 0 n).
Definition ctrlseq_exponents (n : nat) : list Z := rev (powers_of_two n).

(* ------------------------------------------------------------------ correspondence with traces recorded from the implementation *)
Fixpoint list_eqb {A} (e : A -> A -> bool) (a b : list A) : bool :=
  match a, b with
  | [], [] => true
  | x :: a', y :: b' => e x y && list_eqb e a' b'
  | _, _ => false
  end.
Definition opt_eqb {A} (e : A -> A -> bool) (a b : option A) : bool :=
  match a, b with None, None => true | Some x, Some y => e x y | _, _ => false end.
Definition zpair_eqb (a b : Z * Z) : bool := Z.eqb (fst a) (fst b) && Z.eqb (snd a) (snd b).
Definition triple_eqb (a b : nat * nat * nat) : bool :=
  match a, b with (a1, a2, a3), (b1, b2, b3) => Nat.eqb a1 b1 && Nat.eqb a2 b2 && Nat.eqb a3 b3 end.

Inductive tcase :=
| TPermute (wires perm : list Z) (swaps : list (Z * Z)) (final_ok : bool)
| TSelect (c K : nat) (states : list (list bool))
| TCtrlSeq (n : nat) (exps : list Z)
| TFlipSign (state : list bool) (signs : list bool)
| TQromRows (c depth : nat) (data : list (list bool)) (rows : list (list (option (list bool))))
| TSwapNet (s : nat) (triples : list (nat * nat * nat))
| TQromLoad (c s : nat) (data : list (list bool)) (loaded : list (option (list bool))).

Definition check_case (t : tcase) : bool :=
  match t with
  | TPermute wires perm swaps final_ok =>
      list_eqb zpair_eqb (permute_swap_labels wires perm) swaps
      && Bool.eqb (list_eqb Z.eqb (permute_final wires perm) perm) final_ok
  | TSelect c K states => list_eqb (list_eqb Bool.eqb) (map fst (select_branches c (seq 0 K))) states
  | TCtrlSeq n exps => list_eqb Z.eqb (ctrlseq_exponents n) exps
  | TFlipSign state signs =>
      list_eqb Bool.eqb (map (fun k => flipsign_fires state (be_bits (length state) k)) (seq 0 (2 ^ length state))) signs
  | TQromRows c depth data rows =>
      list_eqb (list_eqb (opt_eqb (list_eqb Bool.eqb))) (qrom_rows c depth data) rows
  | TSwapNet s triples => list_eqb triple_eqb (swapnet s) triples
  | TQromLoad c s data loaded =>
      list_eqb (opt_eqb (list_eqb Bool.eqb)) (map (qrom_loaded c s data) (seq 0 (2 ^ c))) loaded
  end.
