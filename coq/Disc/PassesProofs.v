(* Lemmas about the pass drivers of Disc/PassesModel.v over an ABSTRACT circuit semantics:
   a monoid (G, mul, e) up to an equivalence `equ` (exact equality of unitaries, or equality up to a global
   phase), a denotation `sem : gate -> G`, and exactly the algebraic facts each pass relies on. *)
From Coq Require Import List ZArith Bool Lia Setoid Morphisms.
From PLV Require Import Disc.PassesModel.
Import ListNotations.
Open Scope Z_scope.

(* ------------------------------------------------------------------ list facts *)
Lemma find_next_gate_split ws l i :
  find_next_gate ws l = Some i ->
  exists pre ng post, l = pre ++ ng :: post /\ length pre = i /\ nth_error l i = Some ng /\
    remove_nth i l = pre ++ post /\ shares ws (gwires ng) = true /\
    Forall (fun g => shares ws (gwires g) = false) pre.
Proof.
  revert i. induction l as [|g r IH]; intros i H; cbn in H; [discriminate|].
  destruct (shares ws (gwires g)) eqn:Hs.
  - inversion H; subst. exists [], g, r. cbn. repeat split; auto.
  - destruct (find_next_gate ws r) as [j|] eqn:Hf; [|discriminate]. inversion H; subst.
    destruct (IH j eq_refl) as (pre & ng & post & -> & Hl & Hn & Hr & Hsh & Hall).
    exists (g :: pre), ng, post. cbn. repeat split; auto; try congruence.
Qed.

Lemma find_next_gate_none ws l :
  find_next_gate ws l = None -> Forall (fun g => shares ws (gwires g) = false) l.
Proof.
  induction l as [|g r IH]; intros H; cbn in H; [constructor|].
  destruct (shares ws (gwires g)) eqn:Hs; [discriminate|].
  destruct (find_next_gate ws r); [discriminate|]. constructor; auto.
Qed.

Lemma remove_nth_length i l ng : nth_error l i = Some ng -> length l = S (length (remove_nth i l)).
Proof.
  revert i; induction l as [|x r IH]; intros [|i] H; cbn in *; try discriminate; auto.
Qed.

Lemma list_eqb_eq a b : list_eqb a b = true -> a = b.
Proof.
  revert b; induction a as [|x a IH]; intros [|y b] H; cbn in H; try discriminate; auto.
  apply andb_true_iff in H as [H1 H2]. apply Z.eqb_eq in H1. subst. f_equal; auto.
Qed.

Lemma check_eq_true a b : check_eq a b = Some true -> a = b.
Proof.
  revert b; induction a as [|x a IH]; intros [|y b] H; cbn in H; try discriminate; auto.
  destruct (x =? y) eqn:E; [|discriminate]. apply Z.eqb_eq in E. subst. f_equal; auto.
Qed.

Lemma check_eq_same_length a b : length a = length b -> check_eq a b <> None.
Proof.
  revert b; induction a as [|x a IH]; intros [|y b] H; cbn in *; try discriminate.
  destruct (x =? y); [apply IH; lia|discriminate].
Qed.

Lemma last_l_length a : length (last_l a) = (if Nat.eqb (length a) 0 then 0 else 1)%nat.
Proof.
  unfold last_l. destruct a as [|x a]; cbn; auto.
  destruct (rev a ++ [x]) eqn:E; cbn; auto.
  apply (f_equal (@length Z)) in E. rewrite app_length in E. cbn in E. lia.
Qed.

Lemma Forall_remove_nth (P : gate -> Prop) i l : Forall P l -> Forall P (remove_nth i l).
Proof.
  revert i; induction l as [|x r IH]; intros [|i] H; cbn; auto; inversion H; subst; auto.
Qed.

(* ------------------------------------------------------------------ the abstract semantics *)
Section Sem.
  Variable Gm : Type.
  Variable equ : Gm -> Gm -> Prop.
  Variable mul : Gm -> Gm -> Gm.
  Variable e : Gm.
  Variable sem : gate -> Gm.
  Context {equ_equiv : Equivalence equ} {mul_proper : Proper (equ ==> equ ==> equ) mul}.
  Infix "==" := equ (at level 70).
  Infix "*" := mul.
  Hypothesis mul_assoc : forall a b c, (a * b) * c == a * (b * c).
  Hypothesis mul_e_l : forall a, e * a == a.
  Hypothesis mul_e_r : forall a, a * e == a.

  (* ordered product of a circuit: first gate leftmost (read "then") *)
  Fixpoint prod (l : list gate) : Gm := match l with [] => e | g :: r => sem g * prod r end.

  Lemma prod_app a b : prod (a ++ b) == prod a * prod b.
  Proof.
    induction a as [|g a IH]; cbn.
    - now rewrite mul_e_l.
    - rewrite IH. now rewrite mul_assoc.
  Qed.

  (* (H_comm) gates on disjoint wires commute *)
  Hypothesis H_comm : forall g h, shares (gwires g) (gwires h) = false -> sem g * sem h == sem h * sem g.

  Lemma comm_through ws (x : gate) pre : gwires x = ws ->
    Forall (fun g => shares ws (gwires g) = false) pre -> sem x * prod pre == prod pre * sem x.
  Proof.
    intros Hw. induction pre as [|g r IH]; intros HF; cbn.
    - now rewrite mul_e_l, mul_e_r.
    - inversion HF; subst. rewrite <- mul_assoc. rewrite (H_comm x g) by assumption.
      rewrite mul_assoc. rewrite IH by assumption. now rewrite mul_assoc.
  Qed.

  (* ================================================================ cancel_inverses *)
  Variable ar : Z -> nat.                       (* arity of each (fixed-arity) operator name *)
  Definition wf (g : gate) : Prop := length (gwires g) = ar (gname g).

  (* (H_inv) self-inverse names; (H_adj) Adjoint is a two-sided inverse;
     (H_symall) / (H_symctrl) invariance under the wire permutations named by the attribute sets *)
  Hypothesis H_inv : forall n w a a', self_inverse n = true -> sem (G n false w a) * sem (G n false w a') == e.
  Hypothesis H_adj_r : forall n w a, sem (G n false w a) * sem (G n true w a) == e.
  Hypothesis H_adj_l : forall n w a, sem (G n true w a) * sem (G n false w a) == e.
  Hypothesis H_symall : forall n b w w' a, sym_all n = true -> length w = length w' ->
    num_shared w w' = length w -> sem (G n b w a) == sem (G n b w' a).
  Hypothesis H_symctrl : forall n b w w' a, sym_ctrl n = true -> length w = length w' ->
    num_shared w w' = length w -> last_l w = last_l w' -> sem (G n b w a) == sem (G n b w' a).

  Lemma gate_eta g : g = G (gname g) (gadj g) (gwires g) (gparam g).
  Proof. now destruct g. Qed.

  (* the wire relation accepted by _can_cancel identifies the two denotations *)
  Definition wire_rel (n : Z) (w w' : list Z) : Prop :=
    w = w' \/ (length w = length w' /\ num_shared w w' = length w /\
               (sym_all n = true \/ (sym_ctrl n = true /\ last_l w = last_l w'))).

  Lemma wire_rel_sem n b w w' a : wire_rel n w w' -> sem (G n b w a) == sem (G n b w' a).
  Proof.
    intros [->|(Hl & Hs & [Ha|[Hc Hlast]])]; [reflexivity| |].
    - now apply H_symall.
    - now apply H_symctrl.
  Qed.

  Lemma can_cancel_sound g h : wf g -> wf h -> can_cancel g h = Some true -> sem g * sem h == e.
  Proof.
    unfold can_cancel, wf. intros Wg Wh H.
    destruct (gadj g) eqn:Ag.
    - (* g is the Adjoint: op1 := h, op2 := g *)
      destruct (are_inverses h g) eqn:AI; [|discriminate].
      unfold are_inverses in AI. rewrite Ag in AI. cbn in AI.
      rewrite andb_false_r in AI. cbn in AI. unfold ops_equal_base in AI.
      apply andb_true_iff in AI as [AI Hp]. apply andb_true_iff in AI as [Hh Hn].
      apply negb_true_iff in Hh. apply Z.eqb_eq in Hn, Hp.
      assert (Hlen : length (gwires h) = length (gwires g)) by (rewrite Wg, Wh, Hn; reflexivity).
      assert (WR : wire_rel (gname h) (gwires h) (gwires g)).
      { revert H. destruct (check_eq (gwires h) (gwires g)) as [[|]|] eqn:CE; [intros _; left; now apply check_eq_true| |discriminate].
        destruct (Nat.eqb (num_shared (gwires h) (gwires g)) (length (gwires h))) eqn:NS; cbn [negb]; [|discriminate].
        apply Nat.eqb_eq in NS.
        destruct (sym_all (gname h)) eqn:SA; [intros _; right; repeat split; auto|].
        destruct (sym_ctrl (gname h)) eqn:SC; [|discriminate].
        intros H. right. repeat split; auto. right. split; [exact SC|]. now apply check_eq_true. }
      rewrite (gate_eta g), (gate_eta h). rewrite Ag, Hh, Hn, Hp.
      rewrite (wire_rel_sem (gname h) false _ _ (gparam h) WR). apply H_adj_l.
    - (* op1 := g, op2 := h *)
      destruct (are_inverses g h) eqn:AI; [|discriminate].
      unfold are_inverses in AI. rewrite Ag in AI. cbn in AI.
      apply orb_true_iff in AI.
      assert (Hn : gname g = gname h /\ ((gadj h = false /\ self_inverse (gname g) = true) \/ (gadj h = true /\ gparam h = gparam g))).
      { destruct AI as [AI|AI].
        - apply andb_true_iff in AI as [AI Hn]. apply andb_true_iff in AI as [Hs Hh].
          apply negb_true_iff in Hh. apply Z.eqb_eq in Hn. split; [exact Hn|left; auto].
        - apply andb_true_iff in AI as [Hh AI]. unfold ops_equal_base in AI. rewrite Ag in AI. cbn in AI.
          apply andb_true_iff in AI as [Hn Hp]. apply Z.eqb_eq in Hn, Hp. split; [now symmetry|right; auto]. }
      destruct Hn as [Hn Hcase].
      assert (Hlen : length (gwires g) = length (gwires h)) by (rewrite Wg, Wh, Hn; reflexivity).
      assert (WR : wire_rel (gname g) (gwires g) (gwires h)).
      { revert H. destruct (check_eq (gwires g) (gwires h)) as [[|]|] eqn:CE; [intros _; left; now apply check_eq_true| |discriminate].
        destruct (Nat.eqb (num_shared (gwires g) (gwires h)) (length (gwires g))) eqn:NS; cbn [negb]; [|discriminate].
        apply Nat.eqb_eq in NS.
        destruct (sym_all (gname g)) eqn:SA; [intros _; right; repeat split; auto|].
        destruct (sym_ctrl (gname g)) eqn:SC; [|discriminate].
        intros H. right. repeat split; auto. right. split; [exact SC|]. now apply check_eq_true. }
      destruct Hcase as [[Hh Hs]|[Hh Hp]].
      + rewrite (gate_eta g), (gate_eta h). rewrite Ag, Hh, <- Hn.
        rewrite <- (wire_rel_sem (gname g) false _ _ (gparam h) WR). now apply H_inv.
      + rewrite (gate_eta g), (gate_eta h). rewrite Ag, Hh, <- Hn, Hp.
        rewrite <- (wire_rel_sem (gname g) true _ _ (gparam g) WR). apply H_adj_r.
  Qed.

  Lemma can_cancel_total g h : wf g -> wf h -> can_cancel g h <> None.
  Proof.
    unfold can_cancel, wf. intros Wg Wh.
    assert (K : forall a b, wf a -> wf b -> gname a = gname b ->
      match check_eq (gwires a) (gwires b) with
      | None => None
      | Some true => Some true
      | Some false =>
          if negb (Nat.eqb (num_shared (gwires a) (gwires b)) (length (gwires a))) then Some false
          else if sym_all (gname a) then Some true
          else if sym_ctrl (gname a) then check_eq (last_l (gwires a)) (last_l (gwires b))
          else Some false
      end <> None).
    { unfold wf. intros a b Wa Wb Hn.
      assert (Hl : length (gwires a) = length (gwires b)) by (rewrite Wa, Wb, Hn; reflexivity).
      pose proof (check_eq_same_length _ _ Hl) as C.
      destruct (check_eq (gwires a) (gwires b)) as [[|]|]; try discriminate; [|congruence].
      destruct (negb _); [discriminate|]. destruct (sym_all _); [discriminate|]. destruct (sym_ctrl _); [|discriminate].
      apply check_eq_same_length. rewrite !last_l_length, Hl. reflexivity. }
    assert (N : forall a b, are_inverses a b = true -> gname a = gname b).
    { intros a b AI. unfold are_inverses, ops_equal_base in AI. apply orb_true_iff in AI as [AI|AI].
      - apply andb_true_iff in AI as [_ Hn]. now apply Z.eqb_eq in Hn.
      - apply andb_true_iff in AI as [_ AI]. apply andb_true_iff in AI as [AI _]. apply andb_true_iff in AI as [_ Hn].
        apply Z.eqb_eq in Hn. now symmetry. }
    destruct (gadj g).
    - destruct (are_inverses h g) eqn:AI; [|discriminate]. apply K; auto.
    - destruct (are_inverses g h) eqn:AI; [|discriminate]. apply K; auto.
  Qed.

  Lemma Forall_wf_split pre ng post : Forall wf (pre ++ ng :: post) -> Forall wf pre /\ wf ng /\ Forall wf post.
  Proof.
    intros H. apply Forall_app in H as [H1 H2]. inversion H2; subst. auto.
  Qed.

  (* _try_to_cancel_with_next on well-formed gates: never raises; a cancellation preserves the product *)
  Lemma try_cancel_spec cur l : wf cur -> Forall wf l ->
    try_cancel cur l = Ok (l, false) \/
    (exists l', try_cancel cur l = Ok (l', true) /\ sem cur * prod l == prod l' /\ Forall wf l' /\ length l = S (length l')).
  Proof.
    intros Wc Wl. unfold try_cancel.
    destruct (find_next_gate (gwires cur) l) as [i|] eqn:F; [|left; reflexivity].
    destruct (find_next_gate_split _ _ _ F) as (pre & ng & post & El & Hl & Hn & Hr & Hs & Hall).
    rewrite Hn. subst l. destruct (Forall_wf_split _ _ _ Wl) as (Wpre & Wng & Wpost).
    pose proof (can_cancel_total cur ng Wc Wng) as T.
    destruct (can_cancel cur ng) as [[|]|] eqn:C; [right|left; reflexivity|contradiction].
    exists (remove_nth i (pre ++ ng :: post)). split; [reflexivity|]. rewrite Hr. split; [|split].
    - rewrite prod_app. cbn [prod].
      rewrite <- mul_assoc. rewrite (comm_through (gwires cur) cur pre eq_refl Hall).
      rewrite mul_assoc. rewrite <- (mul_assoc (sem cur)).
      rewrite (can_cancel_sound cur ng Wc Wng C). rewrite mul_e_l. symmetry. apply prod_app.
    - apply Forall_app. split; assumption.
    - rewrite !app_length. cbn. lia.
  Qed.

  Lemma prod_rev_cons top acc : prod (rev (top :: acc)) == prod (rev acc) * sem top.
  Proof. cbn [rev]. rewrite prod_app. cbn [prod]. now rewrite mul_e_r. Qed.

  Lemma unwind_spec acc : forall l, Forall wf acc -> Forall wf l ->
    exists acc' l', unwind acc l = Ok (acc', l') /\ prod (rev acc) * prod l == prod (rev acc') * prod l' /\
                    Forall wf acc' /\ Forall wf l' /\ (length l' <= length l)%nat.
  Proof.
    induction acc as [|top acc IH]; intros l Wa Wl.
    - exists [], l. cbn. repeat split; auto. reflexivity.
    - inversion Wa; subst. cbn [unwind].
      destruct (try_cancel_spec top l H1 Wl) as [E|(l1 & E & Hp & W1 & Hlen)]; rewrite E.
      + exists (top :: acc), l. repeat split; auto. reflexivity.
      + destruct (IH l1 H2 W1) as (acc' & l' & E' & Hp' & Wa' & Wl' & Hle).
        exists acc', l'. rewrite E'. repeat split; auto; [|lia].
        rewrite prod_rev_cons. rewrite mul_assoc. rewrite Hp. exact Hp'.
  Qed.

  (* the main loop: result, semantics and totality at once *)
  Lemma ci_loop_spec recursive : forall fuel acc l, Forall wf acc -> Forall wf l -> (length l < fuel)%nat ->
    exists out, ci_loop fuel recursive acc l = Ok out /\ prod out == prod (rev acc) * prod l /\ Forall wf out.
  Proof.
    induction fuel as [|f IH]; intros acc l Wa Wl Hf; [lia|].
    destruct l as [|cur rest]; cbn [ci_loop].
    - exists (rev acc). cbn [prod]. split; [reflexivity|]. split; [now rewrite mul_e_r|]. now apply Forall_rev.
    - inversion Wl; subst. cbn [length] in Hf.
      destruct (try_cancel_spec cur rest H1 H2) as [E|(l1 & E & Hp & W1 & Hlen)]; rewrite E.
      + destruct (IH (cur :: acc) rest) as (out & Eo & Ho & Wo); [now constructor|assumption|lia|].
        exists out. split; [exact Eo|]. split; [|exact Wo]. rewrite Ho. rewrite prod_rev_cons. cbn [prod]. now rewrite mul_assoc.
      + destruct recursive.
        * destruct (unwind_spec acc l1 Wa W1) as (acc' & l' & E' & Hp' & Wa' & Wl' & Hle). rewrite E'.
          destruct (IH acc' l' Wa' Wl') as (out & Eo & Ho & Wo); [lia|].
          exists out. split; [exact Eo|]. split; [|exact Wo]. rewrite Ho, <- Hp'. cbn [prod]. now rewrite Hp.
        * destruct (IH acc l1 Wa W1) as (out & Eo & Ho & Wo); [lia|].
          exists out. split; [exact Eo|]. split; [|exact Wo]. rewrite Ho. cbn [prod]. now rewrite Hp.
  Qed.

  Theorem cancel_inverses_total_sem recursive l : Forall wf l ->
    exists out, cancel_inverses recursive l = Ok out /\ prod out == prod l.
  Proof.
    intros W. destruct (ci_loop_spec recursive (S (length l)) [] l) as (out & E & H & _); [constructor|assumption|lia|].
    exists out. split; [exact E|]. rewrite H. cbn. now rewrite mul_e_l.
  Qed.

  (* ================================================================ merge_rotations *)
  Variable is_zero : Z -> bool.
  Variable included : Z -> bool.
  (* (H_rot) angles of composable rotations on equal wires add; (H_zero) a rotation by a (numerically) zero angle is the identity *)
  Hypothesis H_rot : forall n w a b, composable n = true -> sem (G n false w a) * sem (G n false w b) == sem (G n false w (a + b)).
  Hypothesis H_zero : forall n w a, composable n = true -> is_zero a = true -> sem (G n false w a) == e.
  Hypothesis H_adjrot : forall n w a, composable n = true -> sem (G n true w a) == sem (G n false w (- a)).

  Lemma mr_inner_spec cur : composable (gname cur) = true ->
    forall fuel cum cancel rest, (cancel = true -> is_zero cum = true) -> (length rest < fuel)%nat ->
    exists cum' cancel' rest', mr_inner is_zero fuel cur cum cancel rest = Ok (cum', cancel', rest') /\
      sem (with_param cur cum) * prod rest == sem (with_param cur cum') * prod rest' /\
      (cancel' = true -> is_zero cum' = true) /\ (length rest' <= length rest)%nat.
  Proof.
    intros Hc. induction fuel as [|f IH]; intros cum cancel rest Hz Hf; [lia|]. cbn [mr_inner].
    destruct (find_next_gate (gwires cur) rest) as [i|] eqn:F.
    2:{ exists cum, cancel, rest. repeat split; auto. reflexivity. }
    destruct (find_next_gate_split _ _ _ F) as (pre & ng & post & El & Hl & Hn & Hr & Hs & Hall).
    rewrite Hn.
    destruct (same_type cur ng && list_eqb (gwires cur) (gwires ng)) eqn:ST.
    2:{ exists cum, cancel, rest. repeat split; auto. reflexivity. }
    apply andb_true_iff in ST as [ST Hw]. unfold same_type in ST. apply andb_true_iff in ST as [Ha Hnm].
    apply negb_true_iff in Ha. apply Z.eqb_eq in Hnm. apply list_eqb_eq in Hw.
    assert (Eng : ng = G (gname cur) false (gwires cur) (gparam ng)).
    { rewrite (gate_eta ng) at 1. now rewrite Ha, <- Hnm, <- Hw. }
    destruct (IH (cum + gparam ng) (is_zero (cum + gparam ng)) (remove_nth i rest)) as (cum' & cancel' & rest' & E & Hp & Hz' & Hle).
    { auto. }
    { rewrite (remove_nth_length i rest ng Hn) in Hf. lia. }
    exists cum', cancel', rest'. split; [exact E|]. split; [|split; [exact Hz'|]].
    - rewrite <- Hp. rewrite Hr. subst rest. rewrite !prod_app. cbn [prod].
      rewrite <- !mul_assoc.
      rewrite (comm_through (gwires cur) (with_param cur cum) pre eq_refl Hall).
      rewrite (comm_through (gwires cur) (with_param cur (cum + gparam ng)) pre eq_refl Hall).
      rewrite !mul_assoc. rewrite <- (mul_assoc (sem (with_param cur cum))).
      rewrite Eng at 1. unfold with_param. rewrite (H_rot _ _ _ _ Hc). cbn [gparam]. reflexivity.
    - rewrite (remove_nth_length i rest ng Hn). lia.
  Qed.

  Lemma mr_loop_spec : forall fuel l, (length l < fuel)%nat ->
    exists out, mr_loop is_zero included fuel l = Ok out /\ prod out == prod l.
  Proof.
    induction fuel as [|f IH]; intros l Hf; [lia|]. destruct l as [|cur rest]; cbn [mr_loop].
    - exists []. split; reflexivity.
    - cbn [length] in Hf.
      destruct (negb (included (gname cur)) || negb (composable (gname cur) && negb (gadj cur))) eqn:C.
      + destruct (IH rest) as (o & E & H); [lia|]. rewrite E. exists (cur :: o). split; [reflexivity|]. cbn [prod]. now rewrite H.
      + apply orb_false_iff in C as [_ C]. apply negb_false_iff in C. apply andb_true_iff in C as [Hc Ha].
        apply negb_true_iff in Ha.
        destruct (mr_inner_spec cur Hc (S (length rest)) (gparam cur) false rest) as (cum & cancel & rest' & E & Hp & Hz & Hle);
          [discriminate|lia|]. rewrite E.
        destruct (IH rest') as (o & Eo & Ho); [lia|]. rewrite Eo.
        assert (Ecur : cur = with_param cur (gparam cur)).
        { unfold with_param. rewrite (gate_eta cur) at 1. now rewrite Ha. }
        exists (if cancel then o else with_param cur cum :: o). split; [reflexivity|].
        cbn [prod]. rewrite Ecur at 2. rewrite Hp.
        destruct cancel.
        * unfold with_param. rewrite (H_zero _ _ _ Hc (Hz eq_refl)). rewrite mul_e_l. exact Ho.
        * cbn [prod]. now rewrite Ho.
  Qed.

  Lemma expand_adj_sem l : prod (map expand_adj l) == prod l.
  Proof.
    induction l as [|g r IH]; cbn [map prod]; [reflexivity|]. rewrite IH.
    unfold expand_adj. destruct (gadj g && composable (gname g)) eqn:C; [|reflexivity].
    apply andb_true_iff in C as [Ha Hc]. apply mul_proper; [|reflexivity].
    rewrite <- (H_adjrot _ _ _ Hc). rewrite <- Ha. rewrite <- gate_eta. reflexivity.
  Qed.

  Theorem merge_rotations_total_sem l :
    exists out, merge_rotations is_zero included l = Ok out /\ prod out == prod l.
  Proof.
    unfold merge_rotations, merge_rotations_core.
    destruct (mr_loop_spec (S (length (map expand_adj l))) (map expand_adj l)) as (o & E & H); [lia|].
    exists o. split; [exact E|]. rewrite H. apply expand_adj_sem.
  Qed.

  (* ================================================================ remove_barrier *)
  Hypothesis H_bar : forall g, is_barrier g = true -> sem g == e.

  Theorem remove_barrier_sem l : prod (remove_barrier l) == prod l.
  Proof.
    induction l as [|g r IH]; cbn; [reflexivity|]. destruct (is_barrier g) eqn:B; cbn.
    - rewrite (H_bar g B). now rewrite mul_e_l.
    - now rewrite IH.
  Qed.

  (* ================================================================ combine_global_phases *)
  (* (H_gp) a GlobalPhase denotes the same as the wire-less one with its angle; it is central; angles add *)
  Hypothesis H_gp_norm : forall g, is_gphase g = true -> sem g == sem (gphase_gate (gparam g)).
  Hypothesis H_gp_central : forall a x, sem (gphase_gate a) * x == x * sem (gphase_gate a).
  Hypothesis H_gp_add : forall a b, sem (gphase_gate a) * sem (gphase_gate b) == sem (gphase_gate (a + b)).

  Definition phase_of (has : bool) (phi : Z) : Gm := if has then sem (gphase_gate phi) else e.

  Lemma cgp_loop_sem : forall l acc phi has, (has = false -> phi = 0) ->
    prod (cgp_loop l acc phi has) == (prod (rev acc) * phase_of has phi) * prod l.
  Proof.
    induction l as [|g r IH]; intros acc phi has H0; cbn [cgp_loop prod].
    - rewrite mul_e_r. destruct has; cbn [phase_of].
      + rewrite prod_rev_cons. reflexivity.
      + now rewrite mul_e_r.
    - destruct (is_gphase g) eqn:Gp.
      + rewrite IH by discriminate. cbn [phase_of]. rewrite (H_gp_norm g Gp).
        rewrite !mul_assoc. apply mul_proper; [reflexivity|]. rewrite <- mul_assoc. apply mul_proper; [|reflexivity].
        destruct has; cbn [phase_of].
        * symmetry. apply H_gp_add.
        * rewrite (H0 eq_refl). cbn [Z.add]. now rewrite mul_e_l.
      + rewrite IH by assumption. rewrite prod_rev_cons. rewrite !mul_assoc. apply mul_proper; [reflexivity|].
        rewrite <- !mul_assoc. apply mul_proper; [|reflexivity].
        destruct has; cbn [phase_of].
        * symmetry. apply H_gp_central.
        * now rewrite mul_e_l, mul_e_r.
  Qed.

  Theorem combine_global_phases_sem l : prod (combine_global_phases l) == prod l.
  Proof.
    unfold combine_global_phases. rewrite cgp_loop_sem by reflexivity. cbn. now rewrite !mul_e_l.
  Qed.
End Sem.

(* ------------------------------------------------------------------ structural facts (no semantics needed) *)
Lemma remove_barrier_no_barrier l : Forall (fun g => is_barrier g = false) (remove_barrier l).
Proof.
  unfold remove_barrier. apply Forall_forall. intros g Hg. apply filter_In in Hg as [_ H]. now apply negb_true_iff in H.
Qed.

Definition sum_gphase (l : list gate) : Z := fold_right (fun g a => if is_gphase g then gparam g + a else a) 0 l.

Lemma cgp_loop_shape : forall l acc phi has,
  cgp_loop l acc phi has =
    rev acc ++ filter (fun g => negb (is_gphase g)) l ++
    (if has || existsb is_gphase l then [gphase_gate (phi + sum_gphase l)] else []).
Proof.
  induction l as [|g r IH]; intros acc phi has; cbn [cgp_loop filter existsb sum_gphase fold_right].
  - rewrite orb_false_r, Z.add_0_r. destruct has; cbn [rev]; [reflexivity|now rewrite app_nil_r].
  - destruct (is_gphase g) eqn:Gp; cbn [negb].
    + rewrite IH. cbn [orb]. rewrite orb_true_r. fold (sum_gphase r). now rewrite Z.add_assoc.
    + rewrite IH. cbn [rev orb]. fold (sum_gphase r). rewrite <- app_assoc. reflexivity.
Qed.

(* the output is the non-phase gates in order, followed by exactly one GlobalPhase carrying the summed angle iff the input had one *)
Lemma combine_global_phases_shape l :
  combine_global_phases l = filter (fun g => negb (is_gphase g)) l ++
                            (if existsb is_gphase l then [gphase_gate (sum_gphase l)] else []).
Proof. unfold combine_global_phases. now rewrite cgp_loop_shape. Qed.

(* the acceptance clause is REFUTED for variable-arity operators: a well-formed pair on which the driver raises, and one
   on which it cancels two operators of different arity (28 = MultiRZ) *)
Lemma cancel_inverses_raises_witness :
  cancel_inverses true [G 28 false [0; 1] 5; G 28 true [0; 1; 2] 5] = Raised.
Proof. vm_compute. reflexivity. Qed.
Lemma cancel_inverses_arity_mismatch_witness :
  cancel_inverses true [G 28 false [0; 1] 5; G 28 true [1; 0; 2] 5] = Ok [].
Proof. vm_compute. reflexivity. Qed.

(* ------------------------------------------------------------------ non-vacuity: a concrete semantics satisfying every hypothesis
   (the additive group Z; a gate denotes its signed angle if it is a composable rotation or a GlobalPhase, 0 otherwise) *)
Definition angle_sem (g : gate) : Z :=
  let v := if composable (gname g) || (gname g =? 31) then gparam g else 0 in if gadj g then - v else v.
Definition angle_prod := prod Z Z.add 0 angle_sem.
Definition exact_zero (a : Z) : bool := a =? 0.

Lemma Zadd_proper : Proper (eq ==> eq ==> eq) Z.add.
Proof. intros ? ? -> ? ? ->. reflexivity. Qed.

Lemma self_inverse_not_angle n : self_inverse n = true -> composable n || (n =? 31) = false.
Proof.
  unfold self_inverse, mem. cbn [existsb]. rewrite !orb_true_iff. rewrite !Z.eqb_eq.
  intros H. destruct (composable n || (n =? 31)) eqn:E; [|reflexivity].
  exfalso. apply orb_true_iff in E. unfold composable, mem in E. cbn [existsb] in E.
  rewrite !orb_true_iff in E. rewrite !Z.eqb_eq in E. lia.
Qed.

Lemma angle_instance_cancel (ar : Z -> nat) recursive l : Forall (wf ar) l ->
  exists out, cancel_inverses recursive l = Ok out /\ angle_prod out = angle_prod l.
Proof.
  apply (cancel_inverses_total_sem Z eq Z.add 0 angle_sem (equ_equiv := eq_equivalence) (mul_proper := Zadd_proper)).
  - intros; lia.
  - intros; lia.
  - intros; lia.
  - intros; lia.
  - intros n w a a' H. unfold angle_sem. cbn [gname gadj gparam]. rewrite (self_inverse_not_angle n H). reflexivity.
  - intros n w a. unfold angle_sem. cbn [gname gadj gparam]. lia.
  - intros n w a. unfold angle_sem. cbn [gname gadj gparam]. lia.
  - intros. reflexivity.
  - intros. reflexivity.
Qed.

Lemma angle_instance_merge included l :
  exists out, merge_rotations exact_zero included l = Ok out /\ angle_prod out = angle_prod l.
Proof.
  apply (merge_rotations_total_sem Z eq Z.add 0 angle_sem (equ_equiv := eq_equivalence) (mul_proper := Zadd_proper)).
  - intros; lia.
  - intros; lia.
  - intros; lia.
  - intros; lia.
  - intros n w a b H. unfold angle_sem. cbn [gname gadj gparam]. rewrite H. reflexivity.
  - intros n w a H Hz. unfold angle_sem, exact_zero in *. cbn [gname gadj gparam]. rewrite H. cbn. now apply Z.eqb_eq in Hz.
  - intros n w a H. unfold angle_sem. cbn [gname gadj gparam]. rewrite H. reflexivity.
Qed.

Lemma angle_instance_gphase l : angle_prod (combine_global_phases l) = angle_prod l.
Proof.
  apply (combine_global_phases_sem Z eq Z.add 0 angle_sem (equ_equiv := eq_equivalence) (mul_proper := Zadd_proper)).
  - intros; lia.
  - intros; lia.
  - intros; lia.
  - intros g H. unfold is_gphase in H. apply andb_true_iff in H as [Hn Ha]. apply negb_true_iff in Ha.
    unfold angle_sem. cbn [gphase_gate gname gadj gparam]. rewrite Ha, Hn. rewrite orb_true_r. reflexivity.
  - intros; lia.
  - intros a b. unfold angle_sem. cbn. reflexivity.
Qed.

(* the instance is not degenerate: it distinguishes circuits *)
Lemma angle_sem_nontrivial : angle_prod [G 16 false [0] 3; G 31 false [] 4] = 7 /\ angle_prod [] = 0.
Proof. split; reflexivity. Qed.
