(* Proofs about the C42 model (Disc/CaptureModel.v). *)
From Coq Require Import List ZArith Bool Lia.
From PLV Require Import Disc.ControlFlowModel Disc.CaptureModel.
Import ListNotations.
Open Scope Z_scope.

Scheme qstmt_mind := Induction for qstmt Sort Prop
  with qblock_mind := Induction for qblock Sort Prop
  with qbranches_mind := Induction for qbranches Sort Prop.
Combined Scheme q_mutind from qstmt_mind, qblock_mind, qbranches_mind.

(* ---------- op-level facts ---------- *)
Lemma op_ctrl_resolve : forall cw cv x, op_ctrl cw (Some (cv_resolve cw cv)) x = op_ctrl cw cv x.
Proof. intros. destruct x; reflexivity. Qed.

Lemma op_ctrl_comp : forall cw cv cw2 cv2 x,
  op_ctrl cw cv (op_ctrl cw2 (Some cv2) x) = op_ctrl (cw ++ cw2) (Some (cv_resolve cw cv ++ cv2)) x.
Proof. intros. destruct x; cbn; try reflexivity. now rewrite !app_assoc. Qed.

Lemma flat_list_app : forall a b, flat_list (a ++ b) = flat_list a ++ flat_list b.
Proof. intros. unfold flat_list. apply flat_map_app. Qed.

Lemma flat_sub : forall n l, flat (OSub n l) = flat_list l.
Proof. intros. cbn [flat]. induction l; cbn; [reflexivity | now rewrite IHl]. Qed.

Lemma flat_op_ctrl : forall cw cv o, flat (op_ctrl cw cv o) = map (op_ctrl cw cv) (flat o).
Proof.
  intros. destruct o.
  - reflexivity.
  - unfold op_ctrl. cbn [flat]. apply map_ext. intros. apply op_ctrl_resolve.
  - unfold op_ctrl at 1. cbn [flat]. rewrite map_map. apply map_ext. intros. now rewrite op_ctrl_comp.
  - unfold op_ctrl at 1. cbn [flat]. apply map_ext. intros. apply op_ctrl_resolve.
Qed.

Lemma flat_list_ctrl : forall cw cv l, flat_list (map (op_ctrl cw cv) l) = map (op_ctrl cw cv) (flat_list l).
Proof.
  induction l; cbn; [reflexivity|]. fold (flat_list (map (op_ctrl cw cv) l)). fold (flat_list l).
  now rewrite IHl, flat_op_ctrl, map_app.
Qed.

Lemma flat_list_adj : forall l, flat_list (map op_adj (rev l)) = map op_adj (rev (flat_list l)).
Proof.
  induction l; cbn; [reflexivity|]. fold (flat_list l).
  rewrite map_app, flat_list_app, IHl. cbn. rewrite app_nil_r, rev_app_distr, map_app. unfold op_adj. now rewrite !map_rev.
Qed.

Lemma flat_mk_gate : forall c w p, flat (mk_gate c w p) = [mk_gate c w p].
Proof.
  intros. unfold mk_gate. destruct w as [|a [|b [|? ?]]]; try reflexivity.
  destruct (c =? 10); [reflexivity|]. destruct (c =? 11); [reflexivity|]. destruct (c =? 15); reflexivity.
Qed.

(* ---------- generic map over the recorded ops of an outcome ---------- *)
Definition rmap {A} (f : list op -> list op) (r : res (list op * A)) : res (list op * A) :=
  rbind r (fun p => Ok (f (fst p), snd p)).

Lemma flat_R_rmap : forall r, flat_R r = rmap flat_list r.
Proof. reflexivity. Qed.

Section RMAP.
  Variable f : list op -> list op.
  Hypothesis f_nil : f [] = [].
  Hypothesis f_app : forall a b, f (a ++ b) = f a ++ f b.

  Lemma rmap_for : forall (bi bd : Z -> Z -> res (list op * Z)),
    (forall i a, rmap f (bi i a) = bd i a) ->
    forall l a, rmap f (for_ops bi l a) = for_ops bd l a.
  Proof.
    intros bi bd H. induction l; intros; cbn; [now rewrite f_nil|].
    rewrite <- H. destruct (bi a a0) as [[o v]| |]; cbn; try reflexivity.
    rewrite <- IHl. destruct (for_ops bi l v) as [[o2 v2]| |]; cbn; try reflexivity. now rewrite f_app.
  Qed.

  Lemma rmap_while : forall cnd (bi bd : Z -> res (list op * Z)),
    (forall k, rmap f (bi k) = bd k) ->
    forall fuel k, rmap f (while_ops fuel cnd bi k) = while_ops fuel cnd bd k.
  Proof.
    intros cnd bi bd H. induction fuel; intros; cbn; [reflexivity|].
    destruct (cnd k); [|cbn; now rewrite f_nil].
    rewrite <- H. destruct (bi k) as [[o v]| |]; cbn; try reflexivity.
    rewrite <- IHfuel. destruct (while_ops fuel cnd bi v) as [[o2 v2]| |]; cbn; try reflexivity. now rewrite f_app.
  Qed.

  Lemma rmap_push : forall env r, rmap f (push env r) = push env (rmap f r).
  Proof. intros. destruct r as [[o v]| |]; reflexivity. Qed.
  Lemma rmap_start_res : forall upd env (r : R), rmap f (start_res upd env r) = start_res upd env (rmap f r).
  Proof. intros. destruct r as [[o v]| |]; reflexivity. Qed.
  Lemma rmap_ops_only : forall env (r : R), rmap f (ops_only env r) = ops_only env (rmap f r).
  Proof. intros. destruct r as [[o v]| |]; reflexivity. Qed.
  Lemma rmap_seq : forall (r1 : R) (k k' : list Z -> R),
    (forall e, rmap f (k e) = k' e) ->
    rmap f (rbind r1 (fun p => rbind (k (snd p)) (fun q => Ok (fst p ++ fst q, snd q))))
    = rbind (rmap f r1) (fun p => rbind (k' (snd p)) (fun q => Ok (fst p ++ fst q, snd q))).
  Proof.
    intros. destruct r1 as [[o v]| |]; cbn; try reflexivity. rewrite <- H.
    destruct (k v) as [[o2 v2]| |]; cbn; try reflexivity. now rewrite f_app.
  Qed.
End RMAP.

(* ---------- the cond primitive ---------- *)
Lemma cond_len : forall c E (env : list Z),
  length (map (fun p => eval_pred p env) (capture_preds c) ++ [true])
  = jb_len (jb_app (capture_branches c) (JBCons E JBNil)).
Proof. induction c; intros; cbn; [reflexivity|]. f_equal. apply IHc. Qed.

(* ---------- interp (capture p) = tidy direct tape ---------- *)
Lemma interp_capture_all :
  (forall s fuel xs env, flat_R (i_eqn fuel xs (capture s) env) = d_stmt fuel false xs s env) /\
  (forall b fuel xs env, flat_R (i_jaxpr fuel xs (capture_block b) env) = d_block fuel false xs b env) /\
  (forall c fuel xs env E,
     option_map flat_R
       (i_branches fuel xs (map (fun p => eval_pred p env) (capture_preds c) ++ [true])
                   (jb_app (capture_branches c) (JBCons E JBNil)) env)
     = Some (match d_branches fuel false xs c env with
             | Some r => r
             | None => flat_R (i_jaxpr fuel xs E env)
             end)).
Proof.
  apply q_mutind.
  - (* POp *) intros. cbn. now rewrite flat_mk_gate.
  - (* PFor *) intros lo hi step init upd body IH fuel xs env. cbn [capture i_eqn d_stmt].
    destruct (py_range (eval lo env) (eval hi env) (eval step env)); [|reflexivity].
    rewrite flat_R_rmap, rmap_push. f_equal.
    apply rmap_for; [reflexivity | apply flat_list_app |].
    intros. rewrite rmap_start_res. f_equal. apply IH.
  - (* PWhile *) intros c init upd body IH fuel xs env. cbn [capture i_eqn d_stmt].
    rewrite flat_R_rmap, rmap_push. f_equal.
    apply rmap_while; [reflexivity | apply flat_list_app |].
    intros. rewrite rmap_start_res. f_equal. apply IH.
  - (* PCond *) intros brs IHb has_else els IHe fuel xs env. cbn [capture i_eqn d_stmt].
    specialize (IHb fuel xs env (if has_else then capture_block els else JNil)).
    destruct (i_branches fuel xs _ _ env) as [r|]; cbn in IHb; [|discriminate].
    injection IHb as IHb. rewrite flat_R_rmap, rmap_ops_only, <- flat_R_rmap, IHb.
    destruct (d_branches fuel false xs brs env); [reflexivity|].
    destruct has_else; [now rewrite IHe | reflexivity].
  - (* PAdj *) intros body IH fuel xs env. cbn [capture i_eqn d_stmt]. rewrite <- IH.
    destruct (i_jaxpr fuel xs (capture_block body) env) as [[o e]| |]; cbn; try reflexivity.
    now rewrite flat_list_adj.
  - (* PCtrl *) intros cw cv body IH fuel xs env. cbn [capture i_eqn d_stmt]. rewrite <- IH.
    destruct (i_jaxpr fuel xs (capture_block body) env) as [[o e]| |]; cbn; try reflexivity.
    rewrite flat_list_ctrl. destruct cv; reflexivity.
  - (* PCall *) intros captured name body IH fuel xs env. cbn [capture d_stmt]. rewrite <- IH.
    destruct captured; cbn [i_eqn];
      destruct (i_jaxpr fuel xs (capture_block body) env) as [[o e]| |]; cbn; try reflexivity.
    fold (flat_list o). now rewrite app_nil_r.
  - (* QNil *) reflexivity.
  - (* QCons *) intros s IHs b IHb fuel xs env. cbn [capture_block i_jaxpr d_block].
    rewrite flat_R_rmap, rmap_seq with (k' := fun e => d_block fuel false xs b e);
      [| apply flat_list_app | intros; apply IHb].
    now rewrite <- flat_R_rmap, IHs.
  - (* QBNil *) intros. cbn. reflexivity.
  - (* QBCons *) intros p b IHb r IHr fuel xs env E. cbn [capture_preds capture_branches jb_app map app i_branches d_branches].
    destruct (eval_pred p env).
    + rewrite (cond_len r E env), Nat.eqb_refl. cbn. now rewrite IHb.
    + apply IHr.
Qed.

Lemma interp_capture_block : forall b fuel xs env,
  flat_R (i_jaxpr fuel xs (capture_block b) env) = d_block fuel false xs b env.
Proof. exact (proj1 (proj2 interp_capture_all)). Qed.

(* programs without captured subroutines: nothing to expand, the captured tape IS the tidy tape *)
Fixpoint sub_free (o : op) : bool :=
  match o with
  | Gate _ _ _ => true
  | OAdj o' => sub_free o'
  | OCtrl _ _ o' => match o' with OCtrl _ _ _ => false | _ => sub_free o' end
  | OSub _ _ => false
  end.
Lemma flat_sub_free : forall o, sub_free o = true -> flat o = [o].
Proof.
  induction o using (fix F (o : op) : forall P : op -> Prop,
      (forall c w p, P (Gate c w p)) -> (forall o, P o -> P (OAdj o)) ->
      (forall cw cv o, P o -> P (OCtrl cw cv o)) -> (forall n l, P (OSub n l)) -> P o :=
      fun P hg ha hc hs => match o with
        | Gate c w p => hg c w p | OAdj o' => ha o' (F o' P hg ha hc hs)
        | OCtrl cw cv o' => hc cw cv o' (F o' P hg ha hc hs) | OSub n l => hs n l end);
    cbn [sub_free flat]; intros H.
  - reflexivity.
  - now rewrite IHo.
  - destruct o; try discriminate; rewrite IHo by assumption; reflexivity.
  - discriminate.
Qed.

(* ---------- the adjoint rule ---------- *)
Lemma adj_rule : forall fuel xs body env ops env',
  i_jaxpr fuel xs body env = Ok (ops, env') ->
  i_eqn fuel xs (JAdj body) env = Ok (map op_adj (rev ops), env).
Proof. intros. cbn [i_eqn]. rewrite H. reflexivity. Qed.

Lemma adj_rule_nth : forall (ops : list op) k d, (k < length ops)%nat ->
  nth k (map op_adj (rev ops)) d = op_adj (nth (length ops - 1 - k) ops d) /\
  length (map op_adj (rev ops)) = length ops.
Proof.
  intros. split; [|now rewrite map_length, rev_length].
  rewrite nth_indep with (d' := op_adj d) by (now rewrite map_length, rev_length).
  rewrite map_nth. f_equal. rewrite rev_nth by assumption. f_equal. lia.
Qed.

Lemma adj_rule_nested : forall fuel xs body env ops env',
  i_jaxpr fuel xs body env = Ok (ops, env') ->
  i_eqn fuel xs (JAdj (JCons (JAdj body) JNil)) env = Ok (map (fun o => op_adj (op_adj o)) ops, env).
Proof.
  intros. cbn [i_eqn i_jaxpr]. rewrite H. cbn. rewrite app_nil_r, <- map_rev, rev_involutive, map_map. reflexivity.
Qed.

(* ---------- the ctrl rule ---------- *)
Lemma ctrl_rule : forall fuel xs cw cv body env ops env',
  i_jaxpr fuel xs body env = Ok (ops, env') ->
  i_eqn fuel xs (JCtrl cw cv body) env = Ok (map (op_ctrl cw cv) ops, env).
Proof. intros. cbn [i_eqn]. rewrite H. reflexivity. Qed.

Lemma ctrl_rule_nth : forall cw cv (ops : list op) k d, (k < length ops)%nat ->
  length (map (op_ctrl cw cv) ops) = length ops /\
  exists cw' cv' base, nth k (map (op_ctrl cw cv) ops) d = OCtrl (cw ++ cw') (cv_resolve cw cv ++ cv') base /\
    (nth k ops d = base /\ cw' = [] /\ cv' = [] \/ nth k ops d = OCtrl cw' cv' base).
Proof.
  intros. split; [apply map_length|].
  rewrite nth_indep with (d' := op_ctrl cw cv d) by (now rewrite map_length).
  rewrite map_nth. destruct (nth k ops d) eqn:E.
  - exists [], [], (Gate code wires params). cbn. rewrite !app_nil_r. auto.
  - exists [], [], (OAdj o). cbn. rewrite !app_nil_r. auto.
  - exists cw0, cv0, o. cbn. auto.
  - exists [], [], (OSub name body). cbn. rewrite !app_nil_r. auto.
Qed.

(* ---------- the for_loop rule ---------- *)
Lemma for_ops_stateless : forall (body : Z -> Z -> res (list op * Z)) (g : Z -> list op) (u : Z -> Z -> Z),
  (forall i a, body i a = Ok (g i, u i a)) ->
  forall l a, for_ops body l a = Ok (flat_map g l, fold_left (fun a i => u i a) l a).
Proof.
  intros body g u H. induction l; intros; cbn; [reflexivity|]. rewrite H. cbn. rewrite IHl. reflexivity.
Qed.

Lemma for_rule : forall fuel xs lo hi step init upd body env l (g : Z -> list op),
  py_range (eval lo env) (eval hi env) (eval step env) = Some l ->
  (forall i a, exists e', i_jaxpr fuel xs body (i :: a :: env) = Ok (g i, e')) ->
  i_eqn fuel xs (JFor lo hi step init upd body) env
  = Ok (flat_map g l, fold_left (fun a i => eval upd (i :: a :: env)) l (eval init env) :: env).
Proof.
  intros. cbn [i_eqn]. rewrite H.
  rewrite for_ops_stateless with (g := g) (u := fun i a => eval upd (i :: a :: env)); [reflexivity|].
  intros. destruct (H0 i a) as [e' He]. rewrite He. reflexivity.
Qed.

Lemma for_rule_step0 : forall fuel xs lo hi step init upd body env,
  eval step env = 0 -> i_eqn fuel xs (JFor lo hi step init upd body) env = Err.
Proof. intros. cbn [i_eqn]. rewrite H. reflexivity. Qed.

(* ---------- the tape-mode ctrl quirk is semantically invisible ---------- *)
Section SEM.
  Variable G : Type.
  Variable mul : G -> G -> G.
  Variable one : G.
  Variable inv : G -> G.
  Variable C : list Z -> G -> G.
  Variable den : op -> G.
  Definition den_list (l : list op) : G := fold_right (fun o g => mul (den o) g) one l.
  Definition F (cw : list Z) (v : list bool) : G := den_list (flips cw v).
  Hypothesis mul_assoc : forall a b c, mul a (mul b c) = mul (mul a b) c.
  Hypothesis one_l : forall a, mul one a = a.
  Hypothesis one_r : forall a, mul a one = a.
  Hypothesis inv_mul : forall a b, inv (mul a b) = mul (inv b) (inv a).
  Hypothesis inv_one : inv one = one.
  Hypothesis C_mul : forall cw a b, C cw (mul a b) = mul (C cw a) (C cw b).
  Hypothesis C_one : forall cw, C cw one = one.
  Hypothesis den_adj : forall o, den (op_adj o) = inv (den o).
  Hypothesis den_ctrl_none : forall cw o, den (op_ctrl cw None o) = C cw (den o).
  (* the control-value law: controlling on value 0 = conjugating the all-ones control by X on that wire *)
  Hypothesis den_ctrl_some : forall cw v o,
    den (op_ctrl cw (Some v) o) = mul (F cw v) (mul (C cw (den o)) (F cw v)).
  Hypothesis F_invol : forall cw v, mul (F cw v) (F cw v) = one.

  Lemma den_list_cons : forall o l, den_list (o :: l) = mul (den o) (den_list l).
  Proof. reflexivity. Qed.
  Lemma den_list_nil : den_list [] = one.
  Proof. reflexivity. Qed.
  Lemma den_list_app : forall a b, den_list (a ++ b) = mul (den_list a) (den_list b).
  Proof.
    induction a; intros; cbn [app]; [now rewrite den_list_nil, one_l|].
    now rewrite !den_list_cons, IHa, mul_assoc.
  Qed.

  Lemma den_adj_list : forall l, den_list (map op_adj (rev l)) = inv (den_list l).
  Proof.
    induction l; cbn [rev map]; [now rewrite den_list_nil, inv_one|].
    rewrite map_app, den_list_app, IHl. cbn [map]. now rewrite !den_list_cons, den_list_nil, one_r, den_adj, inv_mul.
  Qed.

  Lemma den_ctrl_none_list : forall cw l, den_list (map (op_ctrl cw None) l) = C cw (den_list l).
  Proof.
    induction l; cbn [map]; [now rewrite den_list_nil, C_one|].
    now rewrite !den_list_cons, IHl, den_ctrl_none, C_mul.
  Qed.

  Lemma den_ctrl_some_list : forall cw v l,
    den_list (map (op_ctrl cw (Some v)) l) = mul (F cw v) (mul (C cw (den_list l)) (F cw v)).
  Proof.
    induction l; cbn [map].
    - now rewrite den_list_nil, C_one, one_l, F_invol.
    - rewrite !den_list_cons, IHl, den_ctrl_some, C_mul.
      rewrite <- !mul_assoc. f_equal. f_equal.
      rewrite (mul_assoc (F cw v) (F cw v)), F_invol, one_l. reflexivity.
  Qed.

  Lemma den_direct_ctrl : forall q cw cv l1 l2, den_list l1 = den_list l2 ->
    den_list (direct_ctrl q cw cv l1) = den_list (direct_ctrl false cw cv l2).
  Proof.
    intros. unfold direct_ctrl. destruct cv as [v|].
    - cbn [andb]. rewrite (den_ctrl_some_list cw v l2).
      destruct (q && (1 <? Z.of_nat (length l1))).
      + rewrite !den_list_app, den_ctrl_none_list, H. reflexivity.
      + rewrite den_ctrl_some_list, H. reflexivity.
    - now rewrite !den_ctrl_none_list, H.
  Qed.

  Definition req {A} (r1 r2 : res (list op * A)) : Prop :=
    match r1, r2 with
    | Ok (o1, a1), Ok (o2, a2) => den_list o1 = den_list o2 /\ a1 = a2
    | Err, Err => True
    | Fuel, Fuel => True
    | _, _ => False
    end.

  Lemma req_for : forall (b1 b2 : Z -> Z -> res (list op * Z)),
    (forall i a, req (b1 i a) (b2 i a)) -> forall l a, req (for_ops b1 l a) (for_ops b2 l a).
  Proof.
    intros b1 b2 H. induction l; intros; cbn; [auto|].
    specialize (H a a0). destruct (b1 a a0) as [[o v]| |], (b2 a a0) as [[o' v']| |]; cbn in *; try tauto.
    destruct H as [Ho Hv]. subst v'. specialize (IHl v).
    destruct (for_ops b1 l v) as [[p w]| |], (for_ops b2 l v) as [[p' w']| |]; cbn in *; try tauto.
    destruct IHl as [Hp Hw]. subst w'. split; [|reflexivity]. now rewrite !den_list_app, Ho, Hp.
  Qed.

  Lemma req_while : forall cnd (b1 b2 : Z -> res (list op * Z)),
    (forall k, req (b1 k) (b2 k)) -> forall fuel k, req (while_ops fuel cnd b1 k) (while_ops fuel cnd b2 k).
  Proof.
    intros cnd b1 b2 H. induction fuel; intros; cbn; [auto|].
    destruct (cnd k); [|cbn; auto].
    specialize (H k). destruct (b1 k) as [[o v]| |], (b2 k) as [[o' v']| |]; cbn in *; try tauto.
    destruct H as [Ho Hv]. subst v'. specialize (IHfuel v).
    destruct (while_ops fuel cnd b1 v) as [[p w]| |], (while_ops fuel cnd b2 v) as [[p' w']| |]; cbn in *; try tauto.
    destruct IHfuel as [Hp Hw]. subst w'. split; [|reflexivity]. now rewrite !den_list_app, Ho, Hp.
  Qed.

  Lemma req_push : forall env r1 r2, req r1 r2 -> req (push env r1) (push env r2).
  Proof. intros. destruct r1 as [[o v]| |], r2 as [[o' v']| |]; cbn in *; try tauto; destruct H; subst; auto. Qed.
  Lemma req_start : forall upd env (r1 r2 : R), req r1 r2 -> req (start_res upd env r1) (start_res upd env r2).
  Proof. intros. destruct r1 as [[o v]| |], r2 as [[o' v']| |]; cbn in *; try tauto; destruct H; subst; auto. Qed.
  Lemma req_only : forall env (r1 r2 : R), req r1 r2 -> req (ops_only env r1) (ops_only env r2).
  Proof. intros. destruct r1 as [[o v]| |], r2 as [[o' v']| |]; cbn in *; try tauto; destruct H; subst; auto. Qed.
  Lemma req_refl : forall A (r : res (list op * A)), req r r.
  Proof. intros. destruct r as [[o v]| |]; cbn; auto. Qed.

  Definition oreq (a b : option R) : Prop :=
    match a, b with Some r1, Some r2 => req r1 r2 | None, None => True | _, _ => False end.

  Lemma quirk_all :
    (forall s fuel xs env, req (d_stmt fuel true xs s env) (d_stmt fuel false xs s env)) /\
    (forall b fuel xs env, req (d_block fuel true xs b env) (d_block fuel false xs b env)) /\
    (forall c fuel xs env, oreq (d_branches fuel true xs c env) (d_branches fuel false xs c env)).
  Proof.
    apply q_mutind.
    - intros. apply req_refl.
    - intros lo hi step init upd body IH fuel xs env. cbn [d_stmt].
      destruct (py_range (eval lo env) (eval hi env) (eval step env)); [|cbn; auto].
      apply req_push, req_for. intros. apply req_start, IH.
    - intros c init upd body IH fuel xs env. cbn [d_stmt].
      apply req_push, req_while. intros. apply req_start, IH.
    - intros brs IHb has_else els IHe fuel xs env. cbn [d_stmt].
      specialize (IHb fuel xs env).
      destruct (d_branches fuel true xs brs env), (d_branches fuel false xs brs env); cbn in IHb; try tauto.
      + now apply req_only.
      + destruct has_else; [apply req_only, IHe | cbn; auto].
    - intros body IH fuel xs env. cbn [d_stmt]. specialize (IH fuel xs env).
      destruct (d_block fuel true xs body env) as [[o v]| |], (d_block fuel false xs body env) as [[o' v']| |];
        cbn in *; try tauto.
      destruct IH as [Ho _]. split; [|reflexivity]. now rewrite !den_adj_list, Ho.
    - intros cw cv body IH fuel xs env. cbn [d_stmt]. specialize (IH fuel xs env).
      destruct (d_block fuel true xs body env) as [[o v]| |], (d_block fuel false xs body env) as [[o' v']| |];
        cbn in *; try tauto.
      destruct IH as [Ho _]. split; [|reflexivity]. now apply den_direct_ctrl.
    - intros captured name body IH fuel xs env. cbn [d_stmt]. apply req_only, IH.
    - intros. cbn. auto.
    - intros s IHs b IHb fuel xs env. cbn [d_block]. specialize (IHs fuel xs env).
      destruct (d_stmt fuel true xs s env) as [[o v]| |], (d_stmt fuel false xs s env) as [[o' v']| |];
        cbn in *; try tauto.
      destruct IHs as [Ho Hv]. subst v'. specialize (IHb fuel xs v).
      destruct (d_block fuel true xs b v) as [[p w]| |], (d_block fuel false xs b v) as [[p' w']| |];
        cbn in *; try tauto.
      destruct IHb as [Hp Hw]. subst w'. split; [|reflexivity]. now rewrite !den_list_app, Ho, Hp.
    - intros. cbn. auto.
    - intros p b IHb r IHr fuel xs env. cbn [d_branches]. destruct (eval_pred p env); [apply IHb | apply IHr].
  Qed.

  (* the round trip against the code as written: same denotation, same final variables, same failure *)
  Lemma roundtrip_sem : forall b fuel xs env,
    req (d_block fuel true xs b env) (flat_R (i_jaxpr fuel xs (capture_block b) env)).
  Proof. intros. rewrite interp_capture_block. apply quirk_all. Qed.
End SEM.

(* a non-trivial instance of the semantic hypotheses: G = (Z, +), den = signed count of non-X leaf gates *)
Fixpoint cnt (o : op) : Z :=
  match o with
  | Gate c _ _ => if c =? 4 then 0 else 1
  | OAdj o' => - cnt o'
  | OCtrl _ _ o' => cnt o'
  | OSub _ _ => 0
  end.
Lemma cnt_flips : forall cw v, den_list Z Z.add 0 cnt (flips cw v) = 0.
Proof. induction cw; intros; destruct v; cbn; try reflexivity. destruct b; cbn; apply IHcw. Qed.
Lemma cnt_instance :
  (forall o, cnt (op_adj o) = - cnt o) /\ (forall cw o, cnt (op_ctrl cw None o) = cnt o) /\
  (forall cw v o, cnt (op_ctrl cw (Some v) o)
     = F Z Z.add 0 cnt cw v + (cnt o + F Z Z.add 0 cnt cw v)) /\
  (forall cw v, F Z Z.add 0 cnt cw v + F Z Z.add 0 cnt cw v = 0).
Proof.
  repeat split; intros; unfold F; rewrite ?cnt_flips; try reflexivity.
  - destruct o; reflexivity.
  - destruct o; cbn; lia.
Qed.

Lemma flat_list_sub_free : forall l, forallb sub_free l = true -> flat_list l = l.
Proof.
  induction l; cbn; intros; [reflexivity|]. apply andb_prop in H. destruct H.
  fold (flat_list l). rewrite IHl by assumption. now rewrite flat_sub_free.
Qed.

Lemma interp_capture_exact : forall b fuel xs env ops e,
  i_jaxpr fuel xs (capture_block b) env = Ok (ops, e) -> forallb sub_free ops = true ->
  d_block fuel false xs b env = Ok (ops, e).
Proof.
  intros. rewrite <- interp_capture_block, H. cbn. now rewrite flat_list_sub_free.
Qed.

(* the semantic hypotheses bundled: a monoid with an anti-homomorphic inverse (adjoint), a multiplicative
   control functor C, den compatible with op_adj / op_ctrl, and the control-value law with involutive flips *)
Definition sem_laws (G : Type) (mul : G -> G -> G) (one : G) (inv : G -> G) (C : list Z -> G -> G)
                    (den : op -> G) : Prop :=
  (forall a b c, mul a (mul b c) = mul (mul a b) c) /\ (forall a, mul one a = a) /\ (forall a, mul a one = a) /\
  (forall a b, inv (mul a b) = mul (inv b) (inv a)) /\ inv one = one /\
  (forall cw a b, C cw (mul a b) = mul (C cw a) (C cw b)) /\ (forall cw, C cw one = one) /\
  (forall o, den (op_adj o) = inv (den o)) /\
  (forall cw o, den (op_ctrl cw None o) = C cw (den o)) /\
  (forall cw v o, den (op_ctrl cw (Some v) o)
                  = mul (F G mul one den cw v) (mul (C cw (den o)) (F G mul one den cw v))) /\
  (forall cw v, mul (F G mul one den cw v) (F G mul one den cw v) = one).

Lemma roundtrip_sem_laws : forall G mul one inv C den, sem_laws G mul one inv C den ->
  forall b fuel xs env,
  req G mul one den (d_block fuel true xs b env) (flat_R (i_jaxpr fuel xs (capture_block b) env)).
Proof.
  intros G mul one inv C den (H1 & H2 & H3 & H4 & H5 & H6 & H7 & H8 & H9 & H10 & H11).
  now apply roundtrip_sem with (inv := inv) (C := C).
Qed.

Lemma quirk_sem_laws : forall G mul one inv C den, sem_laws G mul one inv C den ->
  forall b fuel xs env,
  req G mul one den (d_block fuel true xs b env) (d_block fuel false xs b env).
Proof.
  intros G mul one inv C den (H1 & H2 & H3 & H4 & H5 & H6 & H7 & H8 & H9 & H10 & H11).
  now apply (quirk_all G mul one inv C den).
Qed.

Lemma cnt_laws : sem_laws Z Z.add 0 Z.opp (fun _ g => g) cnt.
Proof.
  destruct cnt_instance as (A & B & Cc & D).
  unfold sem_laws. repeat split; intros; try lia; auto.
Qed.
