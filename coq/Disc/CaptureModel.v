(* C42 Program capture round-trips quantum functions.
   A structured quantum-program language with
     (a) the DIRECT tape semantics (program capture disabled): qp.for_loop / qp.while_loop / qp.cond run as
         plain Python (control_flow/*.py _call_capture_disabled, see C43), qp.adjoint(qfunc)
         (ops/op_math/adjoint.py _adjoint_transform: reversed list of lazily adjointed ops), qp.ctrl(qfunc)
         (ops/op_math/controlled.py _ctrl_transform, INCLUDING its flip_control_on_zero quirk: when control
         values are given and the body recorded more than one op, X gates are queued on the zero-valued control
         wires before and after and every op is controlled with control_values=None);
     (b) an abstract plxpr (flat list of equations whose higher-order primitives for_loop / while_loop / cond /
         adjoint_transform / ctrl_transform / quantum_subroutine carry sub-jaxprs), the translation `capture`
         (what tracing produces; JAX itself is an oracle) and the INTERPRETER rules of plxpr_to_tape:
         tape/plxpr_conversion.py CollectOpsandMeas + capture/base_interpreter.py FlattenedInterpreter
         (flattened_for, flatten_while_loop, _cond_primitive, _adjoint_transform_prim, _ctrl_transform_prim,
         _quantum_subroutine).
   Expressions / predicates / Python range are shared with the C43 model.  No proofs in this file. *)
From Coq Require Import List ZArith Bool.
From PLV Require Import Disc.ControlFlowModel.
Import ListNotations.
Open Scope Z_scope.

(* ---------- recorded operators (canonical form used by the harness) ---------- *)
(* Gate code wires params : params are numerators over 8 (all angles are dyadic multiples of 1/8).
   OCtrl cw cv o : never directly nested (ops.ctrl flattens Controlled(Controlled(..)) into one node, outer
   control wires first; CNOT/CZ/CRY/Toffoli/MultiControlledX... are OCtrl nodes over X/Z/RY...).
   OSub : CollectedSubroutine(name, ops) produced by plxpr_to_tape for qp.capture.subroutine calls. *)
Inductive op :=
| Gate (code : Z) (wires : list Z) (params : list Z)
| OAdj (o : op)
| OCtrl (cw : list Z) (cv : list bool) (o : op)
| OSub (name : Z) (body : list op).

Definition cv_resolve (cw : list Z) (cv : option (list bool)) : list bool :=
  match cv with Some v => v | None => repeat true (length cw) end.
(* ops.ctrl(op, control, control_values): create_controlled_op2 / create_controlled_op *)
Definition op_ctrl (cw : list Z) (cv : option (list bool)) (o : op) : op :=
  match o with
  | OCtrl cw2 cv2 o' => OCtrl (cw ++ cw2) (cv_resolve cw cv ++ cv2) o'
  | _ => OCtrl cw (cv_resolve cw cv) o
  end.
(* ops.adjoint(op, lazy=True) *)
Definition op_adj (o : op) : op := OAdj o.
(* gate constructors whose class is itself a controlled operation: 10 CNOT, 11 CZ, 15 CRY *)
Definition mk_gate (code : Z) (wires params : list Z) : op :=
  match wires with
  | [c; t] =>
      if code =? 10 then OCtrl [c] [true] (Gate 4 [t] [])
      else if code =? 11 then OCtrl [c] [true] (Gate 6 [t] [])
      else if code =? 15 then OCtrl [c] [true] (Gate 1 [t] params)
      else Gate code wires params
  | _ => Gate code wires params
  end.
Definition gateX (w : Z) : op := Gate 4 [w] [].

(* ---------- source programs ---------- *)
(* parameter m * x_j + e/8 : numerator m * X_j + e  (x_j = X_j / 8 is the j-th dynamic float argument) *)
Definition pexp := (Z * nat * expr)%type.
Definition eval_p (xs env : list Z) (p : pexp) : Z :=
  let '(m, j, e) := p in m * nth j xs 0 + eval e env.

Inductive qstmt :=
| POp (code : Z) (wires : list expr) (params : list pexp)
| PFor (lo hi step init upd : expr) (body : qblock)     (* body env: i :: a :: env; afterwards a_final :: env *)
| PWhile (c : pred) (init upd : expr) (body : qblock)   (* body/cond env: k :: env; afterwards k_final :: env *)
| PCond (brs : qbranches) (has_else : bool) (els : qblock)
| PAdj (body : qblock)
| PCtrl (cw : list Z) (cv : option (list bool)) (body : qblock)
| PCall (captured : bool) (name : Z) (body : qblock)   (* plain Python function / qp.capture.subroutine *)
with qblock := QNil | QCons (s : qstmt) (b : qblock)
with qbranches := QBNil | QBCons (p : pred) (b : qblock) (r : qbranches).

(* ---------- outcome ---------- *)
Definition R := res (list op * list Z).       (* Ok (ops, environment) | Err (Python exception) | Fuel *)
Definition rbind {A B} (r : res A) (f : A -> res B) : res B :=
  match r with Ok a => f a | Err => Err | Fuel => Fuel end.
Definition ops_only (env : list Z) (r : R) : R := rbind r (fun p => Ok (fst p, env)).

(* for i in range(..): a = body(i, a)   -- the same Python loop in ForLoopCallable._call_capture_disabled
   and in FlattenedInterpreter flattened_for *)
Fixpoint for_ops (body : Z -> Z -> res (list op * Z)) (l : list Z) (a : Z) : res (list op * Z) :=
  match l with
  | [] => Ok ([], a)
  | i :: r => rbind (body i a) (fun p => rbind (for_ops body r (snd p)) (fun q => Ok (fst p ++ fst q, snd q)))
  end.
(* while cond(k): k = body(k)  (fuelled) *)
Fixpoint while_ops (fuel : nat) (cnd : Z -> bool) (body : Z -> res (list op * Z)) (k : Z) : res (list op * Z) :=
  match fuel with
  | O => Fuel
  | S f => if cnd k
           then rbind (body k) (fun p => rbind (while_ops f cnd body (snd p)) (fun q => Ok (fst p ++ fst q, snd q)))
           else Ok ([], k)
  end.
(* the value returned by a loop body is computed from the variables visible at the START of the body
   (variables bound by statements inside the body are local to them) *)
Definition start_res (upd : expr) (env : list Z) (r : R) : res (list op * Z) :=
  rbind r (fun p => Ok (fst p, eval upd env)).
Definition push (env : list Z) (r : res (list op * Z)) : R := rbind r (fun p => Ok (fst p, snd p :: env)).

(* X gates on the zero-valued control wires *)
Fixpoint flips (cw : list Z) (cv : list bool) : list op :=
  match cw, cv with
  | w :: cw', v :: cv' => if v then flips cw' cv' else gateX w :: flips cw' cv'
  | _, _ => []
  end.
(* _ctrl_transform (capture disabled).  quirk = true is the code as written; quirk = false is the tidy
   specification "every op controlled with the given wires and values" *)
Definition direct_ctrl (quirk : bool) (cw : list Z) (cv : option (list bool)) (ops : list op) : list op :=
  match cv with
  | Some v => if quirk && (1 <? Z.of_nat (length ops))
              then flips cw v ++ map (op_ctrl cw None) ops ++ flips cw v
              else map (op_ctrl cw (Some v)) ops
  | None => map (op_ctrl cw None) ops
  end.

(* ---------- (a) direct tape semantics ---------- *)
Fixpoint d_stmt (fuel : nat) (quirk : bool) (xs : list Z) (s : qstmt) (env : list Z) {struct s} : R :=
  match s with
  | POp code wires params =>
      Ok ([mk_gate code (map (fun e => eval e env) wires) (map (eval_p xs env) params)], env)
  | PFor lo hi step init upd body =>
      match py_range (eval lo env) (eval hi env) (eval step env) with
      | None => Err
      | Some l => push env (for_ops (fun i a => start_res upd (i :: a :: env)
                                                  (d_block fuel quirk xs body (i :: a :: env)))
                                    l (eval init env))
      end
  | PWhile c init upd body =>
      push env (while_ops fuel (fun k => eval_pred c (k :: env))
                          (fun k => start_res upd (k :: env) (d_block fuel quirk xs body (k :: env)))
                          (eval init env))
  | PCond brs has_else els =>
      match d_branches fuel quirk xs brs env with
      | Some r => ops_only env r
      | None => if has_else then ops_only env (d_block fuel quirk xs els env) else Ok ([], env)
      end
  | PAdj body =>
      rbind (d_block fuel quirk xs body env) (fun p => Ok (map op_adj (rev (fst p)), env))
  | PCtrl cw cv body =>
      rbind (d_block fuel quirk xs body env) (fun p => Ok (direct_ctrl quirk cw cv (fst p), env))
  | PCall _ _ body => ops_only env (d_block fuel quirk xs body env)
  end
with d_block (fuel : nat) (quirk : bool) (xs : list Z) (b : qblock) (env : list Z) {struct b} : R :=
  match b with
  | QNil => Ok ([], env)
  | QCons s r => rbind (d_stmt fuel quirk xs s env) (fun p =>
                 rbind (d_block fuel quirk xs r (snd p)) (fun q => Ok (fst p ++ fst q, snd q)))
  end
with d_branches (fuel : nat) (quirk : bool) (xs : list Z) (c : qbranches) (env : list Z) {struct c} : option R :=
  match c with
  | QBNil => None
  | QBCons p b r => if eval_pred p env then Some (d_block fuel quirk xs b env) else d_branches fuel quirk xs r env
  end.

(* ---------- (b) abstract plxpr ---------- *)
Inductive jeqn :=
| JOp (code : Z) (wires : list expr) (params : list pexp)        (* operator primitive (dropped outvar) *)
| JFor (lo hi step init upd : expr) (body : jaxpr)               (* for_loop_prim *)
| JWhile (c : pred) (init upd : expr) (body : jaxpr)             (* while_loop_prim: jaxpr_cond_fn, jaxpr_body_fn *)
| JCond (preds : list pred) (brs : jbranches)                    (* cond_prim: n-1 predicates, n branch jaxprs *)
| JAdj (body : jaxpr)                                            (* adjoint_transform_prim, lazy=True *)
| JCtrl (cw : list Z) (cv : option (list bool)) (body : jaxpr)   (* ctrl_transform_prim *)
| JInline (body : jaxpr)                                         (* a Python call, traced through (own scope) *)
| JSub (name : Z) (body : jaxpr)                                 (* quantum_subroutine_prim *)
with jaxpr := JNil | JCons (e : jeqn) (j : jaxpr)
with jbranches := JBNil | JBCons (j : jaxpr) (r : jbranches).

Fixpoint jb_app (a b : jbranches) : jbranches :=
  match a with JBNil => b | JBCons j r => JBCons j (jb_app r b) end.

(* tracing (the shape of the jaxpr make_jaxpr produces): CondCallable.__call_capture_enabled always appends the
   else branch (an empty jaxpr when there is no else function) *)
Fixpoint capture_preds (c : qbranches) : list pred :=
  match c with QBNil => [] | QBCons p _ r => p :: capture_preds r end.
Fixpoint capture (s : qstmt) : jeqn :=
  match s with
  | POp code wires params => JOp code wires params
  | PFor lo hi step init upd body => JFor lo hi step init upd (capture_block body)
  | PWhile c init upd body => JWhile c init upd (capture_block body)
  | PCond brs has_else els =>
      JCond (capture_preds brs)
            (jb_app (capture_branches brs) (JBCons (if has_else then capture_block els else JNil) JBNil))
  | PAdj body => JAdj (capture_block body)
  | PCtrl cw cv body => JCtrl cw cv (capture_block body)
  | PCall captured name body => if captured then JSub name (capture_block body) else JInline (capture_block body)
  end
with capture_block (b : qblock) : jaxpr :=
  match b with QNil => JNil | QCons s r => JCons (capture s) (capture_block r) end
with capture_branches (c : qbranches) : jbranches :=
  match c with QBNil => JBNil | QBCons _ b r => JBCons (capture_block b) (capture_branches r) end.

(* ---------- interpreter rules (CollectOpsandMeas) ---------- *)
Fixpoint jb_len (c : jbranches) : nat := match c with JBNil => O | JBCons _ r => S (jb_len r) end.
Fixpoint i_eqn (fuel : nat) (xs : list Z) (e : jeqn) (env : list Z) {struct e} : R :=
  match e with
  | JOp code wires params =>                      (* interpret_operation: state["ops"].append(op) *)
      Ok ([mk_gate code (map (fun e => eval e env) wires) (map (eval_p xs env) params)], env)
  | JFor lo hi step init upd body =>              (* flattened_for: for i in range(start, stop, step) *)
      match py_range (eval lo env) (eval hi env) (eval step env) with
      | None => Err
      | Some l => push env (for_ops (fun i a => start_res upd (i :: a :: env)
                                                  (i_jaxpr fuel xs body (i :: a :: env)))
                                    l (eval init env))
      end
  | JWhile c init upd body =>                     (* flatten_while_loop *)
      push env (while_ops fuel (fun k => eval_pred c (k :: env))
                          (fun k => start_res upd (k :: env) (i_jaxpr fuel xs body (k :: env)))
                          (eval init env))
  | JCond preds brs =>                            (* _cond_primitive: conditions = ( *conditions, True);
                                                     zip(conditions, jaxpr_branches, strict=True): first true *)
      match i_branches fuel xs (map (fun p => eval_pred p env) preds ++ [true]) brs env with
      | Some r => ops_only env r
      | None => Err                               (* strict zip length mismatch: ValueError *)
      end
  | JAdj body =>                                  (* _adjoint_transform_prim: child collector; reversed; adjoint *)
      rbind (i_jaxpr fuel xs body env) (fun p => Ok (map op_adj (rev (fst p)), env))
  | JCtrl cw cv body =>                           (* _ctrl_transform_prim: child collector; ctrl each op *)
      rbind (i_jaxpr fuel xs body env) (fun p => Ok (map (op_ctrl cw cv) (fst p), env))
  | JInline body => ops_only env (i_jaxpr fuel xs body env)
  | JSub name body =>                             (* _quantum_subroutine: CollectedSubroutine(name, child ops) *)
      rbind (i_jaxpr fuel xs body env) (fun p => Ok ([OSub name (fst p)], env))
  end
with i_jaxpr (fuel : nat) (xs : list Z) (j : jaxpr) (env : list Z) {struct j} : R :=
  match j with
  | JNil => Ok ([], env)
  | JCons e r => rbind (i_eqn fuel xs e env) (fun p =>
                 rbind (i_jaxpr fuel xs r (snd p)) (fun q => Ok (fst p ++ fst q, snd q)))
  end
with i_branches (fuel : nat) (xs : list Z) (conds : list bool) (c : jbranches) (env : list Z) {struct c}
     : option R :=
  match conds, c with
  | [], JBNil => Some (Ok ([], env))              (* no true condition: return () *)
  | b :: conds', JBCons j r =>
      if b then (if Nat.eqb (length conds') (jb_len r) then Some (i_jaxpr fuel xs j env) else None)
      else i_branches fuel xs conds' r env
  | _, _ => None
  end.

(* decomposition of CollectedSubroutine nodes (under adjoint / control): what the recorded op MEANS as a list
   of subroutine-free ops *)
Fixpoint flat (o : op) : list op :=
  match o with
  | Gate _ _ _ => [o]
  | OAdj o' => rev (map OAdj (flat o'))
  | OCtrl cw cv o' => map (op_ctrl cw (Some cv)) (flat o')
  | OSub _ body => (fix go (l : list op) : list op := match l with [] => [] | x :: r => flat x ++ go r end) body
  end.
Definition flat_list (l : list op) : list op := flat_map flat l.
Definition flat_R (r : R) : R := rbind r (fun p => Ok (flat_list (fst p), snd p)).

(* ---------- correspondence ---------- *)
Fixpoint eqb_lz (a b : list Z) : bool :=
  match a, b with [], [] => true | x :: r, y :: s => (x =? y) && eqb_lz r s | _, _ => false end.
Fixpoint eqb_lb (a b : list bool) : bool :=
  match a, b with [], [] => true | x :: r, y :: s => Bool.eqb x y && eqb_lb r s | _, _ => false end.
Fixpoint op_eqb (a b : op) {struct a} : bool :=
  match a, b with
  | Gate c w p, Gate c' w' p' => (c =? c') && eqb_lz w w' && eqb_lz p p'
  | OAdj x, OAdj y => op_eqb x y
  | OCtrl cw cv x, OCtrl cw' cv' y => eqb_lz cw cw' && eqb_lb cv cv' && op_eqb x y
  | OSub n l, OSub n' l' =>
      (n =? n') && (fix go (l l' : list op) : bool :=
                      match l, l' with [] , [] => true | x :: r, y :: s => op_eqb x y && go r s | _, _ => false end) l l'
  | _, _ => false
  end.
Fixpoint ops_eqb (a b : list op) : bool :=
  match a, b with [], [] => true | x :: r, y :: s => op_eqb x y && ops_eqb r s | _, _ => false end.

Definition outcome (r : R) : Z * list op :=
  match r with Ok p => (0, fst p) | Err => (1, []) | Fuel => (2, []) end.
Definition out_eqb (a b : Z * list op) : bool := (fst a =? fst b) && ops_eqb (snd a) (snd b).

(* input = (program, xs, initial env, while fuel);
   expected = (status and ops of the direct tape, status and ops of plxpr_to_tape(make_jaxpr(f))) *)
Definition run_direct (p : qblock) (xs env : list Z) (fuel : nat) := outcome (d_block fuel true xs p env).
Definition run_capture (p : qblock) (xs env : list Z) (fuel : nat) :=
  outcome (i_jaxpr fuel xs (capture_block p) env).
Definition check_case (c : (qblock * list Z * list Z * nat) * ((Z * list op) * (Z * list op))) : bool :=
  let '(p, xs, env, fuel) := fst c in
  out_eqb (run_direct p xs env fuel) (fst (snd c)) && out_eqb (run_capture p xs env fuel) (snd (snd c))
  (* and the round trip inside the model: expanding subroutine nodes of the captured tape gives the tidy tape *)
  && out_eqb (outcome (flat_R (i_jaxpr fuel xs (capture_block p) env))) (outcome (d_block fuel false xs p env)).
