(* C71  Proofs about the model of qp.snapshots (SnapshotsModel.v). *)
From Coq Require Import List ZArith Bool Arith Lia.
From PLV Require Import Disc.SnapshotsModel.
Import ListNotations.

Lemma key_eqb_eq : forall a b, key_eqb a b = true <-> a = b.
Proof.
  intros [n|s] [m|t]; cbn; split; intros H; try discriminate; try congruence.
  - apply Nat.eqb_eq in H; congruence.
  - inversion H; apply Nat.eqb_refl.
  - apply Z.eqb_eq in H; congruence.
  - inversion H; apply Z.eqb_refl.
Qed.
Lemma key_eqb_refl : forall a, key_eqb a a = true.
Proof. intros a; now apply key_eqb_eq. Qed.
Lemma key_eqb_sym : forall a b, key_eqb a b = key_eqb b a.
Proof.
  intros a b. destruct (key_eqb a b) eqn:E; destruct (key_eqb b a) eqn:F; try reflexivity.
  - apply key_eqb_eq in E; subst. now rewrite key_eqb_refl in F.
  - apply key_eqb_eq in F; subst. now rewrite key_eqb_refl in E.
Qed.

Section Proofs.
  Variables (G St K V : Type).
  Variable apply : G -> St -> St.
  Variable measure : K -> St -> V.
  Notation instr := (instr G K).
  Notation entry := (entry V).
  Notation log := (log V).
  Notation run := (run G St apply).
  Notation gates_of := (gates_of G K).
  Notation nsnaps := (nsnaps G K).
  Notation occs_from := (occs_from G St K V apply measure).
  Notation occs := (occs G St K V apply measure).
  Notation exec_dev := (exec_dev G St K V apply measure).
  Notation exec := (exec G St K V apply measure).
  Notation lookup := (lookup V).
  Notation set := (set V).
  Notation upd_dq := (upd_dq V).
  Notation upd_dm := (upd_dm V).
  Notation vals := (vals V).
  Notation pack := (pack V).
  Notation pack_last := (pack_last V).
  Notation erase := (erase G K).

  (* ---------------------------------------------------------------- lists of instructions *)
  Lemma gates_of_app : forall a b, gates_of (a ++ b) = gates_of a ++ gates_of b.
  Proof. induction a as [|[g|t k] a IH]; intros b; cbn; [reflexivity| now rewrite IH | apply IH]. Qed.
  Lemma nsnaps_app : forall a b, nsnaps (a ++ b) = (nsnaps a + nsnaps b)%nat.
  Proof. induction a as [|[g|t k] a IH]; intros b; cbn; [reflexivity| apply IH | now rewrite IH]. Qed.
  Lemma run_app : forall a b st, run (a ++ b) st = run b (run a st).
  Proof. intros; unfold SnapshotsModel.run; apply fold_left_app. Qed.
  Lemma gates_of_erase : forall c, gates_of (erase c) = gates_of c.
  Proof. induction c as [|[g|t k] c IH]; cbn; [reflexivity| now rewrite IH | apply IH]. Qed.
  Lemma nsnaps_erase : forall c, nsnaps (erase c) = 0%nat.
  Proof. induction c as [|[g|t k] c IH]; cbn; auto. Qed.

  (* ---------------------------------------------------------------- device execution = fold over the occurrences *)
  Lemma exec_dev_spec : forall upd c pre init l,
      exec_dev upd c (run (gates_of pre) init) (nsnaps pre) l
      = (run (gates_of (pre ++ c)) init,
         fold_left (fun l o => match o with (t, ord, v) => upd (tag_key t ord) v l end)
                   (occs_from pre c init) l).
  Proof.
    intros upd; induction c as [|[g|t k] c IH]; intros pre init l.
    - cbn. now rewrite app_nil_r.
    - cbn [SnapshotsModel.exec_dev SnapshotsModel.occs_from].
      specialize (IH (pre ++ [Gate G K g]) init l).
      rewrite gates_of_app, nsnaps_app, run_app in IH. cbn in IH. rewrite Nat.add_0_r in IH.
      rewrite IH. now rewrite <- app_assoc.
    - cbn [SnapshotsModel.exec_dev SnapshotsModel.occs_from fold_left].
      specialize (IH (pre ++ [Snap G K t k]) init
                     (upd (tag_key t (nsnaps pre)) (measure k (run (gates_of pre) init)) l)).
      rewrite gates_of_app, nsnaps_app in IH. cbn in IH. rewrite app_nil_r, Nat.add_1_r in IH.
      rewrite IH. now rewrite <- app_assoc.
  Qed.

  (* the j-th snapshot, sitting at position p, is logged with the value of the circuit truncated at p,
     and with ordinal = number of snapshots before it *)
  Lemma occs_from_prefix : forall c pre init p t k,
      nth_error c p = Some (Snap G K t k) ->
      nth_error (occs_from pre c init) (nsnaps (firstn p c))
      = Some (t, nsnaps (pre ++ firstn p c), measure k (run (gates_of (pre ++ firstn p c)) init)).
  Proof.
    induction c as [|x c IH]; intros pre init [|p] t k H; cbn in H; try discriminate.
    - inversion H; subst. cbn. now rewrite app_nil_r.
    - destruct x as [g|t' k'].
      + cbn [firstn SnapshotsModel.nsnaps SnapshotsModel.occs_from].
        rewrite (IH (pre ++ [Gate G K g]) init p t k H). now rewrite <- !app_assoc.
      + cbn [firstn SnapshotsModel.nsnaps SnapshotsModel.occs_from nth_error].
        rewrite (IH (pre ++ [Snap G K t' k']) init p t k H). now rewrite <- !app_assoc.
  Qed.

  Lemma occs_length : forall c pre init, length (occs_from pre c init) = nsnaps c.
  Proof. induction c as [|[g|t k] c IH]; intros; cbn; auto. Qed.

  Lemma occs_erase : forall c pre init, occs_from pre (erase c) init = [].
  Proof. induction c as [|[g|t k] c IH]; intros; cbn; auto. Qed.

  (* ---------------------------------------------------------------- dictionaries *)
  Lemma lookup_set : forall k k0 e l,
      lookup k (set k0 e l) = if key_eqb k k0 then Some e else lookup k l.
  Proof.
    intros k k0 e; induction l as [|[k' e'] l IH]; cbn.
    - reflexivity.
    - destruct (key_eqb k0 k') eqn:E0; cbn.
      + apply key_eqb_eq in E0; subst k'. destruct (key_eqb k k0); reflexivity.
      + destruct (key_eqb k k') eqn:E1.
        * destruct (key_eqb k k0) eqn:E2; [|reflexivity].
          apply key_eqb_eq in E1, E2; subst. now rewrite key_eqb_refl in E0.
        * apply IH.
  Qed.

  Lemma keys_set : forall k e l, map fst (set k e l) = add_key (map fst l) k.
  Proof.
    intros k e; unfold add_key; induction l as [|[k' e'] l IH]; cbn; [reflexivity|].
    destruct (key_eqb k k') eqn:E; cbn.
    - apply key_eqb_eq in E; now subst.
    - rewrite IH. destruct (existsb (key_eqb k) (map fst l)); reflexivity.
  Qed.

  Lemma keys_upd_dq : forall k v l, map fst (upd_dq k v l) = add_key (map fst l) k.
  Proof. intros; unfold SnapshotsModel.upd_dq. destruct (lookup k l) as [[v0|vs]|]; apply keys_set. Qed.

  Lemma keys_fold : forall (upd : key -> V -> log -> log),
      (forall k v l, map fst (upd k v l) = add_key (map fst l) k) ->
      forall kvs l, map fst (fold_left (fun l kv => upd (fst kv) (snd kv) l) kvs l)
                    = fold_left add_key (map fst kvs) (map fst l).
  Proof.
    intros upd H; induction kvs as [|[k v] kvs IH]; intros l; cbn; [reflexivity|].
    now rewrite IH, H.
  Qed.

  Lemma vals_snoc : forall k kvs k0 v,
      vals k (kvs ++ [(k0, v)]) = vals k kvs ++ (if key_eqb k k0 then [v] else []).
  Proof.
    intros. unfold SnapshotsModel.vals. rewrite filter_app, map_app. cbn.
    destruct (key_eqb k k0); reflexivity.
  Qed.

  (* default.qubit: under every key the list of all values logged under it, in order *)
  Lemma dq_lookup : forall kvs k,
      lookup k (fold_left (fun l kv => upd_dq (fst kv) (snd kv) l) kvs []) = pack (vals k kvs).
  Proof.
    induction kvs as [|[k0 v] kvs IH] using rev_ind; intros k; [reflexivity|].
    rewrite fold_left_app, vals_snoc. cbn [fold_left fst snd].
    set (L := fold_left (fun l kv => upd_dq (fst kv) (snd kv) l) kvs []) in *.
    unfold SnapshotsModel.upd_dq.
    pose proof (IH k0) as H0.
    destruct (lookup k0 L) as [[v0|vs]|] eqn:E0; rewrite lookup_set;
      destruct (key_eqb k k0) eqn:E; try (rewrite app_nil_r; apply IH);
      apply key_eqb_eq in E; subst k0.
    - (* One v0 *) destruct (vals k kvs) as [|a [|b r]]; cbn in H0; inversion H0; subst; reflexivity.
    - (* Many vs *) destruct (vals k kvs) as [|a [|b r]]; cbn in H0; inversion H0; subst. reflexivity.
    - destruct (vals k kvs) as [|a [|b r]]; cbn in H0; try discriminate. reflexivity.
  Qed.

  (* overwrite (default.mixed, tape splitting): the last value logged under the key *)
  Lemma over_lookup : forall kvs k,
      lookup k (fold_left (fun l kv => set (fst kv) (One V (snd kv)) l) kvs []) = pack_last (vals k kvs).
  Proof.
    induction kvs as [|[k0 v] kvs IH] using rev_ind; intros k; [reflexivity|].
    rewrite fold_left_app, vals_snoc. cbn [fold_left fst snd]. rewrite lookup_set.
    destruct (key_eqb k k0).
    - unfold SnapshotsModel.pack_last. now rewrite rev_app_distr.
    - rewrite app_nil_r. apply IH.
  Qed.

  (* ---------------------------------------------------------------- the three paths *)
  Lemma fold_occs_kvs : forall (upd : key -> V -> log -> log) (kf : option Z -> nat -> key) os l,
      fold_left (fun l o => match o with (t, ord, v) => upd (kf t ord) v l end) os l
      = fold_left (fun l kv => upd (fst kv) (snd kv) l)
                  (map (fun o : option Z * nat * V => match o with (t, ord, v) => (kf t ord, v) end) os) l.
  Proof. intros upd kf; induction os as [|[[t ord] v] os IH]; intros l; cbn; [reflexivity | apply IH]. Qed.

  Lemma exec_dq_spec : forall c init,
      exec (DQ) c init
      = (run (gates_of c) init,
         fold_left (fun l kv => upd_dq (fst kv) (snd kv) l) (dev_kvs G St K V apply measure c init) []).
  Proof.
    intros. unfold SnapshotsModel.exec, dev_kvs, SnapshotsModel.occs.
    pose proof (exec_dev_spec upd_dq c [] init []) as H. cbn in H. rewrite H. f_equal.
    apply fold_occs_kvs.
  Qed.

  (* default.mixed: with no empty-string tag the falsy-tag branch is only taken by the very first
     snapshot (integer tag 0) on an empty log, where both branches coincide *)
  Lemma exec_dm_over : forall c st num l,
      no_empty G K c = true -> (num = 0%nat -> l = []) -> (l = [] -> num = 0%nat) ->
      exec_dev upd_dm c st num l
      = exec_dev (fun k v l => set k (One V v) l) c st num l.
  Proof.
    induction c as [|[g|t k] c IH]; intros st num l Hne H1 H2; [reflexivity| |].
    - cbn [SnapshotsModel.exec_dev]. apply IH; auto.
    - cbn [SnapshotsModel.exec_dev].
      assert (Hu : upd_dm (tag_key t num) (measure k st) l = set (tag_key t num) (One V (measure k st)) l).
      { unfold SnapshotsModel.upd_dm. destruct (truthy (tag_key t num)) eqn:T; [reflexivity|].
        destruct t as [s|]; cbn in T.
        - destruct s; cbn in T; cbn in Hne; discriminate.
        - destruct num; [|discriminate]. now rewrite (H1 eq_refl). }
      rewrite Hu. apply IH.
      + destruct t as [[| |]|]; cbn in Hne; auto; discriminate.
      + discriminate.
      + intros E. exfalso. destruct l as [|[k' e'] l']; cbn in E; [discriminate|].
        destruct (key_eqb (tag_key t num) k'); discriminate.
  Qed.

  Lemma exec_dm_spec : forall c init, no_empty G K c = true ->
      exec (DM) c init
      = (run (gates_of c) init,
         fold_left (fun l kv => set (fst kv) (One V (snd kv)) l) (dev_kvs G St K V apply measure c init) []).
  Proof.
    intros c init Hne. unfold SnapshotsModel.exec, dev_kvs, SnapshotsModel.occs.
    rewrite exec_dm_over by auto.
    pose proof (exec_dev_spec (fun k v l => set k (One V v) l) c [] init []) as H. cbn in H.
    rewrite H. f_equal. apply (fold_occs_kvs (fun k v l => set k (One V v) l)).
  Qed.

  Lemma split_spec : forall c pre init,
      map (fun x => match x with (k, ops, m) => (k, measure m (run ops init)) end)
          (fst (split G K c (gates_of pre) (nsnaps pre)))
      = map (fun o => match o with (t, ord, v) => (tape_key t ord, v) end) (occs_from pre c init)
      /\ snd (split G K c (gates_of pre) (nsnaps pre)) = gates_of (pre ++ c).
  Proof.
    induction c as [|[g|t k] c IH]; intros pre init.
    - cbn. now rewrite app_nil_r.
    - cbn [SnapshotsModel.split SnapshotsModel.occs_from].
      specialize (IH (pre ++ [Gate G K g]) init). rewrite gates_of_app, nsnaps_app in IH. cbn in IH.
      rewrite Nat.add_0_r, <- app_assoc in IH. exact IH.
    - cbn [SnapshotsModel.split SnapshotsModel.occs_from].
      specialize (IH (pre ++ [Snap G K t k]) init). rewrite gates_of_app, nsnaps_app in IH. cbn in IH.
      rewrite app_nil_r, Nat.add_1_r, <- app_assoc in IH.
      destruct (split G K c (gates_of pre) (S (nsnaps pre))) as [ts fin]. cbn [fst snd map] in *.
      destruct IH as [IH1 IH2]. split; [now rewrite IH1 | exact IH2].
  Qed.

  Lemma exec_tape_spec : forall c init,
      exec (TAPE) c init
      = (run (gates_of c) init,
         fold_left (fun l kv => set (fst kv) (One V (snd kv)) l) (tape_kvs G St K V apply measure c init) []).
  Proof.
    intros. unfold SnapshotsModel.exec, exec_tape, tape_kvs, SnapshotsModel.occs.
    destruct (split_spec c [] init) as [H1 H2]. cbn in H1, H2.
    destruct (split G K c [] 0) as [ts fin]. cbn [fst snd] in *. subst fin. f_equal.
    rewrite <- H1. clear H1. generalize (@nil (key * entry)).
    induction ts as [|[[k ops] m] ts IH]; intros l; cbn; [reflexivity | apply IH].
  Qed.

  (* the final state is that of the circuit with the snapshots erased, on every path *)
  Lemma final_state : forall m c init, no_empty G K c = true \/ m <> DM ->
      fst (exec m c init) = run (gates_of c) init.
  Proof.
    intros [| |] c init H.
    - now rewrite exec_dq_spec.
    - destruct H as [H|H]; [now rewrite exec_dm_spec | congruence].
    - now rewrite exec_tape_spec.
  Qed.

  Lemma final_state_dm_any : forall c st num l, fst (exec_dev upd_dm c st num l) = run (gates_of c) st.
  Proof.
    induction c as [|[g|t k] c IH]; intros; cbn; [reflexivity | apply IH | apply IH].
  Qed.

  Lemma exec_erased : forall m c init, exec m (erase c) init = (run (gates_of c) init, []).
  Proof.
    intros m c init.
    assert (Hne : no_empty G K (erase c) = true) by (induction c as [|[g|t k] c IH]; cbn; auto).
    destruct m; [rewrite exec_dq_spec | rewrite exec_dm_spec by exact Hne | rewrite exec_tape_spec];
      unfold dev_kvs, tape_kvs, SnapshotsModel.occs; rewrite occs_erase, gates_of_erase; reflexivity.
  Qed.
End Proofs.

(* ------------------------------------------------------------------ concrete facts (non-vacuity, quirks) *)
Definition ex_circ : list (instr Z Z) :=
  [Snap Z Z None 0%Z; Gate Z Z 10%Z; Snap Z Z (Some 5%Z) 1%Z; Gate Z Z 11%Z; Snap Z Z (Some 5%Z) 2%Z;
   Snap Z Z None 0%Z; Gate Z Z 12%Z].

Lemma ex_dq : c_exec 0 ex_circ
  = ([10; 11; 12]%Z,
     [(KInt 0, One _ (0%Z, [])); (KStr 5, Many _ [(1%Z, [10%Z]); (2%Z, [10%Z; 11%Z])]);
      (KInt 3, One _ (0%Z, [10%Z; 11%Z]))]).
Proof. vm_compute. reflexivity. Qed.
Lemma ex_dm_tape : c_exec 1 ex_circ = c_exec 2 ex_circ
  /\ c_exec 1 ex_circ
     = ([10; 11; 12]%Z,
        [(KInt 0, One _ (0%Z, [])); (KStr 5, One _ (2%Z, [10%Z; 11%Z])); (KInt 3, One _ (0%Z, [10%Z; 11%Z]))]).
Proof. split; vm_compute; reflexivity. Qed.
(* the empty-string tag: default.qubit keeps it as a key, default.mixed and the tape path replace it by an
   integer (len(log) resp. the ordinal), which differ from each other after a duplicate tag *)
Lemma ex_empty_tag :
  let c := [Snap Z Z (Some 5%Z) 0%Z; Snap Z Z (Some 5%Z) 0%Z; Snap Z Z (Some 0%Z) 0%Z] in
  map fst (snd (c_exec 0 c)) = [KStr 5; KStr 0] /\
  map fst (snd (c_exec 1 c)) = [KStr 5; KInt 1] /\
  map fst (snd (c_exec 2 c)) = [KStr 5; KInt 2].
Proof. vm_compute. auto. Qed.
