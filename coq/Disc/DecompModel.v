(* C12: Gallina transcription of pennylane/transforms/decompose.py
     _operator_decomposition_gen  (the generator behind qp.transforms.decompose and devices.preprocess.decompose)
     decompose                    (top level: early return, budget taken from the graph solution, flattening)
   over an abstract operator alphabet.  Everything PennyLane computes outside this file is an explicit oracle in
   [env]: gate-set membership / stopping condition, the graph solution (rustworkx search), op.decomposition(),
   the custom decomposer.  No proofs here. *)
From Coq Require Import List ZArith Bool.
Import ListNotations.
Open Scope Z_scope.

(* operators: an opaque code, the class distinctions the generator branches on, and the Conditional wrapper *)
Inductive op :=
| Plain (c : Z)
| GPhase (c : Z)            (* isinstance(op, GlobalPhase) *)
| Sub (c : Z)               (* isinstance(op, SubroutineOp) *)
| Alloc (c : Z)             (* isinstance(op, (Allocate, Deallocate)) *)
| Cond (m : Z) (base : op). (* Conditional(meas_val, base) *)

(* why an operator was emitted; the warn/keep flags are the non-strict behaviour the model exposes *)
Inductive tag := TAcc | TPass | TDepth | TWarnGP | TWarnNoDecomp | TKeepNoDecomp.
Inductive err := EFuel | EUndefined | ECustomUndefined | EOracle.
Inductive result (A : Type) := Ok (a : A) | Err (e : err).
Arguments Ok {A} a. Arguments Err {A} e.

Definition emitted := (op * tag * option Z)%type.   (* operator, reason, num_work_wires of the emitting call *)
Definition e_op (e : emitted) : op := fst (fst e).
Definition e_tag (e : emitted) : tag := snd (fst e).
Definition e_budget (e : emitted) : option Z := snd e.

Record env := mkEnv {
  defined : op -> bool;                               (* domain on which the oracles below were recorded *)
  accept : op -> bool;                                (* acceptance_function *)
  has_solution : bool;                                (* graph_solution is not None *)
  gsolve : op -> option Z -> option (list op * Z);    (* is_solved_for(op, n) ; rule output ; work_wire_spec.total *)
  graph_enabled : bool;                               (* enabled_graph() *)
  custom : option (op -> option (list op));           (* custom_decomposer ; None = DecompositionUndefinedError *)
  legacy : op -> option (list op);                    (* has_decomposition ; op.decomposition() *)
  strict : bool;
  max_expansion : option Z }.

Fixpoint bind_flat {A} (f : A -> result (list emitted)) (l : list A) : result (list emitted) :=
  match l with
  | [] => Ok []
  | x :: r => match f x with
              | Err e => Err e
              | Ok a => match bind_flat f r with Err e => Err e | Ok b => Ok (a ++ b) end
              end
  end.

Definition depth_reached (mx : option Z) (d : Z) : bool :=
  match mx with Some m => m <=? d | None => false end.
Definition dec_budget (b : option Z) (s : Z) : option Z :=
  match b with Some x => Some (x - s) | None => None end.
Definition wrap_cond (m : Z) (e : emitted) : emitted := (Cond m (e_op e), e_tag e, e_budget e).
Definition is_gphase (o : op) : bool := match o with GPhase _ => true | _ => false end.
Definition is_sub (o : op) : bool := match o with Sub _ => true | _ => false end.

(* _operator_decomposition_gen.  fuel = Python recursion depth (RecursionError = EFuel). *)
Fixpoint gen (fuel : nat) (E : env) (o : op) (depth : Z) (budget : option Z) : result (list emitted) :=
  match fuel with
  | O => Err EFuel
  | S f =>
    if negb (defined E o) then Err EOracle else
    let reached := depth_reached (max_expansion E) depth in
    let recurse (decomp : list op) (b' : option Z) :=
        bind_flat (fun s => gen f E s (depth + 1) b') decomp in
    match o with
    | Alloc _ => Ok [(o, TPass, budget)]
    | Cond m base =>
        if accept E base then Ok [(o, TAcc, budget)]
        else if reached then Ok [(o, TDepth, budget)]
        else (* the recursive call does not pass num_work_wires: it restarts from the default 0 *)
          match gen f E base depth (Some 0) with
          | Err e => Err e
          | Ok l => Ok (map (wrap_cond m) l)
          end
    | _ =>
        if accept E o then Ok [(o, TAcc, budget)]
        else if reached then Ok [(o, TDepth, budget)]
        else if is_sub o then
          match legacy E o with Some d => recurse d budget | None => Err EUndefined end
        else
          match (if has_solution E then gsolve E o budget else None) with
          | Some (d, s) => recurse d (dec_budget budget s)
          | None =>
              if graph_enabled E && is_gphase o then Ok [(o, TWarnGP, budget)]
              else match custom E with
                   | Some cf => match cf o with Some d => recurse d budget | None => Err ECustomUndefined end
                   | None =>
                       match legacy E o with
                       | Some d => recurse d budget
                       | None => if strict E then Err EUndefined
                                 else Ok [(o, if graph_enabled E then TKeepNoDecomp else TWarnNoDecomp, budget)]
                       end
                   end
          end
    end
  end.

(* qp.transforms.decompose on the operation list (transform = true: the tape is returned unchanged when every
   operation satisfies the stopping condition); b0 = num_work_wires after `decomp_graph_solution.num_work_wires`. *)
Definition decompose (fuel : nat) (E : env) (transform : bool) (ops : list op) (b0 : option Z)
  : result (list emitted) :=
  if transform && forallb (accept E) ops then Ok (map (fun o => (o, TAcc, b0)) ops)
  else bind_flat (fun o => gen fuel E o 0 b0) ops.

(* ---- the notions the theorems speak about ---- *)
Fixpoint inner (o : op) : op := match o with Cond _ b => inner b | _ => o end.
Fixpoint acc_under (E : env) (o : op) : bool :=
  accept E o || match o with Cond _ b => acc_under E b | _ => false end.
Definition is_alloc (o : op) : bool := match o with Alloc _ => true | _ => false end.

Definition emit_ok (E : env) (e : emitted) : Prop :=
  match e_tag e with
  | TAcc => acc_under E (e_op e) = true
  | TPass => is_alloc (inner (e_op e)) = true
  | TDepth => max_expansion E <> None
  | TWarnGP => graph_enabled E = true /\ is_gphase (inner (e_op e)) = true
  | TWarnNoDecomp => strict E = false /\ graph_enabled E = false /\ legacy E (inner (e_op e)) = None
  | TKeepNoDecomp => strict E = false /\ graph_enabled E = true /\ legacy E (inner (e_op e)) = None
  end.
Definition flagged (t : tag) : bool :=
  match t with TWarnGP | TWarnNoDecomp | TKeepNoDecomp => true | _ => false end.

(* resource estimate at the level of gate types: [tchoose t] = declared resources of the rule chosen for type t
   (None: t is a target gate).  [expand] sums the declared resources along the chosen tree. *)
Definition unfold_res (rs : list (Z * N)) : list Z :=
  flat_map (fun p => repeat (fst p) (N.to_nat (snd p))) rs.
Fixpoint obind_flat {A B} (f : A -> option (list B)) (l : list A) : option (list B) :=
  match l with
  | [] => Some []
  | x :: r => match f x, obind_flat f r with Some a, Some b => Some (a ++ b) | _, _ => None end
  end.
Fixpoint expand (fuel : nat) (tchoose : Z -> option (list (Z * N))) (t : Z) : option (list Z) :=
  match fuel with
  | O => None
  | S f => match tchoose t with
           | None => Some [t]
           | Some rs => obind_flat (expand f tchoose) (unfold_res rs)
           end
  end.

(* ---- correspondence (tie K): oracles given as finite tables recorded from the run ---- *)
Record cfg := mkCfg {
  c_acc : list Z;                                   (* codes of accepted operators *)
  c_cacc : list Z;                                  (* base codes whose Conditional wrapper is itself accepted *)
  c_gtab : list (Z * option Z * (list op * Z));     (* (code, budget) -> rule output, work-wire spec *)
  c_ltab : list (Z * list op);                      (* code -> op.decomposition() *)
  c_hassol : bool; c_graph : bool; c_strict : bool; c_custom : bool;
  c_maxexp : option Z; c_b0 : option Z; c_transform : bool;
  c_known : list Z }.

Fixpoint code (o : op) : Z :=
  match o with Plain c | GPhase c | Sub c | Alloc c => c | Cond _ b => code b end.
Definition zmem (x : Z) (l : list Z) : bool := existsb (Z.eqb x) l.
Definition oz_eqb (a b : option Z) : bool :=
  match a, b with Some x, Some y => x =? y | None, None => true | _, _ => false end.
Fixpoint glookup (t : list (Z * option Z * (list op * Z))) (c : Z) (b : option Z) : option (list op * Z) :=
  match t with
  | [] => None
  | (c', b', v) :: r => if (c =? c') && oz_eqb b b' then Some v else glookup r c b
  end.
Fixpoint llookup (t : list (Z * list op)) (c : Z) : option (list op) :=
  match t with [] => None | (c', v) :: r => if c =? c' then Some v else llookup r c end.

Definition env_of (C : cfg) : env :=
  let leg := fun o => match o with Cond _ _ => None | _ => llookup (c_ltab C) (code o) end in
  mkEnv (fun o => zmem (code o) (c_known C))
        (fun o => match o with Cond _ _ => zmem (code o) (c_cacc C) | _ => zmem (code o) (c_acc C) end)
        (c_hassol C)
        (fun o b => match o with Cond _ _ => None | _ => glookup (c_gtab C) (code o) b end)
        (c_graph C)
        (if c_custom C then Some leg else None)
        leg (c_strict C) (c_maxexp C).

Fixpoint op_eqb (a b : op) : bool :=
  match a, b with
  | Plain x, Plain y | GPhase x, GPhase y | Sub x, Sub y | Alloc x, Alloc y => x =? y
  | Cond m x, Cond n y => (m =? n) && op_eqb x y
  | _, _ => false
  end.
Fixpoint list_eqb {A} (eq : A -> A -> bool) (l1 l2 : list A) : bool :=
  match l1, l2 with
  | [], [] => true
  | x :: r, y :: s => eq x y && list_eqb eq r s
  | _, _ => false
  end.
Definition is_warn (t : tag) : bool := match t with TWarnGP | TWarnNoDecomp => true | _ => false end.

(* expected = None: the implementation raised ; Some (emitted operators with the emitting call's num_work_wires,
   number of warnings issued by the generator) *)
Definition run_model (C : cfg) (ops : list op) : result (list emitted) :=
  decompose 300 (env_of C) (c_transform C) ops (c_b0 C).
Definition check_case (x : cfg * list op * option (list (op * option Z) * Z)) : bool :=
  let '(C, ops, expected) := x in
  match run_model C ops, expected with
  | Ok out, Some (l, nwarn) =>
      list_eqb (fun a b => op_eqb (fst a) (fst b) && oz_eqb (snd a) (snd b))
               (map (fun e => (e_op e, e_budget e)) out) l
      && (Z.of_nat (length (filter (fun e => is_warn (e_tag e)) out)) =? nwarn)
  | Err _, None => true
  | _, _ => false
  end.
