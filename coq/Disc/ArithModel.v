(* C56 Arithmetic templates: CLASSICAL reversible semantics ("path sums" without phases).
   A register state is a total map wire-position -> bit.  Gates: X / CNOT / Toffoli / MultiControlledX
   (with control values), SWAP / CSWAP, TemporaryAND and its adjoint (reversible AND, with the documented
   domain restriction: target 0 before, resp. 0 after - outside the domain the simulator answers None).
   Circuits are lists of gates.  The decompositions of SemiAdder, Incrementer, IntegerComparator,
   QubitCarry, QubitSum, TemporaryAND are transcribed from
     pennylane/templates/subroutines/arithmetic/{semi_adder,incrementer,temporary_and}.py
     pennylane/ops/qubit/arithmetic_ops.py
   as functions of the wire lists (all register sizes).  No proofs in this file. *)
From Coq Require Import List ZArith Bool.
Import ListNotations.
Open Scope Z_scope.

Definition st := nat -> bool.
Definition upd (s : st) (i : nat) (b : bool) : st := fun j => if Nat.eqb j i then b else s j.
Definition b2z (b : bool) : Z := if b then 1 else 0.

Inductive gate :=
| GX (cs : list (nat * bool)) (t : nat)            (* X, CNOT, Toffoli, MultiControlledX / C(X) with control values *)
| GSwap (cs : list (nat * bool)) (a b : nat)       (* SWAP, CSWAP *)
| GAnd (cs : list (nat * bool)) (t : nat)          (* TemporaryAND : documented domain = target |0> before *)
| GAndAdj (cs : list (nat * bool)) (t : nat).      (* Adjoint(TemporaryAND) : documented domain = target |0> after *)

Definition ctrl_ok (s : st) (cs : list (nat * bool)) : bool :=
  forallb (fun cv => Bool.eqb (s (fst cv)) (snd cv)) cs.

(* every gate is written as an update of its target(s) with a boolean expression of the old state
   (flip iff the controls hold), so that circuits evaluate to explicit update chains *)
Definition apply_gate (g : gate) (s : st) : option st :=
  match g with
  | GX cs t => Some (upd s t (xorb (s t) (ctrl_ok s cs)))
  | GSwap cs a b => let c := ctrl_ok s cs in
                    Some (upd (upd s a (if c then s b else s a)) b (if c then s a else s b))
  | GAnd cs t => if s t then None else Some (upd s t (ctrl_ok s cs))
  | GAndAdj cs t => if xorb (s t) (ctrl_ok s cs) then None else Some (upd s t false)
  end.

Fixpoint run (c : list gate) (s : st) : option st :=
  match c with
  | [] => Some s
  | g :: r => match apply_gate g s with Some s' => run r s' | None => None end
  end.

Definition CNOT (c t : nat) := GX [(c, true)] t.
Definition TOF (a b t : nat) := GX [(a, true); (b, true)] t.
Definition XG (t : nat) := GX [] t.
Definition AND (a b t : nat) := GAnd [(a, true); (b, true)] t.
Definition ANDadj (a b t : nat) := GAndAdj [(a, true); (b, true)] t.

(* ---------------------------------------------------------------- integers in registers *)
(* little endian: first wire = least significant bit *)
Fixpoint val_le (s : st) (l : list nat) : Z :=
  match l with [] => 0 | w :: r => b2z (s w) + 2 * val_le s r end.
(* PennyLane registers are big endian: first wire = most significant bit *)
Definition val_be (s : st) (l : list nat) : Z := val_le s (rev l).

Fixpoint set_le (s : st) (l : list nat) (v : Z) : st :=
  match l with [] => s | w :: r => set_le (upd s w (Z.odd v)) r (Z.div2 v) end.
Definition set_be (s : st) (l : list nat) (v : Z) : st := set_le s (rev l) v.

Definition pow2 (l : list nat) : Z := 2 ^ Z.of_nat (length l).

(* ---------------------------------------------------------------- transcribed decompositions *)
(* QubitSum / QubitCarry : compute_decomposition *)
Definition qubit_sum (a b c : nat) : list gate := [CNOT b c; CNOT a c].
Definition qubit_carry (a b c d : nat) : list gate := [TOF b c d; CNOT b c; TOF a c d].

(* TemporaryAND with control values (rule _temporary_and_to_toffoli is its classical content) *)
Definition temporary_and (cv0 cv1 : bool) (a b t : nat) : list gate := [GAnd [(a, cv0); (b, cv1)] t].

(* SemiAdder._semi_adder.  The left ladder (blocks i = 1 .. ) and the right ladder (same blocks in reverse
   order) are generated here as a nested recursion  L_i ++ (rest) ++ R_i  over the little-endian wire lists;
   c = wire holding the incoming carry.  Equality of the produced gate LIST with the real decomposition is
   part of the correspondence check. *)
Fixpoint adder_body (c : nat) (xs ys ws : list nat) : list gate :=
  match ys with
  | [] => []
  | yi :: ys' =>
    match ys' with
    | [] => CNOT c yi :: match xs with xt :: _ => [CNOT xt yi] | [] => [] end
    | _ :: _ =>
      match ws with
      | [] => []
      | wi :: ws' =>
        match xs with
        | xi :: xs' =>
            [CNOT c xi; CNOT c yi; AND xi yi wi; CNOT c wi]
            ++ adder_body wi xs' ys' ws'
            ++ [CNOT c wi; ANDadj xi yi wi; CNOT c xi; CNOT xi yi]
        | [] =>
            [AND c yi wi] ++ adder_body wi [] ys' ws' ++ [ANDadj c yi wi; CNOT c yi]
        end
      end
    end
  end.

(* little-endian core: x0::xs, y0::ys, w0::ws *)
Definition adder_le (xs ys ws : list nat) : list gate :=
  match xs, ys with
  | x0 :: xs', y0 :: ys' =>
    match ys' with
    | [] => [CNOT x0 y0]
    | _ :: _ =>
      match ws with
      | w0 :: ws' => [AND x0 y0 w0] ++ adder_body w0 xs' ys' ws' ++ [ANDadj x0 y0 w0; CNOT x0 y0]
      | [] => []
      end
    end
  | _, _ => []
  end.

(* big-endian registers as PennyLane passes them; only the first |y|-1 work wires are used *)
Definition semi_adder (xw yw ww : list nat) : list gate :=
  adder_le (rev xw) (rev yw) (rev (firstn (length yw - 1) ww)).

(* Incrementer._incrementer_decomposition (left elbow ladder, CNOT + right elbow ladder, CNOT, X) *)
Fixpoint inc_lvl (c : nat) (rs ws : list nat) : list gate :=
  match rs with
  | ri :: rs' =>
    match rs' with
    | rn :: _ =>
      match ws with
      | wi :: ws' => AND c ri wi :: inc_lvl wi rs' ws' ++ [CNOT wi rn; ANDadj c ri wi]
      | [] => []
      end
    | [] => []
    end
  | [] => []
  end.

Definition inc_le (rs ws : list nat) : list gate :=
  match rs with
  | [] => []
  | r0 :: rs' =>
    match rs' with
    | [] => [XG r0]
    | r1 :: _ => inc_lvl r0 rs' ws ++ [CNOT r0 r1; XG r0]
    end
  end.
Definition incrementer (wires work : list nat) : list gate := inc_le (rev wires) work.

(* Incrementer._incrementer_fallback_decomposition : for i = n downto 2 (for_loop(len(wires), 1, -1)):
   MultiControlledX(controls = the i-1 least significant wires (lsb first), target = wire of weight 2^(i-1));
   then X(lsb).  Generated as a recursion over the little-endian wire list: `pref` = the wires below the
   current target; the gate of the HIGHER targets comes first.  Equality of the produced gate list with the
   real decomposition is part of the correspondence check. *)
Definition ones (l : list nat) : list (nat * bool) := map (fun w => (w, true)) l.
Fixpoint mcx_ladder (pref rest : list nat) : list gate :=
  match rest with
  | [] => []
  | t :: rest' => mcx_ladder (pref ++ [t]) rest' ++ [GX (ones pref) t]
  end.
Definition inc_fallback_le (r : list nat) : list gate :=
  match r with [] => [] | r0 :: rs => mcx_ladder [r0] rs ++ [XG r0] end.
Definition incrementer_fallback (wires : list nat) : list gate := inc_fallback_le (rev wires).

(* IntegerComparator: bits of the value, most significant first, over n control wires *)
Fixpoint bits_be (n : nat) (v : Z) : list bool :=
  match n with O => [] | S m => Z.testbit v (Z.of_nat m) :: bits_be m v end.

(* loop over the positions whose value-bit equals `sel`: MCX(prefix up to and including the position) ; X(position) *)
Fixpoint cmp_loop (sel : bool) (pref ws : list nat) (bits : list bool) (tgt : nat) : list gate :=
  match ws, bits with
  | w :: ws', b :: bits' =>
      (if Bool.eqb b sel then [GX (ones (pref ++ [w])) tgt; XG w] else [])
      ++ cmp_loop sel (pref ++ [w]) ws' bits' tgt
  | _, _ => []
  end.
Fixpoint sel_wires (sel : bool) (ws : list nat) (bits : list bool) : list nat :=
  match ws, bits with
  | w :: ws', b :: bits' => (if Bool.eqb b sel then [w] else []) ++ sel_wires sel ws' bits'
  | _, _ => []
  end.
Fixpoint last_true (bits : list bool) (i : nat) (acc : nat) : nat :=   (* 1 + index of last true bit *)
  match bits with [] => acc | b :: r => last_true r (S i) (if b then S i else acc) end.

(* _integer_comparator_ge_decomposition *)
Definition comparator_ge (L : Z) (ws : list nat) (tgt : nat) : list gate :=
  if L =? 0 then [XG tgt]
  else if 2 ^ Z.of_nat (length ws) - 1 <? L then []
  else let bits := bits_be (length ws) L in
       cmp_loop false [] ws bits tgt ++ [GX (ones ws) tgt] ++ map XG (sel_wires false ws bits).

(* _integer_comparator_lt_decomposition *)
Definition comparator_lt (L : Z) (ws : list nat) (tgt : nat) : list gate :=
  if L =? 0 then []
  else if 2 ^ Z.of_nat (length ws) - 1 <? L then [XG tgt]
  else let bits := bits_be (length ws) L in
       let ls := last_true bits O O in
       map XG (firstn ls ws) ++ cmp_loop true [] ws bits tgt
       ++ map XG (sel_wires false (firstn ls ws) (firstn ls bits)).

Definition comparator (L : Z) (geq : bool) (ws : list nat) (tgt : nat) : list gate :=
  if geq then comparator_ge L ws tgt else comparator_lt L ws tgt.

(* ---------------------------------------------------------------- documented functions (specifications) *)
Definition signedZ (n : Z) (x : Z) : Z := if 2 ^ (n - 1) <=? x then x - 2 ^ n else x.   (* two's complement, n bits *)

Inductive spec :=
| SAddC (k m : Z)            (* [x]       -> [(x+k) mod m]                         Adder (PhaseAdder in Fourier basis) *)
| SSemiAdd                   (* [x;y]     -> [x; (x+y) mod 2^|y|]                  SemiAdder *)
| SInc                       (* [x]       -> [(x+1) mod 2^|x|]                     Incrementer *)
| SCmp (L : Z) (geq : bool)  (* [x;t]     -> [x; t xor (x>=L)] resp. (x<L)         IntegerComparator *)
| SAnd (cv : Z)              (* [ab;t]    -> [ab; t xor (ab = cv)]                 TemporaryAND and adjoint *)
| SCarry                     (* [a;b;c;d] -> [a;b;b^c; bc ^ d ^ (b^c)a]            QubitCarry *)
| SSum                       (* [a;b;c]   -> [a;b;a^b^c]                           QubitSum *)
| SOutAdd (m : Z)            (* [x;y;b]   -> [x;y;(b+x+y) mod m]                   OutAdder *)
| SMulC (k m : Z)            (* [x]       -> [x*k mod m]                           Multiplier *)
| SOutMul (m : Z)            (* [x;y;z]   -> [x;y;(z+x*y) mod m]                   OutMultiplier *)
| SSOutMul                   (* [x;y;z]   -> [x;y;(z+sx*sy) mod 2^|z|]             SignedOutMultiplier *)
| SModExp (b m : Z)          (* [x;o]     -> [x;o*b^x mod m]                       ModExp *)
| SOutSq                     (* [x;y]     -> [x;(y+x^2) mod 2^|y|]                 OutSquare *)
| SSOutSq                    (* [x;y]     -> [x;(y+sx^2) mod 2^|y|]                SignedOutSquare *)
| SCtrl (cv : Z) (s : spec). (* [c;...]   -> s applied iff control register = cv   C(op) *)

Definition xorz (a b : Z) : Z := (a + b) mod 2.

Fixpoint spec_eval (sp : spec) (sizes vals : list Z) : list Z :=
  match sp, sizes, vals with
  | SAddC k m, _, [x] => [(x + k) mod m]
  | SSemiAdd, [_; ny], [x; y] => [x; (x + y) mod 2 ^ ny]
  | SInc, [n], [x] => [(x + 1) mod 2 ^ n]
  | SCmp L geq, _, [x; t] => [x; xorz t (b2z (if geq then L <=? x else x <? L))]
  | SAnd cv, _, [ab; t] => [ab; xorz t (b2z (ab =? cv))]
  | SCarry, _, [a; b; c; d] => [a; b; xorz b c; (b * c + d + xorz b c * a) mod 2]
  | SSum, _, [a; b; c] => [a; b; (a + b + c) mod 2]
  | SOutAdd m, _, [x; y; b] => [x; y; (b + x + y) mod m]
  | SMulC k m, _, [x] => [(x * k) mod m]
  | SOutMul m, _, [x; y; z] => [x; y; (z + x * y) mod m]
  | SSOutMul, [nx; ny; nz], [x; y; z] => [x; y; (z + signedZ nx x * signedZ ny y) mod 2 ^ nz]
  | SModExp b m, _, [x; o] => [x; (o * b ^ x) mod m]
  | SOutSq, [_; ny], [x; y] => [x; (y + x * x) mod 2 ^ ny]
  | SSOutSq, [nx; ny], [x; y] => [x; (y + signedZ nx x * signedZ nx x) mod 2 ^ ny]
  | SCtrl cv s, _ :: sizes', c :: vals' => c :: (if c =? cv then spec_eval s sizes' vals' else vals')
  | _, _, _ => vals
  end.

(* ---------------------------------------------------------------- correspondence check (tie) *)
Definition zero_st : st := fun _ => false.
Fixpoint load (s : st) (regs : list (list nat)) (vals : list Z) : st :=
  match regs, vals with
  | r :: regs', v :: vals' => load (set_be s r v) regs' vals'
  | _, _ => s
  end.
Definition st_eqb (n : nat) (a b : st) : bool := forallb (fun i => Bool.eqb (a i) (b i)) (seq 0 n).

Definition gate_eqb (g h : gate) : bool :=
  let ceq := fix ceq (a b : list (nat * bool)) : bool :=
    match a, b with
    | [], [] => true
    | (w, v) :: a', (w', v') :: b' => Nat.eqb w w' && Bool.eqb v v' && ceq a' b'
    | _, _ => false
    end in
  match g, h with
  | GX c t, GX c' t' => ceq c c' && Nat.eqb t t'
  | GSwap c a b, GSwap c' a' b' => ceq c c' && Nat.eqb a a' && Nat.eqb b b'
  | GAnd c t, GAnd c' t' => ceq c c' && Nat.eqb t t'
  | GAndAdj c t, GAndAdj c' t' => ceq c c' && Nat.eqb t t'
  | _, _ => false
  end.
Fixpoint gates_eqb (a b : list gate) : bool :=
  match a, b with
  | [], [] => true
  | g :: a', h :: b' => gate_eqb g h && gates_eqb a' b'
  | _, _ => false
  end.

(* which transcribed decomposition (if any) the exported gate list must coincide with *)
Inductive tmodel :=
| MNone
| MSemiAdder (xw yw ww : list nat)
| MIncrementer (wires work : list nat)
| MIncFallback (wires : list nat)
| MComparator (L : Z) (geq : bool) (ws : list nat) (tgt : nat)
| MCarry (a b c d : nat)
| MSum (a b c : nat)
| MAnd (cv0 cv1 : bool) (a b t : nat).

Definition model_circ (m : tmodel) : option (list gate) :=
  match m with
  | MNone => None
  | MSemiAdder x y w => Some (semi_adder x y w)
  | MIncrementer w k => Some (incrementer w k)
  | MIncFallback w => Some (incrementer_fallback w)
  | MComparator L g ws t => Some (comparator L g ws t)
  | MCarry a b c d => Some (qubit_carry a b c d)
  | MSum a b c => Some (qubit_sum a b c)
  | MAnd c0 c1 a b t => Some (temporary_and c0 c1 a b t)
  end.

Record case := { c_spec : spec; c_regs : list (list nat); c_nw : nat; c_gates : list gate;
                 c_model : tmodel; c_inputs : list (list Z) }.

(* the exported real decomposition, simulated classically on every listed basis input, yields exactly the
   documented function of the register values, every other wire (work wires, allocated wires) back in 0 *)
Definition check_input (c : case) (vals : list Z) : bool :=
  let sizes := map (fun r => Z.of_nat (length r)) (c_regs c) in
  match run (c_gates c) (load zero_st (c_regs c) vals) with
  | None => false
  | Some s' => st_eqb (c_nw c) s' (load zero_st (c_regs c) (spec_eval (c_spec c) sizes vals))
  end.
Definition check_sem (c : case) : bool := forallb (check_input c) (c_inputs c).
Definition check_syn (c : case) : bool :=
  match model_circ (c_model c) with None => true | Some g => gates_eqb g (c_gates c) end.
(* result code: 0 ok, 1 semantics differ, 2 gate list differs from the transcription, 3 both *)
Definition check_code (c : case) : Z := (if check_sem c then 0 else 1) + (if check_syn c then 0 else 2).
Definition check_case (c : case) : bool := check_sem c && check_syn c.
Definition check_sem_only (c : case) : bool := check_sem c.
