(* Model of the resource summaries of a tape (C46):
     pennylane/resource/resource.py   _count_resources / _mp_to_str / SpecsResources.__post_init__
     pennylane/circuit_graph.py       _construct_graph_from_queue / CircuitGraph._depth / _get_wires
     pennylane/core/qscript.py        wires (Wires.all_wires), par_info, trainable_params, num_params
     pennylane/estimator/resources_base.py  Resources.add_series/add_parallel/multiply_series/multiply_parallel
     pennylane/resource/expression.py Expression.__add__ / __mul__ (int) / subs  (symbolic counts)
   No proofs here: this file must keep running for the correspondence check even when a proof breaks. *)
From Coq Require Import List ZArith Bool.
Import ListNotations.
Open Scope Z_scope.

(* ------------------------------------------------------------------ circuits *)
Record gate := mkGate {
  gname : Z;          (* code of op.name *)
  gwires : list Z;    (* op.wires (labels renamed to integers) *)
  gnpar : Z;          (* len(op.data) *)
  gctrl : Z;          (* len(op.control_wires) when type(op) is exactly Controlled / ControlledOp, else 0 *)
  gmid : list Z;      (* [key] when the op is a MidMeasure / PauliMeasure (key = its identity as a dict key) *)
  gcond : list Z      (* keys of op.meas_val.measurements when the op is a Conditional *)
}.

Record meas := mkMeas {
  mshort : Z;         (* code of mp._shortname *)
  mhasmv : bool;      (* mp.mv is not None *)
  mobs : option Z;    (* code of _obs_to_str(mp.obs) when mp.obs is not None *)
  mwires : list Z;    (* mp.wires *)
  mnpar : Z           (* len(mp.obs.data) (0 without observable) *)
}.

Record circuit := mkCirc {
  ops : list gate;
  meass : list meas;
  trainable : option (list Z)   (* indices assigned through the trainable_params setter, None = default *)
}.

(* ---- dictionaries with insertion order: defaultdict(int)[k] += 1 ---- *)
Definition ckey := (Z * Z * Z)%type.
Definition ckeyb (a b : ckey) : bool :=
  match a, b with (a1, a2, a3), (b1, b2, b3) => (a1 =? b1) && (a2 =? b2) && (a3 =? b3) end.

Fixpoint bump (k : ckey) (l : list (ckey * Z)) : list (ckey * Z) :=
  match l with
  | [] => [(k, 1)]
  | (k', v) :: r => if ckeyb k' k then (k', v + 1) :: r else (k', v) :: bump k r
  end.

Definition count_by {A : Type} (f : A -> ckey) (l : list A) : list (ckey * Z) :=
  fold_left (fun acc x => bump (f x) acc) l [].

Fixpoint cget (k : ckey) (l : list (ckey * Z)) : Z :=
  match l with [] => 0 | (k', v) :: r => if ckeyb k' k then v else cget k r end.

(* sum(_flatten_dict(counts).values()) *)
Definition ctotal (l : list (ckey * Z)) : Z := fold_right (fun p a => snd p + a) 0 l.

(* gate_name = op.name, prefixed by the number of controls for bare Controlled ops with > 1 control *)
Definition gkey (g : gate) : ckey := (gname g, (if 1 <? gctrl g then gctrl g else 0), 0).
(* gate size (number of wires); no counterpart in the pinned SpecsResources, kept as a derived summary *)
Definition gsize (g : gate) : ckey := (Z.of_nat (length (gwires g)), 0, 0).

Definition gate_counts (c : circuit) : list (ckey * Z) := count_by gkey (ops c).
Definition size_counts (c : circuit) : list (ckey * Z) := count_by gsize (ops c).

(* ---- tape.wires = Wires.all_wires(...) : list(dict.fromkeys(chain(...))) ---- *)
Fixpoint memZ (x : Z) (l : list Z) : bool :=
  match l with [] => false | y :: r => (x =? y) || memZ x r end.

Fixpoint dedup_acc (seen l : list Z) : list Z :=
  match l with
  | [] => []
  | x :: r => if memZ x seen then dedup_acc seen r else x :: dedup_acc (x :: seen) r
  end.
Definition dedup (l : list Z) : list Z := dedup_acc [] l.

Definition all_wires (c : circuit) : list Z :=
  dedup (flat_map gwires (ops c) ++ flat_map mwires (meass c)).
Definition num_wires (c : circuit) : Z := Z.of_nat (length (all_wires c)).

(* _mp_to_str(mp, num_wires):  (shortname, variant, argument)
     variant 0 "(mcm)", 1 "(all wires)", 2 "(k wires)", 3 "(<observable>)" *)
Definition mkey (nw : Z) (m : meas) : ckey :=
  if mhasmv m then (mshort m, 0, 0)
  else match mobs m with
       | None => let k := Z.of_nat (length (mwires m)) in
                 if (k =? 0) || (k =? nw) then (mshort m, 1, 0) else (mshort m, 2, k)
       | Some o => (mshort m, 3, o)
       end.
Definition meas_counts (c : circuit) : list (ckey * Z) := count_by (mkey (num_wires c)) (meass c).

(* ---- parameters: par_info / trainable_params / num_params ---- *)
Definition total_params (c : circuit) : Z :=
  fold_right (fun g a => gnpar g + a) 0 (ops c) + fold_right (fun m a => mnpar m + a) 0 (meass c).
Definition num_params (c : circuit) : Z :=
  match trainable c with
  | None => total_params c
  | Some l => Z.of_nat (length (dedup l))        (* sorted(set(param_indices)) *)
  end.

(* ---- depth: _construct_graph_from_queue + longest path ----
   The graph has one edge from the previous node on each (effective) wire of a node, and one edge from
   the node of every mid-circuit measurement a Conditional depends on.  rx.dag_longest_path_length
   (unit weights) is replaced by the level recursion: level(node) = 0 without predecessor, else
   1 + max level(pred); result = max level.  Dictionaries nodes_on_wires[w][-1] / mid_measure_nodes[m]
   are one association list keyed by (0, wire) / (1, mcm key); newest entry first. *)
Definition key := (Z * Z)%type.
Definition KW (w : Z) : key := (0, w).
Definition KM (m : Z) : key := (1, m).
Definition keyb (a b : key) : bool := (fst a =? fst b) && (snd a =? snd b).

Definition front := list (key * Z).
Fixpoint flook (F : front) (k : key) : option Z :=
  match F with [] => None | (k', v) :: r => if keyb k' k then Some v else flook r k end.

Record node := mkNode { uses : list key; writes : list key }.

Definition preds (F : front) (n : node) : list Z :=
  flat_map (fun k => match flook F k with Some v => [v] | None => [] end) (uses n).
Definition maxl (l : list Z) : Z := fold_right Z.max 0 l.
Definition level (F : front) (n : node) : Z :=
  match preds F n with [] => 0 | l => 1 + maxl l end.
Definition push (ws : list key) (v : Z) (F : front) : front := map (fun k => (k, v)) ws ++ F.

Fixpoint run_st (F : front) (acc : Z) (q : list node) : front * Z :=
  match q with
  | [] => (F, acc)
  | n :: r => let v := level F n in run_st (push (writes n) v F) (Z.max acc v) r
  end.
Definition run (F : front) (acc : Z) (q : list node) : Z := snd (run_st F acc q).
Definition depth_nodes (q : list node) : Z := run [] 0 q.

(* _get_wires(obj, all_wires) *)
Definition eff (aw : list Z) (g : gate) : list Z :=
  match gwires g with [] => aw | _ => gwires g end.
Definition node_of (aw : list Z) (g : gate) : node :=
  mkNode (map KW (eff aw g) ++ map KM (gcond g)) (map KW (eff aw g) ++ map KM (gmid g)).
(* I(self.wires) *)
Definition inode (aw : list Z) : node := mkNode (map KW aw) (map KW aw).

Definition queue (c : circuit) : list node :=
  inode (all_wires c) :: map (node_of (all_wires c)) (ops c).

Definition depth (c : circuit) : Z :=
  match ops c with
  | [] => 0                                   (* "if not self.operations: return 0" *)
  | _ => depth_nodes (queue c)
  end.

(* ---- the summary compared with tape.specs / qp.specs(...) ---- *)
Definition summary := (list (ckey * Z) * list (ckey * Z) * Z * Z * Z * Z)%type.
Definition summarize (c : circuit) : summary :=
  (gate_counts c, meas_counts c, num_wires c, depth c, ctotal (gate_counts c), num_params c).

Fixpoint cfind (k : ckey) (l : list (ckey * Z)) : option Z :=
  match l with [] => None | (k', v) :: r => if ckeyb k' k then Some v else cfind k r end.
(* equality as dictionaries (the keys of both lists are pairwise distinct) *)
Definition eq_counts (model impl : list (ckey * Z)) : bool :=
  (Nat.eqb (length model) (length impl)) &&
  forallb (fun kv => match cfind (fst kv) model with Some v => v =? snd kv | None => false end) impl.

(* the implementation reports depth = -1 for "not computed" and num_params = -1 for "not observed" *)
Definition check_circ (ce : circuit * summary) : bool :=
  match summarize (fst ce), snd ce with
  | (gc, mc, nw, d, tot, np), (gc', mc', nw', d', tot', np') =>
      eq_counts gc gc' && eq_counts mc mc' && (nw =? nw') && ((d' =? -1) || (d =? d')) && (tot =? tot')
      && ((np' =? -1) || (np =? np'))
  end.

(* ------------------------------------------------------------------ estimator Resources arithmetic *)
Record eres := mkERes { ez : Z; ea : Z; el : Z; egt : list (Z * Z) }.   (* zeroed, any_state, algo, gate_types *)

Fixpoint efind (k : Z) (l : list (Z * Z)) : option Z :=
  match l with [] => None | (k', v) :: r => if k' =? k then Some v else efind k r end.
Definition eget (k : Z) (l : list (Z * Z)) : Z := match efind k l with Some v => v | None => 0 end.

(* Counter(a) + Counter(b): only positive results are kept *)
Definition cnt_add (a b : list (Z * Z)) : list (Z * Z) :=
  flat_map (fun kv => let s := snd kv + eget (fst kv) b in if 0 <? s then [(fst kv, s)] else []) a ++
  filter (fun kv => match efind (fst kv) a with Some _ => false | None => 0 <? snd kv end) b.

Definition add_series (x y : eres) : eres :=
  mkERes (Z.max (ez x) (ez y)) (ea x + ea y) (Z.max (el x) (el y)) (cnt_add (egt x) (egt y)).
Definition add_parallel (x y : eres) : eres :=
  mkERes (Z.max (ez x) (ez y)) (ea x + ea y) (el x + el y) (cnt_add (egt x) (egt y)).
Definition scale_gt (n : Z) (l : list (Z * Z)) : list (Z * Z) := map (fun kv => (fst kv, snd kv * n)) l.
Definition mul_series (x : eres) (n : Z) : eres := mkERes (ez x) (ea x * n) (el x) (scale_gt n (egt x)).
Definition mul_parallel (x : eres) (n : Z) : eres := mkERes (ez x) (ea x * n) (el x * n) (scale_gt n (egt x)).

Definition total_wires (x : eres) : Z := ez x + ea x + el x.
Definition total_gates (x : eres) : Z := fold_right (fun p a => snd p + a) 0 (egt x).

(* n-fold series / parallel composition (n >= 1), used by the scaling theorems and by the tie *)
Fixpoint rep_series (x : eres) (n : nat) : eres :=
  match n with O => x | S k => add_series (rep_series x k) x end.
Fixpoint rep_parallel (x : eres) (n : nat) : eres :=
  match n with O => x | S k => add_parallel (rep_parallel x k) x end.

Inductive rcase :=
| RAddS (x y : eres) | RAddP (x y : eres) | RMulS (x : eres) (n : Z) | RMulP (x : eres) (n : Z)
| RRepS (x : eres) (n : nat) | RRepP (x : eres) (n : nat).

Definition run_res (c : rcase) : eres :=
  match c with
  | RAddS x y => add_series x y | RAddP x y => add_parallel x y
  | RMulS x n => mul_series x n | RMulP x n => mul_parallel x n
  | RRepS x n => rep_series x n | RRepP x n => rep_parallel x n
  end.

Definition eq_gt (model impl : list (Z * Z)) : bool :=
  (Nat.eqb (length model) (length impl)) &&
  forallb (fun kv => match efind (fst kv) model with Some v => v =? snd kv | None => false end) impl.

(* expected = (zeroed, any, algo, gate_types items, total_wires, total_gates) *)
Definition check_res (ce : rcase * (Z * Z * Z * list (Z * Z) * Z * Z)) : bool :=
  let r := run_res (fst ce) in
  match snd ce with
  | (z, a, l, gt, tw, tg) =>
      (ez r =? z) && (ea r =? a) && (el r =? l) && eq_gt (egt r) gt && (total_wires r =? tw) && (total_gates r =? tg)
  end.

(* ------------------------------------------------------------------ symbolic counts: Expression *)
(* An Expression is a dict {tuple of variable names (sorted) : coefficient}; here variables are integers and
   the dict an association list in insertion order.  Only the operations whose result does not need
   re-normalisation are modelled: Expression + int, Expression + Expression, Expression * int, and full
   substitution.  (Expression * Expression is outside the model.) *)
Definition mono := list Z.
Fixpoint monob (a b : mono) : bool :=
  match a, b with [], [] => true | x :: r, y :: s => (x =? y) && monob r s | _, _ => false end.
Definition expr := list (mono * Z).

Fixpoint xfind (m : mono) (e : expr) : option Z :=
  match e with [] => None | (m', v) :: r => if monob m' m then Some v else xfind m r end.
Definition xget (m : mono) (e : expr) : Z := match xfind m e with Some v => v | None => 0 end.
Fixpoint xset (m : mono) (v : Z) (e : expr) : expr :=
  match e with [] => [(m, v)] | (m', v') :: r => if monob m' m then (m', v) :: r else (m', v') :: xset m v r end.
Fixpoint xdel (m : mono) (e : expr) : expr :=
  match e with [] => [] | (m', v') :: r => if monob m' m then r else (m', v') :: xdel m r end.

(* Expression._normalize on already-sorted keys: drop zero coefficients *)
Definition xnorm (e : expr) : expr := filter (fun mv => negb (snd mv =? 0)) e.

(* the result of an operation: an int when constant (_cast_if_constant), else an Expression *)
Inductive xres := XInt (z : Z) | XExpr (e : expr).
Definition cast (e : expr) : xres :=
  match e with
  | [] => XInt 0
  | [([], v)] => XInt v
  | _ => XExpr e
  end.
(* _cast_if_constant(..., skip_normalization=False): the constant test is made on the raw dict, the
   Expression constructor normalises afterwards *)
Definition cast_norm (e : expr) : xres :=
  match e with
  | [] => XInt 0
  | [([], v)] => XInt v
  | _ => XExpr (xnorm e)
  end.

(* __add__ with an int: new_data[()] = new_data.get((), 0) + other ; then normalisation *)
Definition xadd_int (e : expr) (z : Z) : xres := cast_norm (xset [] (xget [] e + z) e).
(* __add__ with an Expression: merge, deleting entries that become zero *)
Definition xadd (a b : expr) : xres :=
  cast_norm (fold_left (fun acc mv => let nv := xget (fst mv) acc + snd mv in
                                    if nv =? 0 then xdel (fst mv) acc else xset (fst mv) nv acc) b a).
(* __mul__ with an int *)
Definition xmul_int (e : expr) (z : Z) : xres :=
  if z =? 0 then XInt 0 else cast (map (fun mv => (fst mv, snd mv * z)) e).

(* evaluation under an assignment of all variables *)
Definition env := list (Z * Z).
Definition vval (rho : env) (x : Z) : Z := eget x rho.
Definition meval (rho : env) (m : mono) : Z := fold_right (fun x a => vval rho x * a) 1 m.
Definition xeval (rho : env) (e : expr) : Z := fold_right (fun mv a => snd mv * meval rho (fst mv) + a) 0 e.
Definition reval (rho : env) (r : xres) : Z := match r with XInt z => z | XExpr e => xeval rho e end.

Inductive xcase :=
| XAddI (e : expr) (z : Z) | XAdd (a b : expr) | XMulI (e : expr) (z : Z) | XSubs (e : expr) (rho : env)
| XTotal (l : list xres) (rho : env).   (* sum(counts.values()) then subs *)

Definition lift (r : xres) : expr := match r with XInt 0 => [] | XInt z => [([], z)] | XExpr e => e end.
Definition radd (a b : xres) : xres :=
  match a, b with
  | XInt x, XInt y => XInt (x + y)
  | XExpr e, XInt y => xadd_int e y
  | XInt x, XExpr e => xadd_int e x
  | XExpr e, XExpr f => xadd e f
  end.

Definition eq_expr_l (a b : expr) : bool :=
  (Nat.eqb (length a) (length b)) &&
  forallb (fun mv => match xfind (fst mv) a with Some v => v =? snd mv | None => false end) b.
Definition eq_xres (a b : xres) : bool :=
  match a, b with XInt x, XInt y => x =? y | XExpr e, XExpr f => eq_expr_l e f | _, _ => false end.

Definition run_x (c : xcase) : xres :=
  match c with
  | XAddI e z => xadd_int e z
  | XAdd a b => xadd a b
  | XMulI e z => xmul_int e z
  | XSubs e rho => XInt (xeval rho e)
  | XTotal l rho => XInt (reval rho (fold_left radd l (XInt 0)))
  end.
Definition check_x (ce : xcase * xres) : bool := eq_xres (run_x (fst ce)) (snd ce).
