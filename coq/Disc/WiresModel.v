(* Model of pennylane/wires.py (function _process, class Wires).  No proofs here: this file must keep
   running for the correspondence check even when a proof elsewhere breaks.

   Labels are Z codes: the harness maps every distinct Python label (ints, strings, tuples, floats,
   bools) to a distinct integer; labels that are == in Python (1, 1.0, True) get the same code,
   which is exactly the identification Python's set/dict/tuple.index make.
   A Wires object is modelled by its tuple of labels (list Z).  None = an exception is raised
   (all exception types are one error value). *)
From Coq Require Import List ZArith Bool.
Import ListNotations.
Open Scope Z_scope.

Fixpoint mem (x : Z) (l : list Z) : bool :=
  match l with [] => false | y :: r => (x =? y) || mem x r end.

Definition lenZ (l : list Z) : Z := Z.of_nat (length l).

(* dict.fromkeys(...) / set(...): a key is inserted only if it is not yet present, so the first
   occurrence is the one kept.  A Python set is represented by such a duplicate-free list (its
   iteration order is unspecified; set-valued results are compared as sets). *)
Fixpoint dedup_aux (seen l : list Z) : list Z :=
  match l with
  | [] => []
  | x :: r => if mem x seen then dedup_aux seen r else x :: dedup_aux (x :: seen) r
  end.
Definition dedup (l : list Z) : list Z := dedup_aux [] l.
Definition pyset := dedup.

Definition s_and (a b : list Z) := filter (fun x => mem x b) a.            (* a & b *)
Definition s_sub (a b : list Z) := filter (fun x => negb (mem x b)) a.     (* a - b *)
Definition s_or (a b : list Z) := a ++ s_sub b a.                          (* a | b *)
Definition s_xor (a b : list Z) := s_sub a b ++ s_sub b a.                 (* a ^ b *)

Fixpoint mapM {A B} (f : A -> option B) (l : list A) : option (list B) :=
  match l with
  | [] => Some []
  | x :: r => match f x, mapM f r with Some y, Some s => Some (y :: s) | _, _ => None end
  end.

(* ---- arguments as a user may pass them ---- *)
Inductive arg :=
| AList (l : list Z)            (* a list / tuple / set of labels *)
| AInt (x : Z)                  (* a non-iterable hashable label (int, float, bool) *)
| AStr (x : Z) (cs : list Z)    (* a string label with code x; cs = codes of its characters *)
| AWires (l : list Z).          (* an existing Wires object with these labels *)

(* _process: tuple(wires); set(wires); len(set) != len(tuple) -> WireError *)
Definition process_iter (l : list Z) : option (list Z) :=
  if lenZ (pyset l) =? lenZ l then Some l else None.
Definition process (a : arg) : option (list Z) :=
  match a with
  | AStr x _ => process_iter [x]          (* wires = [wires] *)
  | AInt x => Some [x]                    (* tuple() raises TypeError -> (wires,) *)
  | AList l => process_iter l
  | AWires l => process_iter l            (* a Wires object is iterated like any sequence *)
  end.
(* Wires(x) for x not None *)
Definition mkwires (a : arg) : option (list Z) := process a.

(* ---- all_wires (sort=False): chain + dict.fromkeys ---- *)
Definition all_wires_l (ll : list (list Z)) : list Z := dedup (concat ll).
Definition convert1 (a : arg) : option (list Z) :=
  match a with AWires l => Some l | _ => mkwires a end.
Definition all_wires (ls : list arg) : option (list Z) :=
  match mapM convert1 ls with Some ll => Some (all_wires_l ll) | None => None end.

(* __add__ / __radd__ *)
Definition add (self : list Z) (other : arg) : option (list Z) :=
  match mkwires other with Some o => all_wires [AWires self; AWires o] | None => None end.
Definition radd (self : list Z) (other : arg) : option (list Z) :=
  match mkwires other with Some o => all_wires [AWires o; AWires self] | None => None end.

(* ---- shared_wires ---- *)
Definition only_wires1 (a : arg) : option (list Z) := match a with AWires l => Some l | _ => None end.
Definition shared_l (ll : list (list Z)) : option (list Z) :=
  match ll with
  | [] => None                                   (* functools.reduce of an empty sequence *)
  | l0 :: r => let inter := fold_left s_and (map pyset r) (pyset l0) in
               Some (filter (fun w => mem w inter) l0)
  end.
Definition shared_wires (ls : list arg) : option (list Z) :=
  match mapM only_wires1 ls with Some ll => shared_l ll | None => None end.

(* ---- unique_wires: the seen_once / seen_ever loop ---- *)
Definition uw_step (st : list Z * list Z) (labels : list Z) : list Z * list Z :=
  let (once, ever) := st in (s_sub (s_xor once labels) (s_sub ever once), s_or ever labels).
Definition unique_l (ll : list (list Z)) : list Z :=
  let once := fst (fold_left uw_step (map pyset ll) ([], [])) in
  filter (fun w => mem w once) (concat ll).
Definition unique_wires (ls : list arg) : option (list Z) :=
  match mapM only_wires1 ls with Some ll => Some (unique_l ll) | None => None end.

(* ---- set operations: Wires(set(self.labels) <op> set(_process(other))) ---- *)
Definition setop (op : list Z -> list Z -> list Z) (self : list Z) (other : arg) : option (list Z) :=
  match process other with
  | Some o => mkwires (AList (op (pyset self) (pyset o)))
  | None => None
  end.
Definition union := setop s_or.
Definition intersection := setop s_and.
Definition difference := setop s_sub.
Definition symmetric_difference := setop s_xor.
Definition rsub := setop (fun a b => s_sub b a).     (* set(_process(other)) - set(self.labels) *)
Definition rxor := setop (fun a b => s_xor b a).

(* ---- index / indices ---- *)
Fixpoint index_from (i : Z) (l : list Z) (x : Z) : option Z :=      (* tuple.index *)
  match l with [] => None | y :: r => if x =? y then Some i else index_from (i + 1) r x end.
Definition index_lbl (self : list Z) (x : Z) : option Z := index_from 0 self x.
Inductive iarg := ILabel (x : Z) | IWires (l : list Z).
Definition index (self : list Z) (a : iarg) : option Z :=
  match a with
  | ILabel x => index_lbl self x
  | IWires l => if lenZ l =? 1 then match l with x :: _ => index_lbl self x | [] => None end else None
  end.
Definition indices (self : list Z) (a : arg) : option (list Z) :=
  match a with
  | AInt x => mapM (index_lbl self) [x]           (* not Iterable *)
  | AList l => mapM (index_lbl self) l
  | AWires l => mapM (index_lbl self) l
  | AStr _ cs => mapM (index_lbl self) cs         (* a str IS Iterable: its characters are looked up *)
  end.

(* ---- map ---- *)
Fixpoint lookup (m : list (Z * Z)) (k : Z) : option Z :=
  match m with [] => None | (k', v) :: r => if k =? k' then Some v else lookup r k end.
Definition has_key (m : list (Z * Z)) (k : Z) : bool := match lookup m k with Some _ => true | None => false end.
Definition map_wires (self : list Z) (m : list (Z * Z)) : option (list Z) :=
  if forallb (has_key m) self
  then match mapM (lookup m) self with Some nw => mkwires (AList nw) | None => None end
  else None.

(* ---- subset ---- *)
Inductive idxarg := XInt (i : Z) | XList (l : list Z).
(* tuple[i] with Python's negative indexing; IndexError outside [-len, len) *)
Definition getitem (l : list Z) (i : Z) : option Z :=
  if 0 <=? i then nth_error l (Z.to_nat i)
  else if 0 <=? lenZ l + i then nth_error l (Z.to_nat (lenZ l + i)) else None.
Definition subset (self : list Z) (ix : idxarg) (periodic : bool) : option (list Z) :=
  let idx := match ix with XInt i => [i] | XList l => l end in
  let n := lenZ self in
  match (if periodic then mapM (fun i => if n =? 0 then None else Some (i mod n)) idx else Some idx) with
  | None => None                                              (* ZeroDivisionError *)
  | Some idx' => if existsb (fun i => n <? i) idx' then None  (* "if i > len": WireError *)
                 else mapM (getitem self) idx'                (* _override=True: no uniqueness check *)
  end.

(* ---- ==, contains ---- *)
Fixpoint list_eqb (a b : list Z) : bool :=
  match a, b with [], [] => true | x :: r, y :: s => (x =? y) && list_eqb r s | _, _ => false end.
Definition weq (a b : list Z) : bool := list_eqb a b.
Definition contains_wires (self : list Z) (a : arg) : bool :=
  match a with AWires l => forallb (fun w => mem w (pyset self)) (pyset l) | _ => false end.

(* ==================== correspondence cases ==================== *)
(* how a Wires operand of a case is obtained: Wires(a) or Wires(a).subset(ix, per) (the latter can
   contain repeated labels) *)
Inductive src := SMk (a : arg) | SSub (a : arg) (ix : idxarg) (per : bool).
Definition build (s : src) : option (list Z) :=
  match s with
  | SMk a => mkwires a
  | SSub a ix per => match mkwires a with Some w => subset w ix per | None => None end
  end.
Inductive carg := CRaw (a : arg) | CW (s : src).
Definition eval_carg (c : carg) : option arg :=
  match c with CRaw a => Some a | CW s => match build s with Some l => Some (AWires l) | None => None end end.
Inductive icarg := ICLabel (x : Z) | ICW (s : src).

Inductive setkind := KUnion | KInter | KDiff | KXor | KRsub | KRxor.
Inductive opcase :=
| OMk (a : carg)
| OAdd (s : src) (a : carg)
| ORadd (s : src) (a : carg)
| OAll (ls : list carg)
| OShared (ls : list carg)
| OUnique (ls : list carg)
| OSet (k : setkind) (s : src) (a : carg)
| OIndex (s : src) (a : icarg)
| OIndices (s : src) (a : carg)
| OMap (s : src) (m : list (Z * Z))
| OSubset (s : src) (ix : idxarg) (per : bool)
| OEq (s1 s2 : src)
| OContainsW (s : src) (a : carg)
| OContains (s : src) (x : Z).

Fixpoint insertZ (x : Z) (l : list Z) : list Z :=
  match l with [] => [x] | y :: r => if x <=? y then x :: l else y :: insertZ x r end.
Definition sortZ (l : list Z) : list Z := fold_right insertZ [] l.

Definition bind {A B} (o : option A) (f : A -> option B) : option B :=
  match o with Some x => f x | None => None end.
Definition ob (b : bool) : option (list Z) := Some [if b then 1 else 0].

(* set-valued results (order unspecified) are returned sorted; the harness sorts the observed ones *)
Definition run (c : opcase) : option (list Z) :=
  match c with
  | OMk a => bind (eval_carg a) mkwires
  | OAdd s a => bind (build s) (fun w => bind (eval_carg a) (add w))
  | ORadd s a => bind (build s) (fun w => bind (eval_carg a) (radd w))
  | OAll ls => bind (mapM eval_carg ls) all_wires
  | OShared ls => bind (mapM eval_carg ls) shared_wires
  | OUnique ls => bind (mapM eval_carg ls) unique_wires
  | OSet k s a =>
      let f := match k with KUnion => union | KInter => intersection | KDiff => difference
                          | KXor => symmetric_difference | KRsub => rsub | KRxor => rxor end in
      bind (build s) (fun w => bind (eval_carg a) (fun o => option_map sortZ (f w o)))
  | OIndex s a =>
      bind (build s) (fun w =>
        match a with
        | ICLabel x => option_map (fun i => [i]) (index w (ILabel x))
        | ICW s' => bind (build s') (fun l => option_map (fun i => [i]) (index w (IWires l)))
        end)
  | OIndices s a => bind (build s) (fun w => bind (eval_carg a) (indices w))
  | OMap s m => bind (build s) (fun w => map_wires w m)
  | OSubset s ix per => bind (build s) (fun w => subset w ix per)
  | OEq s1 s2 => bind (build s1) (fun a => bind (build s2) (fun b => ob (weq a b)))
  | OContainsW s a => bind (build s) (fun w => bind (eval_carg a) (fun o => ob (contains_wires w o)))
  | OContains s x => bind (build s) (fun w => ob (mem x w))
  end.

Definition eq_olz (a b : option (list Z)) : bool :=
  match a, b with None, None => true | Some x, Some y => list_eqb x y | _, _ => false end.

Definition check_case (c : opcase * option (list Z)) : bool := eq_olz (run (fst c)) (snd c).
