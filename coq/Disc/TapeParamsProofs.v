From Coq Require Import List ZArith Bool Lia ZifyBool QArith FinFun.
From PLV Require Import Disc.TapeParamsModel.
Import ListNotations.
Open Scope Z_scope.

(* ------------------------------------------------------------------ basic list facts *)
Lemma enum_length : forall n a, length (enum_from a n) = n.
Proof. induction n; intros; simpl; [reflexivity | now rewrite IHn]. Qed.

Lemma enum_nth : forall n a k, (k < n)%nat -> nth_error (enum_from a n) k = Some (a + Z.of_nat k).
Proof.
  induction n as [|n IH]; intros a k Hk; [lia|].
  destruct k as [|k]; cbn [enum_from nth_error]; [f_equal; lia|].
  rewrite IH by lia. f_equal. lia.
Qed.

Lemma enum_In : forall n a x, In x (enum_from a n) -> a <= x < a + Z.of_nat n.
Proof.
  induction n as [|n IH]; intros a x H; [destruct H|].
  cbn [enum_from] in H. destruct H as [<- | H]; [lia|]. apply IH in H. lia.
Qed.

Lemma enum_NoDup : forall n a, NoDup (enum_from a n).
Proof.
  induction n as [|n IH]; intros a; cbn [enum_from]; constructor; [|apply IH].
  intros H. apply enum_In in H. lia.
Qed.

Lemma NoDup_app_intro {A} (a b : list A) :
  NoDup a -> NoDup b -> (forall x, In x a -> ~ In x b) -> NoDup (a ++ b).
Proof.
  induction a as [|x a IH]; intros Ha Hb Hd; [exact Hb|].
  inversion Ha as [|? ? Hx Ha']; subst. cbn. constructor.
  - rewrite in_app_iff. intros [H | H]; [exact (Hx H) | exact (Hd x (or_introl eq_refl) H)].
  - apply IH; [assumption | assumption | intros y Hy; apply Hd; now right].
Qed.

Lemma py_nth_nat {A} (l : list A) (n : nat) : py_nth l (Z.of_nat n) = nth_error l n.
Proof.
  unfold py_nth, znth. destruct (Z.of_nat n <? 0) eqn:E; [lia|]. now rewrite Nat2Z.id.
Qed.

Lemma py_nth_nonneg {A} (l : list A) (i : Z) : 0 <= i -> py_nth l i = nth_error l (Z.to_nat i).
Proof. intros H. rewrite <- (py_nth_nat l (Z.to_nat i)). now rewrite Z2Nat.id. Qed.

(* ------------------------------------------------------------------ par_info *)
Lemma pi_from_length : forall ds idx, length (pi_from idx ds) = length (concat ds).
Proof.
  induction ds as [|d r IH]; intros idx; cbn [pi_from concat]; [reflexivity|].
  now rewrite !app_length, map_length, IH, enum_length.
Qed.

Lemma pi_from_app : forall a b i,
  pi_from i (a ++ b) = pi_from i a ++ pi_from (i + Z.of_nat (length a)) b.
Proof.
  induction a as [|d a IH]; intros b i; cbn [pi_from app length].
  - f_equal. lia.
  - rewrite IH, <- app_assoc. do 3 f_equal. lia.
Qed.

Lemma par_info_cdata t : par_info t = pi_from 0 (cdata t).
Proof. unfold par_info, cdata. rewrite pi_from_app, map_length. reflexivity. Qed.

Lemma all_params_cdata t : all_params t = concat (cdata t).
Proof. unfold all_params, allp, cdata. now rewrite concat_app. Qed.

Lemma pi_from_spec : forall ds idx k oi pi,
  nth_error (pi_from idx ds) k = Some (oi, pi) ->
  idx <= oi /\ 0 <= pi /\
  exists d v, nth_error ds (Z.to_nat (oi - idx)) = Some d /\ nth_error d (Z.to_nat pi) = Some v /\
              nth_error (concat ds) k = Some v.
Proof.
  induction ds as [|d r IH]; intros idx k oi pi H; cbn [pi_from] in H.
  - destruct k; discriminate.
  - cbn [concat]. destruct (Nat.ltb k (length d)) eqn:E.
    + apply Nat.ltb_lt in E.
      rewrite nth_error_app1 in H by now rewrite map_length, enum_length.
      rewrite nth_error_map, enum_nth in H by assumption. cbn in H. inversion H; subst.
      destruct (nth_error d k) as [v|] eqn:Ev; [|apply nth_error_None in Ev; lia].
      repeat split; try lia. exists d, v. rewrite Z.sub_diag, Nat2Z.id. cbn.
      repeat split; [assumption|]. now rewrite nth_error_app1.
    + apply Nat.ltb_ge in E.
      rewrite nth_error_app2 in H by now rewrite map_length, enum_length.
      rewrite map_length, enum_length in H. apply IH in H. destruct H as (H1 & H2 & d' & v & Hd & Hv & Hc).
      repeat split; try lia. exists d', v.
      replace (Z.to_nat (oi - idx)) with (S (Z.to_nat (oi - (idx + 1)))) by lia.
      cbn. repeat split; try assumption. now rewrite nth_error_app2.
Qed.

Lemma pi_from_ge : forall ds idx o p, In (o, p) (pi_from idx ds) -> idx <= o.
Proof.
  intros ds idx o p H. apply In_nth_error in H. destruct H as [k H]. now apply pi_from_spec in H.
Qed.

Lemma pi_from_NoDup : forall ds idx, NoDup (pi_from idx ds).
Proof.
  induction ds as [|d r IH]; intros idx; cbn [pi_from]; [constructor|].
  apply NoDup_app_intro.
  - apply FinFun.Injective_map_NoDup; [intros x y E; now inversion E | apply enum_NoDup].
  - apply IH.
  - intros [o p] Hin Hin'. apply in_map_iff in Hin. destruct Hin as (i & E & _). inversion E; subst.
    apply pi_from_ge in Hin'. lia.
Qed.

Lemma pi_from_shape : forall a b i, map (@length par) a = map (@length par) b -> pi_from i a = pi_from i b.
Proof.
  induction a as [|x a IH]; intros [|y b] i H; try discriminate; [reflexivity|].
  cbn in H. inversion H as [[H1 H2]]. cbn [pi_from]. now rewrite H1, (IH b (i + 1) H2).
Qed.

(* entry k of par_info is (op_idx, p_idx) with circuit[op_idx].data[p_idx] = k-th parameter *)
Lemma par_info_points : forall t k oi pi, nth_error (par_info t) k = Some (oi, pi) ->
  exists d v, py_nth (cdata t) oi = Some d /\ py_nth d pi = Some v /\ nth_error (all_params t) k = Some v.
Proof.
  intros t k oi pi H. rewrite par_info_cdata in H. apply pi_from_spec in H.
  destruct H as (H1 & H2 & d & v & Hd & Hv & Hc). exists d, v.
  rewrite !py_nth_nonneg by lia. rewrite Z.sub_0_r in Hd. rewrite all_params_cdata. auto.
Qed.

Lemma par_info_len t : length (par_info t) = length (all_params t).
Proof. now rewrite par_info_cdata, all_params_cdata, pi_from_length. Qed.

Lemma par_info_nodup t : NoDup (par_info t).
Proof. rewrite par_info_cdata. apply pi_from_NoDup. Qed.

(* ------------------------------------------------------------------ bind_new_parameters *)
Fixpoint bind_cdata (asg : list (Z * Z * Z)) (ps : list par) (oi : Z) (D : list (list par)) : list (list par) :=
  match D with [] => [] | d :: r => bind_data asg ps oi 0 d :: bind_cdata asg ps (oi + 1) r end.

Definition upd (asg : list (Z * Z * Z)) (ps : list par) (oi pi : Z) (v : par) : par :=
  match lookup_last asg oi pi None with Some k => nth (Z.to_nat k) ps v | None => v end.

Lemma bind_data_nth : forall d asg ps oi i n,
  nth_error (bind_data asg ps oi i d) n = option_map (upd asg ps oi (i + Z.of_nat n)) (nth_error d n).
Proof.
  induction d as [|v d IH]; intros asg ps oi i n; [destruct n; reflexivity|].
  destruct n as [|n]; cbn [bind_data nth_error option_map].
  - unfold upd. now rewrite Z.add_0_r.
  - rewrite IH. do 2 f_equal. lia.
Qed.

Lemma bind_data_length : forall d asg ps oi i, length (bind_data asg ps oi i d) = length d.
Proof. induction d; intros; cbn; [reflexivity | now rewrite IHd]. Qed.

Lemma bind_cdata_nth : forall D asg ps oi n,
  nth_error (bind_cdata asg ps oi D) n = option_map (bind_data asg ps (oi + Z.of_nat n) 0) (nth_error D n).
Proof.
  induction D as [|d D IH]; intros asg ps oi n; [destruct n; reflexivity|].
  destruct n as [|n]; cbn [bind_cdata nth_error option_map].
  - now rewrite Z.add_0_r.
  - rewrite IH. do 2 f_equal. lia.
Qed.

Lemma bind_cdata_app : forall a b asg ps oi,
  bind_cdata asg ps oi (a ++ b) = bind_cdata asg ps oi a ++ bind_cdata asg ps (oi + Z.of_nat (length a)) b.
Proof.
  induction a as [|d a IH]; intros b asg ps oi; cbn [bind_cdata app length].
  - f_equal. lia.
  - rewrite IH. do 3 f_equal. lia.
Qed.

Lemma bind_cdata_shape : forall D asg ps oi, map (@length par) (bind_cdata asg ps oi D) = map (@length par) D.
Proof. induction D; intros; cbn; [reflexivity | now rewrite bind_data_length, IHD]. Qed.

Lemma bind_slots_data : forall l asg ps oi, map sdata (bind_slots asg ps oi l) = bind_cdata asg ps oi (map sdata l).
Proof. induction l; intros; cbn; [reflexivity | now rewrite IHl]. Qed.

Lemma bind_meas_data : forall l asg ps oi, map mp_data (bind_meas asg ps oi l) = bind_cdata asg ps oi (map mp_data l).
Proof.
  induction l as [|m l IH]; intros; cbn [bind_meas map bind_cdata]; [reflexivity|]. rewrite IH. f_equal.
  unfold mp_data. cbn. destruct (mobs m); reflexivity.
Qed.

Lemma bind_slots_length : forall l asg ps oi, length (bind_slots asg ps oi l) = length l.
Proof. induction l; intros; cbn; [reflexivity | now rewrite IHl]. Qed.

Definition bind_asg (t : tape) (idx : list Z) := build_asg (par_info t) 0 (sorted_py idx).

Lemma bind_inv : forall t ps idx t', bind t ps idx = Some t' ->
  length ps = length idx /\ exists asg, bind_asg t idx = Some asg /\
  t' = mkTape (bind_slots asg ps 0 (ops t)) (bind_meas asg ps (Z.of_nat (length (ops t))) (meas t)) (Some (trainable t)).
Proof.
  unfold bind, bind_asg. intros t ps idx t' H.
  destruct (Nat.eqb (length ps) (length idx)) eqn:E; cbn in H; [|discriminate].
  apply Nat.eqb_eq in E. split; [assumption|].
  destruct (build_asg (par_info t) 0 (sorted_py idx)) as [asg|]; [|discriminate].
  exists asg. inversion H. auto.
Qed.

Lemma bind_cdata_eq : forall t asg ps,
  cdata (mkTape (bind_slots asg ps 0 (ops t)) (bind_meas asg ps (Z.of_nat (length (ops t))) (meas t)) (Some (trainable t)))
  = bind_cdata asg ps 0 (cdata t).
Proof.
  intros. unfold cdata. cbn [ops meas]. rewrite bind_slots_data, bind_meas_data, bind_cdata_app, map_length. reflexivity.
Qed.

Lemma bind_par_info : forall t ps idx t', bind t ps idx = Some t' -> par_info t' = par_info t.
Proof.
  intros t ps idx t' H. apply bind_inv in H. destruct H as (_ & asg & _ & ->).
  rewrite !par_info_cdata, bind_cdata_eq. apply pi_from_shape, bind_cdata_shape.
Qed.

(* pointwise description of the bound tape through par_info *)
Lemma bind_pointwise : forall t ps idx t' asg, bind t ps idx = Some t' -> bind_asg t idx = Some asg ->
  forall j oi pi v, nth_error (par_info t) j = Some (oi, pi) -> nth_error (all_params t) j = Some v ->
  nth_error (all_params t') j = Some (upd asg ps oi pi v).
Proof.
  intros t ps idx t' asg H Ha j oi pi v Hj Hv.
  pose proof (bind_par_info _ _ _ _ H) as Hpi.
  apply bind_inv in H. destruct H as (_ & asg' & Ha' & Ht'). rewrite Ha in Ha'. inversion Ha'; subst asg'.
  assert (Hj' : nth_error (par_info t') j = Some (oi, pi)) by now rewrite Hpi.
  rewrite par_info_cdata in Hj, Hj'. apply pi_from_spec in Hj, Hj'.
  destruct Hj as (H1 & H2 & d & v0 & Hd & Hv0 & Hc). destruct Hj' as (_ & _ & d' & v' & Hd' & Hv' & Hc').
  rewrite all_params_cdata in *. rewrite Hc in Hv. inversion Hv; subst v0. rewrite Hc'. f_equal.
  rewrite Ht', bind_cdata_eq, bind_cdata_nth, Hd in Hd'. cbn in Hd'. inversion Hd'; subst d'.
  rewrite bind_data_nth, Hv0 in Hv'. cbn in Hv'. inversion Hv'. f_equal; lia.
Qed.

(* dictionary lookups *)
Lemma lookup_last_none : forall asg oi pi acc,
  (forall o p k, In (o, p, k) asg -> (o, p) <> (oi, pi)) -> lookup_last asg oi pi acc = acc.
Proof.
  induction asg as [|[[o p] k] asg IH]; intros oi pi acc H; [reflexivity|]. cbn [lookup_last].
  destruct ((o =? oi) && (p =? pi)) eqn:E.
  - apply andb_true_iff in E. destruct E as [E1 E2]. apply Z.eqb_eq in E1, E2. subst.
    exfalso. apply (H oi pi k); [now left | reflexivity].
  - apply IH. intros o' p' k' Hin. apply (H o' p' k'). now right.
Qed.

Lemma lookup_last_in : forall asg oi pi acc k,
  lookup_last asg oi pi acc = Some k -> In (oi, pi, k) asg \/ acc = Some k.
Proof.
  induction asg as [|[[o p] k0] asg IH]; intros oi pi acc k H; [now right|]. cbn [lookup_last] in H.
  apply IH in H. destruct H as [H | H]; [left; now right|].
  destruct ((o =? oi) && (p =? pi)) eqn:E; [|now right].
  apply andb_true_iff in E. destruct E as [E1 E2]. apply Z.eqb_eq in E1, E2. subst. inversion H; subst. left; now left.
Qed.

Lemma lookup_last_split : forall a1 a2 oi pi k acc,
  (forall o p k', In (o, p, k') a2 -> (o, p) <> (oi, pi)) ->
  lookup_last (a1 ++ (oi, pi, k) :: a2) oi pi acc = Some k.
Proof.
  induction a1 as [|[[o p] k0] a1 IH]; intros a2 oi pi k acc H; cbn [app lookup_last].
  - rewrite !Z.eqb_refl. cbn. now apply lookup_last_none.
  - now apply IH.
Qed.

Lemma build_asg_nth : forall sidx pinfo k0 asg, build_asg pinfo k0 sidx = Some asg ->
  forall m i, nth_error sidx m = Some i ->
  exists o p, py_nth pinfo i = Some (o, p) /\ nth_error asg m = Some (o, p, k0 + Z.of_nat m).
Proof.
  induction sidx as [|i0 r IH]; intros pinfo k0 asg H m i Hm; [destruct m; discriminate|].
  cbn [build_asg] in H. destruct (py_nth pinfo i0) as [[o p]|] eqn:E; [|discriminate].
  destruct (build_asg pinfo (k0 + 1) r) as [asg'|] eqn:E'; [|discriminate]. cbn in H. inversion H; subst asg.
  destruct m as [|m]; cbn in Hm.
  - inversion Hm; subst. exists o, p. split; [assumption|]. cbn. do 2 f_equal. lia.
  - destruct (IH _ _ _ E' m i Hm) as (o' & p' & H1 & H2). exists o', p'. split; [assumption|].
    cbn. rewrite H2. do 2 f_equal. lia.
Qed.

Lemma build_asg_in : forall sidx pinfo k0 asg, build_asg pinfo k0 sidx = Some asg ->
  forall o p k, In (o, p, k) asg ->
  exists m i, nth_error sidx m = Some i /\ py_nth pinfo i = Some (o, p) /\ k = k0 + Z.of_nat m.
Proof.
  induction sidx as [|i0 r IH]; intros pinfo k0 asg H o p k Hin.
  - cbn in H. inversion H; subst. destruct Hin.
  - cbn [build_asg] in H. destruct (py_nth pinfo i0) as [[o0 p0]|] eqn:E; [|discriminate].
    destruct (build_asg pinfo (k0 + 1) r) as [asg'|] eqn:E'; [|discriminate]. cbn in H. inversion H; subst asg.
    destruct Hin as [Hin | Hin].
    + inversion Hin; subst. exists O, i0. cbn. repeat split; [assumption | lia].
    + destruct (IH _ _ _ E' _ _ _ Hin) as (m & i & H1 & H2 & H3). exists (S m), i. cbn. repeat split; try assumption. lia.
Qed.

Lemma insert_sorted_in : forall l x y, In y (insert_sorted x l) <-> y = x \/ In y l.
Proof.
  induction l as [|z l IH]; intros x y; cbn [insert_sorted].
  - cbn. intuition.
  - destruct (x <=? z); cbn [In]; [intuition|]. rewrite IH. intuition.
Qed.

Lemma sorted_py_in : forall l y, In y (sorted_py l) <-> In y l.
Proof.
  induction l as [|x l IH]; intros y; [reflexivity|]. unfold sorted_py in *. cbn [fold_right].
  rewrite insert_sorted_in, IH. cbn. intuition.
Qed.

(* positions not addressed by any index keep their value *)
Lemma bind_untouched : forall t ps idx t', bind t ps idx = Some t' ->
  forall j, (forall i, In i idx -> py_nth (par_info t) i <> nth_error (par_info t) j) ->
  nth_error (all_params t') j = nth_error (all_params t) j.
Proof.
  intros t ps idx t' H j Hno.
  destruct (bind_inv _ _ _ _ H) as (_ & asg & Ha & _).
  destruct (nth_error (par_info t) j) as [[oi pi]|] eqn:Hj.
  - destruct (par_info_points _ _ _ _ Hj) as (d & v & _ & _ & Hv).
    rewrite (bind_pointwise _ _ _ _ _ H Ha _ _ _ _ Hj Hv), Hv. f_equal. unfold upd.
    rewrite lookup_last_none; [reflexivity|].
    intros o p k Hin E. inversion E; subst.
    destruct (build_asg_in _ _ _ _ Ha _ _ _ Hin) as (m & i & H1 & H2 & _).
    apply (Hno i); [apply sorted_py_in; eapply nth_error_In; eassumption | now rewrite H2].
  - apply nth_error_None in Hj. rewrite par_info_len in Hj.
    assert (length (all_params t') = length (all_params t)) as E
      by now rewrite <- !par_info_len, (bind_par_info _ _ _ _ H).
    transitivity (@None par); [apply nth_error_None; lia | symmetry; apply nth_error_None; lia].
Qed.

(* names, wires, measurement classes and the trainable indices are kept *)
Lemma bind_slots_frame : forall l asg ps oi,
  map sname (bind_slots asg ps oi l) = map sname l /\ map swires (bind_slots asg ps oi l) = map swires l.
Proof. induction l; intros; cbn; [auto|]. destruct (IHl asg ps (oi + 1)) as [-> ->]. auto. Qed.

Lemma bind_frame : forall t ps idx t', bind t ps idx = Some t' ->
  map sname (ops t') = map sname (ops t) /\ map swires (ops t') = map swires (ops t) /\
  map mkind (meas t') = map mkind (meas t) /\ trainable t' = trainable t /\ par_info t' = par_info t.
Proof.
  intros t ps idx t' H. pose proof (bind_par_info _ _ _ _ H) as Hp.
  apply bind_inv in H. destruct H as (_ & asg & _ & ->). cbn [ops meas].
  destruct (bind_slots_frame (ops t) asg ps 0) as [-> ->].
  split; [reflexivity|]. split; [reflexivity|]. split; [|split; [reflexivity | assumption]].
  generalize (Z.of_nat (length (ops t))). generalize (meas t) as l.
  induction l as [|m l IH]; intros z; cbn; [reflexivity | now rewrite IH].
Qed.

(* ---- identity ---- *)
Lemma bind_data_id : forall d asg ps oi i,
  (forall n v, nth_error d n = Some v -> upd asg ps oi (i + Z.of_nat n) v = v) -> bind_data asg ps oi i d = d.
Proof.
  induction d as [|v d IH]; intros asg ps oi i H; [reflexivity|]. cbn [bind_data].
  pose proof (H O v eq_refl) as H0. unfold upd in H0. rewrite Z.add_0_r in H0. rewrite H0. f_equal.
  apply IH. intros n w Hn. replace (i + 1 + Z.of_nat n) with (i + Z.of_nat (S n)) by lia. now apply H.
Qed.

Definition binds_current (t : tape) (ps : list par) (idx : list Z) : Prop :=
  forall k i, nth_error (sorted_py idx) k = Some i ->
  exists e, py_nth (par_info t) i = Some e /\ exists v, via_pinfo t e = Some v /\ nth_error ps k = Some v.

Lemma bind_id_data : forall t ps idx asg, bind_asg t idx = Some asg -> binds_current t ps idx ->
  forall m d, nth_error (cdata t) m = Some d -> bind_data asg ps (Z.of_nat m) 0 d = d.
Proof.
  intros t ps idx asg Ha Hc m d Hm. apply bind_data_id. intros n v Hn. unfold upd.
  destruct (lookup_last asg (Z.of_nat m) (0 + Z.of_nat n) None) as [k|] eqn:E; [|reflexivity].
  apply lookup_last_in in E. destruct E as [E | E]; [|discriminate].
  destruct (build_asg_in _ _ _ _ Ha _ _ _ E) as (q & i & H1 & H2 & H3).
  destruct (Hc q i H1) as (e & He & w & Hw & Hps). rewrite H2 in He. inversion He; subst e.
  unfold via_pinfo in Hw. cbn [fst snd] in Hw. rewrite py_nth_nat, Hm in Hw. rewrite py_nth_nat, Hn in Hw.
  inversion Hw; subst w. rewrite H3, Z.add_0_l, Nat2Z.id. now apply nth_error_nth.
Qed.

Lemma bind_slots_id : forall l asg ps oi,
  (forall n s, nth_error l n = Some s -> bind_data asg ps (oi + Z.of_nat n) 0 (sdata s) = sdata s) ->
  bind_slots asg ps oi l = l.
Proof.
  induction l as [|s l IH]; intros asg ps oi H; [reflexivity|]. cbn [bind_slots].
  pose proof (H O s eq_refl) as H0. rewrite Z.add_0_r in H0. rewrite H0. f_equal; [now destruct s|].
  apply IH. intros n s' Hn. replace (oi + 1 + Z.of_nat n) with (oi + Z.of_nat (S n)) by lia. now apply H.
Qed.

Lemma bind_meas_id : forall l asg ps oi,
  (forall n m, nth_error l n = Some m -> bind_data asg ps (oi + Z.of_nat n) 0 (mp_data m) = mp_data m) ->
  bind_meas asg ps oi l = l.
Proof.
  induction l as [|m l IH]; intros asg ps oi H; [reflexivity|]. cbn [bind_meas].
  pose proof (H O m eq_refl) as H0. rewrite Z.add_0_r in H0. f_equal.
  - destruct m as [k [s|]]; cbn in *; [|reflexivity]. unfold mp_data in H0. cbn in H0. rewrite H0. now destruct s.
  - apply IH. intros n m' Hn. replace (oi + 1 + Z.of_nat n) with (oi + Z.of_nat (S n)) by lia. now apply H.
Qed.

Lemma bind_current : forall t ps idx t', bind t ps idx = Some t' -> binds_current t ps idx ->
  ops t' = ops t /\ meas t' = meas t /\ trainable t' = trainable t.
Proof.
  intros t ps idx t' H Hc. destruct (bind_inv _ _ _ _ H) as (_ & asg & Ha & ->). cbn [ops meas].
  repeat split.
  - apply bind_slots_id. intros n s Hn. rewrite Z.add_0_l.
    apply (bind_id_data t ps idx asg Ha Hc). unfold cdata. rewrite nth_error_app1.
    + now rewrite nth_error_map, Hn.
    + rewrite map_length. apply nth_error_Some. congruence.
  - apply bind_meas_id. intros n m Hn. rewrite <- Nat2Z.inj_add.
    apply (bind_id_data t ps idx asg Ha Hc). unfold cdata. rewrite nth_error_app2 by (rewrite map_length; lia).
    rewrite map_length. replace (length (ops t) + n - length (ops t))%nat with n by lia. now rewrite nth_error_map, Hn.
Qed.

(* ---- exactly the addressed positions get the new values (increasing non-negative indices) ---- *)
Fixpoint incr (l : list Z) : Prop :=
  match l with x :: ((y :: _) as r) => x < y /\ incr r | _ => True end.

Lemma incr_sorted : forall l, incr l -> sorted_py l = l.
Proof.
  induction l as [|x l IH]; intros H; [reflexivity|]. unfold sorted_py in *. cbn [fold_right].
  destruct l as [|y l]; [reflexivity|]. destruct H as [Hxy Hr]. rewrite (IH Hr). cbn [insert_sorted].
  destruct (x <=? y) eqn:E; [reflexivity | lia].
Qed.

Lemma incr_lt : forall l, incr l -> forall a b x y, (a < b)%nat -> nth_error l a = Some x -> nth_error l b = Some y -> x < y.
Proof.
  induction l as [|z l IH]; intros H a b x y Hab Ha Hb; [destruct a; discriminate|].
  destruct b as [|b]; [lia|]. destruct l as [|w l]; [destruct b; discriminate|]. destruct H as [Hzw Hr].
  destruct a as [|a]; cbn in Ha, Hb.
  - inversion Ha; subst z. destruct b as [|b]; [cbn in Hb; inversion Hb; subst; lia|].
    assert (w < y) by (apply (IH Hr O (S b) w y); [lia | reflexivity | exact Hb]). lia.
  - apply (IH Hr a b x y); [lia | exact Ha | exact Hb].
Qed.

Lemma build_asg_length : forall sidx pinfo k0 asg, build_asg pinfo k0 sidx = Some asg -> length asg = length sidx.
Proof.
  induction sidx as [|i0 r IH]; intros pinfo k0 asg H; cbn [build_asg] in H; [inversion H; reflexivity|].
  destruct (py_nth pinfo i0) as [[o p]|]; [|discriminate].
  destruct (build_asg pinfo (k0 + 1) r) as [asg'|] eqn:E'; [|discriminate]. cbn in H. inversion H; subst asg.
  cbn. f_equal. eapply IH; eassumption.
Qed.

Lemma bind_sets : forall t ps idx t', bind t ps idx = Some t' -> incr idx -> (forall i, In i idx -> 0 <= i) ->
  forall k i, nth_error idx k = Some i -> nth_error (all_params t') (Z.to_nat i) = nth_error ps k.
Proof.
  intros t ps idx t' H Hinc Hpos k i Hk.
  destruct (bind_inv _ _ _ _ H) as (Hlen & asg & Ha & _).
  unfold bind_asg in Ha. pose proof Ha as Ha0. rewrite (incr_sorted _ Hinc) in Ha.
  destruct (build_asg_nth _ _ _ _ Ha k i Hk) as (o & p & Hop & Hasg).
  assert (0 <= i) as Hi by (apply Hpos; eapply nth_error_In; eassumption).
  rewrite py_nth_nonneg in Hop by assumption.
  destruct (par_info_points _ _ _ _ Hop) as (d & v & _ & _ & Hv).
  rewrite (bind_pointwise _ _ _ _ _ H Ha0 _ _ _ _ Hop Hv). unfold upd.
  destruct (nth_error_split _ _ Hasg) as (a1 & a2 & Easg & Hl1).
  rewrite Easg, lookup_last_split.
  - rewrite Z.add_0_l, Nat2Z.id. symmetry. apply nth_error_nth'.
    rewrite Hlen. apply nth_error_Some. congruence.
  - intros o' p' k' Hin E. inversion E; subst o' p'.
    apply In_nth_error in Hin. destruct Hin as [m2 Hm2].
    assert (Hm : nth_error asg (length a1 + S m2) = Some (o, p, k')).
    { rewrite Easg, nth_error_app2 by lia. replace (length a1 + S m2 - length a1)%nat with (S m2) by lia. exact Hm2. }
    assert (Hlt : (length a1 + S m2 < length idx)%nat).
    { rewrite <- (build_asg_length _ _ _ _ Ha). apply nth_error_Some. congruence. }
    destruct (nth_error idx (length a1 + S m2)) as [i'|] eqn:Ei'; [|apply nth_error_None in Ei'; lia].
    destruct (build_asg_nth _ _ _ _ Ha _ _ Ei') as (o2 & p2 & Hop2 & Hasg2).
    rewrite Hm in Hasg2. inversion Hasg2; subst o2 p2.
    assert (i < i') by (apply (incr_lt idx Hinc k (length a1 + S m2)); [lia | assumption | assumption]).
    rewrite py_nth_nonneg in Hop2 by lia.
    pose proof (par_info_nodup t) as Hnd. rewrite NoDup_nth_error in Hnd.
    assert (Z.to_nat i = Z.to_nat i').
    { apply Hnd; [apply nth_error_Some; congruence | congruence]. }
    lia.
Qed.

Lemma bind_resolves : forall t ps idx t', bind t ps idx = Some t' ->
  forall i, In i idx -> exists e, py_nth (par_info t) i = Some e.
Proof.
  intros t ps idx t' H i Hin. destruct (bind_inv _ _ _ _ H) as (_ & asg & Ha & _).
  apply sorted_py_in in Hin. apply In_nth_error in Hin. destruct Hin as [m Hm].
  destruct (build_asg_nth _ _ _ _ Ha m i Hm) as (o & p & Hop & _). eauto.
Qed.

(* positional form for non-negative indices *)
Lemma bind_untouched_pos : forall t ps idx t', bind t ps idx = Some t' -> (forall i, In i idx -> 0 <= i) ->
  forall j, ~ In (Z.of_nat j) idx -> nth_error (all_params t') j = nth_error (all_params t) j.
Proof.
  intros t ps idx t' H Hpos j Hj. apply (bind_untouched _ _ _ _ H). intros i Hin E.
  destruct (bind_resolves _ _ _ _ H i Hin) as [e He]. rewrite He in E.
  rewrite py_nth_nonneg in He by auto.
  pose proof (par_info_nodup t) as Hnd. rewrite NoDup_nth_error in Hnd.
  assert (Z.to_nat i = j) by (apply Hnd; [apply nth_error_Some; congruence | congruence]).
  apply Hj. replace (Z.of_nat j) with i by (specialize (Hpos i Hin); lia). exact Hin.
Qed.

(* ------------------------------------------------------------------ histories: independence of the tapes in the store *)
Lemma set_nth_other {A} : forall (l : list A) i j v, i <> j -> nth_error (set_nth i v l) j = nth_error l j.
Proof.
  induction l as [|x l IH]; intros i j v H; [destruct i; reflexivity|].
  destruct i, j; cbn; try reflexivity; [congruence | apply IH; congruence].
Qed.

Lemma set_nth_same {A} : forall (l : list A) i v x, nth_error l i = Some x -> nth_error (set_nth i v l) i = Some v.
Proof.
  induction l as [|y l IH]; intros i v x H; [destruct i; discriminate|]. destruct i; cbn; [reflexivity | eapply IH; eassumption].
Qed.

Lemma app_keeps {A} (l : list A) x j t : nth_error l j = Some t -> nth_error (l ++ [x]) j = Some t.
Proof. intros H. rewrite nth_error_app1; [assumption | apply nth_error_Some; congruence]. Qed.

Definition mutates (s : step) (j : nat) : Prop := exists l, s = SSetTrain j l.

Lemma exec_frame : forall st s st' c, exec st s = (st', c) ->
  forall j t, nth_error st j = Some t ->
  (~ mutates s j -> nth_error st' j = Some t) /\
  (exists t', nth_error st' j = Some t' /\ ops t' = ops t /\ meas t' = meas t).
Proof.
  intros st s st' c H j t Hj.
  destruct s as [i ou mu tu | i ps idx | i l | i rs | i rs | ]; cbn [exec] in H.
  - destruct (nth_error st i); inversion H; subst; (split; [intros _|exists t; repeat split]); auto using app_keeps.
  - destruct (nth_error st i) as [t0|]; [destruct (bind t0 ps idx)|]; inversion H; subst;
      (split; [intros _|exists t; repeat split]); auto using app_keeps.
  - destruct (nth_error st i) as [t0|] eqn:Ei; [destruct (set_train t0 l) as [t1|] eqn:Es|]; inversion H; subst;
      try (split; [intros _|exists t; repeat split]; auto; fail).
    destruct (Nat.eq_dec i j) as [->|Hne].
    + split; [intros Hm; exfalso; apply Hm; now exists l|].
      exists t1. rewrite (set_nth_same _ _ _ _ Ei). rewrite Ei in Hj. inversion Hj; subst t0.
      unfold set_train in Es. destruct (existsb _ l); [discriminate|]. destruct (existsb _ l); [discriminate|].
      inversion Es. auto.
    + rewrite set_nth_other by assumption. split; [auto|exists t; auto].
  - destruct (nth_error st i) as [t0|]; [destruct (decompose t0 rs)|]; inversion H; subst;
      (split; [intros _|exists t; repeat split]); auto using app_keeps.
  - destruct (nth_error st i) as [t0|]; [destruct (grad_expand t0 rs)|]; inversion H; subst;
      (split; [intros _|exists t; repeat split]); auto using app_keeps.
  - inversion H; subst. split; [auto | exists t; auto].
Qed.

Lemma run_frame : forall ss st stf cs, run_steps st ss = (stf, cs) ->
  forall j t, nth_error st j = Some t ->
  ((forall s, In s ss -> ~ mutates s j) -> nth_error stf j = Some t) /\
  (exists t', nth_error stf j = Some t' /\ ops t' = ops t /\ meas t' = meas t).
Proof.
  induction ss as [|s ss IH]; intros st stf cs H j t Hj; cbn [run_steps] in H.
  - inversion H; subst. split; [auto | exists t; auto].
  - destruct (exec st s) as [st1 c] eqn:E. destruct (run_steps st1 ss) as [st2 cs2] eqn:E2. inversion H; subst.
    destruct (exec_frame _ _ _ _ E j t Hj) as [F1 (t1 & F2 & F3 & F4)]. split.
    + intros Hno. apply (proj1 (IH _ _ _ E2 j t (F1 (Hno s (or_introl eq_refl))))). intros s' Hs'. apply Hno. now right.
    + destruct (proj2 (IH _ _ _ E2 j t1 F2)) as (t2 & G1 & G2 & G3). exists t2. repeat split; congruence.
Qed.

(* ------------------------------------------------------------------ expansion and trainability *)
Definition flag_at (l : list par) (k : Z) : bool := match znth l k with Some v => snd v | None => false end.

(* old positions a new value depends on: non-zero coefficients of its rule *)
Fixpoint nz_pos (off : Z) (cs : list Q) (d : list par) : list Z :=
  match cs, d with
  | c :: cr, _ :: dr => if qnz c then off :: nz_pos (off + 1) cr dr else nz_pos (off + 1) cr dr
  | _, _ => []
  end.
Definition deps_rule (off : Z) (d : list par) (r : rule) : list (list Z) :=
  flat_map (fun e : orule => map (fun pr : prule => nz_pos off (snd pr) d) (snd (fst e))) r.
Definition singles (off : Z) (n : nat) : list (list Z) := map (fun i => [i]) (enum_from off n).
Definition deps_op (rs : rules) (off : Z) (s : slot) : list (list Z) :=
  match find_rule rs (sname s) (map snd (sdata s)) with
  | Some r => deps_rule off (sdata s) r
  | None => singles off (length (sdata s))
  end.
Fixpoint deps_ops (rs : rules) (off : Z) (l : list slot) : list (list Z) :=
  match l with [] => [] | s :: r => deps_op rs off s ++ deps_ops rs (off + Z.of_nat (length (sdata s))) r end.
(* the position map of an expansion: for every parameter of the new tape, the old positions it is computed from *)
Definition deps (t : tape) (rs : rules) : list (list Z) :=
  deps_ops rs 0 (ops t)
  ++ singles (Z.of_nat (length (concat (map sdata (ops t))))) (length (concat (map mp_data (meas t)))).

Definition dep_ok (all : list par) (p : par) (ds : list Z) : Prop := snd p = existsb (flag_at all) ds.

Lemma flag_at_mid : forall pre v post, flag_at (pre ++ v :: post) (Z.of_nat (length pre)) = snd v.
Proof.
  intros. unfold flag_at, znth. destruct (Z.of_nat (length pre) <? 0) eqn:E; [lia|].
  rewrite Nat2Z.id, nth_error_app2, Nat.sub_diag by lia. reflexivity.
Qed.

Lemma anyflag_deps : forall cs d pre post,
  anyflag cs d = existsb (flag_at (pre ++ d ++ post)) (nz_pos (Z.of_nat (length pre)) cs d).
Proof.
  induction cs as [|c cs IH]; intros d pre post; [reflexivity|]. destruct d as [|v d]; [reflexivity|].
  cbn [anyflag nz_pos]. specialize (IH d (pre ++ [v]) post).
  rewrite <- app_assoc, app_length, Nat2Z.inj_add in IH. cbn [app length] in IH. change (Z.of_nat 1) with 1 in IH.
  cbn [app]. destruct (qnz c); cbn [existsb andb orb].
  - now rewrite flag_at_mid, IH.
  - exact IH.
Qed.

Lemma singles_ok : forall d pre post,
  Forall2 (dep_ok (pre ++ d ++ post)) d (singles (Z.of_nat (length pre)) (length d)).
Proof.
  induction d as [|v d IH]; intros pre post; [constructor|]. unfold singles. cbn [length enum_from map].
  constructor.
  - unfold dep_ok. cbn [existsb app]. now rewrite flag_at_mid, orb_false_r.
  - specialize (IH (pre ++ [v]) post). rewrite <- app_assoc, app_length, Nat2Z.inj_add in IH. exact IH.
Qed.

Lemma rule_ok : forall r s pre post,
  Forall2 (dep_ok (pre ++ sdata s ++ post)) (concat (map sdata (map (ev_orule s) r)))
          (deps_rule (Z.of_nat (length pre)) (sdata s) r).
Proof.
  induction r as [|e r IH]; intros s pre post; [constructor|].
  unfold deps_rule in *. cbn [map concat flat_map]. apply Forall2_app; [|apply IH].
  unfold ev_orule. cbn [sdata]. induction (snd (fst e)) as [|pr prs IHp]; cbn [map]; constructor; [|exact IHp].
  unfold dep_ok, ev_par. cbn [snd]. apply anyflag_deps.
Qed.

Lemma op_ok : forall rs s pre post,
  Forall2 (dep_ok (pre ++ sdata s ++ post))
          (concat (map sdata (match expand_op rs s with Some n => n | None => [s] end)))
          (deps_op rs (Z.of_nat (length pre)) s).
Proof.
  intros rs s pre post. unfold expand_op, deps_op.
  destruct (find_rule rs (sname s) (map snd (sdata s))) as [r|].
  - apply rule_ok.
  - cbn [map concat]. rewrite app_nil_r. apply singles_ok.
Qed.

Lemma ops_ok : forall rs l pre post,
  Forall2 (dep_ok (pre ++ concat (map sdata l) ++ post)) (concat (map sdata (expand_ops rs l)))
          (deps_ops rs (Z.of_nat (length pre)) l).
Proof.
  induction l as [|s l IH]; intros pre post; [constructor|].
  unfold expand_ops in *. cbn [flat_map map concat deps_ops]. rewrite map_app, concat_app.
  apply Forall2_app.
  - rewrite <- app_assoc. apply op_ok.
  - specialize (IH (pre ++ sdata s) post). rewrite <- !app_assoc, app_length, Nat2Z.inj_add in IH.
    rewrite <- app_assoc. exact IH.
Qed.

Lemma decompose_deps : forall t rs t', decompose t rs = Some t' ->
  Forall2 (dep_ok (all_params t)) (all_params t') (deps t rs).
Proof.
  intros t rs t' H. unfold decompose in H. destruct (all_stop rs (ops t)); [discriminate|]. inversion H; subst t'.
  unfold all_params, allp, deps. cbn [ops meas]. apply Forall2_app.
  - pose proof (ops_ok rs (ops t) [] (concat (map mp_data (meas t)))) as P. exact P.
  - pose proof (singles_ok (concat (map mp_data (meas t))) (concat (map sdata (ops t))) []) as P.
    rewrite app_nil_r in P. exact P.
Qed.

Lemma insert_dedup_in : forall l x y, In y (insert_dedup x l) <-> y = x \/ In y l.
Proof.
  induction l as [|z l IH]; intros x y; cbn [insert_dedup]; [cbn; intuition|].
  destruct (x <? z); [cbn; intuition|]. destruct (x =? z) eqn:E.
  - apply Z.eqb_eq in E. subst. cbn. intuition.
  - cbn [In]. rewrite IH. intuition.
Qed.

Lemma sort_set_in : forall l y, In y (sort_set l) <-> In y l.
Proof.
  induction l as [|x l IH]; intros y; [reflexivity|]. unfold sort_set in *. cbn [fold_right].
  rewrite insert_dedup_in, IH. cbn. intuition.
Qed.

Lemma flagged_in : forall l i0 j, In j (flagged i0 l) <->
  exists n v, nth_error l n = Some v /\ snd v = true /\ j = i0 + Z.of_nat n.
Proof.
  induction l as [|v l IH]; intros i0 j; cbn [flagged].
  - split; [intros [] | intros (n & w & H & _); destruct n; discriminate].
  - assert (In j (flagged (i0 + 1) l) <-> exists n w, nth_error l n = Some w /\ snd w = true /\ j = i0 + Z.of_nat (S n)) as T.
    { rewrite IH. split; intros (n & w & H1 & H2 & H3); exists n, w; repeat split; try assumption; lia. }
    destruct (snd v) eqn:Ev; [cbn [In]|]; rewrite ?T; split.
    + intros [<- | (n & w & H1 & H2 & H3)]; [exists O, v; cbn; repeat split; [assumption | lia]|].
      exists (S n), w. auto.
    + intros (n & w & H1 & H2 & H3). destruct n as [|n]; [left; lia | right; exists n, w; auto].
    + intros (n & w & H1 & H2 & H3). exists (S n), w. auto.
    + intros (n & w & H1 & H2 & H3). destruct n as [|n]; [cbn in H1; inversion H1; subst; congruence | exists n, w; auto].
Qed.

Definition consistent (t : tape) : Prop :=
  forall k, In k (trainable t) <-> (0 <= k /\ flag_at (all_params t) k = true).

Lemma flagged_flag_at : forall l j, In j (flagged 0 l) <-> (0 <= j /\ flag_at l j = true).
Proof.
  intros l j. rewrite flagged_in. unfold flag_at, znth. split.
  - intros (n & v & H1 & H2 & ->). split; [lia|]. destruct (0 + Z.of_nat n <? 0) eqn:E; [lia|].
    replace (Z.to_nat (0 + Z.of_nat n)) with n by lia. now rewrite H1.
  - intros [Hj H]. destruct (j <? 0) eqn:E; [lia|]. destruct (nth_error l (Z.to_nat j)) as [v|] eqn:Ev; [|discriminate].
    exists (Z.to_nat j), v. repeat split; [assumption | assumption | lia].
Qed.

Lemma grad_expand_inv : forall t rs t'', grad_expand t rs = XNew t'' ->
  exists t', decompose t rs = Some t' /\ ops t'' = ops t' /\ meas t'' = meas t' /\
             train t'' = Some (sort_set (flagged 0 (all_params t'))).
Proof.
  intros t rs t'' H. unfold grad_expand in H. destruct (existsb snd (concat (map mp_data (meas t)))); [discriminate|].
  destruct (decompose t rs) as [t'|]; [|discriminate]. exists t'. split; [reflexivity|].
  unfold set_train in H. destruct (existsb _ _); [discriminate|]. destruct (existsb _ _); [discriminate|].
  inversion H; subst t''. cbn [ops meas train]. repeat split.
  f_equal. f_equal. clear H. induction (flagged 0 (all_params t')); cbn; [reflexivity | now f_equal].
Qed.

Lemma Forall2_nth {A B} (R : A -> B -> Prop) : forall l1 l2, Forall2 R l1 l2 ->
  forall n, (forall a, nth_error l1 n = Some a -> exists b, nth_error l2 n = Some b /\ R a b) /\
            (forall b, nth_error l2 n = Some b -> exists a, nth_error l1 n = Some a /\ R a b).
Proof.
  induction 1 as [|a b l1 l2 HR HF IH]; intros n; [split; intros x Hx; destruct n; discriminate|].
  destruct n as [|n]; cbn; [split; intros x Hx; inversion Hx; subst; eauto | apply IH].
Qed.

(* after the gradient expand the trainable set is the image of the old one under the position map *)
Lemma grad_expand_trainable : forall t rs t'', grad_expand t rs = XNew t'' ->
  consistent t'' /\
  forall j, In j (trainable t'') <->
    exists n ds, j = Z.of_nat n /\ nth_error (deps t rs) n = Some ds /\
                 exists k, In k ds /\ flag_at (all_params t) k = true.
Proof.
  intros t rs t'' H. destruct (grad_expand_inv _ _ _ H) as (t' & Hd & Ho & Hm & Ht).
  assert (Hall : all_params t'' = all_params t') by (unfold all_params, allp; now rewrite Ho, Hm).
  assert (Htr : forall j, In j (trainable t'') <-> (0 <= j /\ flag_at (all_params t'') j = true)).
  { intros j. unfold trainable. rewrite Ht, sort_set_in, Hall. apply flagged_flag_at. }
  split; [exact Htr|]. intros j. rewrite Htr, Hall.
  pose proof (Forall2_nth _ _ _ (decompose_deps _ _ _ Hd)) as F. unfold flag_at at 1, znth. split.
  - intros [Hj Hf]. destruct (j <? 0) eqn:E; [lia|].
    destruct (nth_error (all_params t') (Z.to_nat j)) as [v|] eqn:Ev; [|discriminate].
    destruct (proj1 (F (Z.to_nat j)) v Ev) as (ds & Hds & Hok). exists (Z.to_nat j), ds.
    repeat split; [lia | assumption|]. unfold dep_ok in Hok. rewrite Hf in Hok. symmetry in Hok.
    apply existsb_exists in Hok. exact Hok.
  - intros (n & ds & -> & Hds & k & Hk & Hfk). split; [lia|]. destruct (Z.of_nat n <? 0) eqn:E; [lia|].
    rewrite Nat2Z.id. destruct (proj2 (F n) ds Hds) as (v & Hv & Hok). rewrite Hv. unfold dep_ok in Hok. rewrite Hok.
    apply existsb_exists. eauto.
Qed.

Corollary grad_expand_trainable_pos : forall t rs t'', consistent t -> grad_expand t rs = XNew t'' ->
  forall j, In j (trainable t'') <->
    exists n ds, j = Z.of_nat n /\ nth_error (deps t rs) n = Some ds /\ exists k, In k ds /\ 0 <= k /\ In k (trainable t).
Proof.
  intros t rs t'' Hc H j. rewrite (proj2 (grad_expand_trainable _ _ _ H) j).
  split; intros (n & ds & E & Hds & k & Hk & Hf); exists n, ds; repeat split; try assumption; exists k.
  - assert (0 <= k) by (unfold flag_at, znth in Hf; destruct (k <? 0) eqn:E'; [discriminate | lia]).
    repeat split; try assumption. apply Hc. auto.
  - destruct Hf as [Hk0 Hin]. split; [assumption|]. now apply Hc.
Qed.

(* plain decompose resets the trainable indices to "all parameters" *)
Lemma decompose_trainable_all : forall t rs t', decompose t rs = Some t' ->
  trainable t' = enum_from 0 (length (all_params t')).
Proof.
  intros t rs t' H. unfold decompose in H. destruct (all_stop rs (ops t)); [discriminate|]. inversion H; subst.
  unfold trainable. cbn [train]. now rewrite par_info_len.
Qed.
