(* C33: Gallina model of a device preprocessing program (pennylane/devices/preprocess.py and the
   preprocess / preprocess_transforms methods of the built-in devices) over an abstract tape.

   tape  = operations (opaque code + wires), measurements (opaque code, optional observable code, wires), shots flag
   stage = VALIDATOR  (validate_device_wires, validate_measurements, validate_observables, no_sampling, no_analytic,
                       and the remaining validators as a recorded condition)      tape -> Ok [tape'] | Err
         | REWRITER   decompose (transcribed: stopping condition, skip_initial_state_prep, early return, fuel-bounded
                       replacement by the decomposer given as a table), and the contract-only rewriters
                       (defer_measurements, split_non_commuting, diagonalize_measurements, broadcast_expand,
                       dynamic_one_shot, adjoint_state_measurements ...) as explicit functions (oracles).
   CompilePipeline.__call_tapes = run_pipeline (every stage applied to every tape of the batch, outputs concatenated).
   No proofs here. *)
From Coq Require Import List ZArith Bool.
Import ListNotations.
Open Scope Z_scope.

Record aop := mkOp { o_code : Z; o_wires : list Z }.
Record amp := mkMp { m_code : Z; m_obs : option Z; m_wires : list Z }.
Record tape := mkTape { t_ops : list aop; t_mps : list amp; t_shots : bool }.

Inductive result (A : Type) := Ok (a : A) | Err.
Arguments Ok {A} a. Arguments Err {A}.

Definition zmem (x : Z) (l : list Z) : bool := existsb (Z.eqb x) l.

Fixpoint bind_flat {A B} (f : A -> result (list B)) (l : list A) : result (list B) :=
  match l with
  | [] => Ok []
  | x :: r => match f x with
              | Err => Err
              | Ok a => match bind_flat f r with Err => Err | Ok b => Ok (a ++ b) end
              end
  end.

(* ---------------------------------------------------------------- validators *)
Definition tape_wires (t : tape) : list Z := flat_map o_wires (t_ops t) ++ flat_map m_wires (t_mps t).

(* `if not mp.obs and not mp.wires: new_mp._wires = wires` *)
Definition complete_mp (w : list Z) (m : amp) : amp :=
  match m_obs m, m_wires m with
  | None, [] => mkMp (m_code m) None w
  | _, _ => m
  end.

Definition validate_device_wires (dw : option (list Z)) (t : tape) : result (list tape) :=
  match dw with
  | None => Ok [t]
  | Some [] => Ok [t]                                   (* `if not wires: return (tape,)` *)
  | Some w =>
      if forallb (fun x => zmem x w) (tape_wires t)
      then Ok [mkTape (t_ops t) (map (complete_mp w) (t_mps t)) (t_shots t)]
      else Err
  end.

Definition validate_measurements (ana samp : list Z) (t : tape) : result (list tape) :=
  if forallb (fun m => zmem (m_code m) (if t_shots t then samp else ana)) (t_mps t) then Ok [t] else Err.

Definition validate_observables (ok : list Z) (t : tape) : result (list tape) :=
  if forallb (fun m => match m_obs m with Some c => zmem c ok | None => true end) (t_mps t) then Ok [t] else Err.

Definition no_sampling (t : tape) : result (list tape) := if t_shots t then Err else Ok [t].
Definition no_analytic (t : tape) : result (list tape) := if t_shots t then Ok [t] else Err.
Definition flag_validator (ok : bool) (t : tape) : result (list tape) := if ok then Ok [t] else Err.

(* ---------------------------------------------------------------- decompose *)
Fixpoint lookup (tab : list (Z * list aop)) (c : Z) : option (list aop) :=
  match tab with [] => None | (c', v) :: r => if c =? c' then Some v else lookup r c end.

(* _operator_decomposition_gen restricted to what preprocess.decompose uses without the graph: accepted -> yield,
   else the decomposer (op.decomposition()), undefined -> DecompositionUndefinedError; fuel = recursion depth *)
Fixpoint dgen (fuel : nat) (acc : Z -> bool) (dec : Z -> option (list aop)) (o : aop) : result (list aop) :=
  match fuel with
  | O => Err
  | S f => if acc (o_code o) then Ok [o]
           else match dec (o_code o) with
                | None => Err
                | Some d => bind_flat (dgen f acc dec) d
                end
  end.

Definition split_prep (skip : bool) (isprep : Z -> bool) (ops : list aop) : list aop * list aop :=
  match ops with
  | o :: r => if skip && isprep (o_code o) then ([o], r) else ([], ops)
  | [] => ([], [])
  end.

Definition decompose_stage (fuel : nat) (acc : Z -> bool) (dec : Z -> option (list aop)) (skip : bool)
           (isprep : Z -> bool) (t : tape) : result (list tape) :=
  let (p, rest) := split_prep skip isprep (t_ops t) in
  if forallb (fun o => acc (o_code o)) rest then Ok [t]
  else match bind_flat (dgen fuel acc dec) rest with
       | Ok new => Ok [mkTape (p ++ new) (t_mps t) (t_shots t)]
       | Err => Err
       end.

(* ---------------------------------------------------------------- stages and pipelines *)
Inductive stage :=
| SWires (dw : option (list Z))
| SMeas (ana samp : list Z)
| SObs (ok : list Z)
| SNoSampling
| SNoAnalytic
| SFlag (ok : bool)
| SDecompose (acc : list Z) (dtab : list (Z * list aop)) (skip : bool) (prep : list Z)
| SOracle (f : tape -> option (list tape)).

Definition FUEL : nat := 120.

Definition run_stage (s : stage) (t : tape) : result (list tape) :=
  match s with
  | SWires dw => validate_device_wires dw t
  | SMeas a b => validate_measurements a b t
  | SObs ok => validate_observables ok t
  | SNoSampling => no_sampling t
  | SNoAnalytic => no_analytic t
  | SFlag ok => flag_validator ok t
  | SDecompose acc dtab skip prep =>
      decompose_stage FUEL (fun c => zmem c acc) (lookup dtab) skip (fun c => zmem c prep) t
  | SOracle f => match f t with Some ts => Ok ts | None => Err end
  end.

Definition is_validator (s : stage) : bool :=
  match s with SDecompose _ _ _ _ | SOracle _ => false | _ => true end.

Fixpoint run_pipeline (p : list stage) (b : list tape) : result (list tape) :=
  match p with
  | [] => Ok b
  | s :: r => match bind_flat (run_stage s) b with Err => Err | Ok b' => run_pipeline r b' end
  end.

(* the per-stage batches, up to and including the first failing stage *)
Fixpoint trace (p : list stage) (b : list tape) : list (option (list tape)) :=
  match p with
  | [] => []
  | s :: r => match bind_flat (run_stage s) b with Err => [None] | Ok b' => Some b' :: trace r b' end
  end.

(* ---------------------------------------------------------------- what "supported by the device" means *)
Definition ops_okb (acc : Z -> bool) (skip : bool) (isprep : Z -> bool) (ops : list aop) : bool :=
  forallb (fun o => acc (o_code o)) (snd (split_prep skip isprep ops)).
Definition mps_okb (ana samp : list Z) (t : tape) : bool :=
  forallb (fun m => zmem (m_code m) (if t_shots t then samp else ana)) (t_mps t).
Definition obs_okb (ok : list Z) (t : tape) : bool :=
  forallb (fun m => match m_obs m with Some c => zmem c ok | None => true end) (t_mps t).
Definition wires_okb (dw : option (list Z)) (t : tape) : bool :=
  match dw with None | Some [] => true | Some w => forallb (fun x => zmem x w) (tape_wires t) end.

(* ---------------------------------------------------------------- the built-in devices' programs (names) *)
Inductive dev := DQubit | DMixed | DReference | DClifford | DTensor | DNull.
Inductive grad := GNone | GAdjoint | GBackprop.
Inductive mcm := MDeferred | MOneShot | MTree.
Record cfg := mkCfg { c_dev : dev; c_grad : grad; c_mcm : mcm;
                      c_workers : bool; c_readout : bool; c_check : bool; c_jit : bool }.

Inductive sname :=
| NValidateDeviceWires | NValidateMeasurements | NValidateObservables | NNoSampling | NNoAnalytic
| NValidateWorkers | NValidateAdjointTrainable | NNoCounts | NValidateChannels | NWarnReadout
| NDecompose
| NDefer | NSplitNonCommuting | NDiagonalize | NMeasFromSamples | NBroadcastExpand | NCondBroadcastExpand
| NExpandFn | NDynamicOneShot | NResolveDynamicWires | NAdjointStateMeasurements | NOther.

Definition bif {A} (b : bool) (l : list A) : list A := if b then l else [].
Definition is_grad (g h : grad) : bool :=
  match g, h with GNone, GNone | GAdjoint, GAdjoint | GBackprop, GBackprop => true | _, _ => false end.
Definition is_mcm (g h : mcm) : bool :=
  match g, h with MDeferred, MDeferred | MOneShot, MOneShot | MTree, MTree => true | _, _ => false end.

(* DefaultQubit.preprocess_transforms (NullQubit.preprocess borrows it) *)
Definition dq_names (c : cfg) : list sname :=
  bif (c_jit c) [NNoCounts] ++
  bif (is_mcm (c_mcm c) MDeferred) [NDefer] ++
  [NDecompose; NResolveDynamicWires; NValidateDeviceWires; NValidateMeasurements; NCondBroadcastExpand] ++
  bif (is_mcm (c_mcm c) MTree) [NBroadcastExpand] ++
  bif (is_mcm (c_mcm c) MOneShot) [NExpandFn; NDynamicOneShot] ++
  bif (c_workers c) [NValidateWorkers] ++
  bif (is_grad (c_grad c) GBackprop) [NNoSampling] ++
  bif (is_grad (c_grad c) GAdjoint)
      [NNoSampling; NDecompose; NValidateObservables; NValidateMeasurements; NAdjointStateMeasurements;
       NBroadcastExpand; NValidateAdjointTrainable].

Definition pipeline_names (c : cfg) : list sname :=
  match c_dev c with
  | DQubit | DNull => dq_names c
  | DMixed =>
      [NDefer; NDecompose] ++ bif (is_grad (c_grad c) GBackprop) [NNoSampling] ++ bif (c_readout c) [NWarnReadout] ++
      [NValidateDeviceWires; NValidateMeasurements; NValidateObservables]
  | DReference =>
      [NValidateDeviceWires; NDefer; NSplitNonCommuting; NDiagonalize; NMeasFromSamples; NDecompose;
       NValidateMeasurements; NBroadcastExpand]
  | DClifford =>
      [NValidateDeviceWires; NDefer] ++ bif (c_check c) [NDecompose; NValidateChannels] ++
      [NValidateMeasurements; NValidateObservables] ++ bif (c_workers c) [NValidateWorkers] ++
      [NValidateAdjointTrainable]
  | DTensor =>
      [NValidateMeasurements; NValidateObservables; NValidateDeviceWires; NDefer; NDecompose; NBroadcastExpand]
  end.

Definition name_is_validator (n : sname) : bool :=
  match n with
  | NValidateDeviceWires | NValidateMeasurements | NValidateObservables | NNoSampling | NNoAnalytic
  | NValidateWorkers | NValidateAdjointTrainable | NNoCounts | NValidateChannels | NWarnReadout => true
  | _ => false
  end.

(* the kind of model stage a transform name must be given *)
Definition stage_matches (n : sname) (s : stage) : bool :=
  match n, s with
  | NValidateDeviceWires, SWires _ => true
  | NValidateMeasurements, SMeas _ _ => true
  | NValidateObservables, SObs _ => true
  | NNoSampling, SNoSampling => true
  | NNoAnalytic, SNoAnalytic => true
  | (NValidateWorkers | NValidateAdjointTrainable | NNoCounts | NValidateChannels | NWarnReadout), SFlag _ => true
  | NDecompose, SDecompose _ _ _ _ => true
  | n, SOracle _ => negb (name_is_validator n) && match n with NDecompose => false | _ => true end
  | _, _ => false
  end.

(* ---------------------------------------------------------------- correspondence (tie K) *)
Fixpoint list_eqb {A} (eq : A -> A -> bool) (l1 l2 : list A) : bool :=
  match l1, l2 with
  | [], [] => true
  | x :: r, y :: s => eq x y && list_eqb eq r s
  | _, _ => false
  end.
Definition oz_eqb (a b : option Z) : bool :=
  match a, b with Some x, Some y => x =? y | None, None => true | _, _ => false end.
Definition op_eqb (a b : aop) : bool := (o_code a =? o_code b) && list_eqb Z.eqb (o_wires a) (o_wires b).
Definition mp_eqb (a b : amp) : bool :=
  (m_code a =? m_code b) && oz_eqb (m_obs a) (m_obs b) && list_eqb Z.eqb (m_wires a) (m_wires b).
Definition tape_eqb (a b : tape) : bool :=
  list_eqb op_eqb (t_ops a) (t_ops b) && list_eqb mp_eqb (t_mps a) (t_mps b) && Bool.eqb (t_shots a) (t_shots b).

(* a contract-only rewriter given by the input -> output table recorded from the real run *)
Fixpoint tab_fun (tab : list (tape * option (list tape))) (t : tape) : option (list tape) :=
  match tab with
  | [] => None
  | (k, v) :: r => if tape_eqb k t then v else tab_fun r t
  end.

Definition sname_code (n : sname) : Z :=
  match n with
  | NValidateDeviceWires => 1 | NValidateMeasurements => 2 | NValidateObservables => 3 | NNoSampling => 4
  | NNoAnalytic => 5 | NValidateWorkers => 6 | NValidateAdjointTrainable => 7 | NNoCounts => 8
  | NValidateChannels => 9 | NWarnReadout => 10 | NDecompose => 11 | NDefer => 12 | NSplitNonCommuting => 13
  | NDiagonalize => 14 | NMeasFromSamples => 15 | NBroadcastExpand => 16 | NCondBroadcastExpand => 17
  | NExpandFn => 18 | NDynamicOneShot => 19 | NResolveDynamicWires => 20 | NAdjointStateMeasurements => 21
  | NOther => 22
  end.
Definition sname_eqb (a b : sname) : bool := sname_code a =? sname_code b.

Definition otapes_eqb (a b : option (list tape)) : bool :=
  match a, b with
  | Some x, Some y => list_eqb tape_eqb x y
  | None, None => true
  | _, _ => false
  end.

(* the device's own predicates on the final tapes (tables recorded from the device module's predicates) *)
Record final := mkFinal { f_ops_ok : list Z; f_prep : list Z; f_prep_exempt : bool; f_mps_ok : list Z;
                          f_dw : option (list Z) }.
Definition supportedb (F : final) (t : tape) : bool :=
  ops_okb (fun c => zmem c (f_ops_ok F)) (f_prep_exempt F) (fun c => zmem c (f_prep F)) (t_ops t)
  && forallb (fun m => zmem (m_code m) (f_mps_ok F)) (t_mps t)
  && wires_okb (f_dw F) t.

Record case := mkCase { k_cfg : cfg; k_names : list sname; k_stages : list stage; k_input : tape;
                        k_trace : list (option (list tape)); k_final : final; k_check_final : bool }.

Definition names_ok (k : case) : bool := list_eqb sname_eqb (pipeline_names (k_cfg k)) (k_names k).
Fixpoint kinds_ok (ns : list sname) (ss : list stage) : bool :=
  match ns, ss with
  | _, [] => true            (* the recorded run stops at the failing stage *)
  | n :: r, s :: q => stage_matches n s && kinds_ok r q
  | [], _ :: _ => false
  end.
Definition trace_ok (k : case) : bool := list_eqb otapes_eqb (trace (k_stages k) [k_input k]) (k_trace k).
Definition final_ok (k : case) : bool :=
  negb (k_check_final k) ||
  match run_pipeline (k_stages k) [k_input k] with
  | Ok out => forallb (supportedb (k_final k)) out
  | Err => true
  end.
Definition diag_case (k : case) : bool * bool * bool * bool :=
  (names_ok k, kinds_ok (k_names k) (k_stages k), trace_ok k, final_ok k).
Definition check_case (k : case) : bool :=
  names_ok k && kinds_ok (k_names k) (k_stages k) && trace_ok k && final_ok k.
