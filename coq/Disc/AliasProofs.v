(* C18: lemmas about the heap model of QuantumScript aliasing (Disc/AliasModel.v). *)
From Coq Require Import List ZArith Bool Lia PeanoNat.
From PLV Require Import Disc.AliasModel.
Import ListNotations.
Open Scope Z_scope.

(* ---------------------------------------------------------------- heap lemmas *)
Lemma h_set_length : forall h a l, length (h_set h a l) = length h.
Proof. induction h as [|x r IH]; intros [|a] l; cbn; auto. Qed.

Lemma h_get_set_other : forall h a b l, a <> b -> h_get (h_set h a l) b = h_get h b.
Proof.
  unfold h_get. induction h as [|x r IH]; intros [|a] [|b] l H; cbn; auto; try congruence.
Qed.

Lemma h_get_set_same : forall h a l, (a < length h)%nat -> h_get (h_set h a l) a = Some l.
Proof.
  unfold h_get. induction h as [|x r IH]; intros [|a] l H; cbn in *; try lia; auto.
  apply IH. lia.
Qed.

Lemma h_get_app_l : forall h l a, (a < length h)%nat -> h_get (h ++ [l]) a = h_get h a.
Proof. intros. unfold h_get. apply nth_error_app1. assumption. Qed.

Lemma h_get_app_new : forall h l, h_get (h ++ [l]) (length h) = Some l.
Proof. intros. unfold h_get. rewrite nth_error_app2 by lia. rewrite Nat.sub_diag. reflexivity. Qed.

Lemma t_set_length : forall ts i t, length (t_set ts i t) = length ts.
Proof. induction ts as [|x r IH]; intros [|i] t; cbn; auto. Qed.

Lemma nth_t_set_other : forall ts i j t, i <> j -> nth_error (t_set ts i t) j = nth_error ts j.
Proof.
  induction ts as [|x r IH]; intros [|i] [|j] t H; cbn; auto; try congruence.
Qed.

(* ---------------------------------------------------------------- frame property of in-place mutations *)
(* running any sequence of in-place mutations through a name bound to address a leaves the tape records, the
   number of list objects and every OTHER list object unchanged (whether or not one of them raises) *)
Lemma run_muts_frame : forall muts s e y a,
  lookup y e = Some a ->
  forall s' e' ok, run (map (CMut y) muts) (s, e) = (s', e', ok) ->
    tapes s' = tapes s /\ length (lists s') = length (lists s) /\ e' = e /\
    (forall b, b <> a -> h_get (lists s') b = h_get (lists s) b).
Proof.
  induction muts as [|m r IH]; intros s e y a Hy s' e' ok Hrun.
  - cbn in Hrun. inversion Hrun; subst. auto.
  - cbn [map run] in Hrun. cbn [exec] in Hrun. rewrite Hy in Hrun.
    destruct (h_get (lists s) a) as [l|] eqn:Hg.
    + destruct (apply_mut m l) as [l'|] eqn:Hm.
      * specialize (IH _ _ _ _ Hy _ _ _ Hrun). cbn [tapes lists] in IH.
        destruct IH as (Ht & Hl & He & Hf). repeat split; auto.
        -- rewrite Hl. apply h_set_length.
        -- intros b Hb. rewrite (Hf b Hb). apply h_get_set_other. congruence.
      * inversion Hrun; subst. auto.
    + inversion Hrun; subst. auto.
Qed.

(* reading a tape only depends on its record and on the list objects it points to *)
Lemma read_tape_frame : forall s s' t tp,
  nth_error (tapes s) t = Some tp -> nth_error (tapes s') t = Some tp ->
  h_get (lists s') (t_ops tp) = h_get (lists s) (t_ops tp) ->
  h_get (lists s') (t_meas tp) = h_get (lists s) (t_meas tp) ->
  (forall a, t_tp tp = Some a -> h_get (lists s') a = h_get (lists s) a) ->
  read_tape s' t = read_tape s t.
Proof.
  intros s s' t tp H1 H2 Ho Hm Ht.
  unfold read_tape, tape_ops, tape_meas, tape_tp, tape_shots, get_tape. rewrite H1, H2, Ho, Hm.
  destruct (t_tp tp) as [a|] eqn:E; [rewrite (Ht a eq_refl)|]; reflexivity.
Qed.

Lemma read_tape_none : forall s s' t,
  nth_error (tapes s) t = None -> nth_error (tapes s') t = None -> read_tape s' t = read_tape s t.
Proof.
  intros. unfold read_tape, tape_ops, tape_meas, tape_tp, tape_shots, get_tape. rewrite H, H0. reflexivity.
Qed.

(* ---------------------------------------------------------------- the good idiom *)
(* ops = tape.operations.copy(); <any in-place mutations of ops>   -- every tape reads as before *)
Lemma copy_then_mutate : forall s e t x y muts s' e' ok,
  wf s ->
  run (CGetOps x t :: CCopyList y x :: map (CMut y) muts) (s, e) = (s', e', ok) ->
  forall t0, read_tape s' t0 = read_tape s t0.
Proof.
  intros s e t x y muts s' e' ok Hwf Hrun t0.
  cbn [run] in Hrun. cbn [exec] in Hrun.
  destruct (get_tape s t) as [tp|] eqn:Ht; [|inversion Hrun; subst; reflexivity].
  cbn [exec lookup] in Hrun. rewrite Nat.eqb_refl in Hrun.
  destruct (h_get (lists s) (t_ops tp)) as [l|] eqn:Hg; [|inversion Hrun; subst; reflexivity].
  unfold alloc in Hrun.
  assert (Hy : lookup y ((y, length (lists s)) :: (x, t_ops tp) :: e) = Some (length (lists s))).
  { cbn. rewrite Nat.eqb_refl. reflexivity. }
  destruct (run_muts_frame _ _ _ _ _ Hy _ _ _ Hrun) as (Htp & Hlen & _ & Hfr).
  cbn [tapes lists] in *.
  destruct (nth_error (tapes s) t0) as [tp0|] eqn:H0.
  - destruct (Hwf _ _ H0) as (Ho & Hm & Hta).
    apply (read_tape_frame s s' t0 tp0); auto.
    + rewrite Htp. assumption.
    + rewrite Hfr by lia. apply h_get_app_l. assumption.
    + rewrite Hfr by lia. apply h_get_app_l. assumption.
    + intros a Ha. specialize (Hta a Ha). rewrite Hfr by lia. apply h_get_app_l. assumption.
  - apply read_tape_none; auto. rewrite Htp. assumption.
Qed.

(* the same for the measurements list *)
Lemma copy_meas_then_mutate : forall s e t x y muts s' e' ok,
  wf s ->
  run (CGetMeas x t :: CCopyList y x :: map (CMut y) muts) (s, e) = (s', e', ok) ->
  forall t0, read_tape s' t0 = read_tape s t0.
Proof.
  intros s e t x y muts s' e' ok Hwf Hrun t0.
  cbn [run] in Hrun. cbn [exec] in Hrun.
  destruct (get_tape s t) as [tp|] eqn:Ht; [|inversion Hrun; subst; reflexivity].
  cbn [exec lookup] in Hrun. rewrite Nat.eqb_refl in Hrun.
  destruct (h_get (lists s) (t_meas tp)) as [l|] eqn:Hg; [|inversion Hrun; subst; reflexivity].
  unfold alloc in Hrun.
  assert (Hy : lookup y ((y, length (lists s)) :: (x, t_meas tp) :: e) = Some (length (lists s))).
  { cbn. rewrite Nat.eqb_refl. reflexivity. }
  destruct (run_muts_frame _ _ _ _ _ Hy _ _ _ Hrun) as (Htp & Hlen & _ & Hfr).
  cbn [tapes lists] in *.
  destruct (nth_error (tapes s) t0) as [tp0|] eqn:H0.
  - destruct (Hwf _ _ H0) as (Ho & Hm & Hta).
    apply (read_tape_frame s s' t0 tp0); auto.
    + rewrite Htp. assumption.
    + rewrite Hfr by lia. apply h_get_app_l. assumption.
    + rewrite Hfr by lia. apply h_get_app_l. assumption.
    + intros a Ha. specialize (Hta a Ha). rewrite Hfr by lia. apply h_get_app_l. assumption.
  - apply read_tape_none; auto. rewrite Htp. assumption.
Qed.

(* ---------------------------------------------------------------- the bad idiom *)
(* ops = tape.operations; ops.pop(0)   -- the caller's tape has lost its first operation *)
Lemma alias_pop_changes : forall s e t tp x v ops,
  nth_error (tapes s) t = Some tp -> h_get (lists s) (t_ops tp) = Some (v :: ops) ->
  exists s' e', run [CGetOps x t; CMut x (MPop 0)] (s, e) = (s', e', true) /\
                tape_ops s' t = Some ops /\ tape_ops s t = Some (v :: ops).
Proof.
  intros s e t tp x v ops Ht Hg.
  assert (Hlt : (t_ops tp < length (lists s))%nat).
  { apply nth_error_Some. unfold h_get in Hg. congruence. }
  eexists. eexists. split; [|split].
  - cbn [run exec]. unfold get_tape. rewrite Ht. cbn [exec lookup]. rewrite Nat.eqb_refl. rewrite Hg.
    cbn. reflexivity.
  - unfold tape_ops, get_tape. cbn [tapes lists]. rewrite Ht. apply h_get_set_same. assumption.
  - unfold tape_ops, get_tape. rewrite Ht. assumption.
Qed.

(* ---------------------------------------------------------------- QuantumScript.copy *)
Lemma alloc_lists : forall s l, lists (fst (alloc s l)) = lists s ++ [l].
Proof. reflexivity. Qed.

Lemma tape_copy_spec : forall s e t tp uo um us ut co s' e',
  wf s -> nth_error (tapes s) t = Some tp ->
  exec (CTapeCopy t uo um us ut co) (s, e) = Some (s', e') ->
  exists tp', tapes s' = tapes s ++ [tp'] /\ e' = e /\
    (length (lists s) <= t_ops tp')%nat /\ (length (lists s) <= t_meas tp')%nat /\ t_ops tp' <> t_meas tp' /\
    (t_ops tp' < length (lists s'))%nat /\ (t_meas tp' < length (lists s'))%nat /\
    (forall a, t_tp tp' = Some a -> (a < length (lists s'))%nat) /\
    (forall a, t_tp tp' = Some a -> (a < length (lists s))%nat ->
               uo = None /\ um = None /\ ut = None /\ t_tp tp = Some a) /\
    t_shots tp' = match us with Some v => v | None => t_shots tp end /\
    (forall b, (b < length (lists s))%nat -> h_get (lists s') b = h_get (lists s) b) /\
    (uo = None -> h_get (lists s') (t_ops tp') = h_get (lists s) (t_ops tp)) /\
    (um = None -> h_get (lists s') (t_meas tp') = h_get (lists s) (t_meas tp)).
Proof.
  intros s e t tp uo um us ut co s' e' Hwf Ht Hex.
  destruct (Hwf _ _ Ht) as (Hlo & Hlm & Hlt).
  cbn [exec] in Hex. unfold get_tape in Hex. rewrite Ht in Hex.
  destruct (copy_src s e uo (t_ops tp)) as [lo|] eqn:Ho; [|discriminate].
  destruct (copy_src s e um (t_meas tp)) as [lm|] eqn:Hm; [|discriminate].
  unfold alloc in Hex. cbn [lists tapes] in Hex.
  destruct ut as [l|].
  - inversion Hex; subst; clear Hex. cbn [lists tapes].
    eexists. split; [reflexivity|]. cbn [t_ops t_meas t_tp t_shots].
    repeat rewrite app_length. cbn [length].
    repeat split; try lia.
    + intros a Ha. inversion Ha; subst. lia.
    + inversion H; subst; lia.
    + inversion H; subst; lia.
    + inversion H; subst; lia.
    + inversion H; subst; lia.
    + intros b Hb. unfold h_get. rewrite <- !app_assoc. apply nth_error_app1. assumption.
    + intros ->. cbn in Ho. unfold h_get. rewrite <- !app_assoc. rewrite nth_error_app2 by lia.
      rewrite Nat.sub_diag. cbn. unfold h_get in Ho. congruence.
    + intros ->. cbn in Hm. unfold h_get. rewrite <- app_assoc. rewrite nth_error_app2; rewrite app_length; cbn; try lia.
      replace (length (lists s) + 1 - (length (lists s) + 1))%nat with O by lia. cbn. unfold h_get in Hm. congruence.
  - inversion Hex; subst; clear Hex. cbn [lists tapes].
    eexists. split; [reflexivity|]. cbn [t_ops t_meas t_tp t_shots].
    repeat rewrite app_length. cbn [length].
    repeat split; try lia.
    + intros a Ha. destruct uo, um; cbn in Ha; try discriminate. specialize (Hlt a Ha). lia.
    + destruct uo; [cbn in H; discriminate|reflexivity].
    + destruct uo, um; cbn in H; try discriminate; reflexivity.
    + destruct uo, um; cbn in H; try discriminate; assumption.
    + intros b Hb. unfold h_get. rewrite <- !app_assoc. apply nth_error_app1. assumption.
    + intros ->. cbn in Ho. unfold h_get. rewrite <- !app_assoc. rewrite nth_error_app2 by lia.
      rewrite Nat.sub_diag. cbn. unfold h_get in Ho. congruence.
    + intros ->. cbn in Hm. unfold h_get. rewrite nth_error_app2; rewrite app_length; cbn; try lia.
      replace (length (lists s) + 1 - (length (lists s) + 1))%nat with O by lia. cbn. unfold h_get in Hm. congruence.
Qed.

(* new_tape = tape.copy(...); then any in-place mutation of new_tape.operations: every old tape reads as before *)
Lemma tape_copy_then_mutate : forall s e t uo um us ut co x muts s' e' ok,
  wf s ->
  run (CTapeCopy t uo um us ut co :: CGetOps x (length (tapes s)) :: map (CMut x) muts) (s, e) = (s', e', ok) ->
  forall t0, (t0 < length (tapes s))%nat -> read_tape s' t0 = read_tape s t0.
Proof.
  intros s e t uo um us ut co x muts s' e' ok Hwf Hrun t0 Ht0.
  cbn [run] in Hrun.
  destruct (exec (CTapeCopy t uo um us ut co) (s, e)) as [[s1 e1]|] eqn:Hex; [|inversion Hrun; subst; reflexivity].
  assert (Htp : exists tp, nth_error (tapes s) t = Some tp).
  { cbn [exec] in Hex. unfold get_tape in Hex. destruct (nth_error (tapes s) t); [eauto|discriminate]. }
  destruct Htp as [tp Htp].
  destruct (tape_copy_spec _ _ _ _ _ _ _ _ _ _ _ Hwf Htp Hex)
    as (tp' & Htapes & He & Hfo & Hfm & _ & _ & _ & _ & _ & _ & Hold & _ & _).
  cbn [exec] in Hrun. unfold get_tape in Hrun. rewrite Htapes in Hrun.
  rewrite nth_error_app2 in Hrun by lia. rewrite Nat.sub_diag in Hrun. cbn [nth_error] in Hrun.
  assert (Hy : lookup x ((x, t_ops tp') :: e1) = Some (t_ops tp')).
  { cbn. rewrite Nat.eqb_refl. reflexivity. }
  destruct (run_muts_frame _ _ _ _ _ Hy _ _ _ Hrun) as (Htp' & Hlen & _ & Hfr).
  destruct (nth_error (tapes s) t0) as [tp0|] eqn:H0; [|apply nth_error_None in H0; lia].
  destruct (Hwf _ _ H0) as (Ho & Hm & Hta).
  apply (read_tape_frame s s' t0 tp0); auto.
  - rewrite Htp', Htapes. rewrite nth_error_app1 by assumption. assumption.
  - rewrite Hfr by lia. apply Hold. assumption.
  - rewrite Hfr by lia. apply Hold. assumption.
  - intros a Ha. specialize (Hta a Ha). rewrite Hfr by lia. apply Hold. assumption.
Qed.

(* ---------------------------------------------------------------- the pipeline prologue *)
Lemma pipeline_prologue_none : forall t se, run (pipeline_prologue None t) se = (se, true).
Proof. reflexivity. Qed.

Lemma pipeline_prologue_some_writes : forall l t s e tp n,
  nth_error (tapes s) t = Some tp -> npar_of s tp = Some n ->
  existsb (fun i => (i <? 0) || (n <? i)) l = false ->
  exists s' e', run (pipeline_prologue (Some l) t) (s, e) = (s', e', true) /\
    tape_tp s' t = Some (Some (sorted_set l)).
Proof.
  intros l t s e tp n Ht Hn Hv.
  assert (Hlt : (t < length (tapes s))%nat) by (apply nth_error_Some; congruence).
  eexists. eexists. split.
  - cbn [pipeline_prologue run exec]. unfold get_tape. rewrite Ht, Hn, Hv. unfold alloc. reflexivity.
  - unfold tape_tp, get_tape. cbn [tapes lists].
    assert (Hs : forall ts i x, (i < length ts)%nat -> nth_error (t_set ts i x) i = Some x).
    { induction ts as [|y r IH]; intros [|i] x0 H; cbn in *; try lia; auto. apply IH. lia. }
    rewrite Hs by assumption. cbn [t_tp]. rewrite h_get_app_new. reflexivity.
Qed.
