(* Models of the DRIVERS of the peephole passes in pennylane/transforms/optimization/*.py and
   pennylane/transforms/combine_global_phases.py, transcribed loop by loop on lists of coded gates.
   No proofs here: this file must keep running for the correspondence check even when a proof breaks.

   gate = (name code, Adjoint wrapper?, wires, parameter).  The parameter is an angle in units of 2^-48
   (a Z-coded dyadic; the harness only generates angles whose float sums are exact), 0 for gates without one.
   Name codes (harness/impl/c17_impl.py NAMES):
     0 Hadamard 1 PauliX 2 PauliY 3 PauliZ 4 CNOT 5 CZ 6 CY 7 CH 8 SWAP 9 Toffoli 10 CCZ
     11 S 12 T 13 SX 14 ISWAP 15 Identity
     16 RX 17 RY 18 RZ 19 PhaseShift 20 CRX 21 CRY 22 CRZ 23 ControlledPhaseShift 24 IsingXX 25 IsingYY
     26 IsingXY 27 IsingZZ 28 MultiRZ 29 PSWAP 30 Barrier 31 GlobalPhase 32 CSWAP 33 SISWAP *)
From Coq Require Import List ZArith Bool.
Import ListNotations.
Open Scope Z_scope.

Record gate := G { gname : Z; gadj : bool; gwires : list Z; gparam : Z }.

Inductive res (A : Type) := Ok (a : A) | Raised | NoFuel.
Arguments Ok {A} a. Arguments Raised {A}. Arguments NoFuel {A}.

(* ---- the attribute sets of pennylane/ops/qubit/attributes.py restricted to the coded alphabet ---- *)
Definition mem (x : Z) (l : list Z) : bool := existsb (Z.eqb x) l.
Definition self_inverse (n : Z) : bool := mem n [0; 1; 2; 3; 4; 5; 6; 7; 8; 9; 10].
Definition sym_all (n : Z) : bool := mem n [5; 10; 8; 24; 15; 14; 33; 28; 26; 25; 27; 29].
Definition sym_ctrl (n : Z) : bool := mem n [10; 9].
Definition composable (n : Z) : bool := mem n [16; 17; 18; 19; 20; 21; 22; 23; 24; 25; 26; 27].
Definition is_barrier (g : gate) : bool := (gname g =? 30) && negb (gadj g).     (* op.name == "Barrier" *)
Definition is_gphase (g : gate) : bool := (gname g =? 31) && negb (gadj g).      (* isinstance(op, GlobalPhase) *)
Definition is_swap (g : gate) : bool := (gname g =? 8) && negb (gadj g).         (* op.name == "SWAP" *)

Fixpoint list_eqb (a b : list Z) : bool :=
  match a, b with
  | [], [] => true
  | x :: a', y :: b' => (x =? y) && list_eqb a' b'
  | _, _ => false
  end.
Definition gate_eqb (g h : gate) : bool :=
  (gname g =? gname h) && Bool.eqb (gadj g) (gadj h) && list_eqb (gwires g) (gwires h) && (gparam g =? gparam h).

(* ---- optimization_utils.find_next_gate ---- *)
Definition shares (w1 w2 : list Z) : bool := existsb (fun a => mem a w2) w1.
Fixpoint find_next_gate (ws : list Z) (l : list gate) : option nat :=
  match l with
  | [] => None
  | g :: r => if shares ws (gwires g) then Some O
              else match find_next_gate ws r with Some i => Some (S i) | None => None end
  end.

Fixpoint remove_nth (i : nat) (l : list gate) : list gate :=
  match l, i with
  | [], _ => []
  | _ :: r, O => r
  | x :: r, S j => x :: remove_nth j r
  end.

(* ---- cancel_inverses.py ---- *)
(* _check_equality: zip(strict=True) raises only when every compared pair was equal and the lengths differ *)
Fixpoint check_eq (a b : list Z) : option bool :=
  match a, b with
  | [], [] => Some true
  | x :: a', y :: b' => if x =? y then check_eq a' b' else Some false
  | _, _ => None
  end.
Definition num_shared (w1 w2 : list Z) : nat := length (filter (fun a => mem a w2) w1).
Definition last_l (w : list Z) : list Z := match rev w with [] => [] | x :: _ => [x] end.   (* wires[-1:] *)

(* _ops_equal(op2.base, op1): same class (op1 is not itself an Adjoint), equal data *)
Definition ops_equal_base (op2 op1 : gate) : bool :=
  negb (gadj op1) && (gname op2 =? gname op1) && (gparam op2 =? gparam op1).
Definition are_inverses (op1 op2 : gate) : bool :=
  (negb (gadj op1) && self_inverse (gname op1) && negb (gadj op2) && (gname op1 =? gname op2))
  || (gadj op2 && ops_equal_base op2 op1).

Definition can_cancel (o1 o2 : gate) : option bool :=
  let op1 := if gadj o1 then o2 else o1 in
  let op2 := if gadj o1 then o1 else o2 in
  if are_inverses op1 op2 then
    match check_eq (gwires op1) (gwires op2) with
    | None => None
    | Some true => Some true
    | Some false =>
        if negb (Nat.eqb (num_shared (gwires op1) (gwires op2)) (length (gwires op1))) then Some false
        else if sym_all (gname op1) then Some true
        else if sym_ctrl (gname op1) then check_eq (last_l (gwires op1)) (last_l (gwires op2))
        else Some false
    end
  else Some false.

(* _try_to_cancel_with_next *)
Definition try_cancel (cur : gate) (l : list gate) : res (list gate * bool) :=
  match find_next_gate (gwires cur) l with
  | None => Ok (l, false)
  | Some i =>
      match nth_error l i with
      | None => Ok (l, false)
      | Some ng => match can_cancel cur ng with
                   | None => Raised
                   | Some true => Ok (remove_nth i l, true)
                   | Some false => Ok (l, false)
                   end
      end
  end.

(* the inner `while cancelled and operations:` loop; `acc` is `operations` reversed (a stack) *)
Fixpoint unwind (acc : list gate) (l : list gate) : res (list gate * list gate) :=
  match acc with
  | [] => Ok (acc, l)
  | top :: acc' =>
      match try_cancel top l with
      | Ok (l', true) => unwind acc' l'
      | Ok (_, false) => Ok (acc, l)
      | Raised => Raised
      | NoFuel => NoFuel
      end
  end.

Fixpoint ci_loop (fuel : nat) (recursive : bool) (acc l : list gate) : res (list gate) :=
  match fuel with
  | O => NoFuel
  | S f =>
      match l with
      | [] => Ok (rev acc)
      | cur :: rest =>
          match try_cancel cur rest with
          | Raised => Raised
          | NoFuel => NoFuel
          | Ok (rest', true) =>
              if recursive then
                match unwind acc rest' with
                | Ok (acc', l') => ci_loop f recursive acc' l'
                | Raised => Raised
                | NoFuel => NoFuel
                end
              else ci_loop f recursive acc rest'
          | Ok (rest', false) => ci_loop f recursive (cur :: acc) rest'
          end
      end
  end.
Definition cancel_inverses (recursive : bool) (l : list gate) : res (list gate) :=
  ci_loop (S (length l)) recursive [] l.

(* ---- merge_rotations.py (single-parameter composable rotations) ---- *)
(* the Adjoint-expansion pre-pass, restricted to what the alphabet needs: Adjoint(R(a)) -> R(-a) *)
Definition expand_adj (g : gate) : gate :=
  if gadj g && composable (gname g) then G (gname g) false (gwires g) (- gparam g) else g.
Definition same_type (cur ng : gate) : bool := negb (gadj ng) && (gname cur =? gname ng).
Definition with_param (g : gate) (a : Z) : gate := G (gname g) false (gwires g) a.

Section Merge.
  Variable is_zero : Z -> bool.                 (* allclose(angle, 0, atol=atol, rtol=0) *)
  Variable included : Z -> bool.                (* include_gates is None or name in include_gates *)

  Fixpoint mr_inner (fuel : nat) (cur : gate) (cum : Z) (cancel : bool) (rest : list gate) : res (Z * bool * list gate) :=
    match fuel with
    | O => NoFuel
    | S f =>
        match find_next_gate (gwires cur) rest with
        | None => Ok (cum, cancel, rest)
        | Some i =>
            match nth_error rest i with
            | None => Ok (cum, cancel, rest)
            | Some ng =>
                if same_type cur ng && list_eqb (gwires cur) (gwires ng) then
                  let cum' := cum + gparam ng in
                  mr_inner f cur cum' (is_zero cum') (remove_nth i rest)
                else Ok (cum, cancel, rest)
            end
        end
    end.

  Fixpoint mr_loop (fuel : nat) (l : list gate) : res (list gate) :=
    match fuel with
    | O => NoFuel
    | S f =>
        match l with
        | [] => Ok []
        | cur :: rest =>
            if negb (included (gname cur)) || negb (composable (gname cur) && negb (gadj cur)) then
              match mr_loop f rest with Ok o => Ok (cur :: o) | e => e end
            else
              match mr_inner (S (length rest)) cur (gparam cur) false rest with
              | Ok (cum, cancel, rest') =>
                  match mr_loop f rest' with
                  | Ok o => Ok (if cancel then o else with_param cur cum :: o)
                  | e => e
                  end
              | Raised => Raised
              | NoFuel => NoFuel
              end
        end
    end.
  Definition merge_rotations_core (l : list gate) : res (list gate) := mr_loop (S (length l)) l.
  Definition merge_rotations (l : list gate) : res (list gate) := merge_rotations_core (map expand_adj l).
End Merge.

(* ---- remove_barrier.py ---- *)
Definition remove_barrier (l : list gate) : list gate := filter (fun g => negb (is_barrier g)) l.

(* ---- combine_global_phases.py: one loop with the accumulators (operations, phi, has_global_phase) ---- *)
Definition gphase_gate (phi : Z) : gate := G 31 false [] phi.
Fixpoint cgp_loop (l : list gate) (acc : list gate) (phi : Z) (has : bool) : list gate :=
  match l with
  | [] => if has then rev (gphase_gate phi :: acc) else rev acc
  | g :: r => if is_gphase g then cgp_loop r acc (phi + gparam g) true else cgp_loop r (g :: acc) phi has
  end.
Definition combine_global_phases (l : list gate) : list gate := cgp_loop l [] 0 false.

(* ---- undo_swaps.py: iterate over reversed(operations) with a wire map ---- *)
Definition wmap := list (Z * Z).
Fixpoint wm_get (m : wmap) (w : Z) : Z :=
  match m with [] => w | (k, v) :: r => if k =? w then v else wm_get r w end.
Definition wm_set (m : wmap) (k v : Z) : wmap := (k, v) :: m.
Fixpoint us_loop (l : list gate) (m : wmap) (out : list gate) : list gate :=   (* l = reversed operations; out is built by prepending = append + final reverse *)
  match l with
  | [] => out
  | g :: r =>
      if is_swap g then
        match gwires g with
        | [a; b] => let va := wm_get m a in let vb := wm_get m b in
                    us_loop r (wm_set (wm_set m a vb) b va) out
        | _ => us_loop r m out
        end
      else us_loop r m (G (gname g) (gadj g) (map (wm_get m) (gwires g)) (gparam g) :: out)
  end.
Definition undo_swaps (l : list gate) : list gate := us_loop (rev l) [] [].

(* ---- commute_controlled.py; `is_ctrl` = isinstance(op, Controlled), `comm` = qp.is_commuting (oracles) ---- *)
Section Commute.
  Variable is_ctrl : gate -> bool.
  Variable comm : gate -> gate -> bool.
  Definition dummy : gate := G (-1) false [] 0.
  Definition insert_at (i : nat) (g : gate) (l : list gate) : list gate := firstn i l ++ g :: skipn i l.

  (* inner while loop of _commute_controlled_right *)
  Fixpoint ccr_inner (fuel : nat) (cur : gate) (l : list gate) (new_loc : nat) : nat :=
    match fuel with
    | O => new_loc
    | S f =>
        match find_next_gate (gwires cur) (skipn (S new_loc) l) with
        | None => new_loc
        | Some idx =>
            let ng := nth (new_loc + idx + 1) l dummy in
            if negb (is_ctrl ng) || negb (comm cur ng) then new_loc
            else ccr_inner f cur l (new_loc + idx + 1)
        end
    end.
  (* outer loop: `k` iterations remain, current_location = k - 1 *)
  Fixpoint ccr_loop (k : nat) (l : list gate) : list gate :=
    match k with
    | O => l
    | S loc =>
        let cur := nth loc l dummy in
        if negb (Nat.eqb (length (gwires cur)) 1) then ccr_loop loc l
        else
          let new_loc := ccr_inner (length l) cur l loc in
          ccr_loop loc (remove_nth loc (insert_at (S new_loc) cur l))
    end.
  Definition commute_right (l : list gate) : list gate := ccr_loop (length l) l.

  Fixpoint ccl_inner (fuel : nat) (cur : gate) (l : list gate) (new_loc : nat) : nat :=
    match fuel with
    | O => new_loc
    | S f =>
        match find_next_gate (gwires cur) (rev (firstn new_loc l)) with
        | None => new_loc
        | Some idx =>
            let pg := nth (new_loc - idx - 1) l dummy in
            if negb (is_ctrl pg) || negb (comm cur pg) then new_loc
            else ccl_inner f cur l (new_loc - (idx + 1))
        end
    end.
  (* `k` iterations remain, current_location = length l - k *)
  Fixpoint ccl_loop (k : nat) (l : list gate) : list gate :=
    match k with
    | O => l
    | S k' =>
        let loc := (length l - k)%nat in
        let cur := nth loc l dummy in
        if negb (Nat.eqb (length (gwires cur)) 1) then ccl_loop k' l
        else
          let new_loc := ccl_inner (length l) cur l loc in
          ccl_loop k' (insert_at new_loc cur (remove_nth loc l))
    end.
  Definition commute_left (l : list gate) : list gate := ccl_loop (length l) l.
End Commute.

(* ---- correspondence: one case = (pass, options, oracle table, input, recorded output) ---- *)
Inductive pass :=
| PCancel (recursive : bool)
| PMerge (atol_units : Z) (include : option (list Z))     (* |angle| <= atol  <->  |units| <= atol_units *)
| PBarrier
| PGPhase
| PUndoSwaps
| PCommute (to_right : bool) (ctrl : list gate) (table : list (gate * gate * bool)).

Fixpoint lookup (t : list (gate * gate * bool)) (a b : gate) : bool :=
  match t with
  | [] => false
  | (x, y, v) :: r => if gate_eqb x a && gate_eqb y b then v else lookup r a b
  end.
Fixpoint gates_eqb (a b : list gate) : bool :=
  match a, b with
  | [], [] => true
  | x :: a', y :: b' => gate_eqb x y && gates_eqb a' b'
  | _, _ => false
  end.

Definition run_pass (p : pass) (l : list gate) : res (list gate) :=
  match p with
  | PCancel r => cancel_inverses r l
  | PMerge atol inc =>
      merge_rotations (fun a => Z.abs a <=? atol)
                      (fun n => match inc with None => true | Some names => mem n names end) l
  | PBarrier => Ok (remove_barrier l)
  | PGPhase => Ok (combine_global_phases l)
  | PUndoSwaps => Ok (undo_swaps l)
  | PCommute to_right ctrl table =>
      let is_ctrl := fun g => existsb (gate_eqb g) ctrl in
      Ok (if to_right then commute_right is_ctrl (lookup table) l else commute_left is_ctrl (lookup table) l)
  end.

(* expected: Some out = the implementation returned `out`; None = it raised *)
Definition check_case (c : pass * list gate * option (list gate)) : bool :=
  match c with
  | (p, l, expected) =>
      match run_pass p l, expected with
      | Ok o, Some e => gates_eqb o e
      | Raised, None => true
      | _, _ => false
      end
  end.
