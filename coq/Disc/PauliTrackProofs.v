(* C74 (part A): semantics of Pauli frames and Clifford gates from the literal textbook matrices, and the proofs that
   the Pauli tracker of pennylane/ftqc/pauli_tracker.py (model: Disc/PauliTrackModel.v) commutes frames correctly.
   States are amplitude functions on bit assignments (any number of wires); equality of states/operators is
   Leibniz equality of functions, obtained with the standard-library functional extensionality. *)
From Coq Require Import List ZArith Bool Lia Ring Arith FunctionalExtensionality.
From PLV Require Import Disc.PauliTrackModel.
Import ListNotations.

(* ---------- Gaussian integers ---------- *)
Definition G := (Z * Z)%type.
Definition gzero : G := (0, 0)%Z.
Definition gone : G := (1, 0)%Z.
Definition gi : G := (0, 1)%Z.
Definition gadd (a b : G) : G := (fst a + fst b, snd a + snd b)%Z.
Definition gmul (a b : G) : G := (fst a * fst b - snd a * snd b, fst a * snd b + snd a * fst b)%Z.
Definition gneg (a : G) : G := (- fst a, - snd a)%Z.
Definition gsub (a b : G) : G := gadd a (gneg b).

Lemma G_ring : ring_theory gzero gone gadd gmul gsub gneg eq.
Proof.
  constructor; intros; repeat match goal with x : G |- _ => destruct x end;
    unfold gzero, gone, gadd, gmul, gsub, gneg; cbn [fst snd]; try reflexivity; apply injective_projections; cbn [fst snd]; ring.
Qed.
Add Ring Gring : G_ring.

Definition unit4 (u : G) : Prop := u = gone \/ u = gi \/ u = gneg gone \/ u = gneg gi.
Lemma unit4_mul : forall u v, unit4 u -> unit4 v -> unit4 (gmul u v).
Proof. intros u v [ -> | [ -> | [ -> | -> ] ] ] [ -> | [ -> | [ -> | -> ] ] ]; unfold unit4; vm_compute; auto. Qed.
Lemma unit4_one : unit4 gone. Proof. left; reflexivity. Qed.

(* ---------- functional state-vector semantics ---------- *)
Definition bits := nat -> bool.
Definition state := bits -> G.
Definition upd (b : bits) (w : nat) (v : bool) : bits := fun i => if Nat.eqb i w then v else b i.

(* textbook matrices: a 2x2 matrix ((m00, m01), (m10, m11)) acts on wire w *)
Definition mat2 := ((G * G) * (G * G))%type.
Definition op1 (w : nat) (m : mat2) (psi : state) : state := fun b =>
  let p0 := psi (upd b w false) in let p1 := psi (upd b w true) in
  if b w then gadd (gmul (fst (snd m)) p0) (gmul (snd (snd m)) p1)
  else gadd (gmul (fst (fst m)) p0) (gmul (snd (fst m)) p1).
Definition Xm : mat2 := ((gzero, gone), (gone, gzero)).
Definition Ym : mat2 := ((gzero, gneg gi), (gi, gzero)).
Definition Zm : mat2 := ((gone, gzero), (gzero, gneg gone)).
Definition Hm : mat2 := ((gone, gone), (gone, gneg gone)).      (* sqrt 2 * Hadamard *)
Definition Sm : mat2 := ((gone, gzero), (gzero, gi)).
(* 4x4 matrix m (row r, column c as pairs of bits: first = control) on wires c t *)
Definition mat4 := bool -> bool -> bool -> bool -> G.
Definition op2 (c t : nat) (m : mat4) (psi : state) : state := fun b =>
  let e := fun ac at_ => gmul (m (b c) (b t) ac at_) (psi (upd (upd b c ac) t at_)) in
  gadd (gadd (e false false) (e false true)) (gadd (e true false) (e true true)).
(* CNOT |c t> = |c, t xor c> : entry 1 iff row = (ac, at xor ac) *)
Definition CXm : mat4 := fun rc rt ac at_ =>
  match rc, rt, ac, at_ with
  | false, false, false, false => gone
  | false, true, false, true => gone
  | true, true, true, false => gone
  | true, false, true, true => gone
  | _, _, _, _ => gzero
  end.

(* fast forms *)
Definition opX (w : nat) (psi : state) : state := fun b => psi (upd b w (negb (b w))).
Definition opZ (w : nat) (psi : state) : state := fun b => if b w then gneg (psi b) else psi b.
Definition opH (w : nat) (psi : state) : state := fun b =>
  gadd (psi (upd b w false)) (if b w then gneg (psi (upd b w true)) else psi (upd b w true)).
Definition opS (w : nat) (psi : state) : state := fun b => if b w then gmul gi (psi b) else psi b.
Definition opCX (c t : nat) (psi : state) : state := fun b => psi (upd b t (xorb (b t) (b c))).
Definition scal (u : G) (psi : state) : state := fun b => gmul u (psi b).

Lemma upd_same : forall b w v, upd b w v w = v.
Proof. intros; unfold upd; now rewrite Nat.eqb_refl. Qed.
Lemma upd_diff : forall b w v k, k <> w -> upd b w v k = b k.
Proof. intros; unfold upd; destruct (Nat.eqb_spec k w); congruence. Qed.

Ltac use_bits := repeat match goal with
  | H : ?f ?x = true |- context[?f ?x] => rewrite H
  | H : ?f ?x = false |- context[?f ?x] => rewrite H end.
Ltac bits_eq := apply functional_extensionality; intro i; unfold upd;
  repeat match goal with |- context[Nat.eqb ?x ?y] => destruct (Nat.eqb_spec x y) end;
  subst; try congruence; try lia; cbn; use_bits; try reflexivity; try congruence.
Ltac unify_args psi := repeat match goal with
  | |- context[psi ?A] => match goal with |- context[psi ?B] =>
        lazymatch A with B => fail | _ => idtac end;
        let H := fresh in assert (H : A = B) by bits_eq;
        lazymatch B with context[A] => rewrite <- H | _ => rewrite H end; clear H end end.
Ltac simp_upd := repeat first [rewrite upd_same | rewrite upd_diff by (try assumption; try congruence; try lia; auto)].
Ltac split_bit b w := let E := fresh "E" in destruct (b w) eqn:E.
Ltac gauss psi := repeat match goal with |- context[psi ?A] => destruct (psi A) as [? ?] end;
  unfold gi, gone, gzero, gadd, gmul, gsub, gneg; cbn [fst snd]; apply injective_projections; cbn [fst snd]; ring.
Ltac fin psi := cbn [fst snd negb xorb]; use_bits; cbn [fst snd negb xorb]; unify_args psi; first [ring | gauss psi].

(* bridges: textbook matrices = fast forms *)
Lemma op1_X : forall w psi, op1 w Xm psi = opX w psi.
Proof. intros; apply functional_extensionality; intro b; unfold op1, opX, Xm; cbn [fst snd].
  split_bit b w; fin psi. Qed.
Lemma op1_Z : forall w psi, op1 w Zm psi = opZ w psi.
Proof. intros; apply functional_extensionality; intro b; unfold op1, opZ, Zm; cbn [fst snd].
  split_bit b w; fin psi. Qed.
Lemma op1_H : forall w psi, op1 w Hm psi = opH w psi.
Proof. intros; apply functional_extensionality; intro b; unfold op1, opH, Hm; cbn [fst snd].
  split_bit b w; fin psi. Qed.
Lemma op1_S : forall w psi, op1 w Sm psi = opS w psi.
Proof. intros; apply functional_extensionality; intro b; unfold op1, opS, Sm; cbn [fst snd].
  split_bit b w; fin psi. Qed.
Lemma op1_Y : forall w psi, op1 w Ym psi = scal gi (opX w (opZ w psi)).
Proof. intros; apply functional_extensionality; intro b; unfold op1, opX, opZ, scal, Ym; cbn [fst snd].
  split_bit b w; simp_upd; fin psi. Qed.
Lemma op2_CX : forall c t psi, c <> t -> op2 c t CXm psi = opCX c t psi.
Proof. intros; apply functional_extensionality; intro b; unfold op2, opCX, CXm.
  split_bit b c; split_bit b t; fin psi. Qed.

(* ---------- primitive operator identities ---------- *)
Ltac ext_b := intros; apply functional_extensionality; intro b.
Ltac unf := unfold op1, opX, opZ, opH, opS, opCX, scal; cbn [fst snd].

(* scalars *)
Lemma scal_scal : forall u v psi, scal u (scal v psi) = scal (gmul u v) psi.
Proof. ext_b; unf; ring. Qed.
Lemma scal_one : forall psi, scal gone psi = psi.
Proof. ext_b; unf; ring. Qed.
Lemma opX_scal : forall w u psi, opX w (scal u psi) = scal u (opX w psi).
Proof. ext_b; unf; ring. Qed.
Lemma opZ_scal : forall w u psi, opZ w (scal u psi) = scal u (opZ w psi).
Proof. ext_b; unf; destruct (b w); ring. Qed.
Lemma op1_scal : forall w m u psi, op1 w m (scal u psi) = scal u (op1 w m psi).
Proof. ext_b; unf; destruct (b w); ring. Qed.
Lemma opCX_scal : forall c t u psi, opCX c t (scal u psi) = scal u (opCX c t psi).
Proof. ext_b; unf; ring. Qed.

(* Paulis on the same wire *)
Lemma opX_opX : forall w psi, opX w (opX w psi) = psi.
Proof. ext_b; unf; simp_upd; split_bit b w; fin psi. Qed.
Lemma opZ_opZ : forall w psi, opZ w (opZ w psi) = psi.
Proof. ext_b; unf; split_bit b w; fin psi. Qed.
Lemma opZ_opX : forall w psi, opZ w (opX w psi) = scal (gneg gone) (opX w (opZ w psi)).
Proof. ext_b; unf; simp_upd; split_bit b w; fin psi. Qed.

(* different wires commute exactly *)
Lemma opX_opX_comm : forall k w psi, k <> w -> opX k (opX w psi) = opX w (opX k psi).
Proof. ext_b; unf; simp_upd; fin psi. Qed.
Lemma opX_opZ_comm : forall k w psi, k <> w -> opX k (opZ w psi) = opZ w (opX k psi).
Proof. ext_b; unf; simp_upd; fin psi. Qed.
Lemma opZ_opZ_comm : forall k w psi, opZ k (opZ w psi) = opZ w (opZ k psi).
Proof. ext_b; unf; destruct (b k), (b w); ring. Qed.
Lemma op1_opX_comm : forall w m k psi, k <> w -> op1 w m (opX k psi) = opX k (op1 w m psi).
Proof. ext_b; unf; simp_upd; split_bit b w; fin psi. Qed.
Lemma op1_opZ_comm : forall w m k psi, k <> w -> op1 w m (opZ k psi) = opZ k (op1 w m psi).
Proof. ext_b; unf; simp_upd; split_bit b w; split_bit b k; fin psi. Qed.
Lemma opCX_opX_comm : forall c t k psi, k <> c -> k <> t -> opCX c t (opX k psi) = opX k (opCX c t psi).
Proof. ext_b; unf; simp_upd; fin psi. Qed.
Lemma opCX_opZ_comm : forall c t k psi, k <> c -> k <> t -> opCX c t (opZ k psi) = opZ k (opCX c t psi).
Proof. ext_b; unf; simp_upd; fin psi. Qed.

(* the Clifford gates against a Pauli on their own wire(s) *)
Lemma opH_opX : forall w psi, opH w (opX w psi) = opZ w (opH w psi).
Proof. ext_b; unf; simp_upd; split_bit b w; fin psi. Qed.
Lemma opH_opZ : forall w psi, opH w (opZ w psi) = opX w (opH w psi).
Proof. ext_b; unf; simp_upd; split_bit b w; fin psi. Qed.
Lemma opS_opX : forall w psi, opS w (opX w psi) = scal gi (opX w (opZ w (opS w psi))).
Proof. ext_b; unf; simp_upd; split_bit b w; fin psi. Qed.
Lemma opS_opZ : forall w psi, opS w (opZ w psi) = opZ w (opS w psi).
Proof. ext_b; unf; split_bit b w; fin psi. Qed.
Lemma opCX_opX_c : forall c t psi, c <> t -> opCX c t (opX c psi) = opX c (opX t (opCX c t psi)).
Proof. ext_b; unf; simp_upd; split_bit b c; split_bit b t; fin psi. Qed.
Lemma opCX_opZ_c : forall c t psi, c <> t -> opCX c t (opZ c psi) = opZ c (opCX c t psi).
Proof. ext_b; unf; simp_upd; fin psi. Qed.
Lemma opCX_opX_t : forall c t psi, c <> t -> opCX c t (opX t psi) = opX t (opCX c t psi).
Proof. ext_b; unf; simp_upd; split_bit b c; split_bit b t; fin psi. Qed.
Lemma opCX_opZ_t : forall c t psi, c <> t -> opCX c t (opZ t psi) = opZ c (opZ t (opCX c t psi)).
Proof. ext_b; unf; simp_upd; split_bit b c; split_bit b t; fin psi. Qed.

(* ---------- Pauli frames ---------- *)
(* textbook: the (x, z) record on wire w denotes X^x Z^z (Z applied first) with the literal matrices *)
Definition opP (w : nat) (p : xz) (psi : state) : state :=
  let a := if snd p then op1 w Zm psi else psi in if fst p then op1 w Xm a else a.
Definition opPf (w : nat) (p : xz) (psi : state) : state :=
  let a := if snd p then opZ w psi else psi in if fst p then opX w a else a.
Lemma opP_fast : forall w p psi, opP w p psi = opPf w p psi.
Proof. intros w [[|] [|]] psi; unfold opP, opPf; cbn [fst snd]; now rewrite ?op1_X, ?op1_Z. Qed.

(* frame F = record for wires k, k+1, ...; the operator is the product of the per-wire Paulis *)
Fixpoint sem_frame_from (k : nat) (F : frame) (psi : state) : state :=
  match F with [] => psi | p :: F' => opP k p (sem_frame_from (S k) F' psi) end.
Definition sem_frame (F : frame) : state -> state := sem_frame_from 0 F.
Fixpoint ff (k : nat) (F : frame) (psi : state) : state :=
  match F with [] => psi | p :: F' => opPf k p (ff (S k) F' psi) end.
Lemma sem_frame_from_fast : forall F k psi, sem_frame_from k F psi = ff k F psi.
Proof. induction F; intros; cbn; [reflexivity | now rewrite opP_fast, IHF]. Qed.

Lemma opPf_I : forall w psi, opPf w pI psi = psi. Proof. reflexivity. Qed.
Lemma opPf_scal : forall w p u psi, opPf w p (scal u psi) = scal u (opPf w p psi).
Proof. intros w [[|] [|]] u psi; unfold opPf; cbn [fst snd]; now rewrite ?opZ_scal, ?opX_scal. Qed.
Lemma opPf_comm : forall k w p q psi, k <> w -> opPf k p (opPf w q psi) = opPf w q (opPf k p psi).
Proof.
  intros k w [[|] [|]] [[|] [|]] psi Hkw; unfold opPf; cbn [fst snd]; try reflexivity;
  repeat first [ rewrite (opX_opX_comm k w) by assumption | rewrite (opX_opZ_comm k w) by assumption
               | rewrite (opZ_opZ_comm k w) | rewrite <- (opX_opZ_comm w k) by auto ]; reflexivity.
Qed.
Lemma op1_opPf_comm : forall w m k p psi, k <> w -> op1 w m (opPf k p psi) = opPf k p (op1 w m psi).
Proof. intros w m k [[|] [|]] psi H; unfold opPf; cbn [fst snd]; now rewrite ?op1_opX_comm, ?op1_opZ_comm by assumption. Qed.
Lemma opCX_opPf_comm : forall c t k p psi, k <> c -> k <> t -> opCX c t (opPf k p psi) = opPf k p (opCX c t psi).
Proof. intros c t k [[|] [|]] psi H1 H2; unfold opPf; cbn [fst snd]; now rewrite ?opCX_opX_comm, ?opCX_opZ_comm by assumption. Qed.

(* phases *)
Definition phH (p : xz) : G := if fst p && snd p then gneg gone else gone.
Definition phS (p : xz) : G := if fst p then gi else gone.

Lemma H_local : forall w p psi, opH w (opPf w p psi) = scal (phH p) (opPf w (commute_h p) (opH w psi)).
Proof.
  intros w [[|] [|]] psi; unfold opPf, commute_h, phH; cbn [fst snd andb];
  rewrite ?opH_opX, ?opH_opZ, ?opZ_opX, ?scal_one; reflexivity.
Qed.
Lemma S_local : forall w p psi, opS w (opPf w p psi) = scal (phS p) (opPf w (commute_s p) (opS w psi)).
Proof.
  intros w [[|] [|]] psi; unfold opPf, commute_s, phS; cbn [fst snd xorb];
  rewrite ?opS_opX, ?opS_opZ, ?opZ_opZ, ?scal_one; reflexivity.
Qed.
Lemma CX_local : forall c t pc pt psi, c <> t ->
  opCX c t (opPf c pc (opPf t pt psi)) =
  opPf c (fst (commute_cnot pc pt)) (opPf t (snd (commute_cnot pc pt)) (opCX c t psi)).
Proof.
  intros c t [[|] [|]] [[|] [|]] psi Hct; unfold opPf, commute_cnot; cbn [fst snd xorb];
  ext_b; unf; simp_upd; split_bit b c; split_bit b t; fin psi.
Qed.

(* ---------- list facts for the record array ---------- *)
Lemma set_nth_length : forall A i (v : A) l, length (set_nth i v l) = length l.
Proof. intros A i v l; revert i; induction l; intros [|i]; cbn; auto. Qed.
Lemma nth_set_nth_same : forall A i (v d : A) l, i < length l -> nth i (set_nth i v l) d = v.
Proof. intros A i v d l; revert i; induction l; intros [|i] H; cbn in *; try lia; auto. apply IHl; lia. Qed.
Lemma nth_set_nth_diff : forall A i j (v d : A) l, i <> j -> nth j (set_nth i v l) d = nth j l d.
Proof. intros A i j v d l; revert i j; induction l; intros [|i] [|j] H; cbn; auto; try lia. Qed.
Lemma set_nth_set_nth : forall A i (v v' : A) l, set_nth i v (set_nth i v' l) = set_nth i v l.
Proof. intros A i v v' l; revert i; induction l; intros [|i]; cbn; auto. now rewrite IHl. Qed.
Lemma set_nth_comm : forall A i j (v v' : A) l, i <> j -> set_nth i v (set_nth j v' l) = set_nth j v' (set_nth i v l).
Proof. intros A i j v v' l; revert i j; induction l; intros [|i] [|j] H; cbn; auto; try lia. f_equal; apply IHl; lia. Qed.

(* ---------- pulling one wire out of a frame ---------- *)
Lemma ff_opPf_comm : forall F k w q psi, w < k -> opPf w q (ff k F psi) = ff k F (opPf w q psi).
Proof.
  induction F; intros k w q psi H; cbn; [reflexivity|].
  rewrite opPf_comm by lia. now rewrite IHF by lia.
Qed.
Lemma ff_scal : forall F k u psi, ff k F (scal u psi) = scal u (ff k F psi).
Proof. induction F; intros; cbn; [reflexivity|]. now rewrite IHF, opPf_scal. Qed.

Lemma ff_extract : forall F k w psi, w < length F ->
  ff k F psi = opPf (k + w) (nth w F pI) (ff k (set_nth w pI F) psi).
Proof.
  induction F; intros k w psi H; cbn in H; [lia|].
  destruct w as [|w]; cbn [nth set_nth ff].
  - rewrite Nat.add_0_r, opPf_I. reflexivity.
  - rewrite (IHF (S k) w psi) by lia. rewrite opPf_comm by lia.
    replace (S k + w) with (k + S w) by lia. reflexivity.
Qed.

(* a gate whose wires carry the identity in the frame commutes with the frame *)
Lemma op1_ff_skip : forall F k w m psi, (k <= w -> w < k + length F -> nth (w - k) F pI = pI) ->
  op1 w m (ff k F psi) = ff k F (op1 w m psi).
Proof.
  induction F; intros k w m psi H; cbn [ff]; [reflexivity|].
  destruct (Nat.eq_dec k w) as [->|Hne].
  - assert (a = pI) as ->. { specialize (H (le_n _)). cbn in H. rewrite Nat.sub_diag in H. apply H. lia. }
    rewrite !opPf_I. apply IHF. intros; lia.
  - rewrite op1_opPf_comm by auto. f_equal. apply IHF. intros H1 H2.
    assert (Hk : k <= w) by lia. specialize (H Hk). cbn [length] in H.
    replace (w - k) with (S (w - S k)) in H by lia. cbn in H. apply H. lia.
Qed.
Lemma opCX_ff_skip : forall F k c t psi,
  (forall w, (w = c \/ w = t) -> k <= w -> w < k + length F -> nth (w - k) F pI = pI) ->
  opCX c t (ff k F psi) = ff k F (opCX c t psi).
Proof.
  induction F; intros k c t psi H; cbn [ff]; [reflexivity|].
  destruct (Nat.eq_dec k c) as [Hc|Hc]; [|destruct (Nat.eq_dec k t) as [Ht|Ht]].
  - assert (a = pI) as ->. { specialize (H k (or_introl Hc) (le_n _)). cbn in H. rewrite Nat.sub_diag in H. apply H. lia. }
    rewrite !opPf_I. apply IHF. intros w Hw H1 H2. assert (Hk : k <= w) by lia.
    specialize (H w Hw Hk). cbn [length] in H. replace (w - k) with (S (w - S k)) in H by lia. cbn in H. apply H. lia.
  - assert (a = pI) as ->. { specialize (H k (or_intror Ht) (le_n _)). cbn in H. rewrite Nat.sub_diag in H. apply H. lia. }
    rewrite !opPf_I. apply IHF. intros w Hw H1 H2. assert (Hk : k <= w) by lia.
    specialize (H w Hw Hk). cbn [length] in H. replace (w - k) with (S (w - S k)) in H by lia. cbn in H. apply H. lia.
  - rewrite opCX_opPf_comm by auto. f_equal. apply IHF. intros w Hw H1 H2. assert (Hk : k <= w) by lia.
    specialize (H w Hw Hk). cbn [length] in H. replace (w - k) with (S (w - S k)) in H by lia. cbn in H. apply H. lia.
Qed.

(* ---------- one gate against an n-wire frame ---------- *)
Lemma H_frame : forall F w psi, w < length F ->
  opH w (ff 0 F psi) = scal (phH (nth w F pI)) (ff 0 (track_g1 K_H w F) (opH w psi)).
Proof.
  intros F w psi Hw. unfold track_g1.
  rewrite (ff_extract F 0 w psi Hw). cbn [Nat.add].
  rewrite H_local. f_equal.
  rewrite <- op1_H, op1_ff_skip.
  2:{ intros _ _. rewrite Nat.sub_0_r. apply nth_set_nth_same; assumption. }
  rewrite op1_H.
  rewrite (ff_extract (set_nth w (commute_h (nth w F pI)) F) 0 w) by (rewrite set_nth_length; assumption).
  cbn [Nat.add]. rewrite nth_set_nth_same by assumption. rewrite set_nth_set_nth. reflexivity.
Qed.
Lemma S_frame : forall F w psi, w < length F ->
  opS w (ff 0 F psi) = scal (phS (nth w F pI)) (ff 0 (track_g1 K_S w F) (opS w psi)).
Proof.
  intros F w psi Hw. unfold track_g1.
  rewrite (ff_extract F 0 w psi Hw). cbn [Nat.add].
  rewrite S_local. f_equal.
  rewrite <- op1_S, op1_ff_skip.
  2:{ intros _ _. rewrite Nat.sub_0_r. apply nth_set_nth_same; assumption. }
  rewrite op1_S.
  rewrite (ff_extract (set_nth w (commute_s (nth w F pI)) F) 0 w) by (rewrite set_nth_length; assumption).
  cbn [Nat.add]. rewrite nth_set_nth_same by assumption. rewrite set_nth_set_nth. reflexivity.
Qed.
Lemma CX_frame : forall F c t psi, c < length F -> t < length F -> c <> t ->
  opCX c t (ff 0 F psi) = ff 0 (track_cnot c t F) (opCX c t psi).
Proof.
  intros F c t psi Hc Ht Hct. unfold track_cnot.
  set (pc := nth c F pI). set (pt := nth t F pI). cbv zeta.
  rewrite (ff_extract F 0 c psi Hc). cbn [Nat.add]. fold pc.
  rewrite (ff_extract (set_nth c pI F) 0 t psi) by (rewrite set_nth_length; assumption). cbn [Nat.add].
  rewrite (nth_set_nth_diff _ c t) by assumption. fold pt.
  rewrite CX_local by assumption.
  rewrite opCX_ff_skip.
  2:{ intros w [-> | ->] _ _; rewrite Nat.sub_0_r.
      - rewrite (nth_set_nth_diff _ t c) by auto. apply nth_set_nth_same; assumption.
      - apply nth_set_nth_same. rewrite set_nth_length; assumption. }
  set (r := commute_cnot pc pt).
  rewrite (ff_extract (set_nth t (snd r) (set_nth c (fst r) F)) 0 c) by (rewrite !set_nth_length; assumption).
  cbn [Nat.add]. rewrite (nth_set_nth_diff _ t c) by auto. rewrite nth_set_nth_same by assumption.
  f_equal.
  rewrite (ff_extract (set_nth c pI (set_nth t (snd r) (set_nth c (fst r) F))) 0 t) by (rewrite !set_nth_length; assumption).
  cbn [Nat.add]. rewrite (nth_set_nth_diff _ c t) by assumption.
  rewrite nth_set_nth_same by (rewrite set_nth_length; assumption).
  f_equal. f_equal.
  rewrite (set_nth_comm _ c t pI (snd r)) by assumption. rewrite !set_nth_set_nth. reflexivity.
Qed.

(* ---------- Clifford circuits ---------- *)
Definition gate_ok (n : nat) (g : cgate) : Prop :=
  match g with GH w | GS w => w < n | GCX c t => c < n /\ t < n /\ c <> t end.
(* semantics from the literal textbook matrices (H scaled by sqrt 2: the statements are homogeneous in the gate) *)
Definition sem_gate (g : cgate) : state -> state :=
  match g with GH w => op1 w Hm | GS w => op1 w Sm | GCX c t => op2 c t CXm end.
Definition phase_gate (g : cgate) (F : frame) : G :=
  match g with GH w => phH (nth w F pI) | GS w => phS (nth w F pI) | GCX _ _ => gone end.
Definition sem_circ (cs : list cgate) (psi : state) : state := fold_left (fun phi g => sem_gate g phi) cs psi.

Lemma phase_gate_unit : forall g F, unit4 (phase_gate g F).
Proof.
  intros [w|w|c t] F; unfold phase_gate, phH, phS, unit4.
  - destruct (fst (nth w F pI) && snd (nth w F pI)); auto.
  - destruct (fst (nth w F pI)); auto.
  - auto.
Qed.
Lemma track_gate_length : forall g F, length (track_gate g F) = length F.
Proof. intros [w|w|c t] F; unfold track_gate, track_g1, track_cnot; cbv zeta; now rewrite ?set_nth_length. Qed.

Lemma commute_gate : forall n g F psi, length F = n -> gate_ok n g ->
  sem_gate g (sem_frame F psi) = scal (phase_gate g F) (sem_frame (track_gate g F) (sem_gate g psi)).
Proof.
  intros n g F psi HF Hg. unfold sem_frame. rewrite !sem_frame_from_fast.
  destruct g as [w|w|c t]; cbn [sem_gate track_gate phase_gate gate_ok] in *.
  - rewrite !op1_H. apply H_frame. lia.
  - rewrite !op1_S. apply S_frame. lia.
  - destruct Hg as (Hc & Ht & Hct). rewrite !op2_CX by assumption. rewrite scal_one. apply CX_frame; lia.
Qed.

Lemma sem_gate_scal : forall g u psi, sem_gate g (scal u psi) = scal u (sem_gate g psi).
Proof.
  intros [w|w|c t] u psi; cbn [sem_gate]; try apply op1_scal.
  apply functional_extensionality; intro b; unfold op2, scal; ring.
Qed.
Lemma sem_circ_scal : forall cs u psi, sem_circ cs (scal u psi) = scal u (sem_circ cs psi).
Proof. induction cs; intros; cbn; [reflexivity|]. unfold sem_circ in *. cbn. now rewrite sem_gate_scal, IHcs. Qed.

Lemma commute_circ : forall n cs F psi, length F = n -> Forall (gate_ok n) cs ->
  exists u, unit4 u /\ sem_circ cs (sem_frame F psi) = scal u (sem_frame (track_circ cs F) (sem_circ cs psi)).
Proof.
  intros n cs; induction cs as [|g cs IH]; intros F psi HF Hok.
  - exists gone; split; [apply unit4_one|]. cbn. now rewrite scal_one.
  - inversion Hok as [|? ? Hg Hcs]; subst.
    destruct (IH (track_gate g F) (sem_gate g psi)) as (u & Hu & E); [now rewrite track_gate_length | assumption |].
    exists (gmul (phase_gate g F) u); split; [apply unit4_mul; [apply phase_gate_unit | assumption] |].
    unfold sem_circ, track_circ in *; cbn [fold_left].
    rewrite (commute_gate (length F) g F psi eq_refl Hg).
    fold (sem_circ cs (scal (phase_gate g F) (sem_frame (track_gate g F) (sem_gate g psi)))).
    rewrite sem_circ_scal. unfold sem_circ. rewrite E. now rewrite scal_scal.
Qed.

(* commute_clifford_op is the per-gate table used by track_gate *)
Definition zb (b : bool) : Z := if b then 1%Z else 0%Z.
Lemma commute_clifford_op_spec : forall pc pt : xz,
  commute_clifford_op CH [[zb (fst pc); zb (snd pc)]] = Some [commute_h pc] /\
  commute_clifford_op CS [[zb (fst pc); zb (snd pc)]] = Some [commute_s pc] /\
  commute_clifford_op CCNOT [[zb (fst pc); zb (snd pc)]; [zb (fst pt); zb (snd pt)]] =
    Some [fst (commute_cnot pc pt); snd (commute_cnot pc pt)].
Proof. intros [[|] [|]] [[|] [|]]; repeat split. Qed.

(* ---------- pauli_prod ---------- *)
Definition sem_pauli (w : nat) (p : pauli) (psi : state) : state :=
  match p with PI => psi | PX => op1 w Xm psi | PY => op1 w Ym psi | PZ => op1 w Zm psi end.
Lemma sem_pauli_xz : forall w p psi, exists u, unit4 u /\ sem_pauli w p psi = scal u (opPf w (pauli_to_xz p) psi).
Proof.
  intros w [| | |] psi; cbn [sem_pauli pauli_to_xz]; unfold opPf; cbn [fst snd].
  - exists gone; split; [apply unit4_one | now rewrite scal_one].
  - exists gone; split; [apply unit4_one | now rewrite scal_one, op1_X].
  - exists gi; split; [right; left; reflexivity | now rewrite op1_Y].
  - exists gone; split; [apply unit4_one | now rewrite scal_one, op1_Z].
Qed.
Lemma opPf_mul : forall w p q psi, exists u, unit4 u /\ opPf w p (opPf w q psi) = scal u (opPf w (xz_xor p q) psi).
Proof.
  intros w [[|] [|]] [[|] [|]] psi; unfold opPf, xz_xor; cbn [fst snd xorb];
  rewrite ?opZ_opX, ?opX_scal, ?opZ_scal, ?opX_opX, ?opZ_opZ, ?opX_opX;
  first [ exists gone; split; [apply unit4_one | now rewrite scal_one]
        | exists (gneg gone); split; [right; right; left; reflexivity | reflexivity] ].
Qed.
Lemma prod_loop_sem : forall l w acc r psi, prod_loop acc (map Some l) = Some r ->
  exists u, unit4 u /\ opPf w acc (fold_right (sem_pauli w) psi l) = scal u (opPf w r psi).
Proof.
  induction l as [|p l IH]; intros w acc r psi H; cbn in H |- *.
  - inversion H; subst. exists gone; split; [apply unit4_one | now rewrite scal_one].
  - destruct (sem_pauli_xz w p (fold_right (sem_pauli w) psi l)) as (u1 & Hu1 & E1). rewrite E1.
    rewrite opPf_scal.
    destruct (opPf_mul w acc (pauli_to_xz p) (fold_right (sem_pauli w) psi l)) as (u2 & Hu2 & E2). rewrite E2.
    destruct (IH w _ r psi H) as (u3 & Hu3 & E3). rewrite E3. rewrite !scal_scal.
    eexists; split; [|reflexivity]. repeat apply unit4_mul; assumption.
Qed.
Lemma pauli_prod_sem : forall l w r psi, pauli_prod (map Some l) = Some r ->
  exists u, unit4 u /\ fold_right (sem_pauli w) psi l = scal u (opP w r psi).
Proof.
  intros [|p l] w r psi H; cbn in H; [discriminate|]. cbn [fold_right]. rewrite opP_fast.
  destruct (sem_pauli_xz w p (fold_right (sem_pauli w) psi l)) as (u1 & Hu1 & E1). rewrite E1.
  destruct (prod_loop_sem l w _ r psi H) as (u2 & Hu2 & E2). rewrite E2, scal_scal.
  eexists; split; [|reflexivity]. apply unit4_mul; assumption.
Qed.
Lemma prod_loop_none : forall l acc, prod_loop acc l = None <-> In None l.
Proof.
  induction l as [|[p|] l IH]; intros acc; cbn.
  - split; [discriminate | tauto].
  - rewrite IH. split; [auto | intros [H|H]; [discriminate | assumption]].
  - split; auto.
Qed.
Lemma pauli_prod_none : forall l, pauli_prod l = None <-> l = [] \/ In None l.
Proof.
  intros [|[p|] l]; cbn.
  - split; auto.
  - rewrite prod_loop_none. split; [auto | intros [H|[H|H]]; [discriminate | discriminate | assumption]].
  - split; auto.
Qed.

(* ---------- the same claim on literal matrices, Hermitian Pauli labels (finite domain) ---------- *)
Definition M := list (list G).
Definition gsum (l : list G) : G := fold_right gadd gzero l.
Definition mcol (m : M) (j : nat) : list G := map (fun r => nth j r gzero) m.
Definition mmul (a b : M) : M :=
  map (fun r => map (fun j => gsum (map (fun xy => gmul (fst xy) (snd xy)) (combine r (mcol b j)))) (seq 0 (length (hd [] b)))) a.
Definition mscale (u : G) (a : M) : M := map (map (gmul u)) a.
Definition kron (a b : M) : M :=
  flat_map (fun ra => map (fun rb => flat_map (fun x => map (gmul x) rb) ra) b) a.
Definition pmat (p : pauli) : M :=
  match p with
  | PI => [[gone; gzero]; [gzero; gone]]
  | PX => [[gzero; gone]; [gone; gzero]]
  | PY => [[gzero; gneg gi]; [gi; gzero]]
  | PZ => [[gone; gzero]; [gzero; gneg gone]]
  end.
Definition Hmat : M := [[gone; gone]; [gone; gneg gone]].
Definition Smat : M := [[gone; gzero]; [gzero; gi]].
Definition CXmat : M := [[gone; gzero; gzero; gzero]; [gzero; gone; gzero; gzero]; [gzero; gzero; gzero; gone]; [gzero; gzero; gone; gzero]].
Definition relabel (f : xz -> xz) (p : pauli) : pauli := xz_to_pauli_b (f (pauli_to_xz p)).
Definition pm_eq (a b : M) : Prop := a = b \/ a = mscale (gneg gone) b.

Lemma tracker_matrix_H : forall p, pm_eq (mmul Hmat (pmat p)) (mmul (pmat (relabel commute_h p)) Hmat).
Proof. intros [| | |]; unfold pm_eq; vm_compute; auto. Qed.
Lemma tracker_matrix_S : forall p, pm_eq (mmul Smat (pmat p)) (mmul (pmat (relabel commute_s p)) Smat).
Proof. intros [| | |]; unfold pm_eq; vm_compute; auto. Qed.
Lemma tracker_matrix_CX : forall p q,
  pm_eq (mmul CXmat (kron (pmat p) (pmat q)))
        (mmul (kron (pmat (xz_to_pauli_b (fst (commute_cnot (pauli_to_xz p) (pauli_to_xz q)))))
                    (pmat (xz_to_pauli_b (snd (commute_cnot (pauli_to_xz p) (pauli_to_xz q)))))) CXmat).
Proof. intros [| | |] [| | |]; unfold pm_eq; vm_compute; auto. Qed.

(* the functional semantics really is the matrix semantics: matrix of an operator on n wires *)
Fixpoint all_bits (n : nat) : list (list bool) :=
  match n with O => [[]] | S n' => flat_map (fun l => [false :: l; true :: l]) (all_bits n') end.
Definition bits_of_list (l : list bool) : bits := fun i => nth i l false.
Definition basis_state (n : nat) (c : list bool) : state :=
  fun b => if list_beq Bool.eqb (map b (seq 0 n)) c then gone else gzero.
(* wire 0 is the most significant bit of the row/column index *)
Definition msb_bits (n : nat) : list (list bool) := map (@rev bool) (all_bits n).
Definition matrix_of (n : nat) (op : state -> state) : M :=
  map (fun r => map (fun c => op (basis_state n c) (bits_of_list r)) (msb_bits n)) (msb_bits n).
Lemma matrix_of_gates :
  matrix_of 1 (op1 0 Hm) = Hmat /\ matrix_of 1 (op1 0 Sm) = Smat /\ matrix_of 2 (op2 0 1 CXm) = CXmat /\
  (forall p, matrix_of 1 (sem_pauli 0 p) = pmat p) /\
  (forall p q, matrix_of 2 (fun psi => sem_pauli 0 p (sem_pauli 1 q psi)) = kron (pmat p) (pmat q)).
Proof.
  repeat split; try (vm_compute; reflexivity).
  - intros [| | |]; vm_compute; reflexivity.
  - intros [| | |] [| | |]; vm_compute; reflexivity.
Qed.

(* ---------- _correct_samples: a computational-basis sample of (frame . psi) is a sample of psi xor-ed with the x record ---------- *)
Fixpoint flipx (k : nat) (F : frame) (b : bits) : bits :=
  match F with [] => b | p :: F' => flipx (S k) F' (if fst p then upd b k (negb (b k)) else b) end.
Definition pm1 (s : G) : Prop := s = gone \/ s = gneg gone.
Lemma pm1_mul : forall s t, pm1 s -> pm1 t -> pm1 (gmul s t).
Proof. intros s t [ -> | -> ] [ -> | -> ]; unfold pm1; vm_compute; auto. Qed.
Lemma opPf_amp : forall k p phi b, exists s, pm1 s /\
  opPf k p phi b = gmul s (phi (if fst p then upd b k (negb (b k)) else b)).
Proof.
  intros k [[|] [|]] phi b; unfold opPf, opX, opZ; cbn [fst snd].
  - destruct (upd b k (negb (b k)) k); [exists (gneg gone) | exists gone]; split; try (now right); try (now left); ring.
  - exists gone; split; [now left | ring].
  - destruct (b k); [exists (gneg gone) | exists gone]; split; try (now right); try (now left); ring.
  - exists gone; split; [now left | ring].
Qed.
Lemma ff_amp : forall F k psi b, exists s, pm1 s /\ ff k F psi b = gmul s (psi (flipx k F b)).
Proof.
  induction F as [|p F IH]; intros k psi b; cbn [ff flipx].
  - exists gone; split; [now left | ring].
  - destruct (opPf_amp k p (ff (S k) F psi) b) as (s1 & H1 & E1). rewrite E1.
    destruct (IH (S k) psi (if fst p then upd b k (negb (b k)) else b)) as (s2 & H2 & E2). rewrite E2.
    exists (gmul s1 s2); split; [apply pm1_mul; assumption | ring].
Qed.
Lemma flipx_spec : forall F k b i,
  flipx k F b i = if Nat.leb k i then xorb (b i) (fst (nth (i - k) F pI)) else b i.
Proof.
  induction F as [|p F IH]; intros k b i; cbn [flipx].
  - destruct (Nat.leb k i); [|reflexivity]. destruct (i - k); cbn; now rewrite xorb_false_r.
  - rewrite IH. destruct (Nat.leb_spec (S k) i) as [H|H].
    + replace (Nat.leb k i) with true by (symmetry; apply Nat.leb_le; lia).
      replace (i - k) with (S (i - S k)) by lia. cbn [nth].
      destruct (fst p); [rewrite upd_diff by lia|]; reflexivity.
    + destruct (Nat.leb_spec k i) as [H'|H'].
      * assert (i = k) as Hik by lia; subst i. rewrite Nat.sub_diag. cbn [nth].
        destruct (fst p); [rewrite upd_same; now destruct (b k) | now rewrite xorb_false_r].
      * destruct (fst p); [rewrite upd_diff by lia|]; reflexivity.
Qed.
Lemma frame_amplitude : forall F psi b, exists s, pm1 s /\
  sem_frame F psi b = gmul s (psi (fun i => xorb (b i) (fst (nth i F pI)))).
Proof.
  intros F psi b. unfold sem_frame. rewrite sem_frame_from_fast.
  destruct (ff_amp F 0 psi b) as (s & Hs & E). exists s; split; [assumption|]. rewrite E. f_equal. f_equal.
  apply functional_extensionality; intro i. rewrite flipx_spec. cbn [Nat.leb]. now rewrite Nat.sub_0_r.
Qed.
