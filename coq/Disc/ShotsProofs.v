From Coq Require Import List ZArith Bool Lia.
From PLV Require Import Disc.ShotsModel.
Import ListNotations.
Open Scope Z_scope.

Definition sumZ (l : list Z) : Z := fold_right Z.add 0 l.
Definition item_expand (i : item) : list Z := let p := to_pair i in repeatZ (fst p) (Z.to_nat (snd p)).
Definition pos_pairs (l : list (Z * Z)) : Prop := Forall (fun p => 0 < fst p /\ 0 < snd p) l.
Definition wf (sh : shots) : Prop := pos_pairs (vec sh).

Lemma repeatZ_app x a b : repeatZ x (a + b) = repeatZ x a ++ repeatZ x b.
Proof. induction a as [|a IH]; simpl; [reflexivity | now rewrite IH]. Qed.
Lemma repeatZ_length x n : length (repeatZ x n) = n.
Proof. induction n; simpl; congruence. Qed.
Lemma sumZ_app a b : sumZ (a ++ b) = sumZ a + sumZ b.
Proof. induction a as [|x a IH]; simpl; [reflexivity | rewrite IH; lia]. Qed.
Lemma sumZ_repeat x n : sumZ (repeatZ x n) = x * Z.of_nat n.
Proof. induction n as [|n IH]; [simpl; lia|]. cbn [repeatZ sumZ fold_right]. fold (sumZ (repeatZ x n)). rewrite IH. lia. Qed.
Lemma expand_pairs_cons p l : expand_pairs (p :: l) = repeatZ (fst p) (Z.to_nat (snd p)) ++ expand_pairs l.
Proof. reflexivity. Qed.
Lemma expand_pairs_app a b : expand_pairs (a ++ b) = expand_pairs a ++ expand_pairs b.
Proof. unfold expand_pairs. now rewrite flat_map_app. Qed.

(* --- the merging loop preserves the expanded list, positivity, and yields a canonical vector --- *)
Lemma ati_expand r : forall c, 0 <= snd c -> Forall (fun p => 0 <= snd p) r ->
  expand_pairs (ati_loop c r) = expand_pairs (c :: r).
Proof.
  induction r as [|s r IH]; intros c Hc Hr; [reflexivity|].
  inversion Hr as [|? ? Hs Hr']; subst. cbn [ati_loop].
  destruct (fst s =? fst c) eqn:E.
  - rewrite IH; [|simpl; lia|assumption].
    rewrite !expand_pairs_cons. cbn [fst snd]. apply Z.eqb_eq in E. rewrite E.
    rewrite Z2Nat.inj_add by lia. rewrite repeatZ_app, app_assoc. reflexivity.
  - rewrite expand_pairs_cons, IH by assumption. reflexivity.
Qed.

Lemma ati_pos r : forall c, 0 < fst c /\ 0 < snd c -> pos_pairs r -> pos_pairs (ati_loop c r).
Proof.
  induction r as [|s r IH]; intros c Hc Hr; [constructor; [assumption|constructor]|].
  inversion Hr as [|? ? Hs Hr']; subst. cbn [ati_loop].
  destruct (fst s =? fst c); [apply IH; [simpl; lia|assumption]|].
  constructor; [assumption|]. apply IH; assumption.
Qed.

Fixpoint canonical (v : list (Z * Z)) : Prop :=
  match v with
  | a :: ((b :: _) as r) => fst a <> fst b /\ canonical r
  | _ => True
  end.

Lemma ati_head r : forall c, exists k r', ati_loop c r = (fst c, k) :: r'.
Proof.
  induction r as [|s r IH]; intros c; cbn [ati_loop].
  - exists (snd c), []. destruct c; reflexivity.
  - destruct (fst s =? fst c).
    + destruct (IH (fst c, snd c + snd s)) as (k & r' & E). exists k, r'. exact E.
    + exists (snd c), (ati_loop s r). destruct c; reflexivity.
Qed.

Lemma ati_canonical r : forall c, canonical (ati_loop c r).
Proof.
  induction r as [|s r IH]; intros c; cbn [ati_loop]; [exact I|].
  destruct (fst s =? fst c) eqn:E; [apply IH|].
  destruct (ati_head r s) as (k & r' & H). specialize (IH s). rewrite H in *.
  cbn [canonical]. split; [|exact IH]. cbn [fst]. apply Z.eqb_neq in E. congruence.
Qed.

Lemma sum_total_expand v : Forall (fun p => 0 <= snd p) v -> sum_total v = sumZ (expand_pairs v).
Proof.
  induction v as [|p v IH]; intros H; [reflexivity|]. inversion H; subst.
  rewrite expand_pairs_cons, sumZ_app, sumZ_repeat, <- IH by assumption.
  unfold sum_total; cbn [fold_right]. rewrite Z2Nat.id by assumption. reflexivity.
Qed.

Lemma pos_nonneg l : pos_pairs l -> Forall (fun p => 0 <= snd p) l.
Proof. apply Forall_impl. intros; lia. Qed.

Lemma valid_items_pos l : forallb valid_item l = true -> pos_pairs (map to_pair l).
Proof.
  induction l as [|i l IH]; intros H; [constructor|]. cbn [forallb] in H. apply andb_prop in H as [Hi Hl].
  constructor; [|apply IH; assumption].
  destruct i; cbn in *; unfold valid_int in *;
    repeat match goal with H : _ && _ = true |- _ => apply andb_prop in H as [? ?] end;
    try discriminate; repeat match goal with H : (_ <? _) = true |- _ => apply Z.ltb_lt in H end; lia.
Qed.

Lemma expand_map_to_pair l : expand_pairs (map to_pair l) = flat_map item_expand l.
Proof. induction l as [|i l IH]; [reflexivity|]. cbn [map]. rewrite expand_pairs_cons, IH. reflexivity. Qed.

(* --- main facts about construction --- *)
Lemma mk_wf s sh : mk s = Some sh -> wf sh.
Proof.
  destruct s as [|z|l|]; cbn [mk]; intros H; try discriminate.
  - inversion H; constructor.
  - destruct (z <? 1) eqn:E; inversion H; subst. apply Z.ltb_ge in E.
    constructor; [cbn; lia|constructor].
  - destruct (forallb valid_item l) eqn:V; [|discriminate]. apply valid_items_pos in V.
    destruct (map to_pair l) as [|c r]; [discriminate|]. cbn in H. inversion H; subst. cbn.
    inversion V; subst. apply ati_pos; assumption.
Qed.

Lemma mk_seq_iter l sh : mk (SSeq l) = Some sh -> iter sh = flat_map item_expand l.
Proof.
  cbn [mk]. destruct (forallb valid_item l) eqn:V; [|discriminate]. apply valid_items_pos in V.
  rewrite <- expand_map_to_pair. destruct (map to_pair l) as [|c r]; [discriminate|].
  cbn. intros H; inversion H; subst. unfold iter; cbn [vec]. inversion V; subst.
  apply (ati_expand r c); [lia|apply pos_nonneg; assumption].
Qed.

Lemma mk_total s sh : mk s = Some sh ->
  total sh = match s with SNone => None | _ => Some (sumZ (iter sh)) end.
Proof.
  intros H. pose proof (mk_wf _ _ H) as W. destruct s as [|z|l|]; cbn [mk] in H; try discriminate.
  - inversion H; reflexivity.
  - destruct (z <? 1); inversion H; subst. unfold iter. cbn [total vec flat_map fst snd].
    change (Z.to_nat 1) with 1%nat. cbn [repeatZ app sumZ fold_right]. f_equal; lia.
  - destruct (forallb valid_item l); [|discriminate]. destruct (map to_pair l) as [|c r]; [discriminate|].
    cbn in H. inversion H; subst. cbn [total]. f_equal. unfold iter. cbn [vec].
    apply sum_total_expand. apply pos_nonneg. exact W.
Qed.

Lemma mk_canonical s sh : mk s = Some sh -> canonical (vec sh).
Proof.
  destruct s as [|z|l|]; cbn [mk]; intros H; try discriminate.
  - inversion H; exact I.
  - destruct (z <? 1); inversion H; exact I.
  - destruct (forallb valid_item l); [|discriminate]. destruct (map to_pair l) as [|c r]; [discriminate|].
    cbn in H; inversion H; subst. apply ati_canonical.
Qed.

(* --- observers --- *)
Lemma num_copies_length sh : wf sh -> num_copies sh = Z.of_nat (length (iter sh)).
Proof.
  unfold wf, num_copies, iter. induction (vec sh) as [|p v IH]; intros W; [reflexivity|].
  inversion W; subst. cbn [fold_right flat_map]. rewrite app_length, repeatZ_length, IH by assumption. lia.
Qed.

Lemma iter_length_ge v : pos_pairs v -> (length v <= length (expand_pairs v))%nat.
Proof.
  induction v as [|p v IH]; intros W; [apply le_n|]. inversion W; subst.
  rewrite expand_pairs_cons, app_length, repeatZ_length. specialize (IH H2). cbn [length]. lia.
Qed.

Lemma partitioned_iff sh : wf sh -> total sh <> None ->
  has_partitioned sh = true <-> (1 < length (iter sh))%nat.
Proof.
  intros W T. unfold has_partitioned. destruct (total sh); [clear T|congruence].
  unfold wf, iter in *. fold (expand_pairs (vec sh)).
  destruct (vec sh) as [|p v]; [cbn; split; [discriminate|lia]|].
  inversion W as [|? ? Hp Hv]; subst. pose proof (iter_length_ge _ Hv) as L.
  rewrite expand_pairs_cons, app_length, repeatZ_length. cbn [length].
  rewrite orb_true_iff, !Z.ltb_lt. split.
  - intros [H|H]; lia.
  - intros H. destruct v; [right; cbn in *; lia|left; cbn [length]; lia].
Qed.

Lemma bins_from_spec l : forall lb i a b, nth_error (bins_from lb l) i = Some (a, b) ->
  a = lb + sumZ (firstn i l) /\ b = lb + sumZ (firstn (S i) l).
Proof.
  induction l as [|s l IH]; intros lb i a b H; [destruct i; discriminate|].
  destruct i as [|i]; cbn in H.
  - inversion H; subst. cbn. lia.
  - apply IH in H. cbn [firstn sumZ fold_right] in *. fold (sumZ (firstn i l)) in *.
    destruct l; cbn in *; lia.
Qed.
Lemma bins_from_length l : forall lb, length (bins_from lb l) = length l.
Proof. induction l; intros; simpl; congruence. Qed.

(* --- add --- *)
Lemma pairs_valid v : pos_pairs v -> forallb valid_item (map (fun p => IPair (fst p) (snd p)) v) = true.
Proof.
  induction 1 as [|p v [H1 H2] _ IH]; [reflexivity|]. cbn. unfold valid_int.
  rewrite IH. apply Z.ltb_lt in H1, H2. now rewrite H1, H2.
Qed.
Lemma pairs_expand v : flat_map item_expand (map (fun p => IPair (fst p) (snd p)) v) = expand_pairs v.
Proof. induction v as [|p v IH]; [reflexivity|]. cbn [map flat_map]. rewrite IH. reflexivity. Qed.

Lemma mk_pairs_some v : pos_pairs v -> v <> [] ->
  exists z, mk (SSeq (map (fun p => IPair (fst p) (snd p)) v)) = Some z.
Proof.
  intros W N. cbn [mk]. rewrite pairs_valid by assumption. rewrite map_map. cbn [to_pair].
  destruct v as [|p v]; [congruence|]. cbn. eexists; reflexivity.
Qed.

Lemma add_concat x y : wf x -> wf y -> total x <> None -> total y <> None -> vec x <> [] ->
  exists z, add x y = Some z /\ iter z = iter x ++ iter y /\ total z = Some (sumZ (iter x) + sumZ (iter y)).
Proof.
  intros Wx Wy Tx Ty Nx. unfold add. destruct (total x); [|congruence]. destruct (total y); [|congruence].
  assert (W : pos_pairs (vec x ++ vec y)) by (apply Forall_app; split; assumption).
  destruct (mk_pairs_some _ W) as [zz E]; [destruct (vec x); [congruence|discriminate]|].
  exists zz. split; [exact E|]. pose proof (mk_seq_iter _ _ E) as I. rewrite pairs_expand, expand_pairs_app in I.
  split; [exact I|]. rewrite (mk_total _ _ E), I, sumZ_app. reflexivity.
Qed.

Lemma add_none_l x y : total x = None -> add x y = Some y.
Proof. unfold add; intros ->; reflexivity. Qed.
Lemma add_none_r x y : total x <> None -> total y = None -> add x y = Some x.
Proof. unfold add; intros H ->. destruct (total x); congruence. Qed.

(* --- mul --- *)
Lemma expand_scaled p q v : pos_pairs v ->
  flat_map item_expand (map (fun sc => IPair (scale p q (fst sc)) (snd sc)) v) = map (scale p q) (expand_pairs v).
Proof.
  induction 1 as [|a v _ _ IH]; [reflexivity|]. cbn [map flat_map]. rewrite IH, expand_pairs_cons, map_app.
  f_equal. unfold item_expand; cbn [to_pair fst snd]. induction (Z.to_nat (snd a)); simpl; congruence.
Qed.

Lemma mul_map x p q : wf x -> total x <> None -> vec x <> [] ->
  Forall (fun s => 0 < scale p q s) (iter x) ->
  exists z, mul x p q = Some z /\ iter z = map (scale p q) (iter x).
Proof.
  intros W T N A. unfold mul. destruct (total x); [|congruence].
  set (l := map (fun sc => IPair (scale p q (fst sc)) (snd sc)) (vec x)).
  assert (V : forallb valid_item l = true).
  { subst l. unfold wf, iter in *. fold (expand_pairs (vec x)) in A. clear N T.
    induction W as [|a v [H1 H2] _ IH]; [reflexivity|]. rewrite expand_pairs_cons in A.
    apply Forall_app in A as [A1 A2]. cbn [map forallb valid_item]. rewrite IH by assumption.
    unfold valid_int. assert (0 < scale p q (fst a)).
    { destruct (Z.to_nat (snd a)) eqn:E; [lia|]. cbn in A1. inversion A1; assumption. }
    apply Z.ltb_lt in H2. rewrite H2. apply Z.ltb_lt in H. now rewrite H. }
  assert (exists r, mk (SSeq l) = Some r) as [r E].
  { cbn [mk]. rewrite V. subst l. rewrite map_map. destruct (vec x); [congruence|]. cbn. eexists; reflexivity. }
  exists r. split; [exact E|]. rewrite (mk_seq_iter _ _ E). subst l. now rewrite expand_scaled.
Qed.

Lemma mul_reject x p q : wf x -> total x <> None ->
  Exists (fun s => scale p q s <= 0) (iter x) -> mul x p q = None.
Proof.
  intros W T A. unfold mul. destruct (total x); [|congruence]. cbn [mk].
  assert (V : forallb valid_item (map (fun sc => IPair (scale p q (fst sc)) (snd sc)) (vec x)) = false).
  { unfold wf, iter in *. induction W as [|a v [H1 H2] _ IH]; [inversion A|].
    cbn [flat_map] in A. apply Exists_app in A as [A|A].
    - cbn [map forallb valid_item]. unfold valid_int at 1.
      assert (scale p q (fst a) <= 0).
      { clear -A. induction (Z.to_nat (snd a)); cbn in A; inversion A; subst; auto. }
      apply Z.ltb_ge in H. now rewrite H.
    - cbn [map forallb]. rewrite IH by assumption. apply andb_false_r. }
  now rewrite V.
Qed.

(* --- rejection --- *)
Definition invalid (s : spec) : Prop :=
  match s with
  | SNone => False
  | SInt z => z < 1
  | SSeq l => l = [] \/ Exists (fun i => valid_item i = false) l
  | SBad => True
  end.

Lemma reject_iff s : mk s = None <-> invalid s.
Proof.
  destruct s as [|z|l|]; cbn [mk invalid].
  - split; [discriminate|tauto].
  - destruct (z <? 1) eqn:E; [apply Z.ltb_lt in E|apply Z.ltb_ge in E]; split; intros; try discriminate; try lia; reflexivity.
  - destruct (forallb valid_item l) eqn:V.
    + destruct l as [|i l]; [cbn; split; auto|]. cbn. split; [discriminate|]. intros [H|H]; [discriminate|].
      exfalso. rewrite forallb_forall in V. apply Exists_exists in H as (x & Hx & Hf). rewrite V in Hf by assumption. discriminate.
    + split; [intros _|reflexivity]. right. apply Exists_exists.
      assert (~ forall x, In x l -> valid_item x = true) as N by (rewrite <- forallb_forall; congruence).
      clear V. induction l as [|i l IH]; [exfalso; apply N; intros ? []|].
      destruct (valid_item i) eqn:Vi.
      * destruct IH as (x & Hx & Hf). { intros H; apply N. intros y [<-|Hy]; auto. }
        exists x; split; [right|]; assumption.
      * exists i; split; [left; reflexivity|assumption].
  - split; auto.
Qed.
