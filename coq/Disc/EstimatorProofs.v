(* Lemmas about Disc/EstimatorModel.v (estimator counting recursion + WireResourceManager). *)
From Coq Require Import List ZArith Bool Lia ZifyBool.
From PLV Require Import Disc.EstimatorModel.
Import ListNotations.
Open Scope Z_scope.

(* ------------------------------------------------------------------ equality on operators *)
Lemma rop_eqb_eq : forall a b, rop_eqb a b = true <-> a = b.
Proof.
  induction a; destruct b; simpl; try (split; discriminate).
  - rewrite Z.eqb_eq. split; congruence.
  - rewrite IHa. split; congruence.
  - rewrite !andb_true_iff, !Z.eqb_eq, IHa.
    split; [intros [[? ?] ?]; congruence | intros H; inversion H; auto].
  - rewrite !andb_true_iff, !Z.eqb_eq, IHa.
    split; [intros [? ?]; congruence | intros H; inversion H; auto].
Qed.

Lemma rop_eqb_refl : forall a, rop_eqb a a = true.
Proof. intros a; apply rop_eqb_eq; reflexivity. Qed.

Lemma rop_eqb_sym : forall a b, rop_eqb a b = rop_eqb b a.
Proof.
  intros a b. destruct (rop_eqb a b) eqn:E, (rop_eqb b a) eqn:E'; auto.
  - apply rop_eqb_eq in E; subst. rewrite rop_eqb_refl in E'; discriminate.
  - apply rop_eqb_eq in E'; subst. rewrite rop_eqb_refl in E; discriminate.
Qed.

(* ------------------------------------------------------------------ the counts dictionary *)
Lemma count_bump : forall cs r k x,
  count_of (bump r k cs) x = count_of cs x + (if rop_eqb x r then k else 0).
Proof.
  induction cs as [|[r' v] t IH]; intros r k x; simpl.
  - destruct (rop_eqb x r); lia.
  - destruct (rop_eqb r r') eqn:E.
    + apply rop_eqb_eq in E; subst. simpl. destruct (rop_eqb x r'); lia.
    + simpl. destruct (rop_eqb x r') eqn:E2.
      * apply rop_eqb_eq in E2; subst. rewrite rop_eqb_sym, E. lia.
      * apply IH.
Qed.

(* ------------------------------------------------------------------ the pure weight of a gate *)
(* number of occurrences of the counted gate x in the expansion of r (same fuel discipline) *)
Definition wl (rec : rop -> Z) (l : list action) : Z :=
  fold_right (fun a acc => match a with AGate g c => c * rec g + acc | _ => acc end) 0 l.

Fixpoint W (D : oracle) (gs : list name) (f : nat) (r x : rop) : Z :=
  match f with
  | O => 0
  | S f' =>
      if in_set gs (name_of D r) then (if rop_eqb x r then 1 else 0)
      else match get_decomp D r with
           | DList l => wl (fun g => W D gs f' g x) l
           | _ => 0
           end
  end.

Fixpoint weight (D : oracle) (gs : list name) (f : nat) (items : list (rop * Z)) (x : rop) : Z :=
  match items with
  | [] => 0
  | (r, k) :: t => k * W D gs f r x + weight D gs f t x
  end.

Fixpoint rep {A} (n : nat) (l : list A) : list A :=
  match n with O => [] | S m => l ++ rep m l end.

Lemma run_actions_counts : forall D gs f q k x,
  (forall r k s s', upd D gs f r k s = Ok s' ->
                    count_of (cnt s') x = count_of (cnt s) x + k * W D gs f r x) ->
  forall l s s', run_actions (act_step (upd D gs f) q k) l s = Ok s' ->
  count_of (cnt s') x = count_of (cnt s) x + k * wl (fun g => W D gs f g x) l.
Proof.
  intros D gs f q k x IH. induction l as [|a t IHl]; intros s s' H; cbn [run_actions] in H.
  - inversion H; subst. simpl. lia.
  - destruct (act_step (upd D gs f) q k a s) as [s1|e] eqn:E; [|discriminate].
    apply IHl in H. rewrite H. destruct a; cbn [act_step] in E; cbn [wl fold_right].
    + apply IH in E. rewrite E. fold (wl (fun g => W D gs f g x) t). ring.
    + unfold wm_step in E. destruct (grab _ _); inversion E; subst; simpl.
      fold (wl (fun g => W D gs f g x) t). lia.
    + unfold wm_step in E. destruct (free _ _); inversion E; subst; simpl.
      fold (wl (fun g => W D gs f g x) t). lia.
Qed.

Lemma upd_counts : forall D gs f r k s s' x,
  upd D gs f r k s = Ok s' -> count_of (cnt s') x = count_of (cnt s) x + k * W D gs f r x.
Proof.
  intros D gs f. induction f as [|f IH]; intros r k s s' x H; cbn [upd] in H; [discriminate|].
  cbn [W]. destruct (in_set gs (name_of D r)).
  - inversion H; subst; cbn [cnt]. rewrite count_bump. destruct (rop_eqb x r); lia.
  - destruct (get_decomp D r) eqn:G; try discriminate.
    eapply run_actions_counts in H; [exact H|]. intros; apply IH; auto.
Qed.

Lemma est_items_counts : forall D gs f items s s' x,
  est_items D gs f items s = Ok s' ->
  count_of (cnt s') x = count_of (cnt s) x + weight D gs f items x.
Proof.
  intros D gs f. induction items as [|[r k] t IH]; intros s s' x H; cbn [est_items] in H.
  - inversion H; subst; simpl; lia.
  - destruct (upd D gs f r k s) as [s1|e] eqn:E; [|discriminate].
    apply IH with (x := x) in H. apply upd_counts with (x := x) in E. cbn [weight]. lia.
Qed.

Lemma weight_app : forall D gs f a b x,
  weight D gs f (a ++ b) x = weight D gs f a x + weight D gs f b x.
Proof. induction a as [|[r k] t IH]; intros; simpl; [|rewrite IH]; lia. Qed.

Lemma weight_rep : forall D gs f n w x,
  weight D gs f (rep n w) x = Z.of_nat n * weight D gs f w x.
Proof.
  induction n; intros; cbn [rep].
  - simpl. lia.
  - rewrite weight_app, IHn. lia.
Qed.

(* sequential composition of the workflow loop *)
Lemma est_items_app : forall D gs f w1 w2 s,
  est_items D gs f (w1 ++ w2) s =
  match est_items D gs f w1 s with Ok s1 => est_items D gs f w2 s1 | Err e => Err e end.
Proof.
  induction w1 as [|[r k] t IH]; intros; cbn [app est_items]; auto.
  destruct (upd D gs f r k s); auto.
Qed.

(* counts of a successful estimate started from the empty dictionary *)
Lemma estimate_counts : forall D gs f w z a tb s x,
  estimate D gs f w z a tb = Ok s -> count_of (cnt s) x = weight D gs f (wf_items w) x.
Proof.
  unfold estimate; intros. apply est_items_counts with (x := x) in H. simpl in H. lia.
Qed.

Lemma estimate_additive_lem : forall D gs f w1 w2 w12 z1 a1 t1 z2 a2 t2 z a t s1 s2 s12,
  wf_items w12 = wf_items w1 ++ wf_items w2 ->
  estimate D gs f w12 z a t = Ok s12 ->
  estimate D gs f w1 z1 a1 t1 = Ok s1 ->
  estimate D gs f w2 z2 a2 t2 = Ok s2 ->
  forall x, count_of (cnt s12) x = count_of (cnt s1) x + count_of (cnt s2) x.
Proof.
  intros. rewrite (estimate_counts _ _ _ _ _ _ _ _ x H0), (estimate_counts _ _ _ _ _ _ _ _ x H1),
    (estimate_counts _ _ _ _ _ _ _ _ x H2), H. apply weight_app.
Qed.

Lemma estimate_prefix_lem : forall D gs f w1 w12 z a t s12,
  (exists rest, wf_items w12 = wf_items w1 ++ rest) -> wf_algo w12 = wf_algo w1 ->
  estimate D gs f w12 z a t = Ok s12 ->
  exists s1, estimate D gs f w1 z a t = Ok s1.
Proof.
  unfold estimate; intros D gs f w1 w12 z a t s12 [rest E] A H.
  rewrite E, est_items_app, A in H.
  destruct (est_items D gs f (wf_items w1) _) as [s1|e]; [eauto|discriminate].
Qed.

Lemma estimate_repeat_lem : forall D gs f n w wn z1 a1 t1 z a t s1 sn,
  wf_items wn = rep n (wf_items w) ->
  estimate D gs f wn z a t = Ok sn ->
  estimate D gs f w z1 a1 t1 = Ok s1 ->
  forall x, count_of (cnt sn) x = Z.of_nat n * count_of (cnt s1) x.
Proof.
  intros. rewrite (estimate_counts _ _ _ _ _ _ _ _ x H0), (estimate_counts _ _ _ _ _ _ _ _ x H1), H.
  apply weight_rep.
Qed.

Lemma estimate_scalar_lem : forall D gs f r n k al al' z1 a1 t1 z a t s1 sn,
  estimate D gs f (WR al [(r, n * k)]) z a t = Ok sn ->
  estimate D gs f (WR al' [(r, k)]) z1 a1 t1 = Ok s1 ->
  forall x, count_of (cnt sn) x = n * count_of (cnt s1) x.
Proof.
  intros. rewrite (estimate_counts _ _ _ _ _ _ _ _ x H), (estimate_counts _ _ _ _ _ _ _ _ x H0).
  simpl. ring.
Qed.

(* ------------------------------------------------------------------ WireResourceManager *)
Definition wfm (m : wmgr) : Prop := 0 <= zeroed m /\ 0 <= any_state m.
Definition req_nonneg (r : req) : Prop := match r with RGrab n | RFree n => 0 <= n end.

Ltac gtb E := rewrite Z.gtb_ltb in E; first [apply Z.ltb_lt in E | apply Z.ltb_ge in E].

Lemma grab_none_iff : forall n m, grab n m = None <-> tight m = true /\ zeroed m < n.
Proof.
  intros n m; unfold grab. destruct (n >? zeroed m) eqn:E; gtb E; destruct (tight m).
  - split; intros; [split; [reflexivity|lia]|reflexivity].
  - split; [discriminate|intros [? _]; discriminate].
  - split; [discriminate|intros [_ ?]; lia].
  - split; [discriminate|intros [_ ?]; lia].
Qed.

Lemma free_none_iff : forall n m, free n m = None <-> any_state m < n.
Proof.
  intros n m; unfold free. destruct (n >? any_state m) eqn:E; gtb E; split; intros H;
    try discriminate; try reflexivity; lia.
Qed.

Lemma do_req_wf : forall r m m', wfm m -> req_nonneg r -> do_req r m = Some m' ->
  wfm m' /\ algo m' = algo m /\ tight m' = tight m.
Proof.
  unfold wfm; intros [n|n] m m' [Hz Ha] Hn H; simpl in H, Hn.
  - unfold grab in H. destruct (n >? zeroed m) eqn:E; gtb E.
    + destruct (tight m) eqn:T; inversion H; subst; simpl; repeat split; auto; lia.
    + inversion H; subst; simpl; repeat split; auto; lia.
  - unfold free in H. destruct (n >? any_state m) eqn:E; gtb E; inversion H; subst; simpl; repeat split; auto; lia.
Qed.

Lemma run_hist_wf : forall h m m', wfm m -> Forall req_nonneg h -> run_hist h m = Some m' ->
  wfm m' /\ algo m' = algo m /\ tight m' = tight m.
Proof.
  induction h as [|r t IH]; intros m m' Hm Hh H; cbn [run_hist] in H.
  - inversion H; subst; auto.
  - inversion Hh; subst. destruct (do_req r m) as [m1|] eqn:E; [|discriminate].
    destruct (do_req_wf _ _ _ Hm H2 E) as [W1 [A1 T1]].
    destruct (IH _ _ W1 H3 H) as [W2 [A2 T2]]. repeat split; try apply W2; congruence.
Qed.

Lemma run_hist_app : forall h1 h2 m,
  run_hist (h1 ++ h2) m = match run_hist h1 m with Some m1 => run_hist h2 m1 | None => None end.
Proof.
  induction h1 as [|r t IH]; intros; cbn [app run_hist]; auto. destruct (do_req r m); auto.
Qed.

(* an error arises exactly at the first request that meets a raise condition of the code *)
Lemma run_hist_none_iff : forall h m,
  run_hist h m = None <->
  exists h1 r h2 m1, h = h1 ++ r :: h2 /\ run_hist h1 m = Some m1 /\ do_req r m1 = None.
Proof.
  induction h as [|r t IH]; intros m; cbn [run_hist].
  - split; [discriminate|]. intros [h1 [r [h2 [m1 [E _]]]]]. destruct h1; discriminate.
  - destruct (do_req r m) as [m'|] eqn:E.
    + rewrite IH. split.
      * intros [h1 [r' [h2 [m1 [E1 [E2 E3]]]]]]. exists (r :: h1), r', h2, m1.
        subst; cbn [app run_hist]. rewrite E. auto.
      * intros [h1 [r' [h2 [m1 [E1 [E2 E3]]]]]]. destruct h1 as [|r0 h1]; cbn [app run_hist] in *.
        -- inversion E1; inversion E2; subst. congruence.
        -- inversion E1; subst. rewrite E in E2. exists h1, r', h2, m1. auto.
    + split; auto. intros _. exists [], r, t, m. auto.
Qed.

(* net allocation and peak number of outstanding allocated wires of a history *)
Definition delta (r : req) : Z := match r with RGrab n => n | RFree n => - n end.
Fixpoint net (h : list req) : Z := match h with [] => 0 | r :: t => delta r + net t end.
Fixpoint peak (h : list req) (a : Z) : Z :=
  match h with [] => a | r :: t => Z.max a (peak t (a + delta r)) end.

Lemma peak_ge : forall h a, a <= peak h a.
Proof. destruct h; intros; cbn [peak]; lia. Qed.

Lemma peak_prefix : forall h1 h2 a, a + net h1 <= peak (h1 ++ h2) a.
Proof.
  induction h1 as [|r t IH]; intros; cbn [app net peak].
  - pose proof (peak_ge h2 a). lia.
  - specialize (IH h2 (a + delta r)). lia.
Qed.

Lemma net_app : forall h1 h2, net (h1 ++ h2) = net h1 + net h2.
Proof. induction h1; intros; cbn [app net]; [|rewrite IHh1]; lia. Qed.

Lemma run_hist_total : forall h m m', wfm m -> Forall req_nonneg h -> run_hist h m = Some m' ->
  zeroed m' + any_state m' = Z.max (zeroed m + any_state m) (peak h (any_state m)) /\
  any_state m' = any_state m + net h.
Proof.
  induction h as [|r t IH]; intros m m' Hm Hh H; cbn [run_hist] in H.
  - inversion H; subst. cbn [peak net]. destruct Hm. lia.
  - inversion Hh; subst. destruct (do_req r m) as [m1|] eqn:E; [|discriminate].
    destruct (do_req_wf _ _ _ Hm H2 E) as [W1 _].
    destruct (IH _ _ W1 H3 H) as [T1 N1]. cbn [peak net].
    pose proof (peak_ge t (any_state m1)) as PG.
    assert (any_state m1 = any_state m + delta r /\
            zeroed m1 + any_state m1 = Z.max (zeroed m + any_state m) (any_state m1)) as [EA EW].
    { destruct Hm as [Hz Ha]. destruct r as [n|n]; simpl in E, H2 |- *.
      - unfold grab in E. destruct (n >? zeroed m) eqn:C; gtb C.
        + destruct (tight m); inversion E; subst; simpl; lia.
        + inversion E; subst; simpl; lia.
      - unfold free in E. destruct (n >? any_state m) eqn:C; gtb C; inversion E; subst; simpl; lia. }
    rewrite EA in *. destruct Hm. lia.
Qed.

(* ------------------------------------------------------------------ the estimator drives the manager by a pure trace *)
Lemma run_actions_trace : forall D gs f q k,
  (forall r k s s', upd D gs f r k s = Ok s' ->
     exists h, trace D gs f r k = Some h /\ run_hist h (wm s) = Some (wm s')) ->
  forall l s s', run_actions (act_step (upd D gs f) q k) l s = Ok s' ->
  exists h, tr_actions (trace D gs f) q k l = Some h /\ run_hist h (wm s) = Some (wm s').
Proof.
  intros D gs f q k IH. induction l as [|a t IHl]; intros s s' H; cbn [run_actions] in H.
  - inversion H; subst. exists []. auto.
  - destruct (act_step (upd D gs f) q k a s) as [s1|e] eqn:E; [|discriminate].
    destruct (IHl _ _ H) as [h2 [T2 R2]]. cbn [tr_actions]. rewrite T2.
    destruct a; cbn [act_step] in E.
    + destruct (IH _ _ _ _ E) as [h1 [T1 R1]]. rewrite T1. exists (h1 ++ h2). split; auto.
      rewrite run_hist_app, R1. auto.
    + unfold wm_step in E. destruct (grab _ _) as [m1|] eqn:G; inversion E; subst.
      eexists; split; [reflexivity|]. cbn [app run_hist do_req]. rewrite G. auto.
    + unfold wm_step in E. destruct (free _ _) as [m1|] eqn:G; inversion E; subst.
      eexists; split; [reflexivity|]. cbn [app run_hist do_req]. rewrite G. auto.
Qed.

Lemma upd_trace : forall D gs f r k s s', upd D gs f r k s = Ok s' ->
  exists h, trace D gs f r k = Some h /\ run_hist h (wm s) = Some (wm s').
Proof.
  intros D gs f. induction f as [|f IH]; intros r k s s' H; cbn [upd] in H; [discriminate|].
  cbn [trace]. destruct (in_set gs (name_of D r)).
  - inversion H; subst. exists []. auto.
  - destruct (get_decomp D r) eqn:G; try discriminate.
    eapply run_actions_trace; eauto.
Qed.

Lemma est_items_trace : forall D gs f items s s', est_items D gs f items s = Ok s' ->
  exists h, trace_items D gs f items = Some h /\ run_hist h (wm s) = Some (wm s').
Proof.
  intros D gs f. induction items as [|[r k] t IH]; intros s s' H; cbn [est_items] in H.
  - inversion H; subst. exists []. auto.
  - destruct (upd D gs f r k s) as [s1|e] eqn:E; [|discriminate].
    destruct (upd_trace _ _ _ _ _ _ _ E) as [h1 [T1 R1]]. destruct (IH _ _ H) as [h2 [T2 R2]].
    cbn [trace_items]. rewrite T1, T2. exists (h1 ++ h2). split; auto. rewrite run_hist_app, R1. auto.
Qed.

(* converse: when the pure trace exists and the manager accepts it, the estimate succeeds *)
Lemma run_actions_trace_conv : forall D gs f q k,
  (forall r k s h m', trace D gs f r k = Some h -> run_hist h (wm s) = Some m' ->
     exists s', upd D gs f r k s = Ok s' /\ wm s' = m') ->
  forall l s h m', tr_actions (trace D gs f) q k l = Some h -> run_hist h (wm s) = Some m' ->
  exists s', run_actions (act_step (upd D gs f) q k) l s = Ok s' /\ wm s' = m'.
Proof.
  intros D gs f q k IH. induction l as [|a t IHl]; intros s h m' T R; cbn [tr_actions] in T.
  - inversion T; subst. inversion R; subst. exists s. auto.
  - destruct (match a with AGate g c => trace D gs f g (k * c) | AAlloc n => Some [RGrab (wire_req q k n)]
                         | ADealloc n => Some [RFree (wire_req q k n)] end) as [h1|] eqn:T1; [|discriminate].
    destruct (tr_actions (trace D gs f) q k t) as [h2|] eqn:T2; [|discriminate].
    inversion T; subst. rewrite run_hist_app in R.
    destruct (run_hist h1 (wm s)) as [m1|] eqn:R1; [|discriminate].
    assert (exists s1, act_step (upd D gs f) q k a s = Ok s1 /\ wm s1 = m1) as [s1 [E1 W1]].
    { destruct a; cbn [act_step].
      - eapply IH; eauto.
      - inversion T1; subst. cbn [run_hist do_req] in R1. unfold wm_step.
        destruct (grab _ _); inversion R1; subst. eexists; split; eauto.
      - inversion T1; subst. cbn [run_hist do_req] in R1. unfold wm_step.
        destruct (free _ _); inversion R1; subst. eexists; split; eauto. }
    subst m1. destruct (IHl s1 h2 m' eq_refl R) as [s' [E' W']].
    exists s'. cbn [run_actions]. rewrite E1. auto.
Qed.

Lemma upd_trace_conv : forall D gs f r k s h m',
  trace D gs f r k = Some h -> run_hist h (wm s) = Some m' ->
  exists s', upd D gs f r k s = Ok s' /\ wm s' = m'.
Proof.
  intros D gs f. induction f as [|f IH]; intros r k s h m' T R; cbn [trace] in T; [discriminate|].
  cbn [upd]. destruct (in_set gs (name_of D r)).
  - inversion T; subst. inversion R; subst. eexists; split; eauto.
  - destruct (get_decomp D r) eqn:G; try discriminate.
    eapply run_actions_trace_conv; eauto.
Qed.

Lemma est_items_trace_conv : forall D gs f items s h m',
  trace_items D gs f items = Some h -> run_hist h (wm s) = Some m' ->
  exists s', est_items D gs f items s = Ok s' /\ wm s' = m'.
Proof.
  intros D gs f. induction items as [|[r k] t IH]; intros s h m' T R; cbn [trace_items] in T.
  - inversion T; subst. inversion R; subst. exists s; auto.
  - destruct (trace D gs f r k) as [h1|] eqn:T1; [|discriminate].
    destruct (trace_items D gs f t) as [h2|] eqn:T2; [|discriminate].
    inversion T; subst. rewrite run_hist_app in R.
    destruct (run_hist h1 (wm s)) as [m1|] eqn:R1; [|discriminate].
    destruct (upd_trace_conv _ _ _ _ _ _ _ _ T1 R1) as [s1 [E1 W1]]. subst m1.
    destruct (IH s1 h2 m' eq_refl R) as [s' [E' W']].
    exists s'. cbn [est_items]. rewrite E1. auto.
Qed.

(* ------------------------------------------------------------------ non-negative oracles give non-negative traces *)
Fixpoint rop_ok (r : rop) : Prop :=
  match r with
  | Base _ => True
  | Adj b => rop_ok b
  | Ctrl b n z => rop_ok b /\ 0 <= z
  | PowO b p => rop_ok b
  end.
Definition action_ok (a : action) : Prop :=
  match a with AGate g c => 0 <= c /\ rop_ok g | AAlloc n | ADealloc n => 0 <= n end.
Definition dres_ok (d : dres) : Prop := match d with DList l => Forall action_ok l | _ => True end.
Definition oracle_ok (D : oracle) : Prop :=
  (forall c, dres_ok (o_decomp D c)) /\ (forall c, dres_ok (o_adj D c)) /\
  (forall c n z, dres_ok (o_ctrl D c n z)) /\ (forall c p, dres_ok (o_pow D c p)).

Lemma default_adj_ok : forall l, Forall action_ok l -> Forall action_ok (default_adj l).
Proof.
  unfold default_adj; intros l H. apply Forall_forall. intros a Ha.
  apply in_map_iff in Ha. destruct Ha as [b [E Hb]]. apply in_rev in Hb.
  rewrite Forall_forall in H. specialize (H _ Hb). subst. destruct b; simpl in *; auto.
Qed.

Lemma default_ctrl_ok : forall x n z l, 0 <= z -> Forall action_ok l -> Forall action_ok (default_ctrl x n z l).
Proof.
  unfold default_ctrl; intros x n z l Hz H. apply Forall_app. split.
  - destruct (z =? 0); constructor; [|constructor]. cbn [action_ok rop_ok]. split; [lia|exact I].
  - apply Forall_forall. intros a Ha. apply in_map_iff in Ha. destruct Ha as [b [E Hb]].
    rewrite Forall_forall in H. specialize (H _ Hb). subst. destruct b; simpl in *; auto.
    destruct H. repeat split; auto; lia.
Qed.

Lemma lift_ok : forall f d, (forall l, Forall action_ok l -> Forall action_ok (f l)) -> dres_ok d -> dres_ok (lift f d).
Proof. intros f [] Hf H; simpl in *; auto. Qed.

Lemma pow_default_ok : forall b p d, rop_ok b -> dres_ok (pow_default b p d).
Proof.
  intros b p [] Hb; simpl; auto. destruct (p <? 0) eqn:E; simpl; auto.
  constructor; [|constructor]. simpl. split; [lia|auto].
Qed.

Lemma get_decomp_ok : forall D, oracle_ok D -> forall r, rop_ok r -> dres_ok (get_decomp D r).
Proof.
  intros D [Hd [Ha [Hc Hp]]]. induction r; intros Hr; cbn [get_decomp].
  - apply Hd.
  - cbn [rop_ok] in Hr. destruct r.
    + specialize (Ha c). destruct (o_adj D c); auto.
      apply lift_ok; [apply default_adj_ok|auto].
    + simpl. constructor; [|constructor]. simpl in *. split; [lia|auto].
    + apply lift_ok; [apply default_adj_ok|auto].
    + apply lift_ok; [apply default_adj_ok|auto].
  - cbn [rop_ok] in Hr. destruct Hr as [Hr Hz]. destruct r.
    + specialize (Hc c n z). destruct (o_ctrl D c n z); auto.
      apply lift_ok; [intros; apply default_ctrl_ok; auto|auto].
    + apply lift_ok; [intros; apply default_ctrl_ok; auto|auto].
    + simpl. constructor; [|constructor]. simpl in *. destruct Hr. repeat split; auto; lia.
    + apply lift_ok; [intros; apply default_ctrl_ok; auto|auto].
  - cbn [rop_ok] in Hr. destruct r.
    + specialize (Hp c p). destruct (o_pow D c p); auto. apply pow_default_ok; auto.
    + apply pow_default_ok; auto.
    + apply pow_default_ok; auto.
    + simpl. constructor; [|constructor]. simpl in *. split; [lia|auto].
Qed.

Lemma wire_req_nonneg : forall q k n, 0 <= k -> 0 <= n -> 0 <= wire_req q k n.
Proof. unfold wire_req; intros. destruct (q =? 0); nia. Qed.

Lemma tr_actions_nonneg : forall D gs f q k,
  0 <= k ->
  (forall r k h, rop_ok r -> 0 <= k -> trace D gs f r k = Some h -> Forall req_nonneg h) ->
  forall l h, Forall action_ok l -> tr_actions (trace D gs f) q k l = Some h -> Forall req_nonneg h.
Proof.
  intros D gs f q k Hk IH. induction l as [|a t IHl]; intros h Hl T; cbn [tr_actions] in T.
  - inversion T; constructor.
  - inversion Hl; subst.
    destruct (match a with AGate g c => trace D gs f g (k * c) | AAlloc n => Some [RGrab (wire_req q k n)]
                         | ADealloc n => Some [RFree (wire_req q k n)] end) as [h1|] eqn:T1; [|discriminate].
    destruct (tr_actions (trace D gs f) q k t) as [h2|] eqn:T2; [|discriminate].
    inversion T; subst. apply Forall_app. split; [|apply IHl; auto].
    destruct a; cbn [action_ok] in H1.
    + destruct H1 as [Hc Hg]. apply (IH g (k * c) h1); [assumption | nia | exact T1].
    + inversion T1; subst. constructor; [|constructor]. simpl. apply wire_req_nonneg; auto.
    + inversion T1; subst. constructor; [|constructor]. simpl. apply wire_req_nonneg; auto.
Qed.

Lemma trace_nonneg : forall D gs, oracle_ok D -> forall f r k h,
  rop_ok r -> 0 <= k -> trace D gs f r k = Some h -> Forall req_nonneg h.
Proof.
  intros D gs HD. induction f as [|f IH]; intros r k h Hr Hk T; cbn [trace] in T; [discriminate|].
  destruct (in_set gs (name_of D r)).
  - inversion T; constructor.
  - pose proof (get_decomp_ok D HD r Hr) as G. destruct (get_decomp D r); try discriminate.
    eapply tr_actions_nonneg; eauto.
Qed.

Definition items_ok (items : list (rop * Z)) : Prop := Forall (fun p => rop_ok (fst p) /\ 0 <= snd p) items.

Lemma trace_items_nonneg : forall D gs, oracle_ok D -> forall f items h,
  items_ok items -> trace_items D gs f items = Some h -> Forall req_nonneg h.
Proof.
  intros D gs HD f. induction items as [|[r k] t IH]; intros h Hi T; cbn [trace_items] in T.
  - inversion T; constructor.
  - inversion Hi; subst. simpl in H1. destruct H1.
    destruct (trace D gs f r k) as [h1|] eqn:T1; [|discriminate].
    destruct (trace_items D gs f t) as [h2|] eqn:T2; [|discriminate].
    inversion T; subst. apply Forall_app. split; [eapply trace_nonneg; eauto | apply IH; auto].
Qed.

(* ------------------------------------------------------------------ estimator-level wire statement *)
Lemma estimate_wires_lem : forall D gs f w z a tb s,
  oracle_ok D -> items_ok (wf_items w) -> 0 <= z -> 0 <= a ->
  estimate D gs f w z a tb = Ok s ->
  exists h, trace_items D gs f (wf_items w) = Some h /\ Forall req_nonneg h /\
    run_hist h (mkWM z a (wf_algo w) tb) = Some (wm s) /\
    0 <= zeroed (wm s) /\ 0 <= any_state (wm s) /\
    algo (wm s) = wf_algo w /\ algo (wm s) <= total (wm s) /\
    zeroed (wm s) + any_state (wm s) = Z.max (z + a) (peak h a) /\
    any_state (wm s) = a + net h.
Proof.
  unfold estimate; intros D gs f w z a tb s HD Hi Hz Ha H.
  destruct (est_items_trace _ _ _ _ _ _ H) as [h [T R]]. cbn [wm] in R.
  pose proof (trace_items_nonneg D gs HD f _ _ Hi T) as NN.
  assert (wfm (mkWM z a (wf_algo w) tb)) as W0 by (split; simpl; auto).
  destruct (run_hist_wf _ _ _ W0 NN R) as [[Z1 A1] [AL _]].
  destruct (run_hist_total _ _ _ W0 NN R) as [TT NT]. simpl in AL, TT, NT.
  exists h. unfold total. repeat split; auto; lia.
Qed.

Lemma estimate_ok_iff_lem : forall D gs f w z a tb,
  (exists s, estimate D gs f w z a tb = Ok s) <->
  (exists h m, trace_items D gs f (wf_items w) = Some h /\ run_hist h (mkWM z a (wf_algo w) tb) = Some m).
Proof.
  unfold estimate; intros; split.
  - intros [s H]. destruct (est_items_trace _ _ _ _ _ _ H) as [h [T R]]. eauto.
  - intros [h [m [T R]]].
    destruct (est_items_trace_conv D gs f (wf_items w) (mkSt [] (mkWM z a (wf_algo w) tb)) h m T R) as [s [E _]].
    eauto.
Qed.

(* ------------------------------------------------------------------ property-level statements (used by Props/C47.v) *)
Lemma wires_never_negative_lem : forall h m m',
  0 <= zeroed m -> 0 <= any_state m -> Forall req_nonneg h -> run_hist h m = Some m' ->
  0 <= zeroed m' /\ 0 <= any_state m'.
Proof. intros h m m' Hz Ha Hh H. exact (proj1 (run_hist_wf h m m' (conj Hz Ha) Hh H)). Qed.
Lemma wires_error_exactly_lem : forall h m,
  run_hist h m = None <->
  exists h1 r h2 m1, h = h1 ++ r :: h2 /\ run_hist h1 m = Some m1 /\
    match r with
    | RGrab n => tight m1 = true /\ zeroed m1 < n
    | RFree n => any_state m1 < n
    end.
Proof.
  intros h m. rewrite run_hist_none_iff. split; intros [h1 [r [h2 [m1 [E [R C]]]]]]; exists h1, r, h2, m1;
    (split; [exact E|split; [exact R|]]); destruct r; simpl in *;
    first [apply grab_none_iff; exact C | apply free_none_iff; exact C].
Qed.
Lemma total_ge_algo_lem : forall h m m',
  0 <= zeroed m -> 0 <= any_state m -> Forall req_nonneg h -> run_hist h m = Some m' ->
  algo m' = algo m /\ algo m' <= total m'.
Proof.
  intros h m m' Hz Ha Hh H. destruct (run_hist_wf h m m' (conj Hz Ha) Hh H) as [[Z1 A1] [AL _]].
  split; [exact AL|]. unfold total. apply Z.le_sub_le_add_r. rewrite Z.sub_diag. apply Z.add_nonneg_nonneg; assumption.
Qed.
Lemma total_accounts_all_allocs_lem : forall h m m',
  0 <= zeroed m -> 0 <= any_state m -> Forall req_nonneg h -> run_hist h m = Some m' ->
  zeroed m' + any_state m' = Z.max (zeroed m + any_state m) (peak h (any_state m)) /\
  any_state m' = any_state m + net h /\
  forall h1 h2, h = h1 ++ h2 -> any_state m + net h1 <= total m' - algo m'.
Proof.
  intros h m m' Hz Ha Hh H. destruct (run_hist_total h m m' (conj Hz Ha) Hh H) as [T N].
  split; [exact T|]. split; [exact N|]. intros h1 h2 E. subst h.
  unfold total. pose proof (peak_prefix h1 h2 (any_state m)) as P.
  apply Z.le_trans with (peak (h1 ++ h2) (any_state m)); [exact P|].
  replace (zeroed m' + any_state m' + algo m' - algo m') with (zeroed m' + any_state m') by ring.
  rewrite T. apply Z.le_max_r.
Qed.
