(* C31  Model of DefaultQubit.execute (pennylane/devices/default_qubit.py) for a batch of circuits:
   how the device random generator is consumed, how per-circuit seeds are paired with circuits, how
   tasks are dispatched to an executor and how results are assembled.  Definitions only; proofs are in
   SeedExecProofs.v.

     if max_workers is None:                                   (serial path)
         return tuple(_simulate_wrapper(c, {"rng": self._rng, ...}) for c in circuits)
     seeds = self._rng.integers(2**31 - 1, size=len(vanilla_circuits))     (BEFORE dispatch)
     simulate_kwargs = [{"rng": _rng, ...} for _rng, _key in zip(seeds, prng_keys, strict=True)]
     with execution_config.executor_backend(max_workers=max_workers) as executor:
         results = tuple(executor.map(_simulate_wrapper, vanilla_circuits, simulate_kwargs))
     self._rng = np.random.default_rng(self._rng.integers(2**31 - 1))
     return results

   The numpy generator is a state-passing oracle; the executor pool is an oracle that completes the
   dispatched tasks in an arbitrary order [perm] (a list of task indices) and hands every result back
   together with its task index; the assembled list is read off by index. *)
From Coq Require Import List ZArith Bool Arith.
Import ListNotations.
Open Scope Z_scope.

Section Exec.
  Variables (St C R : Type).
  Variable ints : St -> nat -> list Z * St.   (* rng.integers(2**31-1, size=n): values, next state *)
  Variable int1 : St -> Z * St.               (* rng.integers(2**31-1) *)
  Variable reseed : Z -> St.                  (* np.random.default_rng(z) *)
  Variable task : C -> Z -> R.                (* simulate(c, rng=<integer seed>): a pure function *)
  Variable sim : C -> St -> R * St.           (* simulate(c, rng=<the device generator>): consumes it *)
  Variable dflt : R.                          (* placeholder for a result that never arrived *)

  (* ---- the executor: tasks complete in the order [perm]; each completion event carries its index *)
  Definition run_pool (perm : list nat) (ts : list (C * Z)) : list (nat * R) :=
    flat_map (fun i => match nth_error ts i with
                       | Some (c, s) => [(i, task c s)]
                       | None => [] end) perm.

  Definition collect (n : nat) (events : list (nat * R)) : list R :=
    map (fun i => match find (fun e => Nat.eqb (fst e) i) events with
                  | Some e => snd e
                  | None => dflt end) (seq 0 n).

  (* ---- one parallel execute *)
  Record par_out := { p_dispatched : list (C * Z);        (* the (circuit, seed) pairs handed to the pool *)
                      p_events : list (nat * R);          (* completion events *)
                      p_results : option (list R);        (* None = zip(strict=True) raised *)
                      p_state : St }.

  Definition exec_par (perm : list nat) (st : St) (batch : list C) : par_out :=
    let n := length batch in
    let '(seeds, st1) := ints st n in
    if Nat.eqb (length seeds) n then
      let ts := combine batch seeds in
      let ev := run_pool perm ts in
      let '(z, _) := int1 st1 in
      {| p_dispatched := ts; p_events := ev; p_results := Some (collect n ev); p_state := reseed z |}
    else {| p_dispatched := []; p_events := []; p_results := None; p_state := st1 |}.

  (* ---- the serial path: the generator itself is threaded through the circuits in batch order *)
  Fixpoint exec_ser (st : St) (batch : list C) : list R * St :=
    match batch with
    | [] => ([], st)
    | c :: r => let '(x, st1) := sim c st in
                let '(xs, st2) := exec_ser st1 r in (x :: xs, st2)
    end.

  (* ---- a history of executions on one device.  A step = (parallel?, batch); the schedule gives the
     completion order the pool happens to produce at that step (ignored by the serial path). *)
  Record step_out := { s_dispatched : list (C * Z); s_results : option (list R) }.

  Fixpoint run_seq (st : St) (steps : list (bool * list C)) (sched : list (list nat))
    : list step_out * St :=
    match steps with
    | [] => ([], st)
    | (par, batch) :: rest =>
        let perm := hd [] sched in
        let '(o, st1) :=
          if par then let r := exec_par perm st batch in
                      ({| s_dispatched := p_dispatched r; s_results := p_results r |}, p_state r)
          else let '(xs, st') := exec_ser st batch in
               ({| s_dispatched := []; s_results := Some xs |}, st') in
        let '(os, st2) := run_seq st1 rest (tl sched) in (o :: os, st2)
    end.

  (* specification-side notions used by the theorems *)
  Definition pairing (st : St) (batch : list C) : list (C * Z) :=
    combine batch (fst (ints st (length batch))).
  Definition covers (perm : list nat) (n : nat) : Prop := forall i, (i < n)%nat -> In i perm.
End Exec.

(* ================================================================== concrete instance for the tie
   States are small integer identifiers of numpy bit-generator states, the oracles are association
   tables recorded from an independent clone of the generator (ints/int1/reseed) or from the run
   (how far simulate advanced the shared generator), results are terms recording WHICH circuit was
   simulated with WHICH seed / generator state. *)
Inductive rterm := RSeed (c s : Z) | RGen (c st : Z) | RNone.

Definition rterm_eqb (a b : rterm) : bool :=
  match a, b with
  | RSeed c s, RSeed c' s' => (c =? c') && (s =? s')
  | RGen c s, RGen c' s' => (c =? c') && (s =? s')
  | RNone, RNone => true
  | _, _ => false end.

Fixpoint list_eqb {A B} (e : A -> B -> bool) (l : list A) (m : list B) : bool :=
  match l, m with
  | [], [] => true
  | x :: l', y :: m' => e x y && list_eqb e l' m'
  | _, _ => false end.

Record tables := { t_ints : list ((Z * Z) * (list Z * Z));   (* (state, n) -> (values, state') *)
                   t_int1 : list (Z * (Z * Z));              (* state -> (value, state') *)
                   t_reseed : list (Z * Z);                  (* value -> state *)
                   t_sim : list ((Z * Z) * Z) }.             (* (circuit, state) -> state' *)

Fixpoint assoc {K V} (e : K -> K -> bool) (k : K) (l : list (K * V)) : option V :=
  match l with [] => None | (k', v) :: r => if e k k' then Some v else assoc e k r end.
Definition zz_eqb (a b : Z * Z) : bool := (fst a =? fst b) && (snd a =? snd b).

Definition c_ints (t : tables) (st : Z) (n : nat) : list Z * Z :=
  match assoc zz_eqb (st, Z.of_nat n) (t_ints t) with Some r => r | None => ([], -1) end.
Definition c_int1 (t : tables) (st : Z) : Z * Z :=
  match assoc Z.eqb st (t_int1 t) with Some r => r | None => (-1, -1) end.
Definition c_reseed (t : tables) (z : Z) : Z :=
  match assoc Z.eqb z (t_reseed t) with Some r => r | None => -1 end.
Definition c_sim (t : tables) (c st : Z) : rterm * Z :=
  (RGen c st, match assoc zz_eqb (c, st) (t_sim t) with Some r => r | None => -1 end).

Definition c_run_seq (t : tables) :=
  run_seq Z Z rterm (c_ints t) (c_int1 t) (c_reseed t) RSeed (c_sim t) RNone.

(* one observed device history: tables, initial state, steps with the observed completion orders;
   expected: per step the dispatched pairs (parallel steps; [] for serial ones), the assembled results
   (None = the execute raised), and the device generator state after the last step *)
Definition pair_eqb (a b : Z * Z) : bool := zz_eqb a b.
Definition out_eqb (o : step_out Z rterm) (e : list (Z * Z) * option (list rterm)) : bool :=
  list_eqb pair_eqb (s_dispatched Z rterm o) (fst e) &&
  match s_results Z rterm o, snd e with
  | Some l, Some m => list_eqb rterm_eqb l m
  | None, None => true
  | _, _ => false end.

Definition check_case
  (x : (tables * Z * list (bool * list Z) * list (list nat))
       * (list (list (Z * Z) * option (list rterm)) * Z)) : bool :=
  let '(t, st0, steps, sched, (exp_out, exp_st)) := x in
  let '(outs, stf) := c_run_seq t st0 steps sched in
  list_eqb out_eqb outs exp_out && (stf =? exp_st).
