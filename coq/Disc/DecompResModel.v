(* C11: counting the gates a decomposition rule emits, against its declared resources.
   Resource types are integer codes (the harness numbers the distinct compressed resource reps). *)
From Coq Require Import List ZArith Bool.
Import ListNotations.
Open Scope Z_scope.

Definition count (k : Z) (l : list Z) : Z := fold_right (fun x a => if x =? k then a + 1 else a) 0 l.
Definition declared_of (k : Z) (d : list (Z * Z)) : Z :=
  fold_right (fun kv a => if fst kv =? k then snd kv + a else a) 0 d.
Definition mem_key (k : Z) (d : list (Z * Z)) : bool := existsb (fun kv => fst kv =? k) d.

(* exact resources: every declared type is emitted exactly the declared number of times and nothing else is emitted *)
Definition res_exact (emitted : list Z) (declared : list (Z * Z)) : bool :=
  forallb (fun kv => count (fst kv) emitted =? declared_of (fst kv) declared) declared
  && forallb (fun x => mem_key x declared) emitted.
(* inexact resources: every emitted type is among the declared types *)
Definition res_subset (emitted : list Z) (declared : list (Z * Z)) : bool :=
  forallb (fun x => mem_key x declared) emitted.

(* peak number of simultaneously allocated work wires along the emitted stream: +n allocate, -n deallocate *)
Fixpoint peak_from (live best : Z) (evs : list Z) : Z :=
  match evs with
  | [] => best
  | e :: r => let live' := live + e in peak_from live' (Z.max best live') r
  end.
Definition peak (evs : list Z) : Z := peak_from 0 0 evs.

Record case := mkCase { emitted : list Z; declared : list (Z * Z); exact : bool; allocs : list Z; work_declared : Z }.
Definition check_case (c : case) : bool :=
  (if exact c then res_exact (emitted c) (declared c) else res_subset (emitted c) (declared c))
  && (peak (allocs c) <=? work_declared c).
