(* Lemmas about the OpenQASM 2 model: compositional denotation, the qelib1.inc bodies multiply out to the table,
   recorded global phases are unit complex numbers, and what a generated export obligation means over the reals. *)
From Coq Require Import List ZArith QArith Reals String Bool Lia.
From Coquelicot Require Import Complex.
From PLV Require Import Alg.Poly Alg.PolyEval Alg.Angles Lin.Vec Lin.VecHom Lin.PVec Lin.PVecSound
  Tab.TrigSyms Tab.GateTable Tab.QasmTable Disc.QasmModel.
Import ListNotations.

(* ------------------------------------------------------------------ compositionality *)
Lemma body_den_app nq a b :
  body_den nq (a ++ b) = match body_den nq a, body_den nq b with
                         | Some x, Some y => Some (x ++ y)
                         | _, _ => None
                         end.
Proof.
  induction a as [|st a IH]; cbn [app body_den].
  - destruct (body_den nq b); reflexivity.
  - rewrite IH. destruct (stmt_den nq st) as [x|]; [|reflexivity].
    destruct (body_den nq a) as [y|]; [|reflexivity].
    destruct (body_den nq b) as [z|]; [|reflexivity].
    rewrite app_assoc. reflexivity.
Qed.

Lemma measures_app a b : measures (a ++ b) = measures a ++ measures b.
Proof.
  induction a as [|st a IH]; [reflexivity|].
  destruct st; cbn [app measures]; rewrite IH; reflexivity.
Qed.

(* running p then q (same registers): the circuit is the concatenation, the measurement record is the concatenation *)
Lemma prog_den_seq p q c1 m1 c2 m2 :
  qp_nq q = qp_nq p -> qp_nc q = qp_nc p ->
  prog_den p = Some (c1, m1) -> prog_den q = Some (c2, m2) ->
  prog_den (seq_prog p q) = Some (c1 ++ c2, m1 ++ m2).
Proof.
  intros Hq Hc. unfold prog_den, seq_prog. cbn [qp_nq qp_nc qp_body]. rewrite Hq, Hc.
  rewrite body_den_app, measures_app, forallb_app.
  destruct (body_den (qp_nq p) (qp_body p)) as [x|]; [|discriminate].
  destruct (body_den (qp_nq p) (qp_body q)) as [y|]; [|intros _ H; discriminate H].
  destruct (forallb _ (measures (qp_body p))); [|discriminate].
  destruct (forallb _ (measures (qp_body q))); [|intros _ H; discriminate H].
  intros H1 H2. inversion H1; inversion H2; subst. reflexivity.
Qed.

(* ------------------------------------------------------------------ qelib1.inc bodies = table *)
Lemma qelib_bodies_ok_l : forallb body_ok qelib_bodies = true.
Proof. vm_compute. reflexivity. Qed.

Lemma table_covered_l : table_covered = true.
Proof. vm_compute. reflexivity. Qed.

(* over the complex numbers, for every real value of the gate's parameters *)
Lemma qelib_body_sound_l name body np k M circ :
  In (name, body) qelib_bodies -> qelib_entry name = Some (np, k, M) -> body_den k body = Some circ ->
  forall (thetas : list R) col, (col < 2 ^ k)%nat ->
    c_capply k (map (evg (aenv HZ DD thetas)) circ) (c_basis k col)
    = c_apply_gate k (seq 0 k) (map (map (peval (aenv HZ DD thetas))) M) (c_basis k col).
Proof.
  intros Hin He Hd thetas col Hc.
  pose proof qelib_bodies_ok_l as H. rewrite forallb_forall in H. specialize (H _ Hin).
  unfold body_ok in H. cbn [fst snd] in H. rewrite He, Hd in H.
  apply (cols_ok_forall HZ DD k circ (seq 0 k) M (all_cols k)); [unfold HZ; lia | exact H |].
  unfold all_cols. apply in_seq. lia.
Qed.

(* ------------------------------------------------------------------ phases *)
Local Open Scope R_scope.
Local Open Scope C_scope.

Lemma cis_0 : cis 0 = 1.
Proof. unfold cis. rewrite cos_0, sin_0. reflexivity. Qed.

Lemma ph_unit_denotes_l ph : ph_unit ph = true -> forall th, exists a : R, peval (aenv HZ DD th) (ph_poly ph) = cis a.
Proof.
  destruct ph as [|j n d]; cbn [ph_unit ph_poly]; intros H th.
  - exists 0%R. rewrite cis_0. unfold p1. apply peval_pone.
  - apply andb_prop in H. destruct H as [Hd Hm].
    apply negb_true_iff in Hd. apply Z.eqb_neq in Hd. apply Z.eqb_eq in Hm.
    eexists. apply pexp_denotes; [exact Hd|]. apply Z.mod_divide; assumption.
Qed.

Lemma export_phase_unit_l key : ph_unit (export_phase_doc key) = true.
Proof.
  unfold export_phase_doc. unfold export_phase_table. cbn [qt_assoc].
  repeat match goal with |- context [if ?b then _ else _] => destruct b end; reflexivity.
Qed.

(* what a generated obligation  meqb 4 M_pl (qt_scale phase N_qasm) = true  means *)
Lemma export_obligation_sound_l M N ph :
  meqb HZ M (qt_scale (ph_poly ph) N) = true -> ph_unit ph = true ->
  forall th : list R, exists a : R,
    map (map (peval (aenv HZ DD th))) M = map (map (fun x => cis a * peval (aenv HZ DD th) x)) N.
Proof.
  intros H U th. destruct (ph_unit_denotes_l ph U th) as [a Ha]. exists a.
  rewrite (meqb_forall HZ DD M _ ltac:(unfold HZ; lia) H th).
  unfold qt_scale. rewrite map_map. apply map_ext. intros row. rewrite map_map. apply map_ext. intros x.
  unfold pmul'. rewrite (peval_nmul _ _ (G8 th)). rewrite Ha. reflexivity.
Qed.

Lemma phase_candidates_unit_l key : forallb ph_unit (phase_candidates key) = true.
Proof.
  unfold phase_candidates. cbn [forallb]. rewrite export_phase_unit_l. vm_compute. reflexivity.
Qed.

Lemma export_equiv_sound_l key M N :
  export_equiv HZ meqb key M N = true ->
  forall th : list R, exists a : R,
    map (map (peval (aenv HZ DD th))) M = map (map (fun x => cis a * peval (aenv HZ DD th) x)) N.
Proof.
  unfold export_equiv. intros H th. apply existsb_exists in H. destruct H as [ph [Hin H]].
  pose proof (phase_candidates_unit_l key) as U. rewrite forallb_forall in U.
  exact (export_obligation_sound_l M N ph H (U ph Hin) th).
Qed.

