From Coq Require Import List ZArith Bool Lia QArith.
From PLV Require Import Disc.SamplingModel.
Import ListNotations.
Open Scope Z_scope.
Lemma placeholder_true : True. Proof. exact I. Qed.
