From Coq Require Import List ZArith Bool Lia QArith FinFun.
From PLV Require Import Disc.SamplingModel.
From PLV Require Disc.ShotsModel.
Import ListNotations.
Open Scope Z_scope.

(* ------------------------------------------------------------------ generic list / sum facts *)
Lemma sumZ_app a b : sumZ (a ++ b) = sumZ a + sumZ b.
Proof. induction a as [|x a IH]; simpl; [reflexivity | rewrite IH; lia]. Qed.

Lemma sumZ_map_add {A} (f g : A -> Z) l :
  sumZ (map (fun x => f x + g x) l) = sumZ (map f l) + sumZ (map g l).
Proof. induction l as [|x l IH]; simpl; [reflexivity | rewrite IH; lia]. Qed.

Lemma sumZ_map_zero {A} (l : list A) : sumZ (map (fun _ => 0) l) = 0.
Proof. induction l; simpl; lia. Qed.

Lemma sumZ_map_scale {A} (P : A -> bool) c l :
  sumZ (map (fun x => if P x then c else 0) l) = c * sumZ (map (fun x => if P x then 1 else 0) l).
Proof. induction l as [|x l IH]; simpl; [lia | rewrite IH; destruct (P x); lia]. Qed.

Lemma sumZ_nonneg l : Forall (fun x => 0 <= x) l -> 0 <= sumZ l.
Proof. induction 1; simpl; lia. Qed.

Lemma eq_lb_eq a : forall b, eq_lb a b = true <-> a = b.
Proof.
  induction a as [|x a IH]; intros [|y b]; simpl; try (split; [discriminate | discriminate]); [tauto|].
  rewrite andb_true_iff, IH, eqb_true_iff. split; [intros [-> ->]; reflexivity | intros H; inversion H; auto].
Qed.

Lemma eq_lz_eq a : forall b, eq_lz a b = true -> a = b.
Proof.
  induction a as [|x a IH]; intros [|y b]; simpl; try discriminate; [reflexivity|].
  intros H. apply andb_prop in H as [H1 H2]. apply Z.eqb_eq in H1. apply IH in H2. congruence.
Qed.

(* ------------------------------------------------------------------ index <-> bitstring *)
Lemma powers_S n : powers_of_two (S n) = 2 ^ Z.of_nat n :: powers_of_two n.
Proof.
  unfold powers_of_two. rewrite seq_S, map_app, rev_app_distr. cbn [map rev app plus].
  rewrite Z.shiftl_1_l. reflexivity.
Qed.

Lemma powers_length n : length (powers_of_two n) = n.
Proof. unfold powers_of_two. now rewrite rev_length, map_length, seq_length. Qed.

Lemma land_pow2 k j : 0 <= j -> (0 <? Z.land k (2 ^ j)) = Z.testbit k j.
Proof.
  intros Hj. destruct (Z.testbit k j) eqn:E.
  - assert (H : Z.land k (2 ^ j) = 2 ^ j).
    { apply Z.bits_inj'. intros m Hm. rewrite Z.land_spec, Z.pow2_bits_eqb by lia.
      destruct (Z.eqb_spec j m) as [->|]; [rewrite E; reflexivity | apply andb_false_r]. }
    rewrite H. apply Z.ltb_lt. apply Z.pow_pos_nonneg; lia.
  - assert (H : Z.land k (2 ^ j) = 0).
    { apply Z.bits_inj'. intros m Hm. rewrite Z.land_spec, Z.pow2_bits_eqb, Z.bits_0 by lia.
      destruct (Z.eqb_spec j m) as [->|]; [rewrite E; reflexivity | apply andb_false_r]. }
    rewrite H. reflexivity.
Qed.

Lemma bits_S n k : bits_of_index (S n) k = Z.testbit k (Z.of_nat n) :: bits_of_index n k.
Proof. unfold bits_of_index. rewrite powers_S. cbn [map]. rewrite land_pow2 by lia. reflexivity. Qed.

Lemma bits_length n k : length (bits_of_index n k) = n.
Proof. unfold bits_of_index. now rewrite map_length, powers_length. Qed.

Lemma index_cons b bs : index_of_bits (b :: bs) = b2z b * 2 ^ Z.of_nat (length bs) + index_of_bits bs.
Proof. unfold index_of_bits. cbn [length]. rewrite powers_S. reflexivity. Qed.

Lemma b2z_Zb2z b : b2z b = Z.b2z b.
Proof. destruct b; reflexivity. Qed.

Lemma pow2_pos n : 0 < 2 ^ Z.of_nat n.
Proof. apply Z.pow_pos_nonneg; lia. Qed.

Lemma index_bits_mod n : forall k, index_of_bits (bits_of_index n k) = k mod 2 ^ Z.of_nat n.
Proof.
  induction n as [|n IH]; intros k.
  - cbn. now rewrite Z.mod_1_r.
  - rewrite bits_S, index_cons, bits_length, IH, Nat2Z.inj_succ, Z.pow_succ_r by lia.
    rewrite b2z_Zb2z, Z.testbit_spec' by lia. pose proof (pow2_pos n).
    rewrite (Z.mul_comm 2), Z.rem_mul_r by lia. lia.
Qed.

Lemma index_of_bits_of_index n k : 0 <= k < 2 ^ Z.of_nat n -> index_of_bits (bits_of_index n k) = k.
Proof. intros H. rewrite index_bits_mod. now apply Z.mod_small. Qed.

Lemma index_range bs : 0 <= index_of_bits bs < 2 ^ Z.of_nat (length bs).
Proof.
  induction bs as [|b bs IH]; [cbn; lia|].
  rewrite index_cons. cbn [length]. rewrite Nat2Z.inj_succ, Z.pow_succ_r by lia.
  pose proof (pow2_pos (length bs)). destruct b; cbn [b2z]; lia.
Qed.

Lemma bits_ext n : forall k k', (forall j, 0 <= j < Z.of_nat n -> Z.testbit k j = Z.testbit k' j) ->
  bits_of_index n k = bits_of_index n k'.
Proof.
  induction n as [|n IH]; intros k k' H; [reflexivity|].
  rewrite !bits_S. f_equal; [apply H; lia | apply IH; intros j Hj; apply H; lia].
Qed.

Lemma bits_of_index_of_bits bs : bits_of_index (length bs) (index_of_bits bs) = bs.
Proof.
  induction bs as [|b bs IH]; [reflexivity|].
  cbn [length]. rewrite bits_S, index_cons. pose proof (index_range bs) as R. pose proof (pow2_pos (length bs)) as P.
  set (L := Z.of_nat (length bs)) in *. set (r := index_of_bits bs) in *. f_equal.
  - assert (E : Z.b2z (Z.testbit (b2z b * 2 ^ L + r) L) = Z.b2z b).
    { rewrite Z.testbit_spec' by lia. rewrite Z.div_add_l, Z.div_small by lia.
      rewrite Z.add_0_r. destruct b; reflexivity. }
    destruct (Z.testbit (b2z b * 2 ^ L + r) L), b; cbn in E; congruence.
  - rewrite <- IH at 2. apply bits_ext. intros j Hj. fold L in Hj.
    rewrite <- (Z.mod_pow2_bits_low (b2z b * 2 ^ L + r) L j) by lia.
    rewrite Z.add_comm, Z_mod_plus_full, Z.mod_small by lia. reflexivity.
Qed.

Lemma bits_big_endian n : forall k j, (j < n)%nat ->
  nth j (bits_of_index n k) false = Z.testbit k (Z.of_nat (n - 1 - j)).
Proof.
  induction n as [|n IH]; intros k j Hj; [lia|].
  rewrite bits_S. destruct j as [|j]; cbn [nth].
  - f_equal. lia.
  - rewrite IH by lia. f_equal. lia.
Qed.

Lemma bits_eq_iff m bs j : length bs = m -> 0 <= j < 2 ^ Z.of_nat m ->
  eq_lb bs (bits_of_index m j) = (j =? index_of_bits bs).
Proof.
  intros L Hj. destruct (Z.eqb_spec j (index_of_bits bs)) as [->|N].
  - apply eq_lb_eq. subst m. symmetry. apply bits_of_index_of_bits.
  - destruct (eq_lb bs (bits_of_index m j)) eqn:E; [|reflexivity].
    apply eq_lb_eq in E. subst bs. rewrite index_of_bits_of_index in N by assumption. congruence.
Qed.

(* ------------------------------------------------------------------ basis_states *)
Lemma pow2_nat m : Z.of_nat (2 ^ m) = 2 ^ Z.of_nat m.
Proof. rewrite Nat2Z.inj_pow. reflexivity. Qed.

Lemma basis_states_in m j : In j (basis_states m) <-> 0 <= j < 2 ^ Z.of_nat m.
Proof.
  unfold basis_states. rewrite in_map_iff. split.
  - intros (i & <- & Hi). apply in_seq in Hi. rewrite <- (pow2_nat m). lia.
  - intros H. exists (Z.to_nat j). rewrite <- (pow2_nat m) in H. split; [lia|]. apply in_seq. lia.
Qed.

Lemma basis_states_length m : length (basis_states m) = (2 ^ m)%nat.
Proof. unfold basis_states. now rewrite map_length, seq_length. Qed.

Lemma indicator_seq f : forall N s,
  sumZ (map (fun j => if j =? f then 1 else 0) (map Z.of_nat (seq s N))) =
  if (Z.of_nat s <=? f) && (f <? Z.of_nat (s + N)) then 1 else 0.
Proof.
  induction N as [|N IH]; intros s.
  - cbn. destruct (Z.leb_spec (Z.of_nat s) f), (Z.ltb_spec f (Z.of_nat (s + 0))); cbn; lia.
  - cbn [seq map sumZ fold_right]. fold (sumZ (map (fun j => if j =? f then 1 else 0) (map Z.of_nat (seq (S s) N)))).
    rewrite IH.
    destruct (Z.eqb_spec (Z.of_nat s) f), (Z.leb_spec (Z.of_nat (S s)) f), (Z.ltb_spec f (Z.of_nat (S s + N))),
      (Z.leb_spec (Z.of_nat s) f), (Z.ltb_spec f (Z.of_nat (s + S N))); cbn; lia.
Qed.

Lemma indicator_basis m f : 0 <= f < 2 ^ Z.of_nat m ->
  sumZ (map (fun j => if j =? f then 1 else 0) (basis_states m)) = 1.
Proof.
  intros H. unfold basis_states. rewrite indicator_seq. rewrite <- (pow2_nat m) in H.
  destruct (Z.leb_spec (Z.of_nat 0) f), (Z.ltb_spec f (Z.of_nat (0 + 2 ^ m))); cbn; lia.
Qed.

(* ------------------------------------------------------------------ marginalisation *)
Definition target (n : nat) (mw : list nat) (k : Z) : Z := index_of_bits (select mw (bits_of_index n k)).

Lemma select_length ws row : length (select ws row) = length ws.
Proof. unfold select. apply map_length. Qed.

Lemma target_range n mw k : 0 <= target n mw k < 2 ^ Z.of_nat (length mw).
Proof. unfold target. rewrite <- (select_length mw (bits_of_index n k)). apply index_range. Qed.

Lemma marg_test n mw k j : 0 <= j < 2 ^ Z.of_nat (length mw) ->
  eq_lb (select mw (bits_of_index n k)) (bits_of_index (length mw) j) = (j =? target n mw k).
Proof. intros H. apply bits_eq_iff; [apply select_length | exact H]. Qed.

Lemma snd_combine {A B} (a : list A) : forall (b : list B), (length b <= length a)%nat -> map snd (combine a b) = b.
Proof.
  induction a as [|x a IH]; intros [|y b] H; cbn in *; try reflexivity; [lia|]. f_equal. apply IH. lia.
Qed.

Lemma sum_swap (L : list (Z * Z)) (J : list Z) (T : Z * Z -> Z -> bool) :
  (forall kw, In kw L -> sumZ (map (fun j => if T kw j then 1 else 0) J) = 1) ->
  sumZ (map (fun j => sumZ (map (fun kw => if T kw j then snd kw else 0) L)) J) = sumZ (map snd L).
Proof.
  induction L as [|kw L IH]; intros H.
  - cbn. apply sumZ_map_zero.
  - cbn [map sumZ fold_right].
    change (sumZ (map (fun j => (if T kw j then snd kw else 0) + sumZ (map (fun kw0 => if T kw0 j then snd kw0 else 0) L)) J)
            = snd kw + sumZ (map snd L)).
    rewrite (sumZ_map_add (fun j => if T kw j then snd kw else 0)).
    rewrite IH by (intros; apply H; right; assumption).
    rewrite (sumZ_map_scale (T kw)), H by (left; reflexivity). lia.
Qed.

Lemma marginal_total n mw w : length w = (2 ^ n)%nat -> sumZ (marginal n mw w) = sumZ w.
Proof.
  intros Lw. unfold marginal, marg_entry.
  rewrite (sum_swap (combine (basis_states n) w) (basis_states (length mw))
             (fun kw j => eq_lb (select mw (bits_of_index n (fst kw))) (bits_of_index (length mw) j))).
  - rewrite snd_combine; [reflexivity | rewrite basis_states_length; lia].
  - intros kw _. rewrite (map_ext_in _ (fun j => if j =? target n mw (fst kw) then 1 else 0)).
    + apply indicator_basis, target_range.
    + intros j Hj. apply basis_states_in in Hj. now rewrite marg_test.
Qed.

Lemma sum_if_filter {A} (P : A -> bool) (g : A -> Z) l :
  sumZ (map (fun x => if P x then g x else 0) l) = sumZ (map g (filter P l)).
Proof. unfold sumZ. induction l as [|x l IH]; [reflexivity|]. cbn. destruct (P x); cbn; rewrite IH; lia. Qed.

Lemma nth_map_seq {B} (f : nat -> B) d : forall N s i, (i < N)%nat -> nth i (map f (seq s N)) d = f (s + i)%nat.
Proof.
  induction N as [|N IH]; intros s i H; [lia|]. destruct i; cbn [seq map nth]; [f_equal; lia|].
  rewrite IH by lia. f_equal. lia.
Qed.

(* entry j of the marginal = total weight of the basis states whose measured wires spell j
   (the unmeasured bits are summed out) *)
Lemma marginal_entry n mw w j : 0 <= j < 2 ^ Z.of_nat (length mw) ->
  nth (Z.to_nat j) (marginal n mw w) 0 =
  sumZ (map snd (filter (fun kw => target n mw (fst kw) =? j) (combine (basis_states n) w))).
Proof.
  intros H. unfold marginal.
  assert (E : nth (Z.to_nat j) (map (marg_entry n mw w) (basis_states (length mw))) 0 = marg_entry n mw w j).
  { unfold basis_states. rewrite map_map. rewrite <- (pow2_nat (length mw)) in H.
    rewrite nth_map_seq by lia. f_equal. lia. }
  rewrite E. unfold marg_entry. rewrite <- sum_if_filter. f_equal. apply map_ext. intros kw.
  rewrite marg_test by exact H. now rewrite Z.eqb_sym.
Qed.

Lemma marginal_length n mw w : length (marginal n mw w) = (2 ^ length mw)%nat.
Proof. unfold marginal. now rewrite map_length, basis_states_length. Qed.

Lemma marg_entry_nonneg n mw w j : Forall (fun x => 0 <= x) w -> 0 <= marg_entry n mw w j.
Proof.
  intros H. unfold marg_entry. apply sumZ_nonneg. apply Forall_forall. intros x Hx.
  apply in_map_iff in Hx as (kw & <- & Hkw). destruct (eq_lb _ _); [|lia].
  destruct kw as [k x]. apply in_combine_r in Hkw. rewrite Forall_forall in H. now apply H.
Qed.

Lemma marginal_nonneg n mw w : Forall (fun x => 0 <= x) w -> Forall (fun x => 0 <= x) (marginal n mw w).
Proof.
  intros H. unfold marginal. apply Forall_forall. intros x Hx. apply in_map_iff in Hx as (j & <- & _).
  now apply marg_entry_nonneg.
Qed.

(* ------------------------------------------------------------------ choice as inverse CDF *)
Definition psum (w : list Z) (k : nat) : Z := sumZ (firstn k w).

Lemma psum_S w : forall k, psum w (S k) = psum w k + nth k w 0.
Proof.
  unfold psum, sumZ. induction w as [|x w IH]; intros k.
  - destruct k; reflexivity.
  - destruct k as [|k]; [cbn; lia|].
    change (firstn (S (S k)) (x :: w)) with (x :: firstn (S k) w).
    change (firstn (S k) (x :: w)) with (x :: firstn k w).
    change (nth (S k) (x :: w) 0) with (nth k w 0).
    cbn [fold_right]. rewrite IH. lia.
Qed.

Lemma psum_cons x w k : psum (x :: w) (S k) = x + psum w k.
Proof. reflexivity. Qed.

Lemma psum_0 w : psum w 0 = 0.
Proof. reflexivity. Qed.

Lemma psum_nonneg w k : Forall (fun x => 0 <= x) w -> 0 <= psum w k.
Proof. intros H. apply sumZ_nonneg. revert k. induction H; intros [|k]; cbn; constructor; auto. Qed.

Lemma psum_all w : psum w (length w) = sumZ w.
Proof. unfold psum. now rewrite firstn_all. Qed.

Section Choice.
  Variable u : Q.
  Variable W : Z.
  (* c/W <= u, cross-multiplied *)
  Definition le_uW (c : Z) : Prop := c * Z.pos (Qden u) <= Qnum u * W.

  Lemma qle_iff c : Qle_bool (inject_Z c) (u * inject_Z W) = true <-> le_uW c.
  Proof.
    rewrite Qle_bool_iff. unfold Qle, Qmult, inject_Z, le_uW. cbn [Qnum Qden].
    rewrite Pos.mul_1_r, Z.mul_1_r. reflexivity.
  Qed.

  Lemma le_uW_mono c c' : c <= c' -> le_uW c' -> le_uW c.
  Proof. unfold le_uW. intros. pose proof (Pos2Z.is_pos (Qden u)). nia. Qed.

  Lemma search_nonneg cum : 0 <= search_right u W cum.
  Proof. induction cum as [|c r IH]; cbn [search_right]; [lia|]. destruct (Qle_bool _ _); lia. Qed.

  Lemma search_spec : forall w acc k, Forall (fun x => 0 <= x) w -> (k < length w)%nat -> le_uW acc ->
    (search_right u W (cumsum_from acc w) = Z.of_nat k <->
     le_uW (acc + psum w k) /\ ~ le_uW (acc + psum w (S k))).
  Proof.
    induction w as [|x w IH]; intros acc k Hw Hk Hacc; [cbn in Hk; lia|].
    inversion Hw as [|? ? Hx Hw']; subst. cbn [cumsum_from search_right].
    pose proof (search_nonneg (cumsum_from (acc + x) w)) as NN.
    destruct (Qle_bool (inject_Z (acc + x)) (u * inject_Z W)) eqn:E.
    - apply qle_iff in E. destruct k as [|k].
      + split; [intros H; lia|]. intros [_ H]. exfalso. apply H.
        rewrite psum_cons, psum_0, Z.add_0_r. exact E.
      + cbn [length] in Hk. specialize (IH (acc + x) k Hw' ltac:(lia) E).
        rewrite !psum_cons, !Z.add_assoc, <- IH. lia.
    - assert (N : ~ le_uW (acc + x)) by (intros H; apply qle_iff in H; congruence).
      destruct k as [|k].
      + split; [|reflexivity]. intros _. rewrite psum_cons, !psum_0, !Z.add_0_r. split; assumption.
      + split; [intros H; lia|]. intros [H _]. exfalso. apply N.
        apply (le_uW_mono _ (acc + psum (x :: w) (S k))); [|assumption].
        rewrite psum_cons. pose proof (psum_nonneg w k Hw'). lia.
  Qed.

  Lemma search_lt : forall w acc, le_uW acc -> ~ le_uW (acc + sumZ w) ->
    0 <= search_right u W (cumsum_from acc w) < Z.of_nat (length w).
  Proof.
    induction w as [|x w IH]; intros acc Ha Hn.
    - exfalso. apply Hn. cbn. now rewrite Z.add_0_r.
    - cbn [cumsum_from search_right length]. destruct (Qle_bool _ _) eqn:E; [|lia].
      apply qle_iff in E. specialize (IH (acc + x) E). cbn [sumZ fold_right] in Hn. fold (sumZ w) in Hn.
      rewrite Z.add_assoc in Hn. specialize (IH Hn). lia.
  Qed.
End Choice.

Definition nonneg (w : list Z) : Prop := Forall (fun x => 0 <= x) w.
Definition unit_interval (u : Q) : Prop := (0 <= u)%Q /\ (u < 1)%Q.

(* cdf_k = (w_0 + ... + w_(k-1)) / W as a rational;  prob_k = w_k / W *)
Definition cdf (w : list Z) (k : nat) : Q := Qmake (psum w k) (Z.to_pos (sumZ w)).
Definition prob (w : list Z) (k : nat) : Q := Qmake (nth k w 0) (Z.to_pos (sumZ w)).

Lemma le_uW_cdf u w k : 0 < sumZ w -> (le_uW u (sumZ w) (psum w k) <-> (cdf w k <= u)%Q).
Proof. intros H. unfold le_uW, cdf, Qle. cbn [Qnum Qden]. rewrite Z2Pos.id by assumption. reflexivity. Qed.

Lemma le_uW_zero u W : (0 <= u)%Q -> 0 <= W -> le_uW u W 0.
Proof. unfold Qle, le_uW. cbn. intros. nia. Qed.

Lemma not_le_uW_total u W : (u < 1)%Q -> 0 < W -> ~ le_uW u W (0 + W).
Proof. unfold Qlt, le_uW. cbn. intros. pose proof (Pos2Z.is_pos (Qden u)). nia. Qed.

(* outcome k  iff  cdf(k) <= u < cdf(k+1)   (cdf(0) = 0) *)
Lemma choice_interval_lemma w u k : nonneg w -> 0 < sumZ w -> (0 <= u)%Q -> (k < length w)%nat ->
  (choice_idx w u = Z.of_nat k <-> (cdf w k <= u)%Q /\ (u < cdf w (S k))%Q).
Proof.
  intros Hw HW Hu Hk. unfold choice_idx.
  rewrite (search_spec u (sumZ w) w 0 k Hw Hk (le_uW_zero u (sumZ w) Hu (Z.lt_le_incl _ _ HW))).
  rewrite !Z.add_0_l, !le_uW_cdf by assumption.
  split; intros [A B]; (split; [assumption|]).
  - now apply Qnot_le_lt.
  - now apply Qlt_not_le.
Qed.

(* the preimage interval of k has length p_k *)
Lemma interval_length_lemma w k : (cdf w (S k) - cdf w k == prob w k)%Q.
Proof.
  unfold cdf, prob, Qeq, Qminus, Qplus, Qopp. cbn [Qnum Qden]. rewrite psum_S, Pos2Z.inj_mul. ring.
Qed.

Lemma choice_total_lemma w u : nonneg w -> 0 < sumZ w -> unit_interval u ->
  exists k, (k < length w)%nat /\ choice_idx w u = Z.of_nat k.
Proof.
  intros Hw HW [Hu0 Hu1]. unfold choice_idx.
  pose proof (search_lt u (sumZ w) w 0 (le_uW_zero u (sumZ w) Hu0 (Z.lt_le_incl _ _ HW)) (not_le_uW_total u _ Hu1 HW)) as R.
  exists (Z.to_nat (search_right u (sumZ w) (cumsum_from 0 w))). split; lia.
Qed.

Lemma choice_unique_lemma w u : nonneg w -> 0 < sumZ w -> unit_interval u ->
  exists! k, (k < length w)%nat /\ (cdf w k <= u)%Q /\ (u < cdf w (S k))%Q.
Proof.
  intros Hw HW Hu. destruct (choice_total_lemma w u Hw HW Hu) as (k & Hk & E).
  exists k. split.
  - split; [assumption|]. now apply (choice_interval_lemma w u k Hw HW (proj1 Hu) Hk).
  - intros k' (Hk' & I). apply (choice_interval_lemma w u k' Hw HW (proj1 Hu) Hk') in I. lia.
Qed.

(* a zero-probability outcome is never selected *)
Lemma choice_positive_lemma w u k : nonneg w -> 0 < sumZ w -> (0 <= u)%Q -> (k < length w)%nat ->
  choice_idx w u = Z.of_nat k -> 0 < nth k w 0.
Proof.
  intros Hw HW Hu Hk E. apply (choice_interval_lemma w u k Hw HW Hu Hk) in E as [A B].
  pose proof (Qle_lt_trans _ _ _ A B) as C. unfold cdf, Qlt in C. cbn [Qnum Qden] in C.
  rewrite psum_S in C. pose proof (Pos2Z.is_pos (Z.to_pos (sumZ w))). nia.
Qed.

(* ------------------------------------------------------------------ counts *)
Lemma count_eq_cons k v vals : count_eq k (v :: vals) = (if k =? v then 1 else 0) + count_eq k vals.
Proof. unfold count_eq, lenZ. cbn [filter]. destruct (k =? v); cbn [length]; lia. Qed.

Lemma count_eq_nonneg k vals : 0 <= count_eq k vals.
Proof. unfold count_eq, lenZ. lia. Qed.

Lemma indicator_nodup v keys : NoDup keys ->
  sumZ (map (fun k => if k =? v then 1 else 0) keys) = if existsb (Z.eqb v) keys then 1 else 0.
Proof.
  induction 1 as [|x keys Hx ND IH]; [reflexivity|]. cbn [map sumZ fold_right existsb].
  fold (sumZ (map (fun k => if k =? v then 1 else 0) keys)). rewrite IH.
  destruct (Z.eqb_spec x v) as [->|N].
  - rewrite Z.eqb_refl. cbn. destruct (existsb (Z.eqb v) keys) eqn:E; [|lia].
    apply existsb_exists in E as (y & Hy & E). apply Z.eqb_eq in E. subst. contradiction.
  - destruct (Z.eqb_spec v x); [congruence|]. cbn. lia.
Qed.

Lemma counts_sum keys vals : NoDup keys -> Forall (fun v => In v keys) vals ->
  sumZ (map (fun k => count_eq k vals) keys) = lenZ vals.
Proof.
  intros ND. induction 1 as [|v vals Hv _ IH]; [unfold count_eq; cbn; apply sumZ_map_zero|].
  rewrite (map_ext _ (fun k => (if k =? v then 1 else 0) + count_eq k vals)) by (intros; apply count_eq_cons).
  rewrite (sumZ_map_add (fun k => if k =? v then 1 else 0)), IH, indicator_nodup by assumption.
  assert (E : existsb (Z.eqb v) keys = true) by (apply existsb_exists; exists v; split; [assumption | apply Z.eqb_refl]).
  rewrite E. unfold lenZ. cbn [length]. lia.
Qed.

Lemma filter_keeps_sum all l : Forall (fun kc : Z * Z => 0 <= snd kc) l ->
  sumZ (map snd (filter (fun kc => all || (0 <? snd kc)) l)) = sumZ (map snd l).
Proof.
  induction 1 as [|kc l H _ IH]; [reflexivity|]. cbn [filter].
  destruct (all || (0 <? snd kc)) eqn:E; cbn [map sumZ fold_right]; fold (sumZ (map snd l)).
  - fold (sumZ (map snd (filter (fun kc => all || (0 <? snd kc)) l))). lia.
  - apply orb_false_elim in E as [_ E]. apply Z.ltb_ge in E. lia.
Qed.

Lemma counts_over_total keys all vals : NoDup keys -> Forall (fun v => In v keys) vals ->
  sumZ (map snd (counts_over keys all vals)) = lenZ vals.
Proof.
  intros ND Hv. unfold counts_over. rewrite filter_keeps_sum.
  - rewrite map_map. cbn [snd]. now apply counts_sum.
  - apply Forall_forall. intros kc H. apply in_map_iff in H as (k & <- & _). apply count_eq_nonneg.
Qed.

Lemma basis_states_nodup m : NoDup (basis_states m).
Proof.
  unfold basis_states. apply Injective_map_NoDup; [|apply seq_NoDup].
  intros a b. apply Nat2Z.inj.
Qed.

Definition cols (n : nat) (ws : list nat) : nat := match ws with [] => n | _ => length ws end.

Lemma sel_rows_length n ws rows : Forall (fun r => length r = n) rows ->
  Forall (fun r => length r = cols n ws) (sel_rows ws rows).
Proof.
  intros H. destruct ws as [|a ws]; [exact H|]. unfold sel_rows, cols.
  apply Forall_forall. intros r Hr. apply in_map_iff in Hr as (r0 & <- & _). apply select_length.
Qed.

Lemma sel_rows_count ws rows : length (sel_rows ws rows) = length rows.
Proof. destruct ws; [reflexivity | apply map_length]. Qed.

Lemma counts_total_lemma n ws all rows l : Forall (fun r => length r = n) rows ->
  process n (MCounts ws all) rows = RCounts l -> sumZ (map snd l) = lenZ rows.
Proof.
  intros H E. cbn [process] in E. injection E as <-. fold (cols n ws).
  rewrite counts_over_total.
  - unfold lenZ. now rewrite map_length, sel_rows_count.
  - apply basis_states_nodup.
  - apply Forall_forall. intros v Hv. apply in_map_iff in Hv as (r & <- & Hr).
    apply basis_states_in. pose proof (sel_rows_length n ws rows H) as F. rewrite Forall_forall in F.
    rewrite <- (F r Hr). apply index_range.
Qed.

(* ------------------------------------------------------------------ eigenvalue samples *)
Lemma eig_valid_lemma eigs bs : length eigs = (2 ^ length bs)%nat -> In (eig_of eigs bs) eigs.
Proof.
  intros L. unfold eig_of. destruct (eq_lz eigs [1; -1]) eqn:E.
  - apply eq_lz_eq in E. subst eigs. destruct (hd false bs); cbn; auto.
  - apply nth_In. pose proof (index_range bs) as R. rewrite <- (pow2_nat (length bs)) in R. lia.
Qed.

Lemma eig_samples_valid_lemma n ws eigs rows l : Forall (fun r => length r = n) rows ->
  length eigs = (2 ^ cols n ws)%nat ->
  process n (MSampleObs ws eigs) rows = REig l -> Forall (fun v => In v eigs) l /\ length l = length rows.
Proof.
  intros H L E. cbn [process] in E. injection E as <-. split.
  - apply Forall_forall. intros v Hv. apply in_map_iff in Hv as (r & <- & Hr).
    pose proof (sel_rows_length n ws rows H) as F. rewrite Forall_forall in F.
    apply eig_valid_lemma. now rewrite (F r Hr).
  - now rewrite map_length, sel_rows_count.
Qed.

(* counts of an observable: keys are the distinct eigenvalues *)
Fixpoint strict_sorted (l : list Z) : Prop :=
  match l with a :: ((b :: _) as r) => a < b /\ strict_sorted r | _ => True end.

Lemma insert_u_in x l y : In y (insert_u x l) <-> y = x \/ In y l.
Proof.
  induction l as [|a l IH]; cbn [insert_u]; [cbn; intuition|].
  destruct (Z.ltb_spec x a); [cbn; intuition|]. destruct (Z.eqb_spec x a) as [->|]; [cbn; intuition|].
  cbn [In]. rewrite IH. intuition.
Qed.

Lemma insert_u_sorted x l : strict_sorted l -> strict_sorted (insert_u x l).
Proof.
  induction l as [|a l IH]; intros S; [exact I|]. cbn [insert_u].
  destruct (Z.ltb_spec x a); [cbn; auto|]. destruct (Z.eqb_spec x a); [assumption|].
  assert (S' : strict_sorted l) by (destruct l; [exact I | apply S]).
  specialize (IH S'). destruct l as [|b l]; [cbn; split; [lia | exact I]|].
  cbn [insert_u] in *. destruct S as [Hab _].
  destruct (Z.ltb_spec x b); [cbn; repeat split; try lia; apply IH|].
  destruct (Z.eqb_spec x b); [cbn; split; [lia | apply IH]|]. cbn. split; [lia | exact IH].
Qed.

Lemma sorted_tail a l : strict_sorted (a :: l) -> strict_sorted l.
Proof. destruct l; [intros; exact I | intros [_ H]; exact H]. Qed.

Lemma sorted_head_lt : forall l a y, strict_sorted (a :: l) -> In y l -> a < y.
Proof.
  induction l as [|b l IH]; intros a y S Hy; [contradiction|].
  destruct S as [Hab S]. destruct Hy as [->|Hy]; [exact Hab|]. pose proof (IH b y S Hy). lia.
Qed.

Lemma strict_sorted_nodup l : strict_sorted l -> NoDup l.
Proof.
  induction l as [|a l IH]; intros S; [constructor|].
  constructor; [|apply IH; eapply sorted_tail; eassumption].
  intros Hin. pose proof (sorted_head_lt l a a S Hin). lia.
Qed.

Lemma sort_dedupe_in l y : In y (sort_dedupe l) <-> In y l.
Proof. induction l as [|x l IH]; [reflexivity|]. cbn [sort_dedupe fold_right]. fold (sort_dedupe l). rewrite insert_u_in, IH. cbn. intuition. Qed.

Lemma sort_dedupe_sorted l : strict_sorted (sort_dedupe l).
Proof. induction l as [|x l IH]; [exact I|]. cbn [sort_dedupe fold_right]. fold (sort_dedupe l). now apply insert_u_sorted. Qed.

Lemma counts_obs_total_lemma n ws eigs all rows l : Forall (fun r => length r = n) rows ->
  length eigs = (2 ^ cols n ws)%nat ->
  process n (MCountsObs ws eigs all) rows = RCounts l ->
  sumZ (map snd l) = lenZ rows /\ Forall (fun kc => In (fst kc) eigs) l.
Proof.
  intros H L E. cbn [process] in E. injection E as <-. split.
  - rewrite counts_over_total.
    + unfold lenZ. now rewrite map_length, sel_rows_count.
    + apply strict_sorted_nodup, sort_dedupe_sorted.
    + apply Forall_forall. intros v Hv. apply in_map_iff in Hv as (r & <- & Hr). apply sort_dedupe_in.
      pose proof (sel_rows_length n ws rows H) as F. rewrite Forall_forall in F.
      apply eig_valid_lemma. now rewrite (F r Hr).
  - unfold counts_over. apply Forall_forall. intros kc Hkc. apply filter_In in Hkc as [Hkc _].
    apply in_map_iff in Hkc as (k & <- & Hk). cbn [fst]. now apply sort_dedupe_in.
Qed.

(* ------------------------------------------------------------------ shot bins *)
Lemma bins_same_as_C44 l : forall lb, bins_from lb l = Disc.ShotsModel.bins_from lb l.
Proof. induction l as [|s l IH]; intros lb; cbn; [reflexivity | now rewrite IH]. Qed.

Lemma firstn_add_skipn {A} : forall x y (l : list A), firstn (x + y) l = firstn x l ++ firstn y (skipn x l).
Proof.
  induction x as [|x IH]; intros y l; [reflexivity|]. destruct l as [|a l]; cbn.
  - now rewrite firstn_nil.
  - now rewrite IH.
Qed.

Lemma skipn_add {A} : forall x y (l : list A), skipn (x + y) l = skipn y (skipn x l).
Proof. induction x as [|x IH]; intros y l; [reflexivity|]. destruct l as [|a l]; cbn; [now rewrite skipn_nil | apply IH]. Qed.

Lemma slice_app {A} (rows : list A) a b c : 0 <= a <= b -> b <= c ->
  slice rows (a, b) ++ slice rows (b, c) = slice rows (a, c).
Proof.
  intros H1 H2. unfold slice. cbn [fst snd].
  replace (Z.to_nat (c - a)) with (Z.to_nat (b - a) + Z.to_nat (c - b))%nat by lia.
  rewrite firstn_add_skipn. f_equal. f_equal. rewrite <- skipn_add. f_equal. lia.
Qed.

Lemma bins_concat {A} (rows : list A) : forall sv lb, nonneg sv -> 0 <= lb ->
  concat (map (slice rows) (bins_from lb sv)) = slice rows (lb, lb + sumZ sv).
Proof.
  induction sv as [|s sv IH]; intros lb H Hlb.
  - cbn. unfold slice. cbn [fst snd]. now replace (lb + 0 - lb) with 0 by lia.
  - inversion H; subst. cbn [bins_from map concat]. rewrite IH by (assumption || lia).
    pose proof (sumZ_nonneg sv ltac:(assumption)).
    rewrite slice_app by lia. cbn [sumZ fold_right]. fold (sumZ sv). f_equal. f_equal. lia.
Qed.

Lemma bins_sizes {A} (rows : list A) : forall sv lb, nonneg sv -> 0 <= lb -> lb + sumZ sv <= lenZ rows ->
  map (fun b => lenZ (slice rows b)) (bins_from lb sv) = sv.
Proof.
  induction sv as [|s sv IH]; intros lb H Hlb Hlen; [reflexivity|].
  inversion H; subst. cbn [sumZ fold_right] in Hlen. fold (sumZ sv) in Hlen.
  pose proof (sumZ_nonneg sv ltac:(assumption)).
  cbn [bins_from map]. rewrite IH by (assumption || lia). f_equal.
  unfold slice, lenZ in *. cbn [fst snd]. rewrite firstn_length, skipn_length. lia.
Qed.

Lemma bins_partition_lemma {A} (rows : list A) sv : nonneg sv -> lenZ rows = sumZ sv ->
  concat (map (slice rows) (bins_from 0 sv)) = rows /\
  map (fun b => lenZ (slice rows b)) (bins_from 0 sv) = sv /\
  length (bins_from 0 sv) = length sv.
Proof.
  intros H L. split; [|split].
  - rewrite bins_concat by (assumption || lia). unfold slice. cbn [fst snd skipn].
    rewrite Z.add_0_l, Z.sub_0_r, <- L. unfold lenZ. rewrite Nat2Z.id. apply firstn_all.
  - apply bins_sizes; (assumption || lia).
  - clear. generalize 0. induction sv; intros; cbn; [reflexivity | now rewrite IHsv].
Qed.

(* ------------------------------------------------------------------ end to end: sample_state *)
Lemma map_opt_some {A B} (f : A -> option B) : forall l r, map_opt f l = Some r ->
  length r = length l /\ forall y, In y r -> exists x, In x l /\ f x = Some y.
Proof.
  induction l as [|x l IH]; intros r H; cbn in H.
  - injection H as <-. split; [reflexivity | intros y []].
  - destruct (f x) eqn:E; [|discriminate]. destruct (map_opt f l) eqn:E2; [|discriminate].
    injection H as <-. destruct (IH _ eq_refl) as [IL IH']. split; [cbn; now rewrite IL|].
    intros y [<-|Hy]; [exists x; split; [left; reflexivity | assumption]|].
    destruct (IH' y Hy) as (x0 & ? & ?). exists x0. split; [right; assumption | assumption].
Qed.

Lemma in_firstn {A} (x : A) : forall n l, In x (firstn n l) -> In x l.
Proof.
  induction n as [|n IH]; intros l H; [contradiction|]. destruct l as [|a l]; [contradiction|].
  destruct H as [->|H]; [left; reflexivity | right; now apply IH].
Qed.

Lemma nth_error_basis m i k : nth_error (basis_states m) i = Some k -> k = Z.of_nat i /\ (i < 2 ^ m)%nat.
Proof.
  intros H. assert (Hi : (i < 2 ^ m)%nat).
  { rewrite <- basis_states_length. apply nth_error_Some. congruence. }
  split; [|assumption]. unfold basis_states in H. rewrite nth_error_map in H.
  rewrite (nth_error_nth' _ 0%nat) in H by (rewrite seq_length; assumption).
  rewrite seq_nth in H by assumption. cbn in H. congruence.
Qed.

Lemma sample_probs_valid_lemma be D p shots m us rows rest :
  0 <= shots -> 0 < sumZ p -> Forall unit_interval us ->
  sample_probs be D p shots m us = Ok (rows, rest) ->
  lenZ rows = shots /\ rest = skipn (Z.to_nat shots) us /\
  Forall (fun row => length row = m /\ 0 < nth (Z.to_nat (index_of_bits row)) p 0) rows.
Proof.
  intros Hs HW Hu. unfold sample_probs.
  destruct (match be with BNumpy => tol_bad D (sumZ p) | BJax => false end); [discriminate|].
  destruct (forallb (fun x => 0 <=? x) p) eqn:Hp; [|discriminate]. cbn [negb].
  destruct (length p =? 2 ^ m)%nat eqn:Hl; [|discriminate]. cbn [negb]. apply Nat.eqb_eq in Hl.
  destruct (lenZ us <? shots) eqn:Hn; [discriminate|]. apply Z.ltb_ge in Hn.
  destruct (map_opt _ _) as [ks|] eqn:E; [|discriminate]. intros H. injection H as <- <-.
  apply map_opt_some in E as [EL EI].
  assert (Hw : nonneg p).
  { apply Forall_forall. intros x Hx. rewrite forallb_forall in Hp. specialize (Hp x Hx). lia. }
  split; [|split; [reflexivity|]].
  - unfold lenZ in *. rewrite map_length, EL, firstn_length. lia.
  - apply Forall_forall. intros row Hrow. apply in_map_iff in Hrow as (k & <- & Hk).
    split; [apply bits_length|].
    destruct (EI k Hk) as (u & Hu_in & Hc). unfold choice_one in Hc.
    apply nth_error_basis in Hc as [Hk1 Hk2].
    assert (UI : unit_interval u).
    { rewrite Forall_forall in Hu. apply Hu. eapply in_firstn; eassumption. }
    destruct (choice_total_lemma p u Hw HW UI) as (i & Hi & Ei).
    rewrite Ei, Nat2Z.id in Hk1, Hk2. subst k.
    rewrite index_of_bits_of_index by (rewrite <- (pow2_nat m); lia).
    rewrite Nat2Z.id. apply (choice_positive_lemma p u i Hw HW (proj1 UI) Hi Ei).
Qed.

Definition wires_or_all (n : nat) (wires : list nat) : list nat := match wires with [] => seq 0 n | _ => wires end.

Lemma sample_state_valid_lemma be n D w wires shots us rows rest :
  0 <= shots -> 0 < sumZ w -> Forall unit_interval us ->
  sample_state be n D w wires shots us = Ok (rows, rest) ->
  lenZ rows = shots /\
  Forall (fun row => length row = length (wires_or_all n wires) /\
                     0 < nth (Z.to_nat (index_of_bits row)) (marginal n (wires_or_all n wires) w) 0) rows.
Proof.
  intros Hs HW Hu. unfold sample_state. fold (wires_or_all n wires).
  destruct (length w =? 2 ^ n)%nat eqn:Hl; [|discriminate]. cbn [negb]. apply Nat.eqb_eq in Hl.
  destruct (forallb _ _ && all_distinct _); [|discriminate]. cbn [negb]. intros H.
  apply sample_probs_valid_lemma in H; [| assumption | now rewrite marginal_total | assumption].
  destruct H as (A & _ & B). split; assumption.
Qed.

(* one measurement group: the sample array has sum(sv) rows of n bits and is cut at C44's bins *)
Lemma measure_structure_lemma be n D w sv mps us part bins :
  nonneg sv -> 0 < sumZ w -> Forall unit_interval us ->
  measure be n D w sv mps us = Ok (part, bins) ->
  part = (1 <? lenZ sv) /\
  exists rows, lenZ rows = sumZ sv /\ Forall (fun r => length r = n) rows /\
               bins = map (fun b => map (fun m => process n m (slice rows b)) mps) (bins_from 0 sv).
Proof.
  intros Hsv HW Hu. unfold measure.
  destruct (sample_state be n D w [] (sumZ sv) us) as [[rows rest]|] eqn:E; [|discriminate].
  intros H. injection H as <- <-. split; [reflexivity|]. exists rows.
  apply sample_state_valid_lemma in E; [| now apply sumZ_nonneg | assumption | assumption].
  destruct E as [A B]. split; [assumption|]. split; [|reflexivity].
  eapply Forall_impl; [|exact B]. cbn. intros r [Hr _]. now rewrite seq_length in Hr.
Qed.

Lemma slice_rows_length {A} (P : A -> Prop) rows b : Forall P rows -> Forall P (slice rows b).
Proof.
  intros H. apply Forall_forall. intros x Hx. unfold slice in Hx. apply in_firstn in Hx.
  rewrite Forall_forall in H. apply H. clear - Hx. revert Hx. generalize (Z.to_nat (fst b)).
  intros k. revert rows. induction k as [|k IH]; intros rows Hx; [exact Hx|].
  destruct rows as [|a rows]; [contradiction|]. right. now apply IH.
Qed.

(* every counts dictionary of bin i totals the i-th entry of the shot vector *)
Lemma measure_counts_lemma be n D w sv mps us part bins :
  nonneg sv -> 0 < sumZ w -> Forall unit_interval us ->
  measure be n D w sv mps us = Ok (part, bins) ->
  length bins = length sv /\
  forall i s bin j ws all l, nth_error sv i = Some s -> nth_error bins i = Some bin ->
    nth_error mps j = Some (MCounts ws all) -> nth_error bin j = Some (RCounts l) ->
    sumZ (map snd l) = s.
Proof.
  intros Hsv HW Hu H. apply measure_structure_lemma in H as (_ & rows & HL & HR & ->); try assumption.
  destruct (bins_partition_lemma rows sv Hsv HL) as (_ & Sz & Len).
  split; [now rewrite map_length|].
  intros i s bin j ws all l Hs Hb Hm Hr.
  rewrite nth_error_map in Hb. destruct (nth_error (bins_from 0 sv) i) as [b|] eqn:Eb; [|discriminate].
  cbn in Hb. injection Hb as <-.
  rewrite nth_error_map, Hm in Hr.
  assert (Hr' : process n (MCounts ws all) (slice rows b) = RCounts l) by (cbn [option_map] in Hr; congruence).
  apply counts_total_lemma in Hr'; [|now apply slice_rows_length].
  rewrite Hr'. assert (E : nth_error (map (fun b => lenZ (slice rows b)) (bins_from 0 sv)) i = Some (lenZ (slice rows b))).
  { rewrite nth_error_map, Eb. reflexivity. }
  rewrite Sz, Hs in E. congruence.
Qed.
