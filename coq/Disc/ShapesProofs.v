(* Lemmas about the result-structure model (property C32). *)
From Coq Require Import List ZArith Bool Lia.
From PLV Require Import Disc.ShapesModel.
Import ListNotations.
Open Scope Z_scope.

(* ---------- specification-level vocabulary used by the statements ---------- *)

(* subtree at a path of tuple indices *)
Fixpoint get (t : tree) (p : list nat) : option tree :=
  match p with
  | [] => Some t
  | i :: q => match t with
              | Tup l => match nth_error l i with Some c => get c q | None => None end
              | _ => None
              end
  end.

(* what broadcasting does to a structure: one leading axis per array leaf; a counts dictionary
   becomes a tuple of b dictionaries *)
Fixpoint add_batch (b : Z) (t : tree) : tree :=
  match t with
  | Leaf d => Leaf (b :: d)
  | Opaque => Tup (repeat_t Opaque (Z.to_nat b))
  | Tup l => Tup (map (add_batch b) l)
  end.

Definition differentiable (m : mkind) : Prop := m <> KCounts.

(* induction principle with the Forall hypothesis for the nested list *)
Fixpoint tree_ind' (P : tree -> Prop) (HL : forall d, P (Leaf d)) (HO : P Opaque)
         (HT : forall l, Forall P l -> P (Tup l)) (t : tree) : P t :=
  match t with
  | Leaf d => HL d
  | Opaque => HO
  | Tup l => HT l ((fix go (l : list tree) : Forall P l :=
                      match l with
                      | [] => Forall_nil P
                      | x :: r => Forall_cons x (tree_ind' P HL HO HT x) (go r)
                      end) l)
  end.

(* ---------- all_some ---------- *)
Lemma all_some_length : forall A (l : list (option A)) r, all_some l = Some r -> length r = length l.
Proof.
  induction l as [|x l IH]; intros r H; cbn in H.
  - inversion H; reflexivity.
  - destruct x; [|discriminate]. destruct (all_some l) eqn:E; [|discriminate].
    inversion H; subst; cbn; f_equal; apply IH; reflexivity.
Qed.

Lemma all_some_Forall2 : forall A B (f : A -> option B) l r,
  all_some (map f l) = Some r -> Forall2 (fun x y => f x = Some y) l r.
Proof.
  induction l as [|x l IH]; intros r H; cbn in H.
  - inversion H; constructor.
  - destruct (f x) eqn:Ex; [|discriminate]. destruct (all_some (map f l)) eqn:E; [|discriminate].
    inversion H; subst. constructor; auto.
Qed.

Lemma all_some_map_opt : forall A B C (g : A -> option B) (f : B -> C) l,
  all_some (map (fun x => option_map f (g x)) l) = option_map (map f) (all_some (map g l)).
Proof.
  induction l as [|x l IH]; cbn; [reflexivity|].
  destruct (g x); cbn; [|reflexivity]. rewrite IH. destruct (all_some (map g l)); reflexivity.
Qed.

Lemma all_some_ext : forall A B (f g : A -> option B) l,
  (forall x, f x = g x) -> all_some (map f l) = all_some (map g l).
Proof. intros; f_equal; apply map_ext; auto. Qed.

(* ---------- single shot copy ---------- *)
Lemma shots_iter_single_not_partitioned : forall sp s, shots_iter sp = [s] -> partitioned sp = false.
Proof.
  intros [|l] s H; cbn in *; [reflexivity|].
  destruct l as [|a [|b r]]; cbn in H; try discriminate. reflexivity.
Qed.

Lemma result_single_copy : forall sp n B ms s, shots_iter sp = [s] ->
  result_shape (mkReq sp n B ms) = per_shot n B ms s.
Proof.
  intros sp n B ms s H. unfold result_shape; cbn [r_wires r_batch r_mps r_shots].
  rewrite H, (shots_iter_single_not_partitioned _ _ H). cbn.
  destruct (per_shot n B ms s); reflexivity.
Qed.

Lemma unwrap_single_l : forall sp n B m s, shots_iter sp = [s] ->
  result_shape (mkReq sp n B [m]) = struct n B s m.
Proof.
  intros. rewrite (result_single_copy _ _ _ _ _ H). unfold per_shot; cbn.
  destruct (struct n B s m); reflexivity.
Qed.

Lemma tuple_multi_l : forall sp n B ms s, shots_iter sp = [s] -> length ms <> 1%nat ->
  (forall ts, all_some (map (struct n B s) ms) = Some ts ->
     result_shape (mkReq sp n B ms) = Some (Tup ts) /\ length ts = length ms /\
     Forall2 (fun m t => struct n B s m = Some t) ms ts) /\
  (all_some (map (struct n B s) ms) = None -> result_shape (mkReq sp n B ms) = None).
Proof.
  intros sp n B ms s H Hl. rewrite (result_single_copy _ _ _ _ _ H). unfold per_shot. split.
  - intros ts E. rewrite E. pose proof (all_some_length _ _ _ E) as L. rewrite map_length in L.
    repeat split; auto.
    + destruct ts as [|a [|b r]]; try reflexivity. cbn in L. congruence.
    + apply all_some_Forall2; assumption.
  - intros E; rewrite E; reflexivity.
Qed.

(* ---------- shot vectors ---------- *)
Lemma shot_vector_outer_l : forall l n B ms, (1 < length l)%nat ->
  result_shape (mkReq (ShotList l) n B ms) =
  match all_some (map (fun s => result_shape (mkReq (ShotList [s]) n B ms)) l) with
  | None => None
  | Some cs => Some (Tup cs)
  end.
Proof.
  intros l n B ms H. unfold result_shape at 1; cbn [r_wires r_batch r_mps r_shots shots_iter partitioned].
  rewrite map_map.
  rewrite (all_some_ext _ _ (fun s => result_shape (mkReq (ShotList [s]) n B ms))
                        (fun s => per_shot n B ms (Some s))).
  2:{ intros s. apply result_single_copy. reflexivity. }
  replace (1 <? Z.of_nat (length l)) with true by (symmetry; apply Z.ltb_lt; lia).
  reflexivity.
Qed.

Lemma shot_vector_len : forall l n B ms cs,
  all_some (map (fun s => result_shape (mkReq (ShotList [s]) n B ms)) l) = Some cs ->
  length cs = length l /\ Forall2 (fun s c => result_shape (mkReq (ShotList [s]) n B ms) = Some c) l cs.
Proof.
  intros l n B ms cs H. split.
  - rewrite (all_some_length _ _ _ H), map_length; reflexivity.
  - apply all_some_Forall2 with (f := fun s => result_shape (mkReq (ShotList [s]) n B ms)); assumption.
Qed.

(* ---------- broadcasting ---------- *)
Lemma struct_batch : forall n b s m, b <> 0 ->
  struct n (Some b) s m = option_map (add_batch b) (struct n None s m).
Proof.
  intros n b s m Hb. assert (E : (b =? 0) = false) by (apply Z.eqb_neq; assumption).
  destruct m; cbn [struct]; rewrite ?E; try reflexivity;
    destruct (mp_shape s n _); reflexivity.
Qed.

Lemma unwrap_map : forall (f : tree -> tree) ts, (forall l, f (Tup l) = Tup (map f l)) ->
  match map f ts with [t] => t | _ => Tup (map f ts) end = f (match ts with [t] => t | _ => Tup ts end).
Proof.
  intros f ts Hf. destruct ts as [|a [|b r]]; cbn; try reflexivity; rewrite Hf; reflexivity.
Qed.

Lemma per_shot_batch : forall n b ms s, b <> 0 ->
  per_shot n (Some b) ms s = option_map (add_batch b) (per_shot n None ms s).
Proof.
  intros n b ms s Hb. unfold per_shot.
  rewrite (all_some_ext _ _ (struct n (Some b) s) (fun m => option_map (add_batch b) (struct n None s m)))
    by (intros; apply struct_batch; assumption).
  rewrite all_some_map_opt. destruct (all_some (map (struct n None s) ms)) as [ts|]; cbn; [|reflexivity].
  f_equal. apply unwrap_map. reflexivity.
Qed.

Lemma broadcast_l : forall sp n b ms, b <> 0 ->
  result_shape (mkReq sp n (Some b) ms) = option_map (add_batch b) (result_shape (mkReq sp n None ms)).
Proof.
  intros sp n b ms Hb. unfold result_shape; cbn [r_wires r_batch r_mps r_shots].
  rewrite (all_some_ext _ _ (per_shot n (Some b) ms) (fun s => option_map (add_batch b) (per_shot n None ms s)))
    by (intros; apply per_shot_batch; assumption).
  rewrite all_some_map_opt.
  destruct (all_some (map (per_shot n None ms) (shots_iter sp))) as [cs|]; cbn; [|reflexivity].
  destruct (partitioned sp); cbn; [reflexivity|]. destruct cs; reflexivity.
Qed.

Lemma no_broadcast_zero : forall sp n ms,
  result_shape (mkReq sp n (Some 0) ms) = result_shape (mkReq sp n None ms).
Proof.
  intros. unfold result_shape; cbn [r_wires r_batch r_mps r_shots].
  rewrite (all_some_ext _ _ (per_shot n (Some 0) ms) (per_shot n None ms)); [reflexivity|].
  intros s. unfold per_shot. rewrite (all_some_ext _ _ (struct n (Some 0) s) (struct n None s)); [reflexivity|].
  intros m; destruct m; reflexivity.
Qed.

(* ---------- batches of circuits ---------- *)
Lemma batch_outer_l : forall rs ts, batch_shape rs = Some (Tup ts) ->
  length ts = length rs /\ Forall2 (fun r t => result_shape r = Some t) rs ts.
Proof.
  intros rs ts H. unfold batch_shape in H. destruct (all_some (map result_shape rs)) as [l|] eqn:E; [|discriminate].
  inversion H; subst. split.
  - rewrite (all_some_length _ _ _ E), map_length; reflexivity.
  - apply all_some_Forall2; assumption.
Qed.

(* ---------- Jacobians ---------- *)
Lemma get_jac : forall ps p t u, get t p = Some u -> get (jac_tree ps t) p = Some (jac_tree ps u).
Proof.
  induction p as [|i q IH]; intros t u H; cbn in *.
  - inversion H; reflexivity.
  - destruct t as [d| |l]; try discriminate. cbn [jac_tree get].
    destruct (nth_error l i) as [c|] eqn:E; [|discriminate].
    rewrite (map_nth_error (jac_tree ps) _ _ E). apply IH; assumption.
Qed.

Lemma get_app : forall p q t, get t (p ++ q) = match get t p with Some u => get u q | None => None end.
Proof.
  induction p as [|i p IH]; intros q t; cbn; [reflexivity|].
  destruct t as [d| |l]; try reflexivity. destruct (nth_error l i); [apply IH|reflexivity].
Qed.

Lemma jac_shape_is_map : forall r ps, jac_shape r ps = option_map (jac_tree ps) (result_shape r).
Proof. intros; unfold jac_shape; destruct (result_shape r); reflexivity. Qed.

Lemma jac_nesting_l : forall ps t path,
  (forall d, get t path = Some (Leaf d) ->
     (forall p, ps = [p] -> get (jac_tree ps t) path = Some (Leaf (d ++ p))) /\
     (length ps <> 1%nat ->
        (exists l', get (jac_tree ps t) path = Some (Tup l') /\ length l' = length ps) /\
        forall i p, nth_error ps i = Some p -> get (jac_tree ps t) (path ++ [i]) = Some (Leaf (d ++ p)))) /\
  (forall l, get t path = Some (Tup l) ->
     exists l', get (jac_tree ps t) path = Some (Tup l') /\ length l' = length l) /\
  (get t path = Some Opaque -> get (jac_tree ps t) path = Some Opaque).
Proof.
  intros ps t path. repeat split.
  - intros p Hp. rewrite (get_jac ps _ _ _ H). subst; reflexivity.
  - rewrite (get_jac ps _ _ _ H). cbn [jac_tree]. unfold jac_leaf.
    destruct ps as [|a [|b r]]; try (cbn in H0; congruence); eexists; split; try reflexivity;
      rewrite map_length; reflexivity.
  - intros i p Hi. rewrite get_app, (get_jac ps _ _ _ H). cbn [jac_tree].
    assert (E : jac_leaf d ps = Tup (map (fun p => Leaf (d ++ p)) ps)).
    { unfold jac_leaf. destruct ps as [|a [|b r]]; try reflexivity. cbn in H0; congruence. }
    rewrite E. cbn [get]. rewrite (map_nth_error _ _ _ Hi). reflexivity.
  - intros l H. rewrite (get_jac ps _ _ _ H). cbn [jac_tree]. eexists; split; [reflexivity|apply map_length].
  - intros H. rewrite (get_jac ps _ _ _ H). reflexivity.
Qed.

(* one scalar parameter: the Jacobian has exactly the structure of the result *)
Lemma jac_tree_one_scalar : forall t, jac_tree [[]] t = t.
Proof.
  apply tree_ind'; cbn; intros.
  - rewrite app_nil_r; reflexivity.
  - reflexivity.
  - f_equal. induction H; cbn; [reflexivity|]. rewrite H, IHForall; reflexivity.
Qed.

Fixpoint nils (P : nat) : list (list Z) := match P with O => [] | S k => [] :: nils k end.

Lemma map_nils : forall d P, map (fun p : list Z => Leaf (d ++ p)) (nils P) = repeat_t (Leaf d) P.
Proof. induction P; cbn; [reflexivity|]. rewrite app_nil_r, IHP; reflexivity. Qed.

Lemma jac_leaf_nils : forall d P, P <> 1%nat -> jac_leaf d (nils P) = Tup (repeat_t (Leaf d) P).
Proof.
  intros d P HP. unfold jac_leaf. destruct P as [|[|k]]; try congruence; cbn [nils].
  - reflexivity.
  - rewrite <- map_nils. reflexivity.
Qed.

Lemma struct_leaf : forall n B s m t, differentiable m -> struct n B s m = Some t -> exists d, t = Leaf d.
Proof.
  intros n B s m t Hm H. destruct m; try (exfalso; apply Hm; reflexivity);
    cbn [struct] in H; destruct (mp_shape s n _); inversion H; eexists; reflexivity.
Qed.

(* _jac_shape_dtype_struct agrees with the convention whenever it can be reached (no shot vector) *)
Lemma jac_struct_agrees_l : forall sp n B ms s P, shots_iter sp = [s] -> Forall differentiable ms ->
  result_shape (mkReq sp n B ms) <> None ->
  jac_struct (mkReq sp n B ms) P = jac_shape (mkReq sp n B ms) (nils P).
Proof.
  intros sp n B ms s P Hs Hd Hne. unfold jac_struct, jac_shape. cbn [r_mps].
  rewrite (result_single_copy _ _ _ _ _ Hs) in *. unfold per_shot in *.
  destruct (all_some (map (struct n B s) ms)) as [ts|] eqn:E; [|congruence].
  pose proof (all_some_Forall2 _ _ _ _ _ E) as F2.
  pose proof (all_some_length _ _ _ E) as L. rewrite map_length in L.
  assert (Hleaf : Forall (fun t => exists d, t = Leaf d) ts).
  { clear - F2 Hd. induction F2; constructor.
    - inversion Hd; subst. eapply struct_leaf; eauto.
    - apply IHF2. inversion Hd; assumption. }
  destruct (Nat.eqb P 1) eqn:EP.
  - apply Nat.eqb_eq in EP; subst P. cbn [nils]. rewrite jac_tree_one_scalar. reflexivity.
  - apply Nat.eqb_neq in EP. destruct (Nat.eqb (length ms) 1) eqn:EL.
    + apply Nat.eqb_eq in EL. destruct ts as [|a [|b r]]; cbn in L; try congruence.
      inversion Hleaf as [|? ? [d Hd'] _]; subst. cbn [jac_tree]. rewrite jac_leaf_nils by assumption. reflexivity.
    + apply Nat.eqb_neq in EL. destruct ts as [|a [|b r]].
      * reflexivity.
      * cbn in L; congruence.
      * cbn [jac_tree]. do 2 f_equal. apply map_ext_Forall.
        eapply Forall_impl; [|exact Hleaf]. intros t [d ->]. cbn [jac_tree].
        rewrite jac_leaf_nils by assumption. reflexivity.
Qed.

(* ---------- the expected structure ignores the configuration ---------- *)
Lemma expected_config_free : forall c1 c2 r rs ps,
  expected (CRes c1 r) = expected (CRes c2 r) /\
  expected (CBatch c1 rs) = expected (CBatch c2 rs) /\
  expected (CJac c1 r ps) = expected (CJac c2 r ps) /\
  expected (CRes c1 r) = expected (CStruct r).
Proof. intros; repeat split; reflexivity. Qed.
