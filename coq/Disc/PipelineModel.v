(* Model of pennylane/core/transforms/compile_pipeline.py (class CompilePipeline) and of the parts of
   core/transforms/transform.py it relies on (BoundTransform.__eq__, BoundTransform.expand_transform).
   No proofs here: this file must keep running for the correspondence check even when a proof breaks.

   Part A  ROUTING    CompilePipeline.__call__ on a batch of tapes (__call_tapes, _batch_postprocessing,
                      _apply_postprocessing_stack) for arbitrary transforms, plus the synthetic
                      term-algebra instance used by the correspondence run.
   Part B  CONTAINER  append, +=, +, radd, *, insert, pop, remove, [] (int and slice), markers.
                      The marker arithmetic is transcribed as written, quirks included. *)
From Coq Require Import List ZArith Bool.
Import ListNotations.
Open Scope Z_scope.

(* ===================================================================== Part A: routing *)
Section Routing.
  Context {T R : Type}.

  (* a (bound) tape transform: tape -> (new tapes, post-processing over the list of their results) *)
  Definition transform := T -> list T * (list R -> R).

  (* Python results[slice(s, e)] with s <= e *)
  Definition slice_of (l : list R) (s e : nat) : list R := firstn (e - s) (skipn s l).

  (* the inner loop "for tape_idx, tape in enumerate(tapes)" with the running counter `start`:
     execution_tapes.extend(new_tapes); fns.append(fn); slices.append(slice(start, end)) *)
  Fixpoint step_loop (f : transform) (tapes : list T) (start : nat)
    : list T * list ((list R -> R) * (nat * nat)) :=
    match tapes with
    | [] => ([], [])
    | t :: rest =>
        let new := fst (f t) in
        let fn := snd (f t) in
        let e := (start + length new)%nat in
        let r := step_loop f rest e in
        (new ++ fst r, (fn, (start, e)) :: snd r)
    end.

  (* _batch_postprocessing: tuple(fn(results[sl]) for fn, sl in zip(fns, slices)) *)
  Definition batch_post (fs : list ((list R -> R) * (nat * nat))) (results : list R) : list R :=
    map (fun p => fst p (slice_of results (fst (snd p)) (snd (snd p)))) fs.

  (* the outer loop "for bound_transform in self": processing_fns_stack.append(...); tapes = execution_tapes *)
  Fixpoint call_loop (p : list transform) (tapes : list T) (stack : list (list R -> list R))
    : list T * list (list R -> list R) :=
    match p with
    | [] => (tapes, stack)
    | f :: rest => let r := step_loop f tapes 0%nat in
                   call_loop rest (fst r) (stack ++ [batch_post (snd r)])
    end.

  (* _apply_postprocessing_stack: for postprocessing in reversed(stack): results = postprocessing(results) *)
  Definition apply_stack (stack : list (list R -> list R)) (results : list R) : list R :=
    fold_left (fun r post => post r) (rev stack) results.

  (* __call_tapes (cotransform_cache = None): "if not self: return tapes, null_postprocessing" *)
  Definition call_tapes (p : list transform) (tapes : list T) : list T * (list R -> list R) :=
    match p with
    | [] => (tapes, fun r => r)
    | _ => let r := call_loop p tapes [] in (fst r, apply_stack (snd r))
    end.

  (* the specification side: apply the transforms one after another, by hand, to ONE tape *)
  Fixpoint by_hand (p : list transform) (run : T -> R) (t : T) : R :=
    match p with
    | [] => run t
    | f :: rest => snd (f t) (map (by_hand rest run) (fst (f t)))
    end.
End Routing.

(* ---- synthetic instance: free term algebras for tapes and results ---- *)
Inductive tape := TBase (b : Z) | TF (tid j : Z) (t : tape).
Inductive res := RRun (t : tape) | RPost (tid : Z) (t : tape) (rs : list res).

(* s_kind 0: children F(tid, j, t), j < fan-out;  1: fan-out copies of the input tape itself.
   s_post 0: post-processing builds the node RPost tid t results;  1: returns results[0] when there is one.
   fan-out = s_fans[weight(t) mod len(s_fans)] -- depends on the tape, so batches become uneven *)
Record syn := mkSyn { s_tid : Z; s_kind : Z; s_post : Z; s_fans : list Z }.

Fixpoint weight (t : tape) : Z := match t with TBase b => b | TF _ j t' => weight t' + j + 1 end.

Definition fanout (s : syn) (t : tape) : Z :=
  match s_fans s with
  | [] => 1
  | _ => nth (Z.to_nat (weight t mod Z.of_nat (length (s_fans s)))) (s_fans s) 0
  end.

Fixpoint children (tid : Z) (t : tape) (k : nat) (j : Z) : list tape :=
  match k with O => [] | S k' => TF tid j t :: children tid t k' (j + 1) end.

Definition syn_tapes (s : syn) (t : tape) : list tape :=
  let k := Z.to_nat (fanout s t) in
  if s_kind s =? 0 then children (s_tid s) t k 0 else repeat t k.

Definition syn_post (s : syn) (t : tape) (rs : list res) : res :=
  if s_post s =? 0 then RPost (s_tid s) t rs
  else match rs with r :: _ => r | [] => RPost (s_tid s) t [] end.

Definition syn_transform (s : syn) : @transform tape res := fun t => (syn_tapes s t, syn_post s t).

Fixpoint tape_eqb (a b : tape) : bool :=
  match a, b with
  | TBase x, TBase y => x =? y
  | TF i j t, TF i' j' t' => (i =? i') && (j =? j') && tape_eqb t t'
  | _, _ => false
  end.

Fixpoint res_eqb (a b : res) : bool :=
  match a, b with
  | RRun t, RRun t' => tape_eqb t t'
  | RPost i t rs, RPost i' t' rs' =>
      (i =? i') && tape_eqb t t' &&
      (fix go (l l' : list res) : bool :=
         match l, l' with
         | [], [] => true
         | x :: r, y :: r' => res_eqb x y && go r r'
         | _, _ => false
         end) rs rs'
  | _, _ => false
  end.

Fixpoint list_eqb {A} (eq : A -> A -> bool) (a b : list A) : bool :=
  match a, b with [], [] => true | x :: r, y :: s => eq x y && list_eqb eq r s | _, _ => false end.

(* one routing case: (pipeline, batch) with the observed (execution tapes, post-processed results of
   the executor RRun).  The model's by_hand is compared too (the implementation side computes its own). *)
Definition route_case := (list syn * list tape * (list tape * list res * list res))%type.

Definition check_route (c : route_case) : bool :=
  let '(p, batch, (out_obs, post_obs, hand_obs)) := c in
  let r := call_tapes (map syn_transform p) batch in
  list_eqb tape_eqb (fst r) out_obs &&
  list_eqb res_eqb (snd r (map RRun (fst r))) post_obs &&
  list_eqb res_eqb (map (by_hand (map syn_transform p) RRun) batch) hand_obs.

(* ===================================================================== Part B: container *)
(* A BoundTransform as far as the container can see it:
   b_obj   identity of the underlying Transform object (-1: a fresh one, as made by .expand_transform)
   b_tid   the tape_transform function together with args/kwargs
   b_exp   the expand_transform function of the underlying Transform, if any
   b_final is_final_transform *)
Record bt := mkBT { b_obj : Z; b_tid : Z; b_exp : option Z; b_final : bool }.

(* BoundTransform.__eq__ : args, tape_transform, pass_name, kwargs, cotransform, is_informative,
   is_final_transform -- the expand_transform and the Transform object are NOT compared *)
Definition bt_eqb (a b : bt) : bool := (b_tid a =? b_tid b) && Bool.eqb (b_final a) (b_final b).

(* BoundTransform.expand_transform : BoundTransform(Transform(expand_fn), args, kwargs) or None *)
Definition expand_of (t : bt) : option bt :=
  match b_exp t with Some e => Some (mkBT (-1) e None false) | None => None end.

(* transforms = [other]; if expand_transform: transforms.insert(0, expand_transform) *)
Definition with_expand (t : bt) : list bt :=
  match expand_of t with Some e => [e; t] | None => [t] end.

(* _markers : dict label -> level, in insertion order *)
Definition markers := list (Z * Z).
Record pipe := mkP { items : list bt; marks : markers }.

Definition empty_pipe : pipe := mkP [] [].
Definition dflt : bt := mkBT 0 0 None false.
Definition zlen {A} (l : list A) : Z := Z.of_nat (length l).
Definition has_final (l : list bt) : bool := existsb b_final l.

Fixpoint dict_mem (k : Z) (m : markers) : bool :=
  match m with [] => false | kv :: r => (fst kv =? k) || dict_mem k r end.
Fixpoint dict_get (k : Z) (m : markers) : option Z :=
  match m with [] => None | kv :: r => if fst kv =? k then Some (snd kv) else dict_get k r end.
Fixpoint dict_set (k v : Z) (m : markers) : markers :=
  match m with
  | [] => [(k, v)]
  | kv :: r => if fst kv =? k then (k, v) :: r else kv :: dict_set k v r
  end.
Fixpoint dict_del (k : Z) (m : markers) : markers :=
  match m with [] => [] | kv :: r => if fst kv =? k then r else kv :: dict_del k r end.
Definition map_levels (f : Z -> Z) (m : markers) : markers := map (fun kv => (fst kv, f (snd kv))) m.
(* for name, pos in other._markers.items(): markers[name] = pos + offset *)
Definition merge_offset (m other : markers) (off : Z) : markers :=
  fold_left (fun acc kv => dict_set (fst kv) (snd kv + off) acc) other m.

(* ---- Python list primitives with integer indices ---- *)
(* list.insert(i, x): negative indices count from the end, everything is clamped to [0, len] *)
Definition py_insert_pos (n i : Z) : Z := if i <? 0 then Z.max 0 (n + i) else Z.min i n.
Definition list_insert {A} (i : Z) (x : A) (l : list A) : list A :=
  let k := Z.to_nat (py_insert_pos (zlen l) i) in firstn k l ++ x :: skipn k l.
(* list[i] / list.pop(i): None = IndexError *)
Definition py_index (n i : Z) : option Z :=
  let j := if i <? 0 then n + i else i in
  if (0 <=? j) && (j <? n) then Some j else None.
Definition del_at {A} (k : nat) (l : list A) : list A := firstn k l ++ skipn (S k) l.
Definition nthz (l : list bt) (i : Z) : bt := nth (Z.to_nat i) l dflt.
Fixpoint repeat_list {A} (l : list A) (n : nat) : list A :=
  match n with O => [] | S k => l ++ repeat_list l k end.

(* ---- the container operations.  (new state of self, raised?) for in-place operations,
        option for operations that build a new pipeline (None = an exception is raised) ---- *)

(* append *)
Definition append (p : pipe) (t : bt) : pipe * bool :=
  if has_final (items p) && b_final t then (p, true)
  else (mkP (items p ++ with_expand t) (marks p), false).

(* __iadd__ with a pipeline: NOTE the markers of other are merged BEFORE the terminal check raises *)
Definition iadd_pipe (p q : pipe) : pipe * bool :=
  let m' := merge_offset (marks p) (marks q) (zlen (items p)) in
  if has_final (items p) && has_final (items q) then (mkP (items p) m', true)
  else (mkP (items p ++ items q) m', false).
(* __iadd__ with a transform: other = CompilePipeline([expand, other]) *)
Definition iadd_t (p : pipe) (t : bt) : pipe * bool := iadd_pipe p (mkP (with_expand t) []).

(* __add__ *)
Definition add_pipe (p q : pipe) : option pipe :=
  let m' := merge_offset (marks p) (marks q) (zlen (items p)) in
  if has_final (items p) && has_final (items q) then None
  else Some (mkP (items p ++ items q) m').
Definition add_t (p : pipe) (t : bt) : option pipe := add_pipe p (mkP (with_expand t) []).

(* __radd__ : transform + pipeline; the result is built without the markers *)
Definition radd (t : bt) (p : pipe) : option pipe :=
  if has_final (items p) && b_final t then None
  else Some (mkP (with_expand t ++ items p) []).

(* __mul__ / __rmul__ : markers copied unchanged *)
Definition mul (p : pipe) (n : Z) : option pipe :=
  if n <? 0 then None
  else if has_final (items p) then None
  else Some (mkP (repeat_list (items p) (Z.to_nat n)) (marks p)).

(* insert: markers shifted first (comparison with the RAW index, by one), then the terminal check,
   then list.insert(index, transform) and list.insert(index, expand_transform) *)
Definition insert (p : pipe) (i : Z) (t : bt) : pipe * bool :=
  let m' := map_levels (fun v => if v >=? i then v + 1 else v) (marks p) in
  if negb (match items p with [] => true | _ => false end) && b_final t then (mkP (items p) m', true)
  else
    let l1 := list_insert i t (items p) in
    let l2 := match expand_of t with Some e => list_insert i e l1 | None => l1 end in
    (mkP l2 m', false).

(* pop: returns the popped transform; None = IndexError (nothing changed) *)
Definition pop (p : pipe) (i : Z) : pipe * option bt :=
  match py_index (zlen (items p)) i with
  | None => (p, None)
  | Some j =>
      let t := nthz (items p) j in
      let l1 := del_at (Z.to_nat j) (items p) in
      (* index = index if index >= 0 else len(self) + index + 1      (len after the pop) *)
      let idx := if i >=? 0 then i else zlen l1 + i + 1 in
      let m1 := map_levels (fun v => if v >? idx then v - 1 else v) (marks p) in
      let partner :=
        match expand_of t, nth_error l1 (Z.to_nat (idx - 1)) with
        | Some e, Some y => bt_eqb e y
        | _, _ => false
        end in
      if (idx >? 0) && partner
      then (mkP (del_at (Z.to_nat (idx - 1)) l1)
                (map_levels (fun v => if v >? idx - 1 then v - 1 else v) m1), Some t)
      else (mkP l1 m1, Some t)
  end.

(* remove(obj): obj is a Transform (matched by identity of the underlying object) or a BoundTransform
   (matched by __eq__) *)
Inductive robj := RByTransform (obj : Z) | RByBound (t : bt).
Definition rmatch (o : robj) (x : bt) : bool :=
  match o with
  | RByTransform k => (0 <=? k) && (b_obj x =? k)
  | RByBound t => bt_eqb x t
  end.

(* i = len - 1; while i >= 0: ...   here k = i + 1 *)
Fixpoint remove_loop (fuel : nat) (o : robj) (k : nat) (l : list bt) (m : markers) : list bt * markers :=
  match fuel with
  | O => (l, m)
  | S f =>
      match k with
      | O => (l, m)
      | S i =>
          let x := nth i l dflt in
          if rmatch o x then
            let l1 := del_at i l in
            let m1 := map_levels (fun v => if v >? Z.of_nat i then v - 1 else v) m in
            let partner :=
              match expand_of x, i with
              | Some e, S i' => bt_eqb e (nth i' l1 dflt)
              | _, _ => false
              end in
            if partner
            then remove_loop f o (Nat.pred i) (del_at (Nat.pred i) l1)
                   (map_levels (fun v => if v >? Z.of_nat i - 1 then v - 1 else v) m1)
            else remove_loop f o i l1 m1
          else remove_loop f o i l m
      end
  end.
Definition remove (p : pipe) (o : robj) : pipe :=
  let r := remove_loop (S (length (items p))) o (length (items p)) (items p) (marks p) in
  mkP (fst r) (snd r).

(* ---- __getitem__ ---- *)
Definition getitem (p : pipe) (i : Z) : option bt :=
  match py_index (zlen (items p)) i with Some j => Some (nthz (items p) j) | None => None end.

(* slice.indices(len) as in CPython's PySlice_AdjustIndices (step <> 0) *)
Definition adj (n step v : Z) : Z :=
  if v <? 0 then (let v' := v + n in if v' <? 0 then (if step <? 0 then -1 else 0) else v')
  else if v >=? n then (if step <? 0 then n - 1 else n) else v.
Definition slice_indices (n : Z) (start stop : option Z) (step : Z) : Z * Z :=
  (match start with None => if step <? 0 then n - 1 else 0 | Some v => adj n step v end,
   match stop with None => if step <? 0 then -1 else n | Some v => adj n step v end).
Fixpoint slice_elems (fuel : nat) (l : list bt) (i stop step : Z) : list bt :=
  match fuel with
  | O => []
  | S f => if (if step >? 0 then i <? stop else i >? stop)
           then nthz l i :: slice_elems f l (i + step) stop step else []
  end.

(* pipeline[start:stop:step]; None = ValueError (step 0) *)
Definition getslice (p : pipe) (start stop : option Z) (step : Z) : option pipe :=
  if step =? 0 then None else
  let n := zlen (items p) in
  let '(s, e) := slice_indices n start stop step in
  let m' :=
    if step =? 1 then
      let upper := if e =? n then e + 1 else e in
      map_levels (fun v => v - s) (filter (fun kv => (s <=? snd kv) && (snd kv <? upper)) (marks p))
    else [] in
  Some (mkP (slice_elems (S (length (items p))) (items p) s e step) m').

(* ---- markers ---- *)
Definition add_marker (p : pipe) (label : Z) (level : option Z) : pipe * bool :=
  if dict_mem label (marks p) then (p, true)
  else match level with
       | None => (mkP (items p) (dict_set label (zlen (items p)) (marks p)), false)
       | Some v => if (v <? 0) || (v >? zlen (items p)) then (p, true)
                   else (mkP (items p) (dict_set label v (marks p)), false)
       end.
Definition remove_marker (p : pipe) (label : Z) : pipe * bool :=
  if dict_mem label (marks p) then (mkP (items p) (dict_del label (marks p)), false) else (p, true).

(* ---- edit histories for the correspondence run ---- *)
(* a second pipeline given by its construction: CompilePipeline(t1, t2, ...) then add_marker calls *)
Definition pspec := (list bt * list (Z * option Z))%type.
Definition build (q : pspec) : pipe :=
  let p1 := fold_left (fun p t => fst (iadd_t p t)) (fst q) empty_pipe in
  fold_left (fun p lv => fst (add_marker p (fst lv) (snd lv))) (snd q) p1.

Inductive op :=
| OAppend (t : bt)
| OIaddT (t : bt)
| OIaddP (q : pspec)
| OAddT (t : bt)            (* p = p + t *)
| OAddP (q : pspec)         (* p = p + q *)
| ORaddP (q : pspec)        (* p = q + p   (__add__ of q) *)
| ORadd (t : bt)            (* p = t + p   (__radd__ of p) *)
| OMul (n : Z)              (* p = p * n *)
| OInsert (i : Z) (t : bt)
| OPop (i : Z)
| ORemove (o : robj)
| OGet (i : Z)
| OSlice (start stop : option Z) (step : Z)   (* p = p[start:stop:step] *)
| OAddMarker (label : Z) (level : option Z)
| ORemoveMarker (label : Z).

(* what is observed after every step: raised?, list(p), p._markers, the returned transform (pop, []) *)
Definition obs := (bool * list bt * markers * option bt)%type.

Definition of_opt (p : pipe) (r : option pipe) : pipe * bool * option bt :=
  match r with Some q => (q, false, None) | None => (p, true, None) end.
Definition of_inpl (r : pipe * bool) : pipe * bool * option bt := (fst r, snd r, None).

Definition step_op (p : pipe) (o : op) : pipe * bool * option bt :=
  match o with
  | OAppend t => of_inpl (append p t)
  | OIaddT t => of_inpl (iadd_t p t)
  | OIaddP q => of_inpl (iadd_pipe p (build q))
  | OAddT t => of_opt p (add_t p t)
  | OAddP q => of_opt p (add_pipe p (build q))
  | ORaddP q => of_opt p (add_pipe (build q) p)
  | ORadd t => of_opt p (radd t p)
  | OMul n => of_opt p (mul p n)
  | OInsert i t => of_inpl (insert p i t)
  | OPop i => let r := pop p i in
              (fst r, match snd r with None => true | Some _ => false end, snd r)
  | ORemove o => (remove p o, false, None)
  | OGet i => (p, match getitem p i with None => true | Some _ => false end, getitem p i)
  | OSlice a b s => of_opt p (getslice p a b s)
  | OAddMarker l v => of_inpl (add_marker p l v)
  | ORemoveMarker l => of_inpl (remove_marker p l)
  end.

Fixpoint run_history (p : pipe) (ops : list op) : list obs :=
  match ops with
  | [] => []
  | o :: r => let '(p', raised, ret) := step_op p o in
              (raised, items p', marks p', ret) :: run_history p' r
  end.

Definition bt_eq_full (a b : bt) : bool :=
  (b_obj a =? b_obj b) && (b_tid a =? b_tid b) && Bool.eqb (b_final a) (b_final b) &&
  match b_exp a, b_exp b with Some x, Some y => x =? y | None, None => true | _, _ => false end.
Definition zz_eqb (a b : Z * Z) : bool := (fst a =? fst b) && (snd a =? snd b).
Definition obs_eqb (a b : obs) : bool :=
  let '(r, l, m, t) := a in
  let '(r', l', m', t') := b in
  Bool.eqb r r' && list_eqb bt_eq_full l l' && list_eqb zz_eqb m m' &&
  match t, t' with Some x, Some y => bt_eq_full x y | None, None => true | _, _ => false end.

Definition check_history (c : list op * list obs) : bool :=
  list_eqb obs_eqb (run_history empty_pipe (fst c)) (snd c).
