(* C71  Model of qp.snapshots (pennylane/debugging/snapshot.py), Snapshot (ops/meta.py) and the devices'
   apply_snapshot (devices/qubit/apply_operation.py, devices/qubit_mixed/apply_operation.py).
   Definitions only; proofs are in SnapshotsProofs.v.

   A circuit is a list of gates and snapshots over an abstract state type.  Three execution paths:
   * DQ   default.qubit:  _add_snapshot_tags gives untagged snapshots their ordinal as integer tag, the
          device logs   tag not in log -> log[tag] = v ; log[tag] a list -> append ; else [old, v]
   * DM   default.mixed:  same tagging; the device logs  `if op.tag: log[tag] = v else log[len(log)] = v`
          (the integer tag 0 and the empty string are falsy)
   * TAPE devices without a debugger: the tape is split, one tape per snapshot holding the gates
          accumulated so far, keys `op.tag or len(new_tapes)`, results zipped into a dict (last wins).
   Python dict semantics: assigning an existing key keeps its position. *)
From Coq Require Import List ZArith Bool Arith.
Import ListNotations.

Inductive key := KInt (n : nat) | KStr (s : Z).      (* KStr 0 stands for the empty string *)
Definition key_eqb (a b : key) : bool :=
  match a, b with
  | KInt n, KInt m => Nat.eqb n m
  | KStr s, KStr t => Z.eqb s t
  | _, _ => false end.
Definition truthy (k : key) : bool :=
  match k with KInt O => false | KStr 0%Z => false | _ => true end.
(* _add_snapshot_tags: None -> ordinal among all snapshots *)
Definition tag_key (t : option Z) (num : nat) : key :=
  match t with None => KInt num | Some s => KStr s end.
(* snapshots transform: op.tag or len(new_tapes) *)
Definition tape_key (t : option Z) (num : nat) : key :=
  match t with None => KInt num | Some s => if Z.eqb s 0 then KInt num else KStr s end.

Section Snap.
  Variables (G St K V : Type).
  Variable apply : G -> St -> St.
  Variable measure : K -> St -> V.

  Inductive instr := Gate (g : G) | Snap (tag : option Z) (k : K).
  Inductive entry := One (v : V) | Many (l : list V).
  Definition log := list (key * entry).

  Fixpoint lookup (k : key) (l : log) : option entry :=
    match l with [] => None | (k', e) :: r => if key_eqb k k' then Some e else lookup k r end.
  (* d[k] = e *)
  Fixpoint set (k : key) (e : entry) (l : log) : log :=
    match l with
    | [] => [(k, e)]
    | (k', e') :: r => if key_eqb k k' then (k, e) :: r else (k', e') :: set k e r end.

  Definition upd_dq (k : key) (v : V) (l : log) : log :=
    match lookup k l with
    | None => set k (One v) l
    | Some (Many vs) => set k (Many (vs ++ [v])) l
    | Some (One v0) => set k (Many [v0; v]) l end.
  Definition upd_dm (k : key) (v : V) (l : log) : log :=
    if truthy k then set k (One v) l else set (KInt (length l)) (One v) l.

  (* device execution: gates update the state, a snapshot measures the CURRENT state and logs it *)
  Fixpoint exec_dev (upd : key -> V -> log -> log) (c : list instr) (st : St) (num : nat) (l : log)
    : St * log :=
    match c with
    | [] => (st, l)
    | Gate g :: r => exec_dev upd r (apply g st) num l
    | Snap t k :: r => exec_dev upd r st (S num) (upd (tag_key t num) (measure k st) l)
    end.

  Definition run (gs : list G) (st : St) : St := fold_left (fun s g => apply g s) gs st.

  (* tape splitting *)
  Fixpoint split (c : list instr) (acc : list G) (ntapes : nat) : list (key * list G * K) * list G :=
    match c with
    | [] => ([], acc)
    | Gate g :: r => split r (acc ++ [g]) ntapes
    | Snap t k :: r => let '(ts, fin) := split r acc (S ntapes) in ((tape_key t ntapes, acc, k) :: ts, fin)
    end.
  Definition exec_tape (c : list instr) (init : St) : St * log :=
    let '(ts, fin) := split c [] 0 in
    (run fin init,
     fold_left (fun l x => match x with (k, ops, m) => set k (One (measure m (run ops init))) l end) ts []).

  Inductive mode := DQ | DM | TAPE.
  Definition exec (m : mode) (c : list instr) (init : St) : St * log :=
    match m with
    | DQ => exec_dev upd_dq c init 0 []
    | DM => exec_dev upd_dm c init 0 []
    | TAPE => exec_tape c init end.

  (* ---------------------------------------------------------------- specification side *)
  Fixpoint gates_of (c : list instr) : list G :=
    match c with [] => [] | Gate g :: r => g :: gates_of r | Snap _ _ :: r => gates_of r end.
  Fixpoint nsnaps (c : list instr) : nat :=
    match c with [] => O | Gate _ :: r => nsnaps r | Snap _ _ :: r => S (nsnaps r) end.
  (* the snapshots of c, in order: (tag, ordinal, kind, value of the circuit truncated there) *)
  Fixpoint occs_from (pre c : list instr) (init : St) : list (option Z * nat * V) :=
    match c with
    | [] => []
    | Gate g :: r => occs_from (pre ++ [Gate g]) r init
    | Snap t k :: r =>
        (t, nsnaps pre, measure k (run (gates_of pre) init)) :: occs_from (pre ++ [Snap t k]) r init
    end.
  Definition occs (c : list instr) (init : St) := occs_from [] c init.
  Definition pack (vs : list V) : option entry :=
    match vs with [] => None | [v] => Some (One v) | _ => Some (Many vs) end.
  (* keys in order of first appearance *)
  Definition add_key (acc : list key) (k : key) : list key :=
    if existsb (key_eqb k) acc then acc else acc ++ [k].
  Definition first_seen (ks : list key) : list key := fold_left add_key ks [].
  Definition vals (k : key) (kvs : list (key * V)) : list V :=
    map snd (filter (fun kv => key_eqb k (fst kv)) kvs).
  Definition pack_last (vs : list V) : option entry :=
    match rev vs with [] => None | v :: _ => Some (One v) end.
  Definition dev_kvs (c : list instr) (init : St) : list (key * V) :=
    map (fun o => match o with (t, ord, v) => (tag_key t ord, v) end) (occs c init).
  Definition tape_kvs (c : list instr) (init : St) : list (key * V) :=
    map (fun o => match o with (t, ord, v) => (tape_key t ord, v) end) (occs c init).
  Fixpoint erase (c : list instr) : list instr :=
    match c with [] => [] | Gate g :: r => Gate g :: erase r | Snap _ _ :: r => erase r end.
  Fixpoint no_empty (c : list instr) : bool :=
    match c with [] => true | Snap (Some 0%Z) _ :: _ => false | _ :: r => no_empty r end.
End Snap.

(* ================================================================== concrete instance for the tie
   gates and measurement kinds are integer identifiers, a state is the list of gates applied so far, a
   value records (kind, state).  Observed values are matched numerically (harness) against the exact
   reference of every (kind, prefix length); the model's value must be among the candidates. *)
Definition cval := (Z * list Z)%type.
Definition c_exec (m : nat) (c : list (instr Z Z)) : list Z * log cval :=
  exec Z (list Z) Z cval (fun g st => st ++ [g]) (fun k st => (k, st))
       (match m with O => DQ | S O => DM | _ => TAPE end) c [].

Definition cand_ok (v : cval) (cands : list (Z * Z)) : bool :=
  existsb (fun kp => Z.eqb (fst kp) (fst v) && Z.eqb (snd kp) (Z.of_nat (length (snd v)))) cands.
Fixpoint all2 {A B} (f : A -> B -> bool) (l : list A) (m : list B) : bool :=
  match l, m with
  | [], [] => true
  | x :: l', y :: m' => f x y && all2 f l' m'
  | _, _ => false end.
(* expected entry: key, is-a-list flag, candidates per value *)
Definition entry_ok (e : key * entry cval) (x : key * bool * list (list (Z * Z))) : bool :=
  let '(k, many, cands) := x in
  key_eqb (fst e) k &&
  match snd e with
  | One _ v => negb many && all2 cand_ok [v] cands
  | Many _ vs => many && all2 cand_ok vs cands end.

(* input (mode, circuit); expected (entries in dict order, candidates for the final prefix length) *)
Definition check_case (x : (nat * list (instr Z Z)) * (list (key * bool * list (list (Z * Z))) * list Z)) : bool :=
  let '((m, c), (ents, fin)) := x in
  let '(st, l) := c_exec m c in
  all2 entry_ok l ents && existsb (Z.eqb (Z.of_nat (length st))) fin.
